/* Link-time interposers for the correspondence harness.
 *
 *   -Wl,--wrap=clock            : count clock reads, optionally jump the clock forward from the k-th read on (C18)
 *   -Wl,--wrap=_CMRallocStack   : shadow stack (bracket discipline, C11/C18/C19), ASan red zones around every
 *   -Wl,--wrap=_CMRfreeStack      scratch chunk (the arena is one malloc block, invisible to ASan otherwise),
 *                                 seed-dependent fill of fresh chunks (C19: reads of uninitialised scratch memory
 *                                 become visible as output differences between fill patterns).
 */
#include <stdio.h>
#include <stdlib.h>
#include <string.h>
#include <time.h>
#include <stdint.h>
#include <cmr/env.h>
#include "hwrap.h"

#if defined(__SANITIZE_ADDRESS__)
#include <sanitizer/asan_interface.h>
#define POISON(p, n) ASAN_POISON_MEMORY_REGION(p, n)
#define UNPOISON(p, n) ASAN_UNPOISON_MEMORY_REGION(p, n)
#else
#define POISON(p, n) ((void) 0)
#define UNPOISON(p, n) ((void) 0)
#endif

/* ---- clock ---- */

clock_t __real_clock(void);

__thread long hw_clock_reads = 0;
__thread long hw_clock_inject_at = 0; /* 0 = never */
__thread long hw_clock_fired = 0;

clock_t __wrap_clock(void)
{
  ++hw_clock_reads;
  clock_t t = __real_clock();
  if (hw_clock_inject_at > 0 && hw_clock_reads >= hw_clock_inject_at)
  {
    ++hw_clock_fired;
    return t + (clock_t) 100000 * CLOCKS_PER_SEC;
  }
  return t;
}

/* ---- scratch stack ---- */

CMR_ERROR __real__CMRallocStack(CMR* cmr, void** ptr, size_t size);
CMR_ERROR __real__CMRfreeStack(CMR* cmr, void** ptr);

#define HW_MAXDEPTH 65536
typedef struct { char* orig; char* user; size_t size; size_t real; } HW_CHUNK;

__thread HW_CHUNK* hw_shadow = NULL;
__thread size_t hw_depth = 0;
__thread size_t hw_maxdepth = 0;
__thread long hw_allocs = 0, hw_frees = 0;
__thread long hw_order_violations = 0;
__thread size_t hw_redzone = 0;
__thread int hw_fill = -1; /* -1: none, else byte */
__thread int hw_trace = 0;
__thread char* hw_tracebuf = NULL;
__thread size_t hw_tracelen = 0, hw_tracecap = 0;

static void trace_add(const char* s)
{
  size_t n = strlen(s);
  if (hw_tracelen + n + 1 > hw_tracecap)
  {
    hw_tracecap = 2 * (hw_tracecap + n + 64);
    hw_tracebuf = (char*) realloc(hw_tracebuf, hw_tracecap);
  }
  memcpy(hw_tracebuf + hw_tracelen, s, n + 1);
  hw_tracelen += n;
}

void hw_trace_reset(void) { hw_tracelen = 0; if (hw_tracebuf) hw_tracebuf[0] = 0; }

CMR_ERROR __wrap__CMRallocStack(CMR* cmr, void** ptr, size_t size)
{
  if (!hw_shadow)
    hw_shadow = (HW_CHUNK*) malloc(HW_MAXDEPTH * sizeof(HW_CHUNK));
  size_t rz = hw_redzone;
  size_t real = size + 2 * rz;
  CMR_ERROR e = __real__CMRallocStack(cmr, ptr, real);
  if (e)
    return e;
  ++hw_allocs;
  char* orig = (char*) *ptr;
  size_t eff = real < 4 ? 4 : real; /* the allocator rounds tiny requests up to 4 */
  char* user = orig + rz;
  if (hw_fill >= 0)
    memset(orig, hw_fill, eff);
  if (rz)
  {
    POISON(orig, rz);
    POISON(user + size, eff - rz - size);
  }
  if (hw_depth < HW_MAXDEPTH)
  {
    hw_shadow[hw_depth].orig = orig;
    hw_shadow[hw_depth].user = user;
    hw_shadow[hw_depth].size = size;
    hw_shadow[hw_depth].real = eff;
  }
  ++hw_depth;
  if (hw_depth > hw_maxdepth)
    hw_maxdepth = hw_depth;
  if (hw_trace)
  {
    char b[32]; snprintf(b, 32, " a:%zu", real); trace_add(b);
  }
  *ptr = user;
  return CMR_OKAY;
}

CMR_ERROR __wrap__CMRfreeStack(CMR* cmr, void** ptr)
{
  ++hw_frees;
  if (hw_depth == 0)
  {
    ++hw_order_violations;
    return __real__CMRfreeStack(cmr, ptr);
  }
  --hw_depth;
  if (hw_trace)
    trace_add(" f");
  if (hw_depth < HW_MAXDEPTH)
  {
    HW_CHUNK* c = &hw_shadow[hw_depth];
    if (c->user != (char*) *ptr)
      ++hw_order_violations;
    UNPOISON(c->orig, c->real);
    void* p = c->orig;
    CMR_ERROR e = __real__CMRfreeStack(cmr, &p);
    *ptr = NULL;
    return e;
  }
  return __real__CMRfreeStack(cmr, ptr);
}
