#ifndef HWRAP_H
#define HWRAP_H
#include <stddef.h>
extern __thread long hw_clock_reads, hw_clock_inject_at, hw_clock_fired;
extern __thread size_t hw_depth, hw_maxdepth, hw_redzone;
extern __thread long hw_allocs, hw_frees, hw_order_violations;
extern __thread int hw_fill, hw_trace;
extern __thread char* hw_tracebuf;
void hw_trace_reset(void);
#endif
