/* Graph-related operations: graphic/cographic/network/conetwork recognition with certificates, representation-matrix
 * construction from (di)graphs, edge-list reader. */
#include "cmrh.h"
#include <cmr/graphic.h>
#include <cmr/network.h>

/* graphic <t 0|1> <wantgraph 0|1> <wantsub 0|1> M
 *   -> yes|no  [G ... F k e.. K k e..]  [S ...] */
static CMR_ERROR op_graphic(CMR* cmr, TOKS* t, OUT* o)
{
  int transposed = (int) tk_int(t), wantgraph = (int) tk_int(t), wantsub = (int) tk_int(t);
  CMR_CHRMAT* A = NULL;
  HCALL( in_chrmat(cmr, t, &A) );
  if (t->bad) { CMRchrmatFree(cmr, &A); return CMR_OKAY; }
  bool is = false;
  CMR_GRAPH* g = NULL; CMR_GRAPH_EDGE* forest = NULL; CMR_GRAPH_EDGE* coforest = NULL; CMR_SUBMAT* sub = NULL;
  uint64_t s0 = sum_chrmat(A);
  CMR_ERROR e = (transposed ? CMRgraphicTestTranspose : CMRgraphicTestMatrix)(cmr, A, &is, wantgraph ? &g : NULL,
    wantgraph ? &forest : NULL, wantgraph ? &coforest : NULL, wantsub ? &sub : NULL, NULL, h_time_limit);
  if (sum_chrmat(A) != s0) h_input_modified = 1;
  if (!e)
  {
    out_str(o, is ? " yes" : " no");
    /* for the transposed entry point forest edges are indexed by columns, coforest edges by rows */
    size_t nf = transposed ? A->numColumns : A->numRows, nc = transposed ? A->numRows : A->numColumns;
    if (g)
    {
      out_graph(o, g);
      out_fmt(o, " F %zu", forest ? nf : 0);
      if (forest) for (size_t i = 0; i < nf; ++i) out_fmt(o, " %d", forest[i]);
      out_fmt(o, " K %zu", coforest ? nc : 0);
      if (coforest) for (size_t i = 0; i < nc; ++i) out_fmt(o, " %d", coforest[i]);
    }
    else out_str(o, " -");
    out_submat(o, sub);
  }
  else out_fmt(o, " outs=%d%d", g ? 1 : 0, sub ? 1 : 0);
  if (g) CMRgraphFree(cmr, &g);
  if (forest) CMRfreeBlockArray(cmr, &forest);
  if (coforest) CMRfreeBlockArray(cmr, &coforest);
  if (sub) CMRsubmatFree(cmr, &sub);
  CMRchrmatFree(cmr, &A);
  return e;
}

/* network <t 0|1> <wantgraph> <wantsub> M -> yes|no supp=yes|no [G.. F.. K.. A bits] [S..] */
static CMR_ERROR op_network(CMR* cmr, TOKS* t, OUT* o)
{
  int transposed = (int) tk_int(t), wantgraph = (int) tk_int(t), wantsub = (int) tk_int(t);
  CMR_CHRMAT* A = NULL;
  HCALL( in_chrmat(cmr, t, &A) );
  if (t->bad) { CMRchrmatFree(cmr, &A); return CMR_OKAY; }
  bool is = false, supp = false;
  CMR_GRAPH* g = NULL; CMR_GRAPH_EDGE* forest = NULL; CMR_GRAPH_EDGE* coforest = NULL; bool* reversed = NULL;
  CMR_SUBMAT* sub = NULL;
  uint64_t s0 = sum_chrmat(A);
  /* wantsub == 2: the submatrix is requested but the (optional) support flag is not */
  int nosupp = wantsub == 2;
  CMR_ERROR e = (transposed ? CMRnetworkTestTranspose : CMRnetworkTestMatrix)(cmr, A, &is, nosupp ? NULL : &supp, wantgraph ? &g : NULL,
    wantgraph ? &forest : NULL, wantgraph ? &coforest : NULL, wantgraph ? &reversed : NULL, wantsub ? &sub : NULL, NULL,
    h_time_limit);
  if (sum_chrmat(A) != s0) h_input_modified = 1;
  if (!e)
  {
    out_str(o, is ? " yes" : " no");
    out_str(o, nosupp ? " supp=-" : supp ? " supp=yes" : " supp=no");
    size_t nf = transposed ? A->numColumns : A->numRows, nc = transposed ? A->numRows : A->numColumns;
    if (g)
    {
      out_graph(o, g);
      out_fmt(o, " F %zu", forest ? nf : 0);
      if (forest) for (size_t i = 0; i < nf; ++i) out_fmt(o, " %d", forest[i]);
      out_fmt(o, " K %zu", coforest ? nc : 0);
      if (coforest) for (size_t i = 0; i < nc; ++i) out_fmt(o, " %d", coforest[i]);
      if (reversed)
      {
        out_str(o, " A");
        for (CMR_GRAPH_ITER i = CMRgraphEdgesFirst(g); CMRgraphEdgesValid(g, i); i = CMRgraphEdgesNext(g, i))
          out_fmt(o, " %d", reversed[CMRgraphEdgesEdge(g, i)] ? 1 : 0);
      }
      else out_str(o, " a");
    }
    else out_str(o, " -");
    out_submat(o, sub);
  }
  else out_fmt(o, " outs=%d%d", g ? 1 : 0, sub ? 1 : 0);
  if (g) CMRgraphFree(cmr, &g);
  if (forest) CMRfreeBlockArray(cmr, &forest);
  if (coforest) CMRfreeBlockArray(cmr, &coforest);
  if (reversed) CMRfreeBlockArray(cmr, &reversed);
  if (sub) CMRsubmatFree(cmr, &sub);
  CMRchrmatFree(cmr, &A);
  return e;
}

/* repmat <directed 0|1> <outs: 1 matrix, 2 transpose, 3 both> numNodes numEdges (u v rev)*  nF f.. nK k..
 *   edges are numbered 0..numEdges-1 in the order given; forest/coforest lists refer to these numbers
 *   (nF = -1: pass NULL forest; nK = -1: pass NULL coforest)
 *   -> correct=0|1 M.. Mt.. */
static CMR_ERROR op_repmat(CMR* cmr, TOKS* t, OUT* o)
{
  int directed = (int) tk_int(t), outs = (int) tk_int(t);
  long nn = (long) tk_int(t), ne = (long) tk_int(t);
  if (t->bad || nn < 0 || ne < 0 || nn > 100000 || 3 * ne > tk_left(t)) { t->bad = 1; return CMR_OKAY; }
  CMR_GRAPH* g = NULL;
  HCALL( CMRgraphCreateEmpty(cmr, &g, (int) nn + 1, (int) ne + 1) );
  CMR_GRAPH_NODE* nodes = (CMR_GRAPH_NODE*) malloc((nn + 1) * sizeof(CMR_GRAPH_NODE));
  for (long i = 0; i < nn; ++i) CMRgraphAddNode(cmr, g, &nodes[i]);
  CMR_GRAPH_EDGE* edges = (CMR_GRAPH_EDGE*) malloc((ne + 1) * sizeof(CMR_GRAPH_EDGE));
  bool* rev = (bool*) calloc(ne + 1, sizeof(bool));
  bool* revById = NULL;
  for (long i = 0; i < ne; ++i)
  {
    long u = (long) tk_int(t), v = (long) tk_int(t), r = (long) tk_int(t);
    if (u < 0 || v < 0 || u >= nn || v >= nn) { t->bad = 1; break; }
    CMRgraphAddEdge(cmr, g, nodes[u], nodes[v], &edges[i]);
    rev[i] = r != 0;
  }
  long nF = 0, nK = 0;
  CMR_GRAPH_EDGE* F = NULL; CMR_GRAPH_EDGE* K = NULL;
  if (!t->bad)
  {
    nF = (long) tk_int(t);
    if (nF >= 0 && nF <= tk_left(t)) { F = (CMR_GRAPH_EDGE*) malloc((nF + 1) * sizeof(CMR_GRAPH_EDGE)); for (long i = 0; i < nF; ++i) { long x = (long) tk_int(t); if (x < 0 || x >= ne) t->bad = 1; else F[i] = edges[x]; } }
    else if (nF > 0) t->bad = 1;
    nK = (long) tk_int(t);
    if (nK >= 0 && nK <= tk_left(t)) { K = (CMR_GRAPH_EDGE*) malloc((nK + 1) * sizeof(CMR_GRAPH_EDGE)); for (long i = 0; i < nK; ++i) { long x = (long) tk_int(t); if (x < 0 || x >= ne) t->bad = 1; else K[i] = edges[x]; } }
    else if (nK > 0) t->bad = 1;
  }
  CMR_ERROR e = CMR_OKAY;
  if (!t->bad)
  {
    /* arcsReversed is indexed by edge id */
    size_t mem = CMRgraphMemEdges(g);
    revById = (bool*) calloc(mem + 1, sizeof(bool));
    for (long i = 0; i < ne; ++i) revById[edges[i]] = rev[i];
    CMR_CHRMAT* M = NULL; CMR_CHRMAT* Mt = NULL; bool correct = false;
    if (directed)
      e = CMRnetworkComputeMatrix(cmr, g, (outs & 1) ? &M : NULL, (outs & 2) ? &Mt : NULL, revById, nF < 0 ? 0 : (int) nF, F,
        nK < 0 ? 0 : (int) nK, K, &correct);
    else
      e = CMRgraphicComputeMatrix(cmr, g, (outs & 1) ? &M : NULL, (outs & 2) ? &Mt : NULL, nF < 0 ? 0 : (int) nF, F,
        nK < 0 ? 0 : (int) nK, K, &correct);
    if (!e)
    {
      out_fmt(o, " correct=%d", correct ? 1 : 0);
      out_chrmat(o, M);
      out_chrmat(o, Mt);
    }
    if (M) CMRchrmatFree(cmr, &M);
    if (Mt) CMRchrmatFree(cmr, &Mt);
  }
  free(revById); free(rev); free(edges); free(nodes); free(F); free(K);
  CMRgraphFree(cmr, &g);
  return e;
}

OPDEF ops_graph[] = {
  { "graphic", op_graphic },
  { "network", op_network },
  { "repmat", op_repmat },
  { NULL, NULL }
};
