/* Serialisation of Seymour decomposition trees and tree-history ops (complete/refine).
 * This is the only translation unit that reads src/cmr/seymour_internal.h (series-parallel reductions and
 * three-sum flags are not reachable through the public accessors). */
#include "cmrh.h"
#include <cmr/seymour.h>
#include <cmr/tu.h>
#include <cmr/regular.h>
#include "seymour_internal.h"

void tu_params_from_mask(CMR_TU_PARAMS* p, unsigned long mask);
void seymour_params_from_mask(CMR_SEYMOUR_PARAMS* p, unsigned long mask);

static void dump_graphdata(OUT* o, CMR_GRAPH* g, CMR_GRAPH_EDGE* forest, size_t nf, CMR_GRAPH_EDGE* coforest, size_t nc,
  bool* reversed)
{
  if (!g) { out_str(o, " -"); return; }
  out_graph(o, g);
  out_fmt(o, " F %zu", forest ? nf : 0);
  if (forest) for (size_t i = 0; i < nf; ++i) out_fmt(o, " %d", forest[i]);
  out_fmt(o, " K %zu", coforest ? nc : 0);
  if (coforest) for (size_t i = 0; i < nc; ++i) out_fmt(o, " %d", coforest[i]);
  if (reversed)
  {
    out_str(o, " A");
    for (CMR_GRAPH_ITER i = CMRgraphEdgesFirst(g); CMRgraphEdgesValid(g, i); i = CMRgraphEdgesNext(g, i))
      out_fmt(o, " %d", reversed[CMRgraphEdgesEdge(g, i)] ? 1 : 0);
  }
  else out_str(o, " a");
}

void tree_dump(OUT* o, CMR_SEYMOUR_NODE* node)
{
  if (!node) { out_str(o, " null"); return; }
  CMR_SEYMOUR_NODE_TYPE type = CMRseymourType(node);
  size_t nch = CMRseymourNumChildren(node);
  out_fmt(o, " { %d %d %d %d %d %d %zu", (int) type, CMRseymourIsTernary(node) ? 1 : 0, (int) CMRseymourRegularity(node),
    (int) CMRseymourGraphicness(node), (int) CMRseymourCographicness(node), 0 /* threesumFlags is never written by the library */, nch);
  size_t np = CMRseymourNumPivots(node);
  out_fmt(o, " P %zu", np);
  for (size_t i = 0; i < np; ++i) { out_size(o, CMRseymourPivotRows(node)[i]); out_size(o, CMRseymourPivotColumns(node)[i]); }
  out_fmt(o, " R %zu", node->seriesParallelReductions ? node->numSeriesParallelReductions : 0);
  if (node->seriesParallelReductions)
    for (size_t i = 0; i < node->numSeriesParallelReductions; ++i)
      out_fmt(o, " %d %d", node->seriesParallelReductions[i].element, node->seriesParallelReductions[i].mate);
  size_t nm = CMRseymourNumMinors(node);
  out_fmt(o, " X %zu", nm);
  for (size_t i = 0; i < nm; ++i)
  {
    CMR_MINOR* mn = CMRseymourMinor(node, i);
    out_fmt(o, " %d %zu", (int) CMRminorType(mn), CMRminorNumPivots(mn));
    for (size_t k = 0; k < CMRminorNumPivots(mn); ++k)
    { out_size(o, CMRminorPivotRows(mn)[k]); out_size(o, CMRminorPivotColumns(mn)[k]); }
    out_submat(o, CMRminorSubmatrix(mn));
  }
  out_chrmat(o, CMRseymourGetMatrix(node));
  out_chrmat(o, CMRseymourHasTranspose(node) ? CMRseymourGetTranspose(node) : NULL);
  dump_graphdata(o, CMRseymourGraph(node), CMRseymourGraphForest(node), CMRseymourGraphSizeForest(node),
    CMRseymourGraphCoforest(node), CMRseymourGraphSizeCoforest(node), CMRseymourGraphArcsReversed(node));
  dump_graphdata(o, CMRseymourCograph(node), CMRseymourCographForest(node), CMRseymourCographSizeForest(node),
    CMRseymourCographCoforest(node), CMRseymourCographSizeCoforest(node), CMRseymourCographArcsReversed(node));
  for (size_t c = 0; c < nch; ++c)
  {
    CMR_SEYMOUR_NODE* ch = CMRseymourChild(node, c);
    out_str(o, " [");
    CMR_ELEMENT* r2p = CMRseymourChildRowsToParent(node, c);
    CMR_ELEMENT* c2p = CMRseymourChildColumnsToParent(node, c);
    size_t cr = ch ? CMRseymourNumRows(ch) : 0, cc = ch ? CMRseymourNumColumns(ch) : 0;
    out_fmt(o, " %zu", r2p ? cr : 0);
    if (r2p) for (size_t i = 0; i < cr; ++i) out_fmt(o, " %d", r2p[i]);
    out_fmt(o, " %zu", c2p ? cc : 0);
    if (c2p) for (size_t i = 0; i < cc; ++i) out_fmt(o, " %d", c2p[i]);
    size_t nsr = 0, nsc = 0;
    if (type == CMR_SEYMOUR_NODE_TYPE_DELTASUM) { nsr = 1; nsc = 2; }
    else if (type == CMR_SEYMOUR_NODE_TYPE_YSUM) { nsr = 2; nsc = 1; }
    else if (type == CMR_SEYMOUR_NODE_TYPE_THREESUM) { nsr = c == 0 ? 2 : 3; nsc = c == 0 ? 3 : 2; }
    size_t* sr = CMRseymourChildSpecialRows(node, c);
    size_t* sc = CMRseymourChildSpecialColumns(node, c);
    out_fmt(o, " %zu", sr ? nsr : 0);
    if (sr) for (size_t i = 0; i < nsr; ++i) out_size(o, sr[i]);
    out_fmt(o, " %zu", sc ? nsc : 0);
    if (sc) for (size_t i = 0; i < nsc; ++i) out_size(o, sc[i]);
    tree_dump(o, ch);
    out_str(o, " ]");
  }
  out_str(o, " }");
}

static void collect_nodes(CMR_SEYMOUR_NODE* node, CMR_SEYMOUR_NODE** arr, size_t* pn, size_t cap)
{
  if (!node || *pn >= cap) return;
  arr[(*pn)++] = node;
  for (size_t c = 0; c < CMRseymourNumChildren(node); ++c) collect_nodes(CMRseymourChild(node, c), arr, pn, cap);
}

/* treeseq <tern 0|1> <mask0> M k (<C|R> <mask> <target>)*
 *   builds a tree with CMRtuTest (tern=1) / CMRregularTest (tern=0) under mask0, then applies k complete/refine operations
 *   to the node with pre-order index target (mod number of nodes), dumping the tree after every step */
static CMR_ERROR op_treeseq(CMR* cmr, TOKS* t, OUT* o)
{
  int tern = (int) tk_int(t);
  unsigned long mask0 = (unsigned long) tk_int(t);
  CMR_CHRMAT* A = NULL;
  HCALL( in_chrmat(cmr, t, &A) );
  size_t k = (size_t) tk_int(t);
  if (t->bad || k > 32 || (int) (3 * k) > tk_left(t)) { t->bad = 1; if (A) CMRchrmatFree(cmr, &A); return CMR_OKAY; }
  CMR_SEYMOUR_NODE* root = NULL;
  bool is = false;
  CMR_ERROR e;
  if (tern)
  {
    CMR_TU_PARAMS p; tu_params_from_mask(&p, mask0);
    p.algorithm = CMR_TU_ALGORITHM_DECOMPOSITION; p.ternary = true;
    e = CMRtuTest(cmr, A, &is, &root, NULL, &p, NULL, h_time_limit);
  }
  else
  {
    CMR_REGULAR_PARAMS p; CMRregularParamsInit(&p); seymour_params_from_mask(&p.seymour, mask0);
    e = CMRregularTest(cmr, A, &is, &root, NULL, &p, NULL, h_time_limit);
  }
  if (e || !root) { if (root) CMRseymourRelease(cmr, &root); CMRchrmatFree(cmr, &A); if (!e) out_str(o, " notree"); return e; }
  out_str(o, " T"); tree_dump(o, root);
  for (size_t step = 0; step < k; ++step)
  {
    const char* act = tk_next(t);
    unsigned long mask = (unsigned long) tk_int(t);
    size_t target = (size_t) tk_int(t);
    CMR_SEYMOUR_NODE* nodes[512]; size_t nn = 0;
    collect_nodes(root, nodes, &nn, 512);
    if (act[0] == 'c' || act[0] == 'r')
    {
      /* lower case: only leaves of unknown type are targets (completing a partial tree) */
      size_t nl = 0;
      for (size_t i = 0; i < nn; ++i)
        if (CMRseymourNumChildren(nodes[i]) == 0 && CMRseymourType(nodes[i]) == CMR_SEYMOUR_NODE_TYPE_UNKNOWN) nodes[nl++] = nodes[i];
      if (nl == 0) { out_fmt(o, " step%zu:noleaf", step); continue; }
      nn = nl;
    }
    CMR_SEYMOUR_NODE* nd = nodes[target % nn];
    if (act[0] == 'C' || act[0] == 'c')
    {
      if (tern) { CMR_TU_PARAMS p; tu_params_from_mask(&p, mask); p.algorithm = CMR_TU_ALGORITHM_DECOMPOSITION; p.ternary = true;
        e = CMRtuCompleteDecomposition(cmr, nd, &p, NULL, h_time_limit); }
      else { CMR_REGULAR_PARAMS p; CMRregularParamsInit(&p); seymour_params_from_mask(&p.seymour, mask);
        e = CMRregularCompleteDecomposition(cmr, nd, &p, NULL, h_time_limit); }
    }
    else
    {
      CMR_REGULAR_PARAMS p; CMRregularParamsInit(&p); seymour_params_from_mask(&p.seymour, mask);
      e = CMRregularRefineDecomposition(cmr, 1, &nd, &p, NULL, h_time_limit);
    }
    if (e) { out_fmt(o, " step%zu:err:%s", step, errname(e)); break; }
    out_str(o, " T"); tree_dump(o, root);
  }
  CMRseymourRelease(cmr, &root);
  CMRchrmatFree(cmr, &A);
  return CMR_OKAY;
}

OPDEF ops_tree[] = {
  { "treeseq", op_treeseq },
  { NULL, NULL }
};
