/* Serialisation of Seymour decomposition trees and tree-history ops (complete/refine).
 * This is the only translation unit that reads src/cmr/seymour_internal.h (series-parallel reductions and
 * three-sum flags are not reachable through the public accessors). */
#include "cmrh.h"
#include <cmr/seymour.h>
#include <cmr/tu.h>
#include <cmr/regular.h>
#include "seymour_internal.h"

void tu_params_from_mask(CMR_TU_PARAMS* p, unsigned long mask);
void seymour_params_from_mask(CMR_SEYMOUR_PARAMS* p, unsigned long mask);

static void dump_graphdata(OUT* o, CMR_GRAPH* g, CMR_GRAPH_EDGE* forest, size_t nf, CMR_GRAPH_EDGE* coforest, size_t nc,
  bool* reversed)
{
  if (!g) { out_str(o, " -"); return; }
  out_graph(o, g);
  out_fmt(o, " F %zu", forest ? nf : 0);
  if (forest) for (size_t i = 0; i < nf; ++i) out_fmt(o, " %d", forest[i]);
  out_fmt(o, " K %zu", coforest ? nc : 0);
  if (coforest) for (size_t i = 0; i < nc; ++i) out_fmt(o, " %d", coforest[i]);
  if (reversed)
  {
    out_str(o, " A");
    for (CMR_GRAPH_ITER i = CMRgraphEdgesFirst(g); CMRgraphEdgesValid(g, i); i = CMRgraphEdgesNext(g, i))
      out_fmt(o, " %d", reversed[CMRgraphEdgesEdge(g, i)] ? 1 : 0);
  }
  else out_str(o, " a");
}

void tree_dump(OUT* o, CMR_SEYMOUR_NODE* node)
{
  if (!node) { out_str(o, " null"); return; }
  CMR_SEYMOUR_NODE_TYPE type = CMRseymourType(node);
  size_t nch = CMRseymourNumChildren(node);
  out_fmt(o, " { %d %d %d %d %d %d %zu", (int) type, CMRseymourIsTernary(node) ? 1 : 0, (int) CMRseymourRegularity(node),
    (int) CMRseymourGraphicness(node), (int) CMRseymourCographicness(node), type == CMR_SEYMOUR_NODE_TYPE_THREESUM ? (int) node->threesumFlags : 0, nch);
  size_t np = CMRseymourNumPivots(node);
  out_fmt(o, " P %zu", np);
  for (size_t i = 0; i < np; ++i) { out_size(o, CMRseymourPivotRows(node)[i]); out_size(o, CMRseymourPivotColumns(node)[i]); }
  out_fmt(o, " R %zu", node->seriesParallelReductions ? node->numSeriesParallelReductions : 0);
  if (node->seriesParallelReductions)
    for (size_t i = 0; i < node->numSeriesParallelReductions; ++i)
      out_fmt(o, " %d %d", node->seriesParallelReductions[i].element, node->seriesParallelReductions[i].mate);
  size_t nm = CMRseymourNumMinors(node);
  out_fmt(o, " X %zu", nm);
  for (size_t i = 0; i < nm; ++i)
  {
    CMR_MINOR* mn = CMRseymourMinor(node, i);
    out_fmt(o, " %d %zu", (int) CMRminorType(mn), CMRminorNumPivots(mn));
    for (size_t k = 0; k < CMRminorNumPivots(mn); ++k)
    { out_size(o, CMRminorPivotRows(mn)[k]); out_size(o, CMRminorPivotColumns(mn)[k]); }
    out_submat(o, CMRminorSubmatrix(mn));
  }
  out_chrmat(o, CMRseymourGetMatrix(node));
  out_chrmat(o, CMRseymourHasTranspose(node) ? CMRseymourGetTranspose(node) : NULL);
  dump_graphdata(o, CMRseymourGraph(node), CMRseymourGraphForest(node), CMRseymourGraphSizeForest(node),
    CMRseymourGraphCoforest(node), CMRseymourGraphSizeCoforest(node), CMRseymourGraphArcsReversed(node));
  dump_graphdata(o, CMRseymourCograph(node), CMRseymourCographForest(node), CMRseymourCographSizeForest(node),
    CMRseymourCographCoforest(node), CMRseymourCographSizeCoforest(node), CMRseymourCographArcsReversed(node));
  for (size_t c = 0; c < nch; ++c)
  {
    CMR_SEYMOUR_NODE* ch = CMRseymourChild(node, c);
    out_str(o, " [");
    CMR_ELEMENT* r2p = CMRseymourChildRowsToParent(node, c);
    CMR_ELEMENT* c2p = CMRseymourChildColumnsToParent(node, c);
    size_t cr = ch ? CMRseymourNumRows(ch) : 0, cc = ch ? CMRseymourNumColumns(ch) : 0;
    out_fmt(o, " %zu", r2p ? cr : 0);
    if (r2p) for (size_t i = 0; i < cr; ++i) out_fmt(o, " %d", r2p[i]);
    out_fmt(o, " %zu", c2p ? cc : 0);
    if (c2p) for (size_t i = 0; i < cc; ++i) out_fmt(o, " %d", c2p[i]);
    size_t nsr = 0, nsc = 0;
    if (type == CMR_SEYMOUR_NODE_TYPE_DELTASUM) { nsr = 1; nsc = 2; }
    else if (type == CMR_SEYMOUR_NODE_TYPE_YSUM) { nsr = 2; nsc = 1; }
    else if (type == CMR_SEYMOUR_NODE_TYPE_THREESUM) { nsr = c == 0 ? 2 : 3; nsc = c == 0 ? 3 : 2; }
    size_t* sr = CMRseymourChildSpecialRows(node, c);
    size_t* sc = CMRseymourChildSpecialColumns(node, c);
    out_fmt(o, " %zu", sr ? nsr : 0);
    if (sr) for (size_t i = 0; i < nsr; ++i) out_size(o, sr[i]);
    out_fmt(o, " %zu", sc ? nsc : 0);
    if (sc) for (size_t i = 0; i < nsc; ++i) out_size(o, sc[i]);
    tree_dump(o, ch);
    out_str(o, " ]");
  }
  out_str(o, " }");
}

OPDEF ops_tree[] = {
  { NULL, NULL }
};
