/* k-sum composition and decomposition (C12). */
#include "cmrh.h"
#include <cmr/separation.h>

static void out_idxarr(OUT* o, const char* tag, size_t* a, size_t n)
{
  out_fmt(o, " %s %zu", tag, n);
  for (size_t i = 0; i < n; ++i) out_size(o, a[i]);
}

/* compose 1 ch k M..              | compose 2 ch M1 M2 fsr fsc ssr ssc (−1 = NULL)
 * compose D ch M1 M2 fsr0 fsc0 fsc1 ssr0 ssc0 ssc1 | compose Y ch M1 M2 fsr0 fsr1 fsc0 ssr0 ssr1 ssc0
 * compose 3 ch M1 M2 fsr0 fsr1 fsc0 fsc1 fsc2 ssr0 ssr1 ssr2 ssc0 ssc1 */
static CMR_ERROR op_compose(CMR* cmr, TOKS* t, OUT* o)
{
  const char* kind = tk_next(t);
  int ch = (int) tk_int(t);
  CMR_CHRMAT* R = NULL;
  CMR_ERROR e = CMR_OKAY;
  if (kind[0] == '1')
  {
    size_t k = (size_t) tk_int(t);
    if (t->bad || k > 16) { t->bad = 1; return CMR_OKAY; }
    CMR_CHRMAT* mats[16];
    size_t got = 0;
    for (; got < k; ++got) { mats[got] = NULL; HCALL( in_chrmat(cmr, t, &mats[got]) ); if (t->bad) break; }
    if (!t->bad) e = CMRonesumCompose(cmr, k, mats, &R);
    for (size_t i = 0; i < got; ++i) if (mats[i]) CMRchrmatFree(cmr, &mats[i]);
    if (t->bad) return CMR_OKAY;
  }
  else
  {
    CMR_CHRMAT* A = NULL; CMR_CHRMAT* B = NULL;
    HCALL( in_chrmat(cmr, t, &A) );
    if (!t->bad) HCALL( in_chrmat(cmr, t, &B) );
    size_t s[10];
    int ns = kind[0] == '2' ? 4 : kind[0] == '3' ? 10 : 6;
    for (int i = 0; i < ns; ++i) s[i] = tk_idx(t);
    if (t->bad) { if (A) CMRchrmatFree(cmr, &A); if (B) CMRchrmatFree(cmr, &B); return CMR_OKAY; }
    uint64_t sa = sum_chrmat(A), sb = sum_chrmat(B);
    if (kind[0] == '2')
      e = CMRtwosumCompose(cmr, A, B, s[0] == SIZE_MAX ? NULL : &s[0], s[1] == SIZE_MAX ? NULL : &s[1],
        s[2] == SIZE_MAX ? NULL : &s[2], s[3] == SIZE_MAX ? NULL : &s[3], (int8_t) ch, &R);
    else if (kind[0] == 'D')
      e = CMRdeltasumCompose(cmr, A, B, &s[0], &s[1], &s[3], &s[4], (int8_t) ch, &R);
    else if (kind[0] == 'Y')
      e = CMRysumCompose(cmr, A, B, &s[0], &s[2], &s[3], &s[5], (int8_t) ch, &R);
    else
      e = CMRthreesumCompose(cmr, A, B, &s[0], &s[2], &s[5], &s[8], (int8_t) ch, &R);
    if (sum_chrmat(A) != sa || sum_chrmat(B) != sb) h_input_modified = 1;
    CMRchrmatFree(cmr, &A); CMRchrmatFree(cmr, &B);
  }
  if (!e) out_chrmat(o, R); else if (R) out_str(o, " outs=1");
  if (R) CMRchrmatFree(cmr, &R);
  return e;
}

/* decomp <kind 2|D|Y|3> <ch> M rowflags(0/1 × m) colflags(0/1 × n)
 *   the library's own callers' sequence: fill flags, CMRsepaFindBinaryRepresentatives, CMRsepaCheckTernary (ch=3),
 *   epsilon / connecting search, DecomposeFirst/Second with all optional outputs, Compose with the returned specials.
 * -> type=<t> swapped=<0|1> tern=<0|1|-> [S violator] | eps/gamma/beta | M1 M2 | origins and specials | composed */
static CMR_ERROR op_decomp(CMR* cmr, TOKS* t, OUT* o)
{
  const char* kind = tk_next(t);
  int ch = (int) tk_int(t);
  CMR_CHRMAT* A = NULL;
  HCALL( in_chrmat(cmr, t, &A) );
  if (t->bad) { if (A) CMRchrmatFree(cmr, &A); return CMR_OKAY; }
  size_t m = A->numRows, n = A->numColumns;
  CMR_SEPA* sepa = NULL;
  HCALL( CMRsepaCreate(cmr, m, n, &sepa) );
  for (size_t i = 0; i < m; ++i) sepa->rowsFlags[i] = tk_int(t) ? CMR_SEPA_SECOND : CMR_SEPA_FIRST;
  for (size_t i = 0; i < n; ++i) sepa->columnsFlags[i] = tk_int(t) ? CMR_SEPA_SECOND : CMR_SEPA_FIRST;
  CMR_CHRMAT* At = NULL; CMR_CHRMAT* M1 = NULL; CMR_CHRMAT* M2 = NULL; CMR_CHRMAT* P = NULL;
  CMR_SUBMAT* viol = NULL;
  CMR_ERROR e = CMR_OKAY;
  size_t* buf = (size_t*) calloc(8 * (m + n + 8), sizeof(size_t));
  size_t* r1o = buf; size_t* c1o = r1o + m + 4; size_t* r2o = c1o + n + 4; size_t* c2o = r2o + m + 4;
  size_t* rTo1 = c2o + n + 4; size_t* cTo1 = rTo1 + m + 4; size_t* rTo2 = cTo1 + n + 4; size_t* cTo2 = rTo2 + m + 4;
  size_t fsr[3] = { SIZE_MAX, SIZE_MAX, SIZE_MAX }, fsc[3] = { SIZE_MAX, SIZE_MAX, SIZE_MAX };
  size_t ssr[3] = { SIZE_MAX, SIZE_MAX, SIZE_MAX }, ssc[3] = { SIZE_MAX, SIZE_MAX, SIZE_MAX };
  if (t->bad) goto cleanup;
  uint64_t s0 = sum_chrmat(A);
  e = CMRchrmatTranspose(cmr, A, &At);
  bool swapped = false;
  if (!e) e = CMRsepaFindBinaryRepresentatives(cmr, sepa, A, At, &swapped, ch == 3 ? &viol : NULL);
  if (e) goto cleanup;
  out_fmt(o, " type=%d swapped=%d", (int) sepa->type, swapped ? 1 : 0);
  out_submat(o, viol);
  if (viol) goto cleanup;
  if (ch == 3 && sepa->type == CMR_SEPA_TYPE_TWO)
  {
    /* CMRsepaCheckTernary only implements 2-separations (assert(false) otherwise; recorded in DESIGN.md) */
    bool isTern = false;
    e = CMRsepaCheckTernary(cmr, sepa, A, &isTern, &viol);
    if (e) goto cleanup;
    out_fmt(o, " tern=%d", isTern ? 1 : 0);
    out_submat(o, viol);
    if (!isTern) goto cleanup;
  }
  else out_str(o, " tern=- -");
  out_str(o, " F");
  for (size_t i = 0; i < m; ++i) out_fmt(o, " %d", (int) sepa->rowsFlags[i]);
  for (size_t i = 0; i < n; ++i) out_fmt(o, " %d", (int) sepa->columnsFlags[i]);
  size_t nfr = 0, nfc = 0, nsr = 0, nsc = 0;
  if (kind[0] == '2')
  {
    if (sepa->type != CMR_SEPA_TYPE_TWO) { out_str(o, " wrongtype"); goto cleanup; }
    e = CMRtwosumDecomposeFirst(cmr, A, sepa, &M1, r1o, c1o, rTo1, cTo1, fsr, fsc);
    if (!e) e = CMRtwosumDecomposeSecond(cmr, A, sepa, &M2, r2o, c2o, rTo2, cTo2, ssr, ssc);
    if (e) goto cleanup;
    nfr = nfc = nsr = nsc = 1;
    out_str(o, " eps=0");
    e = CMRtwosumCompose(cmr, M1, M2, fsr[0] == SIZE_MAX ? NULL : fsr, fsc[0] == SIZE_MAX ? NULL : fsc,
      ssr[0] == SIZE_MAX ? NULL : ssr, ssc[0] == SIZE_MAX ? NULL : ssc, (int8_t) ch, &P);
  }
  else if (kind[0] == 'D' || kind[0] == 'Y')
  {
    if (sepa->type != CMR_SEPA_TYPE_THREE_DISTRIBUTED_RANKS) { out_str(o, " wrongtype"); goto cleanup; }
    char eps = 0;
    if (kind[0] == 'D')
    {
      if (ch == 3) e = CMRdeltasumDecomposeEpsilon(cmr, A, At, sepa, &eps); else eps = 1; /* as the library's own callers do */
      if (!e) e = CMRdeltasumDecomposeFirst(cmr, A, sepa, eps, &M1, r1o, c1o, rTo1, cTo1, fsr, fsc);
      if (!e) e = CMRdeltasumDecomposeSecond(cmr, A, sepa, eps, &M2, r2o, c2o, rTo2, cTo2, ssr, ssc);
      nfr = 1; nfc = 2; nsr = 1; nsc = 2;
      if (e) goto cleanup;
      out_fmt(o, " eps=%d", (int) eps);
      e = CMRdeltasumCompose(cmr, M1, M2, fsr, fsc, ssr, ssc, (int8_t) ch, &P);
    }
    else
    {
      if (ch == 3) e = CMRysumDecomposeEpsilon(cmr, A, At, sepa, &eps); else eps = 1;
      if (!e) e = CMRysumDecomposeFirst(cmr, A, sepa, eps, &M1, r1o, c1o, rTo1, cTo1, fsr, fsc);
      if (!e) e = CMRysumDecomposeSecond(cmr, A, sepa, eps, &M2, r2o, c2o, rTo2, cTo2, ssr, ssc);
      nfr = 2; nfc = 1; nsr = 2; nsc = 1;
      if (e) goto cleanup;
      out_fmt(o, " eps=%d", (int) eps);
      e = CMRysumCompose(cmr, M1, M2, fsr, fsc, ssr, ssc, (int8_t) ch, &P);
    }
  }
  else
  {
    if (sepa->type != CMR_SEPA_TYPE_THREE_CONCENTRATED_RANK) { out_str(o, " wrongtype"); goto cleanup; }
    size_t sr[2] = { SIZE_MAX, SIZE_MAX }, sc[2] = { SIZE_MAX, SIZE_MAX };
    char gamma = 0, beta = 0;
    e = CMRthreesumDecomposeSearchConnecting(cmr, A, At, sepa, sr, sc, &gamma, &beta);
    if (!e) e = CMRthreesumDecomposeFirst(cmr, A, sepa, sr, sc, beta, &M1, r1o, c1o, rTo1, cTo1, fsr, fsc);
    if (!e) e = CMRthreesumDecomposeSecond(cmr, A, sepa, sr, sc, gamma, &M2, r2o, c2o, rTo2, cTo2, ssr, ssc);
    nfr = 2; nfc = 3; nsr = 3; nsc = 2;
    if (e) goto cleanup;
    out_fmt(o, " eps=%d,%d conn=%zu,%zu,%zu,%zu", (int) gamma, (int) beta, sr[0], sr[1], sc[0], sc[1]);
    e = CMRthreesumCompose(cmr, M1, M2, fsr, fsc, ssr, ssc, (int8_t) ch, &P);
  }
  if (sum_chrmat(A) != s0) h_input_modified = 1;
  out_chrmat(o, M1); out_chrmat(o, M2);
  out_idxarr(o, "r1o", r1o, M1 ? M1->numRows : 0); out_idxarr(o, "c1o", c1o, M1 ? M1->numColumns : 0);
  out_idxarr(o, "r2o", r2o, M2 ? M2->numRows : 0); out_idxarr(o, "c2o", c2o, M2 ? M2->numColumns : 0);
  out_idxarr(o, "fsr", fsr, nfr); out_idxarr(o, "fsc", fsc, nfc); out_idxarr(o, "ssr", ssr, nsr); out_idxarr(o, "ssc", ssc, nsc);
  if (e) { out_fmt(o, " compose-err:%s", errname(e)); e = CMR_OKAY; }
  else out_chrmat(o, P);
cleanup:
  free(buf);
  if (viol) CMRsubmatFree(cmr, &viol);
  if (P) CMRchrmatFree(cmr, &P);
  if (M1) CMRchrmatFree(cmr, &M1);
  if (M2) CMRchrmatFree(cmr, &M2);
  if (At) CMRchrmatFree(cmr, &At);
  CMRsepaFree(cmr, &sepa);
  CMRchrmatFree(cmr, &A);
  return e;
}

OPDEF ops_sepa[] = {
  { "compose", op_compose },
  { "decomp", op_decomp },
  { NULL, NULL }
};
