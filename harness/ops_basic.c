/* Basic operations of the harness: complements/CTU, TU, regular, pivots, matrix utilities, text I/O,
 * series-parallel, Camion, balanced, equimodular, raw stack ops. */
#include "cmrh.h"
#include <cmr/ctu.h>
#include <cmr/tu.h>
#include <cmr/regular.h>
#include <cmr/matroid.h>
#include <cmr/series_parallel.h>
#include <cmr/camion.h>
#include <cmr/balanced.h>
#include <cmr/equimodular.h>
#include <cmr/separation.h>

CMR_ERROR _CMRallocStack(CMR* cmr, void** ptr, size_t size);
CMR_ERROR _CMRfreeStack(CMR* cmr, void** ptr);
size_t CMRgetStackUsage(CMR* cmr);

void tree_dump(OUT* o, CMR_SEYMOUR_NODE* node); /* ops_tree.c */

/* ---------- parameter masks ---------- */

/* bit 23: keep the library's defaults (nothing is overridden; the generator sends the default bits for the judge);
   bit 24 (tu, regular, ctu): pass params = NULL */
#define LIB_DEFAULTS(mask) (((mask) >> 23) & 1)
#define NULL_PARAMS(mask) (((mask) >> 24) & 1)

void seymour_params_from_mask(CMR_SEYMOUR_PARAMS* p, unsigned long mask)
{
  CMRseymourParamsInit(p);
  if (LIB_DEFAULTS(mask)) return;
  p->stopWhenIrregular = (mask >> 5) & 1;
  p->stopWhenNongraphic = (mask >> 6) & 1;
  p->stopWhenNoncographic = (mask >> 7) & 1;
  p->stopWhenNeitherGraphicNorCoGraphic = (mask >> 8) & 1;
  p->seriesParallel = (mask >> 9) & 1;
  p->planarityCheck = (mask >> 10) & 1;
  p->directGraphicness = (mask >> 11) & 1;
  p->preferGraphicness = (mask >> 12) & 1;
  switch ((mask >> 13) & 7)
  {
  case 0: p->decomposeStrategy = CMR_SEYMOUR_DECOMPOSE_FLAG_DISTRIBUTED_DELTASUM | CMR_SEYMOUR_DECOMPOSE_FLAG_CONCENTRATED_THREESUM; break;
  case 1: p->decomposeStrategy = CMR_SEYMOUR_DECOMPOSE_FLAG_DISTRIBUTED_YSUM | CMR_SEYMOUR_DECOMPOSE_FLAG_CONCENTRATED_THREESUM; break;
  case 2: p->decomposeStrategy = CMR_SEYMOUR_DECOMPOSE_FLAG_DISTRIBUTED_DELTASUM | CMR_SEYMOUR_DECOMPOSE_FLAG_CONCENTRATED_PIVOT; break;
  case 3: p->decomposeStrategy = CMR_SEYMOUR_DECOMPOSE_FLAG_DISTRIBUTED_YSUM | CMR_SEYMOUR_DECOMPOSE_FLAG_CONCENTRATED_PIVOT; break;
  case 4: p->decomposeStrategy = CMR_SEYMOUR_DECOMPOSE_FLAG_DISTRIBUTED_PIVOT | CMR_SEYMOUR_DECOMPOSE_FLAG_CONCENTRATED_THREESUM; break;
  default: p->decomposeStrategy = CMR_SEYMOUR_DECOMPOSE_FLAG_DISTRIBUTED_PIVOT | CMR_SEYMOUR_DECOMPOSE_FLAG_CONCENTRATED_PIVOT; break; /* documented as invalid */
  }
  p->constructLeafGraphs = (mask >> 16) & 1;
  p->constructAllGraphs = (mask >> 17) & 1;
}

void tu_params_from_mask(CMR_TU_PARAMS* p, unsigned long mask)
{
  CMRtuParamsInit(p);
  if (LIB_DEFAULTS(mask)) return;
  p->algorithm = (CMR_TU_ALGORITHM) (mask & 3);
  p->ternary = (mask >> 2) & 1;
  p->camionFirst = (mask >> 3) & 1;
  p->naiveSubmatrix = (mask >> 4) & 1;
  seymour_params_from_mask(&p->seymour, mask);
}

#define WANT_SUB(mask) (((mask) >> 18) & 1)
#define WANT_TREE(mask) (((mask) >> 19) & 1)

/* ---------- complement / ctu ---------- */

static CMR_ERROR op_complement(CMR* cmr, TOKS* t, OUT* o)
{
  CMR_CHRMAT* A = NULL; CMR_CHRMAT* R = NULL;
  HCALL( in_chrmat(cmr, t, &A) );
  size_t r = tk_idx(t), c = tk_idx(t);
  if (t->bad) { CMRchrmatFree(cmr, &A); return CMR_OKAY; }
  uint64_t s0 = sum_chrmat(A);
  CMR_ERROR e = CMRctuComplementRowColumn(cmr, A, r, c, &R);
  if (sum_chrmat(A) != s0) h_input_modified = 1;
  if (!e) out_chrmat(o, R);
  CMRchrmatFree(cmr, &R);
  CMRchrmatFree(cmr, &A);
  return e;
}

static CMR_ERROR op_ctu(CMR* cmr, TOKS* t, OUT* o)
{
  unsigned long mask = (unsigned long) tk_int(t);
  CMR_CHRMAT* A = NULL;
  HCALL( in_chrmat(cmr, t, &A) );
  if (t->bad) { CMRchrmatFree(cmr, &A); return CMR_OKAY; }
  CMR_CTU_PARAMS params;
  CMRctuParamsInit(&params);
  if (!LIB_DEFAULTS(mask)) tu_params_from_mask(&params.tu, mask);
  bool is = false;
  size_t r = 777777, c = 777777; /* sentinel: "not written" */
  uint64_t s0 = sum_chrmat(A);
  CMR_ERROR e = CMRctuTest(cmr, A, &is, &r, &c, NULL_PARAMS(mask) ? NULL : &params, NULL, h_time_limit);
  if (sum_chrmat(A) != s0) h_input_modified = 1;
  if (!e)
  {
    out_str(o, is ? " yes" : " no");
    out_size(o, r); out_size(o, c);
    if (!is && r != 777777 && c != 777777)
    {
      /* the witness goes through the *public* complement operation, as the property says */
      CMR_CHRMAT* R = NULL;
      size_t rr = (r >= A->numRows) ? SIZE_MAX : r;
      size_t cc = (c >= A->numColumns) ? SIZE_MAX : c;
      CMR_ERROR e2 = CMRctuComplementRowColumn(cmr, A, rr, cc, &R);
      if (!e2) out_chrmat(o, R); else out_fmt(o, " err:%s", errname(e2));
      CMRchrmatFree(cmr, &R);
    }
  }
  CMRchrmatFree(cmr, &A);
  return e;
}

/* ---------- tu / regular ---------- */

static CMR_ERROR op_tu(CMR* cmr, TOKS* t, OUT* o)
{
  unsigned long mask = (unsigned long) tk_int(t);
  CMR_CHRMAT* A = NULL;
  HCALL( in_chrmat(cmr, t, &A) );
  if (t->bad) { CMRchrmatFree(cmr, &A); return CMR_OKAY; }
  CMR_TU_PARAMS params;
  memset(&params, 0, sizeof(params));
  tu_params_from_mask(&params, mask);
  bool is = false;
  CMR_SEYMOUR_NODE* root = NULL;
  CMR_SUBMAT* sub = NULL;
  uint64_t s0 = sum_chrmat(A);
  CMR_TU_PARAMS params0 = params;
  CMR_ERROR e = CMRtuTest(cmr, A, &is, WANT_TREE(mask) ? &root : NULL, WANT_SUB(mask) ? &sub : NULL,
    NULL_PARAMS(mask) ? NULL : &params, NULL, h_time_limit);
  if (sum_chrmat(A) != s0) h_input_modified = 1;
  /* the parameter object is an input, too: it may be reused by the caller for the next call */
  if (memcmp(&params0, &params, sizeof(params))) h_input_modified = 1;
  int undet = 0;
  if (!e && !is && ((mask >> 6) & 7))
  {
    /* stop flags: the verdict may stay undetermined, in which case *pisTotallyUnimodular is not written.
       Detect "not written" black-box: repeat the call with the opposite preset. */
    bool is2 = true;
    CMR_ERROR e2 = CMRtuTest(cmr, A, &is2, NULL, NULL, &params, NULL, h_time_limit);
    if (!e2 && is2) undet = 1;
  }
  if (!e)
  {
    out_str(o, undet ? " undet" : is ? " yes" : " no");
    out_submat(o, sub);
    if (root) { out_str(o, " T"); tree_dump(o, root); } else out_str(o, " -");
  }
  else
  {
    /* C18: on failure no result object may be handed out */
    out_fmt(o, " outs=%d%d", sub ? 1 : 0, root ? 1 : 0);
  }
  if (sub) CMRsubmatFree(cmr, &sub);
  if (root) CMRseymourRelease(cmr, &root);
  CMRchrmatFree(cmr, &A);
  return e;
}

static CMR_ERROR op_regular(CMR* cmr, TOKS* t, OUT* o)
{
  unsigned long mask = (unsigned long) tk_int(t);
  CMR_CHRMAT* A = NULL;
  HCALL( in_chrmat(cmr, t, &A) );
  if (t->bad) { CMRchrmatFree(cmr, &A); return CMR_OKAY; }
  CMR_REGULAR_PARAMS params;
  memset(&params, 0, sizeof(params));
  CMRregularParamsInit(&params);
  seymour_params_from_mask(&params.seymour, mask);
  bool is = false;
  CMR_SEYMOUR_NODE* root = NULL;
  CMR_MINOR* minor = NULL;
  uint64_t s0 = sum_chrmat(A);
  CMR_REGULAR_PARAMS params0 = params;
  CMR_ERROR e = CMRregularTest(cmr, A, &is, WANT_TREE(mask) ? &root : NULL, WANT_SUB(mask) ? &minor : NULL,
    NULL_PARAMS(mask) ? NULL : &params, NULL, h_time_limit);
  if (sum_chrmat(A) != s0) h_input_modified = 1;
  if (memcmp(&params0, &params, sizeof(params))) h_input_modified = 1;
  int undet = 0;
  if (!e && !is && ((mask >> 6) & 7))
  {
    bool is2 = true;
    CMR_ERROR e2 = CMRregularTest(cmr, A, &is2, NULL, NULL, &params, NULL, h_time_limit);
    if (!e2 && is2) undet = 1;
  }
  if (!e)
  {
    out_str(o, undet ? " undet" : is ? " yes" : " no");
    if (minor)
    {
      out_fmt(o, " N %d %zu", (int) CMRminorType(minor), CMRminorNumPivots(minor));
      for (size_t i = 0; i < CMRminorNumPivots(minor); ++i)
      { out_size(o, CMRminorPivotRows(minor)[i]); out_size(o, CMRminorPivotColumns(minor)[i]); }
      out_submat(o, CMRminorSubmatrix(minor));
    }
    else out_str(o, " -");
    if (root) { out_str(o, " T"); tree_dump(o, root); } else out_str(o, " -");
  }
  else
    out_fmt(o, " outs=%d%d", minor ? 1 : 0, root ? 1 : 0);
  if (minor) CMRminorFree(cmr, &minor);
  if (root) CMRseymourRelease(cmr, &root);
  CMRchrmatFree(cmr, &A);
  return e;
}

/* ---------- pivots:  pivot <kind 2|3|R> <single 0|1> M k r1 c1 ... ---------- */

static CMR_ERROR op_pivot(CMR* cmr, TOKS* t, OUT* o)
{
  const char* kind = tk_next(t);
  int single = (int) tk_int(t);
  CMR_CHRMAT* A = NULL; CMR_CHRMAT* R = NULL; CMR_SUBMAT* viol = NULL;
  HCALL( in_chrmat(cmr, t, &A) );
  size_t k = (size_t) tk_int(t);
  if (t->bad || k > 64 || (int) (2 * k) > tk_left(t)) { t->bad = 1; CMRchrmatFree(cmr, &A); return CMR_OKAY; }
  size_t rows[64], cols[64];
  for (size_t i = 0; i < k; ++i) { rows[i] = tk_idx(t); cols[i] = tk_idx(t); }
  if (t->bad || (single && k != 1)) { t->bad = 1; CMRchrmatFree(cmr, &A); return CMR_OKAY; }
  uint64_t s0 = sum_chrmat(A);
  CMR_ERROR e;
  if (kind[0] == '2')
    e = single ? CMRchrmatBinaryPivot(cmr, A, rows[0], cols[0], &R) : CMRchrmatBinaryPivots(cmr, A, k, rows, cols, &R);
  else if (kind[0] == '3')
    e = single ? CMRchrmatTernaryPivot(cmr, A, rows[0], cols[0], &R) : CMRchrmatTernaryPivots(cmr, A, k, rows, cols, &R);
  else
    e = single ? CMRchrmatRegularPivot(cmr, A, rows[0], cols[0], &viol, &R)
      : CMRchrmatRegularPivots(cmr, A, k, rows, cols, &viol, &R);
  if (sum_chrmat(A) != s0) h_input_modified = 1;
  if (!e) { out_chrmat(o, R); out_submat(o, viol); }
  if (R) CMRchrmatFree(cmr, &R);
  if (viol) CMRsubmatFree(cmr, &viol);
  CMRchrmatFree(cmr, &A);
  return e;
}

/* ---------- matrix utilities:  mat <what> <type c|i> M [args] ---------- */

static CMR_ERROR op_mat(CMR* cmr, TOKS* t, OUT* o)
{
  const char* what = tk_next(t);
  const char* ty = tk_next(t);
  if (ty[0] == 'c')
  {
    CMR_CHRMAT* A = NULL; CMR_CHRMAT* R = NULL; CMR_INTMAT* RI = NULL;
    HCALL( in_chrmat(cmr, t, &A) );
    if (t->bad) { CMRchrmatFree(cmr, &A); return CMR_OKAY; }
    uint64_t s0 = sum_chrmat(A);
    CMR_ERROR e = CMR_OKAY;
    if (!strcmp(what, "transpose")) e = CMRchrmatTranspose(cmr, A, &R);
    else if (!strcmp(what, "copy")) e = CMRchrmatCopy(cmr, A, &R);
    else if (!strcmp(what, "support")) e = CMRchrmatSupport(cmr, A, &R);
    else if (!strcmp(what, "ssupport")) e = CMRchrmatSignedSupport(cmr, A, &R);
    else if (!strcmp(what, "toint")) e = CMRchrmatToInt(cmr, A, &RI);
    else if (!strcmp(what, "slice") || !strcmp(what, "permute"))
    {
      size_t nr = (size_t) tk_int(t), nc = (size_t) tk_int(t);
      if (t->bad || (long) (nr + nc) > tk_left(t) || nr > 4096 || nc > 4096) { t->bad = 1; CMRchrmatFree(cmr, &A); return CMR_OKAY; }
      if (!strcmp(what, "slice"))
      {
        CMR_SUBMAT* s = NULL;
        HCALL( CMRsubmatCreate(cmr, nr, nc, &s) );
        for (size_t i = 0; i < nr; ++i) s->rows[i] = tk_idx(t);
        for (size_t i = 0; i < nc; ++i) s->columns[i] = tk_idx(t);
        e = CMRchrmatSlice(cmr, A, s, &R);
        CMRsubmatFree(cmr, &s);
      }
      else
      {
        size_t* rows = (size_t*) malloc((nr + 1) * sizeof(size_t));
        size_t* cols = (size_t*) malloc((nc + 1) * sizeof(size_t));
        for (size_t i = 0; i < nr; ++i) rows[i] = tk_idx(t);
        for (size_t i = 0; i < nc; ++i) cols[i] = tk_idx(t);
        /* nr==0 resp. nc==0 encodes "NULL = identity" */
        e = CMRchrmatPermute(cmr, A, nr ? rows : NULL, nc ? cols : NULL, &R);
        free(rows); free(cols);
      }
    }
    else if (!strcmp(what, "isbinary")) out_str(o, CMRchrmatIsBinary(cmr, A, NULL) ? " yes" : " no");
    else if (!strcmp(what, "isternary")) out_str(o, CMRchrmatIsTernary(cmr, A, NULL) ? " yes" : " no");
    else t->bad = 1;
    if (sum_chrmat(A) != s0) h_input_modified = 1;
    if (!e && R) out_chrmat(o, R);
    if (!e && RI) out_intmat(o, RI);
    if (R) CMRchrmatFree(cmr, &R);
    if (RI) CMRintmatFree(cmr, &RI);
    CMRchrmatFree(cmr, &A);
    return e;
  }
  else if (ty[0] == 'd')
  {
    /* double matrices: mat <what> d <eps*64> m n (entry*64)...  ; every value is a multiple of 1/64, hence exact */
    long long epsn = tk_int(t);
    CMR_INTMAT* AI = NULL;
    HCALL( in_intmat(cmr, t, &AI) );
    if (t->bad) { if (AI) CMRintmatFree(cmr, &AI); return CMR_OKAY; }
    double eps = (double) epsn / 64.0;
    CMR_DBLMAT* A = NULL; CMR_DBLMAT* R = NULL; CMR_CHRMAT* RC = NULL;
    HCALL( CMRdblmatCreate(cmr, &A, AI->numRows, AI->numColumns, AI->numNonzeros) );
    for (size_t r = 0; r <= AI->numRows; ++r) A->rowSlice[r] = AI->rowSlice[r];
    for (size_t e = 0; e < AI->numNonzeros; ++e) { A->entryColumns[e] = AI->entryColumns[e]; A->entryValues[e] = AI->entryValues[e] / 64.0; }
    CMRintmatFree(cmr, &AI);
    CMR_ERROR e = CMR_OKAY;
    if (!strcmp(what, "transpose")) e = CMRdblmatTranspose(cmr, A, &R);
    else if (!strcmp(what, "copy")) e = CMRdblmatCopy(cmr, A, &R);
    else if (!strcmp(what, "support")) e = CMRdblmatSupport(cmr, A, eps, &RC);
    else if (!strcmp(what, "ssupport")) e = CMRdblmatSignedSupport(cmr, A, eps, &RC);
    else if (!strcmp(what, "tochr")) e = CMRdblmatToChr(cmr, A, eps, &RC);
    else if (!strcmp(what, "isbinary")) out_str(o, CMRdblmatIsBinary(cmr, A, eps, NULL) ? " yes" : " no");
    else if (!strcmp(what, "isternary")) out_str(o, CMRdblmatIsTernary(cmr, A, eps, NULL) ? " yes" : " no");
    else if (!strcmp(what, "slice") || !strcmp(what, "permute"))
    {
      size_t nr = (size_t) tk_int(t), nc = (size_t) tk_int(t);
      if (t->bad || (long) (nr + nc) > tk_left(t) || nr > 4096 || nc > 4096) { t->bad = 1; CMRdblmatFree(cmr, &A); return CMR_OKAY; }
      CMR_SUBMAT* s = NULL;
      HCALL( CMRsubmatCreate(cmr, nr, nc, &s) );
      for (size_t i = 0; i < nr; ++i) s->rows[i] = tk_idx(t);
      for (size_t i = 0; i < nc; ++i) s->columns[i] = tk_idx(t);
      /* permute: nr==0 resp. nc==0 encodes "NULL = identity" */
      if (!strcmp(what, "slice")) e = CMRdblmatSlice(cmr, A, s, &R);
      else e = CMRdblmatPermute(cmr, A, nr ? s->rows : NULL, nc ? s->columns : NULL, &R);
      CMRsubmatFree(cmr, &s);
    }
    else t->bad = 1;
    if (!e && R)
    {
      /* print scaled by 64 as integers, in the raw-CSR layout of the other matrix types */
      out_fmt(o, " M %zu %zu %zu |", R->numRows, R->numColumns, R->numNonzeros);
      for (size_t r = 0; r <= R->numRows; ++r) out_fmt(o, " %zu", R->rowSlice[r]);
      out_str(o, " |");
      for (size_t k = 0; k < R->rowSlice[R->numRows]; ++k) out_fmt(o, " %zu", R->entryColumns[k]);
      out_str(o, " |");
      for (size_t k = 0; k < R->rowSlice[R->numRows]; ++k) out_fmt(o, " %lld", (long long) (R->entryValues[k] * 64.0));
    }
    if (!e && RC) out_chrmat(o, RC);
    if (e && (R || RC)) out_str(o, " outs=1");
    if (R) CMRdblmatFree(cmr, &R);
    if (RC) CMRchrmatFree(cmr, &RC);
    CMRdblmatFree(cmr, &A);
    return e;
  }
  else
  {
    CMR_INTMAT* A = NULL; CMR_INTMAT* R = NULL; CMR_CHRMAT* RC = NULL;
    HCALL( in_intmat(cmr, t, &A) );
    if (t->bad) { CMRintmatFree(cmr, &A); return CMR_OKAY; }
    uint64_t s0 = sum_intmat(A);
    CMR_ERROR e = CMR_OKAY;
    if (!strcmp(what, "transpose")) e = CMRintmatTranspose(cmr, A, &R);
    else if (!strcmp(what, "copy")) e = CMRintmatCopy(cmr, A, &R);
    else if (!strcmp(what, "support")) e = CMRintmatSupport(cmr, A, &RC);
    else if (!strcmp(what, "ssupport")) e = CMRintmatSignedSupport(cmr, A, &RC);
    else if (!strcmp(what, "tochr")) e = CMRintmatToChr(cmr, A, &RC);
    else if (!strcmp(what, "isbinary")) out_str(o, CMRintmatIsBinary(cmr, A, NULL) ? " yes" : " no");
    else if (!strcmp(what, "isternary")) out_str(o, CMRintmatIsTernary(cmr, A, NULL) ? " yes" : " no");
    else if (!strcmp(what, "slice") || !strcmp(what, "permute"))
    {
      size_t nr = (size_t) tk_int(t), nc = (size_t) tk_int(t);
      if (t->bad || (long) (nr + nc) > tk_left(t) || nr > 4096 || nc > 4096) { t->bad = 1; CMRintmatFree(cmr, &A); return CMR_OKAY; }
      CMR_SUBMAT* s = NULL;
      HCALL( CMRsubmatCreate(cmr, nr, nc, &s) );
      for (size_t i = 0; i < nr; ++i) s->rows[i] = tk_idx(t);
      for (size_t i = 0; i < nc; ++i) s->columns[i] = tk_idx(t);
      if (!strcmp(what, "slice")) e = CMRintmatSlice(cmr, A, s, &R);
      else e = CMRintmatPermute(cmr, A, nr ? s->rows : NULL, nc ? s->columns : NULL, &R);
      CMRsubmatFree(cmr, &s);
    }
    else t->bad = 1;
    if (sum_intmat(A) != s0) h_input_modified = 1;
    if (!e && R) out_intmat(o, R);
    if (!e && RC) out_chrmat(o, RC);
    if (R) CMRintmatFree(cmr, &R);
    if (RC) CMRchrmatFree(cmr, &RC);
    CMRintmatFree(cmr, &A);
    return e;
  }
}

/* ---------- text I/O ---------- */

static int trailing_token(FILE* f);
static int hexval(char c) { return c >= '0' && c <= '9' ? c - '0' : c >= 'a' && c <= 'f' ? c - 'a' + 10 : -1; }

/* parse <dense|sparse|submat> <c|i|d> <hex bytes | ->   (for submat the "type" token carries "numRows,numColumns" is not needed) */
static CMR_ERROR op_parse(CMR* cmr, TOKS* t, OUT* o)
{
  const char* fmt = tk_next(t);
  const char* ty = tk_next(t);
  const char* hex = tk_next(t);
  if (t->bad) return CMR_OKAY;
  size_t n = strcmp(hex, "-") ? strlen(hex) / 2 : 0;
  char* buf = (char*) malloc(n + 1);
  for (size_t i = 0; i < n; ++i)
  {
    int a = hexval(hex[2 * i]), b = hexval(hex[2 * i + 1]);
    if (a < 0 || b < 0) { t->bad = 1; free(buf); return CMR_OKAY; }
    buf[i] = (char) (16 * a + b);
  }
  buf[n] = 0;
  FILE* f = fmemopen(n ? buf : (char*) "", n ? n : 1, "r");
  if (!f) { free(buf); return CMR_ERROR_MEMORY; }
  if (!n) { fgetc(f); } /* make the stream empty */
  CMR_ERROR e = CMR_OKAY;
  if (!strcmp(fmt, "submat"))
  {
    CMR_SUBMAT* s = NULL; size_t nr = 0, nc = 0;
    e = CMRsubmatReadFromStream(cmr, &s, &nr, &nc, f);
    if (!e && trailing_token(f)) { CMRsubmatFree(cmr, &s); e = CMR_ERROR_INPUT; }
    if (!e) { out_fmt(o, " %zu %zu", nr, nc); out_submat(o, s); }
    if (s) CMRsubmatFree(cmr, &s);
  }
  else if (ty[0] == 'c')
  {
    CMR_CHRMAT* A = NULL;
    e = !strcmp(fmt, "dense") ? CMRchrmatCreateFromDenseStream(cmr, f, &A) : CMRchrmatCreateFromSparseStream(cmr, f, &A);
    if (!e && trailing_token(f)) { CMRchrmatFree(cmr, &A); e = CMR_ERROR_INPUT; }
    if (!e) out_chrmat(o, A); else if (A) out_str(o, " outs=1");
    if (A) CMRchrmatFree(cmr, &A);
  }
  else if (ty[0] == 'i')
  {
    CMR_INTMAT* A = NULL;
    e = !strcmp(fmt, "dense") ? CMRintmatCreateFromDenseStream(cmr, f, &A) : CMRintmatCreateFromSparseStream(cmr, f, &A);
    if (!e && trailing_token(f)) { CMRintmatFree(cmr, &A); e = CMR_ERROR_INPUT; }
    if (!e) out_intmat(o, A); else if (A) out_str(o, " outs=1");
    if (A) CMRintmatFree(cmr, &A);
  }
  else
  {
    CMR_DBLMAT* A = NULL;
    e = !strcmp(fmt, "dense") ? CMRdblmatCreateFromDenseStream(cmr, f, &A) : CMRdblmatCreateFromSparseStream(cmr, f, &A);
    if (!e) out_dblmat(o, A); else if (A) out_str(o, " outs=1");
    if (A) CMRdblmatFree(cmr, &A);
  }
  fclose(f);
  free(buf);
  return e;
}

/* after a successful read: is there another token in the stream?  (the *File readers treat that as an input error) */
static int trailing_token(FILE* f)
{
  char token[20];
  return fscanf(f, "%16s", token) > 0 && strlen(token) > 0;
}

static void out_hex(OUT* o, const char* buf, size_t n)
{
  out_str(o, " ");
  if (!n) out_str(o, "-");
  for (size_t i = 0; i < n; ++i) out_fmt(o, "%02x", (unsigned char) buf[i]);
}

/* print <dense|sparse> <c|i> M  ->  hex of the text and the matrix read back from that text */
static CMR_ERROR op_print(CMR* cmr, TOKS* t, OUT* o)
{
  const char* fmt = tk_next(t);
  const char* ty = tk_next(t);
  char* buf = NULL; size_t len = 0;
  CMR_ERROR e = CMR_OKAY;
  int dense = !strcmp(fmt, "dense");
  if (ty[0] == 'c')
  {
    CMR_CHRMAT* A = NULL; CMR_CHRMAT* B = NULL;
    HCALL( in_chrmat(cmr, t, &A) );
    if (t->bad) { CMRchrmatFree(cmr, &A); return CMR_OKAY; }
    FILE* f = open_memstream(&buf, &len);
    e = dense ? CMRchrmatPrintDense(cmr, A, f, '0', false) : CMRchrmatPrintSparse(cmr, A, f);
    fclose(f);
    if (!e)
    {
      out_hex(o, buf, len);
      FILE* g = fmemopen(buf, len ? len : 1, "r");
      CMR_ERROR e2 = dense ? CMRchrmatCreateFromDenseStream(cmr, g, &B) : CMRchrmatCreateFromSparseStream(cmr, g, &B);
      fclose(g);
      if (!e2) out_chrmat(o, B); else out_fmt(o, " err:%s", errname(e2));
      if (B) CMRchrmatFree(cmr, &B);
    }
    CMRchrmatFree(cmr, &A);
  }
  else
  {
    CMR_INTMAT* A = NULL; CMR_INTMAT* B = NULL;
    HCALL( in_intmat(cmr, t, &A) );
    if (t->bad) { CMRintmatFree(cmr, &A); return CMR_OKAY; }
    FILE* f = open_memstream(&buf, &len);
    e = dense ? CMRintmatPrintDense(cmr, A, f, '0', false) : CMRintmatPrintSparse(cmr, A, f);
    fclose(f);
    if (!e)
    {
      out_hex(o, buf, len);
      FILE* g = fmemopen(buf, len ? len : 1, "r");
      CMR_ERROR e2 = dense ? CMRintmatCreateFromDenseStream(cmr, g, &B) : CMRintmatCreateFromSparseStream(cmr, g, &B);
      fclose(g);
      if (!e2) out_intmat(o, B); else out_fmt(o, " err:%s", errname(e2));
      if (B) CMRintmatFree(cmr, &B);
    }
    CMRintmatFree(cmr, &A);
  }
  free(buf);
  return e;
}

/* printsub numRows numColumns S...  -> text and re-read */
static CMR_ERROR op_printsub(CMR* cmr, TOKS* t, OUT* o)
{
  size_t m = (size_t) tk_int(t), n = (size_t) tk_int(t);
  size_t nr = (size_t) tk_int(t), nc = (size_t) tk_int(t);
  if (t->bad || (long) (nr + nc) > tk_left(t)) { t->bad = 1; return CMR_OKAY; }
  CMR_SUBMAT* s = NULL;
  HCALL( CMRsubmatCreate(cmr, nr, nc, &s) );
  for (size_t i = 0; i < nr; ++i) s->rows[i] = tk_idx(t);
  for (size_t i = 0; i < nc; ++i) s->columns[i] = tk_idx(t);
  char* buf = NULL; size_t len = 0;
  FILE* f = open_memstream(&buf, &len);
  CMR_ERROR e = CMRsubmatPrint(cmr, s, m, n, f);
  fclose(f);
  if (!e)
  {
    out_hex(o, buf, len);
    CMR_SUBMAT* s2 = NULL; size_t m2 = 0, n2 = 0;
    FILE* g = fmemopen(buf, len ? len : 1, "r");
    CMR_ERROR e2 = CMRsubmatReadFromStream(cmr, &s2, &m2, &n2, g);
    fclose(g);
    if (!e2) { out_fmt(o, " %zu %zu", m2, n2); out_submat(o, s2); } else out_fmt(o, " err:%s", errname(e2));
    if (s2) CMRsubmatFree(cmr, &s2);
  }
  free(buf);
  CMRsubmatFree(cmr, &s);
  return e;
}

/* ---------- series-parallel:  sp <bin|ter> <test|dec> <outs mask> <max|-1> M ----------
 * outs: 1 verdict, 2 reductions(+count), 4 reduced submatrix, 8 violator, 16 separation (dec only) */

static CMR_ERROR op_sp(CMR* cmr, TOKS* t, OUT* o)
{
  const char* kind = tk_next(t);
  const char* fn = tk_next(t);
  unsigned outs = (unsigned) tk_int(t);
  size_t maxred = tk_idx(t);
  CMR_CHRMAT* A = NULL;
  HCALL( in_chrmat(cmr, t, &A) );
  if (t->bad) { CMRchrmatFree(cmr, &A); return CMR_OKAY; }
  bool is = false; bool isPre = (outs >> 5) & 1; is = isPre;
  size_t total = A->numRows + A->numColumns;
  CMR_SP_REDUCTION* reds = NULL;
  if (outs & 2) reds = (CMR_SP_REDUCTION*) calloc(total + 1, sizeof(CMR_SP_REDUCTION));
  size_t numReds = 424242;
  CMR_SUBMAT* reduced = NULL; CMR_SUBMAT* viol = NULL; CMR_SEPA* sepa = NULL;
  int bin = kind[0] == 'b';
  int dec = fn[0] == 'd';
  uint64_t s0 = sum_chrmat(A);
  CMR_ERROR e;
  if (!dec)
  {
    e = (bin ? CMRspTestBinary : CMRspTestTernary)(cmr, A, (outs & 1) ? &is : NULL, reds, (outs & 2) ? &numReds : NULL,
      (outs & 4) ? &reduced : NULL, (outs & 8) ? &viol : NULL, NULL, h_time_limit);
  }
  else
  {
    e = (bin ? CMRspDecomposeBinary : CMRspDecomposeTernary)(cmr, A, (outs & 1) ? &is : NULL, reds, maxred,
      (outs & 2) ? &numReds : NULL, (outs & 4) ? &reduced : NULL, (outs & 8) ? &viol : NULL, (outs & 16) ? &sepa : NULL,
      NULL, h_time_limit);
  }
  if (sum_chrmat(A) != s0) h_input_modified = 1;
  if (!e)
  {
    out_str(o, (outs & 1) ? (is ? " yes" : " no") : " ?");
    if (outs & 2)
    {
      out_str(o, " R"); out_size(o, numReds);
      if (numReds != SIZE_MAX && numReds <= total)
        for (size_t i = 0; i < numReds; ++i) out_fmt(o, " %d %d", reds[i].element, reds[i].mate);
    }
    else out_str(o, " -");
    out_submat(o, reduced);
    out_submat(o, viol);
    if (sepa)
    {
      out_fmt(o, " P %zu %zu %d", sepa->numRows, sepa->numColumns, (int) sepa->type);
      for (size_t i = 0; i < sepa->numRows; ++i) out_fmt(o, " %d", (int) sepa->rowsFlags[i]);
      for (size_t i = 0; i < sepa->numColumns; ++i) out_fmt(o, " %d", (int) sepa->columnsFlags[i]);
    }
    else out_str(o, " -");
  }
  else
    out_fmt(o, " outs=%d%d%d", reduced ? 1 : 0, viol ? 1 : 0, sepa ? 1 : 0);
  if (reduced) CMRsubmatFree(cmr, &reduced);
  if (viol) CMRsubmatFree(cmr, &viol);
  if (sepa) CMRsepaFree(cmr, &sepa);
  free(reds);
  CMRchrmatFree(cmr, &A);
  return e;
}

/* ---------- camion:  camion <test|sign> <wantsub> M ---------- */

static CMR_ERROR op_camion(CMR* cmr, TOKS* t, OUT* o)
{
  const char* fn = tk_next(t);
  int wantsub = (int) tk_int(t);
  CMR_CHRMAT* A = NULL;
  HCALL( in_chrmat(cmr, t, &A) );
  if (t->bad) { CMRchrmatFree(cmr, &A); return CMR_OKAY; }
  bool is = false; CMR_SUBMAT* sub = NULL;
  uint64_t s0 = sum_chrmat(A);
  CMR_ERROR e;
  if (fn[0] == 't')
  {
    e = CMRcamionTestSigns(cmr, A, &is, wantsub ? &sub : NULL, NULL, h_time_limit);
    if (sum_chrmat(A) != s0) h_input_modified = 1;
    if (!e) { out_str(o, is ? " yes" : " no"); out_submat(o, sub); }
  }
  else
  {
    e = CMRcamionComputeSigns(cmr, A, &is, wantsub ? &sub : NULL, NULL, h_time_limit);
    if (!e) { out_str(o, is ? " yes" : " no"); out_submat(o, sub); out_chrmat(o, A); }
  }
  if (e) out_fmt(o, " outs=%d", sub ? 1 : 0);
  if (sub) CMRsubmatFree(cmr, &sub);
  CMRchrmatFree(cmr, &A);
  return e;
}

/* camionx <wantsub> M : test, sign, test(sign), sign(sign) in one op
 *   -> t=<yes|no> <S|-> w=<yes|no> M(signed) t2=<yes|no> idem=<0|1> */
static CMR_ERROR op_camionx(CMR* cmr, TOKS* t, OUT* o)
{
  int wantsub = (int) tk_int(t);
  CMR_CHRMAT* A = NULL;
  HCALL( in_chrmat(cmr, t, &A) );
  if (t->bad) { CMRchrmatFree(cmr, &A); return CMR_OKAY; }
  CMR_CHRMAT* B = NULL; CMR_CHRMAT* C = NULL;
  bool is = false, was = false, is2 = false, was2 = false; CMR_SUBMAT* sub = NULL; CMR_SUBMAT* sub2 = NULL;
  uint64_t s0 = sum_chrmat(A);
  CMR_ERROR e = CMRcamionTestSigns(cmr, A, &is, wantsub ? &sub : NULL, NULL, h_time_limit);
  if (sum_chrmat(A) != s0) h_input_modified = 1;
  if (!e) e = CMRchrmatCopy(cmr, A, &B);
  if (!e) e = CMRcamionComputeSigns(cmr, B, &was, wantsub ? &sub2 : NULL, NULL, h_time_limit);
  if (!e) e = CMRcamionTestSigns(cmr, B, &is2, NULL, NULL, h_time_limit);
  if (!e) e = CMRchrmatCopy(cmr, B, &C);
  if (!e) e = CMRcamionComputeSigns(cmr, C, &was2, NULL, NULL, h_time_limit);
  if (!e)
  {
    out_str(o, is ? " t=yes" : " t=no");
    out_submat(o, sub);
    out_str(o, was ? " w=yes" : " w=no");
    out_submat(o, sub2);
    out_chrmat(o, B);
    out_str(o, is2 ? " t2=yes" : " t2=no");
    out_fmt(o, " idem=%d", CMRchrmatCheckEqual(B, C) ? 1 : 0);
  }
  if (sub) CMRsubmatFree(cmr, &sub);
  if (sub2) CMRsubmatFree(cmr, &sub2);
  if (B) CMRchrmatFree(cmr, &B);
  if (C) CMRchrmatFree(cmr, &C);
  CMRchrmatFree(cmr, &A);
  return e;
}

/* ---------- balanced:  balanced <alg 0|1|2> <sp 0|1> <preset 0|1> <wantsub> M(int entries via char) ---------- */

static CMR_ERROR op_balanced(CMR* cmr, TOKS* t, OUT* o)
{
  int alg = (int) tk_int(t), sp = (int) tk_int(t), preset = (int) tk_int(t), wantsub = (int) tk_int(t);
  CMR_CHRMAT* A = NULL;
  HCALL( in_chrmat(cmr, t, &A) );
  if (t->bad) { CMRchrmatFree(cmr, &A); return CMR_OKAY; }
  CMR_BALANCED_PARAMS params;
  CMRbalancedParamsInit(&params);
  /* alg 3: the library's defaults, nothing overridden; alg 4: params = NULL */
  if (alg < 3) { params.algorithm = (CMR_BALANCED_ALGORITHM) alg; params.seriesParallel = sp; }
  bool is = preset; CMR_SUBMAT* sub = NULL;
  uint64_t s0 = sum_chrmat(A);
  CMR_ERROR e = CMRbalancedTest(cmr, A, &is, wantsub ? &sub : NULL, alg == 4 ? NULL : &params, NULL, h_time_limit);
  if (sum_chrmat(A) != s0) h_input_modified = 1;
  if (!e) { out_str(o, is ? " yes" : " no"); out_submat(o, sub); }
  else out_fmt(o, " outs=%d", sub ? 1 : 0);
  if (sub) CMRsubmatFree(cmr, &sub);
  CMRchrmatFree(cmr, &A);
  return e;
}

/* ---------- equimodular:  equimod <fn: e|es|u|us> <k or 0> M(int) ---------- */

static CMR_ERROR op_equimod(CMR* cmr, TOKS* t, OUT* o)
{
  const char* fn = tk_next(t);
  long long k = tk_int(t);
  CMR_INTMAT* A = NULL;
  HCALL( in_intmat(cmr, t, &A) );
  if (t->bad) { CMRintmatFree(cmr, &A); return CMR_OKAY; }
  bool is = false; int64_t g = k;
  uint64_t s0 = sum_intmat(A);
  CMR_ERROR e;
  if (!strcmp(fn, "e")) e = CMRequimodularTest(cmr, A, &is, &g, NULL, NULL, h_time_limit);
  else if (!strcmp(fn, "es")) e = CMRequimodularTestStrong(cmr, A, &is, &g, NULL, NULL, h_time_limit);
  else if (!strcmp(fn, "u")) { e = CMRunimodularTest(cmr, A, &is, NULL, NULL, h_time_limit); g = -1; }
  else { e = CMRunimodularTestStrong(cmr, A, &is, NULL, NULL, h_time_limit); g = -1; }
  if (sum_intmat(A) != s0) h_input_modified = 1;
  if (!e) out_fmt(o, " %s %lld", is ? "yes" : "no", (long long) g);
  CMRintmatFree(cmr, &A);
  return e;
}

/* ---------- raw stack ops:  stack a:40 a:8 f f ...  -> usage after each step ---------- */

static CMR_ERROR op_stack(CMR* cmr, TOKS* t, OUT* o)
{
  void* ptrs[4096];
  size_t depth = 0;
  size_t saved_rz = hw_redzone; int saved_fill = hw_fill;
  hw_redzone = 0; hw_fill = -1;
#ifdef NDEBUG
  out_str(o, " hdr=8");
#else
  out_str(o, " hdr=12");
#endif
  while (tk_left(t) > 0)
  {
    const char* s = tk_next(t);
    if (s[0] == 'a' && s[1] == ':')
    {
      if (depth >= 4096) { t->bad = 1; break; }
      size_t sz = (size_t) strtoull(s + 2, NULL, 10);
      if (sz > (1u << 28)) { t->bad = 1; break; }
      ptrs[depth] = NULL;
      CMR_ERROR e = _CMRallocStack(cmr, &ptrs[depth], sz);
      if (e) { hw_redzone = saved_rz; hw_fill = saved_fill; return e; }
      /* address modulo 8, to expose D8 */
      out_fmt(o, " %zu:%d", CMRgetStackUsage(cmr), (int) ((uintptr_t) ptrs[depth] & 7));
      ++depth;
    }
    else if (s[0] == 'f' && !s[1])
    {
      if (depth == 0) { t->bad = 1; break; }
      --depth;
      _CMRfreeStack(cmr, &ptrs[depth]);
      out_fmt(o, " %zu", CMRgetStackUsage(cmr));
    }
    else { t->bad = 1; break; }
  }
  while (depth > 0) { --depth; _CMRfreeStack(cmr, &ptrs[depth]); }
  hw_redzone = saved_rz; hw_fill = saved_fill;
  return CMR_OKAY;
}

OPDEF ops_basic[] = {
  { "complement", op_complement },
  { "ctu", op_ctu },
  { "tu", op_tu },
  { "regular", op_regular },
  { "pivot", op_pivot },
  { "mat", op_mat },
  { "parse", op_parse },
  { "print", op_print },
  { "printsub", op_printsub },
  { "sp", op_sp },
  { "camion", op_camion },
  { "camionx", op_camionx },
  { "balanced", op_balanced },
  { "equimod", op_equimod },
  { "stack", op_stack },
  { NULL, NULL }
};
