/* Relations between runs (C10): the same recognizers on a matrix and on transformed presentations of it, and on the
 * operands and the result of a k-sum.  Transformations use the public API where there is one (transpose, permute, slice,
 * pivots, compositions); line negation / insertion are done here on a dense copy. */
#include "cmrh.h"
#include <cmr/tu.h>
#include <cmr/regular.h>
#include <cmr/graphic.h>
#include <cmr/network.h>
#include <cmr/series_parallel.h>
#include <cmr/balanced.h>
#include <cmr/camion.h>
#include <cmr/separation.h>

void seymour_params_from_mask(CMR_SEYMOUR_PARAMS* p, unsigned long mask);
void tu_params_from_mask(CMR_TU_PARAMS* p, unsigned long mask);

typedef struct { size_t m, n; signed char* a; } DENSE;   /* row-major */

static DENSE dn_new(size_t m, size_t n)
{
  DENSE d; d.m = m; d.n = n; d.a = (signed char*) calloc(m * n + 1, 1); return d;
}
#define DN(d, i, j) ((d).a[(i) * (d).n + (j)])

static CMR_ERROR dn_from(CMR_CHRMAT* A, DENSE* d)
{
  *d = dn_new(A->numRows, A->numColumns);
  for (size_t r = 0; r < A->numRows; ++r)
    for (size_t e = A->rowSlice[r]; e < A->rowSlice[r + 1]; ++e)
      DN(*d, r, A->entryColumns[e]) = A->entryValues[e];
  return CMR_OKAY;
}

static CMR_ERROR dn_to(CMR* cmr, DENSE* d, CMR_CHRMAT** pA)
{
  size_t nnz = 0;
  for (size_t i = 0; i < d->m * d->n; ++i) if (d->a[i]) ++nnz;
  HCALL( CMRchrmatCreate(cmr, pA, d->m, d->n, nnz) );
  size_t e = 0;
  for (size_t r = 0; r < d->m; ++r)
  {
    (*pA)->rowSlice[r] = e;
    for (size_t c = 0; c < d->n; ++c)
      if (DN(*d, r, c)) { (*pA)->entryColumns[e] = c; (*pA)->entryValues[e] = DN(*d, r, c); ++e; }
  }
  (*pA)->rowSlice[d->m] = e;
  return CMR_OKAY;
}

typedef struct { char name[8]; unsigned long mask; } REC;

/* one recognizer on one matrix; verdict token appended to o */
static void recognize(CMR* cmr, REC* rec, CMR_CHRMAT* A, OUT* o)
{
  bool is = false, supp = false;
  CMR_ERROR e = CMR_OKAY;
  uint64_t s0 = sum_chrmat(A);
  const char* r = rec->name;
  if (!strcmp(r, "tu"))
  {
    CMR_TU_PARAMS params; tu_params_from_mask(&params, rec->mask);
    e = CMRtuTest(cmr, A, &is, NULL, NULL, &params, NULL, h_time_limit);
  }
  else if (!strcmp(r, "reg"))
  {
    CMR_REGULAR_PARAMS params; CMRregularParamsInit(&params); seymour_params_from_mask(&params.seymour, rec->mask);
    e = CMRregularTest(cmr, A, &is, NULL, NULL, &params, NULL, h_time_limit);
  }
  else if (!strcmp(r, "gra")) e = CMRgraphicTestMatrix(cmr, A, &is, NULL, NULL, NULL, NULL, NULL, h_time_limit);
  else if (!strcmp(r, "cog")) e = CMRgraphicTestTranspose(cmr, A, &is, NULL, NULL, NULL, NULL, NULL, h_time_limit);
  else if (!strcmp(r, "net")) e = CMRnetworkTestMatrix(cmr, A, &is, &supp, NULL, NULL, NULL, NULL, NULL, NULL, h_time_limit);
  else if (!strcmp(r, "con")) e = CMRnetworkTestTranspose(cmr, A, &is, &supp, NULL, NULL, NULL, NULL, NULL, NULL, h_time_limit);
  else if (!strcmp(r, "spb")) e = CMRspTestBinary(cmr, A, &is, NULL, NULL, NULL, NULL, NULL, h_time_limit);
  else if (!strcmp(r, "spt")) e = CMRspTestTernary(cmr, A, &is, NULL, NULL, NULL, NULL, NULL, h_time_limit);
  else if (!strcmp(r, "bal"))
  {
    CMR_BALANCED_PARAMS params; CMRbalancedParamsInit(&params);
    params.algorithm = (CMR_BALANCED_ALGORITHM) ((rec->mask >> 20) & 3);
    params.seriesParallel = (rec->mask >> 22) & 1;
    e = CMRbalancedTest(cmr, A, &is, NULL, &params, NULL, h_time_limit);
  }
  else if (!strcmp(r, "cam")) e = CMRcamionTestSigns(cmr, A, &is, NULL, NULL, h_time_limit);
  else { out_str(o, " ?"); return; }
  if (sum_chrmat(A) != s0) h_input_modified = 1;
  if (e) out_fmt(o, " e:%s", errname(e)); else out_str(o, is ? " y" : " n");
}

static void recognize_all(CMR* cmr, REC* recs, int nrec, CMR_CHRMAT* A, OUT* o)
{
  out_str(o, " v");
  for (int i = 0; i < nrec; ++i) recognize(cmr, &recs[i], A, o);
}

/* <mask> <rec,rec,...> : one option mask shared by all recognizers (tu/reg: option bits as for the `tu` op; bal: bits 20-21
 * algorithm, bit 22 seriesParallel) */
static int read_recs(TOKS* t, REC* recs, int* pn)
{
  unsigned long mask = (unsigned long) tk_int(t);
  const char* s = tk_next(t);
  if (t->bad || !s) { t->bad = 1; return 0; }
  int n = 0;
  while (*s)
  {
    size_t k = strcspn(s, ",");
    if (k == 0 || k > 7 || n >= 16) { t->bad = 1; return 0; }
    memcpy(recs[n].name, s, k); recs[n].name[k] = 0;
    recs[n].mask = mask;
    ++n;
    s += k;
    if (*s == ',') ++s;
  }
  *pn = n;
  return n > 0;
}

/* apply one step to *pA (replacing it); returns 0 on success, else prints the failure and returns nonzero */
static int apply_step(CMR* cmr, TOKS* t, CMR_CHRMAT** pA, OUT* o)
{
  const char* s = tk_next(t);
  if (!s) { t->bad = 1; return 1; }
  CMR_CHRMAT* A = *pA; CMR_CHRMAT* R = NULL;
  CMR_ERROR e = CMR_OKAY;
  size_t m = A->numRows, n = A->numColumns;
  if (!strcmp(s, "T")) e = CMRchrmatTranspose(cmr, A, &R);
  else if (!strcmp(s, "P"))
  {
    size_t* rows = (size_t*) malloc((m + 1) * sizeof(size_t)); size_t* cols = (size_t*) malloc((n + 1) * sizeof(size_t));
    for (size_t i = 0; i < m; ++i) rows[i] = tk_idx(t);
    for (size_t i = 0; i < n; ++i) cols[i] = tk_idx(t);
    if (!t->bad) e = CMRchrmatPermute(cmr, A, rows, cols, &R);
    free(rows); free(cols);
  }
  else if (!strcmp(s, "S"))
  {
    size_t nr = (size_t) tk_int(t), nc = (size_t) tk_int(t);
    if (t->bad || nr > m || nc > n) { t->bad = 1; return 1; }
    CMR_SUBMAT* sub = NULL;
    if (CMRsubmatCreate(cmr, nr, nc, &sub)) { t->bad = 1; return 1; }
    for (size_t i = 0; i < nr; ++i) sub->rows[i] = tk_idx(t);
    for (size_t i = 0; i < nc; ++i) sub->columns[i] = tk_idx(t);
    if (!t->bad) e = CMRchrmatSlice(cmr, A, sub, &R);
    CMRsubmatFree(cmr, &sub);
  }
  else if (!strcmp(s, "V2") || !strcmp(s, "V3"))
  {
    size_t r = tk_idx(t), c = tk_idx(t);
    if (t->bad || r >= m || c >= n) { t->bad = 1; return 1; }
    e = (s[1] == '2' ? CMRchrmatBinaryPivot : CMRchrmatTernaryPivot)(cmr, A, r, c, &R);
  }
  else
  {
    /* dense edits */
    DENSE d; dn_from(A, &d);
    DENSE q; q.a = NULL;
    int isrow = s[1] == 'R';
    if (s[0] == 'N' && (s[1] == 'R' || s[1] == 'C'))
    {
      size_t k = tk_idx(t);
      if (t->bad || k >= (isrow ? m : n)) { free(d.a); t->bad = 1; return 1; }
      if (isrow) for (size_t j = 0; j < n; ++j) DN(d, k, j) = (signed char) -DN(d, k, j);
      else for (size_t i = 0; i < m; ++i) DN(d, i, k) = (signed char) -DN(d, i, k);
      q = d; d.a = NULL;
    }
    else if ((s[0] == 'Z' || s[0] == 'U' || s[0] == 'D') && (s[1] == 'R' || s[1] == 'C'))
    {
      size_t pos = tk_idx(t), src = 0; int sg = 1;
      if (s[0] != 'Z') { src = tk_idx(t); sg = (int) tk_int(t); }
      size_t lines = isrow ? m : n, other = isrow ? n : m;
      if (t->bad || pos > lines || (s[0] == 'U' && src >= other) || (s[0] == 'D' && src >= lines)) { free(d.a); t->bad = 1; return 1; }
      q = dn_new(isrow ? m + 1 : m, isrow ? n : n + 1);
      for (size_t i = 0; i < q.m; ++i)
        for (size_t j = 0; j < q.n; ++j)
        {
          size_t li = isrow ? i : j, ot = isrow ? j : i;   /* line index / index inside the line */
          signed char v;
          if (li == pos)
          {
            if (s[0] == 'Z') v = 0;
            else if (s[0] == 'U') v = (signed char) (ot == src ? sg : 0);
            else v = (signed char) (sg * (isrow ? DN(d, src, ot) : DN(d, ot, src)));
          }
          else
          {
            size_t ol = li < pos ? li : li - 1;
            v = isrow ? DN(d, ol, ot) : DN(d, ot, ol);
          }
          DN(q, i, j) = v;
        }
    }
    else { free(d.a); t->bad = 1; return 1; }
    free(d.a);
    e = dn_to(cmr, &q, &R);
    free(q.a);
  }
  if (t->bad) { if (R) CMRchrmatFree(cmr, &R); return 1; }
  if (e) { out_fmt(o, " step-err:%s:%s", s, errname(e)); if (R) CMRchrmatFree(cmr, &R); return 1; }
  CMRchrmatFree(cmr, pA);
  *pA = R;
  return 0;
}

/* rel <mask> <rec,rec,..> M <ntr> (<nsteps> step*)*
 *   -> v <verdicts of M> then for every transformation: | v <verdicts of g(M)> <g(M) as CSR>   or  | step-err:.. */
static CMR_ERROR op_rel(CMR* cmr, TOKS* t, OUT* o)
{
  REC recs[16]; int nrec = 0;
  if (!read_recs(t, recs, &nrec)) return CMR_OKAY;
  CMR_CHRMAT* A = NULL;
  HCALL( in_chrmat(cmr, t, &A) );
  if (t->bad) { if (A) CMRchrmatFree(cmr, &A); return CMR_OKAY; }
  recognize_all(cmr, recs, nrec, A, o);
  int ntr = (int) tk_int(t);
  for (int k = 0; k < ntr && !t->bad; ++k)
  {
    int ns = (int) tk_int(t);
    CMR_CHRMAT* B = NULL;
    HCALL( CMRchrmatCopy(cmr, A, &B) );
    out_str(o, " |");
    int failed = 0;
    for (int i = 0; i < ns && !t->bad && !failed; ++i) failed = apply_step(cmr, t, &B, o);
    if (!failed && !t->bad) { recognize_all(cmr, recs, nrec, B, o); out_chrmat(o, B); }
    CMRchrmatFree(cmr, &B);
    if (failed) break;
  }
  CMRchrmatFree(cmr, &A);
  return CMR_OKAY;
}

/* relsum <mask> <rec,rec,..> <kind 1|2|D|Y|3> <ch> M1 M2 specials (as for `compose`; kind 1: no specials)
 *   -> v <verdicts M1> | v <verdicts M2> | v <verdicts sum> <sum as CSR>   or  | compose-err:X */
static CMR_ERROR op_relsum(CMR* cmr, TOKS* t, OUT* o)
{
  REC recs[16]; int nrec = 0;
  if (!read_recs(t, recs, &nrec)) return CMR_OKAY;
  const char* kind = tk_next(t);
  int ch = (int) tk_int(t);
  if (!kind || t->bad) { t->bad = 1; return CMR_OKAY; }
  CMR_CHRMAT* A = NULL; CMR_CHRMAT* B = NULL; CMR_CHRMAT* R = NULL;
  HCALL( in_chrmat(cmr, t, &A) );
  if (!t->bad) HCALL( in_chrmat(cmr, t, &B) );
  size_t s[10];
  int ns = kind[0] == '1' ? 0 : kind[0] == '2' ? 4 : kind[0] == '3' ? 10 : 6;
  for (int i = 0; i < ns; ++i) s[i] = tk_idx(t);
  if (t->bad) { if (A) CMRchrmatFree(cmr, &A); if (B) CMRchrmatFree(cmr, &B); return CMR_OKAY; }
  CMR_ERROR e;
  if (kind[0] == '1') { CMR_CHRMAT* mats[2] = { A, B }; e = CMRonesumCompose(cmr, 2, mats, &R); }
  else if (kind[0] == '2')
    e = CMRtwosumCompose(cmr, A, B, s[0] == SIZE_MAX ? NULL : &s[0], s[1] == SIZE_MAX ? NULL : &s[1],
      s[2] == SIZE_MAX ? NULL : &s[2], s[3] == SIZE_MAX ? NULL : &s[3], (int8_t) ch, &R);
  else if (kind[0] == 'D') e = CMRdeltasumCompose(cmr, A, B, &s[0], &s[1], &s[3], &s[4], (int8_t) ch, &R);
  else if (kind[0] == 'Y') e = CMRysumCompose(cmr, A, B, &s[0], &s[2], &s[3], &s[5], (int8_t) ch, &R);
  else e = CMRthreesumCompose(cmr, A, B, &s[0], &s[2], &s[5], &s[8], (int8_t) ch, &R);
  recognize_all(cmr, recs, nrec, A, o);
  out_str(o, " |");
  recognize_all(cmr, recs, nrec, B, o);
  out_str(o, " |");
  if (e) out_fmt(o, " compose-err:%s", errname(e));
  else { recognize_all(cmr, recs, nrec, R, o); out_chrmat(o, R); }
  if (R) CMRchrmatFree(cmr, &R);
  CMRchrmatFree(cmr, &A); CMRchrmatFree(cmr, &B);
  return CMR_OKAY;
}

/* tuall M <k> mask*  : CMRtuTest under each option mask (algorithm, strategy, flags) on the same matrix -> verdict tokens */
static CMR_ERROR op_tuall(CMR* cmr, TOKS* t, OUT* o)
{
  CMR_CHRMAT* A = NULL;
  HCALL( in_chrmat(cmr, t, &A) );
  if (t->bad) { if (A) CMRchrmatFree(cmr, &A); return CMR_OKAY; }
  int k = (int) tk_int(t);
  if (t->bad || k < 1 || k > 32) { t->bad = 1; CMRchrmatFree(cmr, &A); return CMR_OKAY; }
  out_str(o, " v");
  for (int i = 0; i < k && !t->bad; ++i)
  {
    REC r; strcpy(r.name, "tu"); r.mask = (unsigned long) tk_int(t);
    if (!t->bad) recognize(cmr, &r, A, o);
  }
  CMRchrmatFree(cmr, &A);
  return CMR_OKAY;
}

/* tusigned <mask> M(0/1) : Camion-sign the 0/1 matrix with the library, then CMRtuTest (mask) on the signed matrix and
 * CMRregularTest (mask without the ternary bit) on the input  ->  reg=<y|n> tu=<y|n> <signed matrix> */
static CMR_ERROR op_tusigned(CMR* cmr, TOKS* t, OUT* o)
{
  unsigned long mask = (unsigned long) tk_int(t);
  CMR_CHRMAT* A = NULL;
  HCALL( in_chrmat(cmr, t, &A) );
  if (t->bad) { if (A) CMRchrmatFree(cmr, &A); return CMR_OKAY; }
  CMR_CHRMAT* S = NULL;
  HCALL( CMRchrmatCopy(cmr, A, &S) );
  bool was = false;
  CMR_ERROR e = CMRcamionComputeSigns(cmr, S, &was, NULL, NULL, h_time_limit);
  if (!e)
  {
    REC r; strcpy(r.name, "reg"); r.mask = mask & ~4UL;
    out_str(o, " reg"); recognize(cmr, &r, A, o);
    strcpy(r.name, "tu"); r.mask = mask | 4UL;
    out_str(o, " tu"); recognize(cmr, &r, S, o);
    out_chrmat(o, S);
  }
  CMRchrmatFree(cmr, &S);
  CMRchrmatFree(cmr, &A);
  return e;
}

OPDEF ops_rel[] = { { "rel", op_rel }, { "relsum", op_relsum }, { "tuall", op_tuall }, { "tusigned", op_tusigned }, { NULL, NULL } };
