/* Shared declarations of the correspondence harness (see cmrh.c). */
#ifndef CMRH_H
#define CMRH_H

#include <stdio.h>
#include <stdlib.h>
#include <string.h>
#include <stdint.h>
#include <stdbool.h>
#include <limits.h>

#include <cmr/env.h>
#include <cmr/matrix.h>
#include <cmr/graph.h>
#include "hwrap.h"

/* ---- token cursor over one input line ---- */
typedef struct { char** tok; int n; int pos; int bad; } TOKS;
const char* tk_next(TOKS* t);
long long tk_int(TOKS* t);
size_t tk_idx(TOKS* t); /* -1 -> SIZE_MAX */
int tk_left(TOKS* t);

/* ---- output builder ---- */
typedef struct { char* s; size_t len, cap; } OUT;
void out_reset(OUT* o);
void out_str(OUT* o, const char* s);
void out_fmt(OUT* o, const char* fmt, ...);
void out_chrmat(OUT* o, CMR_CHRMAT* m);  /* raw CSR: "M r c nnz | slice.. | cols.. | vals.." */
void out_intmat(OUT* o, CMR_INTMAT* m);
void out_dblmat(OUT* o, CMR_DBLMAT* m);
void out_submat(OUT* o, CMR_SUBMAT* s);  /* "S nr nc rows.. cols.." or "-" */
void out_size(OUT* o, size_t v);         /* SIZE_MAX -> -1 */
void out_graph(OUT* o, CMR_GRAPH* g);    /* "G numNodes numEdges (e u v)*" ordered by edge id */
const char* errname(CMR_ERROR e);

/* ---- matrix input (dense, row-major):  m n e00 e01 ... ---- */
CMR_ERROR in_chrmat(CMR* cmr, TOKS* t, CMR_CHRMAT** pm);
CMR_ERROR in_intmat(CMR* cmr, TOKS* t, CMR_INTMAT** pm);
uint64_t sum_chrmat(CMR_CHRMAT* m);
uint64_t sum_intmat(CMR_INTMAT* m);

/* ---- an op: returns status; writes its payload to o ---- */
typedef CMR_ERROR (*OPFN)(CMR* cmr, TOKS* t, OUT* o);
typedef struct { const char* name; OPFN fn; } OPDEF;
extern OPDEF ops_basic[];
extern OPDEF ops_tree[];
extern OPDEF ops_graph[];
extern OPDEF ops_sepa[];
extern OPDEF ops_rel[];

/* set by an op when it detected that an input object was modified by the library */
extern __thread int h_input_modified;
/* time limit handed to time-limited functions (large unless clock injection is on) */
extern __thread double h_time_limit;

#define HCALL(x) do { CMR_ERROR _e = (x); if (_e) return _e; } while (0)

#endif
