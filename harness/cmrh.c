/* cmrh — correspondence harness: reads one operation per line on stdin, calls the real CMR API in-process
 * (library objects compiled from /repo's working tree) and prints one canonical result line per operation.
 *
 * Result line:   <ok|err:NAME> <payload> ;; st=<usage0>,<usage1>,<depthdelta>,<orderviol> in=<0|1> clk=<reads>,<fired>
 *
 * The Lean driver (cmrmodel) receives "<op line> => <result line>" and judges it.
 */
#include "cmrh.h"
#include <stdarg.h>
#include <signal.h>
#include <unistd.h>

size_t CMRgetStackUsage(CMR* cmr); /* env_internal.h; global symbol of the library */

#if defined(__SANITIZE_ADDRESS__) || defined(__SANITIZE_THREAD__)
void __sanitizer_set_death_callback(void (*cb)(void));
#define HAVE_SAN_CB 1
#endif

__thread int h_input_modified = 0;
__thread double h_time_limit = 1.0e9;

/* ---------- tokens ---------- */

const char* tk_next(TOKS* t)
{
  if (t->pos >= t->n) { t->bad = 1; return "0"; }
  return t->tok[t->pos++];
}
long long tk_int(TOKS* t)
{
  const char* s = tk_next(t);
  char* end;
  long long v = strtoll(s, &end, 10);
  if (*end) t->bad = 1;
  return v;
}
size_t tk_idx(TOKS* t)
{
  long long v = tk_int(t);
  return v < 0 ? SIZE_MAX : (size_t) v;
}
int tk_left(TOKS* t) { return t->n - t->pos; }

/* ---------- output ---------- */

void out_reset(OUT* o) { o->len = 0; if (o->s) o->s[0] = 0; }
static void out_need(OUT* o, size_t n)
{
  if (o->len + n + 1 > o->cap)
  {
    o->cap = 2 * (o->cap + n + 256);
    o->s = (char*) realloc(o->s, o->cap);
  }
}
void out_str(OUT* o, const char* s)
{
  size_t n = strlen(s);
  out_need(o, n);
  memcpy(o->s + o->len, s, n + 1);
  o->len += n;
}
void out_fmt(OUT* o, const char* fmt, ...)
{
  char buf[256];
  va_list ap;
  va_start(ap, fmt);
  vsnprintf(buf, sizeof(buf), fmt, ap);
  va_end(ap);
  out_str(o, buf);
}
void out_size(OUT* o, size_t v)
{
  if (v == SIZE_MAX) out_str(o, " -1");
  else out_fmt(o, " %zu", v);
}

#define OUT_MAT(NAME, TYPE, FMT, CAST) \
void NAME(OUT* o, TYPE* m) \
{ \
  if (!m) { out_str(o, " -"); return; } \
  out_fmt(o, " M %zu %zu %zu |", m->numRows, m->numColumns, m->numNonzeros); \
  for (size_t r = 0; r <= m->numRows; ++r) out_fmt(o, " %zu", m->rowSlice[r]); \
  out_str(o, " |"); \
  size_t nnz = m->rowSlice[m->numRows]; \
  if (nnz > (1u << 26)) nnz = 0; \
  for (size_t e = 0; e < nnz; ++e) out_fmt(o, " %zu", m->entryColumns[e]); \
  out_str(o, " |"); \
  for (size_t e = 0; e < nnz; ++e) out_fmt(o, FMT, CAST m->entryValues[e]); \
}
OUT_MAT(out_chrmat, CMR_CHRMAT, " %d", (int))
OUT_MAT(out_intmat, CMR_INTMAT, " %d", (int))
OUT_MAT(out_dblmat, CMR_DBLMAT, " %.17g", (double))

void out_submat(OUT* o, CMR_SUBMAT* s)
{
  if (!s) { out_str(o, " -"); return; }
  out_fmt(o, " S %zu %zu", s->numRows, s->numColumns);
  for (size_t i = 0; i < s->numRows; ++i) out_size(o, s->rows[i]);
  for (size_t i = 0; i < s->numColumns; ++i) out_size(o, s->columns[i]);
}

void out_graph(OUT* o, CMR_GRAPH* g)
{
  if (!g) { out_str(o, " -"); return; }
  /* nodes are reported by their ids; edges by id with endpoints (u,v) */
  out_fmt(o, " G %zu %zu", CMRgraphNumNodes(g), CMRgraphNumEdges(g));
  for (CMR_GRAPH_NODE v = CMRgraphNodesFirst(g); CMRgraphNodesValid(g, v); v = CMRgraphNodesNext(g, v))
    out_fmt(o, " %d", v);
  for (CMR_GRAPH_ITER i = CMRgraphEdgesFirst(g); CMRgraphEdgesValid(g, i); i = CMRgraphEdgesNext(g, i))
  {
    CMR_GRAPH_EDGE e = CMRgraphEdgesEdge(g, i);
    out_fmt(o, " %d %d %d", e, CMRgraphEdgeU(g, e), CMRgraphEdgeV(g, e));
  }
}

const char* errname(CMR_ERROR e)
{
  switch (e)
  {
  case CMR_OKAY: return "OKAY";
  case CMR_ERROR_INPUT: return "INPUT";
  case CMR_ERROR_OUTPUT: return "OUTPUT";
  case CMR_ERROR_MEMORY: return "MEMORY";
  case CMR_ERROR_INVALID: return "INVALID";
  case CMR_ERROR_OVERFLOW: return "OVERFLOW";
  case CMR_ERROR_TIMEOUT: return "TIMEOUT";
  case CMR_ERROR_STRUCTURE: return "STRUCTURE";
  case CMR_ERROR_INCONSISTENT: return "INCONSISTENT";
  case CMR_ERROR_PARAMS: return "PARAMS";
  default: return "UNKNOWN";
  }
}

/* ---------- matrix input ---------- */

CMR_ERROR in_chrmat(CMR* cmr, TOKS* t, CMR_CHRMAT** pm)
{
  long long m = tk_int(t), n = tk_int(t);
  if (t->bad || m < 0 || n < 0 || m * n > tk_left(t)) { t->bad = 1; return CMR_OKAY; }
  size_t nnz = 0;
  for (long long i = 0; i < m * n; ++i)
    if (strcmp(t->tok[t->pos + i], "0") != 0) ++nnz;
  HCALL( CMRchrmatCreate(cmr, pm, (int) m, (int) n, (int) nnz) );
  CMR_CHRMAT* A = *pm;
  size_t e = 0;
  for (long long r = 0; r < m; ++r)
  {
    A->rowSlice[r] = e;
    for (long long c = 0; c < n; ++c)
    {
      long long v = tk_int(t);
      if (v < -128 || v > 127) t->bad = 1;
      if (v != 0) { A->entryColumns[e] = (size_t) c; A->entryValues[e] = (char) v; ++e; }
    }
  }
  A->rowSlice[m] = e;
  return CMR_OKAY;
}

CMR_ERROR in_intmat(CMR* cmr, TOKS* t, CMR_INTMAT** pm)
{
  long long m = tk_int(t), n = tk_int(t);
  if (t->bad || m < 0 || n < 0 || m * n > tk_left(t)) { t->bad = 1; return CMR_OKAY; }
  size_t nnz = 0;
  for (long long i = 0; i < m * n; ++i)
    if (strcmp(t->tok[t->pos + i], "0") != 0) ++nnz;
  HCALL( CMRintmatCreate(cmr, pm, (int) m, (int) n, (int) nnz) );
  CMR_INTMAT* A = *pm;
  size_t e = 0;
  for (long long r = 0; r < m; ++r)
  {
    A->rowSlice[r] = e;
    for (long long c = 0; c < n; ++c)
    {
      long long v = tk_int(t);
      if (v < INT_MIN || v > INT_MAX) t->bad = 1;
      if (v != 0) { A->entryColumns[e] = (size_t) c; A->entryValues[e] = (int) v; ++e; }
    }
  }
  A->rowSlice[m] = e;
  return CMR_OKAY;
}

static uint64_t mix(uint64_t h, uint64_t v) { h ^= v + 0x9e3779b97f4a7c15ULL + (h << 6) + (h >> 2); return h; }
uint64_t sum_chrmat(CMR_CHRMAT* m)
{
  uint64_t h = mix(mix(1, m->numRows), m->numColumns);
  for (size_t r = 0; r <= m->numRows; ++r) h = mix(h, m->rowSlice[r]);
  for (size_t e = 0; e < m->rowSlice[m->numRows]; ++e) h = mix(mix(h, m->entryColumns[e]), (uint64_t)(int64_t) m->entryValues[e]);
  return h;
}
uint64_t sum_intmat(CMR_INTMAT* m)
{
  uint64_t h = mix(mix(2, m->numRows), m->numColumns);
  for (size_t r = 0; r <= m->numRows; ++r) h = mix(h, m->rowSlice[r]);
  for (size_t e = 0; e < m->rowSlice[m->numRows]; ++e) h = mix(mix(h, m->entryColumns[e]), (uint64_t)(int64_t) m->entryValues[e]);
  return h;
}

/* ---------- crash handling ---------- */

static void flush_cb(void) { fflush(stdout); }
static void on_signal(int sig)
{
  fflush(stdout);
  char b[64];
  int n = snprintf(b, sizeof(b), "!crash sig=%d\n", sig);
  if (write(1, b, n)) {}
  _exit(99);
}

/* ---------- main loop ---------- */

static OPDEF* find_op(const char* name)
{
  OPDEF* tabs[] = { ops_basic, ops_graph, ops_sepa, ops_tree, ops_rel };
  for (size_t k = 0; k < sizeof(tabs) / sizeof(tabs[0]); ++k)
    for (OPDEF* d = tabs[k]; d && d->name; ++d)
      if (strcmp(d->name, name) == 0) return d;
  return NULL;
}

static int cfg_fresh = 0;
static long cfg_clock_at = 0;
static unsigned cfg_op_timeout = 90;   /* wall-clock watchdog per op (endless loops); generous because checks run in parallel */
static int cfg_threads = 0;

/* processes one input line (modified in place) with the thread's environment; the result line (without "#k ") goes to res */
static int process_line(CMR** pcmr, char* line, OUT* res, OUT* o, char*** ptoks, int* ptokcap)
{
  CMR* cmr = *pcmr;
  out_reset(res); out_str(res, "");
  int n = 0;
  char* p = line;
  while (*p)
  {
    while (*p == ' ' || *p == '\n' || *p == '\r' || *p == '\t') ++p;
    if (!*p) break;
    if (n == *ptokcap) { *ptokcap = 2 * *ptokcap + 64; *ptoks = (char**) realloc(*ptoks, *ptokcap * sizeof(char*)); }
    (*ptoks)[n++] = p;
    while (*p && *p != ' ' && *p != '\n' && *p != '\r' && *p != '\t') ++p;
    if (*p) *p++ = 0;
  }
  char** toks = *ptoks;
  if (n == 0) { out_str(res, "skip"); return 0; }
  TOKS t = { toks, n, 1, 0 };
  long line_clock_at = cfg_clock_at;
  int opi = 0;
  while (opi < n && toks[opi][0] == '@')
  {
    if (!strncmp(toks[opi], "@clk=", 5)) line_clock_at = atol(toks[opi] + 5);
    else if (!strncmp(toks[opi], "@fill=", 6)) hw_fill = atoi(toks[opi] + 6);
    else if (!strcmp(toks[opi], "@fresh")) { CMRfreeEnvironment(&cmr); if (CMRcreateEnvironment(&cmr)) return 3; *pcmr = cmr; }
    ++opi;
  }
  if (opi >= n) { out_str(res, "skip"); return 0; }
  t.pos = opi + 1;
  OPDEF* d = find_op(toks[opi]);
  if (!d) { out_str(res, "bad-op unknown"); return 0; }
  if (cfg_fresh)
  {
    CMRfreeEnvironment(&cmr);
    if (CMRcreateEnvironment(&cmr)) return 3;
    *pcmr = cmr;
  }
  out_reset(o);
  out_str(o, "");
  hw_trace_reset();
  size_t usage0 = CMRgetStackUsage(cmr);
  size_t depth0 = hw_depth;
  long viol0 = hw_order_violations;
  h_input_modified = 0;
  hw_clock_reads = 0;
  hw_clock_fired = 0;
  hw_clock_inject_at = line_clock_at;
  h_time_limit = line_clock_at > 0 ? 3600.0 : 1.0e9;
  if (!cfg_threads) alarm(cfg_op_timeout);
  CMR_ERROR e = d->fn(cmr, &t, o);
  if (!cfg_threads) alarm(0);
  hw_clock_inject_at = 0;
  size_t usage1 = CMRgetStackUsage(cmr);
  if (t.bad) { out_str(res, "bad-op malformed"); return 0; }
  if (e) out_fmt(res, "err:%s", errname(e)); else out_str(res, "ok");
  out_str(res, o->s ? o->s : "");
  out_fmt(res, " ;; st=%zu,%zu,%ld,%ld in=%d", usage0, usage1, (long) hw_depth - (long) depth0, hw_order_violations - viol0,
    h_input_modified);
  out_fmt(res, " clk=%ld,%ld", hw_clock_reads, hw_clock_fired);
  if (hw_trace) { out_str(res, " tr="); out_str(res, hw_tracebuf ? hw_tracebuf : ""); }
  /* the property does not allow a failed call to leave the scratch stack unbalanced; nevertheless continue with a new
     environment after an imbalance so that later ops are judged on their own */
  if (usage1 != usage0 || hw_depth != depth0)
  {
    hw_depth = 0;
    /* abandon the old environment (freeing an unbalanced one is not defined); keep it reachable so that it is not
       reported as a leak of the library */
    static CMR* abandoned[4096]; static size_t numAbandoned = 0;
    size_t slot = __sync_fetch_and_add(&numAbandoned, 1);
    if (slot < 4096) abandoned[slot] = cmr;
    cmr = NULL;
    if (CMRcreateEnvironment(&cmr)) return 3;
    *pcmr = cmr;
  }
  if (CMRgetErrorMessage(cmr)) CMRclearErrorMessage(cmr);
  return 0;
}

/* ---- concurrent mode (C19): every thread runs all lines on its own environment ---- */
#include <pthread.h>
typedef struct { char** lines; size_t n; char** results; int fill; size_t redzone; } WORK;

static void* worker(void* arg)
{
  WORK* w = (WORK*) arg;
  hw_fill = w->fill; hw_redzone = w->redzone;
  CMR* cmr = NULL;
  if (CMRcreateEnvironment(&cmr)) return NULL;
  OUT res = { NULL, 0, 0 }, o = { NULL, 0, 0 };
  char** toks = NULL; int tokcap = 0;
  for (size_t i = 0; i < w->n; ++i)
  {
    char* copy = strdup(w->lines[i]);
    process_line(&cmr, copy, &res, &o, &toks, &tokcap);
    w->results[i] = strdup(res.s ? res.s : "");
    free(copy);
  }
  CMRfreeEnvironment(&cmr);
  free(toks); free(res.s); free(o.s);
  return NULL;
}

int main(int argc, char** argv)
{
  for (int i = 1; i < argc; ++i)
  {
    if (!strcmp(argv[i], "--fill") && i + 1 < argc) hw_fill = atoi(argv[++i]);
    else if (!strcmp(argv[i], "--redzone") && i + 1 < argc) hw_redzone = (size_t) atol(argv[++i]);
    else if (!strcmp(argv[i], "--clock-at") && i + 1 < argc) cfg_clock_at = atol(argv[++i]);
    else if (!strcmp(argv[i], "--fresh")) cfg_fresh = 1;
    else if (!strcmp(argv[i], "--op-timeout") && i + 1 < argc) cfg_op_timeout = (unsigned) atoi(argv[++i]);
    else if (!strcmp(argv[i], "--threads") && i + 1 < argc) cfg_threads = atoi(argv[++i]);
    else if (!strcmp(argv[i], "--trace")) hw_trace = 1;
    else { fprintf(stderr, "cmrh: unknown option %s\n", argv[i]); return 2; }
  }
#ifdef HAVE_SAN_CB
  __sanitizer_set_death_callback(flush_cb);
#endif
  signal(SIGABRT, on_signal);
#if !defined(__SANITIZE_ADDRESS__)
  signal(SIGSEGV, on_signal);
  signal(SIGBUS, on_signal);
#endif
  signal(SIGFPE, on_signal);
  signal(SIGALRM, on_signal);
  static char obuf[1 << 16];
  setvbuf(stdout, obuf, _IOLBF, sizeof(obuf)); /* line buffered: a crash must not lose earlier results */

  char* line = NULL;
  size_t cap = 0;
  ssize_t len;

  if (cfg_threads > 0)
  {
    size_t n = 0, capl = 0; char** lines = NULL;
    while ((len = getline(&line, &cap, stdin)) >= 0)
    {
      if (n == capl) { capl = 2 * capl + 64; lines = (char**) realloc(lines, capl * sizeof(char*)); }
      lines[n++] = strdup(line);
    }
    int T = cfg_threads > 64 ? 64 : cfg_threads;
    pthread_t th[64]; WORK w[64];
    for (int k = 0; k < T; ++k)
    {
      w[k].lines = lines; w[k].n = n; w[k].results = (char**) calloc(n + 1, sizeof(char*)); w[k].fill = hw_fill; w[k].redzone = hw_redzone;
      pthread_create(&th[k], NULL, worker, &w[k]);
    }
    for (int k = 0; k < T; ++k) pthread_join(th[k], NULL);
    for (size_t i = 0; i < n; ++i)
    {
      int same = 1;
      for (int k = 1; k < T; ++k)
        if (!w[k].results[i] || !w[0].results[i] || strcmp(w[k].results[i], w[0].results[i])) same = 0;
      if (same) printf("#%zu %s\n", i, w[0].results[i]);
      else printf("#%zu crash:thread-results-differ\n", i);
    }
    for (int k = 0; k < T; ++k) { for (size_t i = 0; i < n; ++i) free(w[k].results[i]); free(w[k].results); }
    for (size_t i = 0; i < n; ++i) free(lines[i]);
    free(lines); free(line);
    return 0;
  }

  CMR* cmr = NULL;
  if (CMRcreateEnvironment(&cmr)) return 3;
  OUT o = { NULL, 0, 0 }, res = { NULL, 0, 0 };
  char** toks = NULL;
  int tokcap = 0;
  long seq = -1;
  while ((len = getline(&line, &cap, stdin)) >= 0)
  {
    ++seq;
    /* marker on stderr: lets the orchestrator attribute the library's error messages ("Time limit exceeded in file:line") to ops */
    fprintf(stderr, "@@%ld\n", seq);
    int rc = process_line(&cmr, line, &res, &o, &toks, &tokcap);
    if (rc) return rc;
    printf("#%ld %s\n", seq, res.s ? res.s : "");
  }
  fflush(stdout);
  CMRfreeEnvironment(&cmr);
  free(line); free(toks); free(o.s); free(res.s);
  return 0;
}
