/* cmrh — correspondence harness: reads one operation per line on stdin, calls the real CMR API in-process
 * (library objects compiled from /repo's working tree) and prints one canonical result line per operation.
 *
 * Result line:   <ok|err:NAME> <payload> ;; st=<usage0>,<usage1>,<depthdelta>,<orderviol> in=<0|1> clk=<reads>,<fired>
 *
 * The Lean driver (cmrmodel) receives "<op line> => <result line>" and judges it.
 */
#include "cmrh.h"
#include <stdarg.h>
#include <signal.h>
#include <unistd.h>

size_t CMRgetStackUsage(CMR* cmr); /* env_internal.h; global symbol of the library */

#if defined(__SANITIZE_ADDRESS__) || defined(__SANITIZE_THREAD__)
void __sanitizer_set_death_callback(void (*cb)(void));
#define HAVE_SAN_CB 1
#endif

int h_input_modified = 0;
double h_time_limit = 1.0e9;

/* ---------- tokens ---------- */

const char* tk_next(TOKS* t)
{
  if (t->pos >= t->n) { t->bad = 1; return "0"; }
  return t->tok[t->pos++];
}
long long tk_int(TOKS* t)
{
  const char* s = tk_next(t);
  char* end;
  long long v = strtoll(s, &end, 10);
  if (*end) t->bad = 1;
  return v;
}
size_t tk_idx(TOKS* t)
{
  long long v = tk_int(t);
  return v < 0 ? SIZE_MAX : (size_t) v;
}
int tk_left(TOKS* t) { return t->n - t->pos; }

/* ---------- output ---------- */

void out_reset(OUT* o) { o->len = 0; if (o->s) o->s[0] = 0; }
static void out_need(OUT* o, size_t n)
{
  if (o->len + n + 1 > o->cap)
  {
    o->cap = 2 * (o->cap + n + 256);
    o->s = (char*) realloc(o->s, o->cap);
  }
}
void out_str(OUT* o, const char* s)
{
  size_t n = strlen(s);
  out_need(o, n);
  memcpy(o->s + o->len, s, n + 1);
  o->len += n;
}
void out_fmt(OUT* o, const char* fmt, ...)
{
  char buf[256];
  va_list ap;
  va_start(ap, fmt);
  vsnprintf(buf, sizeof(buf), fmt, ap);
  va_end(ap);
  out_str(o, buf);
}
void out_size(OUT* o, size_t v)
{
  if (v == SIZE_MAX) out_str(o, " -1");
  else out_fmt(o, " %zu", v);
}

#define OUT_MAT(NAME, TYPE, FMT, CAST) \
void NAME(OUT* o, TYPE* m) \
{ \
  if (!m) { out_str(o, " -"); return; } \
  out_fmt(o, " M %zu %zu %zu |", m->numRows, m->numColumns, m->numNonzeros); \
  for (size_t r = 0; r <= m->numRows; ++r) out_fmt(o, " %zu", m->rowSlice[r]); \
  out_str(o, " |"); \
  size_t nnz = m->rowSlice[m->numRows]; \
  if (nnz > (1u << 26)) nnz = 0; \
  for (size_t e = 0; e < nnz; ++e) out_fmt(o, " %zu", m->entryColumns[e]); \
  out_str(o, " |"); \
  for (size_t e = 0; e < nnz; ++e) out_fmt(o, FMT, CAST m->entryValues[e]); \
}
OUT_MAT(out_chrmat, CMR_CHRMAT, " %d", (int))
OUT_MAT(out_intmat, CMR_INTMAT, " %d", (int))
OUT_MAT(out_dblmat, CMR_DBLMAT, " %.17g", (double))

void out_submat(OUT* o, CMR_SUBMAT* s)
{
  if (!s) { out_str(o, " -"); return; }
  out_fmt(o, " S %zu %zu", s->numRows, s->numColumns);
  for (size_t i = 0; i < s->numRows; ++i) out_size(o, s->rows[i]);
  for (size_t i = 0; i < s->numColumns; ++i) out_size(o, s->columns[i]);
}

void out_graph(OUT* o, CMR_GRAPH* g)
{
  if (!g) { out_str(o, " -"); return; }
  /* nodes are reported by their ids; edges by id with endpoints (u,v) */
  out_fmt(o, " G %zu %zu", CMRgraphNumNodes(g), CMRgraphNumEdges(g));
  for (CMR_GRAPH_NODE v = CMRgraphNodesFirst(g); CMRgraphNodesValid(g, v); v = CMRgraphNodesNext(g, v))
    out_fmt(o, " %d", v);
  for (CMR_GRAPH_ITER i = CMRgraphEdgesFirst(g); CMRgraphEdgesValid(g, i); i = CMRgraphEdgesNext(g, i))
  {
    CMR_GRAPH_EDGE e = CMRgraphEdgesEdge(g, i);
    out_fmt(o, " %d %d %d", e, CMRgraphEdgeU(g, e), CMRgraphEdgeV(g, e));
  }
}

const char* errname(CMR_ERROR e)
{
  switch (e)
  {
  case CMR_OKAY: return "OKAY";
  case CMR_ERROR_INPUT: return "INPUT";
  case CMR_ERROR_OUTPUT: return "OUTPUT";
  case CMR_ERROR_MEMORY: return "MEMORY";
  case CMR_ERROR_INVALID: return "INVALID";
  case CMR_ERROR_OVERFLOW: return "OVERFLOW";
  case CMR_ERROR_TIMEOUT: return "TIMEOUT";
  case CMR_ERROR_STRUCTURE: return "STRUCTURE";
  case CMR_ERROR_INCONSISTENT: return "INCONSISTENT";
  case CMR_ERROR_PARAMS: return "PARAMS";
  default: return "UNKNOWN";
  }
}

/* ---------- matrix input ---------- */

CMR_ERROR in_chrmat(CMR* cmr, TOKS* t, CMR_CHRMAT** pm)
{
  long long m = tk_int(t), n = tk_int(t);
  if (t->bad || m < 0 || n < 0 || m * n > tk_left(t)) { t->bad = 1; return CMR_OKAY; }
  size_t nnz = 0;
  for (long long i = 0; i < m * n; ++i)
    if (strcmp(t->tok[t->pos + i], "0") != 0) ++nnz;
  HCALL( CMRchrmatCreate(cmr, pm, (int) m, (int) n, (int) nnz) );
  CMR_CHRMAT* A = *pm;
  size_t e = 0;
  for (long long r = 0; r < m; ++r)
  {
    A->rowSlice[r] = e;
    for (long long c = 0; c < n; ++c)
    {
      long long v = tk_int(t);
      if (v < -128 || v > 127) t->bad = 1;
      if (v != 0) { A->entryColumns[e] = (size_t) c; A->entryValues[e] = (char) v; ++e; }
    }
  }
  A->rowSlice[m] = e;
  return CMR_OKAY;
}

CMR_ERROR in_intmat(CMR* cmr, TOKS* t, CMR_INTMAT** pm)
{
  long long m = tk_int(t), n = tk_int(t);
  if (t->bad || m < 0 || n < 0 || m * n > tk_left(t)) { t->bad = 1; return CMR_OKAY; }
  size_t nnz = 0;
  for (long long i = 0; i < m * n; ++i)
    if (strcmp(t->tok[t->pos + i], "0") != 0) ++nnz;
  HCALL( CMRintmatCreate(cmr, pm, (int) m, (int) n, (int) nnz) );
  CMR_INTMAT* A = *pm;
  size_t e = 0;
  for (long long r = 0; r < m; ++r)
  {
    A->rowSlice[r] = e;
    for (long long c = 0; c < n; ++c)
    {
      long long v = tk_int(t);
      if (v < INT_MIN || v > INT_MAX) t->bad = 1;
      if (v != 0) { A->entryColumns[e] = (size_t) c; A->entryValues[e] = (int) v; ++e; }
    }
  }
  A->rowSlice[m] = e;
  return CMR_OKAY;
}

static uint64_t mix(uint64_t h, uint64_t v) { h ^= v + 0x9e3779b97f4a7c15ULL + (h << 6) + (h >> 2); return h; }
uint64_t sum_chrmat(CMR_CHRMAT* m)
{
  uint64_t h = mix(mix(1, m->numRows), m->numColumns);
  for (size_t r = 0; r <= m->numRows; ++r) h = mix(h, m->rowSlice[r]);
  for (size_t e = 0; e < m->rowSlice[m->numRows]; ++e) h = mix(mix(h, m->entryColumns[e]), (uint64_t)(int64_t) m->entryValues[e]);
  return h;
}
uint64_t sum_intmat(CMR_INTMAT* m)
{
  uint64_t h = mix(mix(2, m->numRows), m->numColumns);
  for (size_t r = 0; r <= m->numRows; ++r) h = mix(h, m->rowSlice[r]);
  for (size_t e = 0; e < m->rowSlice[m->numRows]; ++e) h = mix(mix(h, m->entryColumns[e]), (uint64_t)(int64_t) m->entryValues[e]);
  return h;
}

/* ---------- crash handling ---------- */

static void flush_cb(void) { fflush(stdout); }
static void on_signal(int sig)
{
  fflush(stdout);
  char b[64];
  int n = snprintf(b, sizeof(b), "!crash sig=%d\n", sig);
  if (write(1, b, n)) {}
  _exit(99);
}

/* ---------- main loop ---------- */

static OPDEF* find_op(const char* name)
{
  OPDEF* tabs[] = { ops_basic, ops_graph, ops_sepa, ops_tree };
  for (size_t k = 0; k < sizeof(tabs) / sizeof(tabs[0]); ++k)
    for (OPDEF* d = tabs[k]; d && d->name; ++d)
      if (strcmp(d->name, name) == 0) return d;
  return NULL;
}

int main(int argc, char** argv)
{
  int fresh = 0;
  long clock_at = 0;
  unsigned op_timeout = 30;
  for (int i = 1; i < argc; ++i)
  {
    if (!strcmp(argv[i], "--fill") && i + 1 < argc) hw_fill = atoi(argv[++i]);
    else if (!strcmp(argv[i], "--redzone") && i + 1 < argc) hw_redzone = (size_t) atol(argv[++i]);
    else if (!strcmp(argv[i], "--clock-at") && i + 1 < argc) clock_at = atol(argv[++i]);
    else if (!strcmp(argv[i], "--fresh")) fresh = 1;
    else if (!strcmp(argv[i], "--op-timeout") && i + 1 < argc) op_timeout = (unsigned) atoi(argv[++i]);
    else if (!strcmp(argv[i], "--trace")) hw_trace = 1;
    else { fprintf(stderr, "cmrh: unknown option %s\n", argv[i]); return 2; }
  }
#ifdef HAVE_SAN_CB
  __sanitizer_set_death_callback(flush_cb);
#endif
  signal(SIGABRT, on_signal);
#if !defined(__SANITIZE_ADDRESS__)
  signal(SIGSEGV, on_signal);
  signal(SIGBUS, on_signal);
#endif
  signal(SIGFPE, on_signal);
  signal(SIGALRM, on_signal);
  static char obuf[1 << 16];
  setvbuf(stdout, obuf, _IOLBF, sizeof(obuf)); /* line buffered: a crash must not lose earlier results */

  CMR* cmr = NULL;
  if (CMRcreateEnvironment(&cmr)) return 3;

  char* line = NULL;
  size_t cap = 0;
  ssize_t len;
  OUT o = { NULL, 0, 0 };
  char** toks = NULL;
  int tokcap = 0;
  long seq = -1;
  while ((len = getline(&line, &cap, stdin)) >= 0)
  {
    ++seq;
    /* tokenize in place */
    int n = 0;
    char* p = line;
    while (*p)
    {
      while (*p == ' ' || *p == '\n' || *p == '\r' || *p == '\t') ++p;
      if (!*p) break;
      if (n == tokcap) { tokcap = 2 * tokcap + 64; toks = (char**) realloc(toks, tokcap * sizeof(char*)); }
      toks[n++] = p;
      while (*p && *p != ' ' && *p != '\n' && *p != '\r' && *p != '\t') ++p;
      if (*p) *p++ = 0;
    }
    if (n == 0) { printf("#%ld skip\n", seq); continue; }
    TOKS t = { toks, n, 1, 0 };
    /* per-line modifiers: "@clk=K" as first token(s) before the op name */
    long line_clock_at = clock_at;
    int opi = 0;
    while (opi < n && toks[opi][0] == '@')
    {
      if (!strncmp(toks[opi], "@clk=", 5)) line_clock_at = atol(toks[opi] + 5);
      else if (!strncmp(toks[opi], "@fill=", 6)) hw_fill = atoi(toks[opi] + 6);
      else if (!strcmp(toks[opi], "@fresh")) { CMRfreeEnvironment(&cmr); if (CMRcreateEnvironment(&cmr)) return 3; }
      ++opi;
    }
    if (opi >= n) { printf("#%ld skip\n", seq); continue; }
    t.pos = opi + 1;
    OPDEF* d = find_op(toks[opi]);
    if (!d) { printf("#%ld bad-op unknown\n", seq); continue; }
    if (fresh)
    {
      CMRfreeEnvironment(&cmr);
      if (CMRcreateEnvironment(&cmr)) return 3;
    }
    out_reset(&o);
    out_str(&o, "");
    hw_trace_reset();
    size_t usage0 = CMRgetStackUsage(cmr);
    size_t depth0 = hw_depth;
    long viol0 = hw_order_violations;
    h_input_modified = 0;
    hw_clock_reads = 0;
    hw_clock_fired = 0;
    hw_clock_inject_at = line_clock_at;
    h_time_limit = line_clock_at > 0 ? 3600.0 : 1.0e9;
    alarm(op_timeout);
    CMR_ERROR e = d->fn(cmr, &t, &o);
    alarm(0);
    hw_clock_inject_at = 0;
    size_t usage1 = CMRgetStackUsage(cmr);
    if (t.bad) { printf("#%ld bad-op malformed\n", seq); continue; }
    printf("#%ld ", seq);
    if (e) printf("err:%s", errname(e)); else printf("ok");
    printf("%s ;; st=%zu,%zu,%ld,%ld in=%d clk=%ld,%ld", o.s ? o.s : "", usage0, usage1, (long) hw_depth - (long) depth0,
      hw_order_violations - viol0, h_input_modified, hw_clock_reads, hw_clock_fired);
    if (hw_trace) printf(" tr=%s", hw_tracebuf ? hw_tracebuf : "");
    printf("\n");
    /* a failed call may legitimately leave the scratch stack unbalanced only if the property says so: it does not.
       We nevertheless reset the environment after an imbalance so that later ops are judged on their own. */
    if (usage1 != usage0 || hw_depth != depth0)
    {
      fflush(stdout);
      hw_depth = 0;
      /* leak the old environment on purpose: freeing an unbalanced one is not defined */
      cmr = NULL;
      if (CMRcreateEnvironment(&cmr)) return 3;
    }
    if (CMRgetErrorMessage(cmr)) CMRclearErrorMessage(cmr);
  }
  fflush(stdout);
  CMRfreeEnvironment(&cmr);
  free(line); free(toks); free(o.s);
  return 0;
}
