#!/usr/bin/env python3
"""Build libcmr objects, the C harness and the CLI tools from /repo's *current working tree*.

Everything lands in /verif/.build/<hash>/<flavour>/ where <hash> covers src/, include/,
CMakeLists.txt of the working tree and the harness sources.  Nothing is copied from
/repo/_build; config.h / export.h are generated here.
"""
import hashlib, os, re, subprocess, sys, fcntl, shutil, time
from concurrent.futures import ThreadPoolExecutor

VERIF = os.path.dirname(os.path.dirname(os.path.abspath(__file__)))
REPO = os.environ.get("CMR_REPO", "/repo")
BUILD = os.path.join(VERIF, ".build")
if REPO != "/repo":
    BUILD = BUILD + "-" + hashlib.sha256(REPO.encode()).hexdigest()[:8]     # scratch trees get their own cache (eviction is per cache)
GUARD = "DISCOPT_CMR_VERIF"

COMMON = ["-std=gnu99", "-fPIC", "-w", "-D" + GUARD]
FLAVOURS = {
    # assertion-enabled, ASan+UBSan (alignment excluded: see DESIGN D8, separate flavour)
    "asan": ["-O1", "-g", "-fno-omit-frame-pointer", "-fsanitize=address,undefined",
             "-fno-sanitize=alignment", "-fno-sanitize-recover=undefined"],
    "align": ["-O1", "-g", "-fsanitize=alignment", "-fno-sanitize-recover=alignment"],
    "ndebug": ["-O2", "-g", "-DNDEBUG"],
    "hash": ["-O1", "-g", "-fno-omit-frame-pointer", "-fsanitize=address,undefined",
             "-fno-sanitize=alignment", "-fno-sanitize-recover=undefined",
             "-DDISCOPT_CMR_VERIF_HASH_RANGE=7"],
    "tsan": ["-O1", "-g", "-fsanitize=thread"],
    # production semantics (asserts off) under the sanitizers
    "asan_nd": ["-O1", "-g", "-DNDEBUG", "-fno-omit-frame-pointer", "-fsanitize=address,undefined",
                "-fno-sanitize=alignment", "-fno-sanitize-recover=undefined"],
    "plain": ["-O1", "-g"],   # asserts on, no sanitizer (fast; used for bulk sweeps)
}
LINKFLAGS = {
    "asan": ["-fsanitize=address,undefined"], "hash": ["-fsanitize=address,undefined"], "asan_nd": ["-fsanitize=address,undefined"],
    "align": ["-fsanitize=alignment"], "tsan": ["-fsanitize=thread"], "ndebug": [], "plain": [],
}

def harness_hash():
    h = hashlib.sha256()
    d = os.path.join(VERIF, "harness")
    for f in sorted(os.listdir(d)):
        h.update(f.encode()); h.update(open(os.path.join(d, f), "rb").read())
    return h.hexdigest()[:10]


def tree_hash():
    h = hashlib.sha256()
    roots = [os.path.join(REPO, "src"), os.path.join(REPO, "include")]
    files = [os.path.join(REPO, "CMakeLists.txt")]
    for r in roots:
        for d, _, fs in os.walk(r):
            for f in fs:
                files.append(os.path.join(d, f))
    for f in sorted(files):
        h.update(f.encode()); h.update(b"\0")
        try:
            with open(f, "rb") as fh: h.update(fh.read())
        except OSError: pass
    h.update(repr(sorted(FLAVOURS.items())).encode())
    return h.hexdigest()[:16]

def lib_sources():
    txt = open(os.path.join(REPO, "CMakeLists.txt")).read()
    m = re.search(r"add_library\(cmr\b(.*?)\)", txt, re.S)
    if not m: raise SystemExit("cmrbuild: cannot find add_library(cmr ...) in CMakeLists.txt")
    return re.findall(r"src/cmr/\w+\.c", m.group(1))

def tool_sources():
    txt = open(os.path.join(REPO, "CMakeLists.txt")).read()
    out = {}
    for m in re.finditer(r"add_executable\((\w+)\s+(src/main/\w+\.c)\)", txt):
        name = m.group(1)
        mm = re.search(r"set_target_properties\(%s PROPERTIES OUTPUT_NAME ([\w-]+)\)" % name, txt)
        out[mm.group(1) if mm else name] = m.group(2)
    return out

def run(cmd, **kw):
    p = subprocess.run(cmd, stdout=subprocess.PIPE, stderr=subprocess.STDOUT, text=True, **kw)
    return p.returncode, p.stdout

def gen_config(d):
    os.makedirs(os.path.join(d, "cmr"), exist_ok=True)
    txt = open(os.path.join(REPO, "CMakeLists.txt")).read()
    v = re.search(r"VERSION\s+(\d+)\.(\d+)\.(\d+)", txt)
    maj, mi, pa = v.groups() if v else ("0", "0", "0")
    with open(os.path.join(d, "cmr", "config.h"), "w") as f:
        f.write('#define CMR_CMAKE_BUILD_TYPE "Verif"\n#define CMR_VERSION_MAJOR %s\n#define CMR_VERSION_MINOR %s\n#define CMR_VERSION_PATCH %s\n#define CMR_WITH_GMP\n' % (maj, mi, pa))
    with open(os.path.join(d, "cmr", "export.h"), "w") as f:
        f.write("#ifndef CMR_EXPORT_H\n#define CMR_EXPORT_H\n#define CMR_EXPORT\n#define CMR_NO_EXPORT\n#endif\n")

class BuildError(Exception):
    pass

def build(flavour, want_tools=False, harness_units=("cmrh",), wraps=()):
    """Returns directory containing libcmr.a, cmrh (harness) and optionally tools/."""
    os.makedirs(BUILD, exist_ok=True)
    lock = open(os.path.join(BUILD, ".lock"), "w")
    fcntl.flock(lock, fcntl.LOCK_EX)
    try:
        h = tree_hash()
        root = os.path.join(BUILD, h)
        d = os.path.join(root, flavour)
        # evict other hashes
        for e in os.listdir(BUILD):
            p = os.path.join(BUILD, e)
            if os.path.isdir(p) and e != h:
                shutil.rmtree(p, ignore_errors=True)
        os.makedirs(d, exist_ok=True)
        inc = os.path.join(root, "inc")
        if not os.path.exists(os.path.join(inc, "cmr", "config.h")):
            gen_config(inc)
        cflags = COMMON + FLAVOURS[flavour] + ["-I" + os.path.join(REPO, "include"), "-I" + inc,
                                              "-I" + os.path.join(REPO, "src", "cmr"), "-I" + os.path.join(REPO, "src")]
        lib = os.path.join(d, "libcmr.a")
        if not os.path.exists(lib):
            srcs = lib_sources()
            objs = []
            def cc(s):
                o = os.path.join(d, os.path.basename(s)[:-2] + ".o")
                rc, out = run(["gcc"] + cflags + ["-c", os.path.join(REPO, s), "-o", o])
                return s, o, rc, out
            with ThreadPoolExecutor(16) as ex:
                res = list(ex.map(cc, srcs))
            for s, o, rc, out in res:
                if rc != 0:
                    raise BuildError("compile %s failed:\n%s" % (s, out))
                objs.append(o)
            rc, out = run(["ar", "rcs", lib + ".tmp"] + objs)
            if rc != 0: raise BuildError(out)
            os.rename(lib + ".tmp", lib)
        # harness
        hh = harness_hash()
        hexe = os.path.join(d, "cmrh-" + hh)
        link = os.path.join(d, "cmrh")
        if not os.path.exists(hexe):
            for old in os.listdir(d):
                if old.startswith("cmrh-"):
                    os.remove(os.path.join(d, old))
            hs = [os.path.join(VERIF, "harness", u + ".c") for u in ("cmrh", "ops_basic", "ops_tree", "ops_graph", "ops_sepa", "ops_rel", "wrap")]
            hs = [x for x in hs if os.path.exists(x)]
            wrapflags = ["-Wl,--wrap=clock", "-Wl,--wrap=_CMRallocStack", "-Wl,--wrap=_CMRfreeStack"]
            rc, out = run(["gcc"] + cflags + hs + [lib, "-o", hexe + ".tmp"] + LINKFLAGS[flavour] + wrapflags + ["-lgmp", "-lm", "-lpthread"])
            if rc != 0: raise BuildError("harness link failed:\n" + out)
            os.rename(hexe + ".tmp", hexe)
        if os.path.islink(link) or os.path.exists(link):
            os.remove(link)
        os.symlink(os.path.basename(hexe), link)
        if want_tools:
            td = os.path.join(d, "tools")
            os.makedirs(td, exist_ok=True)
            todo = [(n, s) for n, s in tool_sources().items() if not os.path.exists(os.path.join(td, n))]
            def lk(ns):
                n, s = ns
                rc, out = run(["gcc"] + cflags + [os.path.join(REPO, s), lib, "-o", os.path.join(td, n)] + LINKFLAGS[flavour] + ["-lgmp", "-lm"])
                return n, rc, out
            with ThreadPoolExecutor(11) as ex:
                for n, rc, out in ex.map(lk, todo):
                    if rc != 0: raise BuildError("tool %s failed:\n%s" % (n, out))
        return d
    finally:
        fcntl.flock(lock, fcntl.LOCK_UN); lock.close()

if __name__ == "__main__":
    fl = sys.argv[1] if len(sys.argv) > 1 else "asan"
    t = time.time()
    try:
        print(build(fl, want_tools="--tools" in sys.argv), "%.1fs" % (time.time() - t))
    except BuildError as e:
        print(str(e)); sys.exit(2)
