#!/usr/bin/env python3
"""Translation tie for the scalar kernels (see c2lean.py) and the search for a failing input when a kernel theorem breaks.

`regenerate()` runs the translator; `search()` compiles a small C program against the *real* headers of the working tree (UBSan on)
and evaluates the properties that lean/CmrProofs/Props/Kernels.lean proves on boundary and random inputs; it returns a list of
(theorem, input description) for every property that fails concretely.
"""
import os, subprocess, sys, tempfile

VERIF = os.path.dirname(os.path.dirname(os.path.abspath(__file__)))
REPO = os.environ.get("CMR_REPO", "/repo")

C_SRC = r'''
#include <stdio.h>
#include <stdlib.h>
#include <limits.h>
#include <stdbool.h>
#include <stddef.h>
#include <assert.h>
#define CMR_EXPORT
#include <cmr/element.h>
#include "hashtable.h"
#include "linear_algebra_internal.h"

static long long emod(long long a, long long m) { long long r = a % m; return r < 0 ? r + m : r; }
static unsigned long long rs = 88172645463325252ULL;
static long long rnd(void) { rs ^= rs << 13; rs ^= rs >> 7; rs ^= rs << 17; return (long long) rs; }

int main(void)
{
  const long long R = RANGE_SIGNED_HASH;
  const long long M = 2 * R - 1;
  /* candidates: boundaries of the callers' range (|v| <= 3R), multiples of the modulus, and random values inside */
  long long cand[4096]; int n = 0;
  long long base[] = { 0, 1, R - 1, R, R + 1, M - 1, M, M + 1, 2 * R, 2 * R + 1, 3 * (R - 1), 3 * (R - 1) - 1 };
  for (size_t i = 0; i < sizeof(base) / sizeof(base[0]); ++i) { cand[n++] = base[i]; cand[n++] = -base[i]; }
  while (n < 4000) { long long v = rnd() % (3 * (R - 1)); cand[n++] = v; }
  for (int i = 0; i < n; ++i)
  {
    long long v = cand[i];
    if (v > 3 * (R - 1) || v < -3 * (R - 1)) continue;
    long long h = projectSignedHash(v);
    if (!(h > -R && h < R)) { printf("projectSignedHash_range value=%lld result=%lld RANGE=%lld\n", v, h, R); return 0; }
    if (emod(h, M) != emod(v, M)) { printf("projectSignedHash_congr value=%lld result=%lld modulus=%lld\n", v, h, M); return 0; }
  }
  for (int i = 0; i < 2000; ++i)
  {
    long long h = projectSignedHash(rnd() % (R - 1)), x = projectSignedHash(rnd() % (R - 1));
    long long back = projectSignedHash(projectSignedHash(h + x) - x);
    if (back != h) { printf("projectSignedHash_update_roundtrip h=%lld x=%lld back=%lld\n", h, x, back); return 0; }
    long long t = projectSignedHash(3 * h); (void) t;
  }
  int ps[] = { 0, 1, 2, 3, 4, 5, -1, -2, -3, -4, -5, INT_MAX, INT_MIN, INT_MAX - 1, INT_MIN + 1 };
  for (size_t i = 0; i < sizeof(ps) / sizeof(ps[0]); ++i)
  {
    int p = ps[i];
    int t3 = moduloTernary(p, 3), t2 = moduloTernary(p, 2), n3 = moduloNonnegative(p, 3);
    long long e3 = emod(p, 3);
    if (t3 != (e3 == 2 ? -1 : e3)) { printf("moduloTernary_three p=%d result=%d\n", p, t3); return 0; }
    if (t2 != emod(p, 2)) { printf("moduloTernary_two p=%d result=%d\n", p, t2); return 0; }
    if (n3 != e3) { printf("moduloNonnegative_spec p=%d q=3 result=%d\n", p, n3); return 0; }
  }
  size_t idx[] = { 0, 1, 2, 1000, 2147483646 };
  for (size_t i = 0; i < sizeof(idx) / sizeof(idx[0]); ++i)
  {
    CMR_ELEMENT r = CMRrowToElement(idx[i]), c = CMRcolumnToElement(idx[i]);
    if (!CMRelementIsRow(r) || CMRelementIsColumn(r) || !CMRelementIsValid(r) || CMRelementToRowIndex(r) != idx[i])
    { printf("row_roundtrip index=%zu element=%d\n", idx[i], r); return 0; }
    if (!CMRelementIsColumn(c) || CMRelementIsRow(c) || !CMRelementIsValid(c) || CMRelementToColumnIndex(c) != idx[i])
    { printf("column_roundtrip index=%zu element=%d\n", idx[i], c); return 0; }
    if (CMRelementTranspose(r) != c || CMRelementTranspose(CMRelementTranspose(r)) != r)
    { printf("transpose_row_column index=%zu\n", idx[i]); return 0; }
  }
  printf("none\n");
  return 0;
}
'''


def regenerate():
    p = subprocess.run([sys.executable, os.path.join(VERIF, "tools", "c2lean.py")], stdout=subprocess.PIPE, stderr=subprocess.STDOUT,
                       text=True, env=dict(os.environ, CMR_REPO=REPO))
    return p.returncode == 0, p.stdout.strip()


def search():
    """-> list of 'theorem: failing input' strings found on the real C kernels (UBSan reports count as failures of the *_fits theorems)"""
    found = []
    with tempfile.TemporaryDirectory(prefix="cmrkern") as d:
        src = os.path.join(d, "k.c"); exe = os.path.join(d, "k")
        open(src, "w").write(C_SRC)
        inc = [os.path.join(REPO, "include"), os.path.join(REPO, "src", "cmr")]
        # config/export headers: reuse the generated ones of the harness build if present, else stub them
        stub = os.path.join(d, "cmr"); os.makedirs(stub)
        open(os.path.join(stub, "config.h"), "w").write("#define CMR_WITH_GMP\n")
        open(os.path.join(stub, "export.h"), "w").write("#define CMR_EXPORT\n#define CMR_NO_EXPORT\n")
        cmd = ["gcc", "-std=gnu99", "-O1", "-g", "-fsanitize=undefined", "-fno-sanitize-recover=all", "-DDISCOPT_CMR_VERIF", src, "-o", exe,
               "-I" + d] + ["-I" + i for i in inc]
        p = subprocess.run(cmd, stdout=subprocess.PIPE, stderr=subprocess.STDOUT, text=True)
        if p.returncode != 0:
            return ["kernel test program does not compile against the working tree: " + p.stdout[-600:]]
        p = subprocess.run([exe], stdout=subprocess.PIPE, stderr=subprocess.PIPE, text=True, timeout=120)
        out = p.stdout.strip()
        if p.returncode != 0:
            err = [l for l in p.stderr.split("\n") if "runtime error" in l]
            found.append("projectSignedHash_fits_of_bound (or a *_fits theorem): undefined behaviour in a kernel: " + (err[0] if err else p.stderr[-300:]))
        elif out and out != "none":
            found.append(out.split(" ")[0] + ": fails concretely for " + " ".join(out.split(" ")[1:]))
    return found


if __name__ == "__main__":
    ok, out = regenerate()
    print("regenerate:", ok, out)
    print("search:", search())
