#!/usr/bin/env python3
"""Translator for the scalar kernels of discopt/cmr: a fixed list of `static inline` integer functions is re-extracted from
/repo's headers on every run and written as Lean definitions to lean/CmrGen/Kernels.lean, so that the theorems in
lean/CmrProofs/Props/Kernels.lean are re-checked against what the code says *now*.

Supported C subset (anything else makes the translator refuse rather than guess):
  declarations with initialiser (`int r = e;`, `const long long m = e;`), assignments `x = e; x += e; x -= e; x %= e;`,
  `if (c) S [else S]` where S is a return, an assignment or a nested if, `return e;`, `assert(...)` (ignored),
  expressions over identifiers, integer literals, LLONG_MAX / INT_MAX and object-like macros defined in the same header,
  unary minus / `!`, `+ - * / %`, comparisons, `&& ||`, `?:`, casts to integer types.

For every function two Lean definitions are generated:
  f       : the value over unbounded Int, with C's truncating `/` and `%` (Int.tdiv / Int.tmod)
  f_fits  : Bool, every intermediate arithmetic result and every cast fits the C type it is computed in
            (int: 32 bit, long / long long / size_t as signed 64 bit — size_t values in this code are indices)
"""
import os, re, sys

REPO = os.environ.get("CMR_REPO", "/repo")
VERIF = os.path.dirname(os.path.dirname(os.path.abspath(__file__)))
OUTFILE = os.path.join(VERIF, "lean", "CmrGen", "Kernels.lean")

KERNELS = [
    ("src/cmr/linear_algebra_internal.h", "moduloNonnegative"),
    ("src/cmr/linear_algebra_internal.h", "moduloTernary"),
    ("src/cmr/hashtable.h", "projectSignedHash"),
    ("include/cmr/element.h", "CMRelementIsValid"),
    ("include/cmr/element.h", "CMRrowToElement"),
    ("include/cmr/element.h", "CMRcolumnToElement"),
    ("include/cmr/element.h", "CMRelementIsRow"),
    ("include/cmr/element.h", "CMRelementToRowIndex"),
    ("include/cmr/element.h", "CMRelementIsColumn"),
    ("include/cmr/element.h", "CMRelementToColumnIndex"),
    ("include/cmr/element.h", "CMRelementTranspose"),
]

TYPES = {"int": 32, "char": 8, "long": 64, "long long": 64, "size_t": 64, "bool": 1, "CMR_ELEMENT": 32, "int64_t": 64, "int8_t": 8}


class Refuse(Exception):
    pass


# ---------------------------------------------------------------------------------------------------------------------
# extraction
# ---------------------------------------------------------------------------------------------------------------------

def strip_comments(src):
    src = re.sub(r"/\*.*?\*/", " ", src, flags=re.S)
    return re.sub(r"//[^\n]*", " ", src)


def active_text(src, defines):
    """very small preprocessor: keeps `#if defined(X) && defined(Y)` / `#ifdef` / `#ifndef` / `#else` / `#endif` regions according to
    `defines`; object-like #defines inside active regions are recorded"""
    out, stack = [], []
    macros = {}
    for line in src.split("\n"):
        s = line.strip()
        if s.startswith("#"):
            d = s[1:].strip()
            if d.startswith("ifdef"):
                stack.append(d.split()[1] in defines or d.split()[1] in macros)
            elif d.startswith("ifndef"):
                stack.append(not (d.split()[1] in defines or d.split()[1] in macros))
            elif d.startswith("if"):
                names = re.findall(r"defined\s*\(\s*(\w+)\s*\)", d)
                neg = "!" in d
                val = all(n in defines or n in macros for n in names) if names else True
                stack.append((not val) if neg and len(names) == 1 else val)
            elif d.startswith("else"):
                stack[-1] = not stack[-1]
            elif d.startswith("endif"):
                stack.pop()
            elif d.startswith("define") and all(stack):
                m = re.match(r"define\s+(\w+)\s+(.+)$", d)
                if m and "(" not in m.group(1):
                    macros[m.group(1)] = m.group(2).strip()
                elif re.match(r"define\s+(\w+)\s*$", d):
                    macros[d.split()[1]] = ""
            continue
        if all(stack):
            out.append(line)
    return "\n".join(out), macros


def extract_function(text, name):
    m = re.search(r"static\s+inline\s+([\w\s\*]+?)\s+%s\s*\(([^)]*)\)\s*\{" % re.escape(name), text)
    if not m:
        raise Refuse("function %s not found" % name)
    i = m.end()
    depth = 1
    j = i
    while depth:
        if j >= len(text):
            raise Refuse("unbalanced braces in %s" % name)
        if text[j] == "{": depth += 1
        elif text[j] == "}": depth -= 1
        j += 1
    ret = " ".join(m.group(1).split())
    params = []
    for p in m.group(2).split(","):
        p = " ".join(p.split())
        if not p:
            continue
        mm = re.match(r"(?:const\s+)?([\w\s]+?)\s+(\w+)$", p)
        if not mm:
            raise Refuse("parameter '%s' of %s" % (p, name))
        params.append((" ".join(mm.group(1).split()), mm.group(2)))
    return ret, params, text[i:j - 1]


# ---------------------------------------------------------------------------------------------------------------------
# expressions
# ---------------------------------------------------------------------------------------------------------------------

TOK = re.compile(r"\s*(?:(\d+)(?:LL|L|U|UL|ULL)?|(\w+)|(==|!=|<=|>=|&&|\|\||\+=|-=|%=|\*=|[-+*/%<>!?:=(),;{}]))")


def tokenize(s):
    toks, i = [], 0
    s = s.strip()
    while i < len(s):
        m = TOK.match(s, i)
        if not m:
            raise Refuse("cannot tokenize near '%s'" % s[i:i + 20])
        if m.group(1) is not None: toks.append(("num", int(m.group(1))))
        elif m.group(2) is not None: toks.append(("id", m.group(2)))
        else: toks.append(("op", m.group(3)))
        i = m.end()
    return toks


class Parser:
    def __init__(self, toks, macros):
        self.t, self.i, self.macros = toks, 0, macros

    def peek(self):
        return self.t[self.i] if self.i < len(self.t) else ("eof", None)

    def next(self):
        x = self.peek(); self.i += 1; return x

    def accept(self, kind, val=None):
        k, v = self.peek()
        if k == kind and (val is None or v == val):
            self.i += 1; return True
        return False

    def expect(self, kind, val=None):
        if not self.accept(kind, val):
            raise Refuse("expected %s %s, got %s" % (kind, val, self.peek()))

    # precedence climbing
    def expr(self):
        c = self.lor()
        if self.accept("op", "?"):
            a = self.expr(); self.expect("op", ":"); b = self.expr()
            return ("ite", c, a, b)
        return c

    def lor(self):
        a = self.land()
        while self.accept("op", "||"): a = ("or", a, self.land())
        return a

    def land(self):
        a = self.cmp()
        while self.accept("op", "&&"): a = ("and", a, self.cmp())
        return a

    def cmp(self):
        a = self.add()
        while True:
            k, v = self.peek()
            if k == "op" and v in ("==", "!=", "<", ">", "<=", ">="):
                self.i += 1; a = ("cmp", v, a, self.add())
            else:
                return a

    def add(self):
        a = self.mul()
        while True:
            k, v = self.peek()
            if k == "op" and v in ("+", "-"):
                self.i += 1; a = ("bin", v, a, self.mul())
            else:
                return a

    def mul(self):
        a = self.unary()
        while True:
            k, v = self.peek()
            if k == "op" and v in ("*", "/", "%"):
                self.i += 1; a = ("bin", v, a, self.unary())
            else:
                return a

    def unary(self):
        if self.accept("op", "-"): return ("neg", self.unary())
        if self.accept("op", "!"): return ("not", self.unary())
        if self.accept("op", "+"): return self.unary()
        k, v = self.peek()
        if k == "op" and v == "(":
            # cast or parenthesis
            save = self.i
            self.i += 1
            words = []
            while self.peek()[0] == "id" and self.peek()[1] in ("int", "long", "char", "size_t", "unsigned", "signed", "CMR_ELEMENT", "int64_t"):
                words.append(self.next()[1])
            if words and self.accept("op", ")"):
                ty = " ".join(words)
                return ("cast", ty, self.unary())
            self.i = save + 1
            e = self.expr(); self.expect("op", ")")
            return e
        if k == "num":
            self.i += 1; return ("num", v)
        if k == "id":
            self.i += 1
            if v in self.macros and self.macros[v] != "":
                return Parser(tokenize(self.macros[v]), self.macros).expr_all()
            return ("var", v)
        raise Refuse("unexpected token %s" % (self.peek(),))

    def expr_all(self):
        e = self.expr()
        if self.peek()[0] != "eof":
            raise Refuse("trailing tokens in macro")
        return e


# ---------------------------------------------------------------------------------------------------------------------
# statements -> Lean
# ---------------------------------------------------------------------------------------------------------------------

CONSTS = {"LLONG_MAX": (2 ** 63 - 1, 64), "LLONG_MIN": (-2 ** 63, 64), "INT_MAX": (2 ** 31 - 1, 32), "INT_MIN": (-2 ** 31, 32),
          "CHAR_MAX": (127, 32), "CHAR_MIN": (-128, 32), "true": (1, 1), "false": (0, 1)}


class Gen:
    def __init__(self, name, ret, params, macros):
        self.name, self.ret, self.params, self.macros = name, ret, params, macros
        self.vartype = {}
        self.fits = []          # Lean Bool expressions (strings) in terms of the *current* variable bindings: emitted inline

    def width(self, ty):
        ty = ty.replace("const ", "").replace("unsigned ", "").replace("signed ", "").strip()
        if ty not in TYPES:
            raise Refuse("type '%s'" % ty)
        return TYPES[ty]

    # returns (lean_int_expr, width, is_bool, list_of_fit_conditions)
    def ex(self, e):
        k = e[0]
        if k == "num":
            return (str(e[1]), 32 if abs(e[1]) < 2 ** 31 else 64, False, [])
        if k == "var":
            if e[1] in CONSTS:
                v, w = CONSTS[e[1]]
                return ("(%d)" % v, w, w == 1, [])
            if e[1] not in self.vartype:
                raise Refuse("unknown identifier %s in %s" % (e[1], self.name))
            w = self.vartype[e[1]]
            return (e[1], w, w == 1, [])
        if k == "neg":
            a, w, _, f = self.ex(e[1])
            r = "(-%s)" % a
            return (r, max(w, 32), False, f + [self.fit(r, max(w, 32))])
        if k == "not":
            a = self.cond(e[1])
            return ("(if %s then 0 else 1)" % a[0], 1, True, a[1])
        if k == "cast":
            a, w, _, f = self.ex(e[2])
            wt = self.width(e[1])
            return (a, wt, False, f + ([self.fit(a, wt)] if wt < w or True else []))
        if k == "bin":
            a, wa, _, fa = self.ex(e[2]); b, wb, _, fb = self.ex(e[3])
            w = max(wa, wb, 32)
            op = e[1]
            if op in "+-*":
                r = "(%s %s %s)" % (a, op, b)
                return (r, w, False, fa + fb + [self.fit(r, w)])
            if op == "/":
                r = "(Int.tdiv %s %s)" % (a, b)
                return (r, w, False, fa + fb + ["(%s != 0)" % b, self.fit(r, w)])
            if op == "%":
                r = "(Int.tmod %s %s)" % (a, b)
                return (r, w, False, fa + fb + ["(%s != 0)" % b])
        if k in ("cmp", "and", "or"):
            c, f = self.cond(e)
            return ("(if %s then 1 else 0)" % c, 1, True, f)
        if k == "ite":
            c, fc = self.cond(e[1])
            a, wa, ba, fa = self.ex(e[2]); b, wb, bb, fb = self.ex(e[3])
            # conditions of the branches hold only inside the branches
            fa2 = ["(!(%s) || %s)" % (c, x) for x in fa]; fb2 = ["((%s) || %s)" % (c, x) for x in fb]
            return ("(if %s then %s else %s)" % (c, a, b), max(wa, wb), ba and bb, fc + fa2 + fb2)
        raise Refuse("expression %s" % (e,))

    def cond(self, e):
        k = e[0]
        if k == "cmp":
            a, _, _, fa = self.ex(e[2]); b, _, _, fb = self.ex(e[3])
            op = {"==": "==", "!=": "!=", "<": "<", ">": ">", "<=": "≤", ">=": "≥"}[e[1]]
            if op in ("==", "!="):
                return ("(%s %s %s)" % (a, op, b), fa + fb)
            return ("(decide (%s %s %s))" % (a, op, b), fa + fb)
        if k == "and":
            a, fa = self.cond(e[1]); b, fb = self.cond(e[2])
            return ("(%s && %s)" % (a, b), fa + ["(!(%s) || %s)" % (a, x) for x in fb])
        if k == "or":
            a, fa = self.cond(e[1]); b, fb = self.cond(e[2])
            return ("(%s || %s)" % (a, b), fa + ["((%s) || %s)" % (a, x) for x in fb])
        if k == "not":
            a, fa = self.cond(e[1])
            return ("(!%s)" % a, fa)
        a, _, _, fa = self.ex(e)
        return ("(%s != 0)" % a, fa)

    def fit(self, lean, w):
        if w == 1:
            return "true"
        return "(decide (%d ≤ %s) && decide (%s ≤ %d))" % (-2 ** (w - 1), lean, lean, 2 ** (w - 1) - 1)


def parse_statements(p):
    """-> list of statements: ('decl', type, name, expr) ('assign', name, op, expr) ('return', expr) ('if', cond, then_list, else_list)"""
    out = []
    while p.peek()[0] != "eof" and not (p.peek() == ("op", "}")):
        out.append(parse_statement(p))
    return out


def parse_statement(p):
    k, v = p.peek()
    if k == "op" and v == "{":
        p.next(); body = parse_statements(p); p.expect("op", "}")
        return ("block", body)
    if k == "op" and v == ";":
        p.next(); return ("block", [])
    if k == "id" and v == "assert":
        p.next(); p.expect("op", "(")
        depth = 1
        while depth:
            kk, vv = p.next()
            if kk == "eof": raise Refuse("assert")
            if (kk, vv) == ("op", "("): depth += 1
            if (kk, vv) == ("op", ")"): depth -= 1
        p.expect("op", ";")
        return ("block", [])
    if k == "id" and v == "return":
        p.next(); e = p.expr(); p.expect("op", ";")
        return ("return", e)
    if k == "id" and v == "if":
        p.next(); p.expect("op", "("); c = p.expr(); p.expect("op", ")")
        th = parse_statement(p)
        el = None
        if p.peek() == ("id", "else"):
            p.next(); el = parse_statement(p)
        return ("if", c, th, el)
    if k == "id" and v in ("const", "int", "long", "char", "size_t", "unsigned", "CMR_ELEMENT", "int64_t", "bool"):
        words = []
        while p.peek()[0] == "id" and p.peek()[1] in ("const", "int", "long", "char", "size_t", "unsigned", "signed", "CMR_ELEMENT", "int64_t", "bool"):
            words.append(p.next()[1])
        name = p.next()
        if name[0] != "id": raise Refuse("declaration")
        p.expect("op", "="); e = p.expr(); p.expect("op", ";")
        return ("decl", " ".join(w for w in words if w != "const"), name[1], e)
    if k == "id":
        name = p.next()[1]
        kk, op = p.next()
        if kk != "op" or op not in ("=", "+=", "-=", "%=", "*="):
            raise Refuse("statement starting with %s" % name)
        e = p.expr(); p.expect("op", ";")
        return ("assign", name, op, e)
    raise Refuse("statement at %s" % (p.peek(),))


def assigned_vars(st):
    k = st[0]
    if k == "assign": return {st[1]}
    if k == "block":
        s = set()
        for x in st[1]: s |= assigned_vars(x)
        return s
    if k == "if":
        return assigned_vars(st[2]) | (assigned_vars(st[3]) if st[3] else set())
    return set()


def has_return(st):
    k = st[0]
    if k == "return": return True
    if k == "block": return any(has_return(x) for x in st[1])
    if k == "if": return has_return(st[2]) or (st[3] is not None and has_return(st[3]))
    return False


def gen_body(g, stmts, mode):
    """mode 'val': Lean Int expression of the function value; mode 'fits': Lean Bool expression (all intermediates fit).
    Statements are processed in order; `let` shadowing models assignment."""
    if not stmts:
        raise Refuse("control reaches end of %s without return" % g.name)
    st, rest = stmts[0], stmts[1:]
    k = st[0]
    if k == "block":
        return gen_body(g, list(st[1]) + rest, mode)
    if k == "return":
        a, w, _, f = g.ex(st[1])
        wr = g.width(g.ret)
        f = f + [g.fit(a, wr)]
        return a if mode == "val" else " && ".join(f) if f else "true"
    if k == "decl":
        a, w, _, f = g.ex(st[3])
        wt = g.width(st[1])
        g.vartype[st[2]] = wt
        body = gen_body(g, rest, mode)
        if mode == "val":
            return "let %s : Int := %s\n  %s" % (st[2], a, body)
        conds = f + [g.fit(a, wt)]
        return "%s &&\n  (let %s : Int := %s\n  %s)" % (" && ".join(conds), st[2], a, body)
    if k == "assign":
        name, op, e = st[1], st[2], st[3]
        if name not in g.vartype: raise Refuse("assignment to unknown %s" % name)
        ee = e if op == "=" else ("bin", op[0], ("var", name), e)
        a, w, _, f = g.ex(ee)
        body = gen_body(g, rest, mode)
        if mode == "val":
            return "let %s : Int := %s\n  %s" % (name, a, body)
        conds = f + [g.fit(a, g.vartype[name])]
        return "%s &&\n  (let %s : Int := %s\n  %s)" % (" && ".join(conds), name, a, body)
    if k == "if":
        c, fc = g.cond(st[1])
        th = st[2] if st[2][0] == "block" else ("block", [st[2]])
        el = st[3] if st[3] is None or st[3][0] == "block" else ("block", [st[3]])
        if has_return(th) or (el and has_return(el)):
            # branches that return: continue with the rest in the branches that do not
            tb = gen_body(g, list(th[1]) + (rest if not all_paths_return(th) else []), mode) if True else None
            saved = dict(g.vartype)
            eb = gen_body(g, (list(el[1]) if el else []) + rest, mode)
            g.vartype = saved
            if mode == "val":
                return "if %s then\n  %s\n  else\n  %s" % (c, tb, eb)
            pre = (" && ".join(fc) + " &&\n  ") if fc else ""
            return "%s(if %s then\n  %s\n  else\n  %s)" % (pre, c, tb, eb)
        # pure assignments in the branches: merge by variable
        vs = sorted(assigned_vars(th) | (assigned_vars(el) if el else set()))
        if not vs: return gen_body(g, rest, mode)
        # evaluate each branch as a tuple of the assigned variables
        def branch(blk):
            if blk is None or not blk[1]:
                return ("(%s)" % ", ".join(vs) if len(vs) > 1 else vs[0]), "true"
            return gen_branch(g, list(blk[1]), vs)
        tv, tf = branch(th)
        ev, ef = branch(el)
        body = gen_body(g, rest, mode)
        pat = "(%s)" % ", ".join(vs) if len(vs) > 1 else vs[0]
        ty = " × ".join(["Int"] * len(vs))
        if mode == "val":
            return "let %s : %s := if %s then %s else %s\n  %s" % (pat, ty, c, tv, ev, body)
        pre = (" && ".join(fc) + " && ") if fc else ""
        return "%s(if %s then %s else %s) &&\n  (let %s : %s := if %s then %s else %s\n  %s)" % (pre, c, tf, ef, pat, ty, c, tv, ev, body)
    raise Refuse("statement %s" % (st,))


def all_paths_return(st):
    k = st[0]
    if k == "return": return True
    if k == "block": return any(all_paths_return(x) for x in st[1])
    if k == "if": return st[3] is not None and all_paths_return(st[2]) and all_paths_return(st[3])
    return False


def gen_branch(g, stmts, vs):
    """value tuple of vs after the statements (assignments and nested ifs only) and the fits condition"""
    if not stmts:
        return ("(%s)" % ", ".join(vs) if len(vs) > 1 else vs[0]), "true"
    st, rest = stmts[0], stmts[1:]
    if st[0] == "block":
        return gen_branch(g, list(st[1]) + rest, vs)
    if st[0] == "assign":
        name, op, e = st[1], st[2], st[3]
        ee = e if op == "=" else ("bin", op[0], ("var", name), e)
        a, w, _, f = g.ex(ee)
        v, fr = gen_branch(g, rest, vs)
        conds = " && ".join(f + [g.fit(a, g.vartype[name])])
        return "(let %s : Int := %s; %s)" % (name, a, v), "(%s && (let %s : Int := %s; %s))" % (conds, name, a, fr)
    if st[0] == "if":
        c, fc = g.cond(st[1])
        th = st[2] if st[2][0] == "block" else ("block", [st[2]])
        el = st[3] if st[3] is None or st[3][0] == "block" else ("block", [st[3]])
        tv, tf = gen_branch(g, list(th[1]), vs)
        ev, ef = gen_branch(g, list(el[1]) if el else [], vs)
        pat = "(%s)" % ", ".join(vs) if len(vs) > 1 else vs[0]
        ty = " × ".join(["Int"] * len(vs))
        v, fr = gen_branch(g, rest, vs)
        pre = (" && ".join(fc) + " && ") if fc else ""
        return ("(let %s : %s := if %s then %s else %s; %s)" % (pat, ty, c, tv, ev, v),
                "(%s(if %s then %s else %s) && (let %s : %s := if %s then %s else %s; %s))" % (pre, c, tf, ef, pat, ty, c, tv, ev, fr))
    raise Refuse("statement in branch %s" % (st,))


def translate(path, name, defines=()):
    src = strip_comments(open(os.path.join(REPO, path)).read())
    text, macros = active_text(src, set(defines))
    ret, params, body = extract_function(text, name)
    stmts = parse_statements(Parser(tokenize(body), macros))
    out = []
    for mode in ("val", "fits"):
        g = Gen(name, ret, params, macros)
        for ty, pn in params:
            g.vartype[pn] = g.width(ty)
        b = gen_body(g, stmts, mode)
        args = " ".join("(%s : Int)" % pn for _, pn in params)
        if mode == "val":
            out.append("/-- `%s` of %s (value over unbounded integers) -/\ndef %s %s : Int :=\n  %s\n" % (name, path, name, args, b))
        else:
            out.append("/-- every intermediate result of `%s` fits the C type it is computed in -/\ndef %s_fits %s : Bool :=\n  %s\n" % (name, name, args, b))
    return "\n".join(out), macros


def main():
    chunks = ["/-\n  GENERATED by tools/c2lean.py from %s's working tree on every run — do not edit.\n-/\nnamespace CmrGen\n" % REPO]
    refused = []
    consts = {}
    for path, name in KERNELS:
        try:
            t, macros = translate(path, name)
            chunks.append(t)
            if name == "projectSignedHash":
                e = Parser(tokenize(macros["RANGE_SIGNED_HASH"]), macros).expr_all()
                g = Gen("RANGE_SIGNED_HASH", "long long", [], macros)
                consts["RANGE_SIGNED_HASH"] = g.ex(e)[0]
        except Refuse as ex:
            refused.append("%s:%s: %s" % (path, name, ex))
        except FileNotFoundError as ex:
            refused.append("%s:%s: %s" % (path, name, ex))
    for k, v in consts.items():
        chunks.append("/-- macro `%s` -/\ndef %s : Int := %s\n" % (k, k, v))
    chunks.append("end CmrGen\n")
    os.makedirs(os.path.dirname(OUTFILE), exist_ok=True)
    new = "\n".join(chunks)
    old = open(OUTFILE).read() if os.path.exists(OUTFILE) else None
    if new != old:
        open(OUTFILE, "w").write(new)
    for r in refused:
        print("REFUSED", r)
    return 1 if refused else 0


if __name__ == "__main__":
    sys.exit(main())
