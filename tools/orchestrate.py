#!/usr/bin/env python3
"""Correspondence orchestration: build, run harness + Lean judge, shrink, known findings, evidence.

Only plumbing lives here.  Every decision about whether an implementation answer conforms to a property is taken by
the Lean driver `cmrmodel` (lean/Cmr/Judge.lean), whose deciding functions carry the theorems in
lean/CmrProofs/Props/.
"""
import fcntl, hashlib, json, os, random, re, shutil, subprocess, sys, tempfile, time
from concurrent.futures import ThreadPoolExecutor

VERIF = os.path.dirname(os.path.dirname(os.path.abspath(__file__)))
# evidence and replays go to VERIF unless redirected (used when checks run against a scratch tree of seeded changes)
OUT = os.environ.get("VERIF_OUT", VERIF)
sys.path.insert(0, os.path.join(VERIF, "tools"))
import cmrbuild

LEAN = os.path.join(VERIF, "lean")
NPROC = int(os.environ.get("VERIF_JOBS", "16"))
ALLOWED_AXIOMS = {"propext", "Classical.choice", "Quot.sound"}
FORBIDDEN = re.compile(r"\bsorry\b|\badmit\b|^\s*axiom\s|native_decide|bv_decide|implemented_by|\bunsafe\s|maxHeartbeats\s+0")


def log(*a):
    print(*a, file=sys.stderr, flush=True)


# ----------------------------------------------------------------------------------------------------------------
# Lean side
# ----------------------------------------------------------------------------------------------------------------

def lake(args, timeout=3600):
    lock = open(os.path.join(LEAN, ".lake.lock"), "w")
    fcntl.flock(lock, fcntl.LOCK_EX)
    try:
        p = subprocess.run(["lake"] + args, cwd=LEAN, stdout=subprocess.PIPE, stderr=subprocess.STDOUT, text=True,
                           timeout=timeout)
        return p.returncode, p.stdout
    finally:
        fcntl.flock(lock, fcntl.LOCK_UN); lock.close()


def build_model():
    """core-only library + compiled driver"""
    rc, out = lake(["build", "Cmr", "cmrmodel"])
    return rc == 0, out


def model_exe():
    return os.path.join(LEAN, ".lake", "build", "bin", "cmrmodel")


def strip_comments(src):
    # remove /- ... -/ (nested not handled beyond one level) and -- line comments
    src = re.sub(r"/-.*?-/", "", src, flags=re.S)
    src = re.sub(r"--.*", "", src)
    return src


def prop_modules(pid):
    """the property's proof modules: Props/<pid>.lean and extensions Props/<pid><Suffix>.lean (e.g. C03TU, C05Complete)"""
    d = os.path.join(LEAN, "CmrProofs", "Props")
    mods = []
    if os.path.isdir(d):
        for f in sorted(os.listdir(d)):
            m = re.fullmatch(re.escape(pid) + r"([A-Za-z]\w*)?\.lean", f)
            if m:
                mods.append(f[:-5])
    return mods


def prop_theorems(pid):
    """-> (path of the main file, [fully qualified theorem names of all the property's modules])"""
    f = os.path.join(LEAN, "CmrProofs", "Props", pid + ".lean")
    thms = []
    for mod in prop_modules(pid):
        src = strip_comments(open(os.path.join(LEAN, "CmrProofs", "Props", mod + ".lean")).read())
        # fully qualified names: follow (nested) namespaces; `section … end` blocks do not contribute to names
        stack = []
        for line in src.split("\n"):
            m = re.match(r"^namespace\s+(\S+)", line)
            if m:
                stack.append(("ns", m.group(1))); continue
            m = re.match(r"^(?:noncomputable\s+)?section\b\s*(\S*)", line)
            if m:
                stack.append(("sec", m.group(1))); continue
            m = re.match(r"^end\b\s*(\S*)", line)
            if m and stack:
                stack.pop(); continue
            m = re.match(r"^theorem\s+(\S+)", line)
            if m:
                thms.append(".".join([n for k, n in stack if k == "ns"] + [m.group(1)]))
    return f, thms


def lean_sources_for(pid):
    """all .lean files the property file transitively imports inside this project"""
    seen, todo = set(), [os.path.join(LEAN, "CmrProofs", "Props", m + ".lean") for m in (prop_modules(pid) or [pid])]
    while todo:
        f = todo.pop()
        if f in seen or not os.path.exists(f):
            continue
        seen.add(f)
        for m in re.findall(r"^import\s+(\S+)", open(f).read(), flags=re.M):
            if m.split(".")[0] in ("Cmr", "CmrProofs", "CmrGen"):
                todo.append(os.path.join(LEAN, *m.split(".")) + ".lean")
    return sorted(seen)


def audit_proofs(pid):
    """Build the property's proof module, grep for forbidden constructs, print axioms of every property theorem.
    Returns dict(ok, obligations, discharged, theorems, axioms, problems)."""
    res = dict(ok=False, obligations=0, discharged=0, theorems=[], axioms=[], problems=[])
    f, thms = prop_theorems(pid)
    res["theorems"] = thms
    res["obligations"] = len(thms)
    if not thms:
        res["problems"].append("no property theorems found in " + f)
        return res
    mods = prop_modules(pid)
    rc, out = lake(["build"] + ["CmrProofs.Props." + m for m in mods])
    if rc != 0:
        res["problems"].append("lake build %s failed:\n%s" % (" ".join("CmrProofs.Props." + m for m in mods), out[-3000:]))
        return res
    for src in lean_sources_for(pid):
        txt = strip_comments(open(src).read())
        for i, line in enumerate(txt.splitlines(), 1):
            if FORBIDDEN.search(line):
                res["problems"].append("forbidden construct in %s: %s" % (os.path.relpath(src, VERIF), line.strip()))
    auditf = os.path.join(LEAN, ".lake", "audit_%s.lean" % pid)
    os.makedirs(os.path.dirname(auditf), exist_ok=True)
    with open(auditf, "w") as fh:
        for m in mods:
            fh.write("import CmrProofs.Props.%s\n" % m)
        for t in thms:
            fh.write("#print axioms %s\n" % t)
    p = subprocess.run(["lake", "env", "lean", auditf], cwd=LEAN, stdout=subprocess.PIPE, stderr=subprocess.STDOUT, text=True)
    txt = p.stdout
    axioms = set()
    discharged = 0
    # output: "'name' depends on axioms: [a, b]" or "'name' does not depend on any axioms"
    flat = re.sub(r"\s+", " ", txt)
    for t in thms:
        m = re.search(r"'%s' (does not depend on any axioms|depends on axioms: \[([^\]]*)\])" % re.escape(t), flat)
        if not m:
            res["problems"].append("no axiom report for " + t)
            continue
        ax = set(a.strip() for a in (m.group(2) or "").split(",") if a.strip())
        axioms |= ax
        bad = ax - ALLOWED_AXIOMS
        if bad:
            res["problems"].append("%s depends on %s" % (t, sorted(bad)))
        else:
            discharged += 1
    if p.returncode != 0:
        res["problems"].append("axiom audit failed: " + txt[-1500:])
    res["axioms"] = sorted(axioms)
    res["discharged"] = discharged
    res["ok"] = not res["problems"] and discharged == len(thms)
    return res


KERNEL_PIDS = ("C08", "C11", "C13")


def audit_kernels(proof):
    """Translation tie: regenerate lean/CmrGen/Kernels.lean from the working tree, re-check Props/Kernels.lean, merge into `proof`.
    When it no longer checks, search the real C kernels for a concrete failing input."""
    import kernels
    ok, out = kernels.regenerate()
    res = audit_proofs("Kernels") if ok else dict(ok=False, obligations=0, discharged=0, theorems=[], axioms=[],
                                                 problems=["translator refused a kernel: " + out])
    proof["obligations"] += res["obligations"]
    proof["discharged"] += res["discharged"]
    proof["theorems"] += res["theorems"]
    proof["axioms"] = sorted(set(proof["axioms"]) | set(res["axioms"]))
    if not res["ok"]:
        proof["ok"] = False
        proof["problems"] += ["kernels: " + p for p in res["problems"]]
        try:
            proof["kernel_failures"] = kernels.search()
        except Exception as ex:
            proof["kernel_failures"] = []
            proof["problems"].append("kernel search failed: %s" % ex)
    return proof


def leanchecker(pid):
    """independent re-check of the compiled property module and of its extension modules (one module per call)"""
    out = []
    for mod in (prop_modules(pid) or [pid]):
        p = subprocess.run(["lake", "env", "leanchecker", "CmrProofs.Props." + mod], cwd=LEAN, stdout=subprocess.PIPE,
                           stderr=subprocess.STDOUT, text=True)
        if p.returncode != 0:
            return False, mod + ": " + p.stdout[-2000:]
        out.append(mod)
    return True, "re-checked " + " ".join(out)


# ----------------------------------------------------------------------------------------------------------------
# Harness side
# ----------------------------------------------------------------------------------------------------------------

SAN_ENV = {
    "ASAN_OPTIONS": "detect_leaks=1:exitcode=97:abort_on_error=0:allocator_may_return_null=1:detect_stack_use_after_return=0",
    "UBSAN_OPTIONS": "print_stacktrace=1:halt_on_error=1:exitcode=98",
    "LSAN_OPTIONS": "exitcode=96",
    "TSAN_OPTIONS": "exitcode=95",
}


def harness_args(flavour, extra=()):
    a = list(extra)
    if flavour in ("asan", "hash", "asan_nd") and "--redzone" not in a:
        a += ["--redzone", "32"]
    if "--fill" not in a and flavour in ("asan", "hash", "plain", "asan_nd"):
        a += ["--fill", "203"]
    return a


TIMEOUT_SITES = set()


def run_harness_chunk(exe, lines, args, timeout=600):
    """Runs the harness on `lines`; survives crashes by restarting after the crashing line.
    Returns list of result strings aligned with lines."""
    results = []
    start = 0
    env = dict(os.environ); env.update(SAN_ENV)
    while start < len(lines):
        inp = "\n".join(lines[start:]) + "\n"
        try:
            p = subprocess.run([exe] + args, input=inp, stdout=subprocess.PIPE, stderr=subprocess.PIPE, text=True,
                               env=env, timeout=timeout, errors="replace")
            out = p.stdout.split("\n")
            rc = p.returncode
            err = p.stderr
            for mm in re.finditer(r"Time limit exceeded in ([^\s:]+):(\d+)", err):
                TIMEOUT_SITES.add("%s:%s" % (os.path.basename(mm.group(1)), mm.group(2)))
            via = timeout_paths(err)
        except subprocess.TimeoutExpired as ex:
            out = (ex.stdout or b"").decode(errors="replace").split("\n") if isinstance(ex.stdout, bytes) else (ex.stdout or "").split("\n")
            rc = -9
            err = "harness timeout after %ds" % timeout
            via = {}
        if out and out[-1] == "":
            out.pop()
        marker = [l for l in out if l.startswith("!crash")]
        n = len(lines) - start
        # results carry their input line number ("#k result"); anything else on stdout is noise written by the library
        got = {}
        noise = []
        for l in out:
            m = re.match(r"#(\d+) (.*)$", l)
            if m:
                # a crash while an op runs leaves "#k " without newline followed by the marker; handled below
                k0 = int(m.group(1))
                # the unwinding path of a timeout (files of the CMR_CALL sites that passed it on, innermost first)
                got[k0] = m.group(2) + ((" via=" + via[k0]) if k0 in via and "err:TIMEOUT" in m.group(2)[:12] else "")
            elif l.startswith("!crash") or re.match(r"#\d+ ?$", l):
                pass
            else:
                mm = re.match(r"#(\d+) ?(.*)!crash", l)
                if not mm:
                    noise.append(l)
        k = 0
        while k < n and k in got and not got[k].startswith("!crash") and "!crash" not in got[k]:
            k += 1
        answered = [got[i] for i in range(k)]
        if noise and answered:
            answered[-1] = "crash:stdout-noise " + noise[0][:120].replace(" ", "_")
        if k >= n and rc == 0:
            results += answered
            break
        if k >= n:
            culprit = bisect_exit_failure(exe, lines[start:], args, env, timeout)
            # the report of the whole chunk may mix several leaking ops: re-run the culprit on its own
            try:
                p1 = subprocess.run([exe] + args, input=lines[start + culprit] + "\n", stdout=subprocess.PIPE, stderr=subprocess.PIPE,
                                    text=True, env=env, timeout=timeout, errors="replace")
                if p1.returncode != 0:
                    err = p1.stderr
            except subprocess.TimeoutExpired:
                pass
            summ = summarize_stderr(err)
            for i in range(n):
                results.append("crash:exit rc=%d %s" % (rc, summ) if i == culprit else answered[i])
            break
        results += answered
        why = marker[0][1:] if marker else "rc=%d" % rc
        results.append("crash:%s %s" % (why.replace(" ", "_"), summarize_stderr(err)))
        start = start + k + 1
    return results


def exit_fails(exe, lines, args, env, timeout):
    p = subprocess.run([exe] + args, input="\n".join(lines) + "\n", stdout=subprocess.PIPE, stderr=subprocess.PIPE, text=True,
                       env=env, timeout=timeout, errors="replace")
    return p.returncode != 0


def bisect_exit_failure(exe, lines, args, env, timeout):
    """the process answered every line but failed at exit (leak): find the first line whose prefix run fails"""
    lo, hi = 0, len(lines) - 1          # invariant: prefix [0..hi] fails
    try:
        while lo < hi:
            mid = (lo + hi) // 2
            if exit_fails(exe, lines[:mid + 1], args, env, timeout):
                hi = mid
            else:
                lo = mid + 1
    except subprocess.TimeoutExpired:
        pass
    return hi


def timeout_paths(err):
    """stderr of the harness carries '@@k' before op k; returns {k: 'file>file>...'} for ops whose segment contains the library's
    'Time limit exceeded in file:line' messages (consecutive duplicates of a file removed; line numbers dropped: they move with edits)"""
    res = {}
    cur = None
    files = []
    def flush():
        if cur is not None and files:
            path = []
            for f in files:
                if not path or path[-1] != f:
                    path.append(f)
            res[cur] = ">".join(path[:8])
    for l in (err or "").split("\n"):
        # the library does not terminate its messages with a newline before the next one: split on the marker inside lines, too
        for part in re.split(r"(@@\d+)", l):
            m = re.fullmatch(r"@@(\d+)", part)
            if m:
                flush(); cur = int(m.group(1)); files = []
            else:
                for mm in re.finditer(r"Time limit exceeded in ([^\s:]+):(\d+)", part):
                    files.append(os.path.basename(mm.group(1)))
    flush()
    return res


def leak_chains(err):
    """allocation call chains of LeakSanitizer's direct leaks: library functions only, allocator frames dropped"""
    chains = []
    for blk in re.split(r"\n(?=Direct leak|Indirect leak)", err):
        if not blk.startswith("Direct leak"):
            continue
        fns = []
        for mm in re.finditer(r"#\d+ 0x[0-9a-f]+ in (\w+) [^\n]*?(\w+\.c):\d+", blk):
            fn, f = mm.group(1), mm.group(2)
            if f in ("env.c",) or f.startswith("cmrh") or f.startswith("ops_") or f == "wrap.c" or fn.startswith("__"):
                continue
            fns.append(fn)
        if fns:
            c = "<".join(fns[:4])
            if c not in chains:
                chains.append(c)
    return chains


def summarize_stderr(err):
    err = err or ""
    if "LeakSanitizer" in err:
        ch = leak_chains(err)
        if ch:
            return "LeakSanitizer[%s]" % "|".join(sorted(ch)[:4])
    m = re.search(r"Assertion `(.*?)' failed", err)
    if m:
        loc = re.search(r"(\w+\.c):(\d+): (\w+): Assertion", err)
        return "assert[%s:%s:%s]" % (loc.group(1) if loc else "?", loc.group(3) if loc else "?", m.group(1).replace(" ", "_"))
    m = re.search(r"ERROR: (AddressSanitizer|LeakSanitizer): ([^\n]*)", err)
    if m:
        frames = re.findall(r"#\d+ 0x[0-9a-f]+ in (\w+) [^\n]*?(\w+\.c):(\d+)", err)
        fr = [f for f in frames if not f[1].startswith("cmrh") and not f[1].startswith("ops_") and f[1] != "wrap.c"]
        top = fr[0] if fr else (frames[0] if frames else ("?", "?", "?"))
        kind = m.group(2).split(" on ")[0].split(":")[0].strip().replace(" ", "-")
        return "%s[%s:%s:%s]" % (m.group(1), kind, top[1], top[0])
    m = re.search(r"(\w+\.c):(\d+):\d+: runtime error: ([^\n]*)", err)
    if m:
        return "ubsan[%s:%s:%s]" % (m.group(1), m.group(2), re.sub(r"0x[0-9a-f]+", "ADDR", m.group(3)).replace(" ", "_")[:80])
    tail = err.strip().split("\n")[-1] if err.strip() else ""
    return "stderr[%s]" % tail.replace(" ", "_")[:120]


def run_harness(exe, lines, args=(), chunk=None, timeout=900):
    if not lines:
        return []
    args = list(args)
    if chunk is None:
        chunk = max(50, min(5000, len(lines) // (NPROC * 2) + 1))
    parts = [lines[i:i + chunk] for i in range(0, len(lines), chunk)]
    with ThreadPoolExecutor(NPROC) as ex:
        # every op has its own watchdog inside the harness (--op-timeout, default 90 s), so the limit for a whole chunk only has to
        # catch a harness that is stuck outside an op; it must not be shorter than what the ops of the chunk may legitimately take
        outs = list(ex.map(lambda pl: run_harness_chunk(exe, pl, args, timeout if "--threads" in args else max(timeout, 100 * len(pl))), parts))
    res = []
    for o in outs:
        res += o
    return res


def run_model(pairs, chunk=None):
    """pairs: list of 'op => result' strings; returns list of verdict strings"""
    if not pairs:
        return []
    exe = model_exe()
    if chunk is None:
        chunk = max(50, min(5000, len(pairs) // (NPROC * 2) + 1))
    parts = [pairs[i:i + chunk] for i in range(0, len(pairs), chunk)]

    def one(pl):
        p = subprocess.run([exe], input="\n".join(pl) + "\n", stdout=subprocess.PIPE, stderr=subprocess.PIPE, text=True)
        out = p.stdout.split("\n")
        if out and out[-1] == "":
            out.pop()
        if len(out) != len(pl):
            out = out + ["bad-op model-crash rc=%d %s" % (p.returncode, p.stderr[-200:].replace("\n", " "))] * (len(pl) - len(out))
        return out
    with ThreadPoolExecutor(NPROC) as ex:
        outs = list(ex.map(one, parts))
    res = []
    for o in outs:
        res += o
    return res


# ----------------------------------------------------------------------------------------------------------------
# Known findings
# ----------------------------------------------------------------------------------------------------------------

def load_known():
    f = os.path.join(VERIF, "known_findings.json")
    if not os.path.exists(f):
        return []
    return json.load(open(f)).get("findings", [])


def match_known(known, pid, op, result, verdict, flavour=None):
    """A finding matches when all its regexes match: 'op' against the op line, 'result' against the implementation's
    result line, 'verdict' against the judge's line.  Only entries with status 'known' suppress."""
    for k in known:
        if k.get("status") != "known":
            continue
        # the "properties" field documents where the defect belongs; a finding suppresses its replay in whichever check meets it
        if "flavour" in k and k["flavour"] != flavour:
            continue
        if "op" in k and not re.search(k["op"], op):
            continue
        if "result" in k and not re.search(k["result"], result):
            continue
        if "verdict" in k and not re.search(k["verdict"], verdict):
            continue
        if k.get("predicate") == "compose3_nonstandard":
            try:
                tk = [t for t in op.split(" ") if not t.startswith("@")]
                m1, n1 = int(tk[3]), int(tk[4])
                p2 = 5 + m1 * n1
                m2, n2 = int(tk[p2]), int(tk[p2 + 1])
                sp = [int(x) for x in tk[p2 + 2 + m2 * n2: p2 + 2 + m2 * n2 + 10]]
                standard = (len(sp) == 10 and sp[0] == m1 - 2 and sp[1] == m1 - 1 and sp[4] == n1 - 1 and sp[5] == 0 and sp[8] == 0 and sp[9] == 1)
            except (ValueError, IndexError):
                continue
            if standard:
                continue
        if "mask_clear_any" in k or "mask_set_any" in k:
            toks = [t for t in op.split(" ") if not t.startswith("@")]
            try:
                mask = int(toks[1])
            except (IndexError, ValueError):
                continue
            ok = False
            if any(not (mask >> b) & 1 for b in k.get("mask_clear_any", [])):
                ok = True
            if any((mask >> b) & 1 for b in k.get("mask_set_any", [])):
                ok = True
            if not ok:
                continue
        return k
    return None


# ----------------------------------------------------------------------------------------------------------------
# A correspondence run
# ----------------------------------------------------------------------------------------------------------------

class Run:
    def __init__(self, pid, tier, seed):
        self.pid, self.tier, self.seed = pid, tier, seed
        self.t0 = time.time()
        self.rng = random.Random((seed * 1000003) ^ int(hashlib.sha256(pid.encode()).hexdigest()[:8], 16))
        self.evaluations = 0
        self.tags = {}
        self.distinct = set()
        self.samples = []
        self.failures = []      # (op, result, verdict, flavour, args)
        self.known_hits = {}    # finding id -> (finding, count, example)
        self.notes = {}
        self.batches = []
        self.ignore_tags = None     # regex of failure tags that belong to another property's check
        self.all_lines = []         # every op line sent to the harness (the CLI batch samples from it)

    def cli_batch(self, name, lines, flavour="asan"):
        """The same op lines answered by the command-line tools (tools/cli.py) instead of the in-process harness."""
        return self.batch(name, lines, flavour, cli=True)

    def batch(self, name, lines, flavour="asan", args=(), nontrivial=None, sample=3, cli=False):
        """Run one batch of op lines through harness (flavour) and judge; record coverage."""
        if not lines:
            return []
        if not cli:
            self.all_lines += [l for l in lines if len(l) < 6000]
        t = time.time()
        d = cmrbuild.build(flavour, want_tools=cli)
        exe = os.path.join(d, "cmrh")
        hargs = harness_args(flavour, args) if not cli else ["cli"]
        if not cli and self.tier == "thorough" and "--op-timeout" not in hargs:
            hargs += ["--op-timeout", "300"]      # the thorough tier runs instances several times larger, often next to other checks
        if cli:
            import cli as clilayer
            env = dict(os.environ); env.update(SAN_ENV)
            results = clilayer.run_cli(os.path.join(d, "tools"), lines, env, NPROC)
            keep = [i for i, r in enumerate(results) if r != "skip-cli"]
            lines = [lines[i] for i in keep]; results = [results[i] for i in keep]
            if not lines:
                return []
        else:
            results = run_harness(exe, lines, hargs)
        pairs = ["%s => %s" % (l, r) for l, r in zip(lines, results)]
        verdicts = run_model(pairs)
        known = load_known()
        nfail = 0
        for l, r, v in zip(lines, results, verdicts):
            self.evaluations += 1
            tag = v.split(" ")[1] if v.count(" ") >= 1 else v
            kind = v.split(" ")[0]
            key = kind + " " + tag
            self.tags[key] = self.tags.get(key, 0) + 1
            if kind == "ok":
                if nontrivial is None or nontrivial(l, r, v):
                    self.distinct.add(hashlib.sha1(l.encode()).digest()[:8])
            elif kind == "FAIL" and self.ignore_tags and re.search(self.ignore_tags, tag):
                self.tags["other-property " + tag] = self.tags.get("other-property " + tag, 0) + 1
            elif kind in ("FAIL", "bad-op"):
                k = match_known(known, self.pid, l, r, v, flavour)
                if k:
                    e = self.known_hits.setdefault(k["id"], [k, 0, l])
                    e[1] += 1
                    if os.environ.get("VERIF_DUMP_KNOWN"):
                        with open(os.environ["VERIF_DUMP_KNOWN"], "a") as fh:
                            fh.write(json.dumps({"id": k["id"], "op": l, "result": r[-400:], "verdict": v[:300]}) + "\n")
                else:
                    nfail += 1
                    self.failures.append((l, r, v, flavour, list(hargs)))
        for i in self.rng.sample(range(len(lines)), min(sample, len(lines))):
            if len(self.samples) < 12:
                self.samples.append({"batch": name, "op": lines[i][:400], "impl": results[i][:400], "judge": verdicts[i][:200]})
        self.batches.append({"name": name, "flavour": flavour, "ops": len(lines), "failures": nfail, "wall_s": round(time.time() - t, 1)})
        log("  batch %-28s %-6s %7d ops  %d failures  %.1fs" % (name, flavour, len(lines), nfail, time.time() - t))
        return list(zip(lines, results, verdicts))


def shrink_line(line, flavour, args, still_fails):
    """Greedy shrink of one op line: try zeroing matrix entries (tokens that are small integers after the header)."""
    toks = line.split(" ")
    opname = [t for t in toks if not t.startswith("@")][0]
    if opname not in ("tu", "regular", "ctu", "sp", "camion", "balanced", "graphic", "network", "equimod"):
        return line
    best = toks
    changed = True
    budget = 200
    while changed and budget > 0:
        changed = False
        for i in range(len(best) - 1, 5, -1):
            if best[i] in ("1", "-1") and budget > 0:
                cand = best[:i] + ["0"] + best[i + 1:]
                budget -= 1
                if still_fails(" ".join(cand)):
                    best = cand
                    changed = True
    return " ".join(best)


def judge_lines(lines, flavour, args):
    if list(args) == ["cli"]:
        import cli as clilayer
        d = cmrbuild.build(flavour, want_tools=True)
        env = dict(os.environ); env.update(SAN_ENV)
        results = clilayer.run_cli(os.path.join(d, "tools"), lines, env, NPROC)
        verdicts = run_model(["%s => %s" % (l, r) for l, r in zip(lines, results)])
        return results, verdicts
    d = cmrbuild.build(flavour)
    exe = os.path.join(d, "cmrh")
    results = run_harness_chunk(exe, lines, list(args))
    verdicts = run_model(["%s => %s" % (l, r) for l, r in zip(lines, results)])
    return results, verdicts


def write_replay(pid, op, result, verdict, flavour, args, extra=None):
    d = os.path.join(OUT, "replays", pid)
    os.makedirs(d, exist_ok=True)
    h = hashlib.sha1((op + flavour).encode()).hexdigest()[:12]
    path = os.path.join(d, h + ".ops")
    with open(path, "w") as f:
        f.write("# property=%s flavour=%s args=%s\n" % (pid, flavour, " ".join(args)))
        f.write("# impl: %s\n# judge: %s\n" % (result[:2000], verdict[:2000]))
        if extra:
            f.write("# %s\n" % extra)
        f.write(op + "\n")
    return path


def replay(pid, path):
    lines = [l.rstrip("\n") for l in open(path)]
    meta = [l for l in lines if l.startswith("#")]
    ops = [l for l in lines if l and not l.startswith("#")]
    flavour, args = "asan", []
    for m in meta:
        mm = re.match(r"# property=\S+ flavour=(\S+) args=(.*)", m)
        if mm:
            flavour, args = mm.group(1), mm.group(2).split()
    if not ops:
        print("\n".join(meta))
        print("replay names a proof obligation or correspondence, no operation lines")
        return 1
    results, verdicts = judge_lines(ops, flavour, args)
    bad = 0
    known = load_known()
    for l, r, v in zip(ops, results, verdicts):
        print(l); print("  impl :", r[:1000]); print("  judge:", v[:1000])
        if v.startswith("FAIL") or v.startswith("bad-op"):
            if not match_known(known, pid, l, r, v, flavour):
                bad += 1
    return 1 if bad else 0


def finish(run, proof, level_note, rule, extra_cov=None, assumptions=None):
    """Writes evidence, prints KNOWN-FINDING / VIOLATION lines, returns exit code."""
    pid = run.pid
    rc = 0
    out_lines = []
    shutil.rmtree(os.path.join(OUT, "replays", pid), ignore_errors=True)
    for (op, result, verdict, flavour, args) in run.failures[:8]:
        log("  FAILURE %s\n      impl : %s\n      judge: %s" % (op[:300], result[:300], verdict[:300]))
    # 1. correspondence failures -> shrink, replay, VIOLATION
    reported = set()
    for (op, result, verdict, flavour, args) in run.failures[:20]:
        tag = verdict.split(" ")[1] if " " in verdict else verdict
        if tag in reported and len(reported) >= 1:
            continue
        reported.add(tag)
        known = load_known()

        def still(cand):
            rs, vs = judge_lines([cand], flavour, args)
            v = vs[0]
            return (v.startswith("FAIL") and (v.split(" ")[1] == tag)) and not match_known(known, pid, cand, rs[0], v, flavour)
        try:
            small = shrink_line(op, flavour, args, still) if len(op) < 600 else op
        except Exception:
            small = op
        rs, vs = judge_lines([small], flavour, args)
        if not (vs[0].startswith("FAIL") or vs[0].startswith("bad-op")):
            # the shrunk line does not fail when re-run: report the original observation
            small, rs, vs = op, [result], [verdict]
        path = write_replay(pid, small, rs[0], vs[0], flavour, args)
        out_lines.append("VIOLATION property=%s replay=%s" % (pid, path))
        rc = 1
    # 2. proof obligations
    if proof is not None and not proof["ok"]:
        # a kernel theorem broke: the search on the real C kernels may have found a concrete failing input
        kf = proof.get("kernel_failures") or []
        if kf:
            d = os.path.join(OUT, "replays", pid)
            os.makedirs(d, exist_ok=True)
            path = os.path.join(d, "kernel-counterexample.txt")
            with open(path, "w") as f:
                f.write("# property=%s: theorem(s) about the regenerated scalar kernels (lean/CmrProofs/Props/Kernels.lean) no longer check;\n"
                        "# failing inputs found by tools/kernels.py on the C kernels of the working tree:\n" % pid)
                for x in kf:
                    f.write(x + "\n")
                for p in proof["problems"]:
                    f.write("# " + p.replace("\n", "\n# ")[:3000] + "\n")
            out_lines.append("VIOLATION property=%s replay=%s" % (pid, path))
            rc = 1
        if rc == 0:
            d = os.path.join(OUT, "replays", pid)
            os.makedirs(d, exist_ok=True)
            path = os.path.join(d, "proof-obligation.txt")
            with open(path, "w") as f:
                f.write("# property=%s: proof obligations no longer check; no failing input found by the correspondence run\n" % pid)
                for p in proof["problems"]:
                    f.write("# " + p.replace("\n", "\n# ") + "\n")
            out_lines.append("VIOLATION property=%s replay=%s no-failing-input-found" % (pid, path))
            rc = 1
    for kid, (k, n, ex) in sorted(run.known_hits.items()):
        out_lines.append("KNOWN-FINDING: property=%s %s [%s; %d occurrences this run; e.g. %s]" % (pid, k["what"], kid, n, ex[:160]))
    cov = {
        "evaluations": run.evaluations,
        "distinct_nontrivial": len(run.distinct),
        "rule": rule,
        "samples": run.samples[:12],
        "obligations": proof["obligations"] if proof else 0,
        "discharged": proof["discharged"] if proof else 0,
        "checker_cmd": "cd lean && lake build CmrProofs.Props.%s && lake env lean .lake/audit_%s.lean  (#print axioms for every theorem; grep for sorry/admit/axiom/native_decide)" % (pid, pid),
        "trusted_base": (["Lean 4 kernel"] + ["axiom " + a for a in (proof["axioms"] if proof else [])] +
                         ["C harness harness/*.c + tools/orchestrate.py (correspondence plumbing)", "gcc, ASan/UBSan/LSan runtimes"]),
        "theorems": proof["theorems"] if proof else [],
        "proof_problems": proof["problems"] if proof else [],
        "judge_tags": dict(sorted(run.tags.items())),
        "batches": run.batches,
        "known_findings_hit": {k: v[1] for k, v in run.known_hits.items()},
    }
    if extra_cov:
        cov.update(extra_cov)
    ev = {
        "property_id": pid, "tier": run.tier, "seed": run.seed, "level": "proof", "coverage": cov,
        "assumptions": assumptions or [], "wall_s": round(time.time() - run.t0, 1), "violations": len(run.failures) + (0 if (proof is None or proof["ok"]) else 1),
    }
    os.makedirs(os.path.join(OUT, "evidence"), exist_ok=True)
    with open(os.path.join(OUT, "evidence", pid + ".json"), "w") as f:
        json.dump(ev, f, indent=1)
    for l in out_lines:
        print(l)
    sys.stdout.flush()
    return rc
