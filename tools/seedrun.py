#!/usr/bin/env python3
"""Confirm seeded breaking changes and run the checks against them.

  tools/seedrun.py import  /tmp/seed          copy <root>/<P>/_seed/<x>/ to seeded/<P><x>/  (patch.diff, demo files, meta.json)
  tools/seedrun.py confirm [ids...]           demo on the unpatched and the patched /repo build, test suite with the patch
  tools/seedrun.py check   [ids...] [--also C11,C19] [--tier quick]
                                               apply the patch to /repo, run the property's check (and --also), undo
  tools/seedrun.py table                      print the table for DESIGN.md

Nothing is ever committed in /repo: patches are applied to the working tree with `git apply` and removed with
`git checkout -- .`.  The script refuses to start if /repo's working tree is not clean.
"""
import json, os, re, shutil, subprocess, sys, time

VERIF = os.path.dirname(os.path.dirname(os.path.abspath(__file__)))
SEEDED = os.path.join(VERIF, "seeded")
# the tree the patches are applied to: /repo itself, or (SEED_TREE) a detached git worktree of /repo's HEAD so that /repo stays
# usable while the seeded runs are in progress; checks then build from that tree (CMR_REPO) and write evidence/replays to SEED_OUT
REPO = os.environ.get("SEED_TREE", "/repo")
SEED_OUT = os.environ.get("SEED_OUT", "")


def sh(cmd, **kw):
    return subprocess.run(cmd, shell=isinstance(cmd, str), stdout=subprocess.PIPE, stderr=subprocess.STDOUT, text=True, **kw)


def repo_clean():
    out = sh(["git", "-C", REPO, "status", "--porcelain", "--untracked-files=no"]).stdout.strip()
    return out == ""


def restore():
    sh(["git", "-C", REPO, "checkout", "--", "."])


def build_repo():
    p = sh("cmake -G Ninja -S %s -B %s/_build >/dev/null && cmake --build %s/_build 2>&1 | tail -3" % (REPO, REPO, REPO))
    return p.returncode == 0, p.stdout


def ids_or_all(args):
    ids = [a for a in args if not a.startswith("--")]
    if not ids:
        ids = sorted(d for d in os.listdir(SEEDED) if os.path.isdir(os.path.join(SEEDED, d)) and not d.startswith("_"))
    return ids


def load_result(sid):
    p = os.path.join(SEEDED, sid, "result.json")
    return json.load(open(p)) if os.path.exists(p) else {}


def save_result(sid, r):
    json.dump(r, open(os.path.join(SEEDED, sid, "result.json"), "w"), indent=1)


def cmd_import(root):
    os.makedirs(SEEDED, exist_ok=True)
    for P in sorted(os.listdir(root)):
        sd = os.path.join(root, P, "_seed")
        if not os.path.isdir(sd):
            continue
        round2 = os.path.isdir(os.path.join(root, P, "_seed_round1"))
        for x in sorted(os.listdir(sd)):
            src = os.path.join(sd, x)
            if not os.path.exists(os.path.join(src, "patch.diff")) or not os.path.exists(os.path.join(src, "meta.json")):
                continue
            dst = os.path.join(SEEDED, P + ({"a": "c", "b": "d"}.get(x, x) if round2 else x))
            if os.path.exists(dst):
                continue
            os.makedirs(os.path.join(dst, "demo"))
            for f in os.listdir(src):
                if f in ("patch.diff", "meta.json"):
                    shutil.copy(os.path.join(src, f), os.path.join(dst, f))
                else:
                    fp = os.path.join(src, f)
                    if os.path.isfile(fp) and os.path.getsize(fp) < 2_000_000 and not f.endswith((".so", ".o", ".a")):
                        with open(fp, "rb") as fh:
                            head = fh.read(4)
                        if head != b"\x7fELF":
                            shutil.copy(fp, os.path.join(dst, "demo", f))
            print("imported", P + x)


def run_demo(sid):
    d = os.path.join(SEEDED, sid, "demo")
    p = sh(["bash", os.path.join(d, "demo.sh"), REPO], cwd=d, timeout=600)
    return p.returncode, p.stdout


def cmd_confirm(ids):
    assert repo_clean(), "/repo working tree is not clean"
    ok, out = build_repo()
    assert ok, out
    for sid in ids:
        r = load_result(sid)
        d = os.path.join(SEEDED, sid)
        rc0, out0 = run_demo(sid)
        a = sh(["git", "-C", REPO, "apply", os.path.join(d, "patch.diff")])
        if a.returncode != 0:
            r["confirm"] = dict(ok=False, why="patch does not apply: " + a.stdout[-500:])
            save_result(sid, r); restore(); print(sid, "PATCH DOES NOT APPLY"); continue
        try:
            ok, bout = build_repo()
            if not ok:
                r["confirm"] = dict(ok=False, why="does not build: " + bout[-800:])
                print(sid, "DOES NOT BUILD"); continue
            t = sh("ctest --test-dir %s/_build -j12 --timeout 900 2>&1 | tail -5" % REPO)
            tests_pass = "100% tests passed" in t.stdout
            rc1, out1 = run_demo(sid)
            differs = (rc0, out0) != (rc1, out1)
            r["confirm"] = dict(ok=bool(tests_pass and differs), tests_pass=tests_pass, demo_differs=differs,
                                demo_unpatched_rc=rc0, demo_patched_rc=rc1,
                                demo_unpatched=out0[-1500:], demo_patched=out1[-1500:])
            print(sid, "confirmed" if r["confirm"]["ok"] else "NOT CONFIRMED", "tests_pass=%s demo_differs=%s" % (tests_pass, differs))
        finally:
            restore()
            save_result(sid, r)
    build_repo()
    assert repo_clean()


def cmd_check(args):
    also = []
    tier = "quick"
    seed = None
    for i, a in enumerate(args):
        if a == "--also": also = args[i + 1].split(",")
        if a == "--tier": tier = args[i + 1]
        if a == "--seed": seed = args[i + 1]
    ids = [a for i, a in enumerate(args) if not a.startswith("--") and (i == 0 or args[i - 1] not in ("--also", "--tier", "--seed"))]
    if not ids:
        ids = sorted(d for d in os.listdir(SEEDED) if os.path.isdir(os.path.join(SEEDED, d)) and not d.startswith("_"))
    assert repo_clean(), "/repo working tree is not clean"
    for sid in ids:
        d = os.path.join(SEEDED, sid)
        r = load_result(sid)
        prop = json.load(open(os.path.join(d, "meta.json"))).get("property", sid[:3])
        a = sh(["git", "-C", REPO, "apply", os.path.join(d, "patch.diff")])
        if a.returncode != 0:
            print(sid, "PATCH DOES NOT APPLY"); restore(); continue
        try:
            r.setdefault("checks", {})
            for pid in [prop] + [x for x in also if x != prop]:
                t0 = time.time()
                env = dict(os.environ)
                if seed: env["VERIF_SEED"] = seed
                env["CMR_REPO"] = REPO
                if SEED_OUT: env["VERIF_OUT"] = SEED_OUT
                p = sh([os.path.join(VERIF, "bin", "check"), pid, "--tier", tier], cwd=VERIF, env=env, timeout=7200)
                viol = [l for l in p.stdout.splitlines() if l.startswith("VIOLATION")]
                first_fail = [l for l in p.stdout.splitlines() if "judge:" in l][:2]
                r["checks"][pid + ":" + tier] = dict(rc=p.returncode, violations=viol[:5], wall_s=round(time.time() - t0, 1),
                                                     sample=[x.strip()[:300] for x in first_fail])
                print(sid, pid, tier, "CAUGHT" if p.returncode == 1 and viol else "missed (rc=%d)" % p.returncode, "%.0fs" % (time.time() - t0), flush=True)
        finally:
            restore()
            save_result(sid, r)
    assert repo_clean()


def cmd_table():
    first = json.load(open(os.path.join(SEEDED, "FIRST_RUN.json")))["first_run"] if os.path.exists(os.path.join(SEEDED, "FIRST_RUN.json")) else {}
    print("| id | file | seeded change | first run | now caught by | how the check reports it |")
    print("|---|---|---|---|---|---|")
    for sid in ids_or_all([]):
        d = os.path.join(SEEDED, sid)
        if not os.path.exists(os.path.join(d, "meta.json")):
            continue
        meta = json.load(open(os.path.join(d, "meta.json")))
        r = load_result(sid)
        files = meta.get("files", [])
        files = ", ".join(os.path.basename(f) for f in files) if isinstance(files, list) else str(files)
        summ = re.sub(r"\s+", " ", meta.get("summary", ""))
        summ = (summ[:230] + "…") if len(summ) > 230 else summ
        chk = {k: v for k, v in r.get("checks", {}).items() if "@" not in k}
        caught = sorted(set(k.split(":")[0] for k, v in chk.items() if v["rc"] == 1 and v["violations"] and not all("model-build" in x for x in v["violations"])))
        sample = ""
        for k, v in chk.items():
            if v["rc"] == 1 and v.get("sample"):
                sample = re.sub(r"\s+", " ", v["sample"][0].replace("judge: ", ""))[:110]
                break
        print("| %s | %s | %s | %s | %s | %s |" % (sid, files, summ.replace("|", "/"), first.get(sid, "?"), ", ".join(caught) or "—", sample.replace("|", "/")))


if __name__ == "__main__":
    cmd = sys.argv[1]
    if cmd == "import": cmd_import(sys.argv[2])
    elif cmd == "confirm": cmd_confirm(ids_or_all(sys.argv[2:]))
    elif cmd == "check": cmd_check(sys.argv[2:])
    elif cmd == "table": cmd_table()
