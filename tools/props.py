"""Per-property correspondence runs: which operations are generated for which property, tier by tier."""
import itertools, os, re, sys, time
import orchestrate as O
import cmrbuild
from gen import *

VERIF = O.VERIF
CHECKS = {}


def check(pid):
    def deco(f):
        CHECKS[pid] = f
        return f
    return deco


CLI_PIDS = ("C01", "C02", "C05", "C06", "C07", "C08", "C09", "C14", "C15", "C16", "C17", "C20")


def cli_lines(rng, lines, k):
    """op lines the command-line layer can answer (tools/cli.py), sampled"""
    out = []
    for l in lines:
        tk = l.split()
        mods = [t for t in tk if t.startswith("@")]
        if any(not m.startswith("@want=") for m in mods):
            continue
        tk = [t for t in tk if not t.startswith("@")]
        if not tk:
            continue
        op = tk[0]
        if op in ("tu", "regular"):
            mask = int(tk[1])
            if (mask >> 5) & 15 or ((mask >> 13) & 7) > 4: continue          # stop flags / invalid strategy: no such options
            if not (mask >> 9) & 1 or not (mask >> 11) & 1: continue         # --no-series-parallel / --no-direct-graphic abort (known findings D7, D7b)
            if op == "tu" and not (mask >> 2) & 1: continue                  # binary mode is not available on the command line
            if (mask >> 19) & 1: l = l.replace(" %d " % mask, " %d " % (mask & ~(1 << 19)), 1)
            if op == "regular" and (mask >> 18) & 1: l = l.replace(" %d " % (mask & ~(1 << 19)), " %d " % (mask & ~(3 << 18)), 1)
            out.append(l)
        elif op in ("graphic", "network"):
            if tk[2] == "0" or tk[2] == "1":
                out.append(" ".join(mods + [op, tk[1], "0", "0"] + tk[4:]))
        elif op == "sp" and tk[2] == "test" and tk[4] == "-1":
            out.append(" ".join(mods + ["sp", tk[1], "test", str(int(tk[3]) & 15 | 1), "-1"] + tk[5:]))
        elif op == "camionx":
            out.append(" ".join(["camion", "test", tk[1]] + tk[2:]))
        elif op == "balanced" and tk[1] in ("0", "1"):
            out.append(l)
        elif op == "ctu":
            out.append(l)
        elif op == "equimod" and tk[2] == "0":
            out.append(l)
        elif op == "mat" and tk[1] in ("transpose", "support", "ssupport", "copy") and tk[2] in ("c", "i"):
            out.append(l)
        elif op == "repmat" and len(tk) < 400:
            out.append(l)
    if len(out) > k:
        out = rng.sample(out, k)
    return out


def run_check(pid, tier, seed):
    if pid not in CHECKS:
        print("no check registered for", pid)
        return 2
    run = O.Run(pid, tier, seed)
    O.log("== %s tier=%s seed=%d" % (pid, tier, seed))
    proof = O.audit_proofs(pid)
    if pid in O.KERNEL_PIDS:
        proof = O.audit_kernels(proof)
    O.log("  proofs: %d/%d theorems discharged, axioms %s%s" % (proof["discharged"], proof["obligations"], proof["axioms"],
          "" if proof["ok"] else "  PROBLEMS: " + "; ".join(proof["problems"])[:600]))
    if tier == "thorough" and proof["ok"]:
        ok, out = O.leanchecker(pid)
        run.notes["leanchecker"] = ("ok: " + out) if ok else out
        if not ok:
            proof["ok"] = False
            proof["problems"].append("leanchecker: " + out)
    try:
        info = CHECKS[pid](run)
        if pid in CLI_PIDS:
            cl = cli_lines(run.rng, run.all_lines, 400 if tier == "quick" else 4000)
            run.cli_batch("command-line-tools", cl, "asan")
            info["rule"] += (" Command-line layer: a sample of the same op lines is answered by the cmr-* tools built from the working tree "
                             "(option parsing, dense and sparse file readers, output files) and judged by the same model functions.")
    except cmrbuild.BuildError as e:
        d = os.path.join(O.OUT, "replays", pid)
        os.makedirs(d, exist_ok=True)
        p = os.path.join(d, "harness-build.txt")
        open(p, "w").write("# the correspondence harness no longer builds against /repo's working tree\n" + str(e)[-4000:])
        print("VIOLATION property=%s replay=%s no-failing-input-found" % (pid, p))
        return 1
    return O.finish(run, proof, info.get("note", ""), info["rule"], info.get("extra"), info.get("assumptions"))


# ------------------------------------------------------------------------------------------------------------------
# C15 complement / CTU
# ------------------------------------------------------------------------------------------------------------------

@check("C15")
def c15(run):
    quick = run.tier == "quick"
    maxm, maxn = (3, 4) if quick else (4, 4)
    comp, ctu = [], []
    for (m, n) in shapes(maxm, maxn):
        for e in all_mats(m, n, (0, 1)):
            mt = mat_tokens(m, n, e)
            for r in list(range(m)) + [-1]:
                for c in list(range(n)) + [-1]:
                    comp.append("complement %s %d %d" % (mt, r, c))
            ctu.append("ctu %d %s" % (DEFAULT_MASK, mt))
    run.batch("complement-exhaustive", comp, "plain")
    run.batch("ctu-exhaustive", ctu, "plain")
    # sanitizer flavour on a sample + larger random
    rng = run.rng
    sample = rng.sample(comp, min(len(comp), 4000)) + rng.sample(ctu, min(len(ctu), 800))
    for _ in range(300 if quick else 3000):
        m, n = rng.randint(1, 7), rng.randint(1, 7)
        e = rand_mat(rng, m, n, (1,), rng.choice((0.3, 0.5, 0.8)))
        mt = mat_tokens(m, n, e)
        sample.append("complement %s %d %d" % (mt, rng.randint(-1, m - 1), rng.randint(-1, n - 1)))
        if m <= 5 and n <= 5:
            sample.append("ctu %d %s" % (rng.choice(option_masks(rng, "quick")[:15]), mt))
    run.batch("asan-sample", sample, "asan")
    # wide and tall shapes: the loops over complemented rows / columns have different bounds only there
    wide = []
    for _ in range(15000 if quick else 200000):
        a, b = rng.choice((1, 2, 3, 3, 3)), rng.randint(5, 9)
        m, n = (a, b) if rng.random() < 0.6 else (b, a)
        e = rand_mat(rng, m, n, (1,), rng.choice((0.3, 0.5, 0.7)))
        wide.append("ctu %d %s" % (DEFAULT_MASK, mat_tokens(m, n, e)))
    run.batch("ctu-wide-and-tall", wide, "plain")
    # structured: representations of R10 (complement-TU, and the only way to reach the R10 leaf of the decomposition), their row-xor
    # images and one-line extensions; called with explicit parameters, with the library's own defaults (bit 23) and with params = NULL (bit 24)
    struct = []
    for _ in range(240 if quick else 4000):
        M = [r[:] for r in rng.choice((R10_B, [[abs(v) for v in r] for r in R10_TU]))]
        for _ in range(rng.choice((0, 0, 1, 2))):
            r = rng.randrange(len(M))
            M = [[(v ^ M[r][j]) if i != r else v for j, v in enumerate(row)] for i, row in enumerate(M)]
        if rng.random() < 0.3:
            M.append(rng.choice(M)[:] if rng.random() < 0.5 else [int(j == rng.randrange(5)) for j in range(len(M[0]))])
        if rng.random() < 0.3:
            k = rng.randrange(len(M[0]))
            M = [row + [row[k] if rng.random() < 0.8 else 1 - row[k]] for row in M]
        pr = list(range(len(M))); pc = list(range(len(M[0]))); rng.shuffle(pr); rng.shuffle(pc)
        M = [[M[i][j] for j in pc] for i in pr]
        mask = DEFAULT_MASK | rng.choice((0, 1 << 23, 1 << 24))
        struct.append("ctu %d %s" % (mask, mat_tokens(len(M), len(M[0]), [v for row in M for v in row])))
    run.batch("ctu-structured-default-parameters", struct, "plain")
    return dict(rule="structured: representations of R10, row-xor images and one-line extensions with explicit parameters, the library's default parameters and params=NULL; wide/tall 1-3 x 5-8 matrices for the CTU test; exhaustive: every 0/1 matrix with <=%d rows and <=%d columns (incl. 0 rows/columns) x every (row,column) "
                "choice incl. 'none' for the complement op; every such matrix for the CTU test; plus seeded random up to 7x7 under "
                "ASan/UBSan. An op is non-trivial and distinct when the judge accepted it (exact equality with the model / verdict "
                "equal to the definition and witness validated) and its op line is new." % (maxm, maxn),
                extra={"exhaustive": True, "domain": "B(<=%d,<=%d) x all (r,c)" % (maxm, maxn)})


# ------------------------------------------------------------------------------------------------------------------
# C13 pivots
# ------------------------------------------------------------------------------------------------------------------

@check("C13")
def c13(run):
    quick = run.tier == "quick"
    rng = run.rng
    lines = []
    # all pivot positions (zero and nonzero, plus one out-of-range) of B(<=3,<=3)/T(<=2,<=3) quick; larger thorough
    bshapes = shapes(3, 3, 1, 1) if quick else shapes(4, 4, 1, 1)
    tshapes = shapes(2, 3, 1, 1) + [(3, 2)] if quick else shapes(3, 3, 1, 1) + [(2, 4), (4, 2)]
    for (m, n) in bshapes:
        for e in all_mats(m, n, (0, 1)):
            mt = mat_tokens(m, n, e)
            for r in range(m):
                for c in range(n):
                    lines.append("pivot 2 1 %s 1 %d %d" % (mt, r, c))
    for (m, n) in tshapes:
        for e in all_mats(m, n, (-1, 0, 1)):
            mt = mat_tokens(m, n, e)
            for r in range(m):
                for c in range(n):
                    lines.append("pivot 3 1 %s 1 %d %d" % (mt, r, c))
                    lines.append("pivot R 1 %s 1 %d %d" % (mt, r, c))
    run.batch("single-exhaustive", lines, "plain")
    # sequences with pairwise distinct lines on T(3,3) sample and random bigger
    seqs = []
    nseq = 4000 if quick else 60000
    for _ in range(nseq):
        m, n = rng.choice([(3, 3), (3, 4), (4, 3), (4, 4), (5, 5)])
        kind = rng.choice("23R")
        vals = (1,) if kind == "2" else (1, -1)
        e = rand_mat(rng, m, n, vals, rng.choice((0.5, 0.7, 0.9)))
        k = rng.randint(0, min(m, n, 3))
        rs = rng.sample(range(m), k); cs = rng.sample(range(n), k)
        seqs.append("pivot %s 0 %s %d %s" % (kind, mat_tokens(m, n, e), k, " ".join("%d %d" % p for p in zip(rs, cs))))
    for _ in range(200 if quick else 2000):
        m, n = rng.randint(8, 30), rng.randint(8, 30)
        kind = rng.choice("23")
        e = rand_mat(rng, m, n, (1,) if kind == "2" else (1, -1), rng.choice((0.1, 0.3)))
        k = rng.randint(1, 6)
        rs = rng.sample(range(m), k); cs = rng.sample(range(n), k)
        seqs.append("pivot %s 0 %s %d %s" % (kind, mat_tokens(m, n, e), k, " ".join("%d %d" % p for p in zip(rs, cs))))
    run.batch("sequences", seqs, "asan")
    return dict(rule="exhaustive: every (zero and nonzero) pivot position of every 0/1 matrix of the listed shapes (binary pivot) and of "
                "every {-1,0,1} matrix (ternary and regular pivot), compared entry for entry with the model; seeded sequences of <=3 "
                "pivots with distinct lines on 3x3..5x5 and up to 6 pivots on up to 30x30 matrices. Non-trivial = accepted by the judge; "
                "distinct by op line.",
                extra={"exhaustive": True, "domain": "binary shapes %s, ternary shapes %s" % (bshapes, tshapes)})


# ------------------------------------------------------------------------------------------------------------------
# C01 TU verdict / C07 violators
# ------------------------------------------------------------------------------------------------------------------

def tu_domains(run, want_sub, masks_fn):
    quick = run.tier == "quick"
    rng = run.rng
    lines = []
    tsh = [s for s in shapes(3, 3)] + [(2, 4), (4, 2)] if quick else shapes(3, 4) + [(4, 3), (4, 2)]
    bsh = [(4, 4), (3, 4), (4, 3)] if quick else [(4, 4), (4, 5), (5, 4), (3, 5), (5, 3)]
    algs = [0, 1, 2]
    for (m, n) in tsh:
        for e in all_mats(m, n, (-1, 0, 1)):
            mt = mat_tokens(m, n, e)
            for a in algs:
                lines.append("tu %d %s" % ((DEFAULT_MASK & ~3) | a | want_sub, mt))
    for (m, n) in bsh:
        for e in all_mats(m, n, (0, 1)):
            a = rng.choice(algs)
            lines.append("tu %d %s" % ((DEFAULT_MASK & ~3) | a | want_sub, mat_tokens(m, n, e)))
    return lines


def wide_tu_ops(rng, count, extra_mask):
    """wide / tall ternary matrices: few lines one way, many the other (the greedy hereditary search works on chunks of lines);
    network matrices with 0-2 corrupted entries and sparse random matrices, both orientations, greedy and naive search"""
    ops = []
    while len(ops) < count:
        small, big = rng.randint(2, 5), rng.randint(10, 48)
        if rng.random() < 0.6:
            nn = small + 1
            ne = small + big
            edges = rand_multigraph(rng, nn, ne, loops=False)
            forest = spanning_forest(rng, nn, edges)
            if len(forest) != small:
                continue
            fs = set(forest)
            cof = [i for i in range(ne) if i not in fs]
            rev = [rng.random() < 0.5 for _ in range(ne)]
            e = list(cycle_matrix(nn, edges, forest, cof, signed=True, rev=rev))
            m, n = small, len(cof)
            for _ in range(rng.choice((0, 1, 1, 2))):
                k = rng.randrange(m * n)
                e[k] = rng.choice([v for v in (-1, 0, 1) if v != e[k]])
        else:
            m, n = small, big
            e = list(rand_mat(rng, m, n, (1, -1), rng.choice((0.15, 0.3, 0.5))))
        if rng.random() < 0.5:
            e = [e[i * n + j] for j in range(n) for i in range(m)]
            m, n = n, m
        mask = (DEFAULT_MASK & ~3) | extra_mask
        if rng.random() < 0.3: mask |= B_NAIVE
        if rng.random() < 0.2: mask = (mask & ~3) | rng.choice((1, 2)) if min(m, n) <= 4 and max(m, n) <= 16 else mask
        ops.append("tu %d %s" % (mask, mat_tokens(m, n, e)))
    return ops



@check("C01")
def c01(run):
    quick = run.tier == "quick"
    rng = run.rng
    lines = tu_domains(run, 0, None)
    run.batch("exhaustive-small", lines, "plain")
    # option product on seeded matrices 4x4..7x7, entries beyond ternary, degenerate shapes
    opts = []
    masks = option_masks(rng, run.tier, algos=(0, 1, 2))
    nm = 150 if quick else 2500
    for _ in range(nm):
        m, n = rng.randint(3, 7), rng.randint(3, 7)
        e = rand_mat(rng, m, n, (1, -1), rng.choice((0.3, 0.5, 0.7)))
        if rng.random() < 0.5:
            e = [abs(x) for x in e]
        mt = mat_tokens(m, n, e)
        for mk in ([DEFAULT_MASK] + rng.sample(masks, 6 if quick else 12)):
            opts.append("tu %d %s" % (mk, mt))
    for _ in range(200 if quick else 2000):
        m, n = rng.randint(0, 4), rng.randint(0, 4)
        e = rand_mat(rng, m, n, (-3, -2, -1, 1, 2, 3), 0.6)
        opts.append("tu %d %s" % (rng.choice(masks), mat_tokens(m, n, e)))
    run.batch("option-product", opts, "asan")
    run.batch("wide-and-tall", wide_tu_ops(rng, 400 if quick else 6000, 0), "plain")
    run.batch("structured", structured_ops(rng, 1500 if quick else 20000, kinds=("tu", "tuall", "tusigned")), "plain")
    run.batch("not-tu-by-construction", irregular_constructed_ops(rng, 10000 if quick else 150000, kinds=("tu",)), "plain")
    return dict(rule="structured: representations (pivots, scalings, permutations, parallel/unit extensions) of R10 and R12 and their "
                "one-entry corruptions, delta-sums of graphic and cographic pieces Camion-signed by the library (TU by construction: "
                "Seymour + Camion; verdicts must also agree across all five decomposition strategies and, up to 10x10, with the eulerian "
                "and partition algorithms); wide/tall 2-5 x 10-48 network matrices with corrupted entries and sparse random matrices (oracle still exact); "
                "exhaustive: all {-1,0,1} matrices of shapes <=3x3, 2x4, 4x2 (thorough: <=3x4, 4x3) under all three algorithms and "
                "all 0/1 matrices 4x4, 3x4, 4x3 (thorough: up to 4x5/5x4) under a seeded algorithm; seeded 3x3..7x7 matrices under "
                "default + single-flag deviations + random option masks; matrices with entries in {-3..3} and empty shapes. "
                "Non-trivial = verdict compared with the brute-force definition (judge said ok); distinct by op line.",
                extra={"exhaustive": True})


@check("C07")
def c07(run):
    quick = run.tier == "quick"
    rng = run.rng
    lines = tu_domains(run, WANT_SUB, None)
    # both searches
    lines += [l.replace("tu %d " % ((DEFAULT_MASK & ~3) | WANT_SUB), "tu %d " % ((DEFAULT_MASK & ~3) | WANT_SUB | B_NAIVE), 1)
              for l in lines if l.startswith("tu %d " % ((DEFAULT_MASK & ~3) | WANT_SUB))]
    if quick:
        lines = rng.sample(lines, min(len(lines), 120000))
    run.batch("exhaustive-small", lines, "plain")
    opts = []
    masks = option_masks(rng, run.tier, algos=(0, 1, 2))
    for _ in range(200 if quick else 3000):
        m, n = rng.randint(3, 7), rng.randint(3, 7)
        e = rand_mat(rng, m, n, (1, -1), rng.choice((0.4, 0.6, 0.8)))
        mt = mat_tokens(m, n, e)
        for mk in rng.sample(masks, 4):
            opts.append("tu %d %s" % (mk | WANT_SUB, mt))
    for _ in range(200 if quick else 2000):
        m, n = rng.randint(1, 4), rng.randint(1, 4)
        e = rand_mat(rng, m, n, (-3, -2, -1, 1, 2, 3), 0.6)
        opts.append("tu %d %s" % (rng.choice(masks) | WANT_SUB, mat_tokens(m, n, e)))
    run.batch("option-product", opts, "asan")
    run.batch("wide-and-tall", wide_tu_ops(rng, 400 if quick else 6000, WANT_SUB), "asan")
    run.batch("structured", structured_ops(rng, 600 if quick else 8000, kinds=("tu",), want_bits=WANT_SUB), "plain")
    return dict(rule="the C01 domains with a violating submatrix requested, greedy and naive search, all three algorithms; wide and tall "
                "matrices (2-5 lines by 10-48, network matrices with corrupted entries and sparse random ones: the chunked greedy deletion "
                "filter only gets going on many lines); non-trivial = "
                "a 'no' answer whose returned submatrix the judge validated (in range, square, no repetition, |det|>=2; for ternary "
                "input det=+-2 and all one-line deletions TU; for other input a single offending entry).",
                extra={"exhaustive": True})


# ------------------------------------------------------------------------------------------------------------------
# C02 regular
# ------------------------------------------------------------------------------------------------------------------

@check("C02")
def c02(run):
    quick = run.tier == "quick"
    rng = run.rng
    lines = []
    sh = shapes(4, 4) if quick else shapes(4, 5) + [(5, 4), (5, 3), (5, 2), (5, 1), (5, 0)]
    for (m, n) in sh:
        for e in all_mats(m, n, (0, 1)):
            lines.append("regular %d %s" % (DEFAULT_MASK, mat_tokens(m, n, e)))
    run.batch("exhaustive-small", lines, "plain")
    opts = []
    masks = option_masks(rng, run.tier)
    seen = set()
    for _ in range(400 if quick else 6000):
        m, n = rng.choice([(5, 5), (5, 5), (5, 6), (6, 5), (4, 6), (6, 4), (6, 6)])
        e = rand_mat(rng, m, n, (1,), rng.choice((0.4, 0.55, 0.7)))
        key = canon_rowcol(m, n, e)
        if key in seen:
            continue
        seen.add(key)
        mt = mat_tokens(m, n, e)
        for mk in [DEFAULT_MASK] + rng.sample(masks, 3 if quick else 8):
            opts.append("regular %d %s" % (mk, mt))
    for _ in range(100 if quick else 1000):
        m, n = rng.randint(1, 4), rng.randint(1, 4)
        e = rand_mat(rng, m, n, (-1, 1, 2), 0.6)
        opts.append("regular %d %s" % (DEFAULT_MASK, mat_tokens(m, n, e)))
    run.batch("option-product", opts, "asan")
    run.batch("structured", structured_ops(rng, 1500 if quick else 20000, kinds=("regular", "tusigned")), "plain")
    run.batch("regular-by-construction", regular_constructed_ops(rng, 60000 if quick else 600000), "plain")
    run.batch("irregular-by-construction", irregular_constructed_ops(rng, 8000 if quick else 150000, kinds=("regular",)), "plain")
    return dict(rule="structured: representations of R10/R12 supports and delta-sums of graphic and cographic pieces (regular by Seymour's "
                "theorem, neither graphic nor cographic in general, beyond the oracle's size: verdict by construction, and equal to the TU "
                "verdict of the library's Camion signing); exhaustive: all 0/1 matrices up to 4x4 (thorough: up to 4x5/5x4) with default parameters; seeded 5x5..6x6 0/1 matrices "
                "(deduplicated up to line permutation) under default + random option masks; non-binary inputs. Non-trivial = verdict "
                "compared with the signing-search oracle; distinct by op line.", extra={"exhaustive": True})


# ------------------------------------------------------------------------------------------------------------------
# C11 — stack discipline, no crash (generic checks ride on every op)
# ------------------------------------------------------------------------------------------------------------------

def mixed_ops(rng, count, maxdim=6):
    """a seeded mix of all op families on small inputs (used by C11/C19)"""
    out = []
    masks = option_masks(rng, "quick", algos=(0, 1, 2))
    for _ in range(count):
        m, n = rng.randint(0, maxdim), rng.randint(0, maxdim)
        tern = rand_mat(rng, m, n, (1, -1), rng.choice((0.3, 0.6)))
        binm = [abs(x) for x in tern]
        k = rng.randrange(8)
        if k == 0:
            out.append("tu %d %s" % (rng.choice(masks) | (WANT_SUB if rng.random() < .5 else 0), mat_tokens(m, n, tern)))
        elif k == 1:
            out.append("regular %d %s" % (rng.choice(masks), mat_tokens(m, n, binm)))
        elif k == 2:
            out.append("complement %s %d %d" % (mat_tokens(m, n, binm), rng.randint(-1, m - 1), rng.randint(-1, n - 1)))
        elif k == 3 and m and n:
            out.append("pivot %s 1 %s 1 %d %d" % (rng.choice("23R"), mat_tokens(m, n, tern), rng.randrange(m), rng.randrange(n)))
        elif k == 4:
            out.append("mat %s c %s" % (rng.choice(["transpose", "copy", "support", "ssupport", "toint"]), mat_tokens(m, n, tern)))
        elif k == 5 and m <= 4 and n <= 4:
            out.append("ctu %d %s" % (DEFAULT_MASK, mat_tokens(m, n, binm)))
        else:
            sizes = [rng.choice([1, 4, 8, 13, 40, 100, 1000, 4000, 5000, 20000]) for _ in range(rng.randint(1, 8))]
            ops, depth = [], 0
            for s in sizes:
                ops.append("a:%d" % s); depth += 1
                while depth and rng.random() < 0.4:
                    ops.append("f"); depth -= 1
            ops += ["f"] * depth
            out.append("stack " + " ".join(ops))
    return out


class CollectRun:
    """dry run of a check function: records the op lines it would send instead of executing them"""
    def __init__(self, pid, tier, seed):
        import random, hashlib
        self.pid, self.tier, self.seed = pid, tier, seed
        self.rng = random.Random((seed * 1000003) ^ int(hashlib.sha256(("collect" + pid).encode()).hexdigest()[:8], 16))
        self.lines = []
        self.notes = {}
        self.ignore_tags = None

    def batch(self, name, lines, flavour="asan", args=(), **kw):
        if flavour not in ("hash",) and not args:       # batches that need special harness arguments stay with their own check
            self.lines += [l for l in lines if not l.startswith("@") and len(l) < 30000]     # very large instances stay with their own check (watchdog)
        return []


def all_family_ops(rng, seed, per_family, exclude=("C11", "C18", "C19")):
    """a sample of the op lines of every other property's generators (so that the cross-cutting checks follow them automatically)"""
    out = []
    fam = {}
    for pid in sorted(CHECKS):
        if pid in exclude:
            continue
        cr = CollectRun(pid, "quick", seed)
        try:
            CHECKS[pid](cr)
        except Exception as e:      # a generator that needs results of its own batches
            pass
        lines = cr.lines
        fam[pid] = len(lines)
        if len(lines) > per_family:
            lines = rng.sample(lines, per_family)
        out += lines
    rng.shuffle(out)
    return out, fam


@check("C11")
def c11(run):
    quick = run.tier == "quick"
    rng = run.rng
    st = []
    # allocator model fidelity: all alloc/free words of length <= 6 over a size alphabet, plus random deep ones
    alphabet = [1, 4, 8, 13, 100, 4072, 4084, 4085, 5000, 9000]
    for _ in range(3000 if quick else 40000):
        ops, depth = [], 0
        for _ in range(rng.randint(1, 24)):
            if depth and rng.random() < 0.45:
                ops.append("f"); depth -= 1
            else:
                ops.append("a:%d" % rng.choice(alphabet + [rng.randint(1, 70000)])); depth += 1
        ops += ["f"] * depth
        st.append("stack " + " ".join(ops))
    run.batch("allocator-fidelity-assert", st, "plain")
    run.batch("allocator-fidelity-ndebug", st[: len(st) // 2], "ndebug")
    mix = mixed_ops(rng, 4000 if quick else 60000)
    run.batch("mixed-ops-asan", mix, "asan")
    fam, counts = all_family_ops(rng, run.seed, 1200 if quick else 12000)
    run.notes["family_ops_available"] = counts
    run.batch("all-families-asan", fam, "asan")
    run.batch("all-families-ndebug-asan", rng.sample(fam, len(fam) // 4), "asan_nd")
    return dict(rule="allocator: seeded well-bracketed alloc/free words (sizes around the 4096*2^k stack boundaries) replayed on the real "
                "allocator of the assert and NDEBUG builds, usage and address alignment compared with the Lean model after every step; "
                "a seeded sample of the op lines of every other property's generators (collected by dry-running their check functions, so "
                "new generators are followed automatically) under ASan+UBSan+LSan with red zones around scratch chunks, in the assert and "
                "the NDEBUG build: crash, failed assertion, sanitizer "
                "report, leak, unbalanced or out-of-order scratch stack are failures. Non-trivial = judged ok; distinct by op line.",
                assumptions=["memory safety is observed by sanitizers on the explored inputs, not proved; only the allocator discipline is a theorem"])


# ------------------------------------------------------------------------------------------------------------------
# C05 graphic / C06 network / C14 representation matrices
# ------------------------------------------------------------------------------------------------------------------

def graph_instances(rng, count, maxe, signed):
    """(m, n, entries) of fundamental-cycle matrices of random multigraphs under random line orders, with zero/unit/duplicate
    lines arising naturally from loops, bridges-in-cycle-free parts and parallel edges"""
    out = []
    for _ in range(count):
        nn = rng.randint(1, max(2, maxe // 2))
        ne = rng.randint(0, maxe)
        edges = rand_multigraph(rng, nn, ne)
        forest = spanning_forest(rng, nn, edges)
        coforest = [i for i in range(ne) if i not in set(forest)]
        rng.shuffle(forest); rng.shuffle(coforest)
        rev = [rng.random() < 0.5 for _ in range(ne)] if signed else None
        e = cycle_matrix(nn, edges, forest, coforest, signed, rev)
        out.append((len(forest), len(coforest), e))
    return out


def glued_graph(rng, pieces):
    """graph obtained by gluing 3-connected graphs, cycles and bonds along edges (the glued edge is kept or dropped): its
    t-decomposition has several rigid, series and parallel members"""
    def piece():
        k = rng.random()
        if k < 0.55:
            return named_graph(rng)
        if k < 0.7:
            n = 4; return n, [(i, j) for i in range(n) for j in range(i + 1, n)]          # K4
        if k < 0.85:
            n = rng.randint(3, 6); return n, [(i, (i + 1) % n) for i in range(n)]           # cycle
        return 2, [(0, 1)] * rng.randint(2, 4)                                              # bond
    nn, edges = piece()
    edges = list(edges)
    for _ in range(pieces - 1):
        n2, e2 = piece()
        if not edges or not e2:
            continue
        a = rng.randrange(len(edges)); b = rng.randrange(len(e2))
        (u1, v1), (u2, v2) = edges[a], e2[b]
        if rng.random() < 0.5: u2, v2 = v2, u2
        ren = {}
        nxt = nn
        for v in range(n2):
            if v == u2: ren[v] = u1
            elif v == v2: ren[v] = v1
            else: ren[v] = nxt; nxt += 1
        nn = nxt
        new = [(ren[x], ren[y]) for i, (x, y) in enumerate(e2) if i != b]
        if rng.random() < 0.5:
            edges.pop(a)
        edges += new
    return nn, edges


def glued_cycle_matrix(rng, pieces, signed=False):
    while True:
        nn, edges = glued_graph(rng, pieces)
        if not edges:
            continue
        forest = spanning_forest(rng, nn, edges)
        fs = set(forest)
        cof = [i for i in range(len(edges)) if i not in fs]
        if not forest or not cof:
            continue
        rng.shuffle(forest); rng.shuffle(cof)
        rev = [rng.random() < 0.5 for _ in edges] if signed else None
        return len(forest), len(cof), list(cycle_matrix(nn, edges, forest, cof, signed, rev))


@check("C05")
def c05(run):
    quick = run.tier == "quick"
    rng = run.rng
    lines = []
    sh = shapes(4, 4) if quick else shapes(4, 5) + [(5, n) for n in range(0, 5)]
    for (m, n) in sh:
        for e in all_mats(m, n, (0, 1)):
            mt = mat_tokens(m, n, e)
            lines.append("graphic 0 1 0 %s" % mt)
            lines.append("graphic 1 1 0 %s" % mt)
    run.batch("exhaustive-small", lines, "plain")
    more = []
    for _ in range(2000 if quick else 30000):
        m, n = rng.choice([(5, 5), (5, 4), (4, 5), (5, 6), (5, 3), (3, 5)])
        e = rand_mat(rng, m, n, (1,), rng.choice((0.3, 0.5, 0.7)))
        tr = 1 if n <= 5 and (m > 5 or rng.random() < 0.5) else 0
        if tr == 0 and m > 5:
            continue
        more.append("graphic %d %d %d %s" % (tr, rng.randint(0, 1), rng.randint(0, 1), mat_tokens(m, n, e)))
    for (m, n, e) in graph_instances(rng, 400 if quick else 4000, 14, False):
        more.append("graphic 0 1 0 %s" % mat_tokens(m, n, e))
        more.append("graphic 1 1 0 %s" % mat_tokens(n, m, [e[i * n + j] for j in range(n) for i in range(m)]))
    for (m, n, e) in graph_instances(rng, 60 if quick else 1500, 120 if quick else 400, False):
        more.append("graphic 0 1 1 %s" % mat_tokens(m, n, e))
    for _ in range(100 if quick else 1000):
        m, n = rng.randint(1, 4), rng.randint(1, 4)
        more.append("graphic %d 1 1 %s" % (rng.randint(0, 1), mat_tokens(m, n, rand_mat(rng, m, n, (-1, 1, 2), 0.6))))
    run.batch("random+graph-instances", more, "asan")
    glued = []
    for _ in range(15000 if quick else 200000):
        m, n, e = glued_cycle_matrix(rng, rng.choice((1, 2, 2, 3, 4)))
        w = "@want=yes "            # graphic by construction: beyond the oracle's size a 'no' is still decided
        if rng.random() < 0.35:
            k = rng.randrange(m * n); e[k] = 1 - e[k]          # mostly no longer graphic; a 'yes' is decided by its certificate at any size
            w = ""
        if rng.random() < 0.5:
            glued.append("%sgraphic 0 1 0 %s" % (w, mat_tokens(m, n, e)))
        else:
            glued.append("%sgraphic 1 1 0 %s" % (w, mat_tokens(n, m, [e[i * n + j] for j in range(n) for i in range(m)])))
    for _ in range(20000 if quick else 200000):
        m, n = rng.choice([(5, 4), (5, 5), (4, 5), (5, 6)])
        e = rand_mat(rng, m, n, (1,), rng.choice((0.4, 0.5, 0.6)))
        glued.append("graphic %d 1 0 %s" % (0, mat_tokens(m, n, e)))
    run.batch("glued-3-connected-graphs", glued, "plain")
    return dict(rule="cycle matrices of graphs glued from K5, K6, K3,3, Petersen, Wagner, random cubic and dense graphs, K4s, cycles and bonds "
                "(several rigid members in the t-decomposition), a third with one corrupted entry; 5-row random matrices (oracle exact); "
                "exhaustive: every 0/1 matrix up to 4x4 (thorough 4x5 and 5x<=4) through CMRgraphicTestMatrix and CMRgraphicTestTranspose with "
                "the graph requested: every yes is decided by multiplying out the returned graph/forest/coforest (checkGraphCert), every no by "
                "the brute-force tree search (rows<=5); seeded 5-row matrices; fundamental-cycle matrices of random multigraphs (loops, "
                "parallel edges, several components, up to 120/400 edges) under random line orders; non-binary inputs. Non-trivial = judged "
                "ok with certificate or oracle; distinct by op line.", extra={"exhaustive": True})


@check("C06")
def c06(run):
    quick = run.tier == "quick"
    rng = run.rng
    lines = []
    sh = shapes(3, 3) if quick else shapes(3, 4) + [(4, 3), (4, 2), (4, 1)]
    for (m, n) in sh:
        for e in all_mats(m, n, (-1, 0, 1)):
            mt = mat_tokens(m, n, e)
            lines.append("network 0 1 1 %s" % mt)
            lines.append("network 1 1 1 %s" % mt)
            if m >= 2 and n >= 2:
                lines.append("network %d 0 2 %s" % (rng.randint(0, 1), mt))      # submatrix requested, optional support flag not
    run.batch("exhaustive-small", lines, "plain")
    more = []
    # all signings of 0/1 supports 4x4 (sampled supports), both entry points
    for _ in range(300 if quick else 5000):
        m, n = rng.choice([(4, 4), (4, 3), (3, 4), (4, 5), (5, 4), (5, 5)])
        s = rand_mat(rng, m, n, (1,), rng.choice((0.4, 0.6)))
        for _ in range(6):
            e = [x * rng.choice((1, -1)) for x in s]
            more.append("network %d 1 %d %s" % (rng.randint(0, 1), rng.choice((1, 1, 2)), mat_tokens(m, n, e)))
    for (m, n, e) in graph_instances(rng, 400 if quick else 5000, 14, True):
        more.append("network 0 1 1 %s" % mat_tokens(m, n, e))
        if m * n:
            # single sign corruption
            nz = [i for i, x in enumerate(e) if x]
            if nz:
                e2 = list(e); k = rng.choice(nz); e2[k] = -e2[k]
                more.append("network 0 1 1 %s" % mat_tokens(m, n, e2))
        more.append("network 1 1 1 %s" % mat_tokens(n, m, [e[i * n + j] for j in range(n) for i in range(m)]))
    for (m, n, e) in graph_instances(rng, 50 if quick else 1500, 100 if quick else 400, True):
        more.append("network 0 1 1 %s" % mat_tokens(m, n, e))
    for _ in range(100 if quick else 1000):
        m, n = rng.randint(1, 4), rng.randint(1, 4)
        more.append("network %d 1 1 %s" % (rng.randint(0, 1), mat_tokens(m, n, rand_mat(rng, m, n, (-2, 1, 2), 0.6))))
    run.batch("signings+digraph-instances", more, "asan")
    glued = []
    for _ in range(12000 if quick else 150000):
        m, n, e = glued_cycle_matrix(rng, rng.choice((1, 2, 2, 3, 4)), signed=True)
        x = rng.random()
        w = "@want=yes "
        if x < 0.25:
            nz = [k for k in range(m * n) if e[k]]
            if nz:
                k = rng.choice(nz); e[k] = -e[k]                  # a wrong sign: support still graphic
            w = ""
        elif x < 0.4:
            k = rng.randrange(m * n); e[k] = rng.choice([v for v in (-1, 0, 1) if v != e[k]])
            w = ""
        ws = rng.choice((0, 1, 2))           # 2: violating submatrix requested without the optional support flag
        if rng.random() < 0.5:
            glued.append("%snetwork 0 1 %d %s" % (w, ws, mat_tokens(m, n, e)))
        else:
            glued.append("%snetwork 1 1 %d %s" % (w, ws, mat_tokens(n, m, [e[i * n + j] for j in range(n) for i in range(m)])))
    run.batch("glued-3-connected-digraphs", glued, "plain")
    return dict(rule="network matrices of digraphs glued from 3-connected graphs, K4s, cycles and bonds with wrong signs / corrupted entries; "
                "exhaustive: every {-1,0,1} matrix up to 3x3 (thorough 3x4, 4x<=3) through CMRnetworkTestMatrix and CMRnetworkTestTranspose "
                "with digraph, reversal flags and violator requested: yes is decided by multiplying out the certificate including signs, no by "
                "the brute-force tree+orientation search and the violator by the same oracle, the support flag by the graphicness search; "
                "random signings of 0/1 supports, network matrices of random digraphs with random arc reversals and single sign "
                "corruptions, up to 100/400 arcs. Non-trivial = judged ok; distinct by op line.", extra={"exhaustive": True})


@check("C14")
def c14(run):
    quick = run.tier == "quick"
    rng = run.rng
    lines = []
    maxn, maxe = (3, 4) if quick else (4, 5)
    for nn in range(1, maxn + 1):
        pairs = [(u, v) for u in range(nn) for v in range(u, nn)]
        for ne in range(0, maxe + 1):
            for es in itertools.combinations_with_replacement(pairs, ne):
                for fmask in range(1 << ne):
                    F = [i for i in range(ne) if (fmask >> i) & 1]
                    K = [i for i in range(ne) if not (fmask >> i) & 1]
                    for directed in (0, 1):
                        revs = [0] * ne if not directed else [rng.randint(0, 1) for _ in range(ne)]
                        flips = [rng.randint(0, 1) if directed else 0 for _ in range(ne)]
                        el = " ".join("%d %d %d" % ((v, u, r) if f else (u, v, r)) for (u, v), r, f in zip(es, revs, flips))
                        Fs = list(F); Ks = list(K)
                        rng.shuffle(Fs); rng.shuffle(Ks)
                        lines.append(("repmat %d %d %d %d %s %d %s %d %s" % (directed, rng.choice((1, 2, 3, 3)), nn, ne, el, len(Fs),
                                      " ".join(map(str, Fs)), len(Ks), " ".join(map(str, Ks)))).replace("  ", " ").strip())
    if quick and len(lines) > 60000:
        lines = rng.sample(lines, 60000)
    run.batch("exhaustive-small-graphs", [" ".join(l.split()) for l in lines], "plain")
    more = []
    for _ in range(300 if quick else 5000):
        nn = rng.randint(1, 40); ne = rng.randint(0, 120 if quick else 300)
        edges = rand_multigraph(rng, nn, ne)
        F = spanning_forest(rng, nn, edges)
        if rng.random() < 0.3 and F:
            # break the forest: drop an edge or add a non-forest edge
            if rng.random() < 0.5 or len(F) == ne:
                F.pop(rng.randrange(len(F)))
            else:
                F.append(rng.choice([i for i in range(ne) if i not in set(F)]))
        K = [i for i in range(ne) if i not in set(F)]
        rng.shuffle(K)
        directed = rng.randint(0, 1)
        el = " ".join("%d %d %d" % (u, v, rng.randint(0, 1) if directed else 0) for (u, v) in edges)
        more.append(" ".join(("repmat %d 3 %d %d %s %d %s %d %s" % (directed, nn, ne, el, len(F), " ".join(map(str, F)), len(K),
                    " ".join(map(str, K)))).split()))
    run.batch("random-large", more, "asan")
    # round trip: constructed matrices are recognised and the returned graph reproduces them (judged by C05/C06 machinery)
    rt = []
    for (m, n, e) in graph_instances(rng, 300 if quick else 3000, 30, False):
        rt.append("graphic 0 1 0 %s" % mat_tokens(m, n, e))
    for (m, n, e) in graph_instances(rng, 300 if quick else 3000, 30, True):
        rt.append("network 0 1 0 %s" % mat_tokens(m, n, e))
    run.batch("roundtrip-recognition", rt, "asan")
    rt2 = []
    for _ in range(15000 if quick else 200000):
        signed = rng.random() < 0.5
        m, n, e = glued_cycle_matrix(rng, rng.choice((1, 2, 3)), signed)
        rt2.append("@want=yes %s 0 1 0 %s" % ("network" if signed else "graphic", mat_tokens(m, n, e)))
    run.batch("roundtrip-glued-graphs", rt2, "plain")
    return dict(rule="constructed matrices of graphs glued from 3-connected graphs, K4s, cycles and bonds must be recognised (and the returned "
                "graph reproduce them); exhaustive: every multigraph with <=%d nodes and <=%d edges (loops, parallel edges, isolated nodes, several components) x "
                "every edge subset offered as forest (forests, non-forests, partial) x both the graphic and the network constructor with "
                "seeded orientations/reversal flags and shuffled forest/coforest order; matrix, transpose and forest flag compared with the "
                "model; random graphs up to 120/300 edges with broken forests; constructed matrices sent through recognition and the "
                "returned graph multiplied out. Non-trivial = judged ok; distinct by op line." % (maxn, maxe), extra={"exhaustive": True})


# ------------------------------------------------------------------------------------------------------------------
# C08 series-parallel
# ------------------------------------------------------------------------------------------------------------------

def sp_grow(rng, steps, ternary):
    """SP matrix grown by random extension steps; returns (m, n, entries)"""
    rows = []   # list of lists
    n = 0
    for _ in range(steps):
        k = rng.randrange(6)
        isrow = rng.random() < 0.5
        if isrow:
            if k == 0 or n == 0:
                rows.append([0] * n)
            elif k <= 2:
                r = [0] * n; r[rng.randrange(n)] = rng.choice((1, -1)) if ternary else 1; rows.append(r)
            elif rows:
                s = rng.choice((1, -1)) if ternary else 1
                rows.append([s * x for x in rng.choice(rows)])
            else:
                rows.append([0] * n)
        else:
            m = len(rows)
            if k == 0 or m == 0:
                col = [0] * m
            elif k <= 2:
                col = [0] * m; col[rng.randrange(m)] = rng.choice((1, -1)) if ternary else 1
            elif n:
                j = rng.randrange(n); s = rng.choice((1, -1)) if ternary else 1
                col = [s * r[j] for r in rows]
            else:
                col = [0] * m
            for r, x in zip(rows, col):
                r.append(x)
            n += 1
    m = len(rows)
    # random line permutation
    rp = list(range(m)); cp = list(range(n)); rng.shuffle(rp); rng.shuffle(cp)
    e = [rows[i][j] for i in rp for j in cp]
    return m, n, e


@check("C08")
def c08(run):
    quick = run.tier == "quick"
    rng = run.rng
    lines = []
    outsets = [1, 3, 5, 7, 9, 11, 13, 15, 2, 6, 14, 8, 4, 0]
    tsh = shapes(3, 3) if quick else shapes(3, 4) + [(4, 3)]
    bsh = [(4, 4), (3, 4), (4, 3)] if quick else [(4, 4), (4, 5), (5, 4)]
    for (m, n) in tsh:
        for e in all_mats(m, n, (-1, 0, 1)):
            mt = mat_tokens(m, n, e)
            o = rng.choice(outsets)
            lines.append("sp ter test %d -1 %s" % (o, mt))
            lines.append("sp ter dec %d -1 %s" % (rng.choice(outsets) | rng.choice((0, 16)), mt))
            if any(x < 0 for x in e):
                continue
            lines.append("sp bin test %d -1 %s" % (rng.choice(outsets), mt))
    for (m, n) in bsh:
        for e in all_mats(m, n, (0, 1)):
            mt = mat_tokens(m, n, e)
            lines.append("sp bin %s %d -1 %s" % (rng.choice(("test", "dec")), rng.choice(outsets), mt))
    run.batch("exhaustive-small", lines, "plain")
    # every output subset on a sample; maxNumReductions; both flavours (normal hash range / forced collisions)
    sample = []
    for _ in range(600 if quick else 8000):
        m, n = rng.randint(2, 6), rng.randint(2, 6)
        tern = rng.random() < 0.5
        e = rand_mat(rng, m, n, (1, -1) if tern else (1,), rng.choice((0.3, 0.5, 0.7)))
        mt = mat_tokens(m, n, e)
        kind = "ter" if tern else "bin"
        for o in range(32):
            fn = "dec" if (o & 16) else rng.choice(("test", "dec"))
            mx = -1 if fn == "test" or rng.random() < 0.6 else rng.choice((0, 1, 2))
            sample.append("sp %s %s %d %d %s" % (kind, fn, o | (32 if rng.random() < .5 else 0), mx, mt))
    for _ in range(300 if quick else 4000):
        tern = rng.random() < 0.5
        m, n, e = sp_grow(rng, rng.randint(4, 40 if quick else 200), tern)
        if rng.random() < 0.5 and m >= 3 and n >= 3:
            # plant a wheel M_3 (cycle) on random positions
            rs = rng.sample(range(m), 3); cs = rng.sample(range(n), 3)
            for a in range(3):
                for b in range(3):
                    e[rs[a] * n + cs[b]] = 1 if (a == b or (a + 1) % 3 == b) else 0
        sample.append("sp %s %s %d -1 %s" % ("ter" if tern else "bin", rng.choice(("test", "dec")), rng.choice((15, 7, 31, 23, 1, 3)), mat_tokens(m, n, e)))
    run.batch("output-subsets+grown", sample, "asan")
    # irreducible matrices with 2-separations: [[A, a b^T],[0, D]] (or transposed / with the rank-1 block below) from dense blocks;
    # the wheel search has to recurse through rank-1 blocks
    twosep = []
    for _ in range(6000 if quick else 80000):
        tern = rng.random() < 0.4
        vals = (1, -1) if tern else (1,)
        m1, n1, m2, n2 = rng.randint(2, 4), rng.randint(2, 4), rng.randint(2, 4), rng.randint(2, 4)
        A = [[rng.choice(vals) if rng.random() < 0.75 else 0 for _ in range(n1)] for _ in range(m1)]
        D = [[rng.choice(vals) if rng.random() < 0.75 else 0 for _ in range(n2)] for _ in range(m2)]
        a = [rng.choice(vals) if rng.random() < 0.7 else 0 for _ in range(m1)]
        b = [rng.choice(vals) if rng.random() < 0.7 else 0 for _ in range(n2)]
        if not any(a): a[rng.randrange(m1)] = 1
        if not any(b): b[rng.randrange(n2)] = 1
        rows = [A[i] + [a[i] * b[j] for j in range(n2)] for i in range(m1)] + [[0] * n1 + D[i] for i in range(m2)]
        if rng.random() < 0.5:
            rows = [list(c) for c in zip(*rows)]
        m, n = len(rows), len(rows[0])
        rp = list(range(m)); cp = list(range(n))
        if rng.random() < 0.7: rng.shuffle(rp); rng.shuffle(cp)
        e = [rows[i][j] for i in rp for j in cp]
        fn = rng.choice(("test", "test", "dec"))
        o = rng.choice((9, 11, 13, 15, 8, 12)) | (16 if fn == "dec" and rng.random() < 0.5 else 0)
        twosep.append("sp %s %s %d -1 %s" % ("ter" if tern else "bin", fn, o, mat_tokens(m, n, e)))
    run.batch("two-separable-blocks", twosep, "plain")
    try:
        run.batch("forced-hash-collisions", sample[: len(sample) // 4] + rng.sample(lines, min(len(lines), 8000 if quick else 60000)), "hash",
                  args=("--op-timeout", "2"))
    except cmrbuild.BuildError as ex:
        raise
    return dict(rule="exhaustive: every {-1,0,1} matrix up to 3x3 (thorough 3x4/4x3) through CMRspTestTernary/CMRspDecomposeTernary (and the "
                "binary functions on the 0/1 ones), every 0/1 matrix 4x4/3x4/4x3 (thorough up to 4x5/5x4), with a seeded subset of optional "
                "outputs; every one of the 32 output subsets x maxNumReductions on seeded 2x2..6x6 matrices; SP matrices grown by random "
                "extension sequences (up to 40/200 lines) with and without a planted wheel; the same ops against a build whose hash range is "
                "forced to 7 (almost every pair collides). Judged: verdict = exhaustive reduction search (= greedy), every reported reduction "
                "valid in order, reduced submatrix = what they leave and irreducible, violator is M_2/M_3'/cycle, separation is a genuine "
                "2-separation of the reduced matrix, verdict written for every output subset. Non-trivial = judged ok; distinct by op line.",
                extra={"exhaustive": True})


# ------------------------------------------------------------------------------------------------------------------
# C09 Camion
# ------------------------------------------------------------------------------------------------------------------

@check("C09")
def c09(run):
    quick = run.tier == "quick"
    rng = run.rng
    lines = []
    sh = shapes(3, 3) + [(2, 4), (4, 2)] if quick else shapes(3, 4) + [(4, 3), (4, 2), (4, 1)]
    for (m, n) in sh:
        for e in all_mats(m, n, (-1, 0, 1)):
            lines.append("camionx 1 %s" % mat_tokens(m, n, e))
    run.batch("exhaustive-small", lines, "plain")
    more = []
    for _ in range(1500 if quick else 30000):
        m, n = rng.choice([(4, 4), (4, 5), (5, 4), (5, 5), (3, 6), (6, 3), (6, 6), (2, 6), (6, 2)])
        s = rand_mat(rng, m, n, (1,), rng.choice((0.35, 0.5, 0.7)))
        e = [x * rng.choice((1, -1)) for x in s]
        more.append("camionx %d %s" % (rng.randint(0, 1), mat_tokens(m, n, e)))
    for _ in range(200 if quick else 3000):
        # block structured, tall and wide
        m, n = rng.randint(5, 40), rng.randint(5, 40)
        e = [0] * (m * n)
        nb = rng.randint(1, 5)
        for i in range(m):
            b = rng.randrange(nb)
            for j in range(n):
                if j % nb == b and rng.random() < 0.5:
                    e[i * n + j] = rng.choice((1, -1))
        more.append("camionx 1 %s" % mat_tokens(m, n, e))
    for (m, n, e) in graph_instances(rng, 200 if quick else 3000, 40, True):
        e2 = [x * rng.choice((1, 1, 1, -1)) for x in e]
        more.append("camionx 1 %s" % mat_tokens(m, n, e2))
    run.batch("signings+blocks", more, "asan")
    return dict(rule="exhaustive: every {-1,0,1} matrix up to 3x3, 2x4, 4x2 (thorough up to 3x4/4x3) through test, sign, test-of-signed and "
                "sign-of-signed in one op; random signings of 4x4..6x6 supports, block-structured tall/wide matrices up to 40x40, network "
                "matrices with random sign corruptions. Judged: support and shape kept, output passes the test, signing idempotent, test = "
                "(signing leaves the matrix unchanged), TU => signed, regular support => signed output TU (oracles up to 6x6), violator square "
                "with two nonzeros per line and det +-2. Non-trivial = judged ok; distinct by op line.", extra={"exhaustive": True},
                assumptions=["Camion's theorem (regular support: TU iff Camion-signed) is tested against the oracles, not proved"])


# ------------------------------------------------------------------------------------------------------------------
# C17 balanced
# ------------------------------------------------------------------------------------------------------------------

@check("C17")
def c17(run):
    quick = run.tier == "quick"
    rng = run.rng
    lines = []
    sh = shapes(3, 3) + [(2, 4), (4, 2)] if quick else shapes(3, 4) + [(4, 3), (4, 2)]
    for (m, n) in sh:
        for e in all_mats(m, n, (-1, 0, 1)):
            mt = mat_tokens(m, n, e)
            lines.append("balanced %d %d %d 1 %s" % (rng.choice((0, 1, 0, 1, 3, 4)), rng.randint(0, 1), rng.randint(0, 1), mt))
    run.batch("exhaustive-small", lines, "plain")
    more = []
    for _ in range(2000 if quick else 40000):
        m, n = rng.randint(2, 7), rng.randint(2, 7)
        e = rand_mat(rng, m, n, (1, -1), rng.choice((0.3, 0.5)))
        mt = mat_tokens(m, n, e)
        sp = rng.randint(0, 1)
        alg = rng.choice((0, 1, 0, 1, 3, 4))      # 3: the library's default parameters untouched, 4: params = NULL
        more.append("balanced %d %d 0 %d %s" % (alg, sp, rng.randint(0, 1), mt))
        more.append("balanced %d %d 1 %d %s" % (alg, sp, rng.randint(0, 1), mt))
    for _ in range(300 if quick else 3000):
        m, n = rng.randint(1, 4), rng.randint(1, 4)
        e = rand_mat(rng, m, n, (-2, -1, 1, 2, 3), 0.6)
        for preset in (0, 1):
            more.append("balanced %d %d %d 1 %s" % (rng.choice((0, 1)), rng.randint(0, 1), preset, mat_tokens(m, n, e)))
    for _ in range(100 if quick else 1000):
        m, n = rng.randint(1, 5), rng.randint(1, 5)
        e = rand_mat(rng, m, n, (1, -1), 0.5)
        more.append("balanced 2 %d %d 1 %s" % (rng.randint(0, 1), rng.randint(0, 1), mat_tokens(m, n, e)))
    run.batch("random+presets+graph-alg", more, "asan")
    return dict(rule="exhaustive: every {-1,0,1} matrix up to 3x3, 2x4, 4x2 (thorough 3x4/4x3) with seeded algorithm (auto/submatrix), "
                "series-parallel preprocessing flag and preset of the verdict variable; seeded 2x2..7x7 matrices under both presets (an "
                "unwritten verdict shows as a dependence on the preset); integer matrices with entries outside {-1,0,1}; the graph algorithm "
                "(must give an error status). Judged against the definition (all square submatrices with two nonzeros per line), violator "
                "shape validated. Non-trivial = judged ok; distinct by op line.", extra={"exhaustive": True})


# ------------------------------------------------------------------------------------------------------------------
# C16 equimodular
# ------------------------------------------------------------------------------------------------------------------

@check("C16")
def c16(run):
    quick = run.tier == "quick"
    rng = run.rng
    lines = []
    doms = [((2, 2), (-2, -1, 0, 1, 2)), ((2, 3), (-1, 0, 1, 2)), ((3, 2), (-1, 0, 1, 2)), ((1, 3), (-2, -1, 0, 1, 2)), ((3, 1), (-2, -1, 0, 1, 2))]
    if not quick:
        doms += [((3, 3), (0, 1, 2)), ((2, 3), (-2, -1, 0, 1, 2)), ((3, 2), (-2, -1, 0, 1, 2))]
    for (m, n), vals in doms:
        for e in all_mats(m, n, vals):
            mt = mat_tokens(m, n, e)
            lines.append("equimod e 0 %s" % mt)
            lines.append("equimod %s %d %s" % (rng.choice(("es", "u", "us", "e")), rng.choice((0, 1, 2, 3)), mt))
    for (m, n) in [(0, 0), (0, 2), (2, 0), (1, 1)]:
        for fn in ("e", "es", "u", "us"):
            lines.append("equimod %s 0 %s" % (fn, mat_tokens(m, n, [0] * (m * n))))
    run.batch("exhaustive-small", lines, "plain")
    more = []
    for _ in range(3000 if quick else 50000):
        m, n = rng.randint(1, 4), rng.randint(1, 4)
        e = rand_mat(rng, m, n, (-3, -2, -1, 1, 1, 1, 2, 3, 4), rng.choice((0.5, 0.8)))
        more.append("equimod %s %d %s" % (rng.choice(("e", "e", "es", "u", "us")), rng.choice((0, 0, 1, 2, 4)), mat_tokens(m, n, e)))
    for _ in range(200 if quick else 2000):
        m, n = rng.randint(1, 4), rng.randint(1, 4)
        big = rng.choice((2 ** 15, 2 ** 16 + 1, 2 ** 30, 2 ** 31 - 1, 46341, 65536))
        e = [rng.choice((0, 1, -1, big, -big, big - 1)) for _ in range(m * n)]
        more.append("equimod %s 0 %s" % (rng.choice(("e", "es", "u")), mat_tokens(m, n, e)))
    run.batch("random+near-overflow", more, "asan")
    wide = []
    for _ in range(40000 if quick else 400000):
        m = rng.randint(2, 3); n = rng.randint(m + 1, 5)
        e = rand_mat(rng, m, n, (-3, -2, -2, -1, 1, 2, 2, 3), rng.choice((0.6, 0.8, 1.0)))
        wide.append("equimod %s 0 %s" % (rng.choice(("e", "e", "e", "u")), mat_tokens(m, n, e)))
    run.batch("wide-with-fractional-solutions", wide, "plain")
    return dict(rule="wide 2-3 x 3-5 matrices with entries up to 3 (determinant gcd > 1 and non-integral X frequent); exhaustive: every integer matrix with entries in {-2..2} of shape 2x2, 1x3, 3x1 and in {-1,0,1,2} of shape 2x3, 3x2 "
                "(thorough: more) through CMRequimodularTest with and without a requested k and through the strong / unimodular variants; "
                "degenerate shapes; seeded 1x1..4x4 matrices with entries up to 4 (k>1 frequent); entries near 2^15, 2^16, 2^31 (overflow "
                "boundary: the only admissible answers are the exact one or err:OVERFLOW). Judged against the exact-arithmetic model "
                "(rank, gcd of basis minors, Cramer solution, TU oracle) for every column basis. Non-trivial = judged ok; distinct by op line.",
                extra={"exhaustive": True})


# ------------------------------------------------------------------------------------------------------------------
# C20 well-formed matrices, text round trips, malformed text
# ------------------------------------------------------------------------------------------------------------------

def hexs(s):
    return s.encode().hex() if s else "-"


def text_streams(rng, count):
    """token-level streams for the dense/sparse/submatrix readers: valid, truncated, mutated"""
    out = []
    seps = [" ", "\n", "  ", "\t", " \n", "\r\n"]
    bad = ["abc", "1.5", "-", "x1", "300", "-129", "128", "2147483648", "-2147483649", "99999999999999999999", ".", "--1", "1.", "2.0"]
    for _ in range(count):
        fmt = rng.choice(("dense", "sparse", "submat"))
        ty = rng.choice("ci")
        m, n = rng.randint(0, 4), rng.randint(0, 4)
        if fmt == "dense":
            toks = [str(m), str(n)] + [str(rng.choice((0, 0, 1, -1, 2, -3, 127, -128))) for _ in range(m * n)]
        elif fmt == "sparse":
            cells = [(i, j) for i in range(m) for j in range(n)]
            rng.shuffle(cells)
            k = rng.randint(0, len(cells))
            toks = [str(m), str(n), str(k)]
            for (i, j) in cells[:k]:
                toks += [str(i + 1), str(j + 1), str(rng.choice((1, -1, 2, 5, 127, -128)))]
        else:
            r, c = rng.randint(0, m), rng.randint(0, n)
            toks = [str(m), str(n), str(r), str(c)] + [str(rng.randint(1, max(1, m))) for _ in range(r)] + [str(rng.randint(1, max(1, n))) for _ in range(c)]
            if m == 0: toks = [str(m), str(n), "0", str(c if n else 0)] + [str(rng.randint(1, max(1, n))) for _ in range(c if n else 0)]
        mut = rng.randrange(8)
        if mut == 1 and len(toks) > 1:
            toks = toks[:rng.randrange(len(toks))]                      # truncated
        elif mut == 2 and toks:
            toks[rng.randrange(len(toks))] = rng.choice(bad)            # bad token
        elif mut == 3 and fmt == "sparse" and len(toks) > 5:
            toks += toks[3:6]; toks[2] = str(int(toks[2]) + 1) if toks[2].isdigit() else toks[2]   # duplicate position
        elif mut == 4 and len(toks) > 3:
            i = rng.randrange(2, len(toks)); toks[i] = str(rng.choice((0, 5, 6, 100)))           # index out of range / zero
        elif mut == 5:
            toks += [rng.choice(["7", "abc"])]                                                    # trailing token
        s = rng.choice(["", " ", "\n"]) + "".join(t + rng.choice(seps) for t in toks)
        out.append("parse %s %s %s" % (fmt, ty, hexs(s)))
    return out


@check("C20")
def c20(run):
    quick = run.tier == "quick"
    rng = run.rng
    lines = []
    # (a) utilities on every small matrix: transpose, copy, support, signed support, conversions, slices, permutations
    for (m, n) in shapes(2, 3) + [(3, 2), (3, 3)] if quick else shapes(3, 3) + [(2, 4), (4, 2)]:
        for e in all_mats(m, n, (-1, 0, 2)):
            mt = mat_tokens(m, n, e)
            for what in ("transpose", "copy", "support", "ssupport", "toint"):
                lines.append("mat %s c %s" % (what, mt))
            lines.append("mat transpose i %s" % mt)
            lines.append("mat tochr i %s" % mt)
            lines.append("print dense c %s" % mt)
            lines.append("print sparse c %s" % mt)
            rs = [rng.randrange(m) for _ in range(rng.randint(0, m))] if m else []
            cs = [rng.randrange(n) for _ in range(rng.randint(0, n))] if n else []
            lines.append("mat slice c %s %d %d %s %s" % (mt, len(rs), len(cs), " ".join(map(str, sorted(set(rs)))), " ".join(map(str, sorted(set(cs))))) if False else
                         " ".join(("mat slice c %s %d %d %s %s" % (mt, len(set(rs)), len(set(cs)), " ".join(map(str, sorted(set(rs)))), " ".join(map(str, sorted(set(cs)))))).split()))
            pr = list(range(m)); pc = list(range(n)); rng.shuffle(pr); rng.shuffle(pc)
            if m and n:
                lines.append("mat permute c %s %d %d %s %s" % (mt, m, n, " ".join(map(str, pr)), " ".join(map(str, pc))))
                # one of the two permutations absent (NULL = identity)
                lines.append("mat permute c %s 0 %d %s" % (mt, n, " ".join(map(str, pc))))
                lines.append("mat permute c %s %d 0 %s" % (mt, m, " ".join(map(str, pr))))
    run.batch("utilities+roundtrip-small", lines, "plain")
    more = []
    for _ in range(1500 if quick else 20000):
        m, n = rng.randint(0, 12), rng.randint(0, 12)
        ty = rng.choice("ci")
        vals = (1, -1, 2, 100, -128, 127) if ty == "c" else (1, -1, 1000, 2147483647, -2147483648)
        e = rand_mat(rng, m, n, vals, rng.choice((0.1, 0.4, 0.9)))
        mt = mat_tokens(m, n, e)
        more.append("print %s %s %s" % (rng.choice(("dense", "sparse")), ty, mt))
        more.append("mat %s %s %s" % (rng.choice(("transpose", "copy", "support", "ssupport")), ty, mt))
        if ty == "i":
            more.append("mat tochr i %s" % mt)
        nr, nc = rng.randint(0, m), rng.randint(0, n)
        rs = sorted(rng.sample(range(m), nr)); cs = sorted(rng.sample(range(n), nc))
        more.append(" ".join(("printsub %d %d %d %d %s %s" % (m, n, nr, nc, " ".join(map(str, rs)), " ".join(map(str, cs)))).split()))
    # double matrices: values are multiples of 1/64 around the integers, tolerance a multiple of 1/64
    for _ in range(3000 if quick else 40000):
        m, n = rng.randint(0, 6), rng.randint(0, 6)
        eps = rng.choice((0, 1, 4, 8, 31, 32))
        def val():
            base = rng.choice((0, 0, 64, 64, -64, 128, -128, 64 * 127, 64 * 128, -64 * 129, 640))
            return base + rng.choice((0, 0, 0, 1, -1, eps, -eps, eps + 1, -eps - 1, 32, -32, 33))
        e = [val() if rng.random() < 0.6 else 0 for _ in range(m * n)]
        what = rng.choice(("transpose", "copy", "support", "ssupport", "ssupport", "tochr", "tochr", "isbinary", "isternary"))
        more.append("mat %s d %d %s" % (what, eps, mat_tokens(m, n, e)))
    # slice / permute of all three value types, each permutation present or NULL
    for _ in range(2000 if quick else 30000):
        m, n = rng.randint(1, 9), rng.randint(1, 9)
        ty = rng.choice("cid")
        if ty == "d":
            e = [rng.choice((64, -64, 128, 32, -96, 6400)) if rng.random() < 0.5 else 0 for _ in range(m * n)]
            head = "d 0"
        else:
            e = rand_mat(rng, m, n, (1, -1, 2, 100) if ty == "c" else (1, -1, 1000, -2147483648), rng.choice((0.2, 0.5, 0.9)))
            head = ty
        mt = mat_tokens(m, n, e)
        if rng.random() < 0.7:
            pr = list(range(m)); pc = list(range(n)); rng.shuffle(pr); rng.shuffle(pc)
            mode = rng.choice((0, 1, 2))
            if mode == 1: pr = []
            if mode == 2: pc = []
            more.append(" ".join(("mat permute %s %s %d %d %s %s" % (head, mt, len(pr), len(pc), " ".join(map(str, pr)), " ".join(map(str, pc)))).split()))
        else:
            rs = sorted(rng.sample(range(m), rng.randint(0, m))); cs = sorted(rng.sample(range(n), rng.randint(0, n)))
            more.append(" ".join(("mat slice %s %s %d %d %s %s" % (head, mt, len(rs), len(cs), " ".join(map(str, rs)), " ".join(map(str, cs)))).split()))
    more += text_streams(rng, 6000 if quick else 100000)
    run.batch("roundtrip+malformed-text", more, "asan")
    # every other producer of matrices the statement lists: pivots and pivot sequences (C13), k-sums (C12), complements (C15),
    # decomposition nodes (C03): a sample of those checks' own op lines; every matrix in their results is dumped as raw CSR and must be consistent
    prod = []
    fam = {}
    for pid, k in (("C13", 4000), ("C12", 2500), ("C15", 2500), ("C03", 600)):
        cr = CollectRun(pid, "quick", run.seed)
        try:
            CHECKS[pid](cr)
        except Exception:
            pass
        ls = [l for l in cr.lines if not l.startswith("ctu ")]
        fam[pid] = len(ls)
        k = k if quick else 8 * k
        prod += rng.sample(ls, k) if len(ls) > k else ls
    run.batch("other-producers", prod, "plain")
    # (c) all byte strings over a small alphabet up to length L for the chr dense and sparse readers
    alpha = "012 -\n.a"
    L = 4 if quick else 6
    bs = []
    for k in range(0, L + 1):
        for tup in itertools.product(alpha, repeat=k):
            s = "".join(tup)
            if re.search(r"[0-9.]-", s):
                continue      # "0-0": C's scanf splits numbers at a sign, the documented format is whitespace-delimited; not judged
            bs.append("parse dense c %s" % hexs(s))
            if k <= L - 1:
                bs.append("parse sparse c %s" % hexs(s))
    run.batch("all-byte-strings", bs, "plain")
    return dict(rule="(a) every matrix any op of this run returns is dumped as raw CSR arrays and checked with Csr.consistent; utilities "
                "(transpose, copy, support, signed support, conversions, slice, permute with either permutation NULL) on every {-1,0,2} matrix of the small shapes are compared "
                "exactly with the dense model; slice/permute of char, int and double matrices up to 9x9; a sample of the op lines of the pivot (single and "
                "sequences), k-sum, complement and decomposition checks (other-producers: every returned matrix must be consistent and equal to the model's); (b) dense/sparse/submatrix writers: the written bytes are parsed by the Lean format model and by "
                "the library itself, both must give the original object; (c) token-level streams (valid, truncated, bad token, duplicate "
                "position, out-of-range index, out-of-range value, trailing token) and every byte string over the alphabet '012 -\\n.a' up to "
                "length %d: the reader must answer err:INPUT exactly when the format model rejects the text, else the same matrix. "
                "Non-trivial = judged ok; distinct by op line." % L, extra={"exhaustive": True})


# ------------------------------------------------------------------------------------------------------------------
# C12 k-sums
# ------------------------------------------------------------------------------------------------------------------

def gf2_rank(rows):
    """rows: list of int bitmasks"""
    rows = list(rows); r = 0
    while rows:
        p = rows.pop()
        if p:
            r += 1
            lb = p & -p
            rows = [x ^ p if x & lb else x for x in rows]
    return r


def block_ranks(m, n, e, rf, cf):
    """GF(2) ranks of the off-diagonal blocks B (first rows x second cols) and C (second rows x first cols)"""
    B = []; C = []
    for i in range(m):
        b = 0
        for j in range(n):
            if e[i * n + j] and rf[i] != cf[j]:
                b |= 1 << j
        (B if rf[i] == 0 else C).append(b)
    return gf2_rank(B), gf2_rank(C)


def rand_sum_matrix(rng, kind, ternary):
    """matrix [[A, a b^T],[d c^T, D]] (or concentrated rank 2) with a known partition, lines shuffled"""
    vals = (1, -1) if ternary else (1,)
    m1, n1, m2, n2 = rng.randint(1, 3), rng.randint(1, 3), rng.randint(1, 3), rng.randint(1, 3)
    def rv(k, nz=True):
        v = [rng.choice(vals) if rng.random() < 0.7 else 0 for _ in range(k)]
        if nz and not any(v): v[rng.randrange(k)] = rng.choice(vals)
        return v
    A = [rv(n1, False) for _ in range(m1)]; D = [rv(n2, False) for _ in range(m2)]
    a, b, c, d = rv(m1), rv(n2), rv(n1), rv(m2)
    if kind == "2":
        if rng.random() < 0.5: a = [0] * m1
        else: d = [0] * m2
    B = [[a[i] * b[j] for j in range(n2)] for i in range(m1)]
    C = [[d[i] * c[j] for j in range(n1)] for i in range(m2)]
    if kind == "3":
        c2, d2 = rv(n1), rv(m2)
        C = [[d[i] * c[j] + d2[i] * c2[j] for j in range(n1)] for i in range(m2)]
        B = [[0] * n2 for _ in range(m1)]
    def red(x):
        if not ternary: return x % 2
        x %= 3
        return -1 if x == 2 else x
    rows = [[red(v) for v in A[i] + B[i]] for i in range(m1)] + [[red(v) for v in C[i] + D[i]] for i in range(m2)]
    m, n = m1 + m2, n1 + n2
    rp = list(range(m)); cp = list(range(n)); rng.shuffle(rp); rng.shuffle(cp)
    e = [rows[i][j] for i in rp for j in cp]
    rf = [0 if i < m1 else 1 for i in rp]; cf = [0 if j < n1 else 1 for j in cp]
    return m, n, e, rf, cf


@check("C12")
def c12(run):
    quick = run.tier == "quick"
    rng = run.rng
    lines = []
    # (a) every bipartition of sampled small matrices whose off-diagonal GF(2) ranks qualify
    count = 0
    target = 20000 if quick else 300000
    tries = 0
    while count < target and tries < 40 * target:
        tries += 1
        m, n = rng.choice([(2, 2), (2, 3), (3, 2), (3, 3), (3, 4), (4, 3), (4, 4)])
        ternary = rng.random() < 0.6
        e = rand_mat(rng, m, n, (1, -1) if ternary else (1,), rng.choice((0.5, 0.7, 0.9)))
        rf = [rng.randint(0, 1) for _ in range(m)]; cf = [rng.randint(0, 1) for _ in range(n)]
        s1 = rf.count(0) + cf.count(0); s2 = m + n - s1
        rb, rc = block_ranks(m, n, e, rf, cf)
        if rb + rc == 1 and s1 >= 2 and s2 >= 2:
            kinds = ["2"]
        elif rb == 1 and rc == 1 and s1 >= 3 and s2 >= 3:
            kinds = ["D", "Y"]
        elif sorted((rb, rc)) == [0, 2] and s1 >= 3 and s2 >= 3:
            kinds = ["3"]
        else:
            continue
        for k in kinds:
            lines.append("decomp %s %d %s %s %s" % (k, 3 if ternary else 2, mat_tokens(m, n, e), " ".join(map(str, rf)), " ".join(map(str, cf))))
            count += 1
    for _ in range(3000 if quick else 40000):
        kind = rng.choice(["2", "D", "Y", "3"])
        ternary = rng.random() < 0.6
        m, n, e, rf, cf = rand_sum_matrix(rng, "2" if kind == "2" else ("3" if kind == "3" else "D"), ternary)
        lines.append("decomp %s %d %s %s %s" % (kind, 3 if ternary else 2, mat_tokens(m, n, e), " ".join(map(str, rf)), " ".join(map(str, cf))))
    run.batch("decompose-recompose", lines, "plain")
    # (b) compositions with valid and invalid special lines
    comp = []
    for _ in range(15000 if quick else 200000):
        kind = rng.choice(["1", "2", "2", "D", "Y", "3"])
        ch = rng.choice((2, 3))
        vals = (1, -1) if ch == 3 else (1,)
        m1, n1, m2, n2 = rng.randint(1, 4), rng.randint(1, 4), rng.randint(1, 4), rng.randint(1, 4)
        e1 = rand_mat(rng, m1, n1, vals, 0.7); e2 = rand_mat(rng, m2, n2, vals, 0.7)
        if kind == "1":
            k = rng.randint(1, 3)
            ms = [(rng.randint(0, 3), rng.randint(0, 3)) for _ in range(k)]
            comp.append("compose 1 %d %d %s" % (ch, k, " ".join(mat_tokens(a, b, rand_mat(rng, a, b, vals, 0.6)) for a, b in ms)))
            continue
        def pick(lim, allow_bad=True):
            return rng.randrange(lim)   # indices outside the operands are a precondition violation, not a 'shape' question
        valid = rng.random() < 0.6
        if kind == "2":
            if rng.random() < 0.5: s = [pick(m1), -1, -1, pick(n2)]
            else: s = [-1, pick(n1), pick(m2), -1]
            if not valid and rng.random() < 0.3: s = [pick(m1), pick(n1), -1, -1]
        elif kind == "D":
            s = [pick(m1), pick(n1), pick(n1), pick(m2), pick(n2), pick(n2)]
            if valid and n1 >= 2 and n2 >= 2 and all(0 <= x for x in s) and s[0] < m1 and s[1] < n1 and s[2] < n1 and s[3] < m2 and s[4] < n2 and s[5] < n2 and s[1] != s[2] and s[4] != s[5]:
                eps = rng.choice(vals)
                for i in range(m1): e1[i * n1 + s[2]] = e1[i * n1 + s[1]]
                e1[s[0] * n1 + s[1]] = 0; e1[s[0] * n1 + s[2]] = eps
                for i in range(m2): e2[i * n2 + s[5]] = e2[i * n2 + s[4]]
                e2[s[3] * n2 + s[4]] = eps; e2[s[3] * n2 + s[5]] = 0
        elif kind == "Y":
            s = [pick(m1), pick(m1), pick(n1), pick(m2), pick(m2), pick(n2)]
            if valid and m1 >= 2 and m2 >= 2 and all(0 <= x for x in s) and s[0] < m1 and s[1] < m1 and s[2] < n1 and s[3] < m2 and s[4] < m2 and s[5] < n2 and s[0] != s[1] and s[3] != s[4]:
                eps = rng.choice(vals)
                for j in range(n1): e1[s[1] * n1 + j] = e1[s[0] * n1 + j]
                e1[s[0] * n1 + s[2]] = 0; e1[s[1] * n1 + s[2]] = eps
                for j in range(n2): e2[s[4] * n2 + j] = e2[s[3] * n2 + j]
                e2[s[3] * n2 + s[5]] = eps; e2[s[4] * n2 + s[5]] = 0
        else:
            s = [pick(m1), pick(m1), pick(n1), pick(n1), pick(n1), pick(m2), pick(m2), pick(m2), pick(n2), pick(n2)]
            ok = (valid and m1 >= 2 and n1 >= 3 and m2 >= 3 and n2 >= 2 and all(0 <= x for x in s) and s[0] < m1 and s[1] < m1 and
                  max(s[2:5]) < n1 and max(s[5:8]) < m2 and max(s[8:10]) < n2 and s[0] != s[1] and len(set(s[2:5])) == 3 and
                  len(set(s[5:8])) == 3 and s[8] != s[9])
            if ok:
                al, be, ga, de = (rng.choice(vals) for _ in range(4))
                for i in range(m1): e1[i * n1 + s[4]] = 0
                e1[s[0] * n1 + s[4]] = al; e1[s[1] * n1 + s[4]] = be
                for j in range(n2): e2[s[5] * n2 + j] = 0
                e2[s[5] * n2 + s[8]] = ga; e2[s[5] * n2 + s[9]] = de
                q = [rng.choice(vals) for _ in range(4)]
                if rng.random() < 0.7: q[rng.randrange(4)] = 0
                for (r1, r2, qi) in ((s[0], s[6], 0), (s[1], s[7], 2)):
                    e1[r1 * n1 + s[2]] = q[qi]; e1[r1 * n1 + s[3]] = q[qi + 1]
                    e2[r2 * n2 + s[8]] = q[qi]; e2[r2 * n2 + s[9]] = q[qi + 1]
        comp.append("compose %s %d %s %s %s" % (kind, ch, mat_tokens(m1, n1, e1), mat_tokens(m2, n2, e2), " ".join(map(str, s))))
    run.batch("compose-valid-and-invalid", comp, "asan")
    return dict(rule="decompose: seeded {0,1} and {-1,0,1} matrices up to 4x4 with every kind of bipartition whose off-diagonal GF(2) ranks are "
                "(1,0)/(0,1) [2-sum], (1,1) [Delta- and Y-sum], (0,2)/(2,0) [3-sum], plus matrices built as block sums under line shuffles; the "
                "harness runs the library's own sequence (representatives, ternary check, epsilon/connecting search, DecomposeFirst/Second with "
                "all optional outputs, Compose with the returned special lines). Judged: returned maps are bijections and the recomposed matrix "
                "equals the original under them; returned components have the documented shape; the library's composition equals the "
                "documented formula; components of TU matrices are TU. compose: operand pairs up to 4x4 in characteristic 2 and 3 with valid "
                "and invalid special lines: result equals the formula, invalid shapes give an error and no matrix. Non-trivial = judged ok.")


# ------------------------------------------------------------------------------------------------------------------
# C03 / C04 decomposition trees
# ------------------------------------------------------------------------------------------------------------------

R10A = [1,1,0,0,1, 1,1,1,0,0, 0,1,1,1,0, 0,0,1,1,1, 1,0,0,1,1]
R10B = [1,1,1,1,1, 1,1,1,0,0, 1,0,1,1,0, 1,0,0,1,1, 1,1,0,0,1]
R10T = [1,-1,0,0,-1, -1,1,-1,0,0, 0,-1,1,-1,0, 0,0,-1,1,-1, -1,0,0,-1,1]
R12T = [1,0,1,1,0,0, 0,1,1,1,0,0, 1,0,1,0,1,1, 0,-1,0,-1,1,1, 1,0,1,0,1,0, 0,-1,0,-1,0,1]
C04_TAGS = r"^tree:(flag|flags|graph-cert|r10|minor|root-graphicness|root-cographicness)"


def permuted(rng, m, n, e):
    rp = list(range(m)); cp = list(range(n)); rng.shuffle(rp); rng.shuffle(cp)
    return [e[i * n + j] for i in rp for j in cp]


def scaled(rng, m, n, e):
    rs = [rng.choice((1, -1)) for _ in range(m)]; cs = [rng.choice((1, -1)) for _ in range(n)]
    return [e[i * n + j] * rs[i] * cs[j] for i in range(m) for j in range(n)]


def base_block(rng, ternary):
    """a (probably) regular building block: network / conetwork matrix, R10, R12"""
    k = rng.randrange(6)
    if k == 0:
        e = R10T if ternary else rng.choice((R10A, R10B)); m = n = 5
    elif k == 1:
        e = R12T if ternary else [abs(x) for x in R12T]; m = n = 6
    else:
        (m, n, e) = graph_instances(rng, 1, rng.choice((6, 10, 16)), True)[0]
        if not ternary: e = [abs(x) for x in e]
        if k == 2:      # conetwork: transpose
            e = [e[i * n + j] for j in range(n) for i in range(m)]; m, n = n, m
    e = permuted(rng, m, n, e)
    if ternary: e = scaled(rng, m, n, e)
    return m, n, e


def sum_blocks(rng, ternary, depth):
    """1- and 2-sums of building blocks (generator side only)"""
    m, n, e = base_block(rng, ternary)
    for _ in range(depth):
        m2, n2, e2 = base_block(rng, ternary)
        if m == 0 or n == 0 or m2 == 0 or n2 == 0 or rng.random() < 0.4:
            # 1-sum
            rows = [e[i * n:(i + 1) * n] + [0] * n2 for i in range(m)] + [[0] * n + e2[i * n2:(i + 1) * n2] for i in range(m2)]
            m, n = m + m2, n + n2
        else:
            # 2-sum: M1 = [A; c^T] (c^T last row of first), M2 = [d D] (d first column of second)
            c = e[(m - 1) * n: m * n]; d = [e2[i * n2] for i in range(m2)]
            A = [e[i * n:(i + 1) * n] for i in range(m - 1)]
            D = [e2[i * n2 + 1:(i + 1) * n2] for i in range(m2)]
            rows = [A[i] + [0] * (n2 - 1) for i in range(m - 1)] + [[d[i] * c[j] for j in range(n)] + D[i] for i in range(m2)]
            m, n = m - 1 + m2, n + n2 - 1
        e = [x for r in rows for x in r]
        e = permuted(rng, m, n, e)
    return m, n, e


def tree_ops(run):
    quick = run.tier == "quick"
    rng = run.rng
    lines = []
    base = DEFAULT_MASK | WANT_TREE
    # small exhaustive-ish domains with trees
    for (m, n) in [(2, 2), (2, 3), (3, 2), (3, 3)]:
        for e in all_mats(m, n, (-1, 0, 1)):
            if rng.random() < (0.25 if quick else 1.0):
                lines.append("tu %d %s" % (base, mat_tokens(m, n, e)))
    for _ in range(3000 if quick else 60000):
        m, n = rng.randint(3, 6), rng.randint(3, 6)
        e = rand_mat(rng, m, n, (1,), rng.choice((0.4, 0.6)))
        mk = rng.choice(option_masks(rng, "quick")) | WANT_TREE
        lines.append("regular %d %s" % (mk, mat_tokens(m, n, e)))
        e2 = [x * rng.choice((1, -1)) for x in e]
        lines.append("tu %d %s" % ((mk | B_TERNARY) & ~3, mat_tokens(m, n, e2)))
    run.batch("small-with-trees", lines, "plain")
    big = []
    strat = [0, 1, 2, 3, 4]
    for _ in range(600 if quick else 12000):
        ternary = rng.random() < 0.5
        m, n, e = sum_blocks(rng, ternary, rng.randint(0, 3))
        mk = DEFAULT_MASK | WANT_TREE | strategy(rng.choice(strat))
        for b in (B_LEAFGRAPHS, B_ALLGRAPHS, B_PLANAR, B_STOP_IRR):
            if rng.random() < 0.3: mk |= b
        if rng.random() < 0.1: mk ^= B_PREFER
        if rng.random() < 0.2:
            # corruption: flip one entry
            if m * n:
                k = rng.randrange(m * n); e = list(e); e[k] = (0 if e[k] else 1)
        if ternary:
            big.append("tu %d %s" % (mk | B_TERNARY, mat_tokens(m, n, e)))
        else:
            big.append("regular %d %s" % (mk, mat_tokens(m, n, e)))
    run.batch("sums-of-blocks", big, "asan")
    run.batch("structured-with-trees", structured_ops(rng, 500 if quick else 8000, kinds=("tu", "regular"), want_bits=WANT_TREE), "plain")
    run.batch("regular-by-construction-with-trees", regular_constructed_ops(rng, 3000 if quick else 40000, want_bits=WANT_TREE), "plain")
    run.batch("irregular-by-construction-with-trees", irregular_constructed_ops(rng, 2000 if quick else 30000, want_bits=WANT_TREE), "plain")
    # graphic / cographic by construction, decomposed along the nested-minor sequence (directGraphicness off): the root may not claim
    # the opposite of what the construction guarantees
    seqg = []
    for _ in range(3000 if quick else 40000):
        m, n, e = glued_cycle_matrix(rng, rng.choice((1, 2, 2, 3)))
        mask = ((DEFAULT_MASK | strategy(rng.randrange(5)) | WANT_TREE) & ~3 & ~B_TERNARY & ~B_DIRECT)
        if rng.random() < 0.5:
            seqg.append("@root-graphic=yes @want=yes regular %d %s" % (mask, mat_tokens(m, n, e)))
        else:
            seqg.append("@root-cographic=yes @want=yes regular %d %s" % (mask, mat_tokens(n, m, [e[i * n + j] for j in range(n) for i in range(m)])))
    run.batch("graphic-by-construction-sequence-mode", seqg, "plain")
    hist = []
    for _ in range(300 if quick else 6000):
        ternary = rng.randint(0, 1)
        m, n, e = sum_blocks(rng, bool(ternary), rng.randint(0, 2))
        mk0 = DEFAULT_MASK | strategy(rng.choice(strat)) | rng.choice((0, B_STOP_IRR, B_STOP_NG, B_STOP_NCG, B_STOP_NEITHER))
        k = rng.randint(1, 4)
        steps = []
        for _ in range(k):
            act = "C" if ternary or rng.random() < 0.5 else "R"
            if rng.random() < 0.8: act = act.lower()      # lower case: only unknown leaves of the partial tree are targets
            mk = DEFAULT_MASK | strategy(rng.choice(strat)) | (B_LEAFGRAPHS if rng.random() < .3 else 0)
            steps.append("%s %d %d" % (act, mk, rng.randrange(50)))
        hist.append("treeseq %d %d %s %d %s" % (ternary, mk0, mat_tokens(m, n, e), k, " ".join(steps)))
    run.batch("complete-refine-histories", hist, "asan")
    return dict(extra={})


@check("C03")
def c03(run):
    run.ignore_tags = C04_TAGS
    tree_ops(run)
    return dict(rule="every tree handed out through proot by CMRtuTest / CMRregularTest (small exhaustive/sampled domains, seeded 3x3..6x6 "
                "matrices under option masks; 1- and 2-sums of network, conetwork, R10 and R12 blocks under random line permutations, "
                "scalings and single-entry corruptions with every decomposition strategy) and after seeded histories of "
                "CMRtuCompleteDecomposition / CMRregularCompleteDecomposition / CMRregularRefineDecomposition on nodes of partial trees is "
                "serialised node by node (types, maps, special lines, pivots, reductions, raw CSR matrices) and every node is checked by "
                "checkRecompose: arities, 1-sum block partition, 2-/Delta-/Y-/3-sum via the documented composition formulas, pivot children "
                "= recorded pivots, series-parallel children = recorded valid reductions. Non-trivial = a tree whose every node passed; "
                "distinct by op line; the judge tag lists node types per tree.")


@check("C04")
def c04(run):
    run.ignore_tags = r"^tree:(?!flag|flags|graph-cert|r10|minor)"
    tree_ops(run)
    return dict(rule="the trees of the C03 run: every node's flags and certificates are checked by checkFlags: stored graph/forest/coforest/"
                "arc reversals multiply out to the node's matrix (transpose for cographs), R10 nodes are row/column permutations of a "
                "representation matrix of R10, stored determinant minors have |det|>=2 inside the node's matrix, positive flags of inner nodes "
                "need positive flags at all children, and at nodes up to 6x6 (regularity) resp. 5 rows (graphicness) the flags are compared "
                "with the brute-force oracles. Non-trivial = tree fully passed; distinct by op line.")


# ------------------------------------------------------------------------------------------------------------------
# C18 time limits: injection at every clock read
# ------------------------------------------------------------------------------------------------------------------

def split_result(res):
    """'ok payload ;; trailer' -> (status, payload tokens, reads)"""
    body, _, trailer = res.partition(" ;; ")
    toks = body.split(" ")
    m = re.search(r"clk=(\d+),(\d+)", trailer)
    return toks[0], [t for t in toks[1:] if t], (int(m.group(1)) if m else 0)


def timelimited_ops(rng, quick):
    ops = []
    masks = option_masks(rng, "quick", algos=(0, 1, 2))
    n = 40 if quick else 400
    for _ in range(n):
        m, k = rng.randint(3, 6), rng.randint(3, 6)
        tern = rand_mat(rng, m, k, (1, -1), rng.choice((0.4, 0.6)))
        binm = [abs(x) for x in tern]
        ops.append("tu %d %s" % ((DEFAULT_MASK & ~3) | rng.choice((0, 1, 2)) | rng.choice((0, WANT_SUB, WANT_TREE, WANT_SUB | WANT_TREE)) | strategy(rng.randrange(5)), mat_tokens(m, k, tern)))
        ops.append("regular %d %s" % (DEFAULT_MASK | rng.choice((0, WANT_TREE)) | strategy(rng.randrange(5)), mat_tokens(m, k, binm)))
        ops.append("graphic %d 1 1 %s" % (rng.randint(0, 1), mat_tokens(m, k, binm)))
        ops.append("network %d 1 1 %s" % (rng.randint(0, 1), mat_tokens(m, k, tern)))
        ops.append("camionx 1 %s" % mat_tokens(m, k, tern))
        ops.append("sp %s %s %d -1 %s" % ("ter", rng.choice(("test", "dec")), rng.choice((15, 31, 7, 1)), mat_tokens(m, k, tern)))
        ops.append("sp %s %s %d -1 %s" % ("bin", rng.choice(("test", "dec")), rng.choice((15, 31, 7, 1)), mat_tokens(m, k, binm)))
        ops.append("balanced %d %d 0 1 %s" % (rng.choice((0, 1)), rng.randint(0, 1), mat_tokens(m, k, tern)))
        if m <= 4 and k <= 4:
            ops.append("ctu %d %s" % (DEFAULT_MASK, mat_tokens(m, k, binm)))
        e = rand_mat(rng, min(m, 4), min(k, 4), (-2, -1, 1, 1, 2, 3), 0.7)
        ops.append("equimod %s 0 %s" % (rng.choice(("e", "es", "u", "us")), mat_tokens(min(m, 4), min(k, 4), e)))
    for (mm, nn, e) in graph_instances(rng, 10 if quick else 100, 40, True):
        ops.append("tu %d %s" % (DEFAULT_MASK | WANT_TREE, mat_tokens(mm, nn, e)))
        ops.append("network 0 1 1 %s" % mat_tokens(mm, nn, e))
    for _ in range(10 if quick else 100):
        mm, nn, e = sum_blocks(rng, True, rng.randint(1, 2))
        ops.append("tu %d %s" % (DEFAULT_MASK | WANT_TREE | strategy(rng.randrange(5)), mat_tokens(mm, nn, e)))
        ops.append("treeseq 1 %d %s 1 c %d 3" % (DEFAULT_MASK | B_STOP_IRR, mat_tokens(mm, nn, e), DEFAULT_MASK))
    # 3-connected regular matrices that are neither graphic nor cographic: the only inputs on which the nested-minor sequence and both
    # phases of the 3-separation search (each with its own clock reads) run
    deep = [o.replace("@want=yes ", "") for o in regular_constructed_ops(rng, 8 if quick else 100, 0, 3, 6)]
    # a regular 8x7 matrix whose only 3-separations have one side almost outside the first minor of the nested sequence: found in the
    # second phase of the search only (most sums of two large pieces are found in the first phase); random representations
    LATE3SEP = [[1,0,1,0,1,1,1],[0,1,0,0,1,1,0],[0,1,0,1,1,0,0],[1,0,0,0,1,1,1],[0,0,1,0,1,1,1],[0,1,1,1,0,0,0],[1,0,0,0,1,1,0],[0,1,1,1,0,0,1]]
    for _ in range(6 if quick else 60):
        M = represent(rng, [r[:] for r in LATE3SEP], False, rng.choice((0, 0, 1, 2)))
        deep.append("regular %d %s" % ((DEFAULT_MASK | strategy(rng.randrange(5))) & ~B_TERNARY, mat_tokens(len(M), len(M[0]), flat_of(M))))
    for o in deep:
        ops.append(o)
        if rng.random() < 0.5:
            tk = o.split(" ")
            ops.append("tu %d %s" % ((int(tk[1]) | B_TERNARY | rng.choice((0, WANT_TREE))), " ".join(tk[2:])))
    return ops


@check("C18")
def c18(run):
    quick = run.tier == "quick"
    rng = run.rng
    ops = timelimited_ops(rng, quick)
    # phase 1: unlimited runs -> reference answers and number of clock reads
    ref = run.batch("unlimited-reference", ops, "asan")
    inj = []
    per_op_cap = 40 if quick else 400
    total_reads = 0
    for (op, res, verdict) in ref:
        status, payload, reads = split_result(res)
        if status != "ok" or verdict.startswith("FAIL"):
            continue
        total_reads += reads
        ks = list(range(1, reads + 1))
        cap = 1200 if reads > 150 else per_op_cap      # long runs (decompositions with a 3-separation search): every read up to 1200
        if len(ks) > cap:
            ks = sorted(set(rng.sample(ks, cap - 10) + ks[:5] + ks[-5:]))
        exp = "~".join(payload)
        for k in ks:
            inj.append("@fresh @clk=%d @expect=%s %s" % (k, exp, op))
            inj.append("@expect=%s %s" % (status + "~" + exp, op))      # same environment, no limit: must still give the unlimited answer
    O.TIMEOUT_SITES.clear()
    run.batch("inject-at-every-clock-read", inj, "asan")
    sites = sorted(O.TIMEOUT_SITES)
    return dict(rule="for each time-limited entry point (TU x3 algorithms with/without submatrix and tree, regular, complete-decomposition "
                "history, graphic, network, Camion, SP x4, balanced, CTU, equimodular x4) and each seeded input: one unlimited run counts the "
                "clock reads N; then for every k<=N (at most %d per input, but up to 1200 for runs with more than 150 reads, including the first and last five) a run in a fresh environment with "
                "the clock jumping forward at the k-th read: status must be OKAY with the identical result or TIMEOUT with no result object, "
                "scratch stack balanced, no leak at exit (LeakSanitizer), and the same environment must then give the unlimited answer without "
                "a limit. Non-trivial = judged ok; distinct by op line." % per_op_cap,
                extra={"clock_reads_unlimited_total": total_reads, "injected_runs": len(inj) // 2,
                       "distinct_timeout_return_sites_fired": len(sites), "timeout_sites": sites},
                assumptions=["the cleanup on the timeout exits is enumerated by fault injection, not proved"])


# ------------------------------------------------------------------------------------------------------------------
# C19 purity: inputs untouched, results independent of history, scratch contents and threads
# ------------------------------------------------------------------------------------------------------------------

def strip_trailer(res):
    body, _, _ = res.partition(" ;; ")
    return "~".join(t for t in body.split(" ") if t)


@check("C19")
def c19(run):
    quick = run.tier == "quick"
    rng = run.rng
    ops = [o for o in timelimited_ops(rng, quick) if not o.startswith("treeseq")]
    ops += [o for o in mixed_ops(rng, 300 if quick else 5000) if not o.startswith("stack")]
    if quick:
        ops = rng.sample(ops, min(len(ops), 500))
    # reference: every op in a fresh environment, scratch chunks filled with 0xCB
    ref = run.batch("reference-fresh-env", ["@fresh " + o for o in ops], "asan")
    expect = {}
    for (line, res, verdict) in ref:
        if res.startswith("crash") or verdict.startswith("FAIL") or verdict.startswith("bad-op"):
            continue
        expect[line[len("@fresh "):]] = strip_trailer(res)
    good = [o for o in ops if o in expect]
    def tagged(o):
        return "@expect=%s %s" % (expect[o], o)
    # A: one environment for all ops, scratch filled with 0x00
    run.batch("one-env-fill-00", [tagged(o) for o in good], "asan", args=("--fill", "0"))
    # B: another order, interleaved with calls that end in errors and timeouts, scratch filled with 0xFF
    order = list(good); rng.shuffle(order)
    junk = ["pivot 3 1 2 2 0 1 1 1 1 0 0", "compose D 3 2 3 1 1 1 0 1 1 2 3 1 1 1 0 1 1 0 0 1 0 0 1", "parse dense c 3120312061",
            "@clk=2 tu 6668 4 4 1 1 0 0 0 1 1 0 0 0 1 1 1 0 0 1", "equimod e 0 2 2 2147483647 2147483647 2147483647 1",
            "@clk=1 ctu 6668 3 3 1 1 0 0 1 1 1 0 1", "balanced 2 1 0 1 2 2 1 1 1 1",
            "@clk=2 regular 6664 4 4 1 1 0 0 0 1 1 0 0 0 1 1 1 0 0 1", "@clk=3 regular 6664 5 5 1 1 0 0 1 1 1 1 0 0 0 1 1 1 0 0 0 1 1 1 1 0 0 1 1",
            "@clk=4 tu 6668 5 5 1 1 0 0 1 1 1 1 0 0 0 1 1 1 0 0 0 1 1 1 1 0 0 1 1"]
    b = []
    for o in order:
        if rng.random() < 0.5:
            b.append("@junk " + rng.choice(junk))
        b.append(tagged(o))
    run.batch("shuffled-with-errors-fill-FF", b, "asan", args=("--fill", "255"))
    # C: the same call three times in a row
    c = []
    for o in rng.sample(good, min(len(good), 200 if quick else 2000)):
        c += [tagged(o)] * 3
    run.batch("repeated-3x", c, "asan", args=("--fill", "85"))
    # D: concurrent environments on 8 threads under ThreadSanitizer; results must equal the single-threaded reference
    thr = [tagged(o) for o in rng.sample(good, min(len(good), 150 if quick else 1500))]
    try:
        run.batch("tsan-8-threads", thr, "tsan", args=("--threads", "8", "--fill", "203"))
    except cmrbuild.BuildError:
        raise
    return dict(rule="every op of a seeded mix of all op families (input matrices are checksummed before and after each call: 'in=' in the "
                "harness trailer) is first run in a fresh environment (scratch chunks filled with 0xCB) and then (A) on one shared "
                "environment with scratch fill 0x00, (B) in another order interleaved with calls ending in errors and injected timeouts, fill "
                "0xFF, (C) three times in a row, fill 0x55, (D) concurrently on 8 threads with one environment each under ThreadSanitizer: the "
                "status and the complete canonical payload (verdicts, certificates, trees) must be identical to the reference, and no race may "
                "be reported. Non-trivial = judged ok; distinct by op line.",
                assumptions=["thread schedules are sampled, not enumerated", "the static buffers of CMRelementString / CMRspReductionString (documented fallback when NULL is passed) are not exercised by recognition and are outside the model"])


# ------------------------------------------------------------------------------------------------------------------
# C10 relations between presentations of the same instance
# ------------------------------------------------------------------------------------------------------------------

R10_TU = [[1, -1, 0, 0, -1], [-1, 1, -1, 0, 0], [0, -1, 1, -1, 0], [0, 0, -1, 1, -1], [-1, 0, 0, -1, 1]]
R10_B = [[1, 1, 1, 1, 1], [1, 1, 1, 0, 0], [1, 0, 1, 1, 0], [1, 0, 0, 1, 1], [1, 1, 0, 0, 1]]
R12 = [[1, 0, 1, 1, 0, 0], [0, 1, 1, 1, 0, 0], [1, 0, 1, 0, 1, 1], [0, -1, 0, -1, 1, 1], [1, 0, 1, 0, 1, 0], [0, -1, 0, -1, 0, 1]]
F7 = [[1, 1, 0, 1], [1, 0, 1, 1], [0, 1, 1, 1]]
W3 = [[1, 1, 0], [0, 1, 1], [1, 0, 1]]     # wheel: det 2 as a real matrix


def rows_of(m, n, flat):
    return [list(flat[i * n:(i + 1) * n]) for i in range(m)]


def flat_of(rows):
    return [x for r in rows for x in r]


def net_piece(rng, signed, lo, hi):
    """(transposed) network / graphic matrix of a random (di)graph with a random spanning forest"""
    while True:
        nn = rng.randint(lo, hi)
        ne = nn - 1 + rng.randint(1, max(1, nn))
        edges = rand_multigraph(rng, nn, ne, loops=rng.random() < 0.1)
        forest = spanning_forest(rng, nn, edges)
        fs = set(forest)
        cof = [i for i in range(ne) if i not in fs]
        if not forest or not cof:
            continue
        rev = [rng.random() < 0.5 for _ in range(ne)]
        flat = cycle_matrix(nn, edges, forest, cof, signed=signed, rev=rev)
        rows = rows_of(len(forest), len(cof), flat)
        if rng.random() < 0.3:
            rows = [list(c) for c in zip(*rows)]
        return rows


def onesum_rows(A, B):
    na = len(A[0]) if A else 0
    nb = len(B[0]) if B else 0
    return [r + [0] * nb for r in A] + [[0] * na + r for r in B]


def twosum_rows(A, B, ternary):
    """[[A', 0], [d c^T, D]] with c^T = last row of A, d = first column of B"""
    c = A[-1]; A1 = A[:-1]
    d = [r[0] for r in B]; D = [r[1:] for r in B]
    nd = len(D[0]) if D else 0
    def red(x):
        return x if ternary else x % 2
    return [r + [0] * nd for r in A1] + [[red(d[i] * cj) for cj in c] + D[i] for i in range(len(B))]


def c10_instance(rng, signed, size):
    """a matrix assembled from network pieces, R10/R12 and 1-/2-sums of those, optionally corrupted, lines shuffled"""
    def piece():
        x = rng.random()
        if not signed and x < 0.15:
            return regular_by_construction(rng, 3, rng.randint(4, 7), 1)
        if x < 0.70:
            return net_piece(rng, signed, 3, max(4, size))
        if x < 0.80:
            return [r[:] for r in (R10_TU if signed else rng.choice((R10_B, [[abs(v) for v in r] for r in R10_TU])))]
        if x < 0.88:
            return [[(v if signed else abs(v)) for v in r] for r in R12]
        if x < 0.92:
            return [r[:] for r in rng.choice((F7, W3, [list(c) for c in zip(*F7)]))]
        return net_piece(rng, signed, 2, 4)
    M = piece()
    for _ in range(rng.choice((0, 0, 1, 1, 2, 3))):
        B = piece()
        if rng.random() < 0.4 or len(M) < 2 or len(B[0]) < 2:
            M = onesum_rows(M, B)
        else:
            # move a nonzero row of M last and a nonzero column of B first where possible
            nzr = [i for i, r in enumerate(M) if any(r)]
            nzc = [j for j in range(len(B[0])) if any(r[j] for r in B)]
            if nzr:
                i = rng.choice(nzr); M = M[:i] + M[i + 1:] + [M[i]]
            if nzc:
                j = rng.choice(nzc); B = [[r[j]] + r[:j] + r[j + 1:] for r in B]
            M = twosum_rows(M, B, signed)
    m, n = len(M), len(M[0])
    ncorr = rng.choice((0, 0, 0, 1, 1, 2, 3))
    for _ in range(ncorr):
        i, j = rng.randrange(m), rng.randrange(n)
        if M[i][j] == 0:
            M[i][j] = rng.choice((1, -1)) if signed else 1
        elif signed and rng.random() < 0.5:
            M[i][j] = -M[i][j]
        else:
            M[i][j] = 0
    rp = list(range(m)); cp = list(range(n)); rng.shuffle(rp); rng.shuffle(cp)
    return [[M[i][j] for j in cp] for i in rp]


def c10_transformation(rng, m, n, signed, M):
    """a random composite transformation as token list; tracks the shape (and the entries where pivots need them)"""
    steps = []
    cur = [r[:] for r in M]
    k = rng.choice((1, 1, 2, 2, 3, 4))
    for _ in range(k):
        m, n = len(cur), (len(cur[0]) if cur else n)
        kinds = ["T", "P", "P", "Z", "U", "D", "S"]
        if signed: kinds += ["N", "N"]
        nz = [(i, j) for i in range(m) for j in range(n) if cur[i][j]]
        if nz: kinds += ["V", "V"]
        kind = rng.choice(kinds)
        if m == 0 or n == 0:
            kind = "T"
        if kind == "T":
            steps.append("T"); cur = [list(c) for c in zip(*cur)] if cur and cur[0] else [[] for _ in range(n)]
            if not cur: cur = []
            if m == 0 or n == 0: break
        elif kind == "P":
            rp = list(range(m)); cp = list(range(n)); rng.shuffle(rp); rng.shuffle(cp)
            steps.append("P %s %s" % (" ".join(map(str, rp)), " ".join(map(str, cp))))
            cur = [[cur[i][j] for j in cp] for i in rp]
        elif kind == "S":
            rs = sorted(rng.sample(range(m), max(1, m - rng.randint(0, max(1, m // 4)))))
            cs = sorted(rng.sample(range(n), max(1, n - rng.randint(0, max(1, n // 4)))))
            if rng.random() < 0.3: rng.shuffle(rs); rng.shuffle(cs)
            steps.append("S %d %d %s %s" % (len(rs), len(cs), " ".join(map(str, rs)), " ".join(map(str, cs))))
            cur = [[cur[i][j] for j in cs] for i in rs]
        elif kind == "N":
            if rng.random() < 0.5:
                i = rng.randrange(m); steps.append("NR %d" % i); cur[i] = [-x for x in cur[i]]
            else:
                j = rng.randrange(n); steps.append("NC %d" % j)
                for r in cur: r[j] = -r[j]
        elif kind == "V":
            i, j = rng.choice(nz)
            steps.append("%s %d %d" % ("V3" if signed else "V2", i, j))
            e = cur[i][j]
            new = [[0] * n for _ in range(m)]
            for a in range(m):
                for b in range(n):
                    if a == i: v = -e if b == j else e * cur[i][b]
                    elif b == j: v = e * cur[a][j]
                    else: v = cur[a][b] - e * cur[a][j] * cur[i][b]
                    if signed:
                        v %= 3; v = -1 if v == 2 else v
                    else:
                        v %= 2
                    new[a][b] = v
            cur = new
        else:
            isrow = rng.random() < 0.5
            lines, other = (m, n) if isrow else (n, m)
            pos = rng.randint(0, lines)
            sg = rng.choice((1, -1)) if signed else 1
            if kind == "Z":
                steps.append("%s %d" % ("ZR" if isrow else "ZC", pos)); vec = [0] * other
            elif kind == "U":
                src = rng.randrange(other)
                steps.append("%s %d %d %d" % ("UR" if isrow else "UC", pos, src, sg)); vec = [sg if t == src else 0 for t in range(other)]
            else:
                src = rng.randrange(lines)
                steps.append("%s %d %d %d" % ("DR" if isrow else "DC", pos, src, sg))
                vec = [sg * x for x in cur[src]] if isrow else [sg * r[src] for r in cur]
            if isrow: cur = cur[:pos] + [vec] + cur[pos:]
            else: cur = [r[:pos] + [vec[a]] + r[pos:] for a, r in enumerate(cur)]
    return "%d %s" % (len(steps), " ".join(steps))


def delta_operand(rng, lo, hi):
    """graphic 0/1 matrix [[A, a, a],[c^T, 0, 1]] up to line order: a graph with a triangle one of whose edges is a tree edge.
    Returns rows, special row, column with 0 in the special row, column with 1 there."""
    while True:
        nn = rng.randint(max(3, lo), max(3, hi))
        ne = nn - 1 + rng.randint(1, nn)
        edges = rand_multigraph(rng, nn, ne, loops=False)
        forest = spanning_forest(rng, nn, edges)
        if len(forest) != nn - 1:
            continue
        t = rng.choice(forest)
        u, v = edges[t]
        others = [w for w in range(nn) if w not in (u, v)]
        if not others:
            continue
        w = rng.choice(others)
        edges = edges + [(u, w), (w, v)]
        fs = set(forest)
        cof = [i for i in range(len(edges)) if i not in fs]
        rng.shuffle(cof)
        fo = list(forest); rng.shuffle(fo)
        flat = cycle_matrix(nn, edges, fo, cof)
        rows = rows_of(len(fo), len(cof), flat)
        r = fo.index(t)
        c1, c2 = cof.index(len(edges) - 2), cof.index(len(edges) - 1)
        # the two new columns agree outside row r and differ in row r
        if rows[r][c1] == rows[r][c2] or any(rows[i][c1] != rows[i][c2] for i in range(len(fo)) if i != r):
            continue
        ca, cb = (c1, c2) if rows[r][c1] == 0 else (c2, c1)
        return rows, r, ca, cb


# ------------------------------------------------------------------------------------------------------------------
# structured instances: representations of R10 / R12, sums of graphic and cographic pieces (shared by C01 C02 C03 C04 C07)
# ------------------------------------------------------------------------------------------------------------------

def py_pivot(M, r, c, ch):
    """the library's pivot convention (Cmr/Pivot.lean pivotRaw), reduced mod 2 or to {-1,0,1} mod 3"""
    e = M[r][c]
    m, n = len(M), len(M[0])
    def red(v):
        if ch == 2: return v % 2
        v %= 3
        return -1 if v == 2 else v
    return [[red((-e if b == c else e * M[r][b]) if a == r else (e * M[a][c] if b == c else M[a][b] - e * M[a][c] * M[r][b]))
             for b in range(n)] for a in range(m)]


def represent(rng, M, signed, npiv):
    """another representation of the same matroid: pivots, line scaling (signed), permutation"""
    M = [r[:] for r in M]
    for _ in range(npiv):
        nz = [(i, j) for i, r in enumerate(M) for j, v in enumerate(r) if v]
        if not nz: break
        i, j = rng.choice(nz)
        M = py_pivot(M, i, j, 3 if signed else 2)
    m, n = len(M), len(M[0])
    if signed:
        for i in range(m):
            if rng.random() < 0.3: M[i] = [-v for v in M[i]]
        for j in range(n):
            if rng.random() < 0.3:
                for r in M: r[j] = -r[j]
    rp = list(range(m)); cp = list(range(n)); rng.shuffle(rp); rng.shuffle(cp)
    return [[M[i][j] for j in cp] for i in rp]


def y_operand(rng, lo, hi):
    """graphic 0/1 matrix with two rows that agree except in one column: a graph with a node w of degree 3, two of whose
    edges (x, y) are tree edges and the third (z) is not.  Returns rows, row index of x/y with 0 in column z, the one with 1, column z."""
    while True:
        nn = rng.randint(max(3, lo), max(3, hi))
        ne = nn - 1 + rng.randint(1, nn)
        edges = rand_multigraph(rng, nn, ne, loops=False)
        p, q, t = rng.sample(range(nn), 3)
        w = nn
        edges = [(w, p), (w, q)] + edges + [(w, t)]
        # spanning tree: x, y first, z last
        parent = list(range(nn + 1))
        def find(a):
            while parent[a] != a:
                parent[a] = parent[parent[a]]; a = parent[a]
            return a
        order = [0, 1] + rng.sample(range(2, len(edges) - 1), len(edges) - 3) + [len(edges) - 1]
        forest = []
        for i in order:
            a, b = find(edges[i][0]), find(edges[i][1])
            if a != b:
                parent[a] = b; forest.append(i)
        if len(forest) != nn or (len(edges) - 1) in forest:
            continue
        fs = set(forest)
        cof = [i for i in range(len(edges)) if i not in fs]
        rng.shuffle(cof); fo = list(forest); rng.shuffle(fo)
        rows = rows_of(len(fo), len(cof), cycle_matrix(nn + 1, edges, fo, cof))
        rx, ry, cz = fo.index(0), fo.index(1), cof.index(len(edges) - 1)
        if rows[rx][cz] == rows[ry][cz] or any(rows[rx][j] != rows[ry][j] for j in range(len(cof)) if j != cz):
            continue
        ra, rb = (rx, ry) if rows[rx][cz] == 0 else (ry, rx)
        return rows, ra, rb, cz


def named_graph(rng):
    """(numNodes, edges) of a 3-connected graph: K5, K6, K3,3, Petersen, Wagner, random cubic or random dense"""
    k = rng.random()
    if k < 0.2:
        n = rng.choice((5, 5, 6)); return n, [(i, j) for i in range(n) for j in range(i + 1, n)]
    if k < 0.35:
        return 6, [(i, 3 + j) for i in range(3) for j in range(3)]
    if k < 0.45:
        return 10, [(i, (i + 1) % 5) for i in range(5)] + [(5 + i, 5 + (i + 2) % 5) for i in range(5)] + [(i, 5 + i) for i in range(5)]
    if k < 0.55:
        return 8, [(i, (i + 1) % 8) for i in range(8)] + [(i, i + 4) for i in range(4)]       # Wagner graph (Moebius ladder)
    if k < 0.8:
        while True:      # random cubic graph by the pairing model
            n = rng.choice((6, 8, 8, 10))
            pts = [v for v in range(n) for _ in range(3)]
            rng.shuffle(pts)
            es = [(pts[2 * i], pts[2 * i + 1]) for i in range(len(pts) // 2)]
            if all(a != b for a, b in es) and len(set(frozenset(e) for e in es)) == len(es):
                return n, es
    n = rng.randint(5, 7)
    while True:
        es = [(i, j) for i in range(n) for j in range(i + 1, n) if rng.random() < 0.7]
        deg = [sum(1 for e in es if v in e) for v in range(n)]
        if min(deg) >= 3:
            return n, es


def tree_with(rng, nn, edges, first, last):
    """spanning tree (edge indices) by union-find: edges `first` are tried first, edges `last` at the end"""
    parent = list(range(nn))
    def find(a):
        while parent[a] != a:
            parent[a] = parent[parent[a]]; a = parent[a]
        return a
    mid = [i for i in range(len(edges)) if i not in first and i not in last]
    rng.shuffle(mid)
    forest = []
    for i in list(first) + mid + list(last):
        a, b = find(edges[i][0]), find(edges[i][1])
        if a != b:
            parent[a] = b; forest.append(i)
    return forest


def triangle_operand(rng):
    """delta-sum operand [[A,a,a],[c^T,0,1]] (up to line order) from a 3-connected graph with a triangle one of whose edges is a tree
    edge: rows, special row, column with 0 there, column with 1 there"""
    while True:
        nn, edges = named_graph(rng)
        es = {frozenset(e): i for i, e in enumerate(edges)}
        tris = [(a, b, c) for a in range(nn) for b in range(a + 1, nn) for c in range(b + 1, nn)
                if frozenset((a, b)) in es and frozenset((b, c)) in es and frozenset((a, c)) in es]
        if not tris:
            continue
        tri = list(rng.choice(tris)); rng.shuffle(tri)
        u, v, w = tri
        t, e, f = es[frozenset((u, v))], es[frozenset((u, w))], es[frozenset((w, v))]
        forest = tree_with(rng, nn, edges, [t], [e, f])
        if len(forest) != nn - 1 or e in forest or f in forest or t not in forest:
            continue
        fs = set(forest)
        cof = [i for i in range(len(edges)) if i not in fs]
        rng.shuffle(cof); fo = list(forest); rng.shuffle(fo)
        rows = rows_of(len(fo), len(cof), cycle_matrix(nn, edges, fo, cof))
        r, c1, c2 = fo.index(t), cof.index(e), cof.index(f)
        if rows[r][c1] == rows[r][c2] or any(rows[i][c1] != rows[i][c2] for i in range(len(fo)) if i != r):
            continue
        ca, cb = (c1, c2) if rows[r][c1] == 0 else (c2, c1)
        return rows, r, ca, cb


def triad_operand(rng):
    """transposed: delta-sum operand from the dual of a 3-connected graph with a node of degree 3 two of whose edges are tree edges"""
    while True:
        nn, edges = named_graph(rng)
        deg3 = [v for v in range(nn) if sum(1 for e in edges if v in e) == 3]
        if not deg3:
            continue
        w = rng.choice(deg3)
        inc = [i for i, e in enumerate(edges) if w in e]
        rng.shuffle(inc)
        x, y, z = inc
        forest = tree_with(rng, nn, edges, [x, y], [z])
        if len(forest) != nn - 1 or z in forest or x not in forest or y not in forest:
            continue
        fs = set(forest)
        cof = [i for i in range(len(edges)) if i not in fs]
        rng.shuffle(cof); fo = list(forest); rng.shuffle(fo)
        rows = rows_of(len(fo), len(cof), cycle_matrix(nn, edges, fo, cof))
        rx, ry, cz = fo.index(x), fo.index(y), cof.index(z)
        if rows[rx][cz] == rows[ry][cz] or any(rows[rx][j] != rows[ry][j] for j in range(len(cof)) if j != cz):
            continue
        ra, rb = (rx, ry) if rows[rx][cz] == 0 else (ry, rx)
        return [list(c) for c in zip(*rows)], cz, ra, rb


def delta_piece(rng, lo, hi):
    """0/1 operand of a delta-sum: graphic with a triangle or cographic with a triad, from 3-connected (mostly non-planar) graphs,
    or (less often) from random sparse graphs: rows, special row, column with 0 / with 1 in the special row"""
    k = rng.random()
    if k < 0.4:
        return triangle_operand(rng)
    if k < 0.8:
        return triad_operand(rng)
    if k < 0.9:
        return delta_operand(rng, lo, hi)
    rows, ra, rb, cz = y_operand(rng, lo, hi)
    return [list(c) for c in zip(*rows)], cz, ra, rb


def py_delta_sum(A, r1, ca, cb, B, r2, cc, cd):
    """[[A', a b^T],[d c^T, D']] over GF(2) (Cmr/Sums.lean composeDelta)"""
    rows1 = [i for i in range(len(A)) if i != r1]; cols1 = [j for j in range(len(A[0])) if j not in (ca, cb)]
    rows2 = [i for i in range(len(B)) if i != r2]; cols2 = [j for j in range(len(B[0])) if j not in (cc, cd)]
    top = [[A[i][j] for j in cols1] + [(A[i][ca] * B[r2][j]) % 2 for j in cols2] for i in rows1]
    bot = [[(B[i][cc] * A[r1][j]) % 2 for j in cols1] + [B[i][j] for j in cols2] for i in rows2]
    return top + bot


def regular_by_construction(rng, lo, hi, depth):
    """0/1 matrix that is regular by Seymour's theorem: delta-sum of a graphic and a cographic piece built from 3-connected, mostly
    non-planar graphs (so the sum is in general 3-connected and neither graphic nor cographic); sometimes two pieces of one kind"""
    if rng.random() < 0.75:
        first, second = (triangle_operand, triad_operand) if rng.random() < 0.5 else (triad_operand, triangle_operand)
        A, r1, ca, cb = first(rng)
        B, r2, cd, cc = second(rng)
    else:
        A, r1, ca, cb = delta_piece(rng, lo, hi)
        B, r2, cd, cc = delta_piece(rng, lo, hi)
    return py_delta_sum(A, r1, ca, cb, B, r2, cc, cd)


def regular_constructed_ops(rng, count, want_bits=0, lo=3, hi=7):
    """regular-by-construction 0/1 matrices (delta-sums of graphic and cographic pieces, in general 3-connected and neither graphic
    nor cographic) in random representations: the 3-separation search of the decomposition has to succeed for every line order"""
    ops = []
    strategies = [strategy(i) for i in range(5)]
    while len(ops) < count:
        M = regular_by_construction(rng, lo, rng.randint(lo + 1, hi), 1)
        M = represent(rng, M, False, rng.choice((0, 0, 1, 2, 3)))
        m, n = len(M), len(M[0])
        mask = ((DEFAULT_MASK | rng.choice(strategies) | want_bits) & ~3) & ~B_TERNARY
        ops.append("@want=yes regular %d %s" % (mask, mat_tokens(m, n, flat_of(M))))
    return ops


def irregular_constructed_ops(rng, count, kinds=("regular", "tu"), want_bits=0):
    """matrices that are NOT regular / NOT totally unimodular by construction: a 1- or 2-sum (connecting line nonzero, so both
    operands are minors up to line scaling) of a regular / TU piece with F7, its dual or a signed wheel with determinant 2, in a
    random representation (pivots, scalings, permutation preserve the class and its complement)"""
    ops = []
    strategies = [strategy(i) for i in range(5)]
    while len(ops) < count:
        kind = rng.choice(kinds)
        signed = kind == "tu"
        if signed:
            bad = rng.choice(([[1, 1, 0], [0, 1, 1], [1, 0, 1]], [[1, 1], [-1, 1]], [[1, 1, 0], [0, -1, 1], [1, 0, -1]], [r[:] for r in F7]))    # each has a submatrix of determinant +-2
            good = net_piece(rng, True, 3, 7) if rng.random() < 0.7 else [r[:] for r in R10_TU]
        else:
            bad = rng.choice(([r[:] for r in F7], [list(c) for c in zip(*F7)]))
            good = regular_by_construction(rng, 3, 6, 1) if rng.random() < 0.5 else net_piece(rng, False, 3, 7)
        A, B = (good, bad) if rng.random() < 0.5 else (bad, good)
        if rng.random() < 0.3 or len(A) < 2 or len(B[0]) < 2:
            M = onesum_rows(A, B)
        else:
            nzr = [i for i, r in enumerate(A) if any(r)]
            nzc = [j for j in range(len(B[0])) if any(r[j] for r in B)]
            if not nzr or not nzc:
                continue
            i = rng.choice(nzr); A = A[:i] + A[i + 1:] + [A[i]]
            j = rng.choice(nzc); B = [[r[j]] + r[:j] + r[j + 1:] for r in B]
            M = twosum_rows(A, B, signed)
        M = represent(rng, M, signed, rng.choice((0, 1, 2, 3)))
        m, n = len(M), len(M[0])
        mask = ((DEFAULT_MASK | rng.choice(strategies) | want_bits) & ~3)
        if kind == "tu":
            ops.append("@want=no tu %d %s" % (mask | B_TERNARY, mat_tokens(m, n, flat_of(M))))
        else:
            ops.append("@want=no regular %d %s" % (mask & ~B_TERNARY, mat_tokens(m, n, flat_of(M))))
    return ops


def structured_ops(rng, count, kinds=("tu", "regular", "tusigned", "tuall"), want_bits=0, small_only=False):
    """op lines on structured matrices: representations of R10/R12 (TU by construction when signed), their supports (regular),
    one-entry corruptions (verdict from the oracle where feasible), delta-sums of graphic and cographic pieces (regular by
    construction; the Camion-signed version is TU)"""
    ops = []
    strategies = [strategy(i) for i in range(5)]
    while len(ops) < count:
        kind = rng.choice(kinds)
        base_mask = (DEFAULT_MASK | rng.choice(strategies) | want_bits) & ~3
        x = rng.random()
        want = None
        if x < 0.45:
            src = rng.choice(("R10", "R12", "R12"))
            signed = kind in ("tu", "tuall") and rng.random() < 0.8
            M0 = (R10_TU if src == "R10" else R12)
            M = represent(rng, [[(v if signed else abs(v)) for v in r] for r in M0], signed, rng.randint(0, 6))
            want = "yes" if (signed or kind in ("regular", "tusigned")) else None     # the 0/1 support is regular, not necessarily TU
            if rng.random() < 0.3:
                i, j = rng.randrange(len(M)), rng.randrange(len(M[0]))
                M[i][j] = rng.choice([v for v in ((-1, 0, 1) if signed else (0, 1)) if v != M[i][j]])
                want = None
            if rng.random() < 0.3 and not small_only:
                # extend by unit / parallel lines (keeps the class)
                for _ in range(rng.randint(1, 2)):
                    i = rng.randrange(len(M)); M = M + [M[i][:]]
                    j = rng.randrange(len(M[0])); M = [r + [r[j]] for r in M]
        else:
            signed = False
            if small_only:
                M = regular_by_construction(rng, 3, 4, 1)
            else:
                M = regular_by_construction(rng, 3, rng.choice((4, 5, 6, 8)), 1)
            M = represent(rng, M, False, rng.randint(0, 3))
            want = "yes"
            if rng.random() < 0.2:
                i, j = rng.randrange(len(M)), rng.randrange(len(M[0])); M[i][j] = 1 - M[i][j]; want = None
            if kind in ("tu", "tuall"):
                kind = "tusigned"
        m, n = len(M), len(M[0])
        if m == 0 or n == 0:
            continue
        mt = mat_tokens(m, n, flat_of(M))
        w = ("@want=%s " % want) if want else ""
        if kind == "tu":
            ops.append("%stu %d %s" % (w, base_mask | B_TERNARY, mt))
        elif kind == "regular":
            if any(v < 0 for r in M for v in r):
                M = [[abs(v) for v in r] for r in M]; mt = mat_tokens(m, n, flat_of(M))
            ops.append("%sregular %d %s" % (w, base_mask & ~B_TERNARY, mt))
        elif kind == "tusigned":
            if any(v < 0 for r in M for v in r):
                M = [[abs(v) for v in r] for r in M]; mt = mat_tokens(m, n, flat_of(M))
            ops.append("%stusigned %d %s" % (w, base_mask, mt))
        else:
            masks = [(DEFAULT_MASK & ~3) | st for st in strategies]
            if m <= 10 and n <= 10: masks += [(DEFAULT_MASK & ~3) | 1, (DEFAULT_MASK & ~3) | 2]
            ops.append("tuall %s %d %s" % (mt, len(masks), " ".join(map(str, masks))))
    return ops


@check("C10")
def c10(run):
    quick = run.tier == "quick"
    rng = run.rng
    lines = []
    ninst = 240 if quick else 2400
    maxsize = 100 if quick else 160      # (300 ran into the per-op watchdog on a loaded machine: assertion builds re-check consistency at every step)
    for k in range(ninst):
        signed = rng.random() < 0.5
        small = rng.random() < 0.25
        size = rng.randint(3, 5) if small else rng.randint(6, maxsize)
        M = c10_instance(rng, signed, size)
        m, n = len(M), len(M[0])
        recs = ["tu", "net", "con", "spt"] if signed else ["reg", "gra", "cog", "spb", "tu", "net", "con"]
        if m <= 9 and n <= 9:
            recs += ["bal", "cam"] if signed else ["bal"]
        mask = DEFAULT_MASK
        if rng.random() < 0.5:
            mask = (rng.getrandbits(13) & ~3 & ~(B_STOP_IRR | B_STOP_NG | B_STOP_NCG | B_STOP_NEITHER)) | strategy(rng.randrange(5))
            mask |= B_SP | B_DIRECT     # D7/D7b: the configurations without these abort on series-parallel inputs (known findings)
            if rng.random() < 0.3:
                mask &= ~B_DIRECT       # sequence mode of the (co)graphicness tests; aborts of D7 are matched as known findings
            if not signed: mask &= ~B_TERNARY
        if signed: mask |= B_TERNARY
        if m <= 6 and n <= 6 and rng.random() < 0.5:
            mask = (mask & ~3) | rng.choice((1, 2))
        mask |= (rng.randrange(2) << 20) | (rng.getrandbits(1) << 22)     # balanced: AUTO or SUBMATRIX (GRAPH is not implemented), seriesParallel
        ntr_total = 16 if quick else 48
        per = 4
        mt = mat_tokens(m, n, flat_of(M))
        for _ in range(ntr_total // per):
            gs = [c10_transformation(rng, m, n, signed, M) for _ in range(per)]
            lines.append("rel %d %s %s %d %s" % (mask, ",".join(recs), mt, per, " ".join(gs)))
    # many presentations of one (co)network matrix: permutations only, the four graph-based recognizers
    pres = []
    for _ in range(300 if quick else 3000):
        signed = rng.random() < 0.5
        M = net_piece(rng, signed, 8, 22) if rng.random() < 0.5 else rows_of(*(lambda t: (t[0], t[1], t[2]))(glued_cycle_matrix(rng, rng.choice((2, 3)), signed)))
        m, n = len(M), len(M[0])
        gs = []
        for _ in range(8):
            rp = list(range(m)); cp = list(range(n)); rng.shuffle(rp); rng.shuffle(cp)
            g = "P %s %s" % (" ".join(map(str, rp)), " ".join(map(str, cp)))
            gs.append("2 %s T" % g if rng.random() < 0.3 else "1 %s" % g)
        pres.append("rel %d %s %s %d %s" % (DEFAULT_MASK if signed else DEFAULT_MASK & ~B_TERNARY, "net,con,gra,cog" if not signed else "net,con",
                                            mat_tokens(m, n, flat_of(M)), len(gs), " ".join(gs)))
    run.batch("presentations-of-network-matrices", pres, "plain")
    # many presentations of regular matrices that are neither graphic nor cographic (the 3-separation search depends on the line order)
    pres2 = []
    for _ in range(500 if quick else 6000):
        M = regular_by_construction(rng, 3, 6, 1)
        M = represent(rng, M, False, rng.choice((0, 1, 2)))
        m, n = len(M), len(M[0])
        gs = []
        for _ in range(8):
            rp = list(range(m)); cp = list(range(n)); rng.shuffle(rp); rng.shuffle(cp)
            g = "P %s %s" % (" ".join(map(str, rp)), " ".join(map(str, cp)))
            gs.append("2 %s T" % g if rng.random() < 0.4 else "1 %s" % g)
        mask = (DEFAULT_MASK | strategy(rng.randrange(5))) & ~B_TERNARY
        pres2.append("rel %d reg %s %d %s" % (mask, mat_tokens(m, n, flat_of(M)), len(gs), " ".join(gs)))
    run.batch("presentations-of-regular-matrices", pres2, "plain")
    cut = len(lines) * 3 // 4
    run.batch("transformations", lines[:cut], "plain")
    run.batch("transformations-sanitized", lines[cut:], "asan")
    # sums of instances
    sums = []
    for _ in range(150 if quick else 2000):
        signed = rng.random() < 0.5
        size = rng.randint(3, 16 if quick else 60)
        A = c10_instance(rng, signed, size); B = c10_instance(rng, signed, size)
        recs = ["tu", "net", "con", "spt"] if signed else ["reg", "gra", "cog", "spb", "tu"]
        mask = DEFAULT_MASK if signed else DEFAULT_MASK & ~B_TERNARY
        ch = 3 if signed else 2
        ma, na, mb, nb = len(A), len(A[0]), len(B), len(B[0])
        if rng.random() < 0.3:
            sums.append("relsum %d %s 1 %d %s %s" % (mask, ",".join(recs), ch, mat_tokens(ma, na, flat_of(A)), mat_tokens(mb, nb, flat_of(B))))
        else:
            if rng.random() < 0.5: s = [rng.randrange(ma), -1, -1, rng.randrange(nb)]
            else: s = [-1, rng.randrange(na), rng.randrange(mb), -1]
            sums.append("relsum %d %s 2 %d %s %s %s" % (mask, ",".join(recs), ch, mat_tokens(ma, na, flat_of(A)), mat_tokens(mb, nb, flat_of(B)), " ".join(map(str, s))))
    for _ in range(100 if quick else 1500):
        hi = 10 if quick else 40
        A, r1, ca, cb = delta_operand(rng, 3, hi)
        B, r2, cd, cc = delta_operand(rng, 3, hi)     # second operand: (eps;d) column is the one with 1, (0;d) the one with 0
        mask = DEFAULT_MASK & ~B_TERNARY
        if rng.random() < 0.5:
            sums.append("relsum %d reg,gra,tu D 2 %s %s %d %d %d %d %d %d" % (mask, mat_tokens(len(A), len(A[0]), flat_of(A)),
                        mat_tokens(len(B), len(B[0]), flat_of(B)), r1, ca, cb, r2, cc, cd))
        else:
            At = [list(c) for c in zip(*A)]; Bt = [list(c) for c in zip(*B)]
            sums.append("relsum %d reg,cog,tu Y 2 %s %s %d %d %d %d %d %d" % (mask, mat_tokens(len(At), len(At[0]), flat_of(At)),
                        mat_tokens(len(Bt), len(Bt[0]), flat_of(Bt)), ca, cb, r1, cc, cd, r2))
    run.batch("sums", sums, "plain")
    return dict(rule="instances: (transposed) network / graphic matrices of random (di)graphs with random spanning forests, R10, R12, planted F7 / "
                "wheel blocks and 1-/2-sums of those, 0-3 corrupted entries, lines shuffled (quick up to ~60, thorough up to ~300 lines); each "
                "with seeded composite transformations (transpose, permutation, line negation, insertion of zero / unit / duplicate lines, "
                "submatrix, GF(2)/GF(3) pivot; applied through CMRchrmatTranspose/Permute/Slice/BinaryPivot/TernaryPivot where the API has "
                "them) under seeded option masks: the transformed matrix must equal the Lean model's, and for every class the verdicts on M "
                "and g(M) must satisfy the relation of Cmr.Rel.stepsRel (equal, dual class after transposition, yes => yes for submatrices). "
                "Sums: 1-/2-sums of two instances and delta-/Y-sums of graphic operands built around a triangle, composed by the library, compared "
                "with the composition model, verdicts related by Cmr.Rel.sumRel. Non-trivial = at least one relation checked; distinct by line.",
                assumptions=["the relations themselves are classical matroid theory (closure of the classes under the operations); those proved in "
                             "Lean are listed in Props/C10.lean, the others (pivot invariance, 2-/3-sum closure of graphic/network/regular, "
                             "series-parallel basis independence) are trusted mathematics",
                             "option masks with seriesParallel or directGraphicness off are excluded (known findings D7/D7b abort there)"])
