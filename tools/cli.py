#!/usr/bin/env python3
"""CLI layer of the correspondence: the same op lines that the in-process harness answers are answered by the command-line tools
(src/main/*.c, built from the working tree by cmrbuild with the flavour's sanitizers) and mapped to the harness' result format, so that
the Lean judge decides them with the same model functions.  Covers option parsing, file readers/writers and the glue of the tools.

Supported op families (others are answered 'skip-cli'):
  tu <mask> M            cmr-tu        (--algo, --decompose, --no-direct-graphic, --no-series-parallel, --no-planarity, --naive-submatrix, -N)
  regular <mask> M       cmr-regular   (--decompose, --no-direct-graphic, --no-series-parallel)
  graphic <t> 0 0 M      cmr-graphic   ([-t])
  network <t> 0 0 M      cmr-network   ([-t]) + cmr-graphic on the support for the supp= token
  sp <bin|ter> test <outs> -1 M        cmr-series-parallel ([-b], -S, -R, -N)
  camion test <wantsub> M              cmr-camion ([-N])
  balanced <alg> <sp> <preset> <wantsub> M   cmr-balanced ([--algorithm submatrix] [--no-series-parallel] [-N])
  ctu <mask> M           cmr-ctu       (-n, -N)
  equimod <e|es|u|us> 0 M              cmr-equimodular ([-s] [-u])
  mat <transpose|support|ssupport|copy> <c|i> M    cmr-matrix ([-t] [-c] [-C]), also with sparse in/out formats
"""
import os, re, subprocess, tempfile
from concurrent.futures import ThreadPoolExecutor

TRAILER = " ;; st=0,0,0,0 in=0 clk=0,0"
STRATEGY = {0: "D3", 1: "Y3", 2: "DP", 3: "YP", 4: "P3"}


def dense_text(m, n, e):
    return "%d %d\n" % (m, n) + "".join(" ".join(str(x) for x in e[i * n:(i + 1) * n]) + "\n" for i in range(m))


def sparse_text(m, n, e):
    nz = [(i, j, e[i * n + j]) for i in range(m) for j in range(n) if e[i * n + j] != 0]
    return "%d %d %d\n" % (m, n, len(nz)) + "".join("%d %d %d\n" % (i + 1, j + 1, v) for i, j, v in nz)


def parse_dense(txt):
    t = txt.split()
    if len(t) < 2: return None
    m, n = int(t[0]), int(t[1])
    v = [int(float(x)) for x in t[2:2 + m * n]]
    if len(v) != m * n: return None
    return m, n, v


def csr_tokens(m, n, v):
    sl = [0]; cols = []; vals = []
    for i in range(m):
        for j in range(n):
            if v[i * n + j] != 0:
                cols.append(j); vals.append(v[i * n + j])
        sl.append(len(cols))
    return " M %d %d %d | %s | %s | %s" % (m, n, len(cols), " ".join(map(str, sl)), " ".join(map(str, cols)), " ".join(map(str, vals)))


def parse_submat(txt):
    """submatrix file: 'm n r c' / rows / columns (1-based) -> ' S r c rows.. cols..' (0-based)"""
    t = txt.split()
    if len(t) < 4: return " -"
    r, c = int(t[2]), int(t[3])
    idx = [int(x) - 1 for x in t[4:4 + r + c]]
    if len(idx) != r + c: return " S? malformed"
    return " S %d %d %s" % (r, c, " ".join(map(str, idx)))


def elem(tok):
    return -int(tok[1:]) if tok[0] == "r" else int(tok[1:])


def parse_reductions(txt):
    lines = [l.strip() for l in txt.strip().split("\n") if l.strip()]
    if not lines: return None
    k = int(lines[0])
    out = []
    for l in lines[1:1 + k]:
        p = l.split()
        e = elem(p[0])
        if p[1] == "zero": mate = 0
        else: mate = elem(p[-1])
        out.append("%d %d" % (e, mate))
    return " R %d %s" % (k, " ".join(out)) if out else " R %d" % k


class Tools:
    def __init__(self, tooldir, env):
        self.d, self.env = tooldir, env

    def run(self, tool, args, cwd):
        p = subprocess.run([os.path.join(self.d, tool)] + args, cwd=cwd, stdout=subprocess.PIPE, stderr=subprocess.PIPE, text=True,
                           env=self.env, timeout=120, errors="replace")
        # the tools print their messages partly to stdout and partly to stderr
        return p.returncode, p.stdout + "\n" + p.stderr, p.stderr


def error_exit_only_leaks(rc, err):
    """a tool that ends with an error message and a nonzero status does not release its environment: LeakSanitizer's report at
    such an exit is not counted (the library-level checks cover leaks of the library on error paths)"""
    return rc != 0 and "LeakSanitizer" in err and "ERROR: AddressSanitizer" not in err and "runtime error" not in err and \
        re.search(r"[Ee]rror|[Oo]verflow|Could not|Invalid|Inconsistent|Time limit", err) is not None


def error_exit(op, tk, e, rc, err):
    """a tool ended with an error status and no sanitizer report: fine (and not judged) when the input is outside the tool's documented
    domain, a failure when the input is valid"""
    kind = tk[1] if op == "sp" else ""
    binary_only = op in ("regular", "graphic", "ctu") or (op == "sp" and kind == "bin")
    allowed = (0, 1) if binary_only else (-1, 0, 1)
    if op in ("equimod", "mat", "repmat") or all(x in allowed for x in e):
        last = [l for l in err.strip().split("\n") if l.strip()]
        return "crash:cli rc=%d error-exit-on-valid-input[%s]" % (rc, (last[-1] if last else "").replace(" ", "_")[:100])
    return "skip-cli"


def crash_summary(rc, err):
    m = re.search(r"Assertion `(.*?)' failed", err)
    if m: return "crash:cli rc=%d assert[%s]" % (rc, m.group(1).replace(" ", "_")[:80])
    m = re.search(r"ERROR: (AddressSanitizer|LeakSanitizer): ([^\n]*)", err)
    if m:
        fr = re.findall(r"#\d+ 0x[0-9a-f]+ in (\w+) [^\n]*?(\w+\.c):\d+", err)
        top = fr[0] if fr else ("?", "?")
        return "crash:cli rc=%d %s[%s:%s:%s]" % (rc, m.group(1), m.group(2).split(" on ")[0].split(":")[0].strip().replace(" ", "-")[:40], top[1], top[0])
    m = re.search(r"(\w+\.c):(\d+):\d+: runtime error: ([^\n]*)", err)
    if m: return "crash:cli rc=%d ubsan[%s:%s]" % (rc, m.group(1), m.group(3).replace(" ", "_")[:70])
    last = [l for l in err.strip().split("\n") if l.strip()]
    return "crash:cli rc=%d stderr[%s]" % (rc, (last[-1] if last else "").replace(" ", "_")[:100])


def mat_from(tokens, pos):
    m, n = int(tokens[pos]), int(tokens[pos + 1])
    e = [int(x) for x in tokens[pos + 2:pos + 2 + m * n]]
    return m, n, e, pos + 2 + m * n


def one_op(T, line, k):
    tk = [t for t in line.split() if not t.startswith("@")]
    if not tk: return "skip-cli"
    op = tk[0]
    e = []
    with tempfile.TemporaryDirectory(prefix="cmrcli") as d:
        def write(name, txt):
            open(os.path.join(d, name), "w").write(txt)
        def read(name):
            p = os.path.join(d, name)
            return open(p).read() if os.path.exists(p) else ""
        sparse_in = (k % 3 == 1)        # a third of the ops go through the sparse reader
        def matfile(m, n, e, name="in.txt"):
            write(name, sparse_text(m, n, e) if sparse_in else dense_text(m, n, e))
            return [name] + (["-i", "sparse"] if sparse_in else [])
        try:
            if op in ("tu", "regular"):
                mask = int(tk[1]); m, n, e, _ = mat_from(tk, 2)
                args = matfile(m, n, e)
                st = (mask >> 13) & 7
                if st not in STRATEGY: return "skip-cli"
                args += ["--decompose", STRATEGY[st]]
                if not (mask >> 11) & 1: args.append("--no-direct-graphic")
                if not (mask >> 9) & 1: args.append("--no-series-parallel")
                if op == "tu":
                    if not (mask >> 10) & 1: args.append("--no-planarity")
                    if (mask >> 4) & 1: args.append("--naive-submatrix")
                    args += ["--algo", ("decomposition", "eulerian", "partition")[mask & 3]]
                    if (mask >> 18) & 1: args += ["-N", "sub.txt"]
                rc, out, err = T.run("cmr-" + op, args, d)
                word = "totally unimodular" if op == "tu" else "regular"
                mm = re.search(r"Matrix IS( NOT)? %s" % word, out)
                if rc != 0 or not mm:
                    # documented input errors (non-ternary / non-binary input) are answered by a message and a nonzero status
                    if rc != 0 and (error_exit_only_leaks(rc, err) or not re.search(r"Sanitizer|Assertion|runtime error", err)): return error_exit(op, tk, e, rc, err)
                    return crash_summary(rc, err)
                v = "no" if mm.group(1) else "yes"
                sub = parse_submat(read("sub.txt")) if (op == "tu" and (mask >> 18) & 1 and v == "no") else " -"
                return "ok %s%s -" % (v, sub) + TRAILER
            if op in ("graphic", "network"):
                t = int(tk[1]); m, n, e, _ = mat_from(tk, 4)
                if tk[2] != "0" or tk[3] != "0": return "skip-cli"
                args = matfile(m, n, e) + (["-t"] if t else [])
                rc, out, err = T.run("cmr-" + op, args, d)
                word = {("graphic", 0): "graphic", ("graphic", 1): "cographic", ("network", 0): "network", ("network", 1): "conetwork"}[(op, t)]
                # "Matrix IS graphic." / "Matrix is NOT conetwork." / "Matrix is NOT cographic since it is not binary: …"
                mm = re.search(r"Matrix (?:IS|is)( NOT)? (?:co)?(?:graphic|network)", out)
                if rc != 0 or not mm:
                    if rc != 0 and (error_exit_only_leaks(rc, err) or not re.search(r"Sanitizer|Assertion|runtime error", err)): return error_exit(op, tk, e, rc, err)
                    return crash_summary(rc, err)
                v = "no" if mm.group(1) else "yes"
                if op == "graphic":
                    return "ok %s - -" % v + TRAILER
                write("supp.txt", dense_text(m, n, [1 if x else 0 for x in e]))
                rc2, out2, err2 = T.run("cmr-graphic", ["supp.txt"] + (["-t"] if t else []), d)
                m2 = re.search(r"Matrix (?:IS|is)( NOT)? (?:co)?graphic", out2)
                if rc2 != 0 or not m2: return crash_summary(rc2, err2)
                return "ok %s supp=%s - -" % (v, "no" if m2.group(1) else "yes") + TRAILER
            if op == "sp":
                kind, fn, outs = tk[1], tk[2], int(tk[3])
                if fn != "test" or tk[4] != "-1": return "skip-cli"
                m, n, e, _ = mat_from(tk, 5)
                args = matfile(m, n, e) + (["-b"] if kind == "bin" else [])
                if outs & 2: args += ["-S", "red.txt"]
                if outs & 4: args += ["-R", "reduced.txt"]
                if outs & 8: args += ["-N", "viol.txt"]
                rc, out, err = T.run("cmr-series-parallel", args, d)
                mm = re.search(r"Matrix (?:IS|is)( NOT)? series-parallel", out)
                if rc != 0 or not mm:
                    if rc != 0 and (error_exit_only_leaks(rc, err) or not re.search(r"Sanitizer|Assertion|runtime error", err)): return error_exit(op, tk, e, rc, err)
                    return crash_summary(rc, err)
                v = "no" if mm.group(1) else "yes"
                res = "ok %s" % v
                res += (parse_reductions(read("red.txt")) or " R -1") if outs & 2 else " -"
                res += parse_submat(read("reduced.txt")) if outs & 4 else " -"
                res += (parse_submat(read("viol.txt")) if (outs & 8 and v == "no") else " -")
                return res + " -" + TRAILER
            if op == "camion":
                if tk[1] != "test": return "skip-cli"
                want = int(tk[2]); m, n, e, _ = mat_from(tk, 3)
                args = matfile(m, n, e) + (["-N", "sub.txt"] if want else [])
                rc, out, err = T.run("cmr-camion", args, d)
                mm = re.search(r"Matrix IS( NOT)? Camion-signed", out)
                if rc != 0 or not mm:
                    if rc != 0 and (error_exit_only_leaks(rc, err) or not re.search(r"Sanitizer|Assertion|runtime error", err)): return error_exit(op, tk, e, rc, err)
                    return crash_summary(rc, err)
                v = "no" if mm.group(1) else "yes"
                return "ok %s%s" % (v, parse_submat(read("sub.txt")) if want and v == "no" else " -") + TRAILER
            if op == "balanced":
                alg, sp, preset, want = int(tk[1]), int(tk[2]), int(tk[3]), int(tk[4])
                if alg not in (0, 1): return "skip-cli"
                m, n, e, _ = mat_from(tk, 5)
                args = matfile(m, n, e) + (["--algorithm", "submatrix"] if alg == 1 else []) + ([] if sp else ["--no-series-parallel"])
                if want: args += ["-N", "sub.txt"]
                rc, out, err = T.run("cmr-balanced", args, d)
                mm = re.search(r"Matrix IS( NOT)? balanced", out)
                if rc != 0 or not mm:
                    if rc != 0 and (error_exit_only_leaks(rc, err) or not re.search(r"Sanitizer|Assertion|runtime error", err)): return error_exit(op, tk, e, rc, err)
                    return crash_summary(rc, err)
                v = "no" if mm.group(1) else "yes"
                return "ok %s%s" % (v, parse_submat(read("sub.txt")) if want and v == "no" else " -") + TRAILER
            if op == "ctu":
                m, n, e, _ = mat_from(tk, 2)
                args = matfile(m, n, e) + ["-n", "ops.txt", "-N", "comp.txt", "-o", "dense"]
                rc, out, err = T.run("cmr-ctu", args, d)
                mm = re.search(r"Matrix IS( NOT)? complement totally unimodular", out)
                if rc != 0 or not mm:
                    if rc != 0 and (error_exit_only_leaks(rc, err) or not re.search(r"Sanitizer|Assertion|runtime error", err)): return error_exit(op, tk, e, rc, err)
                    return crash_summary(rc, err)
                if not mm.group(1):
                    return "ok yes 777777 777777" + TRAILER       # the library does not write the witness for 'yes' either
                ops = read("ops.txt")
                r = re.search(r"Complement row (\d+)", ops); c = re.search(r"Complement column (\d+)", ops)
                rr = int(r.group(1)) - 1 if r else -1; cc = int(c.group(1)) - 1 if c else -1
                comp = parse_dense(read("comp.txt"))
                return "ok no %d %d%s" % (rr, cc, csr_tokens(*comp) if comp else " err:no-matrix-written") + TRAILER
            if op == "equimod":
                fn = tk[1]
                if tk[2] != "0": return "skip-cli"
                m, n, e, _ = mat_from(tk, 3)
                args = matfile(m, n, e) + (["-s"] if "s" in fn else []) + (["-u"] if "u" in fn else [])
                rc, out, err = T.run("cmr-equimodular", args, d)
                if rc != 0:
                    if re.search(r"[Oo]verflow", out + err) and (error_exit_only_leaks(rc, err) or not re.search(r"Sanitizer|Assertion|runtime error", err)): return "err:OVERFLOW" + TRAILER
                    if error_exit_only_leaks(rc, err) or not re.search(r"Sanitizer|Assertion|runtime error", err): return error_exit(op, tk, e, rc, err)
                    return crash_summary(rc, err)
                word = "unimodular" if "u" in fn else "equimodular"
                if "s" in fn:
                    mm = re.search(r"The matrix is( NOT)? strongly %s" % word, out)
                    kk2 = re.search(r"strongly equimodular with k = (-?\d+)", out)
                    if not mm:      # a first failing test ends the run without the summary line
                        mm = re.search(r"that it is( NOT)? %s" % word, out)
                else:
                    mm = re.search(r"that it is( NOT)? %s" % word, out)
                if not mm: return crash_summary(rc, "unparsed output: " + out[-200:])
                kk = re.search(r"determinant gcd (-?\d+)", out)
                v = "no" if mm.group(1) else "yes"
                if "u" in fn:
                    g = "-1"            # the unimodular variants report no determinant gcd (the harness prints -1 for 'not reported')
                else:
                    g = (kk.group(1) if kk else "0") if v == "yes" else "0"
                return "ok %s %s" % (v, g) + TRAILER
            if op == "repmat":
                directed, outs = int(tk[1]), int(tk[2])
                nn, ne = int(tk[3]), int(tk[4])
                es = [(int(tk[5 + 3 * i]), int(tk[6 + 3 * i]), int(tk[7 + 3 * i])) for i in range(ne)]
                pos = 5 + 3 * ne
                nF = int(tk[pos]); F = [int(x) for x in tk[pos + 1:pos + 1 + max(nF, 0)]]; pos += 1 + max(nF, 0)
                nK = int(tk[pos]); K = [int(x) for x in tk[pos + 1:pos + 1 + max(nK, 0)]]
                if nF < 0 or nK < 0 or sorted(F + K) != list(range(ne)) or ne == 0: return "skip-cli"
                # node names that are not sequential numbers (the reader hashes them)
                import hashlib
                names = ["n%s" % hashlib.md5(("%d/%d" % (k, v)).encode()).hexdigest()[:(3 + v % 3)] for v in range(nn)]
                if len(set(names)) != nn: return "skip-cli"
                label = {}
                for i, e in enumerate(F): label[e] = "r%d" % (i + 1)
                for i, e in enumerate(K): label[e] = "c%d" % (i + 1)
                txt = ""
                for i, (u, v, r) in enumerate(es):
                    a, b = (v, u) if (r and directed) else (u, v)
                    txt += "%s %s %s\n" % (names[a], names[b], label[i])
                write("graph.txt", txt)
                transposed = (outs == 2)
                args = ["-c", "graph.txt", "out.txt", "-o", "dense"] + (["-t"] if transposed else [])
                rc, out, err = T.run("cmr-network" if directed else "cmr-graphic", args, d)
                res = parse_dense(read("out.txt"))
                if rc != 0 or res is None:
                    if rc != 0 and (error_exit_only_leaks(rc, err) or not re.search(r"Sanitizer|Assertion|runtime error", err)): return error_exit(op, tk, e, rc, err)
                    return crash_summary(rc, err or "no output matrix")
                # isolated nodes do not appear in an edge list: the judge is told the number of nodes that do
                return "ok correct=?%s%s" % ((" -" + csr_tokens(*res)) if transposed else (csr_tokens(*res) + " -"), "") + TRAILER
            if op == "mat":
                what, ty = tk[1], tk[2]
                if ty not in ("c", "i") or what not in ("transpose", "support", "ssupport", "copy"): return "skip-cli"
                m, n, e, _ = mat_from(tk, 3)
                if any(abs(x) > 2 ** 31 - 1 for x in e): return "skip-cli"
                args = matfile(m, n, e) + ["out.txt", "-o", "dense"] + {"transpose": ["-t"], "support": ["-c"], "ssupport": ["-C"], "copy": []}[what]
                rc, out, err = T.run("cmr-matrix", args, d)
                res = parse_dense(read("out.txt"))
                if rc != 0 or res is None:
                    if rc != 0 and (error_exit_only_leaks(rc, err) or not re.search(r"Sanitizer|Assertion|runtime error", err)): return error_exit(op, tk, e, rc, err)
                    return crash_summary(rc, err or "no output matrix")
                return "ok" + csr_tokens(*res) + TRAILER
        except subprocess.TimeoutExpired:
            return "crash:cli timeout"
        except (ValueError, IndexError) as ex:
            return "crash:cli unparsed[%s]" % str(ex).replace(" ", "_")[:80]
    return "skip-cli"


def run_cli(tooldir, lines, env, nproc=16):
    T = Tools(tooldir, env)
    import hashlib
    # the per-op variation (input format, node names) derives from the op line itself, so that a replay reproduces it
    key = lambda l: int(hashlib.md5(l.encode()).hexdigest()[:8], 16)
    with ThreadPoolExecutor(nproc) as ex:
        return list(ex.map(lambda l: one_op(T, l, key(l)), lines))
