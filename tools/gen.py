"""Seeded generators of operation lines (exhaustive small domains and structured random instances)."""
import itertools, random

DEFAULT_MASK = 4 + 8 + 512 + 2048 + 4096      # ternary, camionFirst, seriesParallel, directGraphicness, preferGraphicness
WANT_SUB = 1 << 18
WANT_TREE = 1 << 19
B_NAIVE = 1 << 4
B_TERNARY, B_CAMIONFIRST = 1 << 2, 1 << 3
B_STOP_IRR, B_STOP_NG, B_STOP_NCG, B_STOP_NEITHER = 1 << 5, 1 << 6, 1 << 7, 1 << 8
B_SP, B_PLANAR, B_DIRECT, B_PREFER = 1 << 9, 1 << 10, 1 << 11, 1 << 12
B_LEAFGRAPHS, B_ALLGRAPHS = 1 << 16, 1 << 17


def strategy(i):
    return i << 13


def mat_tokens(m, n, entries):
    return "%d %d %s" % (m, n, " ".join(map(str, entries))) if m * n else "%d %d" % (m, n)


def all_mats(m, n, vals):
    """all m x n matrices with entries from vals, as flat tuples"""
    return itertools.product(vals, repeat=m * n)


def shapes(maxm, maxn, minm=0, minn=0):
    return [(m, n) for m in range(minm, maxm + 1) for n in range(minn, maxn + 1)]


def rand_mat(rng, m, n, vals, density):
    return [rng.choice(vals) if rng.random() < density else 0 for _ in range(m * n)]


def canon_rowcol(m, n, e):
    """cheap canonical form under row/column permutation for dedup (sort rows, then columns, iterate twice)"""
    rows = [tuple(e[i * n:(i + 1) * n]) for i in range(m)]
    for _ in range(3):
        rows = sorted(rows)
        cols = sorted(zip(*rows)) if rows and n else []
        rows = [tuple(r) for r in zip(*cols)] if cols else rows
    return tuple(rows)


def option_masks(rng, tier, base=DEFAULT_MASK, algos=(0,), allow_bad=True):
    """defaults + every single-flag deviation + seeded random masks"""
    masks = [base]
    if base == DEFAULT_MASK:
        # the same options through the library's own defaults (bit 23: the harness overrides nothing after *ParamsInit) and through
        # params = NULL (bit 24); the judge reads the default bits
        masks += [base | (1 << 23), base | (1 << 24)]
    for b in (B_TERNARY, B_CAMIONFIRST, B_NAIVE, B_STOP_IRR, B_SP, B_PLANAR, B_DIRECT, B_PREFER, B_LEAFGRAPHS, B_ALLGRAPHS):
        masks.append(base ^ b)
    for s in (1, 2, 3, 4):
        masks.append(base | strategy(s))
    for a in algos:
        if a:
            masks.append((base & ~3) | a)
    k = 32 if tier == "quick" else 256
    for _ in range(k):
        mk = rng.getrandbits(13) & ~3 & ~(B_STOP_NG | B_STOP_NCG | B_STOP_NEITHER)
        mk |= rng.choice(algos)
        mk |= strategy(rng.randrange(5))
        mk |= rng.getrandbits(2) << 16
        masks.append(mk)
    return masks


# ---------------------------------------------------------------------------------------------------------------
# graphs
# ---------------------------------------------------------------------------------------------------------------

def rand_multigraph(rng, nn, ne, loops=True):
    edges = []
    for _ in range(ne):
        u = rng.randrange(nn)
        v = rng.randrange(nn) if loops or nn == 1 else rng.choice([x for x in range(nn) if x != u])
        edges.append((u, v))
    return edges


def spanning_forest(rng, nn, edges):
    """random spanning forest (edge indices) by union-find over a shuffled edge order"""
    parent = list(range(nn))

    def find(x):
        while parent[x] != x:
            parent[x] = parent[parent[x]]
            x = parent[x]
        return x
    order = list(range(len(edges)))
    rng.shuffle(order)
    forest = []
    for i in order:
        u, v = edges[i]
        a, b = find(u), find(v)
        if a != b:
            parent[a] = b
            forest.append(i)
    return forest


def cycle_matrix(nn, edges, forest, coforest, signed=False, rev=None):
    """fundamental cycle matrix (rows: forest order, columns: coforest order); generator-side helper, not an oracle"""
    adj = {}
    for k, i in enumerate(forest):
        u, v = edges[i]
        if rev and rev[i]:
            u, v = v, u
        adj.setdefault(u, []).append((v, k, 1))
        adj.setdefault(v, []).append((u, k, -1))
    cols = []
    for j in coforest:
        s, t = edges[j]
        if rev and rev[j]:
            s, t = t, s
        col = [0] * len(forest)
        # DFS path s -> t
        stack = [(s, None, [])]
        seen = {s}
        found = None
        while stack:
            x, _, path = stack.pop()
            if x == t:
                found = path
                break
            for (y, k, sg) in adj.get(x, []):
                if y not in seen:
                    seen.add(y)
                    stack.append((y, k, path + [(k, sg)]))
        for (k, sg) in (found or []):
            col[k] = sg if signed else 1
        cols.append(col)
    m, n = len(forest), len(coforest)
    return [cols[j][i] for i in range(m) for j in range(n)]
