#!/usr/bin/env python3
"""Regenerates MANIFEST.json from the table below (kept next to the checks so the two cannot drift)."""
import json, os, sys
VERIF = os.path.dirname(os.path.dirname(os.path.abspath(__file__)))
sys.path.insert(0, os.path.join(VERIF, "tools"))

COMMON_NOTE = ("Trusted: Lean 4 kernel; axioms propext, Classical.choice, Quot.sound (audited with #print axioms on every run; "
               "no sorry/admit/native_decide/own axioms); Mathlib's Matrix.det / IsTotallyUnimodular as the meaning of the terms; the "
               "correspondence plumbing (harness/*.c, tools/*.py, gcc, sanitizers). The C code is modelled, not verified: the theorem is about "
               "the Lean model and the judge; the tie to /repo is the correspondence run against the working tree on every run.")

CLAIMS = {
 "C15": dict(
   text="Proof: the complement operations are Lean functions with theorems for all shapes and all (row,column) choices (one-call form = "
        "row-then-column = column-then-row, involution on 0/1 matrices, closure in 0/1 matrices); the CTU oracle is proved equivalent to "
        "Mathlib's IsTotallyUnimodular of all (m+1)(n+1) complemented matrices; witness soundness. Tie: exact equality of "
        "CMRctuComplementRowColumn with the model on every 0/1 matrix up to 3x4 (thorough 4x4) x every choice, CMRctuTest verdict and "
        "witness against the oracle on the same domain, random larger instances under ASan/UBSan.",
   technique="Lean 4 theorems (complement algebra, CTU oracle = Mathlib TU) + exhaustive small-domain correspondence against the real library",
   design="5/C15"),
 "C13": dict(
   text="Proof: binary pivot = GF(2) basis exchange and an involution; ternary pivot = GF(3) exchange with the pivot column negated; "
        "pivoting twice = negating the pivot row and column; sequences are the left fold and reject zero pivots; the regular pivot returns a "
        "matrix iff the rational pivot stays ternary (then equal to the GF(3) pivot) and otherwise names a 2x2 submatrix with |det|>=2 — all "
        "for every shape and position. Tie: exact equality of CMRchrmat{Binary,Ternary,Regular}Pivot(s) with the model on every (zero and "
        "nonzero) position of exhaustive small domains and on seeded sequences. TU/regularity preservation by pivots is classical and not "
        "proved here (tested in C10).",
   technique="Lean 4 theorems about the pivot model + exhaustive small-domain exact correspondence", design="5/C13"),
 "C01": dict(
   text="Proof: the verdict demanded by the judge, isTU, is proved equal to Mathlib's Matrix.IsTotallyUnimodular for every shape (via "
        "detL = Matrix.det and reduction to strictly monotone index maps); non-ternary entries refute TU; empty shapes are TU; transposition "
        "invariance. The contract has no algorithm/parameter argument, so every algorithm x option mask must return this value. Tie: CMRtuTest "
        "under all three algorithms on exhaustive small ternary/binary domains and under the option product on seeded 3x3..7x7 matrices, "
        "ASan/UBSan. Correctness of Seymour's decomposition algorithm itself is not modelled.",
   technique="Lean 4 proof that the brute-force oracle is Mathlib's IsTotallyUnimodular + exhaustive/option-product correspondence", design="5/C01"),
 "C07": dict(
   text="Proof: a submatrix accepted by validViolator (in range, duplicate-free, |detL|>=2) refutes TU in Mathlib's sense; minimalViolator "
        "gives det=+-2 and TU of every one-row-one-column deletion. Tie: every 'no' of CMRtuTest with a submatrix requested (greedy and "
        "naive search, three algorithms, option masks) is validated by these deciders on the C01 domains.",
   technique="Lean 4 certificate-checker soundness theorems + validation of every returned violator", design="5/C07"),
 "C02": dict(
   text="Proof: the regularity oracle (row-by-row signing search with TU pruning) is proved sound and complete: isRegular M <-> M is 0/1 and "
        "some signing of its nonzeros is totally unimodular in Mathlib's sense (completeness uses that every row prefix of a TU matrix is TU); "
        "non-binary input is not regular; a binary TU matrix is regular. Tie: CMRregularTest on every 0/1 matrix up to 4x4 (thorough 4x5/5x4), "
        "seeded 5x5..6x6 matrices under option masks, non-binary inputs. The cross-check through Camion signing rests on Camion's theorem, "
        "which is tested (C09), not proved.",
   technique="Lean 4 soundness+completeness proof of the signing-search oracle + exhaustive small-domain correspondence", design="5/C02"),
 "C11": dict(
   text="Partial. Proof: the scratch allocator of env.c is transcribed (alloc/free/usage for both header sizes) with an invariant preserved by "
        "every step; alloc followed by free restores the observable state exactly; every well-bracketed alloc/free sequence restores it "
        "(balanced_restores, also for the inductive nesting formulation); alloc is total below 2^40; the model reproduces the misalignment "
        "defect. Tie: seeded alloc/free words replayed on the real allocator (assert and NDEBUG builds), usage and address alignment compared "
        "after every step; every public call of every op family is bracketed (usage before = after, LIFO order, depth 0) and runs under "
        "ASan+UBSan+LSan with poisoned red zones around scratch chunks. Memory safety of the 43k lines of C is observed on the explored "
        "inputs, not proved.",
   technique="Lean 4 invariant/refinement proof of the allocator model + exact replay on the real allocator + sanitizer-observed op sweep", design="5/C11"),
}

def main():
    import props
    checks = []
    for pid in sorted(CLAIMS):
        c = CLAIMS[pid]
        checks.append({
            "property_id": pid,
            "quick_cmd": "bin/check %s --tier quick" % pid,
            "thorough_cmd": "bin/check %s --tier thorough" % pid,
            "evidence_file": "evidence/%s.json" % pid,
            "replay_cmd_template": "bin/check %s --replay {path}" % pid,
            "engine": "lean4-proof+correspondence",
            "level_claimed": {"category": "proof", "text": c["text"], "design_ref": "DESIGN.md §" + c["design"]},
            "level_note": c.get("note", COMMON_NOTE),
            "technique": c["technique"],
        })
    allp = [json.loads(l)["id"] for l in open(os.path.join(VERIF, "properties.jsonl"))]
    na = [{"property_id": p, "reason": NOT_YET.get(p, "check under construction in this build round; the design in DESIGN.md §5 claims it, no command is registered until the check runs clean on the unchanged tree")}
          for p in allp if p not in CLAIMS]
    m = {
        "version": 1,
        "setup_cmd": "bin/setup",
        "hooks": {
            "guard": "DISCOPT_CMR_VERIF",
            "enable": "tools/cmrbuild.py compiles every library source of /repo's working tree with -DDISCOPT_CMR_VERIF (flavour 'hash' adds -DDISCOPT_CMR_VERIF_HASH_RANGE=7)",
            "baseline_off_cmd": "cmake -G Ninja -S /repo -B /repo/_build >/dev/null && cmake --build /repo/_build >/dev/null && ctest --test-dir /repo/_build -j8 --timeout 900",
            "source_commits": HOOK_COMMITS,
            "add_only": True,
        },
        "engines": [{"name": "lean4-proof+correspondence", "path": "lean/ harness/ tools/ bin/check",
                     "serves_properties": sorted(CLAIMS),
                     "kind_free_text": "Lean 4 model + theorems (lean/Cmr, lean/CmrProofs), compiled judge cmrmodel, C harness linked against objects built from /repo's working tree, Python plumbing"}],
        "checks": checks,
        "not_applicable": na,
        "notes": "See DESIGN.md. known_findings.json lists genuine defects (fixed ones suppress nothing).",
    }
    json.dump(m, open(os.path.join(VERIF, "MANIFEST.json"), "w"), indent=1)
    print("MANIFEST.json: %d checks, %d not_applicable" % (len(checks), len(na)))

NOT_YET = {}
HOOK_COMMITS = ["912646a"]
if __name__ == "__main__":
    main()
