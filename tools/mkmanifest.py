#!/usr/bin/env python3
"""Regenerates MANIFEST.json from the table below (kept next to the checks so the two cannot drift)."""
import json, os, sys
VERIF = os.path.dirname(os.path.dirname(os.path.abspath(__file__)))
sys.path.insert(0, os.path.join(VERIF, "tools"))

KERNEL_NOTE = (" Translation tie: tools/c2lean.py regenerates lean/CmrGen/Kernels.lean from /repo's headers on every run (projectSignedHash and its "
               "range macro, moduloTernary, moduloNonnegative, the row/column element encoding); Props/Kernels.lean proves, about the regenerated "
               "text, that hashing never overflows for the arguments its callers pass, yields the canonical residue and makes incremental "
               "updates consistent, that the modulo kernels are the model's field arithmetic and that the element encoding round-trips; when a "
               "kernel theorem stops checking, tools/kernels.py searches the real C kernels (UBSan) for a concrete failing input.")

COMMON_NOTE = ("Trusted: Lean 4 kernel; axioms propext, Classical.choice, Quot.sound (audited with #print axioms on every run; "
               "no sorry/admit/native_decide/own axioms); Mathlib's Matrix.det / IsTotallyUnimodular as the meaning of the terms; the "
               "correspondence plumbing (harness/*.c, tools/*.py, gcc, sanitizers). The C code is modelled, not verified: the theorem is about "
               "the Lean model and the judge; the tie to /repo is the correspondence run against the working tree on every run.")

CLAIMS = {
 "C15": dict(
   text="Proof: the complement operations are Lean functions with theorems for all shapes and all (row,column) choices (one-call form = "
        "row-then-column = column-then-row, involution on 0/1 matrices, closure in 0/1 matrices); the CTU oracle is proved equivalent to "
        "Mathlib's IsTotallyUnimodular of all (m+1)(n+1) complemented matrices; witness soundness. Tie: exact equality of "
        "CMRctuComplementRowColumn with the model on every 0/1 matrix up to 3x4 (thorough 4x4) x every choice, CMRctuTest verdict and "
        "witness against the oracle on the same domain, random larger instances under ASan/UBSan.",
   technique="Lean 4 theorems (complement algebra, CTU oracle = Mathlib TU) + exhaustive small-domain correspondence against the real library",
   design="5/C15"),
 "C13": dict(
   text="Proof: binary pivot = GF(2) basis exchange and an involution; ternary pivot = GF(3) exchange with the pivot column negated; "
        "pivoting twice = negating the pivot row and column; sequences are the left fold and reject zero pivots; the regular pivot returns a "
        "matrix iff the rational pivot stays ternary (then equal to the GF(3) pivot) and otherwise names a 2x2 submatrix with |det|>=2 — all "
        "for every shape and position. Tie: exact equality of CMRchrmat{Binary,Ternary,Regular}Pivot(s) with the model on every (zero and "
        "nonzero) position of exhaustive small domains and on seeded sequences. TU/regularity preservation by pivots is classical and not "
        "proved here (tested in C10).",
   technique="Lean 4 theorems about the pivot model + exhaustive small-domain exact correspondence", design="5/C13"),
 "C01": dict(
   text="Proof: the verdict demanded by the judge, isTU, is proved equal to Mathlib's Matrix.IsTotallyUnimodular for every shape (via "
        "detL = Matrix.det and reduction to strictly monotone index maps); non-ternary entries refute TU; empty shapes are TU; transposition "
        "invariance. The contract has no algorithm/parameter argument, so every algorithm x option mask must return this value. Tie: CMRtuTest "
        "under all three algorithms on exhaustive small ternary/binary domains and under the option product on seeded 3x3..7x7 matrices, "
        "ASan/UBSan. Correctness of Seymour's decomposition algorithm itself is not modelled.",
   technique="Lean 4 proof that the brute-force oracle is Mathlib's IsTotallyUnimodular + exhaustive/option-product correspondence", design="5/C01"),
 "C07": dict(
   text="Proof: a submatrix accepted by validViolator (in range, duplicate-free, |detL|>=2) refutes TU in Mathlib's sense; minimalViolator "
        "gives det=+-2 and TU of every one-row-one-column deletion. Tie: every 'no' of CMRtuTest with a submatrix requested (greedy and "
        "naive search, three algorithms, option masks) is validated by these deciders on the C01 domains. Extension C07Minimal: a ternary square "
        "matrix all of whose proper minors are 0,+-1 but which is not TU has determinant +-2 (Schur-complement induction), and every ternary "
        "non-TU matrix has a submatrix that the judge's minimalViolator accepts (isTU = false <-> such a certificate exists), so the judge's "
        "demand on violators is neither vacuous nor more than the library can meet.",
   technique="Lean 4 certificate-checker soundness theorems + validation of every returned violator", design="5/C07"),
 "C02": dict(
   text="Proof: the regularity oracle (row-by-row signing search with TU pruning) is proved sound and complete: isRegular M <-> M is 0/1 and "
        "some signing of its nonzeros is totally unimodular in Mathlib's sense (completeness uses that every row prefix of a TU matrix is TU); "
        "non-binary input is not regular; a binary TU matrix is regular. Tie: CMRregularTest on every 0/1 matrix up to 4x4 (thorough 4x5/5x4), "
        "seeded 5x5..6x6 matrices under option masks, non-binary inputs. The cross-check through Camion signing rests on Camion's theorem, "
        "which is tested (C09), not proved.",
   technique="Lean 4 soundness+completeness proof of the signing-search oracle + exhaustive small-domain correspondence", design="5/C02"),
 "C10": dict(
   text="Proof: the transformations (transpose, permutation, line negation, insertion of zero / +-unit / +-duplicate lines, submatrix, GF(2)/"
        "GF(3) pivot) are Lean functions (Cmr/Rel.lean) and the relation table the judge enforces is justified by theorems for all shapes: "
        "isTU is invariant under every table entry 'iff' (including the GF(3) pivot on ternary matrices) and monotone under submatrices; the "
        "same for the regularity oracle (via signability), for balancedness and for the series-parallel reduction oracle (via C08's "
        "confluence); transposition duality graphic/cographic, network/conetwork; 1-sum iff and 2-sum closure of TU (from C12); algebra of "
        "the table (composition of steps); C10Pivot: regularity of a 0/1 matrix is invariant under a GF(2) pivot (a TU signing pivots to a TU "
        "signing of the binary pivot), lifted to step lists with pivots; C10Sums: 1-sum iff and binary 2-sum closure of regularity; C10Graphic: the brute-force graphic / network oracles decide exactly "
        "'some tree realises every column as a (signed) path' (sound and complete), and that reading is invariant under permutation, zero / "
        "unit / duplicate line insertion (both signs for network), line negation (network), monotone under submatrices incl. row contraction, "
        "for graphic, cographic, network, conetwork and for step lists without pivots; C10GraphicSums: graphic and network matrices are closed "
        "under 1-sums (iff) and 2-sums in both layouts; C10SPSums: the same for binary and ternary series-parallel matrices; C10SPPivot: series-parallelness is invariant under GF(2) "
        "resp. GF(3) pivots of 0/1 resp. ternary matrices; C10GraphicPivot: graphic matrices are invariant under GF(2) pivots, network matrices "
        "under GF(3) pivots, C10CographicPivot: likewise cographic and conetwork matrices (transpose law of pivots). Not proved, classical "
        "matroid theory trusted: delta/Y/3-sum closure of regularity (Seymour). Tie: instances "
        "far beyond oracle size (network matrices of random digraphs, R10/R12, 1-/2-sums, corrupted entries; up to ~100 lines quick, ~160 "
        "thorough) with seeded composite transformations applied through CMRchrmatTranspose/Permute/Slice/BinaryPivot/TernaryPivot: the "
        "transformed matrix must equal the model's and all ten recognizers' verdicts on M and g(M) must satisfy the table; k-sums composed by "
        "the library are compared with the composition model and the verdicts of operands and sum related.",
   technique="Lean 4 invariance/closure theorems for the oracles under the transformation group + metamorphic relation check of all recognizers on large structured instances", design="5/C10"),
 "C11": dict(
   text="Partial. Proof: the scratch allocator of env.c is transcribed (alloc/free/usage for both header sizes) with an invariant preserved by "
        "every step; alloc followed by free restores the observable state exactly; every well-bracketed alloc/free sequence restores it "
        "(balanced_restores, also for the inductive nesting formulation); alloc is total below 2^40; the model reproduces the misalignment "
        "defect. Tie: seeded alloc/free words replayed on the real allocator (assert and NDEBUG builds), usage and address alignment compared "
        "after every step; every public call of every op family is bracketed (usage before = after, LIFO order, depth 0) and runs under "
        "ASan+UBSan+LSan with poisoned red zones around scratch chunks. Memory safety of the 43k lines of C is observed on the explored "
        "inputs, not proved.",
   technique="Lean 4 invariant/refinement proof of the allocator model + exact replay on the real allocator + sanitizer-observed op sweep", design="5/C11"),
 "C03": dict(
   text="Proof: the tree checker checkTree (Cmr/Tree.lean) accepts a dumped tree iff every node passes checkRecompose and checkFlags; "
        "checkRecompose = ok is unfolded, per node kind, into the declarative statement of the property: leaves have no children; children "
        "exist, are over the same field and have consistent matrices; a pivot child equals the GF(2)/GF(3) pivot sequence applied to the "
        "parent; a series-parallel node's reduction list is a valid reduction sequence whose remainder is the child (or empty: the matrix "
        "is series-parallel); 1-sum blocks partition rows and columns; 2-, delta-, Y- and 3-sum children satisfy the documented composition "
        "formula of C12 (composeX ... = ok P with P a line permutation of the parent given by the child maps). Partial TU certification "
        "(C03TU.lean): a node is TU whenever its children are, for every inner node kind of ternary trees (series-parallel, pivot, 1-, 2-, "
        "delta-, Y- and 3-sum; via C12, C12Delta, C12Three and the pivot theorem of C10), hence every ternary tree accepted by the checker "
        "whose leaves are TU certifies that every node, in particular the root, is TU (tree_TU_partial4; remaining hypotheses: TU of the "
        "leaves, ternary entries, and the pre-order id invariant, which the judge checks on every dumped tree; binary trees excluded). Tie: every tree returned by CMRtuTest / CMRregularTest "
        "(all strategies and option masks, small exhaustive and seeded matrices, sums of R10/R12/network blocks) and by "
        "complete/refine histories is dumped in full (types, flags, matrices, child maps, special lines, pivots, reductions read through "
        "seymour_internal.h) and run through the checker.",
   technique="Lean 4 theorems unfolding the executable tree checker into the property's clauses + validation of every returned decomposition tree", design="5/C03"),
 "C04": dict(
   text="Proof: checkFlags = ok iff FlagsOk (declarative): graph certificates of leaves reproduce the node's matrix (sound via C05's certificate "
        "theorem), stored determinant minors have |det| >= 2 and refute TU (Mathlib sense), positive regularity/graphicness/cographicness "
        "flags imply the same for all children as the documented propagation rules say, node types fix their flags, R10 nodes are line "
        "permutations of a representation of R10 (which is regular / TU: closed facts), and for nodes within oracle size the flags agree "
        "with the brute-force oracles (regular <-> TU signing exists, graphic <-> graph exists). Tie: the same tree dumps as C03, all nodes.",
   technique="Lean 4 theorems unfolding the flag checker (certificates sound, minors refute TU, propagation rules) + validation of every node of every returned tree", design="5/C04"),
 "C05": dict(
   text="Proof: the certificate checker is sound and complete w.r.t. its declarative reading (checkGraphCert = ok iff forest/coforest partition the "
        "edge set, the forest is spanning, and every entry M[i][j] is 1 exactly when forest edge i lies on the duplicate-free tree walk between "
        "the ends of coforest edge j: treePath_sound, cycleMatrix_spec, cert_entries); the brute-force tree search returns only trees in which "
        "every column support is a path. Tie: CMRgraphicTestMatrix/Transpose on every 0/1 matrix up to 4x4 and on random/graph-generated "
        "instances up to 120 edges; every yes is decided by the returned certificate, every no (rows<=5) by the search. Completeness of the "
        "search oracle w.r.t. the declarative notion is not proved (a 'no' of the oracle against a 'yes' with valid certificate is decided by the certificate). Completeness of the brute-force oracle is proved (C05Complete.lean: whenever some graph with a spanning forest has M as its "
        "fundamental-cycle matrix - any number of components, isolated nodes, loops, parallel edges - isGraphic M = true), so a 'no' of the oracle is trustworthy; every matrix accepted by the certificate checker is accepted by the oracle. Graphic matrices are regular (C05Regular.lean, from the network-matrix theorem of C06TU.lean): an oracle yes or an accepted certificate implies a TU signing exists.",
   technique="Lean 4 soundness/completeness of the graph-certificate checker + certificate validation of every yes, exhaustive small-domain oracle for no", design="5/C05"),
 "C06": dict(
   text="Proof: as C05 for signed=true: an accepted certificate means M[i][j] = +1/-1/0 according to forward/backward/absent traversal of "
        "tree arc i (after arc reversals) on the tree walk of coforest arc j; network search soundness. Tie: CMRnetworkTestMatrix/Transpose on "
        "every {-1,0,1} matrix up to 3x3, random signings, digraph instances with reversals and sign corruptions; support-graphicness flag "
        "and returned violators are checked against the oracles. Completeness of the network oracle (C06Complete.lean, proofs shared with C05Complete): a 'no' of isNetwork means no digraph with a spanning forest realises M. Network matrices are totally unimodular (C06TU.lean: node-arc incidence matrices are TU, B_T M = B_coT by telescoping along tree walks, a left inverse of B_T in bridge forests and an unsorted Cauchy-Binet argument): every yes of the network oracle and every accepted digraph certificate implies isTU, in Mathlib's sense.",
   technique="Lean 4 certificate-checker theorems (signed) + certificate validation / small-domain oracle", design="5/C06"),
 "C14": dict(
   text="Proof: cycleMatrix has the documented shape (rows in forest order, columns in coforest order) and entries (walk characterisation), its "
        "transpose is entrywise the transpose, a certificate determines the matrix (cert_unique), and constructed matrices are accepted by the "
        "certificate checker (roundtrip). Tie: CMRgraphicComputeMatrix/CMRnetworkComputeMatrix on every multigraph with <=3 nodes and <=4 edges "
        "x every edge subset as forest x shuffled orders/orientations: matrix, transpose and forest flag compared exactly; random graphs up to "
        "120 edges; constructed matrices sent through recognition.",
   technique="Lean 4 theorems about the fundamental-cycle-matrix model + exhaustive small-graph exact correspondence", design="5/C14"),
 "C08": dict(
   text="Proof: declarative SP reductions (Removable/Reaches/IsSP); every reduction/list the judge accepts is a genuine reduction sequence; "
        "spSearch decides IsSP; CONFLUENCE (sp_confluent): any maximal reduction sequence ends in the empty matrix iff the matrix is "
        "series-parallel (via signed embeddings), hence greedy = exhaustive; M_2, M_3' and cycle violators are irreducible and certify "
        "non-SP-ness of any matrix containing them. Tie: CMRspTest*/CMRspDecompose* on exhaustive small domains, all 32 output subsets, "
        "maxNumReductions, grown instances, and a build with the hash range forced to 7.",
   technique="Lean 4 proof of confluence and checker soundness for SP reductions + exhaustive/output-subset/forced-collision correspondence", design="5/C08"),
 "C09": dict(
   text="Partial. Proof: a Camion violator accepted by the judge (square, two nonzeros per line, det +-2) refutes TU; a TU matrix makes its "
        "support regular, and if a re-signing with the same support is TU the support is regular. Camion's theorem itself (regular support: "
        "TU iff Camion-signed) is classical and only tested. The signing algorithm is not modelled: the contract relations (support kept, "
        "output passes the test, idempotent, test = signing leaves the matrix unchanged, TU => signed, regular support => output TU) are "
        "checked by correspondence on every {-1,0,1} matrix up to 3x3/2x4/4x2 and on random signings up to 6x6 with the proved oracles.",
   technique="Lean 4 violator/regularity theorems + relational correspondence with proved oracles", design="5/C09"),
 "C16": dict(
   text="Proof: the exact-arithmetic model of the documented definition: rankQ, column bases, gcd of basis minors (divides every minor and is "
        "the greatest such), Cramer solution with integrality; every nonsingular square matrix is equimodular with k=|det| (general n). Tie: "
        "CMRequimodularTest/Strong and the unimodular variants on exhaustive small integer domains, requested k, near-overflow entries (only "
        "the exact answer or err:OVERFLOW admissible). Basis independence is the documentation's claim and is not proved: the judge accepts "
        "the answer of any column basis.",
   technique="Lean 4 theorems about the exact-arithmetic definition + exhaustive small-domain correspondence", design="5/C16"),
 "C17": dict(
   text="Proof: isBalanced unfolds to the definition over all increasing index lists; non-ternary => not balanced; the hole predicate is "
        "permutation invariant so a violator in ANY order refutes balancedness; transposition invariance. Tie: CMRbalancedTest on every "
        "{-1,0,1} matrix up to 3x3/2x4/4x2 with both presets of the verdict variable, both implemented algorithms, SP preprocessing on/off, "
        "non-ternary inputs, and the unimplemented graph algorithm (must be an error status).",
   technique="Lean 4 theorems about the balancedness definition and violator soundness + exhaustive correspondence", design="5/C17"),
 "C12": dict(
   text="Proof: the five composition functions (1-sum, both 2-sum variants, delta-, Y- and 3-sum) are Lean functions with theorems for every "
        "shape: result dimensions and entry ranges; acceptance iff the shape predicate holds (and the returned matrix identified); "
        "decompose-then-compose round trips for 2-, delta-, Y- and 3-sums; a 1-sum is TU iff all blocks are; the components of a TU 2-sum are TU "
        "and the 2-sum of TU components is TU (over GF(3), and over GF(2) for 0/1 operands), in Mathlib's sense; the delta-sum and the Y-sum of "
        "TU operands are TU (C12Delta.lean: determinant identity for rank-one coupled blocks, no pivoting; for the model's composeDelta / "
        "composeY with special lines in arbitrary positions). Truemper's 3-sum of TU operands with a TU connecting matrix N is TU as well (C12Three.lean: bordered-matrix / Schur-complement "
        "argument; compose3 with special lines in arbitrary positions) - so every composition of the library preserves total "
        "unimodularity. Not proved: the converse directions for delta/Y/3-sums (components of a TU sum are TU) - tested on the explored "
        "domain only. Tie: CMRonesumCompose/CMRtwosumCompose/CMRdeltasumCompose/"
        "CMRysumCompose/CMRthreesumCompose compared exactly with the model on valid and invalid operand/special-index choices; the library's own "
        "decomposition sequence (representatives, epsilon, connecting element, DecomposeFirst/Second) run on seeded separations, its components "
        "validated (shape conditions, TU by the oracle) and recomposed by library and model.",
   technique="Lean 4 theorems about the k-sum model (shape/rejection/round-trip/2-sum TU) + exact compose correspondence + decompose-recompose validation", design="5/C12"),
 "C18": dict(
   text="Partial. Proof: (a) a time-limited computation as a step list with clock checks: for every program, state and injection point the "
        "limited run is either a timeout without output or exactly the unlimited result; (b) C18Discipline.lean: a small language of function "
        "bodies with scratch-stack and heap resources, clock checks, calls that propagate an error immediately (the CMR_CALL pattern) and calls "
        "that release what the caller holds before passing the error on; for every body accepted by the discipline checker `safe` and every "
        "injection point a timeout leaves stack depth and heap exactly as at entry, a run without timeout is balanced, and the limited run "
        "refines the unlimited one; a body that uses CMR_CALL while holding an allocation leaks at a concrete injection point and is rejected. "
        "That the C functions follow this discipline on each of their timeout exits is not proved: it is decided by fault enumeration. Tie: clock() is interposed; every time-limited op of every "
        "family is run unlimited, then once per clock read it performs with the limit expiring exactly at that read; each injected run must be "
        "CMR_ERROR_TIMEOUT with no object handed out, scratch stack restored, nothing leaked (LSan), or the identical unlimited answer; the same "
        "call repeated afterwards on the same environment must give the unlimited answer. The timeout sites reached are listed in the evidence.",
   technique="Lean 4 refinement theorem for the abstract limited run + fault enumeration at every clock read of the real code (interposed clock, ASan/LSan)",
   design="5/C18"),
 "C19": dict(
   text="Partial. Proof: on the allocator model every well-bracketed call restores the observable allocator state, so what a later call can see of "
        "an earlier one is only the (uninitialised) content of the scratch memory; C19Init.lean: for programs over scratch memory that pass the "
        "initialised-before-use check the output is the same for every initial scratch content, is the same when the call is repeated and after "
        "any other call; a program reading before writing gives different outputs under the fill patterns 0x00 and 0xFF. That the C functions "
        "initialise every scratch array before use, and that no other global state exists, is observed (fill patterns, histories, TSan), not proved. Tie: "
        "each op is run on a fresh environment (reference), then on one shared environment with scratch memory pre-filled with 0x00, in shuffled "
        "order between error/timeout calls with 0xFF fill, three times in a row, and on 8 threads with separate environments under "
        "ThreadSanitizer; results and certificates must be byte-identical to the reference and inputs unmodified (checksums before/after).",
   technique="Lean 4 allocator-history theorem + history/fill/thread differential runs of the real library (ASan, TSan)",
   design="5/C19"),
 "C20": dict(
   text="Proof: Csr.consistent unfolds to the property's clauses; the canonical sparse form of every dense matrix is consistent and round-trips "
        "(toDense (ofDense M) = M); consistent sparse matrices are canonical (toDense injective); algebraic laws of transpose/support/slice at "
        "the dense level. Tie: every matrix returned by any op of any check is dumped as raw CSR arrays and checked; utilities compared exactly; "
        "writers' bytes parsed by the Lean format model and by the library; malformed token streams and all byte strings over a small "
        "alphabet. The text formats are modelled in both directions (Cmr/Text.lean parsers, Cmr/Render.lean writers) and parse(render A) = A is "
        "proved for the dense, sparse and submatrix formats for all shapes and all entries in the type's range (C20Roundtrip.lean); the "
        "library writers' bytes are compared byte for byte with the model's rendering.",
   technique="Lean 4 theorems about the CSR invariant and canonical form + raw-array consistency check on every returned matrix + text-format correspondence", design="5/C20"),
}

def main():
    import props
    checks = []
    for pid in sorted(CLAIMS):
        c = CLAIMS[pid]
        checks.append({
            "property_id": pid,
            "quick_cmd": "bin/check %s --tier quick" % pid,
            "thorough_cmd": "bin/check %s --tier thorough" % pid,
            "evidence_file": "evidence/%s.json" % pid,
            "replay_cmd_template": "bin/check %s --replay {path}" % pid,
            "engine": "lean4-proof+correspondence",
            "level_claimed": {"category": c.get("category", "proof"), "text": c["text"] + (KERNEL_NOTE if pid in ("C08", "C11", "C13") else ""),
                              "design_ref": "DESIGN.md §A.6, §" + c["design"]},
            "level_note": c.get("note", COMMON_NOTE),
            "technique": c["technique"],
        })
    allp = [json.loads(l)["id"] for l in open(os.path.join(VERIF, "properties.jsonl"))]
    na = [{"property_id": p, "reason": NOT_YET.get(p, "check under construction in this build round; the design in DESIGN.md §5 claims it, no command is registered until the check runs clean on the unchanged tree")}
          for p in allp if p not in CLAIMS]
    m = {
        "version": 1,
        "setup_cmd": "bin/setup",
        "hooks": {
            "guard": "DISCOPT_CMR_VERIF",
            "enable": "tools/cmrbuild.py compiles every library source of /repo's working tree with -DDISCOPT_CMR_VERIF (flavour 'hash' adds -DDISCOPT_CMR_VERIF_HASH_RANGE=7)",
            "baseline_off_cmd": "cmake -G Ninja -S /repo -B /repo/_build >/dev/null && cmake --build /repo/_build >/dev/null && ctest --test-dir /repo/_build -j8 --timeout 900",
            "source_commits": HOOK_COMMITS,
            "add_only": True,
        },
        "engines": [{"name": "lean4-proof+correspondence", "path": "lean/ harness/ tools/ bin/check",
                     "serves_properties": sorted(CLAIMS),
                     "kind_free_text": "Lean 4 model + theorems (lean/Cmr, lean/CmrProofs), compiled judge cmrmodel, C harness linked against objects built from /repo's working tree, Python plumbing"}],
        "checks": checks,
        "not_applicable": na,
        "notes": "See DESIGN.md. known_findings.json lists genuine defects (fixed ones suppress nothing).",
    }
    json.dump(m, open(os.path.join(VERIF, "MANIFEST.json"), "w"), indent=1)
    print("MANIFEST.json: %d checks, %d not_applicable" % (len(checks), len(na)))

NOT_YET = {}
HOOK_COMMITS = ["912646a"]
if __name__ == "__main__":
    main()
