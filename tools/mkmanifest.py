#!/usr/bin/env python3
"""Regenerates MANIFEST.json from the table below (kept next to the checks so the two cannot drift)."""
import json, os, sys
VERIF = os.path.dirname(os.path.dirname(os.path.abspath(__file__)))
sys.path.insert(0, os.path.join(VERIF, "tools"))

COMMON_NOTE = ("Trusted: Lean 4 kernel; axioms propext, Classical.choice, Quot.sound (audited with #print axioms on every run; "
               "no sorry/admit/native_decide/own axioms); Mathlib's Matrix.det / IsTotallyUnimodular as the meaning of the terms; the "
               "correspondence plumbing (harness/*.c, tools/*.py, gcc, sanitizers). The C code is modelled, not verified: the theorem is about "
               "the Lean model and the judge; the tie to /repo is the correspondence run against the working tree on every run.")

CLAIMS = {
 "C15": dict(
   text="Proof: the complement operations are Lean functions with theorems for all shapes and all (row,column) choices (one-call form = "
        "row-then-column = column-then-row, involution on 0/1 matrices, closure in 0/1 matrices); the CTU oracle is proved equivalent to "
        "Mathlib's IsTotallyUnimodular of all (m+1)(n+1) complemented matrices; witness soundness. Tie: exact equality of "
        "CMRctuComplementRowColumn with the model on every 0/1 matrix up to 3x4 (thorough 4x4) x every choice, CMRctuTest verdict and "
        "witness against the oracle on the same domain, random larger instances under ASan/UBSan.",
   technique="Lean 4 theorems (complement algebra, CTU oracle = Mathlib TU) + exhaustive small-domain correspondence against the real library",
   design="5/C15"),
}

def main():
    import props
    checks = []
    for pid in sorted(CLAIMS):
        c = CLAIMS[pid]
        checks.append({
            "property_id": pid,
            "quick_cmd": "bin/check %s --tier quick" % pid,
            "thorough_cmd": "bin/check %s --tier thorough" % pid,
            "evidence_file": "evidence/%s.json" % pid,
            "replay_cmd_template": "bin/check %s --replay {path}" % pid,
            "engine": "lean4-proof+correspondence",
            "level_claimed": {"category": "proof", "text": c["text"], "design_ref": "DESIGN.md §" + c["design"]},
            "level_note": c.get("note", COMMON_NOTE),
            "technique": c["technique"],
        })
    allp = [json.loads(l)["id"] for l in open(os.path.join(VERIF, "properties.jsonl"))]
    na = [{"property_id": p, "reason": NOT_YET.get(p, "check under construction in this build round; the design in DESIGN.md §5 claims it, no command is registered until the check runs clean on the unchanged tree")}
          for p in allp if p not in CLAIMS]
    m = {
        "version": 1,
        "setup_cmd": "bin/setup",
        "hooks": {
            "guard": "DISCOPT_CMR_VERIF",
            "enable": "tools/cmrbuild.py compiles every library source of /repo's working tree with -DDISCOPT_CMR_VERIF (flavour 'hash' adds -DDISCOPT_CMR_VERIF_HASH_RANGE=7)",
            "baseline_off_cmd": "cmake -G Ninja -S /repo -B /repo/_build >/dev/null && cmake --build /repo/_build >/dev/null && ctest --test-dir /repo/_build -j8 --timeout 900",
            "source_commits": HOOK_COMMITS,
            "add_only": True,
        },
        "engines": [{"name": "lean4-proof+correspondence", "path": "lean/ harness/ tools/ bin/check",
                     "serves_properties": sorted(CLAIMS),
                     "kind_free_text": "Lean 4 model + theorems (lean/Cmr, lean/CmrProofs), compiled judge cmrmodel, C harness linked against objects built from /repo's working tree, Python plumbing"}],
        "checks": checks,
        "not_applicable": na,
        "notes": "See DESIGN.md. known_findings.json lists genuine defects (fixed ones suppress nothing).",
    }
    json.dump(m, open(os.path.join(VERIF, "MANIFEST.json"), "w"), indent=1)
    print("MANIFEST.json: %d checks, %d not_applicable" % (len(checks), len(na)))

NOT_YET = {}
HOOK_COMMITS = []
if __name__ == "__main__":
    main()
