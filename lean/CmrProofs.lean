import CmrProofs.Lemmas.MatBasic
