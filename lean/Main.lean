import Cmr.Judge
open Cmr

partial def loop (h : IO.FS.Stream) (out : IO.FS.Stream) : IO Unit := do
  let line ← h.getLine
  if line.isEmpty then return ()
  let l := line.trimAscii.toString
  if l.isEmpty then out.putStrLn "skip empty" else out.putStrLn (judgeLine l).render
  loop h out

def main : IO Unit := do
  let stdin ← IO.getStdin
  let stdout ← IO.getStdout
  loop stdin stdout
  stdout.flush
