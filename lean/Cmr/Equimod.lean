/-
  C16 — equimodular / unimodular matrices over unbounded integers, by the documented definition.
-/
import Cmr.Det
namespace Cmr

/-- rank over ℚ: the largest `k` with a nonzero `k × k` minor -/
def rankQ (m n : Nat) (M : Mat) : Nat :=
  ((List.range (min m n + 1)).reverse.find? fun k =>
    (choose k (List.range m)).any fun rs => (choose k (List.range n)).any fun cs => detL k (sub M rs cs) != 0).getD 0

/-- all column bases: `r`-subsets of columns containing a nonzero `r × r` minor -/
def columnBases (m n r : Nat) (M : Mat) : List (List Nat) :=
  (choose r (List.range n)).filter fun cs => (choose r (List.range m)).any fun rs => detL r (sub M rs cs) != 0

/-- gcd of all `r × r` minors of the columns `B` -/
def gcdMinors (m r : Nat) (M : Mat) (B : List Nat) : Nat :=
  (choose r (List.range m)).foldl (fun g rs => Nat.gcd g (detL r (sub M rs B)).natAbs) 0

/-- replace column `i` of the `r × r` matrix `N` by the vector `v` -/
def replaceCol (N : Mat) (i : Nat) (v : List Int) : Mat :=
  (N.zip v).map (fun (row, x) => row.set i x)

/-- the unique `X` with `M = M_B X` if it is integral: Cramer's rule on a nonsingular `r × r` row block -/
def solveX (m n r : Nat) (M : Mat) (B : List Nat) : Option Mat :=
  match (choose r (List.range m)).find? (fun rs => detL r (sub M rs B) != 0) with
  | none => none
  | some rs =>
    let N := sub M rs B
    let d := detL r N
    let nums : Mat := Mat.ofFn r n (fun i j => detL r (replaceCol N i (rs.map (fun x => ent M x j))))
    if nums.all (fun row => row.all (fun x => x % d == 0)) then some (nums.mapEntries (fun x => x / d)) else none

/-- `(equimodular?, k)` for the column basis `B` -/
def equimodFor (m n r : Nat) (M : Mat) (B : List Nat) : Bool × Nat :=
  let k := gcdMinors m r M B
  match solveX m n r M B with
  | none => (false, k)
  | some X => (isTU r n X, k)

/-- Equimodularity by the documented definition, evaluated for the first column basis. -/
def equimodular (m n : Nat) (M : Mat) : Bool × Nat :=
  let r := rankQ m n M
  match columnBases m n r M with
  | [] => (false, 0)
  | B :: _ => equimodFor m n r M B

/-- the answers for all column bases (the documentation states they coincide) -/
def equimodularAll (m n : Nat) (M : Mat) : List (Bool × Nat) :=
  let r := rankQ m n M
  (columnBases m n r M).map (equimodFor m n r M)

end Cmr
