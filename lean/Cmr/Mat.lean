/-
  F1 — dense integer matrices as lists of rows.  Core Lean only (no Mathlib): everything here is executable
  and is linked into the `cmrmodel` driver.
-/
namespace Cmr

abbrev Mat := List (List Int)

/-- Entry access; total (out of range = 0).  Every theorem using it carries an explicit `wf` guard. -/
def ent (M : Mat) (i j : Nat) : Int := (M.getD i []).getD j 0

/-- `m` rows, each of length `n`. -/
def Mat.wf (M : Mat) (m n : Nat) : Bool := M.length == m && M.all (fun r => r.length == n)

def Mat.numRows (M : Mat) : Nat := M.length
/-- number of columns of a well-formed matrix with at least one row; for 0 rows the caller supplies `n`. -/
def Mat.numCols (M : Mat) : Nat := (M.getD 0 []).length

/-- The `m × n` matrix with entries `f i j`. -/
def Mat.ofFn (m n : Nat) (f : Nat → Nat → Int) : Mat :=
  (List.range m).map (fun i => (List.range n).map (fun j => f i j))

def Mat.zero (m n : Nat) : Mat := Mat.ofFn m n (fun _ _ => 0)

/-- Submatrix indexed by row list `rs` and column list `cs` (any lists: repetitions and any order allowed). -/
def sub (M : Mat) (rs cs : List Nat) : Mat := rs.map (fun r => cs.map (fun c => ent M r c))

def transpose (m n : Nat) (M : Mat) : Mat := Mat.ofFn n m (fun j i => ent M i j)

def Mat.mapEntries (f : Int → Int) (M : Mat) : Mat := List.map (List.map f) M

def isTernaryEntry (x : Int) : Bool := x == 0 || x == 1 || x == -1
def isBinaryEntry (x : Int) : Bool := x == 0 || x == 1

def isTernary (M : Mat) : Bool := M.all (fun r => r.all isTernaryEntry)
def isBinary (M : Mat) : Bool := M.all (fun r => r.all isBinaryEntry)

def support (M : Mat) : Mat := M.mapEntries (fun x => if x == 0 then 0 else 1)
def signedSupport (M : Mat) : Mat := M.mapEntries (fun x => if x == 0 then 0 else if x > 0 then 1 else -1)

def negRow (M : Mat) (r : Nat) : Mat := M.mapIdx (fun i row => if i == r then row.map (fun x => -x) else row)
def negCol (M : Mat) (c : Nat) : Mat := List.map (fun row => row.mapIdx (fun j x => if j == c then -x else x)) M

/-- all positions `(i,j)` with a nonzero entry -/
def nonzeros (M : Mat) : List (Nat × Nat) :=
  (M.zipIdx).flatMap (fun (row, i) => (row.zipIdx).filterMap (fun (x, j) => if x != 0 then some (i, j) else none))

def matToString (M : Mat) : String :=
  " ".intercalate (M.map (fun r => " ".intercalate (r.map toString)))

end Cmr
