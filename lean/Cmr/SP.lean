/-
  C08 — series-parallel reductions on a matrix restricted to the remaining rows `R` and columns `C`.
-/
import Cmr.Mat
namespace Cmr

/-- a reduction as the library reports it: `element < 0` is row `-1-element`, `> 0` is column `element-1`;
`mate = 0` zero line, opposite kind = unit line (mate is the line of the single nonzero), same kind = (negated) copy. -/
structure Reduction where
  element : Int
  mate : Int
deriving Repr, BEq, DecidableEq

def elemIsRow (e : Int) : Bool := e < 0
def elemRow (e : Int) : Nat := (-1 - e).toNat
def elemCol (e : Int) : Nat := (e - 1).toNat

/-- row `r` restricted to the remaining columns -/
def rowOn (M : Mat) (C : List Nat) (r : Nat) : List Int := C.map (fun c => ent M r c)
def colOn (M : Mat) (R : List Nat) (c : Nat) : List Int := R.map (fun r => ent M r c)

def isZeroVec (v : List Int) : Bool := v.all (· == 0)
def negVec (v : List Int) : List Int := v.map (fun x => -x)
/-- equal or (if `ternary`) negated -/
def parallelVec (ternary : Bool) (v w : List Int) : Bool := v == w || (ternary && v == negVec w)

/-- Is `red` a genuine zero / unit / copy reduction of `M` restricted to rows `R`, columns `C`? -/
def validReduction (ternary : Bool) (M : Mat) (R C : List Nat) (red : Reduction) : Bool :=
  if red.element == 0 then false
  else if elemIsRow red.element then
    let r := elemRow red.element
    R.contains r &&
    (if red.mate == 0 then isZeroVec (rowOn M C r)
     else if elemIsRow red.mate then
       let r2 := elemRow red.mate
       r2 != r && R.contains r2 && parallelVec ternary (rowOn M C r) (rowOn M C r2)
     else
       let c := elemCol red.mate
       C.contains c && ent M r c != 0 && (C.filter (fun c' => ent M r c' != 0)) == [c])
  else
    let c := elemCol red.element
    C.contains c &&
    (if red.mate == 0 then isZeroVec (colOn M R c)
     else if !elemIsRow red.mate then
       let c2 := elemCol red.mate
       c2 != c && C.contains c2 && parallelVec ternary (colOn M R c) (colOn M R c2)
     else
       let r := elemRow red.mate
       R.contains r && ent M r c != 0 && (R.filter (fun r' => ent M r' c != 0)) == [r])

def applyReduction (R C : List Nat) (red : Reduction) : List Nat × List Nat :=
  if elemIsRow red.element then (R.erase (elemRow red.element), C) else (R, C.erase (elemCol red.element))

/-- apply reductions in order; `none` with the index of the first invalid one -/
def applyReductions (ternary : Bool) (M : Mat) : List Nat → List Nat → List Reduction → Nat → Except Nat (List Nat × List Nat)
  | R, C, [], _ => .ok (R, C)
  | R, C, red :: rest, k =>
    if validReduction ternary M R C red then
      let (R', C') := applyReduction R C red
      applyReductions ternary M R' C' rest (k+1)
    else .error k

/-- some line of the remaining matrix that can be removed (zero, unit or copy), if any -/
def findReducible (ternary : Bool) (M : Mat) (R C : List Nat) : Option Reduction :=
  let rowRed := R.findSome? fun r =>
    let v := rowOn M C r
    let nz := C.filter (fun c => ent M r c != 0)
    if nz.isEmpty then some ⟨-1 - (r : Int), 0⟩
    else if nz.length == 1 then some ⟨-1 - (r : Int), (nz.headD 0 : Int) + 1⟩
    else (R.find? (fun r2 => r2 != r && parallelVec ternary v (rowOn M C r2))).map (fun r2 => ⟨-1 - (r : Int), -1 - (r2 : Int)⟩)
  match rowRed with
  | some x => some x
  | none =>
    C.findSome? fun c =>
      let v := colOn M R c
      let nz := R.filter (fun r => ent M r c != 0)
      if nz.isEmpty then some ⟨(c : Int) + 1, 0⟩
      else if nz.length == 1 then some ⟨(c : Int) + 1, -1 - (nz.headD 0 : Int)⟩
      else (C.find? (fun c2 => c2 != c && parallelVec ternary v (colOn M R c2))).map (fun c2 => ⟨(c : Int) + 1, (c2 : Int) + 1⟩)

def irreducible (ternary : Bool) (M : Mat) (R C : List Nat) : Bool := (findReducible ternary M R C).isNone

/-- greedy maximal reduction sequence -/
def spReduce (ternary : Bool) (M : Mat) : Nat → List Nat → List Nat → List Nat × List Nat
  | 0, R, C => (R, C)
  | fuel+1, R, C =>
    match findReducible ternary M R C with
    | none => (R, C)
    | some red => let (R', C') := applyReduction R C red; spReduce ternary M fuel R' C'

/-- Series-parallel by definition would be "some sequence reaches the empty matrix"; the greedy sequence decides it
because reductions are confluent (`CmrProofs`: `sp_confluent`); `spSearch` below does not rely on that. -/
def isSPgreedy (ternary : Bool) (m n : Nat) (M : Mat) : Bool :=
  let (R, C) := spReduce ternary M (m + n) (List.range m) (List.range n)
  R.isEmpty && C.isEmpty

/-- all single valid removals of a line -/
def allRemovals (ternary : Bool) (M : Mat) (R C : List Nat) : List (List Nat × List Nat) :=
  (R.filter (fun r =>
      let v := rowOn M C r
      let nz := C.filter (fun c => ent M r c != 0)
      nz.length ≤ 1 || R.any (fun r2 => r2 != r && parallelVec ternary v (rowOn M C r2)))).map (fun r => (R.erase r, C)) ++
  (C.filter (fun c =>
      let v := colOn M R c
      let nz := R.filter (fun r => ent M r c != 0)
      nz.length ≤ 1 || C.any (fun c2 => c2 != c && parallelVec ternary v (colOn M R c2)))).map (fun c => (R, C.erase c))

/-- exhaustive search: can *some* sequence of reductions reach the empty matrix? (exponential; small inputs only) -/
def spSearch (ternary : Bool) (M : Mat) : Nat → List Nat → List Nat → Bool
  | 0, R, C => R.isEmpty && C.isEmpty
  | fuel+1, R, C =>
    if R.isEmpty && C.isEmpty then true
    else (allRemovals ternary M R C).any (fun (R', C') => spSearch ternary M fuel R' C')

/-! violators -/

def lineCounts (V : Mat) (k : Nat) : List Nat × List Nat :=
  ((List.range k).map (fun i => ((List.range k).filter (fun j => ent V i j != 0)).length),
   (List.range k).map (fun j => ((List.range k).filter (fun i => ent V i j != 0)).length))

/-- the support of the `k × k` matrix is a single cycle: two nonzeros per line, connected -/
def isCycleSupport (V : Mat) (k : Nat) : Bool :=
  let (rc, cc) := lineCounts V k
  k ≥ 2 && rc.all (· == 2) && cc.all (· == 2) &&
  -- connectivity: walk from row 0 for 2k steps visiting all rows
  (let step (visited : List Nat) : List Nat :=
      let cols := (List.range k).filter (fun j => visited.any (fun i => ent V i j != 0))
      (List.range k).filter (fun i => cols.any (fun j => ent V i j != 0))
   ((List.range k).foldl (fun vis _ => step vis) [0]).length == k)

/-- `M_3'` pattern up to line permutations: 3×3 with exactly two zeros, in different rows and columns -/
def isM3prime (V : Mat) : Bool :=
  let zs := (List.range 3).flatMap (fun i => ((List.range 3).filter (fun j => ent V i j == 0)).map (fun j => (i, j)))
  match zs with
  | [(a, b), (c, d)] => a != c && b != d
  | _ => false

/-- documented minimal non-SP submatrices (any signing): `M_2` (2×2, all nonzero, |det| = 2; ternary only),
`M_3'`, or a cycle ("wheel") `M_k`, `k ≥ 3`. -/
def isSPViolator (ternary : Bool) (V : Mat) (k : Nat) : Bool :=
  if k == 2 then
    ternary && (List.range 2).all (fun i => (List.range 2).all (fun j => ent V i j != 0)) &&
      (let d := ent V 0 0 * ent V 1 1 - ent V 0 1 * ent V 1 0; d == 2 || d == -2)
  else if k == 3 then isM3prime V || isCycleSupport V 3
  else isCycleSupport V k

/-- all 2×2 minors vanish -/
def rankLE1 (M : Mat) (R C : List Nat) : Bool :=
  R.all fun r1 => R.all fun r2 => C.all fun c1 => C.all fun c2 =>
    ent M r1 c1 * ent M r2 c2 - ent M r1 c2 * ent M r2 c1 == 0

def isZeroBlock (M : Mat) (R C : List Nat) : Bool := R.all fun r => C.all fun c => ent M r c == 0

/-- genuine 2-separation of the matrix restricted to lines (R1 ∪ R2) × (C1 ∪ C2): both sides have at least two
elements, one off-diagonal block is zero and the other has rank exactly 1. -/
def is2Separation (M : Mat) (R1 C1 R2 C2 : List Nat) : Bool :=
  R1.length + C1.length ≥ 2 && R2.length + C2.length ≥ 2 &&
  ((isZeroBlock M R1 C2 && rankLE1 M R2 C1 && !isZeroBlock M R2 C1) ||
   (isZeroBlock M R2 C1 && rankLE1 M R1 C2 && !isZeroBlock M R1 C2))

end Cmr
