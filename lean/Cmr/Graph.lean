/-
  F5 — (di)graphs, spanning forests and fundamental-cycle matrices `M(G,T)` / `M(D,T)` as `doc/graphic.md` and
  `doc/network.md` define them.
-/
import Cmr.Mat
namespace Cmr

/-- an edge with its identifier and end nodes; for digraphs the arc is `u → v` unless `rev` -/
structure Edge where
  id : Nat
  u : Nat
  v : Nat
  rev : Bool := false
deriving Repr, BEq, DecidableEq

/-- tail and head of the arc after applying the reversal flag -/
def Edge.tail (e : Edge) : Nat := if e.rev then e.v else e.u
def Edge.head (e : Edge) : Nat := if e.rev then e.u else e.v

structure Graph where
  nodes : List Nat
  edges : List Edge
deriving Repr

def Graph.edge? (g : Graph) (id : Nat) : Option Edge := g.edges.find? (·.id == id)

/-- Walk in the forest `T` from `s` to `t`: DFS over unused forest edges.  Returns for each forest edge used its
index in `T` and whether it is traversed from `tail` to `head` (forwardly). `fuel` bounds the depth. -/
def treePath (T : List Edge) : Nat → List Nat → Nat → Nat → Option (List (Nat × Bool))
  | 0, _, s, t => if s == t then some [] else none
  | fuel+1, used, s, t =>
    if s == t then some [] else
    (T.zipIdx).findSome? fun (e, k) =>
      if used.contains k then none
      else if e.tail == s then (treePath T fuel (k :: used) e.head t).map ((k, true) :: ·)
      else if e.head == s then (treePath T fuel (k :: used) e.tail t).map ((k, false) :: ·)
      else none

/-- component label of every node after merging along the edges of `T`; `none` if an edge closes a cycle -/
def forestLabels (nodes : List Nat) (T : List Edge) : Option (List (Nat × Nat)) :=
  T.foldlM (fun (lab : List (Nat × Nat)) e =>
    let lu := (lab.lookup e.u).getD e.u
    let lv := (lab.lookup e.v).getD e.v
    if lu == lv then none
    else some (lab.map (fun (x, l) => (x, if l == lv then lu else l)))) (nodes.map (fun x => (x, x)))

def isForest (g : Graph) (T : List Edge) : Bool := (forestLabels g.nodes T).isSome

/-- `T` is a spanning forest of `g`: acyclic, and every edge of `g` joins two nodes of the same `T`-component. -/
def isSpanningForest (g : Graph) (T : List Edge) : Bool :=
  match forestLabels g.nodes T with
  | none => false
  | some lab => g.edges.all (fun e => (lab.lookup e.u).getD e.u == (lab.lookup e.v).getD e.v) &&
                T.all (fun e => g.nodes.contains e.u && g.nodes.contains e.v)

/-- column of `M(G,T)` (signed = false) or `M(D,T)` (signed = true) for the non-forest edge `f` -/
def cycleColumn (T : List Edge) (signed : Bool) (f : Edge) : Option (List Int) :=
  (treePath T T.length [] f.tail f.head).map fun p =>
    (List.range T.length).map fun k =>
      match p.lookup k with
      | none => 0
      | some fwd => if signed then (if fwd then 1 else -1) else 1

/-- `M(G,T)` with rows in the order of `T` and columns in the order of `coT`; `none` if some coforest edge has no
tree path between its ends (then `T` is not spanning). -/
def cycleMatrix (T coT : List Edge) (signed : Bool) : Option Mat :=
  (coT.mapM (cycleColumn T signed)).map fun cols =>
    Mat.ofFn T.length coT.length (fun i j => (cols.getD j []).getD i 0)

/-- look up edge ids in the graph; `none` if an id is unknown -/
def Graph.edgesOf (g : Graph) (ids : List Nat) : Option (List Edge) := ids.mapM g.edge?

/-- Certificate check (C05/C06/C04): `forest ++ coforest` lists every edge of `g` exactly once, `forest` is a
spanning forest, and the fundamental-cycle matrix equals `M`. -/
def checkGraphCert (m n : Nat) (M : Mat) (g : Graph) (forest coforest : List Nat) (signed : Bool) : Except String Unit :=
  if forest.length != m then .error s!"forest has {forest.length} edges for {m} rows"
  else if coforest.length != n then .error s!"coforest has {coforest.length} edges for {n} columns"
  else
    let all := forest ++ coforest
    if !(decide all.Nodup) then .error "an edge occurs twice in forest/coforest"
    else if !(g.edges.all (fun e => all.contains e.id)) || all.length != g.edges.length then
      .error "forest and coforest do not partition the edge set"
    else
      match g.edgesOf forest, g.edgesOf coforest with
      | some T, some coT =>
        if !isSpanningForest g T then .error "forest edges do not form a spanning forest"
        else match cycleMatrix T coT signed with
          | none => .error "a coforest edge has no tree path"
          | some C => if C == M then .ok () else .error s!"fundamental-cycle matrix {matToString C} differs from matrix {matToString M}"
      | _, _ => .error "unknown edge id in forest/coforest"

/-! ### brute-force graphicness oracle for small row counts -/

/-- all functions `{1..m} → {0..m}` as lists (parent of node `i+1` at position `i`) -/
def parentFns (m : Nat) : Nat → List (List Nat)
  | 0 => [[]]
  | k+1 => (parentFns m k).flatMap (fun p => (List.range (m+1)).map (fun x => p ++ [x]))

/-- edge `i` joins node `i+1` with `p[i]` -/
def parentEdges (p : List Nat) : List Edge := p.zipIdx.map (fun (par, i) => { id := i, u := i + 1, v := par })

/-- the edge set `S ⊆ T` (indices) is a path (or empty) : connected via treePath between its two leaf ends.  We test:
degree ≤ 2 at every node, and exactly two nodes of odd degree joined by a tree path using exactly the edges of `S`. -/
def supportIsPath (T : List Edge) (S : List Nat) : Bool :=
  if S.isEmpty then true else
  let es := S.filterMap (fun k => T[k]?)
  let ends := es.flatMap (fun e => [e.u, e.v])
  let deg (x : Nat) := (ends.filter (· == x)).length
  let odd := (ends.eraseDups).filter (fun x => deg x % 2 == 1)
  ends.all (fun x => deg x ≤ 2) &&
  match odd with
  | [a, b] =>
    match treePath T T.length [] a b with
    | some p => p.length == S.length && p.all (fun (k, _) => S.contains k)
    | none => false
  | _ => false

/-- Is the 0/1 matrix `M` (m rows) graphic?  Search over all trees on nodes `0..m` whose edge `i` is row `i`. -/
def graphicSearch (m n : Nat) (M : Mat) : Option (List Edge) :=
  (parentFns m m).findSome? fun p =>
    let T := parentEdges p
    if (forestLabels (List.range (m+1)) T).isSome &&
       (List.range n).all (fun j => supportIsPath T ((List.range m).filter (fun i => ent M i j != 0)))
    then some T else none

def isGraphic (m n : Nat) (M : Mat) : Bool := isBinary M && (graphicSearch m n M).isSome

end Cmr

namespace Cmr

/-- all orientation vectors of `k` edges -/
def boolVecs : Nat → List (List Bool)
  | 0 => [[]]
  | k+1 => (boolVecs k).flatMap (fun v => [false :: v, true :: v])

/-- column `j` of `M` equals ± the signed path pattern of some arc between the two ends of its support path -/
def signedColumnOk (T : List Edge) (m : Nat) (M : Mat) (j : Nat) : Bool :=
  let S := (List.range m).filter (fun i => ent M i j != 0)
  if S.isEmpty then true else
  let es := S.filterMap (fun k => T[k]?)
  let ends := es.flatMap (fun e => [e.u, e.v])
  let deg (x : Nat) := (ends.filter (· == x)).length
  match (ends.eraseDups).filter (fun x => deg x % 2 == 1) with
  | [a, b] =>
    match cycleColumn T true { id := 0, u := a, v := b } with
    | some col =>
      let mc := (List.range m).map (fun i => ent M i j)
      col == mc || col.map (fun x => -x) == mc
    | none => false
  | _ => false

/-- Is the ternary `m × n` matrix a network matrix?  Trees as in `graphicSearch`, all orientations of the tree arcs. -/
def networkSearch (m n : Nat) (M : Mat) : Option (List Edge) :=
  (parentFns m m).findSome? fun p =>
    let T0 := parentEdges p
    if (forestLabels (List.range (m+1)) T0).isSome &&
       (List.range n).all (fun j => supportIsPath T0 ((List.range m).filter (fun i => ent M i j != 0)))
    then
      (boolVecs m).findSome? fun o =>
        let T := (T0.zip o).map (fun (e, r) => { e with rev := r })
        if (List.range n).all (fun j => signedColumnOk T m M j) then some T else none
    else none

def isNetwork (m n : Nat) (M : Mat) : Bool := isTernary M && (networkSearch m n M).isSome

end Cmr
