/-
  F2 — Laplace determinant on lists and the brute-force total-unimodularity oracle.
  `CmrProofs/Lemmas/DetBridge.lean` proves `detL n M = Matrix.det (toMx n M)` and
  `isTU M = true ↔ Matrix.IsTotallyUnimodular`.
-/
import Cmr.Mat
namespace Cmr

/-- Laplace expansion along the first row of the leading `n × n` block. -/
def detL : Nat → Mat → Int
  | 0, _ => 1
  | n+1, M =>
    (List.range (n+1)).foldl (fun acc j =>
        acc + (if j % 2 == 0 then 1 else -1) * ent M 0 j *
          detL n ((M.drop 1).map (fun row => row.eraseIdx j))) 0

/-- All `k`-element sublists (order kept) of a list. -/
def choose {α : Type} : Nat → List α → List (List α)
  | 0, _ => [[]]
  | _+1, [] => []
  | k+1, x :: xs => (choose k xs).map (x :: ·) ++ choose (k+1) xs

def detOk (d : Int) : Bool := d == 0 || d == 1 || d == -1

/-- every `k × k` submatrix (increasing index lists) has determinant in {-1,0,1} -/
def isTUk (m n : Nat) (M : Mat) (k : Nat) : Bool :=
  (choose k (List.range m)).all fun rs => (choose k (List.range n)).all fun cs => detOk (detL k (sub M rs cs))

/-- Total unimodularity of an `m × n` matrix by definition. -/
def isTU (m n : Nat) (M : Mat) : Bool :=
  (List.range (min m n + 1)).all fun k => isTUk m n M k

/-- First violating square submatrix in enumeration order (for diagnostics). -/
def tuViolator (m n : Nat) (M : Mat) : Option (List Nat × List Nat) :=
  (List.range (min m n + 1)).findSome? fun k =>
    (choose k (List.range m)).findSome? fun rs =>
      (choose k (List.range n)).findSome? fun cs =>
        if detOk (detL k (sub M rs cs)) then none else some (rs, cs)

end Cmr
