/-
  C13 — pivots over GF(2), GF(3) and the "regular" pivot, in the library's convention
  (src/cmr/matroid.c `computePivots`): with ε = M[r,c],
     M'[r,c] = −ε,  M'[r,j] = ε·M[r,j],  M'[i,c] = ε·M[i,c],  M'[i,j] = M[i,j] − ε·M[i,c]·M[r,j].
  This is the standard basis exchange with the pivot column negated.
-/
import Cmr.Mat
namespace Cmr

/-- `moduloTernary(p, 3)` of `linear_algebra_internal.h`: representative in {-1,0,1}. -/
def mod3 (x : Int) : Int := let r := x % 3; if r == 2 then -1 else r
/-- `moduloTernary(p, 2)`: representative in {0,1}. -/
def mod2 (x : Int) : Int := x % 2

/-- un-normalised pivot entry (rational pivot for ε = ±1, in the library's sign convention) -/
def pivotRaw (M : Mat) (r c i j : Nat) : Int :=
  let e := ent M r c
  if i == r then (if j == c then -e else e * ent M r j)
  else if j == c then e * ent M i c
  else ent M i j - e * ent M i c * ent M r j

def pivot2 (m n : Nat) (M : Mat) (r c : Nat) : Mat := Mat.ofFn m n (fun i j => mod2 (pivotRaw M r c i j))
def pivot3 (m n : Nat) (M : Mat) (r c : Nat) : Mat := Mat.ofFn m n (fun i j => mod3 (pivotRaw M r c i j))

/-- The standard GF(3) basis exchange `[[ε, bᵀ],[a, D]] ↦ [[ε, ε bᵀ],[−ε a, D − ε a bᵀ]]`. -/
def exchange3 (m n : Nat) (M : Mat) (r c : Nat) : Mat :=
  Mat.ofFn m n (fun i j =>
    let e := ent M r c
    mod3 (if i == r then (if j == c then e else e * ent M r j)
          else if j == c then -(e * ent M i c)
          else ent M i j - e * ent M i c * ent M r j))

/-- Standard GF(2) basis exchange. -/
def exchange2 (m n : Nat) (M : Mat) (r c : Nat) : Mat :=
  Mat.ofFn m n (fun i j =>
    mod2 (if i == r || j == c then ent M i j else ent M i j + ent M i c * ent M r j))

/-- pivot entry valid? (in range and nonzero in the field) -/
def pivotOk2 (m n : Nat) (M : Mat) (r c : Nat) : Bool := r < m && c < n && mod2 (ent M r c) != 0
def pivotOk3 (m n : Nat) (M : Mat) (r c : Nat) : Bool := r < m && c < n && mod3 (ent M r c) != 0

def pivots2 (m n : Nat) (M : Mat) : List (Nat × Nat) → Option Mat
  | [] => some (Mat.ofFn m n (fun i j => mod2 (ent M i j)))
  | (r, c) :: ps => if pivotOk2 m n M r c then pivots2 m n (pivot2 m n M r c) ps else none

def pivots3 (m n : Nat) (M : Mat) : List (Nat × Nat) → Option Mat
  | [] => some (Mat.ofFn m n (fun i j => mod3 (ent M i j)))
  | (r, c) :: ps => if pivotOk3 m n M r c then pivots3 m n (pivot3 m n M r c) ps else none

/-- Regular pivot: a matrix iff every entry of the rational pivot stays in {-1,0,1}. -/
inductive RegPivot where
  | mat (M : Mat)
  | violator (i j : Nat)     -- entry whose rational pivot value leaves {-1,0,1}
  | badPivot
deriving Repr

def pivotRawMat (m n : Nat) (M : Mat) (r c : Nat) : Mat := Mat.ofFn m n (fun i j => pivotRaw M r c i j)

def firstNonTernary (m n : Nat) (M : Mat) : Option (Nat × Nat) :=
  (List.range m).findSome? fun i => (List.range n).findSome? fun j =>
    if isTernaryEntry (ent M i j) then none else some (i, j)

def regularPivot (m n : Nat) (M : Mat) (r c : Nat) : RegPivot :=
  if !(r < m && c < n && (ent M r c == 1 || ent M r c == -1)) then .badPivot else
  let R := pivotRawMat m n M r c
  match firstNonTernary m n R with
  | some (i, j) => .violator i j
  | none => .mat R

end Cmr
