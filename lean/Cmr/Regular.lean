/-
  F4 — regularity oracle for 0/1 matrices: is there a signing of the nonzeros that is totally unimodular?
  Depth-first over signings, row by row, abandoning a prefix as soon as it is not TU.
-/
import Cmr.Det
namespace Cmr

/-- all ±1 signings of a 0/1 row -/
def rowSignings : List Int → List (List Int)
  | [] => [[]]
  | x :: xs =>
    let rest := rowSignings xs
    if x == 0 then rest.map (0 :: ·) else rest.map (1 :: ·) ++ rest.map (-1 :: ·)

/-- `pref` = already signed rows (a TU matrix with `n` columns); `rows` = remaining 0/1 rows -/
def signSearch (n : Nat) : List (List Int) → Mat → Option Mat
  | [], pref => some pref
  | r :: rest, pref =>
    (rowSignings r).findSome? fun s =>
      let p := pref ++ [s]
      if isTU p.length n p then signSearch n rest p else none

/-- a TU signing of the 0/1 matrix `M`, if one exists -/
def tuSigning (n : Nat) (M : Mat) : Option Mat := if isBinary M then signSearch n M [] else none

/-- Regularity of an `m × n` 0/1 matrix by definition (entries outside {0,1}: not regular). -/
def isRegular (n : Nat) (M : Mat) : Bool := (tuSigning n M).isSome

end Cmr
