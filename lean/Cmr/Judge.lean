/-
  The judge: given an operation line and the implementation's result, decide whether the result conforms to the
  contract.  Every deciding function used here is a definition of the model (`Cmr.*`) about which
  `CmrProofs/Props/*.lean` states theorems.
-/
import Cmr.Proto
import Cmr.Det
import Cmr.Complement
import Cmr.Pivot
import Cmr.Regular
import Cmr.Stack
import Cmr.Graph
import Cmr.SP
import Cmr.Balanced
import Cmr.Equimod
import Cmr.Text
import Cmr.Sums
import Cmr.Tree
import Cmr.Rel
import Cmr.Render
namespace Cmr

inductive Verdict where
  | ok (tag : String)
  | fail (tag : String) (msg : String)
  | skip (tag : String)
  | badOp (msg : String)
deriving Repr

def oneLine (s : String) : String := s.map (fun c => if c == '\n' || c == '\r' then ' ' else c)

def Verdict.render : Verdict → String
  | .ok t => s!"ok {t}"
  | .fail t m => oneLine s!"FAIL {t} {m}"
  | .skip t => s!"skip {t}"
  | .badOp m => oneLine s!"bad-op {m}"

/-- size limit (rows, columns) up to which the brute-force oracles are evaluated -/
def oracleLimit : Nat := 8

/-- generic post-conditions of every call (C11 stack clause, C19 input clause) -/
def judgeTrailer (tr : Trailer) (allowInputChange : Bool := false) : Option (String × String) :=
  if tr.usage0 != tr.usage1 then some ("stack", s!"scratch stack usage {tr.usage0} before, {tr.usage1} after the call")
  else if tr.depthDelta != 0 then some ("stack", s!"alloc/free trace not balanced: depth delta {tr.depthDelta}")
  else if tr.orderViol != 0 then some ("stack", s!"scratch chunks freed out of LIFO order ({tr.orderViol} times)")
  else if tr.inputModified != 0 && !allowInputChange then some ("input", "input object modified by the call")
  else none

/-- a returned matrix must be consistent (C20) and of the expected shape; gives its dense form -/
def checkCsr (A : Csr) (m n : Nat) : Except String Mat :=
  if !A.consistent then .error s!"inconsistent sparse matrix {repr A}"
  else if A.numRows != m || A.numCols != n then .error s!"shape {A.numRows}x{A.numCols}, expected {m}x{n}"
  else .ok A.toDense

def matEq (A B : Mat) : Bool := A == B

/-- index list from a harness submatrix: all in range, none `SIZE_MAX` -/
def idxList (l : List Int) (bound : Nat) : Option (List Nat) :=
  l.mapM (fun v => if v < 0 || v.toNat ≥ bound then none else some v.toNat)

def noDup (l : List Nat) : Bool := decide l.Nodup

/-- C07 contract: a square submatrix inside `M`, no repetitions, `|det| ≥ 2`. -/
def validViolator (m n : Nat) (M : Mat) (rs cs : List Nat) : Bool :=
  rs.length == cs.length && rs.all (· < m) && cs.all (· < n) && noDup rs && noDup cs &&
    (let d := detL rs.length (sub M rs cs); d ≥ 2 || d ≤ -2)

def eraseAt (l : List Nat) (i : Nat) : List Nat := l.eraseIdx i

/-- C07 contract for ternary input: determinant exactly ±2 and every proper submatrix TU (it suffices to delete one
row and one column in all ways). -/
def minimalViolator (M : Mat) (rs cs : List Nat) : Bool :=
  let k := rs.length
  let d := detL k (sub M rs cs)
  (d == 2 || d == -2) &&
  (List.range k).all fun i => (List.range k).all fun j =>
    isTU (k-1) (k-1) (sub M (eraseAt rs i) (eraseAt cs j))

/-- cost estimate of the brute-force TU oracle: number of square submatrices weighted by the Laplace expansion size -/
def binom : Nat → Nat → Nat
  | _, 0 => 1
  | 0, _+1 => 0
  | n+1, k+1 => binom n k + binom n (k+1)

def fact : Nat → Nat
  | 0 => 1
  | n+1 => (n+1) * fact n

def tuOracleCost (m n : Nat) : Nat :=
  (List.range (min m n + 1)).foldl (fun acc k => acc + binom m k * binom n k * fact k) 0

/-- the oracle is evaluated for everything up to 8x8 and for larger wide or tall shapes of comparable cost -/
def tuOracleFeasible (m n : Nat) : Bool :=
  (m ≤ oracleLimit && n ≤ oracleLimit) || (min m n ≤ 5 && max m n ≤ 64 && tuOracleCost m n ≤ 1500000)

/-! ### per-op judges -/

open P in
def judgeComplement : P Verdict := do
  let (m, n, M) ← denseMat
  let r ← idx; let c ← idx
  expect "=>"
  let status ← tok
  if status != "ok" then return .fail "complement" s!"status {status}"
  let some A ← csr | return .fail "complement" "no result matrix"
  match checkCsr A m n with
  | .error e => return .fail "complement:csr" e
  | .ok R =>
    let E := complementRC m n M r c
    if matEq R E then return .ok s!"complement:{if r.isSome then "r" else "-"}{if c.isSome then "c" else "-"}"
    else return .fail "complement" s!"impl={matToString R} model={matToString E}"

open P in
def judgeCtu : P Verdict := do
  let _mask ← nat
  let (m, n, M) ← denseMat
  expect "=>"
  let status ← tok
  if status != "ok" then return .fail "ctu" s!"status {status}"
  let v ← tok
  let r ← int; let c ← int
  if m > oracleLimit || n > oracleLimit then return .skip "ctu:large"
  let expected := isCTU m n M
  if v == "yes" then
    if expected then return .ok "ctu:yes" else return .fail "ctu:verdict" "impl=yes model=no"
  else
    if expected then return .fail "ctu:verdict" "impl=no model=yes"
    -- witness: 'none' must be SIZE_MAX (printed as -1), otherwise in range
    if r == 777777 || c == 777777 then return .fail "ctu:witness" "complement row/column not written"
    if r ≥ (m : Int) || c ≥ (n : Int) then
      return .fail "ctu:witness-none" s!"'no row/column' must be SIZE_MAX, got r={r} c={c} for a {m}x{n} matrix"
    let some A ← csr | return .fail "ctu:witness" "public complement operation failed on the reported witness"
    match checkCsr A m n with
    | .error e => return .fail "ctu:csr" e
    | .ok R =>
      if isTU m n R then return .fail "ctu:witness" s!"reported complement (r={r}, c={c}) gives a TU matrix via the public operation"
      else return .ok "ctu:no"


/-! ### decomposition trees (C03/C04) -/

open P in
/-- parses `T {…}` or `-`; returns the verdict of the tree checks (none if no tree) -/
def judgeTreePayload : P (Option Verdict) := do
  let t ← tok
  if t == "-" then return none
  if t != "T" then throw s!"expected tree, got '{t}'"
  let (nodes, _) ← parseNode 0
  -- the ordering invariant that the TU-certification theorem `tree_TU_partial3` (Props/C03TU.lean) takes as hypothesis `hord`:
  -- children carry larger ids than their parent (the dump numbers nodes in pre-order), checked on every dumped tree
  if !(nodes.all (fun nd => nd.children.all (fun ci => nd.id < ci.child))) then
    return some (.fail "tree:order" "a child does not have a larger id than its parent")
  match checkTree nodes with
  | .ok _ => return some (.ok s!"tree:{nodes.length}:{treeTypeCounts nodes}")
  | .error (tag, msg) => return some (.fail tag msg)

def combineTree (v : Verdict) (tv : Option Verdict) : Verdict :=
  match v, tv with
  | .fail t m, _ => .fail t m
  | .badOp m, _ => .badOp m
  | _, some (.fail t m) => .fail t m
  | .ok t, some (.ok t2) => .ok s!"{t}+{t2}"
  | v, _ => v

open P in
def judgeTreeseq : P Verdict := do
  let _tern ← nat
  let _mask ← nat
  let (_m, _n, _M) ← denseMat
  let k ← nat
  let _ ← many (do let _ ← tok; let _ ← nat; let _ ← nat; pure ()) k
  expect "=>"
  let status ← tok
  if status != "ok" then return .fail "treeseq" s!"status {status}"
  let mut acc : Verdict := .ok "treeseq"
  let mut count := 0
  let mut fuel := 40
  while fuel > 0 do
    fuel := fuel - 1
    let t ← peek
    match t with
    | some "T" =>
      let tv ← judgeTreePayload
      acc := combineTree acc tv
      count := count + 1
    | some x =>
      if x.startsWith "step" then
        -- a complete/refine call returned an error: admissible only for invalid parameters
        if x.endsWith ":noleaf" then
          let _ ← tok
          continue
        if x.endsWith "err:PARAMS" || x.endsWith "err:INPUT" then return combineTree acc (some (.ok s!"steps{count}:rejected"))
        else return .fail "treeseq:step" x
      else if x == "notree" then return .skip "treeseq:notree"
      else break
    | none => break
  return acc

/-- `tu` and `regular` share the mask layout -/
def maskBit (mask : Nat) (b : Nat) : Bool := (mask >>> b) % 2 == 1
def maskAlg (mask : Nat) : Nat := mask % 4
def maskStopFlags (mask : Nat) : Bool := maskBit mask 6 || maskBit mask 7 || maskBit mask 8
def maskStrategy (mask : Nat) : Nat := (mask >>> 13) % 8

open P in
def judgeViolator (m n : Nat) (M : Mat) (sub? : Option (List Int × List Int)) (naive : Bool) : Verdict :=
  match sub? with
  | none => .fail "tu:violator" "no violating submatrix returned although requested"
  | some (rsI, csI) =>
    match idxList rsI m, idxList csI n with
    | some rs, some cs =>
      if rs.length > 9 then .skip "tu:violator-large" else
      if !validViolator m n M rs cs then
        .fail "tu:violator" s!"rows {rs} cols {cs}: not a square submatrix with |det| >= 2 (det={detL rs.length (sub M rs cs)})"
      else if isTernary M then
        if minimalViolator M rs cs then .ok s!"tu:no:minimal{if naive then ":naive" else ":greedy"}"
        else .fail "tu:violator-minimal" s!"rows {rs} cols {cs}: det={detL rs.length (sub M rs cs)}, not minimal"
      else
        if rs.length == 1 && !isTernaryEntry (ent M (rs.getD 0 0) (cs.getD 0 0)) then .ok "tu:no:entry"
        else .fail "tu:violator-entry" s!"non-ternary input: expected a single offending entry, got rows {rs} cols {cs}"
    | _, _ => .fail "tu:violator" s!"indices out of range: rows {rsI} cols {csI}"

open P in
def judgeTu : P Verdict := do
  let mask ← nat
  let (m, n, M) ← denseMat
  expect "=>"
  let status ← tok
  if maskStrategy mask ≥ 5 && maskAlg mask == 0 && isTernary M then
    -- documented invalid strategy: an error status is the contract
    if status == "err:PARAMS" then return .ok "tu:params" else return .fail "tu:params" s!"invalid strategy accepted: {status}"
  if status != "ok" then return .fail "tu:status" s!"status {status}"
  let v ← tok
  let sub? ← submat
  let tv ← judgeTreePayload
  let core : Verdict :=
    if !tuOracleFeasible m n then
      -- beyond the brute-force oracle the verdict is not judged here (C10 relates verdicts of large instances), but a returned
      -- violating submatrix is validated at any size
      (if v == "no" && maskBit mask 18 && !(maskStopFlags mask) then
        match judgeViolator m n M sub? (maskBit mask 4) with
        | .ok t => .ok s!"{t}:large"
        | o => o
       else .skip "tu:large") else
    let expected := isTU m n M
    if v == "undet" then
      (if maskStopFlags mask then .ok "tu:undetermined" else .fail "tu:verdict" "verdict not written")
    else if v == "yes" then
      (if expected then .ok "tu:yes" else .fail "tu:verdict" s!"impl=yes model=no violator={repr (tuViolator m n M)}")
    else
      (if expected then .fail "tu:verdict" "impl=no model=yes"
       else if maskBit mask 18 then judgeViolator m n M sub? (maskBit mask 4)
       else .ok "tu:no")
  -- a tree's root flag must agree with the reported verdict
  return combineTree core tv

open P in
def judgeRegular : P Verdict := do
  let mask ← nat
  let (m, n, M) ← denseMat
  expect "=>"
  let status ← tok
  if maskStrategy mask ≥ 5 && isBinary M then
    if status == "err:PARAMS" then return .ok "regular:params" else return .fail "regular:params" s!"invalid strategy accepted: {status}"
  if status != "ok" then return .fail "regular:status" s!"status {status}"
  let v ← tok
  -- minor: "N type k (r c)* submat" or "-"
  let mt ← tok
  if mt == "N" then
    let _ty ← int; let k ← nat
    let _ ← many (do let _ ← idx; let _ ← idx; pure ()) k
    let _ ← submat
  let tv ← judgeTreePayload
  let core : Verdict :=
    if m > 6 || n > 6 then .skip "regular:large" else
    let expected := isRegular n M
    if v == "undet" then
      (if maskStopFlags mask then .ok "regular:undetermined" else .fail "regular:verdict" "verdict not written")
    else if (v == "yes") == expected then .ok s!"regular:{v}"
    else .fail "regular:verdict" s!"impl={v} model={if expected then "yes" else "no"}"
  return combineTree core tv

open P in
def judgePivot : P Verdict := do
  let kind ← tok
  let single ← nat
  let (m, n, M) ← denseMat
  let k ← nat
  let ps ← many (do let r ← idx; let c ← idx; pure (r.getD m, c.getD n)) k
  expect "=>"
  let status ← tok
  let tag := s!"pivot{kind}:{if single == 1 then "single" else s!"seq{k}"}"
  if kind == "2" || kind == "3" then
    let expected := if kind == "2" then pivots2 m n M ps else pivots3 m n M ps
    match expected with
    | none =>
      if status == "err:INPUT" then return .ok s!"{tag}:rejected"
      else return .fail tag s!"zero/out-of-range pivot must give err:INPUT, got {status}"
    | some E =>
      if status != "ok" then return .fail tag s!"status {status}"
      let some A ← csr | return .fail tag "no result matrix"
      match checkCsr A m n with
      | .error e => return .fail s!"{tag}:csr" e
      | .ok R =>
        if matEq R E then return .ok tag else return .fail tag s!"impl={matToString R} model={matToString E}"
  else
    -- regular pivots: one by one; a matrix iff every rational pivot stays ternary
    let rec go (M : Mat) (ps : List (Nat × Nat)) (done : List (Nat × Nat)) : RegPivot × List (Nat × Nat) :=
      match ps with
      | [] => (.mat M, done)
      | (r, c) :: rest =>
        match regularPivot m n M r c with
        | .mat M' => go M' rest (done ++ [(r, c)])
        | other => (other, done)
    if !isTernary M then return .skip s!"{tag}:nonternary"
    match go M ps [] with
    | (.badPivot, _) =>
      if status == "err:INPUT" then return .ok s!"{tag}:rejected"
      else return .fail tag s!"zero/out-of-range pivot must give err:INPUT, got {status}"
    | (.mat E, _) =>
      if status != "ok" then return .fail tag s!"status {status}"
      let some A ← csr | return .fail tag "no result matrix although all rational pivots stay ternary"
      match checkCsr A m n with
      | .error e => return .fail s!"{tag}:csr" e
      | .ok R => if matEq R E then return .ok s!"{tag}:matrix" else return .fail tag s!"impl={matToString R} model={matToString E}"
    | (.violator _ _, done) =>
      if status != "ok" then return .fail tag s!"status {status}"
      let a ← csr
      if a.isSome then return .fail tag "a matrix was returned although the rational pivot leaves {-1,0,1}"
      let some (rsI, csI) ← submat | return .fail tag "neither matrix nor violator returned"
      match idxList rsI m, idxList csI n with
      | some rs, some cs =>
        if validViolator m n M rs cs then return .ok s!"{tag}:violator{if done.isEmpty then "" else ":late"}"
        else return .fail s!"{tag}:violator" s!"rows {rs} cols {cs} det={detL rs.length (sub M rs cs)}"
      | _, _ => return .fail s!"{tag}:violator" "indices out of range"

/-- model of the utility ops on dense matrices -/
def permuteMat (M : Mat) (rows cols : List Nat) : Mat := sub M rows cols

/-- C `round` on `x/64` (half away from zero) -/
def round64 (x : Int) : Int := if x ≥ 0 then (x + 32) / 64 else -((-x + 32) / 64)

open P in
/-- double matrices: every entry is `x/64`, the tolerance `eps/64`; the contract of the `…dblmat…` utilities with an absolute
error tolerance -/
def judgeMatDbl (what : String) : P Verdict := do
  let eps ← int
  let (m, n, M) ← denseMat
  let tag := s!"mat:{what}:d"
  -- slice / permute carry index lists; for permute an empty list encodes "NULL = identity"
  let idx : Option (List Nat × List Nat) ←
    if what == "slice" || what == "permute" then do
      let nr ← nat; let nc ← nat
      let rs ← many nat nr
      let cs ← many nat nc
      pure (some (if what == "permute" && nr == 0 then List.range m else rs,
                  if what == "permute" && nc == 0 then List.range n else cs))
    else pure none
  expect "=>"
  let status ← tok
  let entries : List Int := (M.flatMap id).filter (· != 0)
  let near (x : Int) : Bool := (x - 64 * round64 x).natAbs ≤ eps.toNat
  match what with
  | "isbinary" | "isternary" =>
    if status != "ok" then return .fail tag s!"status {status}"
    let v ← tok
    let ok := entries.all (fun x => near x && (let r := round64 x; if what == "isbinary" then r == 0 || r == 1 else r == 0 || r == 1 || r == -1))
    if (v == "yes") == ok then return .ok s!"{tag}:{v}" else return .fail tag s!"impl={v} model={ok}"
  | "tochr" =>
    -- the first stored entry (row-major) that is not near an integer, or does not fit a char, decides the error
    let firstBad := entries.findSome? (fun x => if !near x then some "err:INPUT" else if round64 x > 127 || round64 x < -128 then some "err:OVERFLOW" else none)
    match firstBad with
    | some e =>
      if status == e then
        if (← get).contains "outs=1" then return .fail s!"{tag}:object-on-error" "a matrix was handed out together with the error"
        return .ok s!"{tag}:{e}"
      else return .fail tag s!"expected {e}, got {status}"
    | none =>
      if status != "ok" then return .fail tag s!"status {status}"
      let some A ← csr | return .fail tag "no result"
      match checkCsr A m n with
      | .error e => return .fail s!"{tag}:csr" e
      | .ok R =>
        let E := M.mapEntries round64
        if R == E then return .ok tag else return .fail tag s!"impl={matToString R} model={matToString E}"
  | _ =>
    if status != "ok" then return .fail tag s!"status {status}"
    let (em, en, E) : Nat × Nat × Mat :=
      match what with
      | "transpose" => (n, m, transpose m n M)
      | "support" => (m, n, M.mapEntries (fun x => if x.natAbs > eps.toNat then 1 else 0))
      | "ssupport" => (m, n, M.mapEntries (fun x => if x.natAbs > eps.toNat then (if x > 0 then 1 else -1) else 0))
      | _ =>
        match idx with
        | some (rs, cs) => (rs.length, cs.length, sub M rs cs)
        | none => (m, n, M)
    let some A ← csr | return .fail tag "no result"
    match checkCsr A em en with
    | .error e => return .fail s!"{tag}:csr" e
    | .ok R => if R == E then return .ok tag else return .fail tag s!"impl={matToString R} model={matToString E}"

open P in
def judgeMat : P Verdict := do
  let what ← tok
  let ty ← tok
  if ty == "d" then return (← judgeMatDbl what)
  let (m, n, M) ← denseMat
  let tag := s!"mat:{what}:{ty}"
  match what with
  | "isbinary" | "isternary" =>
    expect "=>"
    let status ← tok
    if status != "ok" then return .fail tag s!"status {status}"
    let v ← tok
    let e := if what == "isbinary" then isBinary M else isTernary M
    if (v == "yes") == e then return .ok tag else return .fail tag s!"impl={v}"
  | "slice" | "permute" =>
    let nr ← nat; let nc ← nat
    let rs ← many nat nr
    let cs ← many nat nc
    expect "=>"
    let status ← tok
    if status != "ok" then return .fail tag s!"status {status}"
    let some A ← csr | return .fail tag "no result"
    let rs' := if what == "permute" && nr == 0 then List.range m else rs
    let cs' := if what == "permute" && nc == 0 then List.range n else cs
    match checkCsr A rs'.length cs'.length with
    | .error e => return .fail s!"{tag}:csr" e
    | .ok R =>
      let E := sub M rs' cs'
      if matEq R E then return .ok tag else return .fail tag s!"impl={matToString R} model={matToString E}"
  | _ =>
    expect "=>"
    let status ← tok
    let (em, en, E) : Nat × Nat × Mat :=
      match what with
      | "transpose" => (n, m, transpose m n M)
      | "support" => (m, n, support M)
      | "ssupport" => (m, n, signedSupport M)
      | _ => (m, n, M)   -- copy, toint, tochr
    if what == "tochr" && !(M.all (fun r => r.all (fun x => -128 ≤ x && x ≤ 127))) then
      if status == "err:OVERFLOW" then return .ok s!"{tag}:overflow" else return .fail tag s!"value outside char range accepted: {status}"
    if status != "ok" then return .fail tag s!"status {status}"
    let some A ← csr | return .fail tag "no result"
    match checkCsr A em en with
    | .error e => return .fail s!"{tag}:csr" e
    | .ok R => if matEq R E then return .ok tag else return .fail tag s!"impl={matToString R} model={matToString E}"

/-- `stack hdr=H a:40 a:8 f f …  =>  ok u:a u:a u u …` -/
def judgeStack (op : List String) (status : String) (payload : List String) : Verdict := Id.run do
  if status != "ok" then return .fail "stack" s!"status {status}"
  let hdrTok := payload.headD ""
  let some hdr := (hdrTok.drop 4).toString.toNat? | return .badOp "stack: no hdr"
  let mut s := Stack.init
  let mut outs := payload.tail
  let mut nAlloc := 0
  for t in op do
    let expected : Option (Stack × String) :=
      if t.startsWith "a:" then
        match (t.drop 2).toString.toNat? with
        | some sz => (s.alloc hdr sz).map (fun (s', a) => (s', s!"{s'.usage}:{a}"))
        | none => none
      else if t == "f" then s.free.map (fun s' => (s', s!"{s'.usage}"))
      else none
    match expected, outs with
    | some (s', e), o :: rest =>
      if e != o then return .fail "stack" s!"after '{t}': impl={o} model={e}"
      s := s'; outs := rest
      if t.startsWith "a:" then nAlloc := nAlloc + 1
    | _, _ => return .badOp s!"stack op '{t}'"
  return .ok s!"stack:{nAlloc}"


/-! ### graphs -/

open P in
/-- `G numNodes numEdges nodeIds… (edgeId u v)*` optionally followed by `F k ids…  K k ids…  [A bits… | a]` -/
def parseGraphCert (withRev : Bool) : P (Option (Graph × List Nat × List Nat)) := do
  let t ← tok
  if t == "-" then return none
  if t != "G" then throw s!"expected graph, got '{t}'"
  let nn ← nat; let ne ← nat
  let nodes ← many nat nn
  let es ← many (do let e ← nat; let u ← nat; let v ← nat; pure (e, u, v)) ne
  expect "F"
  let nf ← nat
  let forest ← many nat nf
  expect "K"
  let nk ← nat
  let coforest ← many nat nk
  let mut revs : List Bool := es.map (fun _ => false)
  if withRev then
    let a ← tok
    if a == "A" then
      let bits ← many nat ne
      revs := bits.map (· != 0)
    else if a != "a" then throw s!"expected arc reversal flags, got '{a}'"
  let edges := (es.zip revs).map (fun ((e, u, v), r) => ({ id := e, u := u, v := v, rev := r } : Edge))
  return some ({ nodes := nodes, edges := edges }, forest, coforest)

/-- rows small enough for the brute-force graphicness/network search -/
def graphOracleRows : Nat := 5

open P in
def judgeGraphic : P Verdict := do
  let tr ← nat; let wantgraph ← nat; let _wantsub ← nat
  let (m0, n0, M0) ← denseMat
  expect "=>"
  let status ← tok
  let name := if tr == 1 then "cographic" else "graphic"
  if status != "ok" then return .fail name s!"status {status}"
  let v ← tok
  -- the matrix the graph must realise: M itself, or its transpose for the transposed entry point
  let (m, n, M) := if tr == 1 then (n0, m0, transpose m0 n0 M0) else (m0, n0, M0)
  let cert ← parseGraphCert false
  let sub? ← submat
  if !isBinary M then
    if v == "no" then return .ok s!"{name}:nonbinary" else return .fail name "non-binary matrix reported (co)graphic"
  if v == "yes" then
    match cert with
    | none =>
      if wantgraph == 1 then return .fail s!"{name}:cert" "answer yes but no graph returned although requested"
      else if m ≤ graphOracleRows then
        if isGraphic m n M then return .ok s!"{name}:yes" else return .fail s!"{name}:verdict" "impl=yes model=no"
      else return .skip s!"{name}:yes-large"
    | some (g, forest, coforest) =>
      match checkGraphCert m n M g forest coforest false with
      | .ok _ => return .ok s!"{name}:yes:cert"
      | .error e => return .fail s!"{name}:cert" e
  else
    match sub? with
    | some (rs, cs) =>
      if (idxList rs m0).isNone || (idxList cs n0).isNone then return .fail s!"{name}:violator" "violator indices out of range"
    | none => pure ()
    if m ≤ graphOracleRows then
      if isGraphic m n M then return .fail s!"{name}:verdict" s!"impl=no model=yes tree={repr (graphicSearch m n M)}"
      else return .ok s!"{name}:no"
    else return .skip s!"{name}:no-large"

open P in
def judgeNetwork : P Verdict := do
  let tr ← nat; let wantgraph ← nat; let _wantsub ← nat
  let (m0, n0, M0) ← denseMat
  expect "=>"
  let status ← tok
  let name := if tr == 1 then "conetwork" else "network"
  if status != "ok" then return .fail name s!"status {status}"
  let v ← tok
  let supp ← tok
  let (m, n, M) := if tr == 1 then (n0, m0, transpose m0 n0 M0) else (m0, n0, M0)
  let cert ← parseGraphCert true
  let sub? ← submat
  if !isTernary M then
    if v == "no" then return .ok s!"{name}:nonternary" else return .fail name "non-ternary matrix reported (co)network"
  -- support graphicness flag
  if supp != "supp=-" && m ≤ graphOracleRows then
    let sg := isGraphic m n (support M)
    if (supp == "supp=yes") != sg then
      return .fail s!"{name}:support" s!"support graphicness reported {supp}, model says {sg}"
  if v == "yes" then
    match cert with
    | none =>
      if wantgraph == 1 then return .fail s!"{name}:cert" "answer yes but no digraph returned although requested"
      else if m ≤ graphOracleRows then
        if isNetwork m n M then return .ok s!"{name}:yes" else return .fail s!"{name}:verdict" "impl=yes model=no"
      else return .skip s!"{name}:yes-large"
    | some (g, forest, coforest) =>
      match checkGraphCert m n M g forest coforest true with
      | .ok _ => return .ok s!"{name}:yes:cert"
      | .error e => return .fail s!"{name}:cert" e
  else
    if m ≤ graphOracleRows && isNetwork m n M then return .fail s!"{name}:verdict" s!"impl=no model=yes"
    -- a returned violating submatrix is validated at any size of M (as long as the violator itself is within oracle size)
    match sub? with
    | some (rsI, csI) =>
      match idxList rsI m0, idxList csI n0 with
      | some rs, some cs =>
        -- the violating submatrix lies within M and is itself not a (co)network matrix
        let S0 := sub M0 rs cs
        let (sm, sn, S) := if tr == 1 then (cs.length, rs.length, transpose rs.length cs.length S0) else (rs.length, cs.length, S0)
        if !(noDup rs && noDup cs) then return .fail s!"{name}:violator" "violator repeats a line"
        if sm > graphOracleRows then return .skip s!"{name}:no:violator-large"
        if isNetwork sm sn S then return .fail s!"{name}:violator" s!"returned submatrix rows {rs} cols {cs} is a (co)network matrix"
        return .ok s!"{name}:no:violator"
      | _, _ => return .fail s!"{name}:violator" "violator indices out of range"
    | none => if m ≤ graphOracleRows then return .ok s!"{name}:no" else return .skip s!"{name}:no-large"

/-- Is `M` the fundamental-cycle matrix of `g` for some spanning forest, up to the order of rows and of columns?  (The contract of the
representation-matrix functions when no forest, or a list that is no spanning forest, is offered: "a network matrix of D is computed
regardless".)  Brute force over all edge subsets of the right size; used for small graphs only. -/
def isSomeCycleMatrix (g : Graph) (r c : Nat) (M : Mat) (signed : Bool) : Bool :=
  let ids := g.edges.map (·.id)
  let sortCols (X : Mat) (rr cc : Nat) : List (List Int) :=
    ((List.range cc).map (fun j => (List.range rr).map (fun i => ent X i j))).mergeSort (fun a b => decide (a ≤ b))
  (choose r ids).any fun F =>
    let T := F.filterMap g.edge?
    let coIds := ids.filter (fun e => !F.contains e)
    let coT := coIds.filterMap g.edge?
    coT.length == c && isSpanningForest g T &&
    match cycleMatrix T coT signed with
    | none => false
    | some C =>
      -- some row order of C has the same multiset of columns as M
      let target := sortCols M r c
      (perms (List.range r)).any fun p => sortCols (sub C p (List.range c)) r c == target

open P in
def judgeRepmat : P Verdict := do
  let directed ← nat; let outs ← nat
  let nn ← nat; let ne ← nat
  let es ← many (do let u ← nat; let v ← nat; let r ← nat; pure (u, v, r)) ne
  let nF ← int
  let F ← many nat nF.toNat
  let nK ← int
  let K ← many nat nK.toNat
  expect "=>"
  let status ← tok
  let name := if directed == 1 then "repmat:network" else "repmat:graphic"
  if status != "ok" then return .fail name s!"status {status}"
  let corr ← tok
  let A ← csr
  let At ← csr
  let edges : List Edge := es.zipIdx.map (fun ((u, v, r), i) => { id := i, u := u, v := v, rev := directed == 1 && r != 0 })
  let g : Graph := { nodes := List.range nn, edges := edges }
  -- outputs must be consistent matrices and transposes of each other
  let dm ← match A with
    | some a => if a.consistent then pure (some (a.numRows, a.numCols, a.toDense)) else return .fail s!"{name}:csr" s!"{repr a}"
    | none => pure none
  let dt ← match At with
    | some a => if a.consistent then pure (some (a.numRows, a.numCols, a.toDense)) else return .fail s!"{name}:csr" s!"{repr a}"
    | none => pure none
  if corr != "correct=?" && ((outs % 2 == 1) != dm.isSome || (outs / 2 % 2 == 1) != dt.isSome) then return .fail name "requested outputs missing"
  match dm, dt with
  | some (r, c, M), some (r', c', Mt) =>
    if !(r == c' && c == r' && transpose r c M == Mt) then return .fail s!"{name}:transpose" "matrix and transpose outputs differ"
  | _, _ => pure ()
  -- without a (correct) forest the library chooses one: the result must be the cycle matrix of *some* spanning forest
  let someForest (tag : String) : Verdict :=
    let X : Option (Nat × Nat × Mat) := match dm, dt with
      | some x, _ => some x
      | none, some (r, c, Mt) => some (c, r, transpose r c Mt)
      | none, none => none
    match X with
    | none => .ok tag
    | some (r, c, M) =>
      if ne > 9 || r > 5 then .skip s!"{tag}:large"
      else if r + c != ne then .fail name s!"{r} rows and {c} columns for {ne} edges"
      else if isSomeCycleMatrix g r c M (directed == 1) then .ok tag
      else .fail s!"{name}:some-forest" s!"the matrix {matToString M} is not the fundamental-cycle matrix of the graph for any spanning forest"
  if nF < 0 then return someForest s!"{name}:noforest"
  let T := F.filterMap g.edge?
  let isSF := decide F.Nodup && isSpanningForest g T
  -- the command-line tools do not report the flag ("correct=?")
  if corr != "correct=?" && (corr == "correct=1") != isSF then
    return .fail s!"{name}:flag" s!"forest correctness reported {corr}, model says {isSF}"
  if !isSF then return someForest s!"{name}:incorrect-forest"
  -- coforest: given order if complete, else the contract fixes only the set of columns
  let compl := (List.range ne).filter (fun e => !F.contains e)
  if nK < 0 || !(decide K.Nodup && K.length == compl.length && K.all compl.contains) then return .ok s!"{name}:nocoforest"
  let coT := K.filterMap g.edge?
  match cycleMatrix T coT (directed == 1) with
  | none => return .fail name "model: no tree path (internal)"
  | some C =>
    let ok1 := match dm with | some (_, _, M) => M == C | none => true
    let ok2 := match dt with | some (_, _, Mt) => Mt == transpose T.length coT.length C | none => true
    if ok1 && ok2 then return .ok name
    else return .fail name s!"impl={(dm.map (fun x => matToString x.2.2)).getD "-"} model={matToString C}"


/-! ### series-parallel -/

open P in
def judgeSp : P Verdict := do
  let kind ← tok
  let fn ← tok
  let outs ← nat
  let maxred ← idx
  let (m, n, M) ← denseMat
  expect "=>"
  let status ← tok
  let ternary := kind != "bin"
  let tag := s!"sp:{kind}:{fn}"
  if status != "ok" then return .fail tag s!"status {status}"
  let v ← tok
  -- reductions
  let rt ← tok
  let mut reds : Option (Option (List Reduction)) := none     -- none: not requested; some none: SIZE_MAX (cut short)
  if rt == "R" then
    let cnt ← idx
    match cnt with
    | none => reds := some none
    | some k =>
      let l ← many (do let e ← int; let mt ← int; pure (⟨e, mt⟩ : Reduction)) k
      reds := some (some l)
  let reduced? ← submat
  let viol? ← submat
  -- separation
  let st ← tok
  let mut sepa : Option (Nat × Nat × Nat × List Nat × List Nat) := none
  if st == "P" then
    let sr ← nat; let sc ← nat; let ty ← nat
    let rf ← many nat sr
    let cf ← many nat sc
    sepa := some (sr, sc, ty, rf, cf)
  let valid := if ternary then isTernary M else isBinary M
  if !valid then return .skip s!"{tag}:invalid-input"
  let allR := List.range m
  let allC := List.range n
  let cut : Bool := fn == "dec" && maxred.isSome     -- maxNumReductions given: the run may stop early
  -- verdict
  let small := m + n ≤ 9
  let expected := if small then spSearch ternary M (m + n) allR allC else isSPgreedy ternary m n M
  if small && expected != isSPgreedy ternary m n M then
    return .fail "sp:model" "greedy and exhaustive search disagree (confluence violated in the model?)"
  if outs % 2 == 1 && !(cut && reds == some none) then
    if v == "?" then return .fail s!"{tag}:verdict" "verdict requested but not reported"
    if (v == "yes") != expected && !cut then
      return .fail s!"{tag}:verdict" s!"impl={v} model={if expected then "yes" else "no"} outs={outs}"
  -- reductions valid one after another
  let mut remaining : Option (List Nat × List Nat) := none
  match reds with
  | some (some l) =>
    match applyReductions ternary M allR allC l 0 with
    | .error k => return .fail s!"{tag}:reduction" s!"reduction #{k} {repr (l.getD k ⟨0,0⟩)} is not a valid zero/unit/copy reduction at that point"
    | .ok (R, C) =>
      remaining := some (R, C)
      if !cut then
        if !irreducible ternary M R C then
          return .fail s!"{tag}:reduction" s!"reported reductions are not maximal: remaining rows {R} columns {C} still reducible"
        if expected != (R.isEmpty && C.isEmpty) then
          return .fail s!"{tag}:reduction" "reductions empty the matrix iff series-parallel violated"
  | _ => pure ()
  -- reduced submatrix = what the reductions leave, irreducible
  match reduced? with
  | some (rsI, csI) =>
    match idxList rsI m, idxList csI n with
    | some rs, some cs =>
      if !(noDup rs && noDup cs) then return .fail s!"{tag}:reduced" "reduced submatrix repeats a line"
      match remaining with
      | some (R, C) =>
        if !(rs.all R.contains && R.all rs.contains && cs.all C.contains && C.all cs.contains) then
          return .fail s!"{tag}:reduced" s!"reduced submatrix rows {rs} cols {cs} differs from what the reductions leave: rows {R} cols {C}"
      | none => pure ()
      if !cut && !irreducible ternary M rs cs then
        return .fail s!"{tag}:reduced" s!"reduced submatrix rows {rs} cols {cs} admits a further reduction"
      if !cut && (rs.isEmpty && cs.isEmpty) != expected then
        return .fail s!"{tag}:reduced" "reduced submatrix empty iff series-parallel violated"
      -- separation refers to the reduced submatrix
      match sepa with
      | some (sr, sc, _ty, rf, cf) =>
        if sr != rs.length || sc != cs.length then return .fail s!"{tag}:separation" "separation dimensions differ from reduced submatrix"
        let part (flags : List Nat) (ids : List Nat) (p : Nat) := (ids.zip flags).filterMap (fun (i, f) => if f % 2 == p then some i else none)
        let R1 := part rf rs 0; let R2 := part rf rs 1; let C1 := part cf cs 0; let C2 := part cf cs 1
        if !is2Separation M R1 C1 R2 C2 then
          return .fail s!"{tag}:separation" s!"not a 2-separation of the reduced matrix: first rows {R1} cols {C1}, second rows {R2} cols {C2}"
      | none => pure ()
    | _, _ => return .fail s!"{tag}:reduced" "reduced submatrix indices out of range"
  | none => pure ()
  -- violator
  match viol? with
  | some (rsI, csI) =>
    match idxList rsI m, idxList csI n with
    | some rs, some cs =>
      if rs.length != cs.length || !(noDup rs && noDup cs) then return .fail s!"{tag}:violator" "violator not square / repeats a line"
      if !isSPViolator ternary (sub M rs cs) rs.length then
        return .fail s!"{tag}:violator" s!"rows {rs} cols {cs}: {matToString (sub M rs cs)} is not M_2, M_3' or a cycle matrix"
      if expected && !cut then return .fail s!"{tag}:violator" "violator returned for a series-parallel matrix"
    | _, _ => return .fail s!"{tag}:violator" "violator indices out of range"
  | none =>
    if outs / 8 % 2 == 1 && !expected && !cut && sepa.isNone && fn == "test" then
      return .fail s!"{tag}:violator" "not series-parallel, violator requested, none returned"
  return .ok s!"{tag}:{v}:{if reds.isSome then "R" else ""}{if reduced?.isSome then "S" else ""}{if viol?.isSome then "V" else ""}{if sepa.isSome then "P" else ""}"

/-! ### Camion -/

/-- C09 violator: square, in range, two nonzeros per line, determinant ±2 -/
def camionViolatorOk (m n : Nat) (M : Mat) (rsI csI : List Int) : Bool :=
  match idxList rsI m, idxList csI n with
  | some rs, some cs =>
    rs.length == cs.length && noDup rs && noDup cs && rs.length ≤ 9 &&
    twoPerLine (sub M rs cs) rs.length && (let d := detL rs.length (sub M rs cs); d == 2 || d == -2)
  | _, _ => false

open P in
def judgeCamionx : P Verdict := do
  let wantsub ← nat
  let (m, n, M) ← denseMat
  expect "=>"
  let status ← tok
  if status != "ok" then return .fail "camion" s!"status {status}"
  let t ← tok
  let sub1 ← submat
  let w ← tok
  let sub2 ← submat
  let some A ← csr | return .fail "camion" "no signed matrix"
  let t2 ← tok
  let idem ← tok
  if !isTernary M then return .skip "camion:nonternary"
  match checkCsr A m n with
  | .error e => return .fail "camion:csr" e
  | .ok S =>
    if support S != support M then return .fail "camion:support" s!"signing changed the support: {matToString S}"
    if !isTernary S then return .fail "camion:support" "signed matrix not ternary"
    if t2 != "t2=yes" then return .fail "camion:test-of-signed" "output of signing fails the signedness test"
    if idem != "idem=1" then return .fail "camion:idempotent" "signing the signed matrix changed it"
    let tYes := t == "t=yes"
    if tYes != (S == M) then return .fail "camion:test-iff-unchanged" s!"test says {t} but signing {if S == M then "leaves" else "changes"} the matrix"
    if (w == "w=yes") != tYes then return .fail "camion:was-signed" s!"wasCamionSigned={w} but test={t}"
    if wantsub == 1 then
      for s in [sub1, sub2] do
        match s with
        | some (rs, cs) =>
          if tYes then return .fail "camion:violator" "violator returned for a Camion-signed matrix"
          if !camionViolatorOk m n M rs cs then return .fail "camion:violator" s!"rows {rs} cols {cs} is not a square submatrix with two nonzeros per line and det ±2"
        | none => if !tYes then return .fail "camion:violator" "not Camion-signed, violator requested, none returned"
    if m ≤ 6 && n ≤ 6 then
      let tu := isTU m n M
      if tu && !tYes then return .fail "camion:tu-implies-signed" "totally unimodular matrix reported as not Camion-signed"
      if isRegular n (support M) then
        if !isTU m n S then return .fail "camion:regular-gives-tu" s!"support is regular but the signed matrix {matToString S} is not TU"
        if tYes && !tu then return .fail "camion:regular-signed-tu" "regular support, Camion-signed, yet not TU"
        return .ok s!"camion:regular:{t}"
      return .ok s!"camion:irregular:{t}"
    return .ok s!"camion:large:{t}"

open P in
/-- `camion test <wantsub> M => ok yes|no [S…|-]` (the command-line tool's form of the signedness test) -/
def judgeCamionTest : P Verdict := do
  let fn ← tok
  let wantsub ← nat
  let (m, n, M) ← denseMat
  expect "=>"
  let status ← tok
  if fn != "test" then return .skip "camion:sign"
  if !isTernary M then return .skip "camion:nonternary"
  if status != "ok" then return .fail "camion" s!"status {status}"
  let t ← tok
  let sub ← submat
  let tYes := t == "yes"
  if wantsub == 1 then
    match sub with
    | some (rs, cs) =>
      if tYes then return .fail "camion:violator" "violator returned for a Camion-signed matrix"
      if !camionViolatorOk m n M rs cs then return .fail "camion:violator" s!"rows {rs} cols {cs} is not a square submatrix with two nonzeros per line and det ±2"
    | none => if !tYes then return .fail "camion:violator" "not Camion-signed, violator requested, none returned"
  if m ≤ 6 && n ≤ 6 then
    let tu := isTU m n M
    if tu && !tYes then return .fail "camion:tu-implies-signed" "totally unimodular matrix reported as not Camion-signed"
    if isRegular n (support M) && tYes && !tu then return .fail "camion:regular-signed-tu" "regular support, Camion-signed, yet not TU"
    return .ok s!"camion:test:{t}"
  return .ok s!"camion:test:large:{t}"

/-! ### balanced -/

open P in
def judgeBalanced : P Verdict := do
  let alg ← nat; let _sp ← nat; let _preset ← nat; let wantsub ← nat
  let (m, n, M) ← denseMat
  expect "=>"
  let status ← tok
  if alg == 2 then
    -- the graph-based algorithm is documented as not implemented: an error status and no answer
    if status.startsWith "err:" then return .ok "balanced:graph-alg-rejected"
    else return .fail "balanced:graph-alg" s!"graph algorithm is not implemented but status is {status}"
  if status != "ok" then return .fail "balanced" s!"status {status}"
  let v ← tok
  let sub? ← submat
  if m > 7 || n > 7 then return .skip "balanced:large"
  let expected := isBalanced m n M
  if (v == "yes") != expected then return .fail "balanced:verdict" s!"impl={v} model={if expected then "yes" else "no"}"
  if !expected && wantsub == 1 && isTernary M then
    match sub? with
    | none => return .fail "balanced:violator" "not balanced, violator requested, none returned"
    | some (rsI, csI) =>
      match idxList rsI m, idxList csI n with
      | some rs, some cs =>
        if rs.length == cs.length && noDup rs && noDup cs && isUnbalancedHole (sub M rs cs) rs.length then return .ok "balanced:no:violator"
        else return .fail "balanced:violator" s!"rows {rs} cols {cs}: not a square submatrix with two nonzeros per line and entry sum = 2 mod 4"
      | _, _ => return .fail "balanced:violator" "indices out of range"
  return .ok s!"balanced:{v}{if isTernary M then "" else ":nonternary"}"

/-! ### equimodular -/

def equimodExpected (m n : Nat) (M : Mat) (fn : String) (k0 : Int) : List (Bool × Int) :=
  -- all admissible answers (one per column basis); normally a single value
  let single (m n : Nat) (M : Mat) (req : Int) : List (Bool × Int) :=
    (equimodularAll m n M).map fun (e, k) =>
      if req != 0 && req != (k : Int) then (false, (k : Int)) else if e then (true, (k : Int)) else (false, 0)
  let strong (req : Int) : List (Bool × Int) :=
    (single m n M req).flatMap fun (e1, k1) =>
      if !e1 then [(false, k1)] else (single n m (transpose m n M) k1)
  (match fn with
    | "e" => single m n M k0
    | "es" => strong k0
    | "u" => (single m n M 1).map (fun (p : Bool × Int) => (p.1, (-1 : Int)))
    | _ => (strong 1).map (fun (p : Bool × Int) => (p.1, (-1 : Int)))).eraseDups

open P in
def judgeEquimod : P Verdict := do
  let fn ← tok
  let k0 ← int
  let (m, n, M) ← denseMat
  expect "=>"
  let status ← tok
  let big := M.any (fun r => r.any (fun x => x ≥ 1000 || x ≤ -1000))
  if status == "err:OVERFLOW" then
    if big then return .ok "equimod:overflow" else return .fail "equimod:overflow" "overflow reported for small entries"
  if status != "ok" then return .fail "equimod" s!"status {status}"
  let v ← tok
  let k ← int
  if m > 4 || n > 4 || big then return .skip "equimod:large"
  let exp := equimodExpected m n M fn k0
  -- the value stored for a negative answer is not specified by the documentation: only the verdict is compared then
  if v != "yes" && exp.any (fun p => !p.1) then return .ok s!"equimod:{fn}:no"
  if exp.contains (v == "yes", k) then return .ok s!"equimod:{fn}:{v}:{if k > 1 then "k>1" else s!"k={k}"}"
  else return .fail s!"equimod:{fn}" s!"impl=({v},{k}) model={repr exp}"


/-! ### text formats -/

def typeRange (ty : String) : Int × Int :=
  if ty == "c" then (-128, 127) else (-2147483648, 2147483647)

open P in
def judgeParse : P Verdict := do
  let fmt ← tok
  let ty ← tok
  let hex ← tok
  expect "=>"
  let status ← tok
  let some bytes := hexBytes hex | return .badOp "hex"
  let tag := s!"parse:{fmt}:{ty}"
  if fmt == "submat" then
    match parseSubmatText bytes with
    | none =>
      if status == "err:INPUT" then return .ok s!"{tag}:rejected" else return .fail tag s!"malformed submatrix text accepted: {status}"
    | some st =>
      if status != "ok" then return .fail tag s!"well-formed text rejected: {status}"
      let m ← nat; let n ← nat
      let some (rs, cs) ← submat | return .fail tag "no submatrix"
      if m == st.numRows && n == st.numCols && rs == st.rows.map (fun (x : Nat) => (x : Int)) && cs == st.cols.map (fun (x : Nat) => (x : Int)) then return .ok tag
      else return .fail tag s!"different submatrix: model {repr st}"
  if ty == "d" then return .skip s!"{tag}:double"
  let (lo, hi) := typeRange ty
  let expected := if fmt == "dense" then parseDenseText lo hi bytes else parseSparseText lo hi bytes
  -- tokens like "1." that strtod reads as integers: either outcome is admissible
  let lenient := if fmt == "dense" then parseDenseTextLenient lo hi bytes else expected
  match expected, lenient with
  | .inputError _, .ok m n M =>
    if status == "err:INPUT" then return .ok s!"{tag}:lenient-rejected"
    if status != "ok" then return .fail tag s!"status {status}"
    let some A ← csr | return .fail tag "no matrix"
    match checkCsr A m n with
    | .error e => return .fail s!"{tag}:csr" e
    | .ok R => if R == M then return .ok s!"{tag}:lenient-accepted" else return .fail s!"{tag}:different" s!"impl={matToString R} model={matToString M}"
  | _, _ => pure ()
  match expected with
  | .inputError why =>
    if status == "err:INPUT" then
      let rest ← get
      if rest.contains "outs=1" then return .fail s!"{tag}:object-on-error" "an object was handed out together with the error"
      return .ok s!"{tag}:rejected"
    else return .fail s!"{tag}:accepted-malformed" s!"malformed text ({why}) gave {status}"
  | .ok m n M =>
    if status != "ok" then return .fail s!"{tag}:rejected-wellformed" s!"well-formed text rejected: {status}"
    let some A ← csr | return .fail tag "no matrix"
    match checkCsr A m n with
    | .error e => return .fail s!"{tag}:csr" e
    | .ok R => if R == M then return .ok tag else return .fail s!"{tag}:different" s!"impl={matToString R} model={matToString M}"

open P in
def judgePrint : P Verdict := do
  let fmt ← tok
  let ty ← tok
  let (m, n, M) ← denseMat
  expect "=>"
  let status ← tok
  let tag := s!"print:{fmt}:{ty}"
  if status != "ok" then return .fail tag s!"status {status}"
  let hex ← tok
  let some bytes := hexBytes hex | return .badOp "hex"
  let (lo, hi) := typeRange ty
  let parsed := if fmt == "dense" then parseDenseText lo hi bytes else parseSparseText lo hi bytes
  match parsed with
  | .inputError why => return .fail s!"{tag}:text" s!"written text is not in the documented format ({why})"
  | .ok m' n' M' =>
    if !(m' == m && n' == n && M' == M) then return .fail s!"{tag}:text" s!"written text denotes {m'}x{n'} {matToString M'}"
    -- the writers' exact byte format (Cmr/Render.lean; round trip through the format model: Props/C20Roundtrip.lean)
    let expectedBytes := if fmt == "dense" then renderDense m n M else renderSparse m n M
    if bytes != expectedBytes then return .fail s!"{tag}:bytes" s!"written bytes differ from the format model's rendering"
    -- read back by the library
    let t ← peek
    if (t.getD "").startsWith "err:" then return .fail s!"{tag}:readback" s!"library cannot read its own output: {t.getD ""}"
    let some A ← csr | return .fail s!"{tag}:readback" "no matrix read back"
    match checkCsr A m n with
    | .error e => return .fail s!"{tag}:csr" e
    | .ok R => if R == M then return .ok tag else return .fail s!"{tag}:readback" s!"read back {matToString R}"

open P in
def judgePrintsub : P Verdict := do
  let m ← nat; let n ← nat; let nr ← nat; let nc ← nat
  let rs ← many nat nr
  let cs ← many nat nc
  expect "=>"
  let status ← tok
  if status != "ok" then return .fail "printsub" s!"status {status}"
  let hex ← tok
  let some bytes := hexBytes hex | return .badOp "hex"
  match parseSubmatText bytes with
  | none => return .fail "printsub:text" "written text is not in the documented submatrix format"
  | some st =>
    if !(st.numRows == m && st.numCols == n && st.rows == rs && st.cols == cs) then return .fail "printsub:text" s!"written text denotes {repr st}"
    if bytes != renderSubmat st then return .fail "printsub:bytes" "written bytes differ from the format model's rendering"
    let t ← peek
    if (t.getD "").startsWith "err:" then return .fail "printsub:readback" s!"library cannot read its own output: {t.getD ""}"
    let m2 ← nat; let n2 ← nat
    let some (rs2, cs2) ← submat | return .fail "printsub:readback" "nothing read back"
    if m2 == m && n2 == n && rs2 == rs.map (fun (x : Nat) => (x : Int)) && cs2 == cs.map (fun (x : Nat) => (x : Int)) then return .ok "printsub"
    else return .fail "printsub:readback" "read back a different submatrix"


/-! ### k-sums -/

def tuSmall (m n : Nat) (M : Mat) : Option Bool := if m ≤ 7 && n ≤ 7 then some (isTU m n M) else none

/-- model composition for the harness' `compose` argument conventions -/
def composeModel (kind : String) (ch : Nat) (m1 n1 : Nat) (M1 : Mat) (m2 n2 : Nat) (M2 : Mat) (s : List (Option Nat)) :
    Except String Mat :=
  let g (i : Nat) : Option Nat := (s.getD i none)
  match kind with
  | "2" =>
    match g 0, g 1, g 2, g 3 with
    | some r, none, none, some c => compose2a ch m1 n1 M1 m2 n2 M2 r c
    | none, some c, some r, none => compose2b ch m1 n1 M1 m2 n2 M2 c r
    | _, _, _, _ => .error "2-sum needs (first special row, second special column) or (first special column, second special row)"
  | "D" =>
    match g 0, g 1, g 2, g 3, g 4, g 5 with
    | some r1, some ca, some cb, some r2, some cc, some cd => composeDelta ch m1 n1 M1 m2 n2 M2 r1 ca cb r2 cc cd
    | _, _, _, _, _, _ => .error "missing special line"
  | "Y" =>
    match g 0, g 1, g 2, g 3, g 4, g 5 with
    | some ra, some rb, some c1, some rc, some rd, some c2 => composeY ch m1 n1 M1 m2 n2 M2 ra rb c1 rc rd c2
    | _, _, _, _, _, _ => .error "missing special line"
  | _ =>
    match s.mapM id with
    | some [ri, rj, ck, cl, cz, rg, ri2, rj2, ck2, cl2] =>
      compose3 ch m1 n1 M1 m2 n2 M2 ri rj ck cl cz rg ri2 rj2 ck2 cl2 (fun N => ch != 3 || isTU 3 3 N)
    | _ => .error "missing special line"

open P in
def judgeCompose : P Verdict := do
  let kind ← tok
  let ch ← nat
  if kind == "1" then
    let k ← nat
    let mats ← many denseMat k
    expect "=>"
    let status ← tok
    if status != "ok" then return .fail "compose:1" s!"status {status}"
    let some A ← csr | return .fail "compose:1" "no result"
    let (m, n, E) := compose1 mats
    match checkCsr A m n with
    | .error e => return .fail "compose:1:csr" e
    | .ok R =>
      if R != E then return .fail "compose:1" s!"impl={matToString R} model={matToString E}"
      -- 1-sums of TU matrices are TU (and conversely)
      if m ≤ 7 && n ≤ 7 && (mats.all (fun (a, b, X) => isTU a b X)) != isTU m n R then return .fail "compose:1:tu" "TU of blocks and of the 1-sum differ"
      return .ok "compose:1"
  let (m1, n1, M1) ← denseMat
  let (m2, n2, M2) ← denseMat
  let ns := if kind == "2" then 4 else if kind == "3" then 10 else 6
  let specials ← many idx ns
  expect "=>"
  let status ← tok
  let tag := s!"compose:{kind}:{ch}"
  match composeModel kind ch m1 n1 M1 m2 n2 M2 specials with
  | .error why =>
    if status.startsWith "err:" then
      let rest ← get
      if rest.contains "outs=1" then return .fail s!"{tag}:object-on-error" "a matrix was handed out together with the error"
      return .ok s!"{tag}:rejected"
    else return .fail s!"{tag}:accepted-invalid" s!"operands without the documented shape ({why}) gave {status}"
  | .ok E =>
    if status != "ok" then return .fail s!"{tag}:rejected-valid" s!"valid operands rejected: {status}"
    let some A ← csr | return .fail tag "no result"
    match checkCsr A (E.length) ((E.getD 0 []).length) with
    | .error e =>
      if E.length == 0 || (E.getD 0 []).length == 0 then return .skip s!"{tag}:degenerate" else return .fail s!"{tag}:csr" e
    | .ok R =>
      if R != E then return .fail tag s!"impl={matToString R} model={matToString E}"
      match tuSmall m1 n1 M1, tuSmall m2 n2 M2, tuSmall R.length (R.getD 0 []).length R with
      | some true, some true, some false =>
        if ch == 3 then return .fail s!"{tag}:tu" "sum of two TU components is not TU" else return .ok tag
      | _, _, _ => return .ok tag

def takeIdx (l : List (Option Nat)) (bad : List (Option Nat)) (len : Nat) : List Nat :=
  (List.range len).filter (fun i => !bad.contains (some i)) |>.filterMap (fun i => l.getD i none)

open P in
def judgeDecomp : P Verdict := do
  let kind ← tok
  let ch ← nat
  let (m, n, M) ← denseMat
  let _flags ← many nat (m + n)
  expect "=>"
  let status ← tok
  let tag := s!"decomp:{kind}:{ch}"
  -- the epsilon / connecting-matrix computations of the 3-separation functions need a path through the first part
  -- (they are meant for 3-connected matrices) and answer err:INPUT otherwise: no decomposition is returned, nothing to judge
  if status == "err:INPUT" && kind != "2" then return .skip s!"{tag}:precondition"
  if status != "ok" then return .fail tag s!"status {status}"
  let ty ← tok
  let _sw ← tok
  let v1 ← submat
  if v1.isSome then
    if ch == 3 then return .ok s!"{tag}:ternary-rank-violator" else return .fail tag "violator for binary input"
  let tern ← tok
  let v2 ← submat
  if tern == "tern=0" then
    match v2 with
    | some (rs, cs) =>
      if (idxList rs m).isSome && (idxList cs n).isSome && rs.length == 2 && cs.length == 2 then return .ok s!"{tag}:not-ternary"
      else return .fail tag "ternary-check violator malformed"
    | none => return .ok s!"{tag}:not-ternary"
  let f ← tok
  if f == "wrongtype" then return .skip s!"{tag}:wrongtype:{ty}"
  if f != "F" then throw s!"expected F, got {f}"
  let _fl ← many nat (m + n)
  let w ← tok
  if w == "wrongtype" then return .skip s!"{tag}:wrongtype:{ty}"
  -- w is eps=…; optional conn=
  let nx ← peek
  if (nx.getD "").startsWith "conn=" then let _ ← tok
  let some A1 ← csr | return .fail tag "no first component"
  let some A2 ← csr | return .fail tag "no second component"
  let readArr (name : String) : P (List (Option Nat)) := do
    expect name
    let k ← nat
    many idx k
  let r1o ← readArr "r1o"; let c1o ← readArr "c1o"; let r2o ← readArr "r2o"; let c2o ← readArr "c2o"
  let fsr ← readArr "fsr"; let fsc ← readArr "fsc"; let ssr ← readArr "ssr"; let ssc ← readArr "ssc"
  let t ← peek
  if (t.getD "").startsWith "compose-err" then return .fail s!"{tag}:recompose" s!"composition of the returned components failed: {t.getD ""}"
  let some AP ← csr | return .fail tag "no recomposed matrix"
  if !A1.consistent || !A2.consistent then return .fail s!"{tag}:csr" "component not consistent"
  let M1 := A1.toDense; let M2 := A2.toDense
  match checkCsr AP m n with
  | .error e => return .fail s!"{tag}:csr" e
  | .ok Pm =>
    -- special lines that are not part of the composed matrix
    let (bad1r, bad1c, bad2r, bad2c) : List (Option Nat) × List (Option Nat) × List (Option Nat) × List (Option Nat) :=
      match kind with
      | "2" => (fsr, fsc, ssr, ssc)
      | "D" => (fsr, fsc, ssr, ssc)
      | "Y" => (fsr, fsc, ssr, ssc)
      | _ => (fsr, [fsc.getD 2 none], [ssr.getD 0 none], ssc)
    let rho := takeIdx r1o bad1r A1.numRows ++ takeIdx r2o bad2r A2.numRows
    let kap := takeIdx c1o bad1c A1.numCols ++ takeIdx c2o bad2c A2.numCols
    if !(rho.length == m && kap.length == n && noDup rho && noDup kap && rho.all (· < m) && kap.all (· < n)) then
      return .fail s!"{tag}:maps" s!"returned line maps are not bijections onto the lines of the matrix: rows {rho} columns {kap}"
    if Pm != sub M rho kap then
      return .fail s!"{tag}:recompose" s!"decompose-then-compose differs from the original under the returned maps: got {matToString Pm}, expected {matToString (sub M rho kap)}"
    -- fidelity of the composition to the documented formula
    let specials : List (Option Nat) :=
      match kind with
      | "2" => [fsr.getD 0 none, fsc.getD 0 none, ssr.getD 0 none, ssc.getD 0 none]
      | "D" => [fsr.getD 0 none, fsc.getD 0 none, fsc.getD 1 none, ssr.getD 0 none, ssc.getD 0 none, ssc.getD 1 none]
      | "Y" => [fsr.getD 0 none, fsr.getD 1 none, fsc.getD 0 none, ssr.getD 0 none, ssr.getD 1 none, ssc.getD 0 none]
      | _ => [fsr.getD 0 none, fsr.getD 1 none, fsc.getD 0 none, fsc.getD 1 none, fsc.getD 2 none,
              ssr.getD 0 none, ssr.getD 1 none, ssr.getD 2 none, ssc.getD 0 none, ssc.getD 1 none]
    match composeModel kind ch A1.numRows A1.numCols M1 A2.numRows A2.numCols M2 specials with
    | .error why => return .fail s!"{tag}:components" s!"returned components do not have the documented shape: {why}"
    | .ok E =>
      if E != Pm then return .fail s!"{tag}:compose-fidelity" s!"library composition {matToString Pm} differs from documented formula {matToString E}"
      -- components of a TU matrix are TU
      match tuSmall m n M with
      | some true =>
        if ch == 3 && !(isTU A1.numRows A1.numCols M1 && isTU A2.numRows A2.numCols M2) then
          if kind == "2" then return .fail s!"{tag}:tu" "2-sum component of a totally unimodular matrix is not totally unimodular"
          -- 3-separations of matrices that are not 3-connected need not have any admissible sign choice; the claim is about
          -- the choice of signs: alarm only if another choice of the artificial +-1 entries makes both components TU
          let setE (X : Mat) (i j : Option Nat) (f : Int → Int) : Mat :=
            match i, j with
            | some i, some j => X.mapIdx (fun a row => if a == i then row.mapIdx (fun b x => if b == j then f x else x) else row)
            | _, _ => X
          let neg := fun (x : Int) => -x
          let variants : List (Mat × Mat) :=
            match kind with
            | "D" => [(setE M1 (fsr.getD 0 none) (fsc.getD 1 none) neg, setE M2 (ssr.getD 0 none) (ssc.getD 0 none) neg)]
            | "Y" => [(setE M1 (fsr.getD 1 none) (fsc.getD 0 none) neg, setE M2 (ssr.getD 0 none) (ssc.getD 0 none) neg)]
            | _ =>
              let f1 := setE M1 (fsr.getD 1 none) (fsc.getD 2 none) neg       -- beta
              let f2 := setE M2 (ssr.getD 0 none) (ssc.getD 0 none) neg       -- gamma
              [(f1, M2), (M1, f2), (f1, f2)]
          if variants.any (fun (X, Y) => isTU A1.numRows A1.numCols X && isTU A2.numRows A2.numCols Y) then
            return .fail s!"{tag}:tu" "component of a totally unimodular matrix is not totally unimodular although another sign choice makes both components totally unimodular"
          return .skip s!"{tag}:tu-no-sign-choice"
        return .ok s!"{tag}:tu"
      | _ => return .ok tag

/-! ### C10: relations between runs -/

open P in
/-- parse one step given the current shape -/
def parseStep (m n : Nat) : P Step := do
  let t ← tok
  match t with
  | "T" => pure .T
  | "P" => do let rs ← many nat m; let cs ← many nat n; pure (.P rs cs)
  | "S" => do let nr ← nat; let nc ← nat; let rs ← many nat nr; let cs ← many nat nc; pure (.S rs cs)
  | "V2" => do let r ← nat; let c ← nat; pure (.V2 r c)
  | "V3" => do let r ← nat; let c ← nat; pure (.V3 r c)
  | "NR" => do let i ← nat; pure (.NR i)
  | "NC" => do let j ← nat; pure (.NC j)
  | "ZR" => do let p ← nat; pure (.ZR p)
  | "ZC" => do let p ← nat; pure (.ZC p)
  | "UR" => do let p ← nat; let j ← nat; let s ← int; pure (.UR p j s)
  | "UC" => do let p ← nat; let i ← nat; let s ← int; pure (.UC p i s)
  | "DR" => do let p ← nat; let i ← nat; let s ← int; pure (.DR p i s)
  | "DC" => do let p ← nat; let j ← nat; let s ← int; pure (.DC p j s)
  | o => throw s!"unknown step '{o}'"

open P in
/-- parse `k` steps, applying them to track the shape; returns the steps and the model's transformed matrix -/
def parseSteps : Nat → Nat → Nat → Mat → P (List Step × Option (Nat × Nat × Mat))
  | 0, m, n, M => pure ([], some (m, n, M))
  | k+1, m, n, M => do
    let s ← parseStep m n
    match s.apply m n M with
    | none => throw s!"step {repr s} not applicable to a {m}x{n} matrix"
    | some (m', n', M') =>
      let (rest, r) ← parseSteps k m' n' M'
      pure (s :: rest, r)

open P in
def parseRecs : P (List (String × Nat)) := do
  let mk ← nat
  let names ← tok
  pure ((names.splitOn ",").map (fun r => (r, mk)))

open P in
/-- verdict vector `v t1 … tk` with tokens `y`, `n`, `e:NAME` -/
def parseVerdicts (k : Nat) : P (List String) := do
  expect "v"
  many tok k

def stepKind : Step → String
  | .T => "T" | .P _ _ => "P" | .S _ _ => "S" | .V2 _ _ => "V2" | .V3 _ _ => "V3" | .NR _ => "N" | .NC _ => "N"
  | .ZR _ => "Z" | .ZC _ => "Z" | .UR _ _ _ => "U" | .UC _ _ _ => "U" | .DR _ _ _ => "D" | .DC _ _ _ => "D"

/-- check the relation of one transformation for all recognizers; returns a failure message or the number of relations checked -/
def checkRelations (recs : List (String × Nat)) (binaryIn ternaryIn : Bool) (steps : List Step) (v0 v1 : List String) :
    Except String Nat := do
  let mut count := 0
  for (r, _) in recs, a in v0 do
    let some c := Cls.ofString r | throw s!"unknown recognizer {r}"
    if a.startsWith "e:" then throw s!"recognizer {r} failed with {a} on the base matrix"
    if (c.binaryOnly && !binaryIn) || !ternaryIn then continue
    let (c', rel) := stepsRel c steps
    if rel == .none then continue
    -- "Camion-signed" is the output of the signing algorithm; it is determined by the matrix only if the support is balanceable, in
    -- which case it means "balanced": relate the Camion verdicts only for matrices the balancedness test accepts
    if c == .cam then
      let balIdx? := (recs.zipIdx.find? (fun ((r', _), _) => r' == "bal")).map (·.2)
      match balIdx? with
      | some bi => if v0.getD bi "?" != "y" then continue
      | none => continue
    -- find the verdict of the dual class on the transformed matrix
    let idx? := (recs.zipIdx.find? (fun ((r', _), _) => Cls.ofString r' == some c')).map (·.2)
    let some idx := idx? | continue
    let b := v1.getD idx "?"
    if b.startsWith "e:" then throw s!"recognizer {recs.getD idx ("", 0) |>.1} failed with {b} on the transformed matrix"
    match rel with
    | .iff => if a != b then throw s!"{r} says {a} for M but {(recs.getD idx ("", 0)).1} says {b} for g(M), g = {" ".intercalate (steps.map stepKind)}"
    | .imp => if a == "y" && b != "y" then throw s!"{r} says yes for M but {(recs.getD idx ("", 0)).1} says {b} for the submatrix/minor g(M)"
    | .none => pure ()
    count := count + 1
  pure count

open P in
def judgeRel : P Verdict := do
  let recs ← parseRecs
  let (m, n, M) ← denseMat
  let ntr ← nat
  -- the transformations are parsed lazily: each needs the base shape
  let mut gs : List (List Step × Nat × Nat × Mat) := []
  for _ in List.range ntr do
    let ns ← nat
    let (steps, r) ← parseSteps ns m n M
    match r with
    | some (m', n', M') => gs := gs ++ [(steps, m', n', M')]
    | none => throw "inapplicable transformation"
  expect "=>"
  let status ← tok
  if status != "ok" then return .fail "rel" s!"status {status}"
  let v0 ← parseVerdicts recs.length
  let binaryIn := isBinary M
  let ternaryIn := isTernary M
  let mut checked := 0
  let mut kinds : List String := []
  for (steps, m', n', M') in gs do
    expect "|"
    match (← peek) with
    | some t => if t.startsWith "step-err:" then return .fail "rel:step" s!"transformation failed in the library: {t}"
    | none => return .fail "rel" "truncated result"
    let v1 ← parseVerdicts recs.length
    let some A ← csr | return .fail "rel" "no transformed matrix"
    match checkCsr A m' n' with
    | .error e => return .fail "rel:csr" e
    | .ok R =>
      if R != M' then
        return .fail "rel:transformation" s!"library transformation {" ".intercalate (steps.map stepKind)} gives {matToString R}, model {matToString M'}"
      match checkRelations recs binaryIn ternaryIn steps v0 v1 with
      | .error e => return .fail "rel:verdict" e
      | .ok k => checked := checked + k
      for s in steps do
        if !kinds.contains (stepKind s) then kinds := kinds ++ [stepKind s]
  if checked == 0 then return .skip "rel:no-relation"
  let sz := if m + n < 12 then "small" else if m + n < 60 then "medium" else "large"
  let ys := (v0.filter (· == "y")).length
  return .ok s!"rel:{sz}:{if ys == 0 then "all-no" else if ys == v0.length then "all-yes" else "mixed"}:{kinds.length}-step-kinds"

open P in
def judgeRelsum : P Verdict := do
  let recs ← parseRecs
  let kind ← tok
  let ch ← nat
  let (m1, n1, M1) ← denseMat
  let (m2, n2, M2) ← denseMat
  let specials ← many idx (if kind == "1" then 0 else if kind == "2" then 4 else if kind == "3" then 10 else 6)
  expect "=>"
  let status ← tok
  if status != "ok" then return .fail "relsum" s!"status {status}"
  let v1 ← parseVerdicts recs.length
  expect "|"
  let v2 ← parseVerdicts recs.length
  expect "|"
  let tag := s!"relsum:{kind}:{ch}"
  let model : Except String Mat :=
    if kind == "1" then .ok (compose1 [(m1, n1, M1), (m2, n2, M2)]).2.2 else composeModel kind ch m1 n1 M1 m2 n2 M2 specials
  match model with
  | .error why =>
    match (← peek) with
    | some t => if t.startsWith "compose-err:" then return .skip s!"{tag}:rejected" else return .fail s!"{tag}:accepted-invalid" why
    | none => return .fail tag "truncated result"
  | .ok E =>
    match (← peek) with
    | some t => if t.startsWith "compose-err:" then return .fail s!"{tag}:rejected-valid" t
    | none => return .fail tag "truncated result"
    let vs ← parseVerdicts recs.length
    let some A ← csr | return .fail tag "no sum"
    match checkCsr A E.length (E.getD 0 []).length with
    | .error e => if E.length == 0 || (E.getD 0 []).length == 0 then return .skip s!"{tag}:degenerate" else return .fail s!"{tag}:csr" e
    | .ok R =>
      if R != E then return .fail s!"{tag}:compose" s!"impl={matToString R} model={matToString E}"
      let bin := isBinary M1 && isBinary M2
      let tern := isTernary M1 && isTernary M2
      let mut checked := 0
      for (r, _) in recs, a in v1, b in v2, s in vs do
        let some c := Cls.ofString r | return .fail tag s!"unknown recognizer {r}"
        if a.startsWith "e:" || b.startsWith "e:" || s.startsWith "e:" then return .fail s!"{tag}:error" s!"{r}: {a} {b} {s}"
        if (c.binaryOnly && !bin) || !tern then continue
        match sumRel kind ch c with
        | .none => continue
        | .both =>
          if (a == "y" && b == "y") != (s == "y") then return .fail s!"{tag}:verdict" s!"{r}: operands {a} {b}, 1-sum {s}"
        | .closed =>
          if a == "y" && b == "y" && s != "y" then return .fail s!"{tag}:verdict" s!"{r}: both operands yes, sum {s}"
        checked := checked + 1
      if checked == 0 then return .skip s!"{tag}:no-relation"
      return .ok s!"{tag}:{if vs.contains "y" then "yes" else "no"}"

open P in
/-- `tuall M k mask*`: the verdict may not depend on algorithm or options (C01); within oracle range it is the oracle's -/
def judgeTuall : P Verdict := do
  let (m, n, M) ← denseMat
  let k ← nat
  let masks ← many nat k
  expect "=>"
  let status ← tok
  if status != "ok" then return .fail "tuall" s!"status {status}"
  let vs ← parseVerdicts k
  let judged := (masks.zip vs).filter (fun (mk, _) => !(maskStopFlags mk) && !(maskStrategy mk ≥ 5 && maskAlg mk == 0))
  match judged with
  | [] => return .skip "tuall:none"
  | (mk0, v0) :: rest =>
    if v0.startsWith "e:" then return .fail "tuall:error" s!"mask {mk0}: {v0}"
    for (mk, v) in rest do
      if v != v0 then return .fail "tuall:disagree" s!"mask {mk0} answers {v0} but mask {mk} answers {v}"
    if tuOracleFeasible m n then
      let e := isTernary M && isTU m n M
      if (v0 == "y") != e then return .fail "tuall:verdict" s!"all masks answer {v0}, model says {e}"
      return .ok s!"tuall:oracle:{v0}"
    return .ok s!"tuall:agree:{v0}:{if m + n < 16 then "small" else "medium"}"

open P in
/-- `tusigned mask M`: Camion signing by the library, then TU test of the signed matrix and regularity test of the 0/1 input:
the two verdicts must agree (Camion: a 0/1 matrix is regular iff its Camion signing is TU) -/
def judgeTusigned : P Verdict := do
  let _mask ← nat
  let (m, n, M) ← denseMat
  expect "=>"
  let status ← tok
  if !isBinary M then
    return .skip "tusigned:nonbinary"
  if status != "ok" then return .fail "tusigned" s!"status {status}"
  expect "reg"; let vr ← tok
  expect "tu"; let vt ← tok
  let some A ← csr | return .fail "tusigned" "no signed matrix"
  match checkCsr A m n with
  | .error e => return .fail "tusigned:csr" e
  | .ok S =>
    if support S != M || !isTernary S then return .fail "tusigned:support" "the signed matrix does not have the input's support"
    if vr.startsWith "e:" || vt.startsWith "e:" then return .fail "tusigned:error" s!"reg {vr} tu {vt}"
    if vr != vt then return .fail "tusigned:camion" s!"regularity test answers {vr} for the 0/1 matrix, TU test answers {vt} for its Camion signing"
    if tuOracleFeasible m n then
      if (vt == "y") != isTU m n S then return .fail "tusigned:verdict" s!"TU test of the signed matrix answers {vt}, model says {isTU m n S}"
      return .ok s!"tusigned:oracle:{vt}"
    return .ok s!"tusigned:agree:{vt}"

/-! ### dispatcher -/

def runP (p : P Verdict) (toks : List String) : Verdict :=
  match p.run toks with
  | .ok (v, _) => v
  | .error e => .badOp e

def judgeLine (line : String) : Verdict :=
  match parseLine line with
  | none => .badOp "no '=>'"
  | some L =>
    if L.status.startsWith "crash" then .fail "crash" (" ".intercalate (L.status :: L.payload)) else
    if L.status == "bad-op" then .badOp (" ".intercalate L.payload) else
    -- strip "@…" modifiers
    let mods := L.op.takeWhile (·.startsWith "@")
    let op := L.op.dropWhile (·.startsWith "@")
    let expect? := (mods.find? (·.startsWith "@expect=")).map (fun t => (t.drop 8).toString)
    let clk? := mods.find? (·.startsWith "@clk=")
    let payloadStr := "~".intercalate L.payload
    -- C18: a run with a time limit injected at the k-th clock read: either the unlimited answer or a clean timeout
    if clk?.isSome && expect?.isSome then
      let generic : Option (String × String) :=
        match parseTrailer L.trailer with
        | none => some ("trailer", "missing trailer")
        | some tr => judgeTrailer tr (op.headD "" == "camionx" || op.take 2 == ["camion", "sign"])
      match generic with
      | some (t, m) => .fail s!"timeout:{t}" m
      | none =>
        if L.status == "err:TIMEOUT" then
          if L.payload.any (fun t => t.startsWith "outs=" && t.any (· == '1')) then
            .fail "timeout:object-handed-out" s!"result object handed out together with CMR_ERROR_TIMEOUT: {payloadStr}"
          else .ok s!"timeout:clean:{op.headD ""}"
        else if L.status == "ok" then
          if some payloadStr == expect? then .ok s!"timeout:same:{op.headD ""}"
          else .fail "timeout:different-answer" s!"with a time limit the call succeeded with {payloadStr} instead of {expect?.getD ""}"
        else .fail "timeout:status" s!"status {L.status}"
    else
    -- C19: the same call after a different history / with a different scratch fill pattern must give the identical result
    if mods.contains "@junk" then
      -- interleaved calls that end in errors / timeouts are not judged for their result, but they may not modify their inputs either
      -- (matrices and parameter objects): the next call of the caller would see the change
      (match parseTrailer L.trailer with
       | some tr => if tr.inputModified != 0 && !(op.headD "" == "camionx" || op.take 2 == ["camion", "sign"]) then
                      .fail "history:input-modified" "a call that ended in an error or timeout modified its input matrix or parameter object"
                    else .skip "junk"
       | none => .skip "junk") else
    if expect?.isSome && some (if L.payload.isEmpty then L.status else L.status ++ "~" ++ payloadStr) != expect? then
      .fail "history:differs" s!"result {L.status} {payloadStr} differs from the reference run {expect?.getD ""}"
    else
    let toks := op.drop 1 ++ ["=>", L.status] ++ L.payload
    let isCamionSign := op.take 2 == ["camion", "sign"] || op.headD "" == "camionx"
    let generic : Option (String × String) :=
      match parseTrailer L.trailer with
      | none => some ("trailer", "missing trailer")
      | some tr => judgeTrailer tr isCamionSign
    let v : Verdict :=
      match op.headD "" with
      | "complement" => runP judgeComplement toks
      | "ctu" => runP judgeCtu toks
      | "tu" => runP judgeTu toks
      | "regular" => runP judgeRegular toks
      | "pivot" => runP judgePivot toks
      | "mat" => runP judgeMat toks
      | "stack" => judgeStack (op.drop 1) L.status L.payload
      | "treeseq" => runP judgeTreeseq toks
      | "compose" => runP judgeCompose toks
      | "decomp" => runP judgeDecomp toks
      | "parse" => runP judgeParse toks
      | "print" => runP judgePrint toks
      | "printsub" => runP judgePrintsub toks
      | "sp" => runP judgeSp toks
      | "camionx" => runP judgeCamionx toks
      | "camion" => runP judgeCamionTest toks
      | "balanced" => runP judgeBalanced toks
      | "equimod" => runP judgeEquimod toks
      | "graphic" => runP judgeGraphic toks
      | "network" => runP judgeNetwork toks
      | "repmat" => runP judgeRepmat toks
      | "rel" => runP judgeRel toks
      | "tuall" => runP judgeTuall toks
      | "tusigned" => runP judgeTusigned toks
      | "relsum" => runP judgeRelsum toks
      | o => .badOp s!"unknown op '{o}'"
    -- "@want=yes|no": the generator knows the verdict by construction (closure theorems); used beyond the oracles' range
    let want? := (mods.find? (·.startsWith "@want=")).map (fun t => (t.drop 6).toString)
    let got? : Option String :=
      match op.headD "" with
      | "tu" | "regular" | "graphic" | "network" => L.payload.head?
      | "tusigned" => (L.payload.getD 1 "?" |> fun t => if t == "y" then some "yes" else if t == "n" then some "no" else none)
      | _ => none
    let v : Verdict :=
      match v, want?, got? with
      | .fail t m, _, _ => .fail t m
      | .badOp m, _, _ => .badOp m
      | v, some w, some g =>
        if L.status == "ok" && g != w && g != "undet" then
          .fail s!"{op.headD ""}:constructed-verdict" s!"answer {g} for a matrix that is {w} by construction"
        else match v with
          | .skip t => if L.status == "ok" then .ok s!"{t}:by-construction:{w}" else .skip t
          | v => v
      | v, _, _ => v
    -- "@root-graphic=yes" / "@root-cographic=yes": the matrix is (co)graphic by construction; a tree whose root claims the opposite lies
    let rootFlag (k : Nat) : Option String :=        -- k-th header field of the root node of a dumped tree ("T { type tern reg gra cogra …")
      match L.payload.idxOf? "T" with
      | some i => if L.payload.getD (i + 1) "" == "{" then some (L.payload.getD (i + 2 + k) "") else none
      | none => none
    let v : Verdict :=
      match v with
      | .fail t m => .fail t m
      | .badOp m => .badOp m
      | v =>
        if mods.contains "@root-graphic=yes" && rootFlag 3 == some "-1" then
          .fail "tree:root-graphicness" "the root claims 'not graphic' for a matrix that is graphic by construction"
        else if mods.contains "@root-cographic=yes" && rootFlag 4 == some "-1" then
          .fail "tree:root-cographicness" "the root claims 'not cographic' for a matrix that is cographic by construction"
        else v
    match v, generic with
    | .fail t m, _ => .fail t m
    | .badOp m, _ => .badOp m
    | _, some (t, m) => .fail t m
    | v, none => v

end Cmr
