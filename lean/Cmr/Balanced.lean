/-
  C17 — balanced matrices; C09 — Camion violator shape.
-/
import Cmr.Det
namespace Cmr

/-- exactly two nonzeros in every row and column of the `k × k` matrix -/
def twoPerLine (V : Mat) (k : Nat) : Bool :=
  (List.range k).all (fun i => ((List.range k).filter (fun j => ent V i j != 0)).length == 2) &&
  (List.range k).all (fun j => ((List.range k).filter (fun i => ent V i j != 0)).length == 2)

def entrySum (V : Mat) (k : Nat) : Int :=
  ((List.range k).map (fun i => ((List.range k).map (fun j => ent V i j)).sum)).sum

/-- a violating submatrix for balancedness: square, two nonzeros per line, entry sum ≡ 2 (mod 4) -/
def isUnbalancedHole (V : Mat) (k : Nat) : Bool := twoPerLine V k && entrySum V k % 4 == 2

/-- Balancedness by definition: no square submatrix with exactly two nonzeros in every row and column has an entry sum
congruent to 2 modulo 4.  Matrices with entries outside {-1,0,1} are not balanced. -/
def isBalanced (m n : Nat) (M : Mat) : Bool :=
  isTernary M &&
  (List.range (min m n + 1)).all fun k =>
    (choose k (List.range m)).all fun rs => (choose k (List.range n)).all fun cs =>
      !(isUnbalancedHole (sub M rs cs) k)

end Cmr
