/-
  C03 / C04 — Seymour decomposition trees as the library hands them out, flattened to a list of nodes, and the
  per-node checks: recomposition (C03) and truthfulness of flags and leaf certificates (C04).
-/
import Cmr.Proto
import Cmr.Det
import Cmr.Regular
import Cmr.Graph
import Cmr.SP
import Cmr.Pivot
import Cmr.Sums
namespace Cmr

structure ChildInfo where
  rowsToParent : List Int
  colsToParent : List Int
  specialRows : List (Option Nat)
  specialCols : List (Option Nat)
  child : Nat                      -- id of the child node
deriving Repr

structure GraphData where
  g : Graph
  forest : List Nat
  coforest : List Nat
deriving Repr

structure MinorData where
  type : Int
  pivots : List (Nat × Nat)
  sub : Option (List Int × List Int)
deriving Repr

structure FNode where
  id : Nat
  type : Int
  ternary : Bool
  reg : Int
  gra : Int
  cogra : Int
  pivots : List (Nat × Nat)
  reductions : List Reduction
  minors : List MinorData
  matrix : Csr
  transpose : Option Csr
  graph : Option GraphData
  cograph : Option GraphData
  children : List ChildInfo
deriving Repr

namespace NodeType
def irregular : Int := -1
def unknown : Int := 0
def seriesParallel : Int := 1
def pivots : Int := 2
def graph : Int := 3
def cograph : Int := 4
def planar : Int := 5
def r10 : Int := 6
def onesum : Int := 7
def twosum : Int := 8
def deltasum : Int := 9
def threesum : Int := 10
def ysum : Int := 11
end NodeType

/-! ### parsing the harness dump -/

open P in
def parseGraphData : P (Option GraphData) := do
  let t ← peek
  if t == some "-" then
    let _ ← tok
    return none
  let _ ← tok      -- "G"
  let nn ← nat; let ne ← nat
  let nodes ← many nat nn
  let es ← many (do let e ← nat; let u ← nat; let v ← nat; pure (e, u, v)) ne
  expect "F"
  let nf ← nat
  let forest ← many nat nf
  expect "K"
  let nk ← nat
  let coforest ← many nat nk
  let a ← tok
  let mut revs : List Bool := es.map (fun _ => false)
  if a == "A" then
    let bits ← many nat ne
    revs := bits.map (· != 0)
  let edges := (es.zip revs).map (fun ((e, u, v), r) => ({ id := e, u := u, v := v, rev := r } : Edge))
  return some { g := { nodes := nodes, edges := edges }, forest := forest, coforest := coforest }

open P in
partial def parseNode (nextId : Nat) : P (List FNode × Nat) := do
  expect "{"
  let ty0 ← int; let tern ← nat; let reg ← int; let gra ← int; let cogra ← int; let _f3 ← int; let nch ← nat
  expect "P"
  let np ← nat
  let pivs ← many (do let r ← idx; let c ← idx; pure (r.getD 0, c.getD 0)) np
  expect "R"
  let nr ← nat
  let reds ← many (do let e ← int; let m ← int; pure (⟨e, m⟩ : Reduction)) nr
  expect "X"
  let nm ← nat
  let minors ← many (do
    let ty ← int; let k ← nat
    let ps ← many (do let r ← idx; let c ← idx; pure (r.getD 0, c.getD 0)) k
    let s ← submat
    pure ({ type := ty, pivots := ps, sub := s } : MinorData)) nm
  let some matrix ← csr | throw "node without matrix"
  let transpose ← csr
  let graph ← parseGraphData
  let cograph ← parseGraphData
  let myId := nextId
  let mut next := nextId + 1
  let mut infos : List ChildInfo := []
  let mut sub : List FNode := []
  for _ in [0:nch] do
    expect "["
    let nrr ← nat
    let r2p ← many int nrr
    let ncc ← nat
    let c2p ← many int ncc
    let nsr ← nat
    let sr ← many idx nsr
    let nsc ← nat
    let sc ← many idx nsc
    let t ← peek
    if t == some "null" then
      let _ ← tok
      infos := infos ++ [{ rowsToParent := r2p, colsToParent := c2p, specialRows := sr, specialCols := sc, child := 0 }]
    else
      let (nodes, n') ← parseNode next
      infos := infos ++ [{ rowsToParent := r2p, colsToParent := c2p, specialRows := sr, specialCols := sc, child := next }]
      sub := sub ++ nodes
      next := n'
    expect "]"
  expect "}"
  let isTern : Bool := tern != 0
  let me : FNode :=
    { id := myId, type := ty0, ternary := isTern, reg := reg, gra := gra, cogra := cogra,
      pivots := pivs, reductions := reds, minors := minors, matrix := matrix, transpose := transpose,
      graph := graph, cograph := cograph, children := infos }
  return (me :: sub, next)

/-! ### C03: recomposition -/

def rowOfElem (e : Int) : Option Nat := if e < 0 then some (-1 - e).toNat else none
def colOfElem (e : Int) : Option Nat := if e > 0 then some (e - 1).toNat else none

def findNode (nodes : List FNode) (id : Nat) : Option FNode := nodes.find? (·.id == id)

def isPerm (l : List Nat) (n : Nat) : Bool := l.length == n && decide l.Nodup && l.all (· < n)

/-- indices of `l` (positions) except those in `bad`, mapped through `f` -/
def keepMapped (l : List Int) (bad : List (Option Nat)) (f : Int → Option Nat) : Option (List Nat) :=
  ((List.range l.length).filter (fun i => !bad.contains (some i))).mapM (fun i => f (l.getD i 0))

def chOf (nd : FNode) : Nat := if nd.ternary then 3 else 2

def leafTypes : List Int := [NodeType.irregular, NodeType.unknown, NodeType.graph, NodeType.cograph, NodeType.planar, NodeType.r10]

/-- C03: does node `nd` recompose from its children as its type claims?  `Except` carries (tag, explanation). -/
def checkRecompose (nodes : List FNode) (nd : FNode) : Except (String × String) Unit := do
  let A := nd.matrix
  if !A.consistent then throw ("tree:csr", s!"node {nd.id}: inconsistent matrix {repr A}")
  let m := A.numRows; let n := A.numCols
  let M := A.toDense
  match nd.transpose with
  | some T =>
    if !T.consistent then throw ("tree:csr", s!"node {nd.id}: inconsistent transpose")
    if !(T.numRows == n && T.numCols == m && T.toDense == transpose m n M) then
      throw ("tree:transpose", s!"node {nd.id}: stored transpose is not the transpose of the matrix")
  | none => pure ()
  let kids ← nd.children.mapM (fun ci =>
    match findNode nodes ci.child with
    | some k => pure (ci, k)
    | none => throw ("tree:arity", s!"node {nd.id}: missing child"))
  for (_, k) in kids do
    if k.ternary != nd.ternary then throw ("tree:field", s!"node {nd.id}: child over a different field")
    if !k.matrix.consistent then throw ("tree:csr", s!"node {k.id}: inconsistent matrix")
  let ty := nd.type
  let ch := chOf nd
  -- arities
  if leafTypes.contains ty then
    if kids.length != 0 then throw ("tree:arity", s!"node {nd.id}: leaf type {ty} with {kids.length} children")
    return ()
  if ty == NodeType.seriesParallel then
    if kids.length > 1 then throw ("tree:arity", s!"node {nd.id}: series-parallel node with {kids.length} children")
    match applyReductions nd.ternary M (List.range m) (List.range n) nd.reductions 0 with
    | .error k => throw ("tree:sp", s!"node {nd.id}: reduction #{k} is not a valid zero/unit/copy reduction at that point")
    | .ok (R, C) =>
      match kids with
      | [] =>
        if !(R.isEmpty && C.isEmpty) then throw ("tree:sp", s!"node {nd.id}: no child but reductions leave rows {R} columns {C}")
      | (ci, k) :: _ =>
        match ci.rowsToParent.mapM rowOfElem, ci.colsToParent.mapM colOfElem with
        | some rs, some cs =>
          if !(rs.length == k.matrix.numRows && cs.length == k.matrix.numCols) then throw ("tree:maps", s!"node {nd.id}: child map lengths")
          if !(rs.all R.contains && R.all rs.contains && cs.all C.contains && C.all cs.contains && decide rs.Nodup && decide cs.Nodup) then
            throw ("tree:sp", s!"node {nd.id}: child lines rows {rs} cols {cs} differ from what the reductions leave: rows {R} cols {C}")
          if k.matrix.toDense != sub M rs cs then throw ("tree:sp", s!"node {nd.id}: child matrix is not the recorded submatrix")
        | _, _ => throw ("tree:maps", s!"node {nd.id}: series-parallel child maps are not rows->rows, columns->columns")
    return ()
  if ty == NodeType.pivots then
    match kids with
    | [(ci, k)] =>
      let E := if nd.ternary then pivots3 m n M nd.pivots else pivots2 m n M nd.pivots
      match E with
      | none => throw ("tree:pivots", s!"node {nd.id}: recorded pivot on a zero entry")
      | some E =>
        if !(k.matrix.numRows == m && k.matrix.numCols == n) then throw ("tree:pivots", s!"node {nd.id}: child shape")
        if nd.pivots.isEmpty then throw ("tree:pivots", s!"node {nd.id}: pivot node without pivots")
        if !(decide (nd.pivots.map Prod.fst).Nodup && decide (nd.pivots.map Prod.snd).Nodup) then
          throw ("tree:pivots", s!"node {nd.id}: pivot rows/columns not pairwise distinct")
        if k.matrix.toDense != E then
          throw ("tree:pivots", s!"node {nd.id}: child {matToString k.matrix.toDense} is not the parent after the recorded pivots {matToString E}")
        -- element maps swap exactly the pivot lines
        let expR : List Int := (List.range m).map (fun i =>
          match nd.pivots.find? (fun p => p.1 == i) with | some p => (p.2 : Int) + 1 | none => -1 - (i : Int))
        let expC : List Int := (List.range n).map (fun j =>
          match nd.pivots.find? (fun p => p.2 == j) with | some p => -1 - (p.1 : Int) | none => (j : Int) + 1)
        if ci.rowsToParent != expR || ci.colsToParent != expC then
          throw ("tree:maps", s!"node {nd.id}: pivot child maps do not swap exactly the pivot lines")
    | _ => throw ("tree:arity", s!"node {nd.id}: pivot node with {kids.length} children")
    return ()
  if ty == NodeType.onesum then
    if kids.length < 2 then throw ("tree:arity", s!"node {nd.id}: 1-sum with {kids.length} children")
    let blocks ← kids.mapM (fun (ci, k) =>
      match ci.rowsToParent.mapM rowOfElem, ci.colsToParent.mapM colOfElem with
      | some rs, some cs =>
        if rs.length == k.matrix.numRows && cs.length == k.matrix.numCols then pure (rs, cs, k.matrix.toDense)
        else throw ("tree:maps", s!"node {nd.id}: child map lengths")
      | _, _ => throw ("tree:maps", s!"node {nd.id}: 1-sum child maps are not rows->rows, columns->columns"))
    let allR := blocks.flatMap (·.1)
    let allC := blocks.flatMap (·.2.1)
    if !(isPerm allR m && isPerm allC n) then
      throw ("tree:onesum", s!"node {nd.id}: child lines do not partition the lines of the matrix")
    let E := Mat.ofFn m n (fun i j =>
      match blocks.find? (fun b => b.1.contains i && b.2.1.contains j) with
      | some (rs, cs, B) => ent B (rs.idxOf i) (cs.idxOf j)
      | none => 0)
    if E != M then throw ("tree:onesum", s!"node {nd.id}: block-diagonal composition of the children differs from the matrix")
    return ()
  -- 2-, Delta-, Y-, 3-sums
  match kids with
  | [(c0, k0), (c1, k1)] =>
    let m0 := k0.matrix.numRows; let n0 := k0.matrix.numCols; let m1 := k1.matrix.numRows; let n1 := k1.matrix.numCols
    let M0 := k0.matrix.toDense; let M1 := k1.matrix.toDense
    if !(c0.rowsToParent.length == m0 && c0.colsToParent.length == n0 && c1.rowsToParent.length == m1 && c1.colsToParent.length == n1) then
      throw ("tree:maps", s!"node {nd.id}: child map lengths")
    let g (l : List (Option Nat)) (i : Nat) : Option Nat := l.getD i none
    let (composed, bad0r, bad0c, bad1r, bad1c) : Except String Mat × List (Option Nat) × List (Option Nat) × List (Option Nat) × List (Option Nat) :=
      if ty == NodeType.twosum then
        (if m0 == 0 || n1 == 0 then .error "empty child" else compose2a ch m0 n0 M0 m1 n1 M1 (m0 - 1) 0,
         [some (m0 - 1)], [], [], [some 0])
      else if ty == NodeType.deltasum then
        ((match g c0.specialRows 0, g c0.specialCols 0, g c0.specialCols 1, g c1.specialRows 0, g c1.specialCols 0, g c1.specialCols 1 with
          | some a, some b, some c, some d, some e, some f => composeDelta ch m0 n0 M0 m1 n1 M1 a b c d e f
          | _, _, _, _, _, _ => .error "special lines not recorded"),
         c0.specialRows, c0.specialCols, c1.specialRows, c1.specialCols)
      else if ty == NodeType.ysum then
        ((match g c0.specialRows 0, g c0.specialRows 1, g c0.specialCols 0, g c1.specialRows 0, g c1.specialRows 1, g c1.specialCols 0 with
          | some a, some b, some c, some d, some e, some f => composeY ch m0 n0 M0 m1 n1 M1 a b c d e f
          | _, _, _, _, _, _ => .error "special lines not recorded"),
         c0.specialRows, c0.specialCols, c1.specialRows, c1.specialCols)
      else if ty == NodeType.threesum then
        ((match (c0.specialRows ++ c0.specialCols ++ c1.specialRows ++ c1.specialCols).mapM id with
          | some [ri, rj, ck, cl, cz, rg, ri2, rj2, ck2, cl2] =>
            compose3 ch m0 n0 M0 m1 n1 M1 ri rj ck cl cz rg ri2 rj2 ck2 cl2 (fun N => ch != 3 || isTU 3 3 N)
          | _ => .error "special lines not recorded"),
         c0.specialRows, [g c0.specialCols 2], [g c1.specialRows 0], c1.specialCols)
      else (.error s!"unknown node type {ty}", [], [], [], [])
    match composed with
    | .error why => throw ("tree:sum-shape", s!"node {nd.id} (type {ty}): children do not have the documented shape: {why}")
    | .ok Pm =>
      match keepMapped c0.rowsToParent bad0r rowOfElem, keepMapped c1.rowsToParent bad1r rowOfElem,
            keepMapped c0.colsToParent bad0c colOfElem, keepMapped c1.colsToParent bad1c colOfElem with
      | some r0, some r1, some k0c, some k1c =>
        let rho := r0 ++ r1; let kap := k0c ++ k1c
        if !(isPerm rho m && isPerm kap n) then
          throw ("tree:maps", s!"node {nd.id} (type {ty}): child-to-parent maps are not bijections onto the lines of the matrix: rows {rho} columns {kap}")
        let want := sub M rho kap
        if Pm != want then
          -- D14 diagnosis: for 2-sums, is the bottom-left block exactly negated?
          if ty == NodeType.twosum then
            let negBL := Mat.ofFn m n (fun i j => if i ≥ r0.length && j < k0c.length then normChar ch (-(ent Pm i j)) else ent Pm i j)
            if negBL == want then
              throw ("tree:twosum-negated", s!"node {nd.id}: 2-sum of the children reproduces the bottom-left block negated (shared representative entry is -1)")
          throw ("tree:recompose", s!"node {nd.id} (type {ty}): composition of the children {matToString Pm} differs from the matrix under the maps {matToString want}")
      | _, _, _, _ => throw ("tree:maps", s!"node {nd.id} (type {ty}): child maps of non-special lines are not rows->rows, columns->columns")
  | _ => throw ("tree:arity", s!"node {nd.id}: sum node (type {ty}) with {kids.length} children")

/-! ### C04: flags and leaf certificates -/

def r10a : Mat := [[1,1,0,0,1],[1,1,1,0,0],[0,1,1,1,0],[0,0,1,1,1],[1,0,0,1,1]]
def r10b : Mat := [[1,1,1,1,1],[1,1,1,0,0],[1,0,1,1,0],[1,0,0,1,1],[1,1,0,0,1]]

def perms : List Nat → List (List Nat)
  | [] => [[]]
  | l => l.flatMap (fun x => (perms (l.erase x)).map (x :: ·))
termination_by l => l.length
decreasing_by
  simp_wf
  rename_i h
  rw [List.length_erase_of_mem h]
  have := List.length_pos_of_mem h
  omega

/-- the 5×5 support is a row/column permutation of one of the two representation matrices of R10 -/
def isR10Support (S : Mat) : Bool :=
  let ps := perms (List.range 5)
  ps.any (fun rp => ps.any (fun cp => let X := sub S rp cp; X == r10a || X == r10b))

def oracleDim : Nat := 6

def checkGraphLeaf (nd : FNode) (gd : GraphData) (co : Bool) : Except (String × String) Unit :=
  let A := nd.matrix
  let (m, n, M) := if co then (A.numCols, A.numRows, transpose A.numRows A.numCols A.toDense) else (A.numRows, A.numCols, A.toDense)
  match checkGraphCert m n M gd.g gd.forest gd.coforest nd.ternary with
  | .ok _ => .ok ()
  | .error e => .error ("tree:graph-cert", s!"node {nd.id}: stored {if co then "cograph" else "graph"} does not reproduce the matrix: {e}")

def checkFlags (nodes : List FNode) (nd : FNode) : Except (String × String) Unit := do
  let A := nd.matrix
  if !A.consistent then return ()
  let m := A.numRows; let n := A.numCols; let M := A.toDense
  let ty := nd.type
  let kids := nd.children.filterMap (fun ci => findNode nodes ci.child)
  -- stored graphs
  match nd.graph with
  | some gd => checkGraphLeaf nd gd false
  | none => pure ()
  match nd.cograph with
  | some gd => checkGraphLeaf nd gd true
  | none => pure ()
  -- type-implied flags
  if ty == NodeType.graph && nd.gra ≤ 0 then throw ("tree:flags", s!"node {nd.id}: graph leaf without positive graphicness")
  if ty == NodeType.cograph && nd.cogra ≤ 0 then throw ("tree:flags", s!"node {nd.id}: cograph leaf without positive cographicness")
  if ty == NodeType.planar && !(nd.gra > 0 && nd.cogra > 0) then throw ("tree:flags", s!"node {nd.id}: planar leaf flags")
  if (ty == NodeType.graph || ty == NodeType.cograph || ty == NodeType.planar || ty == NodeType.r10) && nd.reg ≤ 0 then
    throw ("tree:flags", s!"node {nd.id}: leaf of type {ty} without positive regularity")
  if ty == NodeType.irregular && nd.reg ≥ 0 then throw ("tree:flags", s!"node {nd.id}: irregular node without negative regularity")
  -- propagation is monotone: a positive flag of an inner node needs positive flags at all children
  let innerReg : List Int := [NodeType.pivots, NodeType.onesum, NodeType.twosum, NodeType.deltasum, NodeType.threesum, NodeType.ysum, NodeType.seriesParallel]
  if innerReg.contains ty && nd.reg > 0 && !(kids.all (·.reg > 0) && kids.length == nd.children.length) then
    throw ("tree:flags-propagation", s!"node {nd.id}: regularity +1 although a child is not known to be regular")
  let innerGra : List Int := [NodeType.pivots, NodeType.onesum, NodeType.twosum, NodeType.deltasum, NodeType.seriesParallel]
  if innerGra.contains ty && nd.gra > 0 && !(kids.all (·.gra > 0)) then
    throw ("tree:flags-propagation", s!"node {nd.id}: graphicness +1 although a child is not known to be graphic")
  let innerCo : List Int := [NodeType.pivots, NodeType.onesum, NodeType.twosum, NodeType.ysum, NodeType.seriesParallel]
  if innerCo.contains ty && nd.cogra > 0 && !(kids.all (·.cogra > 0)) then
    throw ("tree:flags-propagation", s!"node {nd.id}: cographicness +1 although a child is not known to be cographic")
  -- R10
  if ty == NodeType.r10 then
    if !(m == 5 && n == 5 && isR10Support (support M)) then
      throw ("tree:r10", s!"node {nd.id}: typed R10 but the matrix {matToString M} is not a representation matrix of R10")
    if nd.ternary && !isTU 5 5 M then throw ("tree:r10", s!"node {nd.id}: ternary R10 node is not totally unimodular")
  -- violating minors
  for mn in nd.minors do
    if mn.type == -2 then
      match mn.sub with
      | some (rsI, csI) =>
        let rs := rsI.filterMap (fun v => if v < 0 then none else some v.toNat)
        let cs := csI.filterMap (fun v => if v < 0 then none else some v.toNat)
        if !(rs.length == rsI.length && cs.length == csI.length && rs.length == cs.length && rs.all (· < m) && cs.all (· < n) &&
             decide rs.Nodup && decide cs.Nodup) then
          throw ("tree:minor", s!"node {nd.id}: determinant minor rows {rsI} columns {csI} is not a square submatrix of the node's matrix")
        if rs.length ≤ 8 then
          let d := detL rs.length (sub M rs cs)
          if !(d ≥ 2 || d ≤ -2) then throw ("tree:minor", s!"node {nd.id}: stored violating submatrix rows {rs} cols {cs} has determinant {d}")
      | none => throw ("tree:minor", s!"node {nd.id}: determinant minor without submatrix")
  -- oracles on small nodes
  if m ≤ oracleDim && n ≤ oracleDim then
    let regular := if nd.ternary then isTU m n M else isRegular n M
    if nd.reg > 0 && !regular then throw ("tree:flag-regular", s!"node {nd.id} (type {ty}): regularity +1 but {matToString M} is not {if nd.ternary then "TU" else "regular"}")
    if nd.reg < 0 && regular then throw ("tree:flag-regular", s!"node {nd.id} (type {ty}): regularity -1 but {matToString M} is {if nd.ternary then "TU" else "regular"}")
  if m ≤ 5 && n ≤ 7 then
    let gr := if nd.ternary then isNetwork m n M else isGraphic m n M
    if nd.gra > 0 && !gr then throw ("tree:flag-graphic", s!"node {nd.id} (type {ty}): graphicness +1 but {matToString M} is not {if nd.ternary then "network" else "graphic"}")
    if nd.gra < 0 && gr then throw ("tree:flag-graphic", s!"node {nd.id} (type {ty}): graphicness -1 but {matToString M} is {if nd.ternary then "network" else "graphic"}")
  if n ≤ 5 && m ≤ 7 then
    let Mt := transpose m n M
    let cg := if nd.ternary then isNetwork n m Mt else isGraphic n m Mt
    if nd.cogra > 0 && !cg then throw ("tree:flag-cographic", s!"node {nd.id} (type {ty}): cographicness +1 but the transpose of {matToString M} is not {if nd.ternary then "network" else "graphic"}")
    if nd.cogra < 0 && cg then throw ("tree:flag-cographic", s!"node {nd.id} (type {ty}): cographicness -1 but the transpose of {matToString M} is {if nd.ternary then "network" else "graphic"}")

/-- all nodes recompose / all flags truthful; the first problem found -/
def checkTree (nodes : List FNode) : Except (String × String) Unit :=
  nodes.forM (fun nd => do checkRecompose nodes nd; checkFlags nodes nd)

def treeTypeCounts (nodes : List FNode) : String :=
  let tys := nodes.map (·.type)
  " ".intercalate ((tys.eraseDups).map (fun t => s!"t{t}x{(tys.filter (· == t)).length}"))

end Cmr
