/-
  C20 — writers for the text formats of `Cmr/Text.lean`, reproducing byte for byte what the C library prints:
  `CMRchrmatPrintDense(..., '0', false)` / `CMRintmatPrintDense`, `CMR*matPrintSparse`, `CMRsubmatPrint`.
  Byte strings are `List Nat` (one number per byte), the type the parsers of `Cmr/Text.lean` consume.
  Core Lean only; everything is executable (structural recursion, so `decide` evaluates it).
-/
import Cmr.Text
namespace Cmr

/-- decimal digits (as bytes) of `n`, most significant first; `fuel` bounds the number of digits -/
def natDigitsAux : Nat → Nat → List Nat
  | 0, _ => []
  | fuel + 1, n => if n < 10 then [48 + n] else natDigitsAux fuel (n / 10) ++ [48 + n % 10]

/-- `printf("%zu", n)` -/
def renderNat (n : Nat) : List Nat := natDigitsAux (n + 1) n

/-- `printf("%d", z)` -/
def renderInt (z : Int) : List Nat :=
  match z with
  | .ofNat n => renderNat n
  | .negSucc n => 45 :: renderNat (n + 1)

/-- the `m × n` entries of `M` in row-major order, read through `ent` like the C loops read the matrix -/
def denseEntries (m n : Nat) (M : Mat) : Mat :=
  (List.range m).map (fun i => (List.range n).map (fun j => ent M i j))

/-- dense format: `"<m> <n>\n"`, then one line per row, every entry followed by one space -/
def renderDense (m n : Nat) (M : Mat) : List Nat :=
  renderNat m ++ 32 :: (renderNat n ++ 10 ::
    (denseEntries m n M).flatMap (fun row => row.flatMap (fun x => renderInt x ++ [32]) ++ [10]))

/-- the nonzero entries `(row, column, value)` (0-based) of the `m × n` matrix `M` in row-major order -/
def sparseTriples (m n : Nat) (M : Mat) : List (Nat × Nat × Int) :=
  (List.range m).flatMap (fun i => (List.range n).filterMap (fun j =>
    if ent M i j != 0 then some (i, j, ent M i j) else none))

/-- sparse format: `"<m> <n> <nnz>\n\n"`, then one line `"<row+1> <col+1> <value>\n"` per nonzero -/
def renderSparse (m n : Nat) (M : Mat) : List Nat :=
  renderNat m ++ 32 :: (renderNat n ++ 32 :: (renderNat (sparseTriples m n M).length ++ 10 :: 10 ::
    (sparseTriples m n M).flatMap (fun t =>
      renderNat (t.1 + 1) ++ 32 :: (renderNat (t.2.1 + 1) ++ 32 :: (renderInt t.2.2 ++ [10])))))

/-- a list of 0-based indices printed 1-based, each followed by a space, and a newline at the end -/
def renderIndexLine (xs : List Nat) : List Nat := xs.flatMap (fun x => renderNat (x + 1) ++ [32]) ++ [10]

/-- submatrix format: `"<numRows> <numColumns> <r> <c>\n"`, the line of row indices, the line of column indices -/
def renderSubmat (s : SubmatText) : List Nat :=
  renderNat s.numRows ++ 32 :: (renderNat s.numCols ++ 32 :: (renderNat s.rows.length ++ 32 ::
    (renderNat s.cols.length ++ 10 :: (renderIndexLine s.rows ++ renderIndexLine s.cols))))

/-- the bytes of an ASCII string literal, for stating expected outputs -/
def asciiBytes (s : String) : List Nat := s.toList.map Char.toNat

/-! The byte strings observed from the C library. -/

example : renderDense 2 3 [[1, 0, -1], [0, 0, 1]] = asciiBytes "2 3\n1 0 -1 \n0 0 1 \n" := by decide
example : renderDense 1 2 [[-5, 100]] = asciiBytes "1 2\n-5 100 \n" := by decide
example : renderDense 0 4 [] = asciiBytes "0 4\n" := by decide
example : renderSparse 2 3 [[1, 0, -1], [0, 0, 1]] = asciiBytes "2 3 3\n\n1 1 1\n1 3 -1\n2 3 1\n" := by decide
example : renderSubmat { numRows := 3, numCols := 3, rows := [2, 1, 0], cols := [2, 1, 0] }
    = asciiBytes "3 3 3 3\n3 2 1 \n3 2 1 \n" := by decide

end Cmr
