/-
  F6 — compressed sparse row matrices exactly as the library stores them (`CMR_CHRMAT` / `CMR_INTMAT`):
  the harness dumps the raw arrays, and `Csr.consistent` is the predicate of property C20.
-/
import Cmr.Mat
namespace Cmr

structure Csr where
  numRows : Nat
  numCols : Nat
  nnz : Nat            -- the `numNonzeros` field
  slice : List Nat     -- `rowSlice[0..numRows]`
  cols : List Nat      -- `entryColumns[0..rowSlice[numRows])`
  vals : List Int      -- `entryValues[0..rowSlice[numRows])`
deriving Repr, BEq

/-- strictly increasing and all `< bound` -/
def strictIncBelow (bound : Nat) : List Nat → Bool
  | [] => true
  | [x] => x < bound
  | x :: y :: rest => x < y && strictIncBelow bound (y :: rest)

def monotone : List Nat → Bool
  | [] => true
  | [_] => true
  | x :: y :: rest => x ≤ y && monotone (y :: rest)

/-- the columns of row `r` -/
def Csr.rowCols (A : Csr) (r : Nat) : List Nat :=
  let a := A.slice.getD r 0
  let b := A.slice.getD (r+1) 0
  (A.cols.drop a).take (b - a)

def Csr.rowVals (A : Csr) (r : Nat) : List Int :=
  let a := A.slice.getD r 0
  let b := A.slice.getD (r+1) 0
  (A.vals.drop a).take (b - a)

/-- Property C20's well-formedness predicate: row slices start at 0, are monotone and end at the number of
stored entries (which equals the `numNonzeros` field); column indices are in range and strictly increasing
within each row; no stored zero. -/
def Csr.consistent (A : Csr) : Bool :=
  A.slice.length == A.numRows + 1 &&
  A.slice.getD 0 1 == 0 &&
  monotone A.slice &&
  A.slice.getD A.numRows 0 == A.nnz &&
  A.cols.length == A.nnz &&
  A.vals.length == A.nnz &&
  (List.range A.numRows).all (fun r => strictIncBelow A.numCols (A.rowCols r)) &&
  A.vals.all (fun v => v != 0)

/-- value at column `j` in a sparse row given as parallel lists -/
def lookupCol : List Nat → List Int → Nat → Int
  | c :: cs, v :: vs, j => if c == j then v else lookupCol cs vs j
  | _, _, _ => 0

def Csr.toDense (A : Csr) : Mat :=
  Mat.ofFn A.numRows A.numCols (fun i j => lookupCol (A.rowCols i) (A.rowVals i) j)

/-- sparse row of a dense row: (columns, values) of the nonzeros -/
def sparseRow (row : List Int) : List (Nat × Int) :=
  (row.zipIdx).filterMap (fun (x, j) => if x != 0 then some (j, x) else none)

def Csr.ofDense (m n : Nat) (M : Mat) : Csr :=
  let rows := (List.range m).map (fun i => sparseRow ((List.range n).map (fun j => ent M i j)))
  let lens := rows.map List.length
  let slice := lens.foldl (fun acc l => acc ++ [acc.getLastD 0 + l]) [0]
  let all := rows.flatten
  { numRows := m, numCols := n, nnz := all.length, slice := slice,
    cols := all.map Prod.fst, vals := all.map Prod.snd }

end Cmr
