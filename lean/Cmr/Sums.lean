/-
  C12 / C03 — 1-, 2-, Δ-, Y- and 3-sum compositions exactly as `include/cmr/separation.h` documents them.
  Arithmetic is done modulo the characteristic (2 or 3; 3 yields representatives in {-1,0,+1}).
-/
import Cmr.Mat
import Cmr.Pivot
namespace Cmr

def normChar (ch : Nat) (x : Int) : Int := if ch == 2 then mod2 x else if ch == 3 then mod3 x else x

def eraseIdxs (l : List Nat) (bad : List Nat) : List Nat := l.filter (fun x => !bad.contains x)

def isPM1 (x : Int) : Bool := x == 1 || x == -1

/-- block matrix `[[TL, TR],[BL, BR]]` given entry functions -/
def blockMat (r1 c1 r2 c2 : Nat) (tl tr bl br : Nat → Nat → Int) : Mat :=
  Mat.ofFn (r1 + r2) (c1 + c2) fun i j =>
    if i < r1 then (if j < c1 then tl i j else tr i (j - c1))
    else (if j < c1 then bl (i - r1) j else br (i - r1) (j - c1))

/-- 1-sum: block diagonal -/
def compose1 : List (Nat × Nat × Mat) → Nat × Nat × Mat
  | [] => (0, 0, [])
  | (m, n, A) :: rest =>
    let (m', n', B) := compose1 rest
    (m + m', n + n', blockMat m n m' n' (fun i j => ent A i j) (fun _ _ => 0) (fun _ _ => 0) (fun i j => ent B i j))

/-- 2-sum, first variant: `M1 = [A; cᵀ]` (row `r` of `M1`), `M2 = [d D]` (column `c` of `M2`): `[[A, 0],[d cᵀ, D]]` -/
def compose2a (ch : Nat) (m1 n1 : Nat) (M1 : Mat) (m2 n2 : Nat) (M2 : Mat) (r c : Nat) : Except String Mat :=
  if !(r < m1 && c < n2) then .error "special line out of range" else
  let rows1 := eraseIdxs (List.range m1) [r]
  let cols2 := eraseIdxs (List.range n2) [c]
  .ok (blockMat rows1.length n1 m2 cols2.length
    (fun i j => normChar ch (ent M1 (rows1.getD i 0) j))
    (fun _ _ => 0)
    (fun i j => normChar ch (ent M2 i c * ent M1 r j))
    (fun i j => normChar ch (ent M2 i (cols2.getD j 0))))

/-- 2-sum, second variant: `M1 = [A a]` (column `c` of `M1`), `M2 = [bᵀ; D]` (row `r` of `M2`): `[[A, a bᵀ],[0, D]]` -/
def compose2b (ch : Nat) (m1 n1 : Nat) (M1 : Mat) (m2 n2 : Nat) (M2 : Mat) (c r : Nat) : Except String Mat :=
  if !(c < n1 && r < m2) then .error "special line out of range" else
  let cols1 := eraseIdxs (List.range n1) [c]
  let rows2 := eraseIdxs (List.range m2) [r]
  .ok (blockMat m1 cols1.length rows2.length n2
    (fun i j => normChar ch (ent M1 i (cols1.getD j 0)))
    (fun i j => normChar ch (ent M1 i c * ent M2 r j))
    (fun _ _ => 0)
    (fun i j => normChar ch (ent M2 (rows2.getD i 0) j)))

/-- shared layout of Δ-, Y- sums: `[[A, a bᵀ],[d cᵀ, D]]` over the non-special lines -/
def composeRank1 (ch : Nat) (M1 M2 : Mat) (rows1 cols1 rows2 cols2 : List Nat)
    (a : Nat → Int) (b : Nat → Int) (c : Nat → Int) (d : Nat → Int) : Mat :=
  blockMat rows1.length cols1.length rows2.length cols2.length
    (fun i j => normChar ch (ent M1 (rows1.getD i 0) (cols1.getD j 0)))
    (fun i j => normChar ch (a (rows1.getD i 0) * b (cols2.getD j 0)))
    (fun i j => normChar ch (d (rows2.getD i 0) * c (cols1.getD j 0)))
    (fun i j => normChar ch (ent M2 (rows2.getD i 0) (cols2.getD j 0)))

/-- Δ-sum. `M1 = [[A, a, a],[cᵀ, 0, ε]]` with special row `r1` and special columns `ca` (the `(a;0)` one) and `cb`
(the `(a;ε)` one); `M2 = [[ε, 0, bᵀ],[d, d, D]]` with special row `r2`, special columns `cc` (`(ε;d)`) and `cd` (`(0;d)`). -/
def composeDelta (ch : Nat) (m1 n1 : Nat) (M1 : Mat) (m2 n2 : Nat) (M2 : Mat) (r1 ca cb r2 cc cd : Nat) : Except String Mat :=
  if !(r1 < m1 && ca < n1 && cb < n1 && ca != cb && r2 < m2 && cc < n2 && cd < n2 && cc != cd) then .error "special line out of range" else
  let rows1 := eraseIdxs (List.range m1) [r1]
  let cols1 := eraseIdxs (List.range n1) [ca, cb]
  let rows2 := eraseIdxs (List.range m2) [r2]
  let cols2 := eraseIdxs (List.range n2) [cc, cd]
  let eps := ent M1 r1 cb
  if !(isPM1 (normChar ch eps)) then .error "structure: epsilon of first" else
  if normChar ch (ent M1 r1 ca) != 0 then .error "structure: zero of first" else
  if !(rows1.all (fun i => normChar ch (ent M1 i ca) == normChar ch (ent M1 i cb))) then .error "structure: two copies of a differ" else
  if normChar ch (ent M2 r2 cc) != normChar ch eps then .error "structure: epsilon of second" else
  if normChar ch (ent M2 r2 cd) != 0 then .error "structure: zero of second" else
  if !(rows2.all (fun i => normChar ch (ent M2 i cc) == normChar ch (ent M2 i cd))) then .error "structure: two copies of d differ" else
  .ok (composeRank1 ch M1 M2 rows1 cols1 rows2 cols2 (fun i => ent M1 i ca) (fun j => ent M2 r2 j) (fun j => ent M1 r1 j) (fun i => ent M2 i cc))

/-- Y-sum. `M1 = [[A, a],[cᵀ, 0],[cᵀ, ε]]` with special rows `ra` (`(cᵀ 0)`), `rb` (`(cᵀ ε)`) and special column `c1`;
`M2 = [[ε, bᵀ],[0, bᵀ],[d, D]]` with special rows `rc` (`(ε bᵀ)`), `rd` (`(0 bᵀ)`) and special column `c2`. -/
def composeY (ch : Nat) (m1 n1 : Nat) (M1 : Mat) (m2 n2 : Nat) (M2 : Mat) (ra rb c1 rc rd c2 : Nat) : Except String Mat :=
  if !(ra < m1 && rb < m1 && ra != rb && c1 < n1 && rc < m2 && rd < m2 && rc != rd && c2 < n2) then .error "special line out of range" else
  let rows1 := eraseIdxs (List.range m1) [ra, rb]
  let cols1 := eraseIdxs (List.range n1) [c1]
  let rows2 := eraseIdxs (List.range m2) [rc, rd]
  let cols2 := eraseIdxs (List.range n2) [c2]
  let eps := ent M1 rb c1
  if !(isPM1 (normChar ch eps)) then .error "structure: epsilon of first" else
  if normChar ch (ent M1 ra c1) != 0 then .error "structure: zero of first" else
  if !(cols1.all (fun j => normChar ch (ent M1 ra j) == normChar ch (ent M1 rb j))) then .error "structure: two copies of c differ" else
  if normChar ch (ent M2 rc c2) != normChar ch eps then .error "structure: epsilon of second" else
  if normChar ch (ent M2 rd c2) != 0 then .error "structure: zero of second" else
  if !(cols2.all (fun j => normChar ch (ent M2 rc j) == normChar ch (ent M2 rd j))) then .error "structure: two copies of b differ" else
  .ok (composeRank1 ch M1 M2 rows1 cols1 rows2 cols2 (fun i => ent M1 i c1) (fun j => ent M2 rc j) (fun j => ent M1 ra j) (fun i => ent M2 i c2))

/-- 3-sum. `M1 = [[A, 0],[C_i, α],[C_j, β]]`: special rows `ri rj`, special columns `ck cl` (columns of `C_{*,k}`, `C_{*,l}` inside
`A`'s column range) and `cz` (the `(0;α;β)` column). `M2 = [[γ, δ, 0],[C_k, C_l, D]]`: special rows `rg` (the `(γ δ 0)` row) and
`ri2 rj2` (rows of `C_{i,*}`, `C_{j,*}` inside `D`'s row range), special columns `ck2 cl2`. -/
def compose3 (ch : Nat) (m1 n1 : Nat) (M1 : Mat) (m2 n2 : Nat) (M2 : Mat)
    (ri rj ck cl cz rg ri2 rj2 ck2 cl2 : Nat) (tuCheck : Mat → Bool) : Except String Mat :=
  if !(ri < m1 && rj < m1 && ri != rj && ck < n1 && cl < n1 && cz < n1 && ck != cl && ck != cz && cl != cz &&
       rg < m2 && ri2 < m2 && rj2 < m2 && rg != ri2 && rg != rj2 && ri2 != rj2 && ck2 < n2 && cl2 < n2 && ck2 != cl2) then
    .error "special line out of range" else
  let rows1 := eraseIdxs (List.range m1) [ri, rj]
  let cols1 := eraseIdxs (List.range n1) [cz]
  let rows2 := eraseIdxs (List.range m2) [rg]
  let cols2 := eraseIdxs (List.range n2) [ck2, cl2]
  let nz (x : Int) := normChar ch x
  let alpha := nz (ent M1 ri cz); let beta := nz (ent M1 rj cz)
  let gamma := nz (ent M2 rg ck2); let delta := nz (ent M2 rg cl2)
  if !(isPM1 alpha && isPM1 beta) then .error "structure: alpha/beta" else
  if !(rows1.all (fun i => nz (ent M1 i cz) == 0)) then .error "structure: zero column part of first" else
  if !(isPM1 gamma && isPM1 delta) then .error "structure: gamma/delta" else
  if !(cols2.all (fun j => nz (ent M2 rg j) == 0)) then .error "structure: zero row part of second" else
  -- connecting 2x2 matrices agree
  let q00 := nz (ent M1 ri ck); let q01 := nz (ent M1 ri cl); let q10 := nz (ent M1 rj ck); let q11 := nz (ent M1 rj cl)
  if !(q00 == nz (ent M2 ri2 ck2) && q01 == nz (ent M2 ri2 cl2) && q10 == nz (ent M2 rj2 ck2) && q11 == nz (ent M2 rj2 cl2)) then
    .error "inconsistent connecting submatrices" else
  let det := nz (q00 * q11 - q01 * q10)
  if det == 0 then .error "structure: connecting submatrix singular" else
  let N : Mat := [[gamma, delta, 0], [q00, q01, alpha], [q10, q11, beta]]
  if !(tuCheck N) then .error "structure: N not totally unimodular" else
  -- C = [C_k C_l] * Q^{-1} * [C_i; C_j],  Q^{-1} = det * adj(Q)  (det = ±1 so 1/det = det)
  let i00 := det * q11; let i01 := -(det * q01); let i10 := -(det * q10); let i11 := det * q00
  .ok (blockMat rows1.length cols1.length rows2.length cols2.length
    (fun i j => nz (ent M1 (rows1.getD i 0) (cols1.getD j 0)))
    (fun _ _ => 0)
    (fun i j =>
      let x := rows2.getD i 0; let y := cols1.getD j 0
      let colk := ent M2 x ck2; let coll := ent M2 x cl2
      let rowi := ent M1 ri y; let rowj := ent M1 rj y
      nz (colk * (i00 * rowi + i01 * rowj) + coll * (i10 * rowi + i11 * rowj)))
    (fun i j => nz (ent M2 (rows2.getD i 0) (cols2.getD j 0))))

end Cmr
