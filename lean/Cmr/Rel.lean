/-
  C10 — the transformations under which the recognizers' verdicts are invariant (or monotone), as functions on `Mat`,
  and the table that says which relation between `verdict(M)` and `verdict(g M)` each transformation forces for each class.
-/
import Cmr.Mat
import Cmr.Pivot
namespace Cmr

inductive Step where
  | T                                   -- transposition
  | P (rows cols : List Nat)            -- permutation: result[i][j] = M[rows[i]][cols[j]]
  | S (rows cols : List Nat)            -- submatrix (slice)
  | V2 (r c : Nat)                      -- GF(2) pivot
  | V3 (r c : Nat)                      -- GF(3) pivot
  | NR (i : Nat) | NC (j : Nat)         -- negate a row / column
  | ZR (pos : Nat) | ZC (pos : Nat)     -- insert a zero row / column before position `pos`
  | UR (pos j : Nat) (s : Int)          -- insert the row  s·e_j  before position `pos`
  | UC (pos i : Nat) (s : Int)
  | DR (pos i : Nat) (s : Int)          -- insert  s·(row i)  before position `pos`
  | DC (pos j : Nat) (s : Int)
deriving Repr

def insertAt {α : Type} (l : List α) (pos : Nat) (x : α) : List α := l.take pos ++ x :: l.drop pos

def insertRow (M : Mat) (pos : Nat) (row : List Int) : Mat := insertAt M pos row
def insertCol (M : Mat) (pos : Nat) (col : Nat → Int) : Mat := M.mapIdx (fun i row => insertAt row pos (col i))

def unitVec (n j : Nat) (s : Int) : List Int := (List.range n).map (fun k => if k == j then s else 0)

def isPermOf (l : List Nat) (n : Nat) : Bool := l.length == n && l.all (· < n) && decide l.Nodup

/-- one step on an `m × n` matrix; `none` = the step is not applicable (index out of range, zero pivot, …) -/
def Step.apply (m n : Nat) (M : Mat) : Step → Option (Nat × Nat × Mat)
  | .T => some (n, m, transpose m n M)
  | .P rows cols => if isPermOf rows m && isPermOf cols n then some (m, n, sub M rows cols) else none
  | .S rows cols =>
    if rows.all (· < m) && cols.all (· < n) && decide rows.Nodup && decide cols.Nodup then some (rows.length, cols.length, sub M rows cols) else none
  | .V2 r c => if pivotOk2 m n M r c then some (m, n, pivot2 m n M r c) else none
  | .V3 r c => if pivotOk3 m n M r c then some (m, n, pivot3 m n M r c) else none
  | .NR i => if i < m then some (m, n, negRow M i) else none
  | .NC j => if j < n then some (m, n, negCol M j) else none
  | .ZR pos => if pos ≤ m then some (m + 1, n, insertRow M pos (List.replicate n 0)) else none
  | .ZC pos => if pos ≤ n then some (m, n + 1, insertCol M pos (fun _ => 0)) else none
  | .UR pos j s => if pos ≤ m && j < n && (s == 1 || s == -1) then some (m + 1, n, insertRow M pos (unitVec n j s)) else none
  | .UC pos i s => if pos ≤ n && i < m && (s == 1 || s == -1) then some (m, n + 1, insertCol M pos (fun k => if k == i then s else 0)) else none
  | .DR pos i s => if pos ≤ m && i < m && (s == 1 || s == -1) then some (m + 1, n, insertRow M pos ((M.getD i []).map (s * ·))) else none
  | .DC pos j s => if pos ≤ n && j < n && (s == 1 || s == -1) then some (m, n + 1, insertCol M pos (fun k => s * ent M k j)) else none

def applySteps (m n : Nat) (M : Mat) : List Step → Option (Nat × Nat × Mat)
  | [] => some (m, n, M)
  | s :: rest =>
    match s.apply m n M with
    | none => none
    | some (m', n', M') => applySteps m' n' M' rest

/-- the matrix classes whose recognizers are related -/
inductive Cls where
  | tu | reg | gra | cog | net | con | spb | spt | bal | cam
deriving Repr, BEq, DecidableEq

def Cls.ofString : String → Option Cls
  | "tu" => some .tu | "reg" => some .reg | "gra" => some .gra | "cog" => some .cog | "net" => some .net
  | "con" => some .con | "spb" => some .spb | "spt" => some .spt | "bal" => some .bal | "cam" => some .cam
  | _ => none

/-- transposition maps a class to its dual class -/
def Cls.dual : Cls → Cls
  | .gra => .cog | .cog => .gra | .net => .con | .con => .net | c => c

/-- classes defined for 0/1 matrices only -/
def Cls.binaryOnly : Cls → Bool
  | .reg | .gra | .cog | .spb => true
  | _ => false

inductive Rel where
  | iff        -- verdict(M) = verdict(g M)
  | imp        -- verdict(M) = yes → verdict(g M) = yes
  | none       -- no relation claimed
deriving Repr, BEq, DecidableEq

def Rel.seq : Rel → Rel → Rel
  | .iff, r => r
  | r, .iff => r
  | .imp, .imp => .imp
  | _, _ => .none

/-- relation forced by one step for class `c` (for `T`: between `c` on `M` and `c.dual` on `Mᵀ`) -/
def Step.rel (c : Cls) : Step → Rel
  | .T | .P _ _ => .iff
  | .S _ _ => .imp
  | .V2 _ _ => if c.binaryOnly then .iff else .none
  | .V3 _ _ => if c == .tu || c == .net || c == .con || c == .spt then .iff else .none
  | .NR _ | .NC _ => if c.binaryOnly then .none else .iff
  | .ZR _ | .ZC _ => if c == .cam then .none else .iff
  | .UR _ _ s | .UC _ _ s | .DR _ _ s | .DC _ _ s =>
    if c == .cam then .none else if s == 1 then .iff else if c.binaryOnly then .none else .iff

/-- class seen after the steps, and the relation between the two verdicts -/
def stepsRel : Cls → List Step → Cls × Rel
  | c, [] => (c, .iff)
  | c, s :: rest =>
    let c' := match s with | .T => c.dual | _ => c
    let (c'', r) := stepsRel c' rest
    (c'', (s.rel c).seq r)

/-- relation between operands and result of a k-sum: `both` = sum is yes iff both operands are, `closed` = operands yes → sum yes -/
inductive SumRel where
  | both | closed | none
deriving Repr, BEq, DecidableEq

def sumRel (kind : String) (ch : Nat) (c : Cls) : SumRel :=
  match kind with
  | "1" => if c == .cam then .none else .both
  | "2" =>
    if c == .bal || c == .cam then .none
    else if c.binaryOnly then (if ch == 2 then .closed else .none)
    else (if ch == 3 then .closed else .none)
  | "D" | "Y" | "3" => if c == .reg && ch == 2 then .closed else .none
  | _ => .none

end Cmr
