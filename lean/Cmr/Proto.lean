/-
  Line protocol shared with the C harness: token parsers for operations and results.
-/
import Cmr.Mat
import Cmr.Csr
namespace Cmr

abbrev P := StateT (List String) (Except String)

namespace P

def tok : P String := do
  match (← get) with
  | [] => throw "unexpected end of line"
  | t :: ts => set ts; pure t

def peek : P (Option String) := do
  match (← get) with
  | [] => pure none
  | t :: _ => pure (some t)

def atEnd : P Bool := do pure (← get).isEmpty

def int : P Int := do
  let t ← tok
  match t.toInt? with
  | some v => pure v
  | none => throw s!"expected integer, got '{t}'"

def nat : P Nat := do
  let v ← int
  if v < 0 then throw s!"expected natural, got {v}" else pure v.toNat

/-- index with `-1` meaning "none" (`SIZE_MAX`) -/
def idx : P (Option Nat) := do
  let v ← int
  if v < 0 then pure none else pure (some v.toNat)

def expect (s : String) : P Unit := do
  let t ← tok
  if t == s then pure () else throw s!"expected '{s}', got '{t}'"

def many {α : Type} (p : P α) : Nat → P (List α)
  | 0 => pure []
  | n+1 => do let x ← p; let xs ← many p n; pure (x :: xs)

/-- all remaining tokens up to (not including) the token `stop`; consumes `stop` -/
partial def untilTok (stop : String) : P (List String) := do
  match (← get) with
  | [] => pure []
  | t :: ts =>
    set ts
    if t == stop then pure [] else do
      let rest ← untilTok stop
      pure (t :: rest)

/-- dense matrix `m n e00 e01 …` -/
def denseMat : P (Nat × Nat × Mat) := do
  let m ← nat
  let n ← nat
  let rows ← many (many int n) m
  pure (m, n, rows)

/-- raw CSR dump `M r c nnz | slice… | cols… | vals…`, or `-` -/
def csr : P (Option Csr) := do
  let t ← tok
  if t == "-" then pure none
  else if t != "M" then throw s!"expected matrix, got '{t}'"
  else do
    let r ← nat; let c ← nat; let nnz ← nat
    expect "|"
    let slice ← many nat (r+1)
    expect "|"
    let stored := slice.getD r 0
    let cols ← many nat stored
    expect "|"
    let vals ← many int stored
    pure (some { numRows := r, numCols := c, nnz := nnz, slice := slice, cols := cols, vals := vals })

/-- submatrix `S nr nc rows… cols…` (indices may be −1 = SIZE_MAX), or `-` -/
def submat : P (Option (List Int × List Int)) := do
  let t ← tok
  if t == "-" then pure none
  else if t != "S" then throw s!"expected submatrix, got '{t}'"
  else do
    let nr ← nat; let nc ← nat
    let rs ← many int nr
    let cs ← many int nc
    pure (some (rs, cs))

end P

/-- Trailer appended by the harness to every result line. -/
structure Trailer where
  usage0 : Nat
  usage1 : Nat
  depthDelta : Int
  orderViol : Int
  inputModified : Nat
  clockReads : Nat
  clockFired : Nat
deriving Repr

def parseCommaInts (s : String) : Option (List Int) :=
  (s.splitOn ",").mapM String.toInt?

def parseTrailer (toks : List String) : Option Trailer := do
  let st ← toks.find? (·.startsWith "st=")
  let inn ← toks.find? (·.startsWith "in=")
  let clk ← toks.find? (·.startsWith "clk=")
  let stv ← parseCommaInts (st.drop 3).toString
  let inv ← parseCommaInts (inn.drop 3).toString
  let clv ← parseCommaInts (clk.drop 4).toString
  match stv, inv, clv with
  | [a, b, c, d], [e], [f, g] =>
    some { usage0 := a.toNat, usage1 := b.toNat, depthDelta := c, orderViol := d, inputModified := e.toNat,
           clockReads := f.toNat, clockFired := g.toNat }
  | _, _, _ => none

/-- A parsed correspondence line `op… => status payload… ;; trailer…`. -/
structure Line where
  op : List String
  status : String            -- "ok" or "err:NAME" or "crash…"
  payload : List String
  trailer : List String
deriving Repr

def splitAt (sep : String) (l : List String) : List String × List String :=
  let a := l.takeWhile (· != sep)
  (a, (l.drop (a.length + 1)))

def parseLine (s : String) : Option Line :=
  let toks := (s.splitOn " ").filter (· != "")
  let (op, res) := splitAt "=>" toks
  match res with
  | [] => none
  | status :: rest =>
    let (payload, trailer) := splitAt ";;" rest
    some { op := op, status := status, payload := payload, trailer := trailer }

end Cmr
