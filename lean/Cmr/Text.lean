/-
  C20 — the documented text formats (doc/file-formats.md): dense and sparse matrices, submatrices.
  Whitespace-delimited decimal integers; values must fit the target type; indices are 1-based and in range;
  no duplicate positions in the sparse format.
-/
import Cmr.Mat
namespace Cmr

def isSpaceByte (b : Nat) : Bool := b == 32 || (9 ≤ b && b ≤ 13)

/-- split a byte string into maximal runs of non-whitespace bytes -/
def tokenizeBytes (bs : List Nat) : List (List Nat) :=
  let (cur, acc) := bs.foldl (fun (p : List Nat × List (List Nat)) b =>
    if isSpaceByte b then (if p.1.isEmpty then p else ([], p.1.reverse :: p.2)) else (b :: p.1, p.2)) ([], [])
  (if cur.isEmpty then acc else cur.reverse :: acc).reverse

def digitsVal (ds : List Nat) : Option Nat :=
  if ds.isEmpty then none else
  ds.foldl (fun acc d => match acc with
    | none => none
    | some v => if 48 ≤ d && d ≤ 57 then some (10 * v + (d - 48)) else none) (some 0)

/-- decimal integer token `[+-]?[0-9]+` -/
def intTok (t : List Nat) : Option Int :=
  match t with
  | 45 :: ds => (digitsVal ds).map (fun v => -(v : Int))
  | 43 :: ds => (digitsVal ds).map (fun v => (v : Int))
  | ds => (digitsVal ds).map (fun v => (v : Int))

/-- forms such as `1.`, `-2.00`, `.0` that C's `strtod` reads as an integer value; the documentation speaks of integers
only, so the readers may accept or reject them -/
def intTokLenient (t : List Nat) : Option Int :=
  let (sign, body) := match t with
    | 45 :: ds => ((-1 : Int), ds)
    | 43 :: ds => (1, ds)
    | ds => (1, ds)
  let ip := body.takeWhile (· != 46)
  let fp := body.dropWhile (· != 46)
  match fp with
  | [] => (digitsVal ip).map (fun v => sign * (v : Int))
  | _ :: zs =>
    if !(zs.all (· == 48)) then none
    else if ip.isEmpty then (if zs.isEmpty then none else some 0)
    else (digitsVal ip).map (fun v => sign * (v : Int))

/-- natural number token (sizes, indices): digits only, optional `+` -/
def natTok (t : List Nat) : Option Nat :=
  match t with
  | 45 :: ds => if ds.all (· == 48) then digitsVal ds else none     -- "-0" denotes 0
  | 43 :: ds => digitsVal ds
  | ds => digitsVal ds

inductive TextResult where
  | ok (m n : Nat) (M : Mat)
  | inputError (why : String)
deriving Repr

/-- dense format: `m n` followed by `m·n` entries, each an integer in `[lo, hi]` -/
def parseDenseTextWith (tokf : List Nat → Option Int) (lo hi : Int) (bs : List Nat) : TextResult :=
  match tokenizeBytes bs with
  | tm :: tn :: rest =>
    match natTok tm, natTok tn with
    | some m, some n =>
      if m > 2147483647 || n > 2147483647 then .inputError "header out of range" else
      if rest.length < m * n then .inputError "truncated" else
      if rest.length > m * n then .inputError "trailing token" else
      match (rest.take (m * n)).mapM tokf with
      | none => .inputError "non-numeric entry"
      | some vals =>
        if vals.all (fun v => lo ≤ v && v ≤ hi) then
          .ok m n (Mat.ofFn m n (fun i j => vals.getD (i * n + j) 0))
        else .inputError "value outside the target type"
    | _, _ => .inputError "bad header"
  | _ => .inputError "no header"

def parseDenseText (lo hi : Int) (bs : List Nat) : TextResult := parseDenseTextWith intTok lo hi bs
def parseDenseTextLenient (lo hi : Int) (bs : List Nat) : TextResult := parseDenseTextWith intTokLenient lo hi bs

def triples : List Int → List (Int × Int × Int)
  | r :: c :: v :: rest => (r, c, v) :: triples rest
  | _ => []

/-- sparse format: `m n k` followed by `k` triples `r c v` (1-based positions, no duplicates) -/
def parseSparseText (lo hi : Int) (bs : List Nat) : TextResult :=
  match tokenizeBytes bs with
  | tm :: tn :: tk :: rest =>
    match natTok tm, natTok tn, natTok tk with
    | some m, some n, some k =>
      if m > 2147483647 || n > 2147483647 then .inputError "header out of range" else
      if k > m * n then .inputError "more nonzeros than positions" else
      if rest.length < 3 * k then .inputError "truncated" else
      if rest.length > 3 * k then .inputError "trailing token" else
      if k > m * n then .inputError "more nonzeros than positions" else
      match (rest.take (3 * k)).mapM intTok with
      | none => .inputError "non-numeric token"
      | some vals =>
        let ts := triples vals
        if !(ts.all (fun (r, c, v) => 1 ≤ r && r ≤ (m : Int) && 1 ≤ c && c ≤ (n : Int) && lo ≤ v && v ≤ hi)) then
          .inputError "index or value out of range"
        else
          let pos := ts.filterMap (fun (r, c, v) => if v != 0 then some (r, c) else none)
          if pos.eraseDups.length != pos.length then .inputError "duplicate position"
          else .ok m n (Mat.ofFn m n (fun i j =>
            ((ts.find? (fun (r, c, v) => r == (i : Int) + 1 && c == (j : Int) + 1 && v != 0)).map (fun t => t.2.2)).getD 0))
    | _, _, _ => .inputError "bad header"
  | _ => .inputError "no header"

structure SubmatText where
  numRows : Nat
  numCols : Nat
  rows : List Nat     -- 0-based
  cols : List Nat
deriving Repr, BEq

/-- submatrix format: `m n r c`, then `r` row indices, then `c` column indices (1-based, in range) -/
def parseSubmatText (bs : List Nat) : Option SubmatText :=
  match ((tokenizeBytes bs).take 4).mapM natTok with
  | some [m, n, r, c] =>
    if m > 2147483647 || n > 2147483647 || r > m || c > n then none else
    if ((tokenizeBytes bs).drop 4).length != r + c then none else
    match (((tokenizeBytes bs).drop 4).take (r + c)).mapM natTok with
    | none => none
    | some rest =>
    if rest.length < r + c then none else
    let rs := rest.take r
    let cs := (rest.drop r).take c
    if rs.all (fun x => 1 ≤ x && x ≤ m) && cs.all (fun x => 1 ≤ x && x ≤ n) then
      some { numRows := m, numCols := n, rows := rs.map (· - 1), cols := cs.map (· - 1) }
    else none
  | _ => none

def hexVal (c : Char) : Option Nat :=
  if '0' ≤ c && c ≤ '9' then some (c.toNat - 48) else if 'a' ≤ c && c ≤ 'f' then some (c.toNat - 87) else none

def hexBytes (s : String) : Option (List Nat) :=
  if s == "-" then some [] else
  let rec go : List Char → Option (List Nat)
    | [] => some []
    | a :: b :: rest => do let x ← hexVal a; let y ← hexVal b; let r ← go rest; pure ((16 * x + y) :: r)
    | _ => none
  go s.toList

end Cmr
