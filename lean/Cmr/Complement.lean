/-
  C15 — complement operations on 0/1 matrices and the complement-TU contract.
-/
import Cmr.Det
namespace Cmr

/-- Row complement for row `r` (doc/ctu.md): complement all entries `M[i,j]` with `i ≠ r` and `M[r,j] = 1`. -/
def rowComplement (m n : Nat) (M : Mat) (r : Nat) : Mat :=
  Mat.ofFn m n (fun i j => if i == r then ent M i j else (ent M i j + ent M r j) % 2)

/-- Column complement for column `c`: the row complement of the transpose. -/
def colComplement (m n : Nat) (M : Mat) (c : Nat) : Mat :=
  Mat.ofFn m n (fun i j => if j == c then ent M i j else (ent M i j + ent M i c) % 2)

/-- One-call form, by the formula of the property statement: away from the chosen lines entry `(i,j)` flips iff
`M[r,c] + M[r,j] + M[i,c]` is odd; on row `r` (resp. column `c`) entries other than `(r,c)` flip iff `M[r,c] = 1`. -/
def complementRC (m n : Nat) (M : Mat) (r c : Option Nat) : Mat :=
  match r, c with
  | none, none => Mat.ofFn m n (fun i j => ent M i j)
  | some r, none => rowComplement m n M r
  | none, some c => colComplement m n M c
  | some r, some c =>
    Mat.ofFn m n (fun i j =>
      if i == r then (if j == c then ent M i j else (ent M i j + ent M r c) % 2)
      else if j == c then (ent M i j + ent M r c) % 2
      else (ent M i j + ent M r c + ent M r j + ent M i c) % 2)

/-- all `(rows+1)(columns+1)` choices, `none` last — the library's enumeration order -/
def complementChoices (m n : Nat) : List (Option Nat × Option Nat) :=
  ((List.range m).map some ++ [none]).flatMap (fun r => ((List.range n).map some ++ [none]).map (fun c => (r, c)))

/-- Complement total unimodularity by definition. -/
def isCTU (m n : Nat) (M : Mat) : Bool :=
  (complementChoices m n).all (fun (r, c) => isTU m n (complementRC m n M r c))

end Cmr
