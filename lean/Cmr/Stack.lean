/-
  C11 — the LIFO scratch allocator of `src/cmr/env.c` (`_CMRallocStack`, `_CMRfreeStack`, `CMRgetStackUsage`).
  `hdr` is the per-chunk overhead: 8 bytes (size word) in NDEBUG builds, 12 (size word + 4-byte protection word)
  in assertion-enabled builds.
-/
namespace Cmr

def firstStackSize : Nat := 4096
def stackSize (k : Nat) : Nat := firstStackSize <<< k

structure Stack where
  tops : List Nat                 -- `stacks[k].top` for the allocated stacks
  cur : Nat                       -- `currentStack`
  chunks : List (Nat × Nat)       -- ghost: (stack index, bytes taken) of live chunks, most recent first
deriving Repr, BEq, DecidableEq

def Stack.init : Stack := { tops := [firstStackSize], cur := 0, chunks := [] }

/-- `top` of stack `k`; stacks not yet allocated are created full -/
def Stack.topAt (s : Stack) (k : Nat) : Nat := s.tops.getD k (stackSize k)

/-- extend `tops` with full stacks up to index `k` -/
def extendTops (tops : List Nat) (k : Nat) : List Nat :=
  tops ++ (List.range (k + 1 - tops.length)).map (fun d => stackSize (tops.length + d))

/-- number of stacks the `while` loop of `_CMRallocStack` skips (bounded: sizes double) -/
def skipCount (s : Stack) (req : Nat) : Option Nat :=
  (List.range 64).find? (fun d => decide (req ≤ s.topAt (s.cur + d)))

/-- `_CMRallocStack`; returns the new state and the address offset of the chunk modulo 8
(relative to the 16-aligned `malloc` block of its stack). `none`: request beyond 2^40, rejected by an assertion. -/
def Stack.alloc (hdr : Nat) (s : Stack) (size : Nat) : Option (Stack × Nat) :=
  let size := if size < 4 then 4 else size
  let req := size + hdr
  match skipCount s req with
  | none => none
  | some d =>
    let k := s.cur + d
    let tops := extendTops s.tops k
    let top := tops.getD k 0
    some ({ tops := tops.set k (top - req), cur := k, chunks := (k, req) :: s.chunks }, (top - size) % 8)

/-- the `while` loop of `_CMRfreeStack`: step down over empty stacks -/
def popEmpty (tops : List Nat) : Nat → Nat
  | 0 => 0
  | k+1 => if tops.getD (k+1) 0 == stackSize (k+1) then popEmpty tops k else k+1

/-- `_CMRfreeStack`: frees the most recent chunk -/
def Stack.free (s : Stack) : Option Stack :=
  match s.chunks with
  | [] => none
  | (k, req) :: rest =>
    let tops := s.tops.set k (s.tops.getD k 0 + req)
    some { tops := tops, cur := popEmpty tops k, chunks := rest }

/-- `CMRgetStackUsage` -/
def Stack.usage (s : Stack) : Nat :=
  ((List.range s.cur).map stackSize).sum + (stackSize s.cur - s.topAt s.cur)

inductive StackOp where
  | alloc (size : Nat)
  | free
deriving Repr, DecidableEq

def Stack.step (hdr : Nat) (s : Stack) : StackOp → Option Stack
  | .alloc n => (s.alloc hdr n).map Prod.fst
  | .free => s.free

def Stack.run (hdr : Nat) (s : Stack) : List StackOp → Option Stack
  | [] => some s
  | op :: ops => (s.step hdr op).bind (fun s' => Stack.run hdr s' ops)

end Cmr
