/-
  Lemmas for `CmrProofs/Props/C10Graphic.lean`: the brute-force oracles `isGraphic` / `isNetwork` of `Cmr/Graph.lean`
  read declaratively, and the closure of that reading under the steps of `Cmr/Rel.lean`.

  * `Realises signed m n M` : there is a bridge forest `T` (every edge a bridge, `IsBridgeForest`) with `m` edges such that
    every column `j < n` of `M` is the incidence vector (`signed = false`) resp. signed incidence vector (`signed = true`)
    of a walk with pairwise distinct edges in `T` (`ColWalk`); the ends of the walk are the ends of non-forest edge `j`.
  * `isGraphic_iff_realises`, `isNetwork_iff_realises` : for well-formed `M` the oracles decide exactly this
    (soundness from `C06TU.graphicSearch_tree` / `networkSearch_tree`, completeness as in `C05Complete`).
  * `realises_sub` : minors — contracting the forest edges outside `rows` (the nodes are renamed to a representative
    `compRep` of their component in the contracted edges), reordering the others, selecting non-forest edges `cols`;
  * `realises_colIns` : a new non-forest edge (loop, parallel to a forest edge, parallel/antiparallel to a non-forest edge);
  * `realises_rowIns` : a new forest edge (coloop; in series with a non-forest edge: a pendant edge at one end of its
    walk; in series with a forest edge: subdivision `subdivT`), with `bridge_of_project` (contracting the new edge maps
    paths of the larger forest to paths of the smaller one) for the bridge property;
  * `realises_negRow`, `realises_negCol` : reversing a forest / non-forest arc (signed reading).
-/
import CmrProofs.Lemmas.RelLemmas
import CmrProofs.Props.C05Complete
import CmrProofs.Props.C06Complete
import CmrProofs.Props.C06TU

set_option linter.unusedSimpArgs false
set_option linter.unusedVariables false

namespace Cmr.GraStep
open Cmr Cmr.Props

/-! ### declarative reading of the two oracles -/

/-- column `j` of `M` (rows `0..m-1`) is the (signed) incidence vector of a walk with distinct edges in `T` -/
def ColWalk (signed : Bool) (T : List Edge) (m : Nat) (M : Mat) (j : Nat) : Prop :=
  ∃ s t w, IsWalk T s t w ∧ (w.map Prod.fst).Nodup ∧ ∀ i, i < m → ent M i j = pathEntry signed w i

/-- `M` is the fundamental-cycle matrix of some forest (with `m` edges) and `n` further edges -/
def Realises (signed : Bool) (m n : Nat) (M : Mat) : Prop :=
  ∃ T : List Edge, T.length = m ∧ IsBridgeForest T ∧ ∀ j, j < n → ColWalk signed T m M j

theorem treeCond_of_walks {signed : Bool} {T : List Edge} {n : Nat} {M : Mat} (hb : IsBridgeForest T) {c : Nat → Nat}
    (hc : IsRooting T c) (hcols : ∀ j, j < n → ColWalk signed T T.length M j) :
    ((forestLabels (List.range (T.length + 1)) (parentEdges (parentOf T c))).isSome &&
      (List.range n).all (fun j => supportIsPath (parentEdges (parentOf T c))
        ((List.range T.length).filter (fun i => ent M i j != 0)))) = true := by
  have hb' := parentEdges_bridgeForest hb hc
  have h1 : (forestLabels (List.range (T.length + 1)) (parentEdges (parentOf T c))).isSome = true :=
    (forestLabels_isSome_iff (fun e he => C05Complete.mem_parentEdges_parentOf he)).mpr hb'.incr
  have h2 : (List.range n).all (fun j => supportIsPath (parentEdges (parentOf T c))
      ((List.range T.length).filter (fun i => ent M i j != 0))) = true := by
    rw [List.all_eq_true]
    intro j hj
    have hj : j < n := by simpa using hj
    obtain ⟨s, t, w, hw, nd, hent⟩ := hcols j hj
    obtain ⟨w', hw', hfst⟩ := walk_parentEdges hc hw
    refine supportIsPath_of_walk hb' hw' (hfst ▸ nd) (List.Nodup.sublist List.filter_sublist List.nodup_range) ?_
    intro k
    rw [hfst]
    exact mem_support_iff hw rfl hent k
  rw [h1, h2]; rfl

theorem realises_entry {signed : Bool} {m n : Nat} {M : Mat} (h : Realises signed m n M) {i j : Nat} (hi : i < m)
    (hj : j < n) : ent M i j = 0 ∨ ent M i j = 1 ∨ (signed = true ∧ ent M i j = -1) := by
  obtain ⟨T, _, _, hcols⟩ := h
  obtain ⟨s, t, w, _, _, hent⟩ := hcols j hj
  rw [hent i hi]; exact pathEntry_cases _ _ _

theorem isGraphic_of_realises {m n : Nat} {M : Mat} (hwf : M.wf m n = true) (h : Realises false m n M) :
    isGraphic m n M = true := by
  have hbin : isBinary M = true := by
    rw [← ofFn_ent hwf]
    apply isBinary_ofFn
    intro i hi j hj
    rcases realises_entry h hi hj with h | h | ⟨h, _⟩
    · exact Or.inl h
    · exact Or.inr h
    · cases h
  obtain ⟨T, rfl, hb, hcols⟩ := h
  obtain ⟨c, hc⟩ := exists_rooting hb.incr
  unfold isGraphic
  rw [Bool.and_eq_true]
  refine ⟨hbin, ?_⟩
  unfold graphicSearch
  rw [List.findSome?_isSome_iff]
  refine ⟨parentOf T c, mem_parentFns_of _ _ (parentOf_length T c) (parentOf_le T c), ?_⟩
  simp only [treeCond_of_walks hb hc hcols, if_true, Option.isSome_some]

theorem isNetwork_of_realises {m n : Nat} {M : Mat} (hwf : M.wf m n = true) (h : Realises true m n M) :
    isNetwork m n M = true := by
  have htern : isTernary M = true := by
    rw [← ofFn_ent hwf]
    apply isTernary_ofFn
    intro i hi j hj
    rcases realises_entry h hi hj with h | h | ⟨_, h⟩
    · exact Or.inl h
    · exact Or.inr (Or.inl h)
    · exact Or.inr (Or.inr h)
  obtain ⟨T, rfl, hb, hcols⟩ := h
  obtain ⟨c, hc⟩ := exists_rooting hb.incr
  unfold isNetwork
  rw [Bool.and_eq_true]
  refine ⟨htern, ?_⟩
  unfold networkSearch
  rw [List.findSome?_isSome_iff]
  refine ⟨parentOf T c, mem_parentFns_of _ _ (parentOf_length T c) (parentOf_le T c), ?_⟩
  simp only [treeCond_of_walks hb hc hcols, if_true]
  rw [List.findSome?_isSome_iff]
  refine ⟨orientOf T c, by simpa [orientOf_length] using mem_boolVecs (orientOf T c), ?_⟩
  have hall : (List.range n).all (fun j =>
      signedColumnOk (reorient (parentEdges (parentOf T c)) (orientOf T c)) T.length M j) = true := by
    rw [List.all_eq_true]
    intro j hj
    have hj : j < n := by simpa using hj
    obtain ⟨s, t, w, hw, nd, hent⟩ := hcols j hj
    exact signedColumnOk_of_walk (reorient_bridgeForest hb hc) (walk_reorient hb hc hw) nd
      (reorient_parent_length T c) hent
  change (if (List.range n).all (fun j =>
      signedColumnOk (reorient (parentEdges (parentOf T c)) (orientOf T c)) T.length M j) = true
    then some (reorient (parentEdges (parentOf T c)) (orientOf T c)) else none).isSome = true
  rw [hall]; rfl

theorem realises_of_isGraphic {m n : Nat} {M : Mat} (hwf : M.wf m n = true) (h : isGraphic m n M = true) :
    Realises false m n M := by
  obtain ⟨hbin, T, hT⟩ := (C05.isGraphic_def m n M).mp h
  obtain ⟨hlen, hb, hcols⟩ := C06TU.graphicSearch_tree hT
  refine ⟨T, hlen, hb, ?_⟩
  intro j hj
  obtain ⟨s, t, w, hw, nd, hmem⟩ := hcols j hj
  refine ⟨s, t, w, hw, nd, ?_⟩
  intro i hi
  rw [pathEntry_unsigned]
  have hiff : i ∈ w.map Prod.fst ↔ ent M i j ≠ 0 := by
    rw [hmem i, List.mem_filter, List.mem_range]
    simp [hi]
  by_cases h0 : ent M i j = 0
  · rw [if_neg (fun hm => (hiff.mp hm) h0), h0]
  · rw [if_pos (hiff.mpr h0)]
    rcases ent_binary hwf hbin hi hj with h1 | h1
    · exact absurd h1 h0
    · exact h1

theorem realises_of_isNetwork {m n : Nat} {M : Mat} (h : isNetwork m n M = true) : Realises true m n M := by
  obtain ⟨_, T, hT⟩ := (C06.isNetwork_def m n M).mp h
  obtain ⟨hlen, hb, hcols⟩ := C06TU.networkSearch_tree hT
  refine ⟨T, hlen, hb, ?_⟩
  intro j hj
  obtain ⟨s, t, w, hw, nd, hent⟩ := C06TU.signedColumnOk_walk hlen (hcols j hj)
  exact ⟨s, t, w, hw, nd, fun i hi => hent i (hlen ▸ hi)⟩

/-- **Declarative reading of the graphicness oracle.** -/
theorem isGraphic_iff_realises {m n : Nat} {M : Mat} (hwf : M.wf m n = true) :
    isGraphic m n M = true ↔ Realises false m n M :=
  ⟨realises_of_isGraphic hwf, isGraphic_of_realises hwf⟩

/-- **Declarative reading of the network oracle.** -/
theorem isNetwork_iff_realises {m n : Nat} {M : Mat} (hwf : M.wf m n = true) :
    isNetwork m n M = true ↔ Realises true m n M :=
  ⟨realises_of_isNetwork, isNetwork_of_realises hwf⟩

/-! ### entries of walks through membership -/

theorem mem_map_fst_iff {w : List (Nat × Bool)} {k : Nat} :
    k ∈ w.map Prod.fst ↔ (k, true) ∈ w ∨ (k, false) ∈ w := by
  constructor
  · intro h
    obtain ⟨⟨k', d⟩, hx, rfl⟩ := List.mem_map.mp h
    cases d
    · exact Or.inr hx
    · exact Or.inl hx
  · rintro (h | h) <;> exact List.mem_map.mpr ⟨_, h, rfl⟩

theorem pathEntry_eq_of_mem_iff {signed : Bool} {w w' : List (Nat × Bool)} (nd : (w.map Prod.fst).Nodup)
    (nd' : (w'.map Prod.fst).Nodup) {k k' : Nat} (h : ∀ d, (k', d) ∈ w' ↔ (k, d) ∈ w) :
    pathEntry signed w' k' = pathEntry signed w k := by
  cases signed
  · simp only [pathEntry_unsigned, mem_map_fst_iff, h true, h false]
  · simp only [pathEntry_signed nd', pathEntry_signed nd, h true, h false]

theorem pathEntry_zero_of_not_mem {signed : Bool} {w : List (Nat × Bool)} {k : Nat} (h : k ∉ w.map Prod.fst) :
    pathEntry signed w k = 0 := pathEntry_of_none (lookup_none_iff.mpr h)

/-! ### contracting the forest edges outside an index list -/

/-- a canonical representative of the component of `x` in the graph of the edges with index in `Q` -/
noncomputable def compRep (T : List Edge) (Q : Nat → Prop) (x : Nat) : Nat :=
  Classical.epsilon (fun y => ReachOn T Q x y)

theorem compRep_reach (T : List Edge) (Q : Nat → Prop) (x : Nat) : ReachOn T Q x (compRep T Q x) :=
  Classical.epsilon_spec (p := fun y => ReachOn T Q x y) ⟨x, ReachOn.refl x⟩

theorem compRep_eq_of_reach {T : List Edge} {Q : Nat → Prop} {x y : Nat} (h : ReachOn T Q x y) :
    compRep T Q x = compRep T Q y := by
  unfold compRep
  congr 1
  funext z
  exact propext ⟨fun hz => h.symm.trans hz, fun hz => h.trans hz⟩

theorem reach_of_compRep_eq {T : List Edge} {Q : Nat → Prop} {x y : Nat} (h : compRep T Q x = compRep T Q y) :
    ReachOn T Q x y :=
  (compRep_reach T Q x).trans (h ▸ (compRep_reach T Q y).symm)

/-- rename the ends of an edge -/
def renameE (φ : Nat → Nat) (e : Edge) : Edge := { e with u := φ e.u, v := φ e.v }

theorem renameE_tail (φ : Nat → Nat) (e : Edge) : (renameE φ e).tail = φ e.tail := by
  cases e with | mk id u v rev => cases rev <;> rfl

theorem renameE_head (φ : Nat → Nat) (e : Edge) : (renameE φ e).head = φ e.head := by
  cases e with | mk id u v rev => cases rev <;> rfl

/-- the edges with index in `rows` (in this order), ends renamed by `φ` -/
def contractT (T : List Edge) (φ : Nat → Nat) (rows : List Nat) : List Edge :=
  rows.map (fun r => renameE φ (T.getD r ⟨0, 0, 0, false⟩))

theorem contractT_length (T : List Edge) (φ : Nat → Nat) (rows : List Nat) : (contractT T φ rows).length = rows.length := by
  simp [contractT]

theorem contractT_getElem?_of {T : List Edge} {φ : Nat → Nat} {rows : List Nat} {i r : Nat} {e : Edge}
    (hr : rows[i]? = some r) (he : T[r]? = some e) : (contractT T φ rows)[i]? = some (renameE φ e) := by
  simp [contractT, List.getElem?_map, hr, List.getD_eq_getElem?_getD, he]

theorem contractT_getElem?_inv {T : List Edge} {φ : Nat → Nat} {rows : List Nat} (hlt : ∀ r ∈ rows, r < T.length)
    {i : Nat} {e' : Edge} (h : (contractT T φ rows)[i]? = some e') :
    ∃ r e, rows[i]? = some r ∧ T[r]? = some e ∧ e' = renameE φ e := by
  cases hr : rows[i]? with
  | none => simp [contractT, List.getElem?_map, hr] at h
  | some r =>
    have hrl := hlt r (List.mem_of_getElem? hr)
    have he : T[r]? = some T[r] := List.getElem?_eq_getElem hrl
    rw [contractT_getElem?_of hr he] at h
    exact ⟨r, T[r], rfl, he, (Option.some.inj h).symm⟩

/-- a path in the contracted forest lifts to a path in `T` that may also use the contracted edges -/
theorem reachOn_lift {T : List Edge} {Q : Nat → Prop} {rows : List Nat} (hlt : ∀ r ∈ rows, r < T.length)
    {P' : Nat → Prop} {x' y' : Nat} (h : ReachOn (contractT T (compRep T Q) rows) P' x' y') :
    ∀ x y, compRep T Q x = x' → compRep T Q y = y' →
      ReachOn T (fun k => Q k ∨ ∃ i, rows[i]? = some k ∧ P' i) x y := by
  induction h with
  | refl x' =>
    intro x y hx hy
    exact (reach_of_compRep_eq (hx.trans hy.symm)).mono (fun k _ hk => Or.inl hk)
  | @step k' x' m' y' hp ha _ ih =>
    intro x y hx hy
    obtain ⟨e', he', hends⟩ := ha
    obtain ⟨r, e, hr, he, rfl⟩ := contractT_getElem?_inv hlt he'
    have hQ : ∀ {a b}, compRep T Q a = compRep T Q b →
        ReachOn T (fun k => Q k ∨ ∃ i, rows[i]? = some k ∧ P' i) a b :=
      fun hab => (reach_of_compRep_eq hab).mono (fun k _ hk => Or.inl hk)
    have hstep : ∀ {a b}, Adj T r a b → ReachOn T (fun k => Q k ∨ ∃ i, rows[i]? = some k ∧ P' i) a b :=
      fun hab => ReachOn.single (Or.inr ⟨k', hr, hp⟩) hab
    simp only [renameE] at hends
    rcases hends with ⟨h1, h2⟩ | ⟨h1, h2⟩
    · exact (hQ (hx.trans h1.symm)).trans ((hstep (adj_u_v he)).trans (ih e.v y h2 hy))
    · exact (hQ (hx.trans h1.symm)).trans ((hstep (adj_u_v he).symm).trans (ih e.u y h2 hy))

theorem contractT_bridgeForest {T : List Edge} (hb : IsBridgeForest T) {rows : List Nat} (hnd : rows.Nodup)
    (hlt : ∀ r ∈ rows, r < T.length) :
    IsBridgeForest (contractT T (compRep T (fun k => k ∉ rows)) rows) := by
  intro k' e' he' hreach
  obtain ⟨r, e, hr, he, rfl⟩ := contractT_getElem?_inv hlt he'
  have h := reachOn_lift hlt hreach e.u e.v rfl rfl
  refine hb r e he (h.mono ?_)
  intro k _ hk
  rcases hk with hk | ⟨i, hi, hne⟩
  · intro hkr; subst hkr; exact hk (List.mem_of_getElem? hr)
  · intro hkr; subst hkr
    apply hne
    have h1 := List.getElem?_eq_some_iff.mp hi
    have h2 := List.getElem?_eq_some_iff.mp hr
    obtain ⟨a1, a2⟩ := h1
    obtain ⟨b1, b2⟩ := h2
    exact (hnd.getElem_inj_iff).mp (a2.trans b2.symm)

/-- image of a walk step in the contracted forest -/
def stepImg (rows : List Nat) (x : Nat × Bool) : Option (Nat × Bool) :=
  if x.1 ∈ rows then some (rows.idxOf x.1, x.2) else none

theorem walk_contract {T : List Edge} {rows : List Nat} {s t : Nat} {w : List (Nat × Bool)} (h : IsWalk T s t w) :
    IsWalk (contractT T (compRep T (fun k => k ∉ rows)) rows) (compRep T (fun k => k ∉ rows) s)
      (compRep T (fun k => k ∉ rows) t) (w.filterMap (stepImg rows)) := by
  induction h with
  | nil => exact IsWalk.nil _
  | @fwd s t k e p hk ht _ ih =>
    by_cases hmem : k ∈ rows
    · have : stepImg rows (k, true) = some (rows.idxOf k, true) := by simp [stepImg, hmem]
      rw [List.filterMap_cons_some this]
      refine IsWalk.fwd (contractT_getElem?_of (List.getElem?_idxOf hmem) hk) ?_ ?_
      · rw [renameE_tail, ht]
      · rw [renameE_head]; exact ih
    · have : stepImg rows (k, true) = none := by simp [stepImg, hmem]
      rw [List.filterMap_cons_none this]
      have hr : ReachOn T (fun k => k ∉ rows) s e.head :=
        ht ▸ ReachOn.single (P := fun k => k ∉ rows) hmem (adj_tail_head hk)
      rw [compRep_eq_of_reach hr]; exact ih
  | @bwd s t k e p hk ht _ ih =>
    by_cases hmem : k ∈ rows
    · have : stepImg rows (k, false) = some (rows.idxOf k, false) := by simp [stepImg, hmem]
      rw [List.filterMap_cons_some this]
      refine IsWalk.bwd (contractT_getElem?_of (List.getElem?_idxOf hmem) hk) ?_ ?_
      · rw [renameE_head, ht]
      · rw [renameE_tail]; exact ih
    · have : stepImg rows (k, false) = none := by simp [stepImg, hmem]
      rw [List.filterMap_cons_none this]
      have hr : ReachOn T (fun k => k ∉ rows) s e.tail :=
        ht ▸ ReachOn.single (P := fun k => k ∉ rows) hmem (adj_tail_head hk).symm
      rw [compRep_eq_of_reach hr]; exact ih

theorem mem_filterMap_stepImg {rows : List Nat} (hnd : rows.Nodup) {w : List (Nat × Bool)} {i : Nat} (hi : i < rows.length)
    (d : Bool) : (i, d) ∈ w.filterMap (stepImg rows) ↔ (rows[i], d) ∈ w := by
  rw [List.mem_filterMap]
  constructor
  · rintro ⟨⟨k, d'⟩, hx, himg⟩
    unfold stepImg at himg
    split at himg
    · rename_i hmem
      simp only [Option.some.injEq, Prod.mk.injEq] at himg
      obtain ⟨h1, rfl⟩ := himg
      subst h1
      simpa [List.getElem_idxOf] using hx
    · cases himg
  · intro hx
    refine ⟨(rows[i], d), hx, ?_⟩
    simp [stepImg, hnd.idxOf_getElem]

theorem nodup_filterMap_stepImg {rows : List Nat} {w : List (Nat × Bool)} (nd : (w.map Prod.fst).Nodup) :
    ((w.filterMap (stepImg rows)).map Prod.fst).Nodup := by
  have : (w.filterMap (stepImg rows)).map Prod.fst =
      (w.map Prod.fst).filterMap (fun k => if k ∈ rows then some (rows.idxOf k) else none) := by
    rw [List.map_filterMap, List.filterMap_map]
    congr 1
    funext x
    simp only [stepImg, Function.comp]
    split <;> rfl
  rw [this]
  refine List.Nodup.filterMap ?_ nd
  intro a a' b ha ha'
  simp only [Option.mem_def] at ha ha'
  split at ha <;> split at ha'
  · rename_i h1 h2
    simp only [Option.some.injEq] at ha ha'
    exact (List.idxOf_inj h1).mp (ha.trans ha'.symm)
  all_goals simp at ha ha'

/-! ### closure of `Realises` -/

/-- `Realises` reads `M` only through its entries -/
theorem realises_congr {signed : Bool} {m n : Nat} {M M' : Mat}
    (hent : ∀ i, i < m → ∀ j, j < n → ent M' i j = ent M i j) (h : Realises signed m n M) : Realises signed m n M' := by
  obtain ⟨T, hlen, hb, hcols⟩ := h
  refine ⟨T, hlen, hb, ?_⟩
  intro j hj
  obtain ⟨s, t, w, hw, nd, he⟩ := hcols j hj
  exact ⟨s, t, w, hw, nd, fun i hi => (hent i hi j hj).trans (he i hi)⟩

/-- **Minors**: contracting the forest edges outside `rows` (and reordering the rest), keeping the non-forest edges
`cols` (any order, repetitions allowed). -/
theorem realises_sub {signed : Bool} {m n : Nat} {M : Mat} (h : Realises signed m n M) {rows cols : List Nat}
    (hnd : rows.Nodup) (hr : ∀ x ∈ rows, x < m) (hc : ∀ x ∈ cols, x < n) :
    Realises signed rows.length cols.length (sub M rows cols) := by
  obtain ⟨T, rfl, hb, hcols⟩ := h
  refine ⟨contractT T (compRep T (fun k => k ∉ rows)) rows, contractT_length _ _ _,
    contractT_bridgeForest hb hnd hr, ?_⟩
  intro j' hj'
  obtain ⟨s, t, w, hw, nd, hent⟩ := hcols cols[j'] (hc _ (List.getElem_mem hj'))
  refine ⟨_, _, _, walk_contract hw, nodup_filterMap_stepImg nd, ?_⟩
  intro i hi
  rw [ent_sub M rows cols hi hj', hent _ (hr _ (List.getElem_mem hi))]
  exact (pathEntry_eq_of_mem_iff nd (nodup_filterMap_stepImg nd) (fun d => mem_filterMap_stepImg hnd hi d)).symm

/-- adding a non-forest edge -/
theorem realises_insertCol {signed : Bool} {m n pos : Nat} {M : Mat} (hwf : M.wf m n = true) (hp : pos ≤ n)
    (col : Nat → Int) (h : Realises signed m n M)
    (hcol : ∀ T, T.length = m → IsBridgeForest T → (∀ j, j < n → ColWalk signed T m M j) →
      ∃ s t w, IsWalk T s t w ∧ (w.map Prod.fst).Nodup ∧ ∀ i, i < m → col i = pathEntry signed w i) :
    Realises signed m (n + 1) (insertCol M pos col) := by
  obtain ⟨T, hlen, hb, hcols⟩ := h
  refine ⟨T, hlen, hb, ?_⟩
  intro j hj
  by_cases h1 : j < pos
  · obtain ⟨s, t, w, hw, nd, hent⟩ := hcols j (by omega)
    exact ⟨s, t, w, hw, nd, fun i hi => by rw [ent_insertCol col hwf hp hi, if_pos h1]; exact hent i hi⟩
  · by_cases h2 : j = pos
    · obtain ⟨s, t, w, hw, nd, hent⟩ := hcol T hlen hb hcols
      exact ⟨s, t, w, hw, nd, fun i hi => by rw [ent_insertCol col hwf hp hi, if_neg h1, if_pos h2]; exact hent i hi⟩
    · obtain ⟨s, t, w, hw, nd, hent⟩ := hcols (j - 1) (by omega)
      exact ⟨s, t, w, hw, nd, fun i hi => by
        rw [ent_insertCol col hwf hp hi, if_neg h1, if_neg h2]; exact hent i hi⟩

theorem pathEntry_single (signed : Bool) (i0 : Nat) (d : Bool) (k : Nat) :
    pathEntry signed [(i0, d)] k = if k = i0 then (if signed then (if d then 1 else -1) else 1) else 0 := by
  by_cases h : k = i0
  · subst h; simp [pathEntry, List.lookup]
  · have : (k == i0) = false := by simpa using h
    simp [pathEntry, List.lookup, this, h]

/-- the column inserted by an applicable column-insertion step is realised by a walk: the empty walk (`ZC`), the single
forest edge `i` (`UC`), the walk of column `j` or its reverse (`DC`).  Sign `-1` needs the signed reading. -/
theorem realises_colIns {signed : Bool} {m n : Nat} {M : Mat} (hwf : M.wf m n = true) {s : Step} {pos : Nat}
    (hs : s.colInsOk m n pos) (h1 : signed = true ∨ s.unitSign = true) (h : Realises signed m n M) :
    Realises signed m (n + 1) (insertCol M pos (s.newCol M)) := by
  cases s with
  | ZC p =>
    obtain ⟨_, hp⟩ := hs
    refine realises_insertCol hwf hp _ h (fun T _ _ _ => ⟨0, 0, [], IsWalk.nil 0, by simp, fun i _ => ?_⟩)
    simp [Step.newCol, pathEntry]
  | UC p i0 sg =>
    obtain ⟨_, hp, hi0, hsg⟩ := hs
    refine realises_insertCol hwf hp _ h (fun T hlen _ _ => ?_)
    have hi0' : i0 < T.length := by omega
    have he : T[i0]? = some T[i0] := List.getElem?_eq_getElem hi0'
    by_cases h1' : sg = 1
    · refine ⟨_, _, [(i0, true)], IsWalk.fwd he rfl (IsWalk.nil _), by simp, fun i _ => ?_⟩
      rw [pathEntry_single]
      cases signed <;> simp [Step.newCol, h1']
    · have hm1 : sg = -1 := by omega
      have hsig : signed = true := by
        rcases h1 with h | h
        · exact h
        · simp [Step.unitSign] at h; exact absurd h h1'
      refine ⟨_, _, [(i0, false)], IsWalk.bwd he rfl (IsWalk.nil _), by simp, fun i _ => ?_⟩
      rw [pathEntry_single]
      simp [Step.newCol, hm1, hsig]
  | DC p j0 sg =>
    obtain ⟨_, hp, hj0, hsg⟩ := hs
    refine realises_insertCol hwf hp _ h (fun T hlen _ hcols => ?_)
    obtain ⟨a, b, w, hw, nd, hent⟩ := hcols j0 hj0
    by_cases h1' : sg = 1
    · exact ⟨a, b, w, hw, nd, fun i hi => by simp [Step.newCol, h1', hent i hi]⟩
    · have hm1 : sg = -1 := by omega
      have hsig : signed = true := by
        rcases h1 with h | h
        · exact h
        · simp [Step.unitSign] at h; exact absurd h h1'
      subst hsig
      refine ⟨b, a, revWalk w, hw.reverse, revWalk_nodup nd, fun i hi => ?_⟩
      rw [C06TU.pathEntry_revWalk nd, ← hent i hi]
      simp [Step.newCol, hm1]
  | _ => exact hs.elim

/-! ### inserting a forest edge -/

def shiftIdx (pos k : Nat) : Nat := if k < pos then k else k + 1

def shiftW (pos : Nat) (w : List (Nat × Bool)) : List (Nat × Bool) := w.map (fun x => (shiftIdx pos x.1, x.2))

theorem shiftIdx_ne (pos k : Nat) : shiftIdx pos k ≠ pos := by unfold shiftIdx; split <;> omega

theorem shiftIdx_inj {pos a b : Nat} (h : shiftIdx pos a = shiftIdx pos b) : a = b := by
  unfold shiftIdx at h; split at h <;> split at h <;> omega

theorem shiftIdx_unskip {pos i : Nat} (h : i ≠ pos) : shiftIdx pos (unskip pos i) = i := by
  unfold shiftIdx unskip
  by_cases h1 : i < pos
  · simp [h1]
  · have h2 : ¬ (i - 1 < pos) := by omega
    simp only [h1, h2, if_false]; omega

theorem unskip_shiftIdx (pos k : Nat) : unskip pos (shiftIdx pos k) = k := by
  unfold shiftIdx unskip
  by_cases h1 : k < pos
  · simp [h1]
  · have h2 : ¬ (k + 1 < pos) := by omega
    simp only [h1, h2, if_false]; omega

theorem getElem?_insertAt_shift {T : List Edge} {pos : Nat} (hp : pos ≤ T.length) (e : Edge) (k : Nat) :
    (insertAt T pos e)[shiftIdx pos k]? = T[k]? := by
  rw [getElem?_insertAt T e hp]
  unfold shiftIdx
  by_cases h : k < pos
  · simp [h]
  · simp only [h, if_false, show ¬ (k + 1 < pos) by omega, show ¬ (k + 1 = pos) by omega, Nat.add_sub_cancel]

theorem getElem?_insertAt_pos {T : List Edge} {pos : Nat} (hp : pos ≤ T.length) (e : Edge) :
    (insertAt T pos e)[pos]? = some e := by
  rw [getElem?_insertAt T e hp]; simp

theorem walk_insertAt {T : List Edge} {pos : Nat} (hp : pos ≤ T.length) (e : Edge) {s t : Nat} {w : List (Nat × Bool)}
    (h : IsWalk T s t w) : IsWalk (insertAt T pos e) s t (shiftW pos w) := by
  induction h with
  | nil => exact IsWalk.nil _
  | fwd hk ht _ ih => exact IsWalk.fwd ((getElem?_insertAt_shift hp e _).trans hk) ht ih
  | bwd hk ht _ ih => exact IsWalk.bwd ((getElem?_insertAt_shift hp e _).trans hk) ht ih

theorem mem_shiftW {pos : Nat} {w : List (Nat × Bool)} {i : Nat} (hi : i ≠ pos) (d : Bool) :
    (i, d) ∈ shiftW pos w ↔ (unskip pos i, d) ∈ w := by
  unfold shiftW
  rw [List.mem_map]
  constructor
  · rintro ⟨⟨k, d'⟩, hx, heq⟩
    simp only [Prod.mk.injEq] at heq
    obtain ⟨h1, rfl⟩ := heq
    have : unskip pos i = k := by
      rw [← h1]; exact unskip_shiftIdx pos k
    rw [this]; exact hx
  · intro hx
    exact ⟨_, hx, by simp [shiftIdx_unskip hi]⟩

theorem pos_not_mem_shiftW (pos : Nat) (w : List (Nat × Bool)) : pos ∉ (shiftW pos w).map Prod.fst := by
  intro h
  simp only [shiftW, List.map_map, List.mem_map, Function.comp] at h
  obtain ⟨x, _, hx⟩ := h
  exact shiftIdx_ne pos x.1 hx

theorem nodup_shiftW {pos : Nat} {w : List (Nat × Bool)} (nd : (w.map Prod.fst).Nodup) :
    ((shiftW pos w).map Prod.fst).Nodup := by
  have : (shiftW pos w).map Prod.fst = (w.map Prod.fst).map (shiftIdx pos) := by
    simp [shiftW, List.map_map, Function.comp]
  rw [this]
  exact List.Nodup.map (fun a b => shiftIdx_inj) nd

/-- old rows of a shifted walk -/
theorem pathEntry_shiftW {signed : Bool} {pos : Nat} {w : List (Nat × Bool)} (nd : (w.map Prod.fst).Nodup) {i : Nat}
    (hi : i ≠ pos) : pathEntry signed (shiftW pos w) i = pathEntry signed w (unskip pos i) :=
  pathEntry_eq_of_mem_iff nd (nodup_shiftW nd) (fun d => mem_shiftW hi d)

/-- projecting paths along a contraction `ψ` of `T'` onto `T` -/
theorem reachOn_project {T T' : List Edge} (ψ : Nat → Nat) (g : Nat → Option Nat)
    (hproj : ∀ k' x y, Adj T' k' x y → (∃ k, g k' = some k ∧ Adj T k (ψ x) (ψ y)) ∨ (g k' = none ∧ ψ x = ψ y))
    {P' : Nat → Prop} {x y : Nat} (h : ReachOn T' P' x y) :
    ReachOn T (fun k => ∃ k', g k' = some k ∧ P' k') (ψ x) (ψ y) := by
  induction h with
  | refl => exact ReachOn.refl _
  | @step k' x y z hp ha _ ih =>
    rcases hproj k' x y ha with ⟨k, hg, hadj⟩ | ⟨_, heq⟩
    · exact ReachOn.step ⟨k', hg, hp⟩ hadj ih
    · rw [heq]; exact ih

theorem bridge_of_project {T T' : List Edge} (ψ : Nat → Nat) (g : Nat → Option Nat)
    (hproj : ∀ k' x y, Adj T' k' x y → (∃ k, g k' = some k ∧ Adj T k (ψ x) (ψ y)) ∨ (g k' = none ∧ ψ x = ψ y))
    (hinj : ∀ k1 k2 k, g k1 = some k → g k2 = some k → k1 = k2) (hb : IsBridgeForest T)
    {k' : Nat} {e' : Edge} (he' : T'[k']? = some e') (hk : (g k').isSome = true) :
    ¬ ReachOn T' (fun j => j ≠ k') e'.u e'.v := by
  intro hreach
  have h1 := reachOn_project ψ g hproj hreach
  rcases hproj k' _ _ (adj_u_v he') with ⟨k2, hg2, e, he, hends⟩ | ⟨hg2, _⟩
  · have h2 : ReachOn T (fun j => j ≠ k2) (ψ e'.u) (ψ e'.v) := by
      refine h1.mono ?_
      rintro j _ ⟨k'', hg'', hne⟩ hj
      exact hne (hinj k'' k' k2 (hj ▸ hg'') hg2)
    rcases hends with ⟨a, b⟩ | ⟨a, b⟩
    · rw [← a, ← b] at h2; exact hb k2 e he h2
    · rw [← a, ← b] at h2; exact hb k2 e he h2.symm
  · rw [hg2] at hk; cases hk

/-- index of `T` behind index `k'` of `insertAt T pos e` -/
def unshiftO (pos k' : Nat) : Option Nat := if k' < pos then some k' else if k' = pos then none else some (k' - 1)

theorem unshiftO_inj {pos k1 k2 k : Nat} (h1 : unshiftO pos k1 = some k) (h2 : unshiftO pos k2 = some k) : k1 = k2 := by
  unfold unshiftO at h1 h2
  split at h1 <;> split at h2 <;> (try split at h1) <;> (try split at h2) <;> simp at h1 h2 <;> omega

theorem adj_insertAt {T : List Edge} {pos : Nat} (hp : pos ≤ T.length) {e : Edge} {k' x y : Nat}
    (h : Adj (insertAt T pos e) k' x y) :
    (∃ k, unshiftO pos k' = some k ∧ Adj T k x y) ∨
      (k' = pos ∧ ((e.u = x ∧ e.v = y) ∨ (e.v = x ∧ e.u = y))) := by
  obtain ⟨e', he', hends⟩ := h
  rw [getElem?_insertAt T e hp] at he'
  unfold unshiftO
  by_cases h1 : k' < pos
  · simp only [h1, if_true] at he' ⊢
    exact Or.inl ⟨k', rfl, e', he', hends⟩
  · by_cases h2 : k' = pos
    · subst h2
      simp only [Nat.lt_irrefl, if_false, if_true, Option.some.injEq] at he'
      subst he'
      exact Or.inr ⟨rfl, hends⟩
    · simp only [h1, h2, if_false] at he' ⊢
      exact Or.inl ⟨k' - 1, rfl, e', he', hends⟩

theorem adj_mem {T : List Edge} {k x y : Nat} (h : Adj T k x y) : ∃ e ∈ T, (e.u = y ∨ e.v = y) := by
  obtain ⟨e, he, hends⟩ := h
  refine ⟨e, List.mem_of_getElem? he, ?_⟩
  rcases hends with ⟨_, h⟩ | ⟨_, h⟩
  · exact Or.inr h
  · exact Or.inl h

/-- no path enters a node that is not incident with an allowed edge -/
theorem reachOn_isolated {T : List Edge} {P : Nat → Prop} {z : Nat} (hz : ∀ k x y, P k → Adj T k x y → y ≠ z)
    {x y : Nat} (h : ReachOn T P x y) : y = z → x = z := by
  induction h with
  | refl => exact id
  | @step k x y w hp ha _ ih =>
    intro hw
    exact absurd (ih hw) (hz k x y hp ha)

/-- adding a pendant edge `b – z` (`z` a new node) to a bridge forest -/
theorem insertAt_pendant_bridgeForest {T : List Edge} (hb : IsBridgeForest T) {pos : Nat} (hp : pos ≤ T.length)
    {e : Edge} {z b : Nat} (hends : (e.u = b ∧ e.v = z) ∨ (e.u = z ∧ e.v = b)) (hzb : z ≠ b)
    (hfresh : ∀ e' ∈ T, e'.u ≠ z ∧ e'.v ≠ z) : IsBridgeForest (insertAt T pos e) := by
  intro k' e' he' hreach
  by_cases hk : k' = pos
  · subst hk
    rw [getElem?_insertAt_pos hp] at he'
    cases he'
    have hz : ∀ k x y, k ≠ k' → Adj (insertAt T k' e) k x y → y ≠ z := by
      intro k x y hk ha
      rcases adj_insertAt hp ha with ⟨k2, _, hadj⟩ | ⟨h, _⟩
      · obtain ⟨e2, he2, hy⟩ := adj_mem hadj
        rcases hy with hy | hy
        · exact hy ▸ (hfresh e2 he2).1
        · exact hy ▸ (hfresh e2 he2).2
      · exact absurd h hk
    rcases hends with ⟨h1, h2⟩ | ⟨h1, h2⟩
    · rw [h1, h2] at hreach
      exact hzb (reachOn_isolated hz hreach rfl).symm
    · rw [h1, h2] at hreach
      exact hzb (reachOn_isolated hz hreach.symm rfl).symm
  · refine bridge_of_project (T := T) (fun x => if x = z then b else x) (unshiftO pos) ?_
      (fun k1 k2 k => unshiftO_inj) hb he' ?_ hreach
    · intro k'' x y ha
      rcases adj_insertAt hp ha with ⟨k2, hk2, hadj⟩ | ⟨h, hxy⟩
      · left
        refine ⟨k2, hk2, ?_⟩
        obtain ⟨e2, he2, hy⟩ := adj_mem hadj
        obtain ⟨e3, he3, hx⟩ := adj_mem hadj.symm
        have hy' : y ≠ z := by
          rcases hy with hy | hy
          · exact hy ▸ (hfresh e2 he2).1
          · exact hy ▸ (hfresh e2 he2).2
        have hx' : x ≠ z := by
          rcases hx with hx | hx
          · exact hx ▸ (hfresh e3 he3).1
          · exact hx ▸ (hfresh e3 he3).2
        simpa [hx', hy'] using hadj
      · right
        subst h
        refine ⟨by simp [unshiftO], ?_⟩
        rcases hends with ⟨h1, h2⟩ | ⟨h1, h2⟩ <;> rcases hxy with ⟨a, c⟩ | ⟨a, c⟩ <;>
          simp [← a, ← c, h1, h2, hzb.symm]
    · unfold unshiftO
      by_cases h1 : k' < pos
      · simp [h1]
      · simp [h1, hk]

theorem ent_insertRow_unskip (M : Mat) {pos : Nat} (row : List Int) (hp : pos ≤ M.length) {i : Nat} (hi : i ≠ pos)
    (j : Nat) : ent (insertRow M pos row) i j = ent M (unskip pos i) j := by
  rw [ent_insertRow M row hp]
  unfold unskip
  by_cases h1 : i < pos
  · simp [h1]
  · simp [h1, hi]

theorem ent_insertRow_pos (M : Mat) {pos : Nat} (row : List Int) (hp : pos ≤ M.length) (j : Nat) :
    ent (insertRow M pos row) pos j = row.getD j 0 := by
  rw [ent_insertRow M row hp]; simp

theorem unskip_lt {pos m i : Nat} (hp : pos ≤ m) (hi : i < m + 1) (hne : i ≠ pos) : unskip pos i < m := by
  unfold unskip; split <;> omega

theorem nodup_snoc {w : List (Nat × Bool)} (nd : (w.map Prod.fst).Nodup) {pos : Nat} (hn : pos ∉ w.map Prod.fst)
    (d : Bool) : ((w ++ [(pos, d)]).map Prod.fst).Nodup := by
  rw [List.map_append, List.nodup_append]
  refine ⟨nd, by simp, ?_⟩
  intro a ha b hb
  simp only [List.map_cons, List.map_nil, List.mem_singleton] at hb
  subst hb
  exact fun h => hn (h ▸ ha)

theorem pathEntry_snoc_new {signed : Bool} {w : List (Nat × Bool)} (nd : (w.map Prod.fst).Nodup) {pos : Nat}
    (hn : pos ∉ w.map Prod.fst) (d : Bool) :
    pathEntry signed (w ++ [(pos, d)]) pos = if signed then (if d then 1 else -1) else 1 := by
  have h := pathEntry_eq_of_mem_iff (signed := signed) (w := [(pos, d)]) (w' := w ++ [(pos, d)]) (k := pos) (k' := pos)
    (by simp) (nodup_snoc nd hn d) (by
      intro d'
      simp only [List.mem_append, List.mem_singleton]
      constructor
      · rintro (h | h)
        · exact absurd (List.mem_map.mpr ⟨_, h, rfl⟩) hn
        · exact h
      · exact Or.inr)
  rw [h, pathEntry_single]; simp

theorem pathEntry_snoc_old {signed : Bool} {w : List (Nat × Bool)} (nd : (w.map Prod.fst).Nodup) {pos : Nat}
    (hn : pos ∉ w.map Prod.fst) (d : Bool) {i : Nat} (hi : i ≠ pos) :
    pathEntry signed (w ++ [(pos, d)]) i = pathEntry signed w i := by
  refine pathEntry_eq_of_mem_iff nd (nodup_snoc nd hn d) ?_
  intro d'
  simp only [List.mem_append, List.mem_singleton, Prod.mk.injEq]
  constructor
  · rintro (h | ⟨h, _⟩)
    · exact h
    · exact absurd h hi
  · exact Or.inl

/-- **Adding a forest edge in series with the non-forest edge `j0`** (a new row `sg · e_{j0}`); for `j0 ≥ n` the new
edge is a coloop (zero row). -/
theorem realises_insertRow_unit {signed : Bool} {m n pos : Nat} {M : Mat} (hwf : M.wf m n = true) (hp : pos ≤ m)
    (row : List Int) (j0 : Nat) (sg : Int) (hsg : sg = 1 ∨ (sg = -1 ∧ signed = true))
    (hrow : ∀ j, j < n → row.getD j 0 = if j = j0 then sg else 0) (h : Realises signed m n M) :
    Realises signed (m + 1) n (insertRow M pos row) := by
  obtain ⟨T, hlen, hb, hcols⟩ := h
  have hML : pos ≤ M.length := by rw [length_of_wf hwf]; exact hp
  have hpT : pos ≤ T.length := by omega
  have hcol0 : ∃ a b w, IsWalk T a b w ∧ (w.map Prod.fst).Nodup ∧
      (j0 < n → ∀ i, i < m → ent M i j0 = pathEntry signed w i) := by
    by_cases hj0 : j0 < n
    · obtain ⟨a, b, w, hw, nd, hent⟩ := hcols j0 hj0
      exact ⟨a, b, w, hw, nd, fun _ => hent⟩
    · exact ⟨0, 0, [], IsWalk.nil 0, by simp, fun h => absurd h hj0⟩
  obtain ⟨a0, b0, w0, hw0, nd0, hent0⟩ := hcol0
  obtain ⟨K, hK⟩ := exists_node_bound T
  let z := K + b0 + 1
  let e : Edge := if sg = 1 then ⟨0, b0, z, false⟩ else ⟨0, z, b0, false⟩
  have hends : (e.u = b0 ∧ e.v = z) ∨ (e.u = z ∧ e.v = b0) := by
    by_cases h1 : sg = 1
    · left; simp [e, h1]
    · right; simp [e, h1]
  have hfresh : ∀ e' ∈ T, e'.u ≠ z ∧ e'.v ≠ z := by
    intro e' he'
    have := hK e' he'
    simp only [z]
    omega
  refine ⟨insertAt T pos e, by rw [length_insertAt, hlen], insertAt_pendant_bridgeForest hb hpT hends
    (by simp only [z]; omega) hfresh, ?_⟩
  intro j hj
  by_cases hjj : j = j0
  · subst hjj
    have hlast : IsWalk (insertAt T pos e) b0 z [(pos, decide (sg = 1))] := by
      by_cases h1 : sg = 1
      · have he : e = ⟨0, b0, z, false⟩ := by simp [e, h1]
        simp only [h1, decide_true]
        exact IsWalk.fwd (e := e) (getElem?_insertAt_pos hpT e) (by rw [he]; rfl) (by rw [he]; exact IsWalk.nil _)
      · have he : e = ⟨0, z, b0, false⟩ := by simp [e, h1]
        simp only [h1, decide_false]
        exact IsWalk.bwd (e := e) (getElem?_insertAt_pos hpT e) (by rw [he]; rfl) (by rw [he]; exact IsWalk.nil _)
    have hn := pos_not_mem_shiftW pos w0
    have nd' := nodup_shiftW (pos := pos) nd0
    refine ⟨a0, z, shiftW pos w0 ++ [(pos, decide (sg = 1))], (walk_insertAt hpT e hw0).append hlast,
      nodup_snoc nd' hn _, ?_⟩
    intro i hi
    by_cases hip : i = pos
    · subst hip
      rw [ent_insertRow_pos M row hML, hrow j hj, if_pos rfl, pathEntry_snoc_new nd' hn]
      rcases hsg with h1 | ⟨h1, h2⟩
      · cases signed <;> simp [h1]
      · simp [h1, h2]
    · rw [ent_insertRow_unskip M row hML hip, pathEntry_snoc_old nd' hn _ hip, pathEntry_shiftW nd0 hip]
      exact hent0 hj _ (unskip_lt hp hi hip)
  · obtain ⟨a, b, w, hw, nd, hent⟩ := hcols j hj
    refine ⟨a, b, shiftW pos w, walk_insertAt hpT e hw, nodup_shiftW nd, ?_⟩
    intro i hi
    by_cases hip : i = pos
    · subst hip
      rw [ent_insertRow_pos M row hML, hrow j hj, if_neg hjj,
        pathEntry_zero_of_not_mem (pos_not_mem_shiftW i w)]
    · rw [ent_insertRow_unskip M row hML hip, pathEntry_shiftW nd hip]
      exact hent _ (unskip_lt hp hi hip)

/-! ### reversing arcs (signed reading) -/

/-- reversing the non-forest arc `j0` negates column `j0` -/
theorem realises_negCol {m n : Nat} {M M' : Mat} (j0 : Nat)
    (hent : ∀ i, i < m → ∀ j, j < n → ent M' i j = if j = j0 then - ent M i j else ent M i j)
    (h : Realises true m n M) : Realises true m n M' := by
  obtain ⟨T, hlen, hb, hcols⟩ := h
  refine ⟨T, hlen, hb, ?_⟩
  intro j hj
  obtain ⟨a, b, w, hw, nd, he⟩ := hcols j hj
  by_cases hjj : j = j0
  · refine ⟨b, a, revWalk w, hw.reverse, revWalk_nodup nd, fun i hi => ?_⟩
    rw [hent i hi j hj, if_pos hjj, he i hi, C06TU.pathEntry_revWalk nd]
  · exact ⟨a, b, w, hw, nd, fun i hi => by rw [hent i hi j hj, if_neg hjj, he i hi]⟩

def flipE (e : Edge) : Edge := { e with rev := !e.rev }

theorem flipE_tail (e : Edge) : (flipE e).tail = e.head := by
  cases e with | mk id u v rev => cases rev <;> rfl

theorem flipE_head (e : Edge) : (flipE e).head = e.tail := by
  cases e with | mk id u v rev => cases rev <;> rfl

/-- reverse the forest arc `i0` -/
def flipAt (T : List Edge) (i0 : Nat) : List Edge := T.mapIdx (fun k e => if k = i0 then flipE e else e)

def flipW (i0 : Nat) (w : List (Nat × Bool)) : List (Nat × Bool) := w.map (fun x => (x.1, if x.1 = i0 then !x.2 else x.2))

theorem flipAt_getElem? (T : List Edge) (i0 k : Nat) :
    (flipAt T i0)[k]? = (T[k]?).map (fun e => if k = i0 then flipE e else e) := by
  simp [flipAt, List.getElem?_mapIdx]

theorem flipAt_bridgeForest {T : List Edge} (hb : IsBridgeForest T) (i0 : Nat) : IsBridgeForest (flipAt T i0) := by
  refine IsBridgeForest.of_same_ends ?_ hb
  intro k e2 he2
  rw [flipAt_getElem?] at he2
  cases he : T[k]? with
  | none => simp [he] at he2
  | some e1 =>
    simp only [he, Option.map_some, Option.some.injEq] at he2
    refine ⟨e1, rfl, ?_⟩
    subst he2
    split <;> simp [flipE]

theorem walk_flipAt {T : List Edge} (i0 : Nat) {s t : Nat} {w : List (Nat × Bool)} (h : IsWalk T s t w) :
    IsWalk (flipAt T i0) s t (flipW i0 w) := by
  induction h with
  | nil => exact IsWalk.nil _
  | @fwd s t k e p hk ht _ ih =>
    by_cases hki : k = i0
    · have h1 : (flipAt T i0)[k]? = some (flipE e) := by rw [flipAt_getElem?, hk]; simp [hki]
      have : flipW i0 ((k, true) :: p) = (k, false) :: flipW i0 p := by simp [flipW, hki]
      rw [this]
      exact IsWalk.bwd h1 (by rw [flipE_head, ht]) (by rw [flipE_tail]; exact ih)
    · have h1 : (flipAt T i0)[k]? = some e := by rw [flipAt_getElem?, hk]; simp [hki]
      have : flipW i0 ((k, true) :: p) = (k, true) :: flipW i0 p := by simp [flipW, hki]
      rw [this]
      exact IsWalk.fwd h1 ht ih
  | @bwd s t k e p hk ht _ ih =>
    by_cases hki : k = i0
    · have h1 : (flipAt T i0)[k]? = some (flipE e) := by rw [flipAt_getElem?, hk]; simp [hki]
      have : flipW i0 ((k, false) :: p) = (k, true) :: flipW i0 p := by simp [flipW, hki]
      rw [this]
      exact IsWalk.fwd h1 (by rw [flipE_tail, ht]) (by rw [flipE_head]; exact ih)
    · have h1 : (flipAt T i0)[k]? = some e := by rw [flipAt_getElem?, hk]; simp [hki]
      have : flipW i0 ((k, false) :: p) = (k, false) :: flipW i0 p := by simp [flipW, hki]
      rw [this]
      exact IsWalk.bwd h1 ht ih

theorem flipW_map_fst (i0 : Nat) (w : List (Nat × Bool)) : (flipW i0 w).map Prod.fst = w.map Prod.fst := by
  simp [flipW, List.map_map, Function.comp]

theorem mem_flipW {i0 : Nat} {w : List (Nat × Bool)} {k : Nat} {d : Bool} :
    (k, d) ∈ flipW i0 w ↔ (k, if k = i0 then !d else d) ∈ w := by
  unfold flipW
  rw [List.mem_map]
  constructor
  · rintro ⟨⟨k', d'⟩, hx, heq⟩
    simp only [Prod.mk.injEq] at heq
    obtain ⟨rfl, rfl⟩ := heq
    by_cases h : k' = i0 <;> simpa [h] using hx
  · intro hx
    refine ⟨_, hx, ?_⟩
    by_cases h : k = i0 <;> simp [h]

theorem pathEntry_flipW {i0 : Nat} {w : List (Nat × Bool)} (nd : (w.map Prod.fst).Nodup) (k : Nat) :
    pathEntry true (flipW i0 w) k = if k = i0 then - pathEntry true w k else pathEntry true w k := by
  have nd' : ((flipW i0 w).map Prod.fst).Nodup := by rw [flipW_map_fst]; exact nd
  by_cases h : k = i0
  · rw [if_pos h, pathEntry_signed nd', pathEntry_signed nd]
    simp only [mem_flipW, h, if_true, Bool.not_true, Bool.not_false]
    by_cases h1 : (i0, true) ∈ w <;> by_cases h2 : (i0, false) ∈ w
    · exact (not_both_dirs nd h1 h2).elim
    · simp [h1, h2]
    · simp [h1, h2]
    · simp [h1, h2]
  · rw [if_neg h]
    exact pathEntry_eq_of_mem_iff nd nd' (fun d => by rw [mem_flipW, if_neg h])

/-- reversing the forest arc `i0` negates row `i0` -/
theorem realises_negRow {m n : Nat} {M M' : Mat} (i0 : Nat)
    (hent : ∀ i, i < m → ∀ j, j < n → ent M' i j = if i = i0 then - ent M i j else ent M i j)
    (h : Realises true m n M) : Realises true m n M' := by
  obtain ⟨T, hlen, hb, hcols⟩ := h
  refine ⟨flipAt T i0, by simp [flipAt, hlen], flipAt_bridgeForest hb i0, ?_⟩
  intro j hj
  obtain ⟨a, b, w, hw, nd, he⟩ := hcols j hj
  refine ⟨a, b, flipW i0 w, walk_flipAt i0 hw, by rw [flipW_map_fst]; exact nd, fun i hi => ?_⟩
  rw [hent i hi j hj, pathEntry_flipW nd, he i hi]

/-! ### subdividing a forest edge (a series copy of a row) -/

/-- replace edge `i0` by `e1` and insert `e2` before position `pos` -/
def subdivT (T : List Edge) (i0 pos : Nat) (e1 e2 : Edge) : List Edge := insertAt (T.set i0 e1) pos e2

/-- image of a walk step: the step over `i0` becomes two steps (`p`: the new edge is traversed in the same direction) -/
def subStep (i0 pos : Nat) (p : Bool) (x : Nat × Bool) : List (Nat × Bool) :=
  if x.1 = i0 then (if x.2 then [(shiftIdx pos i0, true), (pos, p)] else [(pos, !p), (shiftIdx pos i0, false)])
  else [(shiftIdx pos x.1, x.2)]

theorem subdivT_getElem?_shift {T : List Edge} {i0 pos : Nat} (hp : pos ≤ T.length) (e1 e2 : Edge) {k : Nat}
    (hk : k ≠ i0) : (subdivT T i0 pos e1 e2)[shiftIdx pos k]? = T[k]? := by
  unfold subdivT
  rw [getElem?_insertAt_shift (by rw [List.length_set]; exact hp), List.getElem?_set_ne (Ne.symm hk)]

theorem subdivT_getElem?_i0 {T : List Edge} {i0 pos : Nat} (hi0 : i0 < T.length) (hp : pos ≤ T.length) (e1 e2 : Edge) :
    (subdivT T i0 pos e1 e2)[shiftIdx pos i0]? = some e1 := by
  unfold subdivT
  rw [getElem?_insertAt_shift (by rw [List.length_set]; exact hp), List.getElem?_set_self hi0]

theorem subdivT_getElem?_pos {T : List Edge} {i0 pos : Nat} (hp : pos ≤ T.length) (e1 e2 : Edge) :
    (subdivT T i0 pos e1 e2)[pos]? = some e2 := by
  unfold subdivT
  exact getElem?_insertAt_pos (by rw [List.length_set]; exact hp) e2

theorem walk_subdiv {T : List Edge} {i0 pos : Nat} (hi0 : i0 < T.length) (hp : pos ≤ T.length) {e0 e1 e2 : Edge}
    (he0 : T[i0]? = some e0) {z : Nat} {p : Bool} (h1t : e1.tail = e0.tail) (h1h : e1.head = z)
    (h2 : if p then e2.tail = z ∧ e2.head = e0.head else e2.tail = e0.head ∧ e2.head = z)
    {s t : Nat} {w : List (Nat × Bool)} (h : IsWalk T s t w) :
    IsWalk (subdivT T i0 pos e1 e2) s t (w.flatMap (subStep i0 pos p)) := by
  have g1 := subdivT_getElem?_i0 hi0 hp e1 e2
  have g2 := subdivT_getElem?_pos (i0 := i0) hp e1 e2
  induction h with
  | nil => exact IsWalk.nil _
  | @fwd s t k e q hk ht _ ih =>
    rw [List.flatMap_cons]
    by_cases hki : k = i0
    · subst hki
      rw [he0] at hk; cases hk
      have : subStep k pos p (k, true) = [(shiftIdx pos k, true), (pos, p)] := by simp [subStep]
      rw [this]
      refine IsWalk.fwd g1 (h1t.trans ht) ?_
      rw [h1h]
      cases p
      · simp only [Bool.false_eq_true, if_false] at h2
        exact IsWalk.bwd g2 h2.2 (by rw [h2.1]; exact ih)
      · simp only [if_true] at h2
        exact IsWalk.fwd g2 h2.1 (by rw [h2.2]; exact ih)
    · have : subStep i0 pos p (k, true) = [(shiftIdx pos k, true)] := by simp [subStep, hki]
      rw [this]
      exact IsWalk.fwd ((subdivT_getElem?_shift hp e1 e2 hki).trans hk) ht ih
  | @bwd s t k e q hk ht _ ih =>
    rw [List.flatMap_cons]
    by_cases hki : k = i0
    · subst hki
      rw [he0] at hk; cases hk
      have : subStep k pos p (k, false) = [(pos, !p), (shiftIdx pos k, false)] := by simp [subStep]
      rw [this]
      cases p
      · simp only [Bool.false_eq_true, if_false] at h2
        refine IsWalk.fwd g2 (h2.1.trans ht) ?_
        rw [h2.2]
        exact IsWalk.bwd g1 h1h (by rw [h1t]; exact ih)
      · simp only [if_true] at h2
        refine IsWalk.bwd g2 (h2.2.trans ht) ?_
        rw [h2.1]
        exact IsWalk.bwd g1 h1h (by rw [h1t]; exact ih)
    · have : subStep i0 pos p (k, false) = [(shiftIdx pos k, false)] := by simp [subStep, hki]
      rw [this]
      exact IsWalk.bwd ((subdivT_getElem?_shift hp e1 e2 hki).trans hk) ht ih

theorem mem_subdiv_old {i0 pos : Nat} {p : Bool} {w : List (Nat × Bool)} {i : Nat} (hi : i ≠ pos) (d : Bool) :
    (i, d) ∈ w.flatMap (subStep i0 pos p) ↔ (unskip pos i, d) ∈ w := by
  rw [List.mem_flatMap]
  constructor
  · rintro ⟨⟨k, d'⟩, hx, hmem⟩
    unfold subStep at hmem
    have key : ∀ k2, (i, d) = (shiftIdx pos k2, d') → k2 = k → (unskip pos i, d) ∈ w := by
      intro k2 heq hk2
      simp only [Prod.mk.injEq] at heq
      obtain ⟨h1, rfl⟩ := heq
      rw [h1, unskip_shiftIdx, hk2]; exact hx
    by_cases hk : k = i0
    · simp only [hk, if_true] at hmem
      cases d'
      · simp only [Bool.false_eq_true, if_false, List.mem_cons, Prod.mk.injEq, List.mem_nil_iff, or_false] at hmem
        rcases hmem with ⟨h, _⟩ | ⟨h1, h2⟩
        · exact absurd h hi
        · exact key i0 (by rw [h1, h2]) hk.symm
      · simp only [if_true, List.mem_cons, Prod.mk.injEq, List.mem_nil_iff, or_false] at hmem
        rcases hmem with ⟨h1, h2⟩ | ⟨h, _⟩
        · exact key i0 (by rw [h1, h2]) hk.symm
        · exact absurd h hi
    · simp only [hk, if_false, List.mem_singleton] at hmem
      exact key k hmem rfl
  · intro hx
    refine ⟨_, hx, ?_⟩
    unfold subStep
    by_cases hk : unskip pos i = i0
    · simp only [hk, if_true]
      have : shiftIdx pos i0 = i := by rw [← hk]; exact shiftIdx_unskip hi
      cases d <;> simp [this]
    · simp [hk, shiftIdx_unskip hi]

theorem mem_subdiv_new {i0 pos : Nat} {p : Bool} {w : List (Nat × Bool)} (d : Bool) :
    (pos, d) ∈ w.flatMap (subStep i0 pos p) ↔ (i0, if p then d else !d) ∈ w := by
  rw [List.mem_flatMap]
  constructor
  · rintro ⟨⟨k, d'⟩, hx, hmem⟩
    unfold subStep at hmem
    by_cases hk : k = i0
    · subst hk
      simp only [if_true] at hmem
      have hne := shiftIdx_ne pos k
      cases d' <;> cases p <;> cases d <;> simp [hne.symm] at hmem ⊢ <;> exact hx
    · simp only [hk, if_false, List.mem_singleton, Prod.mk.injEq] at hmem
      exact absurd hmem.1.symm (shiftIdx_ne pos k)
  · intro hx
    refine ⟨_, hx, ?_⟩
    unfold subStep
    cases p <;> cases d <;> simp

theorem nodup_subdiv {i0 pos : Nat} {p : Bool} : ∀ {w : List (Nat × Bool)}, (w.map Prod.fst).Nodup →
    ((w.flatMap (subStep i0 pos p)).map Prod.fst).Nodup := by
  intro w
  induction w with
  | nil => intro _; simp
  | cons x w ih =>
    intro nd
    obtain ⟨k, d⟩ := x
    simp only [List.map_cons, List.nodup_cons] at nd
    obtain ⟨hk, nd⟩ := nd
    have ih := ih nd
    rw [List.flatMap_cons, List.map_append, List.nodup_append]
    have hrest : ∀ k', k' ∈ (w.flatMap (subStep i0 pos p)).map Prod.fst →
        (k' = pos ∧ i0 ∈ w.map Prod.fst) ∨ (k' ≠ pos ∧ unskip pos k' ∈ w.map Prod.fst) := by
      intro k' hk'
      obtain ⟨⟨k2, d2⟩, hx, rfl⟩ := List.mem_map.mp hk'
      by_cases h : k2 = pos
      · subst h
        exact Or.inl ⟨rfl, List.mem_map.mpr ⟨_, (mem_subdiv_new d2).mp hx, rfl⟩⟩
      · exact Or.inr ⟨h, List.mem_map.mpr ⟨_, (mem_subdiv_old h d2).mp hx, rfl⟩⟩
    refine ⟨?_, ih, ?_⟩
    · unfold subStep
      have hne := shiftIdx_ne pos i0
      by_cases hki : k = i0
      · cases d <;> simp [hki, hne, hne.symm]
      · simp [hki]
    · intro a ha b hb
      rintro rfl
      have hcases : (a = pos ∧ k = i0) ∨ (a = shiftIdx pos k) := by
        unfold subStep at ha
        by_cases hki : k = i0
        · cases d <;> simp [hki] at ha <;> rcases ha with h | h
          · exact Or.inl ⟨h, hki⟩
          · exact Or.inr (by rw [h, hki])
          · exact Or.inr (by rw [h, hki])
          · exact Or.inl ⟨h, hki⟩
        · simp [hki] at ha
          exact Or.inr ha
      rcases hrest a hb with ⟨h1, h2⟩ | ⟨h1, h2⟩
      · rcases hcases with ⟨_, h3⟩ | h3
        · exact hk (h3 ▸ h2)
        · exact shiftIdx_ne pos k (h3.symm.trans h1)
      · rcases hcases with ⟨h3, _⟩ | h3
        · exact h1 h3
        · rw [h3, unskip_shiftIdx] at h2; exact hk h2

theorem adj_set {T : List Edge} {i0 : Nat} {e1 : Edge} {k x y : Nat} (h : Adj (T.set i0 e1) k x y) :
    (k = i0 ∧ ((e1.u = x ∧ e1.v = y) ∨ (e1.v = x ∧ e1.u = y))) ∨ (k ≠ i0 ∧ Adj T k x y) := by
  obtain ⟨e, he, hends⟩ := h
  by_cases hk : k = i0
  · subst hk
    have hlt : k < T.length := by
      have := (List.getElem?_eq_some_iff.mp he).1
      rwa [List.length_set] at this
    rw [List.getElem?_set_self hlt] at he
    cases he
    exact Or.inl ⟨rfl, hends⟩
  · rw [List.getElem?_set_ne (Ne.symm hk)] at he
    exact Or.inr ⟨hk, e, he, hends⟩

/-- subdividing the edge `i0 = a – b` into `a – z` (at its old index) and `z – b` (new, before `pos`) -/
theorem subdivT_bridgeForest {T : List Edge} (hb : IsBridgeForest T) {i0 pos : Nat} (hp : pos ≤ T.length)
    {e1 e2 : Edge} {a b z : Nat} (hab : Adj T i0 a b)
    (h1 : (e1.u = a ∧ e1.v = z) ∨ (e1.u = z ∧ e1.v = a)) (h2 : (e2.u = z ∧ e2.v = b) ∨ (e2.u = b ∧ e2.v = z))
    (hfresh : ∀ e' ∈ T, e'.u ≠ z ∧ e'.v ≠ z) : IsBridgeForest (subdivT T i0 pos e1 e2) := by
  have hp' : pos ≤ (T.set i0 e1).length := by rw [List.length_set]; exact hp
  have hne : ∀ {k x y}, Adj T k x y → x ≠ z ∧ y ≠ z := by
    intro k x y hadj
    obtain ⟨e2, he2, hy⟩ := adj_mem hadj
    obtain ⟨e3, he3, hx⟩ := adj_mem hadj.symm
    constructor
    · rcases hx with hx | hx
      · exact hx ▸ (hfresh e3 he3).1
      · exact hx ▸ (hfresh e3 he3).2
    · rcases hy with hy | hy
      · exact hy ▸ (hfresh e2 he2).1
      · exact hy ▸ (hfresh e2 he2).2
  obtain ⟨haz, hbz⟩ := hne hab
  intro k' e' he' hreach
  by_cases hk : k' = pos
  · -- the new edge: contract `a – z`
    let g2 : Nat → Option Nat := fun k'' => if k'' = pos then some i0 else
      match unshiftO pos k'' with
      | some k => if k = i0 then none else some k
      | none => none
    refine bridge_of_project (T := T) (fun x => if x = z then a else x) g2 ?_ ?_ hb he' (by simp [g2, hk]) hreach
    · intro k'' x y ha
      rcases adj_insertAt hp' ha with ⟨k2, hk2, hadj⟩ | ⟨h, hxy⟩
      · have hk''pos : k'' ≠ pos := by
          intro h; rw [h] at hk2; simp [unshiftO] at hk2
        rcases adj_set hadj with ⟨hk20, hxy⟩ | ⟨hk20, hadjT⟩
        · right
          refine ⟨by simp [g2, hk''pos, hk2, hk20], ?_⟩
          rcases h1 with ⟨c1, c2⟩ | ⟨c1, c2⟩ <;> rcases hxy with ⟨d1, d2⟩ | ⟨d1, d2⟩ <;>
            simp [← d1, ← d2, c1, c2, haz]
        · left
          refine ⟨k2, by simp [g2, hk''pos, hk2, hk20], ?_⟩
          obtain ⟨hx, hy⟩ := hne hadjT
          simpa [hx, hy] using hadjT
      · left
        refine ⟨i0, by simp [g2, h], ?_⟩
        rcases h2 with ⟨c1, c2⟩ | ⟨c1, c2⟩ <;> rcases hxy with ⟨d1, d2⟩ | ⟨d1, d2⟩ <;>
          simp only [← d1, ← d2, c1, c2, if_true, hbz, if_false]
        · exact hab
        · exact hab.symm
        · exact hab.symm
        · exact hab
    · intro k1 k2 k hg1 hg2
      simp only [g2] at hg1 hg2
      by_cases c1 : k1 = pos <;> by_cases c2 : k2 = pos
      · rw [c1, c2]
      · exfalso
        simp only [c1, c2, if_true, if_false, Option.some.injEq] at hg1 hg2
        subst hg1
        cases hu : unshiftO pos k2 with
        | none => simp [hu] at hg2
        | some k3 =>
          simp only [hu] at hg2
          split at hg2
          · cases hg2
          · rename_i hne'; exact hne' (Option.some.inj hg2)
      · exfalso
        simp only [c1, c2, if_true, if_false, Option.some.injEq] at hg1 hg2
        subst hg2
        cases hu : unshiftO pos k1 with
        | none => simp [hu] at hg1
        | some k3 =>
          simp only [hu] at hg1
          split at hg1
          · cases hg1
          · rename_i hne'; exact hne' (Option.some.inj hg1)
      · simp only [c1, c2, if_false] at hg1 hg2
        cases hu1 : unshiftO pos k1 with
        | none => simp [hu1] at hg1
        | some k3 =>
          cases hu2 : unshiftO pos k2 with
          | none => simp [hu2] at hg2
          | some k4 =>
            simp only [hu1] at hg1
            simp only [hu2] at hg2
            split at hg1
            · cases hg1
            · split at hg2
              · cases hg2
              · have e3 : k3 = k := Option.some.inj hg1
                have e4 : k4 = k := Option.some.inj hg2
                exact unshiftO_inj (hu1.trans (by rw [e3])) (hu2.trans (by rw [e4]))
  · -- an old edge: contract `z – b`
    refine bridge_of_project (T := T) (fun x => if x = z then b else x) (unshiftO pos) ?_
      (fun k1 k2 k => unshiftO_inj) hb he' ?_ hreach
    · intro k'' x y ha
      rcases adj_insertAt hp' ha with ⟨k2, hk2, hadj⟩ | ⟨h, hxy⟩
      · left
        refine ⟨k2, hk2, ?_⟩
        rcases adj_set hadj with ⟨hk20, hxy⟩ | ⟨hk20, hadjT⟩
        · subst hk20
          rcases h1 with ⟨c1, c2⟩ | ⟨c1, c2⟩ <;> rcases hxy with ⟨d1, d2⟩ | ⟨d1, d2⟩ <;>
            simp only [← d1, ← d2, c1, c2, if_true, haz, if_false]
          · exact hab
          · exact hab.symm
          · exact hab.symm
          · exact hab
        · obtain ⟨hx, hy⟩ := hne hadjT
          simpa [hx, hy] using hadjT
      · right
        refine ⟨by simp [unshiftO, h], ?_⟩
        rcases h2 with ⟨c1, c2⟩ | ⟨c1, c2⟩ <;> rcases hxy with ⟨d1, d2⟩ | ⟨d1, d2⟩ <;>
          simp [← d1, ← d2, c1, c2, hbz]
    · unfold unshiftO
      by_cases h1 : k' < pos
      · simp [h1]
      · simp [h1, hk]

theorem pathEntry_neg_of_mem_iff {w w' : List (Nat × Bool)} (nd : (w.map Prod.fst).Nodup)
    (nd' : (w'.map Prod.fst).Nodup) {k k' : Nat} (h : ∀ d, (k', d) ∈ w' ↔ (k, !d) ∈ w) :
    pathEntry true w' k' = - pathEntry true w k := by
  rw [pathEntry_signed nd', pathEntry_signed nd]
  simp only [h true, h false, Bool.not_true, Bool.not_false]
  by_cases h1 : (k, true) ∈ w <;> by_cases h2 : (k, false) ∈ w
  · exact (not_both_dirs nd h1 h2).elim
  · simp [h1, h2]
  · simp [h1, h2]
  · simp [h1, h2]

/-- **Adding a forest edge in series with the forest edge `i0`** (a new row `sg ·` row `i0`). -/
theorem realises_insertRow_dup {signed : Bool} {m n pos : Nat} {M : Mat} (hwf : M.wf m n = true) (hp : pos ≤ m)
    (row : List Int) {i0 : Nat} (hi0 : i0 < m) (sg : Int) (hsg : sg = 1 ∨ (sg = -1 ∧ signed = true))
    (hrow : ∀ j, j < n → row.getD j 0 = sg * ent M i0 j) (h : Realises signed m n M) :
    Realises signed (m + 1) n (insertRow M pos row) := by
  obtain ⟨T, hlen, hb, hcols⟩ := h
  have hML : pos ≤ M.length := by rw [length_of_wf hwf]; exact hp
  have hpT : pos ≤ T.length := by omega
  have hi0T : i0 < T.length := by omega
  obtain ⟨e0, he0⟩ : ∃ e0, T[i0]? = some e0 := ⟨T[i0], List.getElem?_eq_getElem hi0T⟩
  obtain ⟨z, hK⟩ := exists_node_bound T
  obtain ⟨p, hpdef⟩ : ∃ p : Bool, p = decide (sg = 1) := ⟨_, rfl⟩
  have hfresh : ∀ e' ∈ T, e'.u ≠ z ∧ e'.v ≠ z := by
    intro e' he'
    have := hK e' he'
    omega
  have h2 : ((if p then (⟨0, z, e0.head, false⟩ : Edge) else ⟨0, e0.head, z, false⟩).u = z ∧
      (if p then (⟨0, z, e0.head, false⟩ : Edge) else ⟨0, e0.head, z, false⟩).v = e0.head) ∨
      ((if p then (⟨0, z, e0.head, false⟩ : Edge) else ⟨0, e0.head, z, false⟩).u = e0.head ∧
      (if p then (⟨0, z, e0.head, false⟩ : Edge) else ⟨0, e0.head, z, false⟩).v = z) := by
    cases p <;> simp
  have h2' : if p then (if p then (⟨0, z, e0.head, false⟩ : Edge) else ⟨0, e0.head, z, false⟩).tail = z ∧
      (if p then (⟨0, z, e0.head, false⟩ : Edge) else ⟨0, e0.head, z, false⟩).head = e0.head
    else (if p then (⟨0, z, e0.head, false⟩ : Edge) else ⟨0, e0.head, z, false⟩).tail = e0.head ∧
      (if p then (⟨0, z, e0.head, false⟩ : Edge) else ⟨0, e0.head, z, false⟩).head = z := by
    cases p <;> simp [Edge.tail, Edge.head]
  refine ⟨subdivT T i0 pos ⟨e0.id, e0.tail, z, false⟩
      (if p then ⟨0, z, e0.head, false⟩ else ⟨0, e0.head, z, false⟩), ?_,
    subdivT_bridgeForest hb hpT (adj_tail_head he0) (Or.inl ⟨rfl, rfl⟩) h2 hfresh, ?_⟩
  · rw [subdivT, length_insertAt, List.length_set, hlen]
  intro j hj
  obtain ⟨a, b, w, hw, nd, hent⟩ := hcols j hj
  refine ⟨a, b, w.flatMap (subStep i0 pos p), walk_subdiv (e1 := ⟨e0.id, e0.tail, z, false⟩) (z := z) (p := p) hi0T hpT he0 rfl rfl h2' hw, nodup_subdiv nd, ?_⟩
  intro i hi
  by_cases hip : i = pos
  · subst hip
    rw [ent_insertRow_pos M row hML, hrow j hj, hent i0 hi0]
    rcases hsg with h1 | ⟨h1, hs⟩
    · have hp1 : p = true := by simp [hpdef, h1]
      rw [h1, Int.one_mul]
      exact (pathEntry_eq_of_mem_iff nd (nodup_subdiv nd) (fun d => by rw [mem_subdiv_new, hp1]; simp)).symm
    · subst hs
      have hp0 : p = false := by simp [hpdef, h1]
      rw [h1, Int.neg_mul, Int.one_mul]
      exact (pathEntry_neg_of_mem_iff nd (nodup_subdiv nd) (fun d => by rw [mem_subdiv_new, hp0]; simp)).symm
  · rw [ent_insertRow_unskip M row hML hip, hent _ (unskip_lt hp hi hip)]
    exact (pathEntry_eq_of_mem_iff nd (nodup_subdiv nd) (fun d => mem_subdiv_old hip d)).symm

/-- the row inserted by an applicable row-insertion step: a coloop (`ZR`), a forest edge in series with a non-forest edge
(`UR`) or with a forest edge (`DR`).  Sign `-1` needs the signed reading. -/
theorem realises_rowIns {signed : Bool} {m n : Nat} {M : Mat} (hwf : M.wf m n = true) {s : Step} {pos : Nat}
    (hs : s.rowInsOk m n pos) (h1 : signed = true ∨ s.unitSign = true) (h : Realises signed m n M) :
    Realises signed (m + 1) n (insertRow M pos (s.newRow n M)) := by
  have sign : ∀ sg : Int, (sg = 1 ∨ sg = -1) → (signed = true ∨ (sg == 1) = true) →
      sg = 1 ∨ (sg = -1 ∧ signed = true) := by
    intro sg h2 h3
    rcases h2 with h2 | h2
    · exact Or.inl h2
    · rcases h3 with h3 | h3
      · exact Or.inr ⟨h2, h3⟩
      · simp [h2] at h3
  cases s with
  | ZR p =>
    obtain ⟨_, hp⟩ := hs
    refine realises_insertRow_unit hwf hp _ n 1 (Or.inl rfl) ?_ h
    intro j hj
    simp [Step.newRow, List.getD_eq_getElem?_getD, List.getElem?_replicate, hj, Nat.ne_of_lt hj]
  | UR p j0 sg =>
    obtain ⟨_, hp, hj0, hsg⟩ := hs
    exact realises_insertRow_unit hwf hp _ j0 sg (sign sg hsg h1) (fun j hj => getD_unitVec sg hj) h
  | DR p i0 sg =>
    obtain ⟨_, hp, hi0, hsg⟩ := hs
    exact realises_insertRow_dup hwf hp _ hi0 sg (sign sg hsg h1) (fun j _ => getD_scaledRow M i0 sg j) h
  | _ => exact hs.elim

end Cmr.GraStep
