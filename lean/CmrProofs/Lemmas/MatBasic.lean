/-
  Helper lemmas about `Cmr.Mat` (core Lean only).
-/
import Cmr.Mat
set_option linter.unusedSimpArgs false
set_option linter.unusedVariables false
namespace Cmr

theorem ent_ofFn {m n : Nat} (f : Nat → Nat → Int) {i j : Nat} (hi : i < m) (hj : j < n) :
    ent (Mat.ofFn m n f) i j = f i j := by
  simp [ent, Mat.ofFn, List.getD_eq_getElem?_getD, List.getElem?_map, List.getElem?_range, hi, hj]

theorem ent_ofFn_row_oob {m n : Nat} (f : Nat → Nat → Int) {i j : Nat} (hi : m ≤ i) :
    ent (Mat.ofFn m n f) i j = 0 := by
  simp [ent, Mat.ofFn, List.getD_eq_getElem?_getD, List.getElem?_map, List.getElem?_range, Nat.not_lt.mpr hi]

theorem ent_ofFn_col_oob {m n : Nat} (f : Nat → Nat → Int) {i j : Nat} (hj : n ≤ j) :
    ent (Mat.ofFn m n f) i j = 0 := by
  unfold ent Mat.ofFn
  by_cases hi : i < m
  · simp [List.getD_eq_getElem?_getD, List.getElem?_map, List.getElem?_range, hi, Nat.not_lt.mpr hj]
  · simp [List.getD_eq_getElem?_getD, List.getElem?_map, List.getElem?_range, hi]

theorem ofFn_congr {m n : Nat} {f g : Nat → Nat → Int} (h : ∀ i, i < m → ∀ j, j < n → f i j = g i j) :
    Mat.ofFn m n f = Mat.ofFn m n g := by
  unfold Mat.ofFn
  apply List.map_congr_left
  intro i hi
  apply List.map_congr_left
  intro j hj
  exact h i (List.mem_range.mp hi) j (List.mem_range.mp hj)

theorem wf_ofFn (m n : Nat) (f : Nat → Nat → Int) : (Mat.ofFn m n f).wf m n = true := by
  simp [Mat.wf, Mat.ofFn]

theorem length_of_wf {M : Mat} {m n : Nat} (h : M.wf m n = true) : M.length = m := by
  simp [Mat.wf] at h; exact h.1

theorem row_length_of_wf {M : Mat} {m n : Nat} (h : M.wf m n = true) {row : List Int} (hr : row ∈ M) :
    row.length = n := by
  simp [Mat.wf] at h; exact h.2 row hr

/-- A well-formed matrix is determined by its entries. -/
theorem ofFn_ent {M : Mat} {m n : Nat} (h : M.wf m n = true) : Mat.ofFn m n (ent M) = M := by
  have hl := length_of_wf h
  apply List.ext_getElem
  · simp [Mat.ofFn, hl]
  · intro i h1 h2
    have him : i < m := by simpa [Mat.ofFn] using h1
    have hrow : (M[i]).length = n := row_length_of_wf h (List.getElem_mem h2)
    simp only [Mat.ofFn, List.getElem_map, List.getElem_range]
    apply List.ext_getElem
    · simp [hrow]
    · intro j h3 h4
      simp only [List.getElem_map, List.getElem_range]
      simp [ent, List.getD_eq_getElem?_getD, List.getElem?_eq_getElem h2, List.getElem?_eq_getElem h4]

theorem mat_ext {A B : Mat} {m n : Nat} (hA : A.wf m n = true) (hB : B.wf m n = true)
    (h : ∀ i, i < m → ∀ j, j < n → ent A i j = ent B i j) : A = B := by
  rw [← ofFn_ent hA, ← ofFn_ent hB]
  exact ofFn_congr h

theorem isBinaryEntry_iff (x : Int) : isBinaryEntry x = true ↔ x = 0 ∨ x = 1 := by
  simp [isBinaryEntry]

theorem isTernaryEntry_iff (x : Int) : isTernaryEntry x = true ↔ x = 0 ∨ x = 1 ∨ x = -1 := by
  simp [isTernaryEntry, or_assoc]

theorem ent_mem_of_lt {M : Mat} {m n : Nat} (h : M.wf m n = true) {i j : Nat} (hi : i < m) (hj : j < n) :
    ∃ row ∈ M, ent M i j ∈ row := by
  have hl := length_of_wf h
  have h2 : i < M.length := by omega
  refine ⟨M[i], List.getElem_mem h2, ?_⟩
  have hrow : (M[i]).length = n := row_length_of_wf h (List.getElem_mem h2)
  have h4 : j < (M[i]).length := by omega
  have : ent M i j = (M[i])[j] := by
    simp [ent, List.getD_eq_getElem?_getD, List.getElem?_eq_getElem h2, List.getElem?_eq_getElem h4]
  rw [this]
  exact List.getElem_mem h4

theorem ent_binary {M : Mat} {m n : Nat} (h : M.wf m n = true) (hb : isBinary M = true) {i j : Nat}
    (hi : i < m) (hj : j < n) : ent M i j = 0 ∨ ent M i j = 1 := by
  obtain ⟨row, hr, he⟩ := ent_mem_of_lt h hi hj
  simp only [isBinary, List.all_eq_true] at hb
  exact (isBinaryEntry_iff _).mp (hb row hr _ he)

theorem ent_ternary {M : Mat} {m n : Nat} (h : M.wf m n = true) (hb : isTernary M = true) {i j : Nat}
    (hi : i < m) (hj : j < n) : ent M i j = 0 ∨ ent M i j = 1 ∨ ent M i j = -1 := by
  obtain ⟨row, hr, he⟩ := ent_mem_of_lt h hi hj
  simp only [isTernary, List.all_eq_true] at hb
  exact (isTernaryEntry_iff _).mp (hb row hr _ he)

theorem isBinary_ofFn {m n : Nat} {f : Nat → Nat → Int} (h : ∀ i, i < m → ∀ j, j < n → f i j = 0 ∨ f i j = 1) :
    isBinary (Mat.ofFn m n f) = true := by
  unfold isBinary Mat.ofFn
  rw [List.all_eq_true]
  intro row hrow
  rw [List.mem_map] at hrow
  obtain ⟨i, hi, rfl⟩ := hrow
  rw [List.all_eq_true]
  intro x hx
  rw [List.mem_map] at hx
  obtain ⟨j, hj, rfl⟩ := hx
  exact (isBinaryEntry_iff _).mpr (h i (List.mem_range.mp hi) j (List.mem_range.mp hj))

theorem isTernary_ofFn {m n : Nat} {f : Nat → Nat → Int}
    (h : ∀ i, i < m → ∀ j, j < n → f i j = 0 ∨ f i j = 1 ∨ f i j = -1) :
    isTernary (Mat.ofFn m n f) = true := by
  unfold isTernary Mat.ofFn
  rw [List.all_eq_true]
  intro row hrow
  rw [List.mem_map] at hrow
  obtain ⟨i, hi, rfl⟩ := hrow
  rw [List.all_eq_true]
  intro x hx
  rw [List.mem_map] at hx
  obtain ⟨j, hj, rfl⟩ := hx
  exact (isTernaryEntry_iff _).mpr (h i (List.mem_range.mp hi) j (List.mem_range.mp hj))

end Cmr
