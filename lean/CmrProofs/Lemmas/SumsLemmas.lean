/-
  Helper lemmas for C12 (1-, 2-, Δ-, Y- and 3-sums): `normChar`, `eraseIdxs`, `blockMat`, and the Mathlib-side
  facts about total unimodularity that the installed Mathlib does not provide (block-diagonal matrices,
  scaling columns by signs).
-/
import CmrProofs.Lemmas.MatBasic
import CmrProofs.Lemmas.DetBridge
import CmrProofs.Lemmas.TUClosure
import Mathlib.LinearAlgebra.Matrix.Rank
import Cmr.Sums

set_option linter.unusedSimpArgs false
set_option linter.unusedVariables false

namespace Cmr
open Matrix

/-! ### `normChar` -/

theorem mod3_cases' (x : Int) : mod3 x = 0 ∨ mod3 x = 1 ∨ mod3 x = -1 := by
  simp only [mod3]
  by_cases h : x % 3 = 2
  · simp [h]
  · simp [h]; omega

theorem mod2_cases' (x : Int) : mod2 x = 0 ∨ mod2 x = 1 := by
  unfold mod2; omega

theorem normChar_two (x : Int) : normChar 2 x = mod2 x := by simp [normChar]
theorem normChar_three (x : Int) : normChar 3 x = mod3 x := by simp [normChar]

theorem normChar_zero (ch : Nat) : normChar ch 0 = 0 := by
  unfold normChar
  split
  · rfl
  · split <;> rfl

theorem normChar_binary (x : Int) : normChar 2 x = 0 ∨ normChar 2 x = 1 := by
  rw [normChar_two]; exact mod2_cases' x

theorem normChar_ternary (x : Int) : normChar 3 x = 0 ∨ normChar 3 x = 1 ∨ normChar 3 x = -1 := by
  rw [normChar_three]; exact mod3_cases' x

/-- `normChar` is idempotent (for every characteristic, including the identity case `ch ∉ {2,3}`). -/
theorem normChar_idem (ch : Nat) (x : Int) : normChar ch (normChar ch x) = normChar ch x := by
  unfold normChar
  split
  · unfold mod2; omega
  · split
    · rcases mod3_cases' x with h | h | h <;> rw [h] <;> rfl
    · rfl

/-- `ε = ±1` is `±1` in the field, for characteristic 2 (where `-1 = 1`) and 3. -/
theorem normChar_pm1 {ch : Nat} (hch : ch = 2 ∨ ch = 3) {e : Int} (he : e = 1 ∨ e = -1) :
    normChar ch e = 1 ∨ normChar ch e = -1 := by
  rcases hch with rfl | rfl <;> rcases he with rfl | rfl <;> decide

theorem isPM1_iff (x : Int) : isPM1 x = true ↔ x = 1 ∨ x = -1 := by
  simp [isPM1]

/-! ### `eraseIdxs` -/

theorem mem_eraseIdxs (l bad : List Nat) (x : Nat) : x ∈ eraseIdxs l bad ↔ x ∈ l ∧ x ∉ bad := by
  simp [eraseIdxs]

theorem mem_eraseIdxs_range (m : Nat) (bad : List Nat) (x : Nat) :
    x ∈ eraseIdxs (List.range m) bad ↔ x < m ∧ x ∉ bad := by
  simp [eraseIdxs]

theorem eraseIdxs_nil (l : List Nat) : eraseIdxs l [] = l := by
  simp [eraseIdxs]

theorem eraseIdxs_cons (l : List Nat) (hl : l.Nodup) (a : Nat) (bad : List Nat) :
    eraseIdxs l (a :: bad) = eraseIdxs (l.erase a) bad := by
  unfold eraseIdxs
  rw [hl.erase_eq_filter, List.filter_filter]
  apply List.filter_congr
  intro x _
  by_cases h : x = a
  · simp [h]
  · simp [h]

theorem length_eraseIdxs_one {m r : Nat} (hr : r < m) : (eraseIdxs (List.range m) [r]).length = m - 1 := by
  rw [eraseIdxs_cons _ List.nodup_range, eraseIdxs_nil, List.length_erase_of_mem (List.mem_range.mpr hr),
    List.length_range]

theorem length_eraseIdxs_two {m a b : Nat} (ha : a < m) (hb : b < m) (hab : a ≠ b) :
    (eraseIdxs (List.range m) [a, b]).length = m - 2 := by
  rw [eraseIdxs_cons _ List.nodup_range, eraseIdxs_cons _ (List.nodup_range.erase a), eraseIdxs_nil,
    List.length_erase_of_mem, List.length_erase_of_mem (List.mem_range.mpr ha), List.length_range]
  · omega
  · exact (List.mem_erase_of_ne (Ne.symm hab)).mpr (List.mem_range.mpr hb)

/-- every index picked from `eraseIdxs (range m) bad` is a legal, non-special index -/
theorem getD_eraseIdxs_range (m : Nat) (bad : List Nat) {i : Nat} (hi : i < (eraseIdxs (List.range m) bad).length) :
    (eraseIdxs (List.range m) bad).getD i 0 < m ∧ (eraseIdxs (List.range m) bad).getD i 0 ∉ bad := by
  have : (eraseIdxs (List.range m) bad).getD i 0 ∈ eraseIdxs (List.range m) bad := by
    rw [List.getD_eq_getElem?_getD, List.getElem?_eq_getElem hi]
    exact List.getElem_mem hi
  exact (mem_eraseIdxs_range m bad _).mp this

theorem all_eraseIdxs_one (m r : Nat) (p : Nat → Bool) :
    (eraseIdxs (List.range m) [r]).all p = true ↔ ∀ i, i < m → i ≠ r → p i = true := by
  simp only [List.all_eq_true, mem_eraseIdxs_range, List.mem_singleton]
  exact ⟨fun h i hi hr => h i ⟨hi, hr⟩, fun h i hi => h i hi.1 hi.2⟩

theorem all_eraseIdxs_two (m a b : Nat) (p : Nat → Bool) :
    (eraseIdxs (List.range m) [a, b]).all p = true ↔ ∀ i, i < m → i ≠ a → i ≠ b → p i = true := by
  simp only [List.all_eq_true, mem_eraseIdxs_range, List.mem_cons, List.mem_singleton, List.not_mem_nil,
    or_false, not_or]
  exact ⟨fun h i hi ha hb => h i ⟨hi, ha, hb⟩, fun h i hi => h i hi.1 hi.2.1 hi.2.2⟩

theorem eraseIdxs_range_last (k : Nat) : eraseIdxs (List.range (k+1)) [k] = List.range k := by
  unfold eraseIdxs
  rw [List.range_succ, List.filter_append]
  have h1 : List.filter (fun x => !([k].contains x)) (List.range k) = List.range k := by
    rw [List.filter_eq_self]
    intro x hx
    have := List.mem_range.mp hx
    simp; omega
  rw [h1]; simp

theorem eraseIdxs_range_last_two (k : Nat) : eraseIdxs (List.range (k+2)) [k, k+1] = List.range k := by
  unfold eraseIdxs
  rw [List.range_succ, List.range_succ, List.filter_append, List.filter_append]
  have h1 : List.filter (fun x => !([k, k+1].contains x)) (List.range k) = List.range k := by
    rw [List.filter_eq_self]
    intro x hx
    have := List.mem_range.mp hx
    simp; omega
  rw [h1]; simp

theorem eraseIdxs_range_first (k : Nat) : eraseIdxs (List.range (k+1)) [0] = (List.range k).map (· + 1) := by
  unfold eraseIdxs
  rw [List.range_succ_eq_map, List.filter_cons]
  simp only [List.contains_cons, List.contains_nil, Bool.or_false, beq_self_eq_true, Bool.not_true,
    Bool.false_eq_true, if_false]
  rw [List.filter_eq_self]
  intro x hx
  obtain ⟨y, _, rfl⟩ := List.mem_map.mp hx
  simp

theorem eraseIdxs_range_first_two (k : Nat) :
    eraseIdxs (List.range (k+2)) [0, 1] = (List.range k).map (· + 2) := by
  unfold eraseIdxs
  rw [List.range_succ_eq_map, List.range_succ_eq_map, List.filter_cons]
  simp only [List.contains_cons, List.contains_nil, Bool.or_false, beq_self_eq_true, Bool.not_true,
    Bool.false_eq_true, if_false, Bool.true_or, List.map_cons, List.map_map]
  rw [List.filter_cons]
  simp only [Nat.zero_add, List.contains_cons, beq_self_eq_true, Bool.or_true, Bool.not_true,
    Bool.false_eq_true, if_false, Nat.succ_eq_add_one]
  rw [List.filter_eq_self.mpr]
  · apply List.map_congr_left
    intro x _
    simp
  · intro x hx
    obtain ⟨y, _, rfl⟩ := List.mem_map.mp hx
    simp

theorem getD_range {k i : Nat} (h : i < k) : (List.range k).getD i 0 = i := by
  simp [List.getD_eq_getElem?_getD, List.getElem?_range h]

theorem getD_range_map_add {k i : Nat} (c : Nat) (h : i < k) : ((List.range k).map (· + c)).getD i 0 = i + c := by
  simp [List.getD_eq_getElem?_getD, List.getElem?_map, List.getElem?_range h]

/-! ### `blockMat` -/

theorem blockMat_wf (r1 c1 r2 c2 : Nat) (tl tr bl br : Nat → Nat → Int) :
    (blockMat r1 c1 r2 c2 tl tr bl br).wf (r1 + r2) (c1 + c2) = true := wf_ofFn _ _ _

theorem ent_blockMat (r1 c1 r2 c2 : Nat) (tl tr bl br : Nat → Nat → Int) {i j : Nat}
    (hi : i < r1 + r2) (hj : j < c1 + c2) :
    ent (blockMat r1 c1 r2 c2 tl tr bl br) i j =
      if i < r1 then (if j < c1 then tl i j else tr i (j - c1))
      else (if j < c1 then bl (i - r1) j else br (i - r1) (j - c1)) := by
  unfold blockMat
  rw [ent_ofFn _ hi hj]

theorem ent_blockMat_tl (r1 c1 r2 c2 : Nat) (tl tr bl br : Nat → Nat → Int) {i j : Nat}
    (hi : i < r1) (hj : j < c1) : ent (blockMat r1 c1 r2 c2 tl tr bl br) i j = tl i j := by
  rw [ent_blockMat _ _ _ _ _ _ _ _ (by omega) (by omega)]; simp [hi, hj]

theorem ent_blockMat_tr (r1 c1 r2 c2 : Nat) (tl tr bl br : Nat → Nat → Int) {i j : Nat}
    (hi : i < r1) (hj : j < c2) : ent (blockMat r1 c1 r2 c2 tl tr bl br) i (c1 + j) = tr i j := by
  rw [ent_blockMat _ _ _ _ _ _ _ _ (by omega) (by omega)]; simp [hi]

theorem ent_blockMat_bl (r1 c1 r2 c2 : Nat) (tl tr bl br : Nat → Nat → Int) {i j : Nat}
    (hi : i < r2) (hj : j < c1) : ent (blockMat r1 c1 r2 c2 tl tr bl br) (r1 + i) j = bl i j := by
  rw [ent_blockMat _ _ _ _ _ _ _ _ (by omega) (by omega)]; simp [hj]

theorem ent_blockMat_br (r1 c1 r2 c2 : Nat) (tl tr bl br : Nat → Nat → Int) {i j : Nat}
    (hi : i < r2) (hj : j < c2) : ent (blockMat r1 c1 r2 c2 tl tr bl br) (r1 + i) (c1 + j) = br i j := by
  rw [ent_blockMat _ _ _ _ _ _ _ _ (by omega) (by omega)]; simp

theorem isBinary_blockMat (r1 c1 r2 c2 : Nat) (tl tr bl br : Nat → Nat → Int)
    (h1 : ∀ i j, tl i j = 0 ∨ tl i j = 1) (h2 : ∀ i j, tr i j = 0 ∨ tr i j = 1)
    (h3 : ∀ i j, bl i j = 0 ∨ bl i j = 1) (h4 : ∀ i j, br i j = 0 ∨ br i j = 1) :
    isBinary (blockMat r1 c1 r2 c2 tl tr bl br) = true := by
  apply isBinary_ofFn
  intro i _ j _
  split <;> split <;> simp only [h1, h2, h3, h4]

theorem isTernary_blockMat (r1 c1 r2 c2 : Nat) (tl tr bl br : Nat → Nat → Int)
    (h1 : ∀ i j, tl i j = 0 ∨ tl i j = 1 ∨ tl i j = -1) (h2 : ∀ i j, tr i j = 0 ∨ tr i j = 1 ∨ tr i j = -1)
    (h3 : ∀ i j, bl i j = 0 ∨ bl i j = 1 ∨ bl i j = -1) (h4 : ∀ i j, br i j = 0 ∨ br i j = 1 ∨ br i j = -1) :
    isTernary (blockMat r1 c1 r2 c2 tl tr bl br) = true := by
  apply isTernary_ofFn
  intro i _ j _
  split <;> split <;> simp only [h1, h2, h3, h4]

/-! ### Total unimodularity: block-diagonal matrices, sign-scaled columns -/

theorem signRange_mul {x y : ℤ} (hx : x ∈ Set.range (SignType.cast : SignType → ℤ))
    (hy : y ∈ Set.range (SignType.cast : SignType → ℤ)) : x * y ∈ Set.range (SignType.cast : SignType → ℤ) := by
  obtain ⟨s, rfl⟩ := hx
  obtain ⟨t, rfl⟩ := hy
  exact ⟨s * t, by simp⟩

theorem signRange_neg {x : ℤ} (hx : x ∈ Set.range (SignType.cast : SignType → ℤ)) :
    -x ∈ Set.range (SignType.cast : SignType → ℤ) := by
  obtain ⟨s, rfl⟩ := hx
  exact ⟨-s, by simp⟩

theorem signRange_units_mul (u : ℤˣ) {x : ℤ} (hx : (u : ℤ) * x ∈ Set.range (SignType.cast : SignType → ℤ)) :
    x ∈ Set.range (SignType.cast : SignType → ℤ) := by
  rcases Int.units_eq_one_or u with h | h
  · simpa [h] using hx
  · have := signRange_neg hx
    simpa [h] using this

/-- A block-diagonal matrix of totally unimodular blocks is totally unimodular. -/
theorem fromBlocks_diag_isTotallyUnimodular {m m' n n' : Type*} (A : Matrix m n ℤ) (B : Matrix m' n' ℤ)
    (hA : A.IsTotallyUnimodular) (hB : B.IsTotallyUnimodular) :
    (fromBlocks A 0 0 B).IsTotallyUnimodular := by
  intro k f g hf hg
  by_cases hdet : ((fromBlocks A 0 0 B).submatrix f g).det = 0
  · exact ⟨0, by simp [hdet]⟩
  rw [Matrix.det_apply] at hdet
  obtain ⟨σ, -, hσ⟩ := Finset.exists_ne_zero_of_sum_ne_zero hdet
  have hprod : ∀ i, (fromBlocks A 0 0 B) (f (σ i)) (g i) ≠ 0 := by
    intro i
    have : ∏ i, ((fromBlocks A 0 0 B).submatrix f g) (σ i) i ≠ 0 := by
      intro h0; apply hσ; rw [h0]; simp
    exact (Finset.prod_ne_zero_iff.mp this) i (Finset.mem_univ i)
  -- rows permuted by σ: row class = column class everywhere
  have hpat : ∀ i, (f (σ i)).isLeft = (g i).isLeft := by
    intro i
    have := hprod i
    cases hfi : f (σ i) <;> cases hgi : g i <;> simp_all
  apply signRange_units_mul (Equiv.Perm.sign σ)
  have h2 := Matrix.det_permute σ ((fromBlocks A 0 0 B).submatrix f g)
  rw [Int.cast_id] at h2
  rw [← h2]
  set e := Equiv.sumCompl (fun i : Fin k => (g i).isLeft = true) with he
  rw [← Matrix.det_submatrix_equiv_self e]
  have hl : ∀ i : {i : Fin k // (g i).isLeft = true}, ∃ a, g i.1 = Sum.inl a := fun i => Sum.isLeft_iff.mp i.2
  have hr : ∀ i : {i : Fin k // ¬ (g i).isLeft = true}, ∃ a, g i.1 = Sum.inr a := fun i =>
    Sum.isRight_iff.mp (by have := i.2; simpa using this)
  have hl' : ∀ i : {i : Fin k // (g i).isLeft = true}, ∃ a, f (σ i.1) = Sum.inl a := fun i =>
    Sum.isLeft_iff.mp (by rw [hpat]; exact i.2)
  have hr' : ∀ i : {i : Fin k // ¬ (g i).isLeft = true}, ∃ a, f (σ i.1) = Sum.inr a := fun i =>
    Sum.isRight_iff.mp (by have := i.2; rw [← hpat] at this; simpa using this)
  choose gl hgl using hl
  choose gr hgr using hr
  choose fl hfl using hl'
  choose fr hfr using hr'
  have key : ((((fromBlocks A 0 0 B).submatrix f g).submatrix σ id).submatrix e e) =
      fromBlocks (A.submatrix fl gl) 0 0 (B.submatrix fr gr) := by
    ext i j
    rcases i with i | i <;> rcases j with j | j <;>
      simp [he, Equiv.sumCompl, hgl, hgr, hfl, hfr]
  rw [key, Matrix.det_fromBlocks_zero₁₂]
  exact signRange_mul ((isTotallyUnimodular_iff_fintype A).mp hA _ fl gl)
    ((isTotallyUnimodular_iff_fintype B).mp hB _ fr gr)

/-- `blockMat` is Mathlib's `fromBlocks` along `finSumFinEquiv`. -/
theorem toMx_blockMat (r1 c1 r2 c2 : Nat) (tl tr bl br : Nat → Nat → Int) :
    (toMx (r1 + r2) (c1 + c2) (blockMat r1 c1 r2 c2 tl tr bl br)).submatrix finSumFinEquiv finSumFinEquiv =
      fromBlocks (Matrix.of fun (i : Fin r1) (j : Fin c1) => tl i j) (Matrix.of fun (i : Fin r1) (j : Fin c2) => tr i j)
        (Matrix.of fun (i : Fin r2) (j : Fin c1) => bl i j) (Matrix.of fun (i : Fin r2) (j : Fin c2) => br i j) := by
  ext i j
  rcases i with i | i <;> rcases j with j | j <;>
    simp only [toMx, submatrix_apply, finSumFinEquiv_apply_left, finSumFinEquiv_apply_right, Fin.val_castAdd,
      Fin.val_natAdd, fromBlocks_apply₁₁, fromBlocks_apply₁₂, fromBlocks_apply₂₁, fromBlocks_apply₂₂, of_apply]
  · exact ent_blockMat_tl _ _ _ _ _ _ _ _ i.isLt j.isLt
  · exact ent_blockMat_tr _ _ _ _ _ _ _ _ i.isLt j.isLt
  · exact ent_blockMat_bl _ _ _ _ _ _ _ _ i.isLt j.isLt
  · exact ent_blockMat_br _ _ _ _ _ _ _ _ i.isLt j.isLt

theorem isTU_iff_submatrix_equiv {m n : Nat} {α β : Type*} (M : Mat) (e : α ≃ Fin m) (f : β ≃ Fin n) :
    isTU m n M = true ↔ ((toMx m n M).submatrix e f).IsTotallyUnimodular := by
  rw [isTU_iff]
  have := reindex_isTotallyUnimodular (toMx m n M) e.symm f.symm
  simpa using this.symm

/-- the oracle only reads the entries inside the `m × n` window -/
theorem isTU_congr {m n : Nat} {A B : Mat} (h : ∀ i, i < m → ∀ j, j < n → ent A i j = ent B i j) :
    isTU m n A = isTU m n B := by
  have e : toMx m n A = toMx m n B := by
    ext i j; exact h i i.isLt j j.isLt
  have h1 := isTU_iff m n A
  have h2 := isTU_iff m n B
  rw [e] at h1
  cases ha : isTU m n A <;> cases hb : isTU m n B <;> simp_all

/-- **1-sum**: a block-diagonal matrix is TU iff both blocks are. -/
theorem isTU_blockDiag (m1 n1 m2 n2 : Nat) (A B : Mat) :
    isTU (m1 + m2) (n1 + n2) (blockMat m1 n1 m2 n2 (fun i j => ent A i j) (fun _ _ => 0) (fun _ _ => 0)
      (fun i j => ent B i j)) = true ↔ isTU m1 n1 A = true ∧ isTU m2 n2 B = true := by
  rw [isTU_iff_submatrix_equiv _ finSumFinEquiv finSumFinEquiv, toMx_blockMat, isTU_iff, isTU_iff]
  have e0 : (Matrix.of fun (i : Fin m1) (j : Fin n2) => (0 : ℤ)) = 0 := rfl
  have e0' : (Matrix.of fun (i : Fin m2) (j : Fin n1) => (0 : ℤ)) = 0 := rfl
  have eA : (Matrix.of fun (i : Fin m1) (j : Fin n1) => ent A i j) = toMx m1 n1 A := rfl
  have eB : (Matrix.of fun (i : Fin m2) (j : Fin n2) => ent B i j) = toMx m2 n2 B := rfl
  rw [e0, e0', eA, eB]
  constructor
  · intro h
    refine ⟨?_, ?_⟩
    · have := h.submatrix (Sum.inl : Fin m1 → _) (Sum.inl : Fin n1 → _)
      convert this using 1
      ext i j; simp
    · have := h.submatrix (Sum.inr : Fin m2 → _) (Sum.inr : Fin n2 → _)
      convert this using 1
      ext i j; simp
  · rintro ⟨hA, hB⟩
    exact fromBlocks_diag_isTotallyUnimodular _ _ hA hB

theorem signRange_of_pm1 {x : ℤ} (h : x = 1 ∨ x = -1) : x ∈ Set.range (SignType.cast : SignType → ℤ) := by
  rcases h with rfl | rfl
  · exact ⟨1, by simp⟩
  · exact ⟨-1, by simp⟩

/-- Multiplying the columns of a totally unimodular matrix by signs `±1` keeps it totally unimodular. -/
theorem mul_cols_isTotallyUnimodular {m n : Type*} (A : Matrix m n ℤ) (v : n → ℤ) (hv : ∀ j, v j = 1 ∨ v j = -1)
    (hA : A.IsTotallyUnimodular) : (Matrix.of fun i j => v j * A i j).IsTotallyUnimodular := by
  intro k f g hf hg
  have e : (Matrix.of fun i j => v j * A i j).submatrix f g =
      Matrix.of fun i j => (fun j => v (g j)) j * (A.submatrix f g) i j := by
    ext i j; simp
  rw [e, Matrix.det_mul_row]
  refine signRange_mul ?_ (hA k f g hf hg)
  apply Finset.prod_induction _ (fun x => x ∈ Set.range (SignType.cast : SignType → ℤ))
  · intro a b ha hb; exact signRange_mul ha hb
  · exact ⟨1, by simp⟩
  · intro j _; exact signRange_of_pm1 (hv (g j))

/-- If `B` is `A` with every column `j` multiplied by a sign `v j = ±1`, then `B` is TU iff `A` is. -/
theorem isTU_of_scaledCols {m n : Nat} (A B : Mat) (v : Nat → Int) (hv : ∀ j, j < n → v j = 1 ∨ v j = -1)
    (h : ∀ i, i < m → ∀ j, j < n → ent B i j = v j * ent A i j) : isTU m n B = isTU m n A := by
  have h' : ∀ i, i < m → ∀ j, j < n → ent A i j = v j * ent B i j := by
    intro i hi j hj
    rw [h i hi j hj, ← mul_assoc]
    rcases hv j hj with e | e <;> rw [e] <;> ring
  have key : ∀ (A B : Mat), (∀ i, i < m → ∀ j, j < n → ent B i j = v j * ent A i j) →
      isTU m n A = true → isTU m n B = true := by
    intro A B h hA
    rw [isTU_iff] at hA ⊢
    have := mul_cols_isTotallyUnimodular (toMx m n A) (fun j : Fin n => v j) (fun j => hv j j.isLt) hA
    convert this using 1
    ext i j
    simp only [toMx, of_apply]
    exact h i i.isLt j j.isLt
  have k1 := key A B h
  have k2 := key B A h'
  clear h h' key
  cases ha : isTU m n A <;> cases hb : isTU m n B <;> simp_all

theorem ent_negCol (M : Mat) (c i j : Nat) : ent (negCol M c) i j = if j = c then - ent M i j else ent M i j := by
  unfold ent negCol
  simp only [List.getD_eq_getElem?_getD, List.getElem?_map]
  cases hM : M[i]? with
  | none => simp
  | some row =>
    simp only [Option.map_some, Option.getD_some, List.getElem?_mapIdx]
    cases hr : row[j]? with
    | none => simp
    | some x => by_cases hjc : j = c <;> simp [hjc]

/-- Negating a column preserves total unimodularity. -/
theorem isTU_negCol (m n : Nat) (M : Mat) (c : Nat) : isTU m n (negCol M c) = isTU m n M := by
  apply isTU_of_scaledCols M (negCol M c) (fun j => if j = c then -1 else 1)
  · intro j _; by_cases h : j = c <;> simp [h]
  · intro i _ j _
    rw [ent_negCol]; by_cases h : j = c <;> simp [h]

/-! ### Total unimodularity of 2-sums -/

/-- A product through a smaller index type is singular. -/
theorem det_mul_eq_zero_of_card_lt {ι κ : Type*} [Fintype ι] [DecidableEq ι] [Fintype κ]
    (F : Matrix ι κ ℤ) (G : Matrix κ ι ℤ) (h : Fintype.card κ < Fintype.card ι) : (F * G).det = 0 := by
  by_contra hne
  let φ : ℤ →+* ℚ := Int.castRingHom ℚ
  have hdet : ((F * G).map φ).det ≠ 0 := by
    have := RingHom.map_det φ (F * G)
    rw [RingHom.mapMatrix_apply] at this
    rw [← this]
    simpa [φ] using hne
  have hunit : IsUnit ((F * G).map φ) := by
    rw [Matrix.isUnit_iff_isUnit_det]
    exact isUnit_iff_ne_zero.mpr hdet
  have hr := Matrix.rank_of_isUnit _ hunit
  rw [Matrix.map_mul] at hr
  have h1 := Matrix.rank_mul_le_left (F.map φ) (G.map φ)
  have h2 := Matrix.rank_le_card_width (F.map φ)
  omega

/-- If a square matrix factors through an index type of at most its size with totally unimodular factors, its
determinant is 0 or ±1. -/
theorem det_signRange_of_factor {k : ℕ} {ρ γ κ : Type*} [Fintype κ] [DecidableEq κ]
    (S : Matrix (Fin k) (Fin k) ℤ) (eR : ρ ≃ Fin k) (eC : γ ≃ Fin k) (F : Matrix ρ κ ℤ) (G : Matrix κ γ ℤ)
    (hS : S.submatrix eR eC = F * G) (hF : F.IsTotallyUnimodular) (hG : G.IsTotallyUnimodular)
    (hcard : Fintype.card κ ≤ k) : S.det ∈ Set.range (SignType.cast : SignType → ℤ) := by
  have hS' : S = (F.submatrix eR.symm id) * (G.submatrix id eC.symm) := by
    rw [← Matrix.submatrix_mul F G eR.symm id eC.symm Function.bijective_id, ← hS]
    ext i j; simp
  rcases Nat.lt_or_ge (Fintype.card κ) k with hlt | hge
  · rw [hS', det_mul_eq_zero_of_card_lt _ _ (by simpa using hlt)]
    exact ⟨0, by simp⟩
  · have hc : Fintype.card κ = Fintype.card (Fin k) := by simp; omega
    let e : κ ≃ Fin k := Fintype.equivOfCardEq hc
    have hS'' : S = (F.submatrix eR.symm e.symm) * (G.submatrix e.symm eC.symm) := by
      rw [Matrix.submatrix_mul_equiv, ← hS]
      ext i j; simp
    rw [hS'', Matrix.det_mul]
    exact signRange_mul ((isTotallyUnimodular_iff F).mp hF k _ _) ((isTotallyUnimodular_iff G).mp hG k _ _)

theorem one_isTotallyUnimodular {n : Type*} [DecidableEq n] : (1 : Matrix n n ℤ).IsTotallyUnimodular := by
  have h := (fromRows_one_isTotallyUnimodular_iff (Matrix.of (fun (i : Empty) (j : n) => (0 : ℤ)))).mpr
    (emptyRows_isTotallyUnimodular _)
  have := h.submatrix (Sum.inr : n → Empty ⊕ n) id
  convert this using 1
  ext i j; simp

/-- Multiplying the rows of a totally unimodular matrix by `0`, `1` or `-1` keeps it totally unimodular. -/
theorem mul_rows_isTotallyUnimodular {m n : Type*} (A : Matrix m n ℤ) (v : m → ℤ)
    (hv : ∀ i, v i ∈ Set.range (SignType.cast : SignType → ℤ))
    (hA : A.IsTotallyUnimodular) : (Matrix.of fun i j => v i * A i j).IsTotallyUnimodular := by
  intro k f g hf hg
  have e : (Matrix.of fun i j => v i * A i j).submatrix f g =
      Matrix.of fun i j => (fun i => v (f i)) i * (A.submatrix f g) i j := by
    ext i j; simp
  rw [e, Matrix.det_mul_column]
  refine signRange_mul ?_ (hA k f g hf hg)
  apply Finset.prod_induction _ (fun x => x ∈ Set.range (SignType.cast : SignType → ℤ))
  · intro a b ha hb; exact signRange_mul ha hb
  · exact ⟨1, by simp⟩
  · intro i _; exact hv (f i)

/-- **2-sums preserve total unimodularity**: if `[A; cᵀ]` and `[d D]` are totally unimodular, so is
`[[A, 0],[d cᵀ, D]]`. -/
theorem twoSum_isTotallyUnimodular {m m' n n' : Type*} (A : Matrix m n ℤ) (c : n → ℤ) (d : m' → ℤ)
    (D : Matrix m' n' ℤ)
    (h1 : (fromRows A (replicateRow Unit c)).IsTotallyUnimodular)
    (h2 : (fromCols (replicateCol Unit d) D).IsTotallyUnimodular) :
    (fromBlocks A 0 (Matrix.of fun i j => d i * c j) D).IsTotallyUnimodular := by
  intro k f g hf hg
  -- sort the rows and the columns of the submatrix by the block they come from
  set eR := Equiv.sumCompl (fun i : Fin k => (f i).isLeft = true) with heR
  set eC := Equiv.sumCompl (fun i : Fin k => (g i).isLeft = true) with heC
  have hfl : ∀ i : {i : Fin k // (f i).isLeft = true}, ∃ a, f i.1 = Sum.inl a := fun i => Sum.isLeft_iff.mp i.2
  have hfr : ∀ i : {i : Fin k // ¬ (f i).isLeft = true}, ∃ a, f i.1 = Sum.inr a := fun i =>
    Sum.isRight_iff.mp (by have := i.2; simpa using this)
  have hgl : ∀ i : {i : Fin k // (g i).isLeft = true}, ∃ a, g i.1 = Sum.inl a := fun i => Sum.isLeft_iff.mp i.2
  have hgr : ∀ i : {i : Fin k // ¬ (g i).isLeft = true}, ∃ a, g i.1 = Sum.inr a := fun i =>
    Sum.isRight_iff.mp (by have := i.2; simpa using this)
  choose fl hfl using hfl
  choose fr hfr using hfr
  choose gl hgl using hgl
  choose gr hgr using hgr
  have hsorted : ((fromBlocks A 0 (Matrix.of fun i j => d i * c j) D).submatrix f g).submatrix eR eC =
      fromBlocks (A.submatrix fl gl) 0 (Matrix.of fun i j => d (fr i) * c (gl j)) (D.submatrix fr gr) := by
    ext i j
    rcases i with i | i <;> rcases j with j | j <;>
      simp [heR, heC, Equiv.sumCompl, hgl, hgr, hfl, hfr]
  -- the pieces are totally unimodular
  have hD : D.IsTotallyUnimodular := by
    have := h2.submatrix id (Sum.inr : n' → Unit ⊕ n')
    convert this using 1
    ext i j; simp
  have hd : ∀ u, d u ∈ Set.range (SignType.cast : SignType → ℤ) := by
    intro u
    have := h2.apply u (Sum.inl ())
    simpa using this
  -- cardinalities
  have hcR := Fintype.card_congr eR
  have hcC := Fintype.card_congr eC
  rw [Fintype.card_sum, Fintype.card_fin] at hcR hcC
  by_cases hcase : Fintype.card {i : Fin k // (f i).isLeft = true} + 1 +
      Fintype.card {i : Fin k // ¬ (g i).isLeft = true} ≤ k
  · -- factor through `T ⊕ (Unit ⊕ R)`
    refine det_signRange_of_factor _ eR eC
      (fromBlocks (1 : Matrix {i : Fin k // (f i).isLeft = true} {i : Fin k // (f i).isLeft = true} ℤ) 0 0
        (fromCols (replicateCol Unit (fun u => d (fr u))) (D.submatrix fr gr)))
      (fromBlocks (A.submatrix fl gl) 0 (fromRows (replicateRow Unit (fun l => c (gl l))) 0)
        (fromRows 0 (1 : Matrix {i : Fin k // ¬ (g i).isLeft = true} {i : Fin k // ¬ (g i).isLeft = true} ℤ)))
      ?_ ?_ ?_ ?_
    · rw [hsorted, fromBlocks_multiply]
      congr 1
      · simp
      · simp
      · rw [Matrix.zero_mul, zero_add, fromCols_mul_fromRows]
        ext i j
        simp [Matrix.mul_apply]
      · rw [Matrix.zero_mul, zero_add, fromCols_mul_fromRows]
        simp
    · apply fromBlocks_diag_isTotallyUnimodular _ _ one_isTotallyUnimodular
      have := h2.submatrix fr (Sum.map id gr)
      convert this using 1
      ext i j
      rcases j with j | j <;> simp
    · have hAC : (fromRows (A.submatrix fl gl) (replicateRow Unit (fun l => c (gl l)))).IsTotallyUnimodular := by
        have := h1.submatrix (Sum.map fl id) gl
        convert this using 1
        ext i j
        rcases i with i | i <;> simp
      have := (fromBlocks_diag_isTotallyUnimodular _ _ hAC
        (one_isTotallyUnimodular (n := {i : Fin k // ¬ (g i).isLeft = true}))).submatrix
        (Equiv.sumAssoc _ Unit _).symm id
      convert this using 1
      ext i j
      rcases i with i | i | i <;> rcases j with j | j <;> simp
    · rw [Fintype.card_sum, Fintype.card_sum, Fintype.card_unit]
      omega
  · -- factor through `L ⊕ U`
    refine det_signRange_of_factor _ eR eC
      (fromBlocks (A.submatrix fl gl) 0 (Matrix.of fun i j => d (fr i) * c (gl j))
        (1 : Matrix {i : Fin k // ¬ (f i).isLeft = true} {i : Fin k // ¬ (f i).isLeft = true} ℤ))
      (fromBlocks (1 : Matrix {i : Fin k // (g i).isLeft = true} {i : Fin k // (g i).isLeft = true} ℤ) 0 0
        (D.submatrix fr gr))
      ?_ ?_ ?_ ?_
    · rw [hsorted, fromBlocks_multiply]
      simp
    · -- `[[A', 0],[d' c'ᵀ, 1]]`: unit columns appended to row-scaled rows of `[A; cᵀ]`
      have hX : (fromRows (A.submatrix fl gl) (Matrix.of fun i j => d (fr i) * c (gl j))).IsTotallyUnimodular := by
        have := mul_rows_isTotallyUnimodular _ (Sum.elim (fun _ => 1) (fun u => d (fr u)))
          (by intro i; rcases i with i | i
              · exact ⟨1, by simp⟩
              · exact hd _)
          (h1.submatrix (Sum.elim (fun t => Sum.inl (fl t)) (fun _ => Sum.inr ())) gl)
        convert this using 1
        ext i j
        rcases i with i | i <;> simp
      have := ((fromCols_one_isTotallyUnimodular_iff _).mpr hX).submatrix id (Sum.map id Sum.inr)
      convert this using 1
      ext i j
      rcases i with i | i <;> rcases j with j | j <;> simp [Matrix.one_apply]
    · exact fromBlocks_diag_isTotallyUnimodular _ _ one_isTotallyUnimodular (hD.submatrix fr gr)
    · simp only [Fintype.card_sum]
      omega

/-- 2-sum of list matrices: `[[TL, 0],[d cᵀ, BR]]` is TU when `[TL; cᵀ]` and `[d BR]` are. -/
theorem isTU_blockMat_twoSum (r1 c1 r2 c2 : Nat) (tl br : Nat → Nat → Int) (cv dv : Nat → Int)
    (h1 : isTU (r1 + 1) c1 (Mat.ofFn (r1 + 1) c1 fun i j => if i < r1 then tl i j else cv j) = true)
    (h2 : isTU r2 (c2 + 1) (Mat.ofFn r2 (c2 + 1) fun i j => if j = 0 then dv i else br i (j - 1)) = true) :
    isTU (r1 + r2) (c1 + c2) (blockMat r1 c1 r2 c2 tl (fun _ _ => 0) (fun i j => dv i * cv j) br) = true := by
  rw [isTU_iff_submatrix_equiv _ finSumFinEquiv finSumFinEquiv, toMx_blockMat]
  rw [isTU_iff] at h1 h2
  have e0 : (Matrix.of fun (i : Fin r1) (j : Fin c2) => (0 : ℤ)) = 0 := rfl
  rw [e0]
  apply twoSum_isTotallyUnimodular (Matrix.of fun (i : Fin r1) (j : Fin c1) => tl i j) (fun j : Fin c1 => cv j)
    (fun i : Fin r2 => dv i) (Matrix.of fun (i : Fin r2) (j : Fin c2) => br i j)
  · have := h1.submatrix (Sum.elim (fun i : Fin r1 => Fin.castSucc i) (fun _ : Unit => Fin.last r1)) id
    convert this using 1
    ext i j
    rcases i with i | i
    · simp [toMx, ent_ofFn _ (show (i : Nat) < r1 + 1 by omega) j.isLt]
    · simp [toMx, ent_ofFn _ (show r1 < r1 + 1 by omega) j.isLt]
  · have := h2.submatrix id (Sum.elim (fun _ : Unit => (0 : Fin (c2 + 1))) (fun j : Fin c2 => Fin.succ j))
    convert this using 1
    ext i j
    rcases j with j | j
    · simp [toMx, ent_ofFn _ i.isLt (show 0 < c2 + 1 by omega)]
    · simp [toMx, ent_ofFn _ i.isLt (show (j : Nat) + 1 < c2 + 1 by omega)]

/-- second variant: if `[A a]` and `[bᵀ; D]` are totally unimodular, so is `[[A, a bᵀ],[0, D]]`. -/
theorem twoSum_isTotallyUnimodular' {m m' n n' : Type*} (A : Matrix m n ℤ) (a : m → ℤ) (b : n' → ℤ)
    (D : Matrix m' n' ℤ)
    (h1 : (fromCols A (replicateCol Unit a)).IsTotallyUnimodular)
    (h2 : (fromRows (replicateRow Unit b) D).IsTotallyUnimodular) :
    (fromBlocks A (Matrix.of fun i j => a i * b j) 0 D).IsTotallyUnimodular := by
  rw [← transpose_isTotallyUnimodular_iff, fromBlocks_transpose]
  have h1' := h1.transpose
  have h2' := h2.transpose
  rw [transpose_fromCols, transpose_replicateCol] at h1'
  rw [transpose_fromRows, transpose_replicateRow] at h2'
  have := twoSum_isTotallyUnimodular Aᵀ a b Dᵀ h1' h2'
  convert this using 2
  all_goals (ext i j; simp [mul_comm])

theorem isTU_blockMat_twoSum' (r1 c1 r2 c2 : Nat) (tl br : Nat → Nat → Int) (av bv : Nat → Int)
    (h1 : isTU r1 (c1 + 1) (Mat.ofFn r1 (c1 + 1) fun i j => if j < c1 then tl i j else av i) = true)
    (h2 : isTU (r2 + 1) c2 (Mat.ofFn (r2 + 1) c2 fun i j => if i = 0 then bv j else br (i - 1) j) = true) :
    isTU (r1 + r2) (c1 + c2) (blockMat r1 c1 r2 c2 tl (fun i j => av i * bv j) (fun _ _ => 0) br) = true := by
  rw [isTU_iff_submatrix_equiv _ finSumFinEquiv finSumFinEquiv, toMx_blockMat]
  rw [isTU_iff] at h1 h2
  have e0 : (Matrix.of fun (i : Fin r2) (j : Fin c1) => (0 : ℤ)) = 0 := rfl
  rw [e0]
  apply twoSum_isTotallyUnimodular' (Matrix.of fun (i : Fin r1) (j : Fin c1) => tl i j) (fun i : Fin r1 => av i)
    (fun j : Fin c2 => bv j) (Matrix.of fun (i : Fin r2) (j : Fin c2) => br i j)
  · have := h1.submatrix id (Sum.elim (fun j : Fin c1 => Fin.castSucc j) (fun _ : Unit => Fin.last c1))
    convert this using 1
    ext i j
    rcases j with j | j
    · simp [toMx, ent_ofFn _ i.isLt (show (j : Nat) < c1 + 1 by omega)]
    · simp [toMx, ent_ofFn _ i.isLt (show c1 < c1 + 1 by omega)]
  · have := h2.submatrix (Sum.elim (fun _ : Unit => (0 : Fin (r2 + 1))) (fun i : Fin r2 => Fin.succ i)) id
    convert this using 1
    ext i j
    rcases i with i | i
    · simp [toMx, ent_ofFn _ (show 0 < r2 + 1 by omega) j.isLt]
    · simp [toMx, ent_ofFn _ (show (i : Nat) + 1 < r2 + 1 by omega) j.isLt]

/-- If `B` is `A` with every row `i` multiplied by a sign `v i = ±1`, then `B` is TU iff `A` is. -/
theorem isTU_of_scaledRows {m n : Nat} (A B : Mat) (v : Nat → Int) (hv : ∀ i, i < m → v i = 1 ∨ v i = -1)
    (h : ∀ i, i < m → ∀ j, j < n → ent B i j = v i * ent A i j) : isTU m n B = isTU m n A := by
  have h' : ∀ i, i < m → ∀ j, j < n → ent A i j = v i * ent B i j := by
    intro i hi j hj
    rw [h i hi j hj, ← mul_assoc]
    rcases hv i hi with e | e <;> rw [e] <;> ring
  have key : ∀ (A B : Mat), (∀ i, i < m → ∀ j, j < n → ent B i j = v i * ent A i j) →
      isTU m n A = true → isTU m n B = true := by
    intro A B h hA
    rw [isTU_iff] at hA ⊢
    have := mul_rows_isTotallyUnimodular (toMx m n A) (fun i : Fin m => v i)
      (fun i => signRange_of_pm1 (hv i i.isLt)) hA
    convert this using 1
    ext i j
    simp only [toMx, of_apply]
    exact h i i.isLt j j.isLt
  have k1 := key A B h
  have k2 := key B A h'
  clear h h' key
  cases ha : isTU m n A <;> cases hb : isTU m n B <;> simp_all

theorem ent_negRow (M : Mat) (r i j : Nat) : ent (negRow M r) i j = if i = r then - ent M i j else ent M i j := by
  unfold ent negRow
  simp only [List.getD_eq_getElem?_getD, List.getElem?_mapIdx]
  cases hM : M[i]? with
  | none => simp
  | some row =>
    by_cases hir : i = r
    · simp only [hir, Option.map_some, Option.getD_some, beq_self_eq_true, if_true, List.getElem?_map]
      cases hr : row[j]? <;> simp
    · simp [hir]

/-- Negating a row preserves total unimodularity. -/
theorem isTU_negRow (m n : Nat) (M : Mat) (r : Nat) : isTU m n (negRow M r) = isTU m n M := by
  apply isTU_of_scaledRows M (negRow M r) (fun i => if i = r then -1 else 1)
  · intro i _; by_cases h : i = r <;> simp [h]
  · intro i _ j _
    rw [ent_negRow]; by_cases h : i = r <;> simp [h]

end Cmr
