/-
  Lemmas for `CmrProofs/Props/C10GraphicPivot.lean`: the declarative reading `GraStep.Realises false` of graphicness is
  closed under a GF(2) pivot on an entry `1`.

  * `walk_reduce` : in a bridge forest every walk can be reduced to a walk with pairwise distinct edges between the same
    ends whose edge set is the set of edges used an odd number of times (cancel a repeated edge: the part between the two
    occurrences is a closed walk with distinct edges, hence empty, `closed_walk_nil`);
  * `set_bridgeForest` : exchanging the forest edge `r` with the non-forest edge joining the ends of a walk through `r`
    gives a bridge forest again (two-colouring argument with the sides `walk_mem_iff_side` of the edges `k` and `r`);
  * `realises_pivot2` : the pivoted matrix is realised by the exchanged forest: the walk of a column through `r` takes the
    detour along the pivot column's walk and the new edge, and is then reduced;
  * `walk_reduce_s`, `realises_pivot3` : the same for the signed reading (`net` = signed number of traversals of an edge;
    the rational pivot entry equals the signed count of the detoured walk, which lies in `{0, 1, -1}` after reduction).
-/
import CmrProofs.Lemmas.GraSumLemmas
import CmrProofs.Props.C10Pivot
import CmrProofs.Props.C13

set_option linter.unusedSimpArgs false
set_option linter.unusedVariables false

namespace Cmr.GraPivot
open Cmr Cmr.Props Cmr.GraStep

theorem walk_append_inv {T : List Edge} : ∀ {w1 w2 : List (Nat × Bool)} {s t : Nat}, IsWalk T s t (w1 ++ w2) →
    ∃ x, IsWalk T s x w1 ∧ IsWalk T x t w2 := by
  intro w1
  induction w1 with
  | nil => intro w2 s t h; exact ⟨s, IsWalk.nil _, h⟩
  | cons y p ih =>
    intro w2 s t h
    obtain ⟨e, s', he, h1, hp, hor⟩ := IsWalk.cons_inv (x := y) (p := p ++ w2) h
    obtain ⟨x, a1, a2⟩ := ih hp
    exact ⟨x, h1.append a1, a2⟩

theorem reduce_step {T : List Edge} (hb : IsBridgeForest T) {k : Nat} {e : Edge} (hk : T[k]? = some e) {s s' t : Nat}
    (hor : (e.tail = s ∧ e.head = s') ∨ (e.head = s ∧ e.tail = s')) {p' : List (Nat × Bool)}
    (hp' : IsWalk T s' t p') (nd' : (p'.map Prod.fst).Nodup) (hkp : k ∈ p'.map Prod.fst) :
    ∃ p2, IsWalk T s t p2 ∧ (p2.map Prod.fst).Nodup ∧ k ∉ p2.map Prod.fst ∧
      ∀ i, i ≠ k → (i ∈ p2.map Prod.fst ↔ i ∈ p'.map Prod.fst) := by
  obtain ⟨⟨k', d⟩, hx, hk'⟩ := List.mem_map.mp hkp
  simp only at hk'; subst hk'
  obtain ⟨p1, p2, rfl⟩ := List.append_of_mem hx
  obtain ⟨x, a1, a2⟩ := walk_append_inv hp'
  obtain ⟨e2, s2, he2, _, hp2, hor2⟩ := a2.cons_inv
  simp only at he2
  rw [hk] at he2; cases he2
  simp only [List.map_append, List.map_cons, List.nodup_append, List.nodup_cons] at nd'
  obtain ⟨nd1, ⟨hk2, nd2⟩, hdis⟩ := nd'
  have hk1 : k' ∉ p1.map Prod.fst := fun h => hdis k' h k' (List.mem_cons_self) rfl
  have hbr := bridge_tail_head hb hk
  have hreach : ReachOn T (fun j => j ≠ k') s' x :=
    a1.reachOn (fun y hy hyk => hk1 (List.mem_map.mpr ⟨y, hy, hyk⟩))
  have hxs : x = s' ∧ s2 = s := by
    rcases hor with ⟨h1, h2⟩ | ⟨h1, h2⟩ <;> rcases hor2 with ⟨h3, h4⟩ | ⟨h3, h4⟩
    · exfalso; rw [← h2, ← h3] at hreach; exact hbr hreach.symm
    · exact ⟨h3.symm.trans h2, h4.symm.trans h1⟩
    · exact ⟨h3.symm.trans h2, h4.symm.trans h1⟩
    · exfalso; rw [← h2, ← h3] at hreach; exact hbr hreach
  obtain ⟨rfl, rfl⟩ := hxs
  have := closed_walk_nil hb a1 nd1
  subst this
  refine ⟨p2, hp2, nd2, hk2, ?_⟩
  intro i hi
  simp [hi]

/-- in a bridge forest every walk can be reduced to a walk with distinct edges with the same incidence vector mod 2 -/
theorem walk_reduce {T : List Edge} (hb : IsBridgeForest T) : ∀ {w : List (Nat × Bool)} {s t : Nat}, IsWalk T s t w →
    ∃ w', IsWalk T s t w' ∧ (w'.map Prod.fst).Nodup ∧
      ∀ i, (i ∈ w'.map Prod.fst ↔ (w.map Prod.fst).count i % 2 = 1) := by
  intro w
  induction w with
  | nil => intro s t h; exact ⟨[], h, by simp, by simp⟩
  | cons x p ih =>
    intro s t h
    obtain ⟨e, s', he, h1, hp, hor⟩ := h.cons_inv
    obtain ⟨p', hp', nd', hmem⟩ := ih hp
    obtain ⟨k, d⟩ := x
    simp only at he
    by_cases hkp : k ∈ p'.map Prod.fst
    · obtain ⟨p2, h2, nd2, hk2, hm2⟩ := reduce_step hb he hor hp' nd' hkp
      refine ⟨p2, h2, nd2, ?_⟩
      intro i
      by_cases hik : i = k
      · subst hik
        have := (hmem i).mp hkp
        simp only [List.map_cons, List.count_cons_self]
        constructor
        · intro h; exact absurd h hk2
        · intro h; omega
      · rw [hm2 i hik, hmem i, List.map_cons, List.count_cons_of_ne (Ne.symm hik)]
    · refine ⟨[(k, d)] ++ p', h1.append hp', by
        simp only [List.cons_append, List.nil_append, List.map_cons, List.nodup_cons]; exact ⟨hkp, nd'⟩, ?_⟩
      intro i
      by_cases hik : i = k
      · subst hik
        have : ¬ ((p.map Prod.fst).count i % 2 = 1) := fun h => hkp ((hmem i).mpr h)
        simp only [List.map_cons, List.count_cons_self, List.cons_append, List.nil_append, List.mem_cons, true_or,
          true_iff]
        omega
      · simp only [List.map_cons, List.cons_append, List.nil_append, List.mem_cons, hik, false_or]
        rw [hmem i, List.count_cons_of_ne (Ne.symm hik)]

theorem mem_iff_side {T : List Edge} (hb : IsBridgeForest T) {k : Nat} {e : Edge} (he : T[k]? = some e)
    {s t : Nat} {w : List (Nat × Bool)} (h : IsWalk T s t w) (nd : (w.map Prod.fst).Nodup) :
    k ∈ w.map Prod.fst ↔
      ¬ (ReachOn T (fun j => j ≠ k) s e.head ↔ ReachOn T (fun j => j ≠ k) t e.head) := by
  obtain ⟨h1, h2⟩ := walk_mem_iff_side hb he h nd
  rw [mem_map_fst_iff, h1, h2]
  by_cases a : ReachOn T (fun j => j ≠ k) s e.head <;> by_cases b : ReachOn T (fun j => j ≠ k) t e.head <;>
    simp [a, b]

theorem prop_aux {a b X : Prop} (h : (a ↔ X) ↔ (b ↔ X)) (ha : ¬ a) (hb : b) : False := by
  by_cases hX : X <;> simp_all

theorem reach_set_inv {T : List Edge} {r k : Nat} {f : Edge} {col : Nat → Prop}
    (hT : ∀ j x y, j ≠ k → j ≠ r → Adj T j x y → (col x ↔ col y)) (hf : k ≠ r → (col f.u ↔ col f.v))
    {x y : Nat} (h : ReachOn (T.set r f) (fun j => j ≠ k) x y) : col x ↔ col y := by
  induction h with
  | refl => exact Iff.rfl
  | @step j x y z hp ha _ ih =>
    refine Iff.trans ?_ ih
    rcases adj_set ha with ⟨hj, hends⟩ | ⟨hj, hadj⟩
    · have hkr : k ≠ r := fun h => hp (hj.trans h.symm)
      rcases hends with ⟨a, b⟩ | ⟨a, b⟩
      · rw [← a, ← b]; exact hf hkr
      · rw [← a, ← b]; exact (hf hkr).symm
    · exact hT j x y hp hj hadj

theorem set_bridgeForest {T : List Edge} (hb : IsBridgeForest T) {r : Nat} {er : Edge} (her : T[r]? = some er)
    {sc tc : Nat} {wc : List (Nat × Bool)} (hwc : IsWalk T sc tc wc) (ndc : (wc.map Prod.fst).Nodup)
    (hr : r ∈ wc.map Prod.fst) (f : Edge) (hfu : f.u = sc) (hfv : f.v = tc) : IsBridgeForest (T.set r f) := by
  intro k e he hreach
  have hsr := (mem_iff_side hb her hwc ndc).mp hr
  have hrlt : r < T.length := (List.getElem?_eq_some_iff.mp her).1
  by_cases hkr : k = r
  · subst hkr
    rw [List.getElem?_set_self hrlt] at he
    cases he
    have := reach_set_inv (T := T) (r := k) (k := k) (f := f)
      (col := fun x => ReachOn T (fun j => j ≠ k) x er.head)
      (fun j x y hj _ hadj => reachOn_congr_left (ReachOn.single hj hadj)) (fun h => absurd rfl h) hreach
    rw [hfu, hfv] at this
    exact hsr this
  · rw [List.getElem?_set_ne (Ne.symm hkr)] at he
    have hsk := mem_iff_side hb he hwc ndc
    have hinv := reach_set_inv (T := T) (r := r) (k := k) (f := f)
      (col := fun x => (ReachOn T (fun j => j ≠ k) x e.head ↔
        (k ∈ wc.map Prod.fst ∧ ReachOn T (fun j => j ≠ r) x er.head)))
      (fun j x y hj hj' hadj => by
        have a := reachOn_congr_left (h := e.head) (ReachOn.single (P := fun j => j ≠ k) hj hadj)
        have b := reachOn_congr_left (h := er.head) (ReachOn.single (P := fun j => j ≠ r) hj' hadj)
        simp only [a, b])
      (fun _ => by
        rw [hfu, hfv]
        by_cases p : k ∈ wc.map Prod.fst
        · have hsk' := hsk.mp p
          by_cases a1 : ReachOn T (fun j => j ≠ k) sc e.head <;>
          by_cases a2 : ReachOn T (fun j => j ≠ k) tc e.head <;>
          by_cases a3 : ReachOn T (fun j => j ≠ r) sc er.head <;>
          by_cases a4 : ReachOn T (fun j => j ≠ r) tc er.head <;> simp_all
        · have hsk' : (ReachOn T (fun j => j ≠ k) sc e.head ↔ ReachOn T (fun j => j ≠ k) tc e.head) := by
            by_cases q : (ReachOn T (fun j => j ≠ k) sc e.head ↔ ReachOn T (fun j => j ≠ k) tc e.head)
            · exact q
            · exact absurd (hsk.mpr q) p
          simp only [p, false_and, iff_false, hsk'])
      hreach
    have hbr := bridge_tail_head hb he
    have hrr : ReachOn T (fun j => j ≠ r) e.u er.head ↔ ReachOn T (fun j => j ≠ r) e.v er.head :=
      reachOn_congr_left (ReachOn.single (P := fun j => j ≠ r) hkr (adj_u_v he))
    have hh : ReachOn T (fun j => j ≠ k) e.head e.head := ReachOn.refl _
    rw [hrr] at hinv
    rcases e.tail_head with ⟨h1, h2⟩ | ⟨h1, h2⟩
    · have hbr' : ¬ ReachOn T (fun j => j ≠ k) e.u e.head := by rw [← h1]; exact hbr
      have hh' : ReachOn T (fun j => j ≠ k) e.v e.head := by rw [← h2]; exact hh
      exact prop_aux hinv hbr' hh'
    · have hbr' : ¬ ReachOn T (fun j => j ≠ k) e.v e.head := by rw [← h1]; exact hbr
      have hh' : ReachOn T (fun j => j ≠ k) e.u e.head := by rw [← h2]; exact hh
      exact prop_aux hinv.symm hbr' hh'

theorem walk_split_at {T : List Edge} {r : Nat} {e : Edge} (he : T[r]? = some e) {s t : Nat} {w : List (Nat × Bool)}
    (h : IsWalk T s t w) (nd : (w.map Prod.fst).Nodup) (hr : r ∈ w.map Prod.fst) :
    ∃ A B x y, w.map Prod.fst = A.map Prod.fst ++ r :: B.map Prod.fst ∧ IsWalk T s x A ∧ IsWalk T y t B ∧
      r ∉ A.map Prod.fst ∧ r ∉ B.map Prod.fst ∧ ((x = e.tail ∧ y = e.head) ∨ (x = e.head ∧ y = e.tail)) := by
  obtain ⟨⟨k', d⟩, hx, hk'⟩ := List.mem_map.mp hr
  simp only at hk'; subst hk'
  obtain ⟨A, B, rfl⟩ := List.append_of_mem hx
  obtain ⟨x, a1, a2⟩ := walk_append_inv h
  obtain ⟨e2, y, he2, _, hB, hor2⟩ := a2.cons_inv
  simp only at he2
  rw [he] at he2; cases he2
  simp only [List.map_append, List.map_cons, List.nodup_append, List.nodup_cons] at nd
  obtain ⟨nd1, ⟨hk2, nd2⟩, hdis⟩ := nd
  refine ⟨A, B, x, y, by simp, a1, hB, fun h => hdis k' h k' List.mem_cons_self rfl, hk2, ?_⟩
  rcases hor2 with ⟨a, b⟩ | ⟨a, b⟩
  · exact Or.inl ⟨a.symm, b.symm⟩
  · exact Or.inr ⟨a.symm, b.symm⟩

theorem walk_set {T : List Edge} {r : Nat} (f : Edge) {s t : Nat} {w : List (Nat × Bool)} (h : IsWalk T s t w)
    (hr : r ∉ w.map Prod.fst) : IsWalk (T.set r f) s t w := by
  induction h with
  | nil => exact IsWalk.nil _
  | @fwd s t k e p hk ht _ ih =>
    simp only [List.map_cons, List.mem_cons, not_or] at hr
    exact IsWalk.fwd (by rw [List.getElem?_set_ne hr.1]; exact hk) ht (ih hr.2)
  | @bwd s t k e p hk ht _ ih =>
    simp only [List.map_cons, List.mem_cons, not_or] at hr
    exact IsWalk.bwd (by rw [List.getElem?_set_ne hr.1]; exact hk) ht (ih hr.2)

theorem count_nodup {l : List Nat} (nd : l.Nodup) (i : Nat) : l.count i = if i ∈ l then 1 else 0 := by
  by_cases h : i ∈ l
  · rw [if_pos h]; exact List.count_eq_one_of_mem nd h
  · rw [if_neg h]; exact List.count_eq_zero_of_not_mem h

theorem realises_pivot2 {m n : Nat} {M : Mat} (h : Realises false m n M) {r c : Nat} (hr : r < m) (hc : c < n)
    (hp : ent M r c = 1) : Realises false m n (pivot2 m n M r c) := by
  obtain ⟨T, hlen, hb, hcols⟩ := h
  obtain ⟨sc, tc, wc, hwc, ndc, hentc⟩ := hcols c hc
  have hrc : r ∈ wc.map Prod.fst := by
    have := hentc r hr
    rw [hp, pathEntry_unsigned] at this
    by_contra hn
    rw [if_neg hn] at this
    exact absurd this (by decide)
  have hrlt : r < T.length := by omega
  have her : T[r]? = some T[r] := List.getElem?_eq_getElem hrlt
  obtain ⟨A, B, xc, yc, hsplit, hA, hB, hrA, hrB, hxy⟩ := walk_split_at her hwc ndc hrc
  let f : Edge := ⟨0, sc, tc, false⟩
  have hb' : IsBridgeForest (T.set r f) := set_bridgeForest hb her hwc ndc hrc f rfl rfl
  have hf : (T.set r f)[r]? = some f := List.getElem?_set_self hrlt
  have hD : IsWalk (T.set r f) xc yc (revWalk A ++ (r, true) :: revWalk B) :=
    (walk_set f hA.reverse (by rw [revWalk_map_fst]; simpa using hrA)).append
      (IsWalk.fwd hf rfl (walk_set f hB.reverse (by rw [revWalk_map_fst]; simpa using hrB)))
  have hDcount : ∀ i, ((revWalk A ++ (r, true) :: revWalk B).map Prod.fst).count i = (wc.map Prod.fst).count i := by
    intro i
    rw [hsplit]
    simp only [List.map_append, List.map_cons, revWalk_map_fst, List.count_append, List.count_cons, List.count_reverse]
  refine ⟨T.set r f, by rw [List.length_set]; exact hlen, hb', ?_⟩
  intro j hj
  obtain ⟨s, t, w, hw, nd, hent⟩ := hcols j hj
  have hM : ∀ i, i < m → ent M i j = if i ∈ w.map Prod.fst then 1 else 0 :=
    fun i hi => by rw [hent i hi, pathEntry_unsigned]
  have hMc : ∀ i, i < m → ent M i c = if i ∈ wc.map Prod.fst then 1 else 0 :=
    fun i hi => by rw [hentc i hi, pathEntry_unsigned]
  suffices hW : ∃ s' t' W, IsWalk (T.set r f) s' t' W ∧ ∀ i, i < m →
      (mod2 (pivotRaw M r c i j) = if (W.map Prod.fst).count i % 2 = 1 then 1 else 0) by
    obtain ⟨s', t', W, hW, hpar⟩ := hW
    obtain ⟨w', hw', nd', hmem⟩ := walk_reduce hb' hW
    refine ⟨s', t', w', hw', nd', ?_⟩
    intro i hi
    rw [pivot2, ent_ofFn _ hi hj, pathEntry_unsigned, hpar i hi]
    simp only [hmem i]
  by_cases hjc : j = c
  · subst hjc
    refine ⟨xc, yc, _, hD, ?_⟩
    intro i hi
    rw [hDcount, count_nodup ndc]
    by_cases hir : i = r
    · subst hir
      simp [pivotRaw, hp, hrc, mod2]
    · by_cases hic : i ∈ wc.map Prod.fst
      · simp [pivotRaw, hp, hir, hMc i hi, hic, mod2]
      · simp [pivotRaw, hp, hir, hMc i hi, hic, mod2]
  · by_cases hrj : r ∈ w.map Prod.fst
    · obtain ⟨C, E, xj, yj, hsplitj, hC, hE, hrC, hrE, hxyj⟩ := walk_split_at her hw nd hrj
      have hex : ∃ D', IsWalk (T.set r f) xj yj D' ∧
          ∀ i, (D'.map Prod.fst).count i = (wc.map Prod.fst).count i := by
        rcases hxy with ⟨a1, a2⟩ | ⟨a1, a2⟩ <;> rcases hxyj with ⟨b1, b2⟩ | ⟨b1, b2⟩
        · exact ⟨_, by rw [b1, b2, ← a1, ← a2]; exact hD, hDcount⟩
        · exact ⟨_, by rw [b1, b2, ← a1, ← a2]; exact hD.reverse,
            fun i => by rw [revWalk_map_fst, List.count_reverse, hDcount]⟩
        · exact ⟨_, by rw [b1, b2, ← a1, ← a2]; exact hD.reverse,
            fun i => by rw [revWalk_map_fst, List.count_reverse, hDcount]⟩
        · exact ⟨_, by rw [b1, b2, ← a1, ← a2]; exact hD, hDcount⟩
      obtain ⟨D', hD', hD'c⟩ := hex
      refine ⟨s, t, C ++ (D' ++ E), (walk_set f hC hrC).append (hD'.append (walk_set f hE hrE)), ?_⟩
      intro i hi
      have h1 : ((C ++ (D' ++ E)).map Prod.fst).count i =
          (C.map Prod.fst).count i + (if i ∈ wc.map Prod.fst then 1 else 0) + (E.map Prod.fst).count i := by
        simp only [List.map_append, List.count_append, hD'c, count_nodup ndc]; omega
      have h2 : (if i ∈ w.map Prod.fst then 1 else 0) =
          (C.map Prod.fst).count i + (if i = r then 1 else 0) + (E.map Prod.fst).count i := by
        rw [← count_nodup nd, hsplitj]
        simp only [List.count_append, List.count_cons, beq_iff_eq]
        split <;> split <;> omega
      rw [h1]
      have hMr := hM r hr
      rw [if_pos hrj] at hMr
      by_cases hir : i = r
      · subst hir
        have c1 := List.count_eq_zero_of_not_mem hrC
        have c2 := List.count_eq_zero_of_not_mem hrE
        simp [pivotRaw, hp, hMr, hjc, mod2, c1, c2, hrc]
      · rw [if_neg hir] at h2
        by_cases hiw : i ∈ w.map Prod.fst <;> by_cases hic : i ∈ wc.map Prod.fst
        · rw [if_pos hiw] at h2
          have : (C.map Prod.fst).count i + (if i ∈ wc.map Prod.fst then 1 else 0) + (E.map Prod.fst).count i = 2 := by
            rw [if_pos hic]; omega
          rw [this]
          simp [pivotRaw, hp, hMr, hjc, hir, mod2, hM i hi, hMc i hi, hiw, hic]
        · rw [if_pos hiw] at h2
          have : (C.map Prod.fst).count i + (if i ∈ wc.map Prod.fst then 1 else 0) + (E.map Prod.fst).count i = 1 := by
            rw [if_neg hic]; omega
          rw [this]
          simp [pivotRaw, hp, hMr, hjc, hir, mod2, hM i hi, hMc i hi, hiw, hic]
        · rw [if_neg hiw] at h2
          have : (C.map Prod.fst).count i + (if i ∈ wc.map Prod.fst then 1 else 0) + (E.map Prod.fst).count i = 1 := by
            rw [if_pos hic]; omega
          rw [this]
          simp [pivotRaw, hp, hMr, hjc, hir, mod2, hM i hi, hMc i hi, hiw, hic]
        · rw [if_neg hiw] at h2
          have : (C.map Prod.fst).count i + (if i ∈ wc.map Prod.fst then 1 else 0) + (E.map Prod.fst).count i = 0 := by
            rw [if_neg hic]; omega
          rw [this]
          simp [pivotRaw, hp, hMr, hjc, hir, mod2, hM i hi, hMc i hi, hiw, hic]
    · refine ⟨s, t, w, walk_set f hw hrj, ?_⟩
      intro i hi
      have hMr := hM r hr
      rw [if_neg hrj] at hMr
      rw [count_nodup nd]
      by_cases hir : i = r
      · subst hir
        simp [pivotRaw, hp, hMr, hjc, mod2, hrj]
      · by_cases hiw : i ∈ w.map Prod.fst
        · simp [pivotRaw, hp, hMr, hjc, hir, mod2, hM i hi, hiw]
        · simp [pivotRaw, hp, hMr, hjc, hir, mod2, hM i hi, hiw]

/-! ### the signed reading: GF(3) pivots of network matrices -/

/-- signed number of traversals of the edge `i` -/
def net (W : List (Nat × Bool)) (i : Nat) : Int := (W.count (i, true) : Int) - (W.count (i, false) : Int)

def sg (d : Bool) : Int := if d then 1 else -1

theorem net_nil (i : Nat) : net [] i = 0 := by simp [net]

theorem net_append (A B : List (Nat × Bool)) (i : Nat) : net (A ++ B) i = net A i + net B i := by
  simp only [net, List.count_append]; omega

theorem net_cons (k : Nat) (d : Bool) (W : List (Nat × Bool)) (i : Nat) :
    net ((k, d) :: W) i = (if i = k then sg d else 0) + net W i := by
  by_cases h : i = k
  · subst h; cases d <;> simp [net, sg, List.count_cons] <;> omega
  · have h' : ¬ k = i := fun e => h e.symm
    cases d <;> simp [net, sg, List.count_cons, h, h']

theorem net_revWalk (W : List (Nat × Bool)) (i : Nat) : net (revWalk W) i = - net W i := by
  induction W with
  | nil => simp [revWalk, net]
  | cons x p ih =>
    obtain ⟨k, d⟩ := x
    have : revWalk ((k, d) :: p) = revWalk p ++ [(k, !d)] := by simp [revWalk]
    rw [this, net_append, ih, net_cons, net_cons, net_nil]
    by_cases h : i = k <;> cases d <;> simp [h, sg]

theorem net_zero {W : List (Nat × Bool)} {k : Nat} (h : k ∉ W.map Prod.fst) : net W k = 0 := by
  have h1 := List.count_eq_zero_of_not_mem (not_mem_of_not_mem_map_fst h true)
  have h2 := List.count_eq_zero_of_not_mem (not_mem_of_not_mem_map_fst h false)
  simp [net, h1, h2]

theorem net_nodup {w : List (Nat × Bool)} (nd : (w.map Prod.fst).Nodup) (i : Nat) : net w i = pathEntry true w i := by
  rw [pathEntry_signed nd]
  have ndw : w.Nodup := List.Nodup.of_map _ nd
  by_cases h1 : (i, true) ∈ w
  · have h2 : (i, false) ∉ w := fun h2 => not_both_dirs nd h1 h2
    simp [net, h1, List.count_eq_one_of_mem ndw h1, List.count_eq_zero_of_not_mem h2]
  · by_cases h2 : (i, false) ∈ w
    · simp [net, h1, h2, List.count_eq_one_of_mem ndw h2, List.count_eq_zero_of_not_mem h1]
    · simp [net, h1, h2, List.count_eq_zero_of_not_mem h1, List.count_eq_zero_of_not_mem h2]

theorem cons_inv_dir {T : List Edge} {s t k : Nat} {d : Bool} {p : List (Nat × Bool)}
    (h : IsWalk T s t ((k, d) :: p)) :
    ∃ e, T[k]? = some e ∧ IsWalk T s (if d then e.head else e.tail) [(k, d)] ∧
      IsWalk T (if d then e.head else e.tail) t p ∧ s = (if d then e.tail else e.head) := by
  cases h with
  | @fwd _ _ _ e _ hk ht hp => exact ⟨e, hk, IsWalk.fwd hk ht (IsWalk.nil _), hp, ht.symm⟩
  | @bwd _ _ _ e _ hk hh hp => exact ⟨e, hk, IsWalk.bwd hk hh (IsWalk.nil _), hp, hh.symm⟩

theorem walk_split_dir {T : List Edge} {r : Nat} {e : Edge} (he : T[r]? = some e) {s t : Nat} {w : List (Nat × Bool)}
    (h : IsWalk T s t w) (nd : (w.map Prod.fst).Nodup) (hr : r ∈ w.map Prod.fst) :
    ∃ A B d, w = A ++ (r, d) :: B ∧ IsWalk T s (if d then e.tail else e.head) A ∧
      IsWalk T (if d then e.head else e.tail) t B ∧ r ∉ A.map Prod.fst ∧ r ∉ B.map Prod.fst ∧
      (A.map Prod.fst).Nodup := by
  obtain ⟨⟨k', d⟩, hx, hk'⟩ := List.mem_map.mp hr
  simp only at hk'; subst hk'
  obtain ⟨A, B, rfl⟩ := List.append_of_mem hx
  obtain ⟨x, a1, a2⟩ := walk_append_inv h
  obtain ⟨e2, he2, _, hB, hs⟩ := cons_inv_dir a2
  rw [he] at he2; cases he2
  simp only [List.map_append, List.map_cons, List.nodup_append, List.nodup_cons] at nd
  obtain ⟨nd1, ⟨hk2, nd2⟩, hdis⟩ := nd
  exact ⟨A, B, d, rfl, hs ▸ a1, hB, fun h => hdis k' h k' List.mem_cons_self rfl, hk2, nd1⟩

theorem reduce_step_s {T : List Edge} (hb : IsBridgeForest T) {k : Nat} {e : Edge} (hk : T[k]? = some e) {d : Bool}
    {t : Nat} {p' : List (Nat × Bool)}
    (hp' : IsWalk T (if d then e.head else e.tail) t p') (nd' : (p'.map Prod.fst).Nodup) (hkp : k ∈ p'.map Prod.fst) :
    ∃ p2, IsWalk T (if d then e.tail else e.head) t p2 ∧ (p2.map Prod.fst).Nodup ∧ k ∉ p2.map Prod.fst ∧
      p' = (k, !d) :: p2 := by
  obtain ⟨A, B, d', rfl, hA, hB, hkA, hkB, ndA⟩ := walk_split_dir hk hp' nd' hkp
  have hbr := bridge_tail_head hb hk
  have hreach := hA.reachOn (P := fun j => j ≠ k) (fun y hy hyk => hkA (List.mem_map.mpr ⟨y, hy, hyk⟩))
  have ndB : (B.map Prod.fst).Nodup := by
    simp only [List.map_append, List.map_cons, List.nodup_append, List.nodup_cons] at nd'
    exact nd'.2.1.2
  cases d <;> cases d'
  · exact absurd hreach hbr
  · simp only [if_true, if_false, Bool.false_eq_true] at hA hB hreach ⊢
    have := closed_walk_nil hb hA ndA
    subst this
    exact ⟨B, hB, ndB, hkB, rfl⟩
  · simp only [if_true, if_false, Bool.false_eq_true] at hA hB hreach ⊢
    have := closed_walk_nil hb hA ndA
    subst this
    exact ⟨B, hB, ndB, hkB, rfl⟩
  · exact absurd hreach.symm hbr

/-- signed version of `walk_reduce` -/
theorem walk_reduce_s {T : List Edge} (hb : IsBridgeForest T) : ∀ {w : List (Nat × Bool)} {s t : Nat}, IsWalk T s t w →
    ∃ w', IsWalk T s t w' ∧ (w'.map Prod.fst).Nodup ∧ ∀ i, net w' i = net w i := by
  intro w
  induction w with
  | nil => intro s t h; exact ⟨[], h, by simp, fun _ => rfl⟩
  | cons x p ih =>
    intro s t h
    obtain ⟨k, d⟩ := x
    obtain ⟨e, he, h1, hp, hs⟩ := cons_inv_dir h
    obtain ⟨p', hp', nd', hnet⟩ := ih hp
    by_cases hkp : k ∈ p'.map Prod.fst
    · obtain ⟨p2, h2, nd2, hk2, rfl⟩ := reduce_step_s hb he hp' nd' hkp
      refine ⟨p2, hs ▸ h2, nd2, ?_⟩
      intro i
      have := hnet i
      rw [net_cons] at this
      rw [net_cons, ← this]
      by_cases hik : i = k <;> cases d <;> simp [hik, sg]
    · refine ⟨[(k, d)] ++ p', h1.append hp', by
        simp only [List.cons_append, List.nil_append, List.map_cons, List.nodup_cons]; exact ⟨hkp, nd'⟩, ?_⟩
      intro i
      simp only [List.cons_append, List.nil_append]
      rw [net_cons, net_cons, hnet i]

theorem pivotRaw_rc (M : Mat) (r c : Nat) : pivotRaw M r c r c = - ent M r c := by simp [pivotRaw]
theorem pivotRaw_rj (M : Mat) (r c : Nat) {j : Nat} (h : j ≠ c) : pivotRaw M r c r j = ent M r c * ent M r j := by
  simp [pivotRaw, h]
theorem pivotRaw_ic (M : Mat) (r c : Nat) {i : Nat} (h : i ≠ r) : pivotRaw M r c i c = ent M r c * ent M i c := by
  simp [pivotRaw, h]
theorem pivotRaw_ij (M : Mat) (r c : Nat) {i j : Nat} (h : i ≠ r) (h' : j ≠ c) :
    pivotRaw M r c i j = ent M i j - ent M r c * ent M i c * ent M r j := by
  simp [pivotRaw, h, h']

theorem realises_pivot3 {m n : Nat} {M : Mat} (h : Realises true m n M) {r c : Nat} (hr : r < m) (hc : c < n)
    (hp : ent M r c ≠ 0) : Realises true m n (pivot3 m n M r c) := by
  obtain ⟨T, hlen, hb, hcols⟩ := h
  obtain ⟨sc, tc, wc, hwc, ndc, hentc⟩ := hcols c hc
  have hrc : r ∈ wc.map Prod.fst := by
    by_contra hn
    exact hp ((hentc r hr).trans (pathEntry_zero_of_not_mem hn))
  have hrlt : r < T.length := by omega
  have her : T[r]? = some T[r] := List.getElem?_eq_getElem hrlt
  obtain ⟨A, B, d, hsplit, hA, hB, hrA, hrB, _⟩ := walk_split_dir her hwc ndc hrc
  let f : Edge := ⟨0, sc, tc, false⟩
  have hb' : IsBridgeForest (T.set r f) := set_bridgeForest hb her hwc ndc hrc f rfl rfl
  have hf : (T.set r f)[r]? = some f := List.getElem?_set_self hrlt
  have hD : IsWalk (T.set r f) (if d then T[r].tail else T[r].head) (if d then T[r].head else T[r].tail)
      (revWalk A ++ (r, true) :: revWalk B) :=
    (walk_set f hA.reverse (by rw [revWalk_map_fst]; simpa using hrA)).append
      (IsWalk.fwd hf rfl (walk_set f hB.reverse (by rw [revWalk_map_fst]; simpa using hrB)))
  have hMc : ∀ i, i < m → ent M i c = net A i + (if i = r then sg d else 0) + net B i := by
    intro i hi
    rw [hentc i hi, ← net_nodup ndc, hsplit, net_append, net_cons]; omega
  have hDnet : ∀ i, net (revWalk A ++ (r, true) :: revWalk B) i =
      - net A i + (if i = r then 1 else 0) - net B i := by
    intro i
    rw [net_append, net_cons, net_revWalk, net_revWalk]
    simp only [sg, if_true]; omega
  have hAr := net_zero hrA
  have hBr := net_zero hrB
  have hε : ent M r c = sg d := by rw [hMc r hr, hAr, hBr]; simp
  refine ⟨T.set r f, by rw [List.length_set]; exact hlen, hb', ?_⟩
  intro j hj
  obtain ⟨s, t, w, hw, nd, hent⟩ := hcols j hj
  suffices hW : ∃ s' t' W, IsWalk (T.set r f) s' t' W ∧ ∀ i, i < m → pivotRaw M r c i j = net W i by
    obtain ⟨s', t', W, hW, hpar⟩ := hW
    obtain ⟨w', hw', nd', hnet⟩ := walk_reduce_s hb' hW
    refine ⟨s', t', w', hw', nd', ?_⟩
    intro i hi
    rw [pivot3, ent_ofFn _ hi hj, hpar i hi, ← hnet i, net_nodup nd']
    rcases pathEntry_cases true w' i with h | h | ⟨_, h⟩ <;> rw [h] <;> decide
  by_cases hjc : j = c
  · subst hjc
    cases d
    · refine ⟨_, _, _, hD, ?_⟩
      intro i hi
      rw [hDnet]
      by_cases hir : i = r
      · subst hir; rw [pivotRaw_rc, hε]; simp [sg, hAr, hBr]
      · rw [pivotRaw_ic _ _ _ hir, hε, hMc i hi]; simp [sg, hir]; omega
    · refine ⟨_, _, _, hD.reverse, ?_⟩
      intro i hi
      rw [net_revWalk, hDnet]
      by_cases hir : i = r
      · subst hir; rw [pivotRaw_rc, hε]; simp [sg, hAr, hBr]
      · rw [pivotRaw_ic _ _ _ hir, hε, hMc i hi]; simp [sg, hir]; omega
  · have hMj : ∀ i, i < m → ent M i j = net w i := fun i hi => by rw [hent i hi, net_nodup nd]
    by_cases hrj : r ∈ w.map Prod.fst
    · obtain ⟨C, E, dj, hsplitj, hC, hE, hrC, hrE, _⟩ := walk_split_dir her hw nd hrj
      have hCr := net_zero hrC
      have hEr := net_zero hrE
      have hwn : ∀ i, net w i = net C i + (if i = r then sg dj else 0) + net E i := by
        intro i; rw [hsplitj, net_append, net_cons]; omega
      have hex : ∃ D', IsWalk (T.set r f) (if dj then T[r].tail else T[r].head)
          (if dj then T[r].head else T[r].tail) D' ∧
          ∀ i, net D' i = sg d * sg dj * (- net A i + (if i = r then 1 else 0) - net B i) := by
        cases d <;> cases dj
        · exact ⟨_, by simpa using hD, fun i => by rw [hDnet]; simp [sg]⟩
        · exact ⟨_, by simpa using hD.reverse, fun i => by rw [net_revWalk, hDnet]; simp [sg]⟩
        · exact ⟨_, by simpa using hD.reverse, fun i => by rw [net_revWalk, hDnet]; simp [sg]⟩
        · exact ⟨_, by simpa using hD, fun i => by rw [hDnet]; simp [sg]⟩
      obtain ⟨D', hD', hD'n⟩ := hex
      refine ⟨s, t, C ++ (D' ++ E), (walk_set f hC hrC).append (hD'.append (walk_set f hE hrE)), ?_⟩
      intro i hi
      rw [net_append, net_append, hD'n]
      by_cases hir : i = r
      · subst hir
        rw [pivotRaw_rj _ _ _ hjc, hε, hMj i hr, hwn, hCr, hEr, hAr, hBr]
        simp
      · rw [pivotRaw_ij _ _ _ hir hjc, hε, hMj i hi, hMj r hr, hMc i hi, hwn i, hwn r, hCr, hEr]
        cases d <;> cases dj <;> simp [sg, hir] <;> omega
    · refine ⟨s, t, w, walk_set f hw hrj, ?_⟩
      intro i hi
      have hz := net_zero hrj
      by_cases hir : i = r
      · subst hir
        rw [pivotRaw_rj _ _ _ hjc, hMj i hr, hz]; simp
      · rw [pivotRaw_ij _ _ _ hir hjc, hMj i hi, hMj r hr, hz]; simp

end Cmr.GraPivot
