/-
  Helper lemmas for C08 (series-parallel reductions), core Lean only.

  Everything is stated for an abstract entry function `E : Nat → Nat → Int` so that rows and columns are handled by
  the same lemma (columns = rows of `flipE E`).
-/
import Cmr.SP
set_option linter.unusedSimpArgs false
set_option linter.unusedVariables false
namespace Cmr

/-- the transposed entry function -/
def flipE (E : Nat → Nat → Int) : Nat → Nat → Int := fun j i => E i j

/-- line `r` is zero on the index set `C` -/
def LineZero (E : Nat → Nat → Int) (C : List Nat) (r : Nat) : Prop := ∀ c ∈ C, E r c = 0
/-- line `r` has, on `C`, its only nonzero at `c` -/
def LineUnit (E : Nat → Nat → Int) (C : List Nat) (r c : Nat) : Prop :=
  c ∈ C ∧ E r c ≠ 0 ∧ ∀ c' ∈ C, E r c' ≠ 0 → c' = c
/-- line `r` equals line `r2` on `C`, or (ternary case) is its negation -/
def LineCopy (t : Bool) (E : Nat → Nat → Int) (C : List Nat) (r r2 : Nat) : Prop :=
  (∀ c ∈ C, E r c = E r2 c) ∨ (t = true ∧ ∀ c ∈ C, E r c = - E r2 c)
/-- line `r ∈ R` may be removed: zero, unit or (negated) copy of another line of `R` -/
def LineRem (t : Bool) (E : Nat → Nat → Int) (R C : List Nat) (r : Nat) : Prop :=
  r ∈ R ∧ (LineZero E C r ∨ (∃ c, LineUnit E C r c) ∨ ∃ r2, r2 ∈ R ∧ r2 ≠ r ∧ LineCopy t E C r r2)

/-! ### the Boolean tests of the model, generically -/

theorem isZeroVec_map (E : Nat → Nat → Int) (C : List Nat) (r : Nat) :
    isZeroVec (C.map (fun c => E r c)) = true ↔ LineZero E C r := by
  simp [isZeroVec, LineZero]

theorem parallelVec_map (t : Bool) (E : Nat → Nat → Int) (C : List Nat) (r r2 : Nat) :
    parallelVec t (C.map (fun c => E r c)) (C.map (fun c => E r2 c)) = true ↔ LineCopy t E C r r2 := by
  simp [parallelVec, negVec, LineCopy, List.map_inj_left]

theorem filter_nz_nil (E : Nat → Nat → Int) (C : List Nat) (r : Nat) :
    C.filter (fun c => E r c != 0) = [] ↔ LineZero E C r := by
  simp [List.filter_eq_nil_iff, LineZero]

theorem lineUnit_of_filter {E : Nat → Nat → Int} {C : List Nat} {r c : Nat}
    (h : C.filter (fun c => E r c != 0) = [c]) : LineUnit E C r c := by
  have hmem : ∀ x, x ∈ C.filter (fun c => E r c != 0) ↔ x = c := by
    intro x; rw [h]; simp
  have hc := (hmem c).mpr rfl
  rw [List.mem_filter] at hc
  refine ⟨hc.1, by simpa using hc.2, ?_⟩
  intro c' hc' hne
  exact (hmem c').mp (List.mem_filter.mpr ⟨hc', by simpa using hne⟩)

theorem filter_of_lineUnit {E : Nat → Nat → Int} {C : List Nat} {r c : Nat} (hC : C.Nodup)
    (h : LineUnit E C r c) : C.filter (fun c => E r c != 0) = [c] := by
  obtain ⟨hc, hne, hall⟩ := h
  have h1 : C.filter (fun c => E r c != 0) = C.filter (fun x => x == c) := by
    apply List.filter_congr
    intro x hx
    by_cases hxc : x = c
    · subst hxc; simp [hne]
    · have : E r x = 0 := by
        by_cases h0 : E r x = 0
        · exact h0
        · exact absurd (hall x hx h0) hxc
      simp [this, hxc]
  rw [h1, List.filter_beq, hC.count]
  simp [hc]

/-- the test used by `allRemovals` (and, negated, by `findReducible`) -/
def lineRemB (t : Bool) (E : Nat → Nat → Int) (R C : List Nat) (r : Nat) : Bool :=
  decide ((C.filter (fun c => E r c != 0)).length ≤ 1) ||
    R.any (fun r2 => r2 != r && parallelVec t (C.map (fun c => E r c)) (C.map (fun c => E r2 c)))

theorem lineRemB_sound {t : Bool} {E : Nat → Nat → Int} {R C : List Nat} {r : Nat} (hr : r ∈ R)
    (h : lineRemB t E R C r = true) : LineRem t E R C r := by
  refine ⟨hr, ?_⟩
  simp only [lineRemB, Bool.or_eq_true, decide_eq_true_eq, List.any_eq_true, Bool.and_eq_true, bne_iff_ne,
    parallelVec_map] at h
  rcases h with h | ⟨r2, h2, hne, hp⟩
  · cases hf : C.filter (fun c => E r c != 0) with
    | nil => exact Or.inl ((filter_nz_nil E C r).mp hf)
    | cons a l =>
      cases l with
      | nil => exact Or.inr (Or.inl ⟨a, lineUnit_of_filter hf⟩)
      | cons b l => rw [hf] at h; simp at h
  · exact Or.inr (Or.inr ⟨r2, h2, hne, hp⟩)

theorem lineRemB_complete {t : Bool} {E : Nat → Nat → Int} {R C : List Nat} {r : Nat} (hC : C.Nodup)
    (h : LineRem t E R C r) : lineRemB t E R C r = true := by
  simp only [lineRemB, Bool.or_eq_true, decide_eq_true_eq, List.any_eq_true, Bool.and_eq_true, bne_iff_ne,
    parallelVec_map]
  rcases h.2 with h | ⟨c, h⟩ | ⟨r2, h2, hne, hp⟩
  · left; rw [(filter_nz_nil E C r).mpr h]; simp
  · left; rw [filter_of_lineUnit hC h]; simp
  · right; exact ⟨r2, h2, hne, hp⟩

theorem lineRemB_iff {t : Bool} {E : Nat → Nat → Int} {R C : List Nat} {r : Nat} (hC : C.Nodup) (hr : r ∈ R) :
    lineRemB t E R C r = true ↔ LineRem t E R C r :=
  ⟨lineRemB_sound hr, lineRemB_complete hC⟩

/-! ### series-parallel on entry functions; signed embeddings -/

/-- some sequence of line removals empties both index sets -/
inductive SPE (t : Bool) (E : Nat → Nat → Int) : List Nat → List Nat → Prop
  | nil : SPE t E [] []
  | row {R C : List Nat} {r : Nat} : LineRem t E R C r → SPE t E (R.erase r) C → SPE t E R C
  | col {R C : List Nat} {c : Nat} : LineRem t (flipE E) C R c → SPE t E R (C.erase c) → SPE t E R C

/-- an admissible line scaling factor: `1`, or `-1` in the ternary case -/
def Sgn (t : Bool) (a : Int) : Prop := a = 1 ∨ (t = true ∧ a = -1)

theorem Sgn.ne_zero {t : Bool} {a : Int} (h : Sgn t a) : a ≠ 0 := by
  rcases h with h | ⟨_, h⟩ <;> omega

theorem lineCopy_iff_sgn {t : Bool} {E : Nat → Nat → Int} {C : List Nat} {r r2 : Nat} :
    LineCopy t E C r r2 ↔ ∃ e, Sgn t e ∧ ∀ c ∈ C, E r c = e * E r2 c := by
  constructor
  · rintro (h | ⟨ht, h⟩)
    · exact ⟨1, Or.inl rfl, fun c hc => by rw [h c hc]; simp⟩
    · exact ⟨-1, Or.inr ⟨ht, rfl⟩, fun c hc => by rw [h c hc]; simp⟩
  · rintro ⟨e, he | ⟨ht, he⟩, h⟩
    · exact Or.inl (fun c hc => by rw [h c hc, he]; simp)
    · exact Or.inr ⟨ht, fun c hc => by rw [h c hc, he]; simp⟩

/-- `(R', C')` with entries `E'` embeds into `(R, C)` with entries `E` via the injective line maps `f`, `g`, up to
scaling the lines by the signs `s`, `u` -/
structure Emb (t : Bool) (E' : Nat → Nat → Int) (R' C' : List Nat) (E : Nat → Nat → Int) (R C : List Nat)
    (f g : Nat → Nat) (s u : Nat → Int) : Prop where
  mapR : ∀ x ∈ R', f x ∈ R
  mapC : ∀ y ∈ C', g y ∈ C
  injR : ∀ x ∈ R', ∀ x' ∈ R', f x = f x' → x = x'
  injC : ∀ y ∈ C', ∀ y' ∈ C', g y = g y' → y = y'
  sgnR : ∀ x, Sgn t (s x)
  sgnC : ∀ y, Sgn t (u y)
  ent : ∀ x ∈ R', ∀ y ∈ C', E' x y = s x * u y * E (f x) (g y)

theorem Emb.flip {t : Bool} {E' E : Nat → Nat → Int} {R' C' R C : List Nat} {f g : Nat → Nat} {s u : Nat → Int}
    (h : Emb t E' R' C' E R C f g s u) : Emb t (flipE E') C' R' (flipE E) C R g f u s :=
  { mapR := h.mapC, mapC := h.mapR, injR := h.injC, injC := h.injR, sgnR := h.sgnC, sgnC := h.sgnR
    ent := fun y hy x hx => by
      show E' x y = u y * s x * E (f x) (g y)
      rw [h.ent x hx y hy, Int.mul_comm (u y)] }

/-- One induction step of the embedding theorem, for the case that the big matrix loses the row `r`.  `P` is the
conclusion (`SPE` of the small matrix, possibly transposed), `hP` its closure under removing a removable row and `ih`
the induction hypothesis for the big matrix without `r`. -/
theorem embed_step {t : Bool} {E E' : Nat → Nat → Int} {R C R' C' : List Nat} {r : Nat}
    {f g : Nat → Nat} {s u : Nat → Int} {P : List Nat → List Nat → Prop}
    (hrem : LineRem t E R C r)
    (hP : ∀ r', LineRem t E' R' C' r' → P (R'.erase r') C' → P R' C')
    (ih : ∀ (R'' : List Nat) (f g : Nat → Nat) (s u : Nat → Int), R''.Nodup →
      Emb t E' R'' C' E (R.erase r) C f g s u → P R'' C')
    (hR' : R'.Nodup) (emb : Emb t E' R' C' E R C f g s u) : P R' C' := by
  by_cases hx : ∃ x ∈ R', f x = r
  · obtain ⟨x, hxR, hfx⟩ := hx
    -- the small matrix without `x` embeds into the big one without `r`
    have hsub : Emb t E' (R'.erase x) C' E (R.erase r) C f g s u :=
      { mapR := fun z hz => by
          have hz' := (hR'.mem_erase_iff).mp hz
          have hne : f z ≠ r := fun h => hz'.1 (emb.injR z hz'.2 x hxR (h.trans hfx.symm))
          exact (List.mem_erase_of_ne hne).mpr (emb.mapR z hz'.2)
        mapC := emb.mapC
        injR := fun z hz z' hz' => emb.injR z (List.mem_of_mem_erase hz) z' (List.mem_of_mem_erase hz')
        injC := emb.injC, sgnR := emb.sgnR, sgnC := emb.sgnC
        ent := fun z hz => emb.ent z (List.mem_of_mem_erase hz) }
    have hPx : P (R'.erase x) C' := ih _ f g s u (hR'.erase x) hsub
    have hzero : ∀ y ∈ C', E r (g y) = 0 → E' x y = 0 := by
      intro y hy h0; rw [emb.ent x hxR y hy, hfx, h0]; simp
    have hnz : ∀ y ∈ C', E' x y ≠ 0 → E r (g y) ≠ 0 := fun y hy h h0 => h (hzero y hy h0)
    rcases hrem.2 with hz | ⟨c, hc, hcne, hcu⟩ | ⟨r2, hr2, hne, hcp⟩
    · exact hP x ⟨hxR, Or.inl (fun y hy => hzero y hy (hz _ (emb.mapC y hy)))⟩ hPx
    · by_cases hy : ∃ y ∈ C', g y = c
      · obtain ⟨y, hyC, hgy⟩ := hy
        refine hP x ⟨hxR, Or.inr (Or.inl ⟨y, hyC, ?_, ?_⟩)⟩ hPx
        · rw [emb.ent x hxR y hyC, hfx, hgy]
          exact Int.mul_ne_zero (Int.mul_ne_zero (emb.sgnR x).ne_zero (emb.sgnC y).ne_zero) hcne
        · intro y' hy' h
          exact emb.injC y' hy' y hyC ((hcu _ (emb.mapC y' hy') (hnz y' hy' h)).trans hgy.symm)
      · refine hP x ⟨hxR, Or.inl (fun y hyC => hzero y hyC ?_)⟩ hPx
        by_cases h0 : E r (g y) = 0
        · exact h0
        · exact absurd ⟨y, hyC, hcu _ (emb.mapC y hyC) h0⟩ hy
    · obtain ⟨e, he, hcp⟩ := lineCopy_iff_sgn.mp hcp
      by_cases hx2 : ∃ x2 ∈ R', f x2 = r2
      · obtain ⟨x2, hx2R, hfx2⟩ := hx2
        have hne' : x2 ≠ x := fun h => hne (by rw [← hfx2, h, hfx])
        refine hP x ⟨hxR, Or.inr (Or.inr ⟨x2, hx2R, hne', ?_⟩)⟩ hPx
        -- the sign relating the two rows of the small matrix
        obtain ⟨d, hd, hdx⟩ : ∃ d, Sgn t d ∧ ∀ z : Int, s x * (e * z) = d * (s x2 * z) := by
          rcases emb.sgnR x with ha | ⟨ht, ha⟩ <;> rcases emb.sgnR x2 with hb | ⟨ht', hb⟩ <;>
            rcases he with he | ⟨ht'', he⟩ <;> rw [ha, hb, he]
          · exact ⟨1, Or.inl rfl, fun z => by simp⟩
          · exact ⟨-1, Or.inr ⟨ht'', rfl⟩, fun z => by simp⟩
          · exact ⟨-1, Or.inr ⟨ht', rfl⟩, fun z => by simp⟩
          · exact ⟨1, Or.inl rfl, fun z => by simp⟩
          · exact ⟨-1, Or.inr ⟨ht, rfl⟩, fun z => by simp⟩
          · exact ⟨1, Or.inl rfl, fun z => by simp⟩
          · exact ⟨1, Or.inl rfl, fun z => by simp⟩
          · exact ⟨-1, Or.inr ⟨ht, rfl⟩, fun z => by simp⟩
        refine lineCopy_iff_sgn.mpr ⟨d, hd, fun y hy => ?_⟩
        rw [emb.ent x hxR y hy, emb.ent x2 hx2R y hy, hfx, hfx2, hcp _ (emb.mapC y hy)]
        have := hdx (u y * E r2 (g y))
        simp only [Int.mul_assoc] at this ⊢
        rw [Int.mul_left_comm (u y) e, this]
      · -- the mate is not in the small matrix: re-route `x` to the mate
        have hsgn : Sgn t (s x * e) := by
          rcases emb.sgnR x with ha | ⟨ht, ha⟩ <;> rcases he with he | ⟨ht', he⟩ <;> rw [ha, he]
          · exact Or.inl rfl
          · exact Or.inr ⟨ht', rfl⟩
          · exact Or.inr ⟨ht, rfl⟩
          · exact Or.inl rfl
        have hf2 : ∀ z ∈ R', f z ≠ r2 := fun z hz h => hx2 ⟨z, hz, h⟩
        refine ih R' (fun z => if z = x then r2 else f z) g (fun z => if z = x then s x * e else s z) u hR' ?_
        exact
          { mapR := fun z hz => by
              by_cases hzx : z = x
              · simp only [hzx, if_true]
                exact (List.mem_erase_of_ne hne).mpr hr2
              · simp only [hzx, if_false]
                have : f z ≠ r := fun h => hzx (emb.injR z hz x hxR (h.trans hfx.symm))
                exact (List.mem_erase_of_ne this).mpr (emb.mapR z hz)
            mapC := emb.mapC
            injR := fun z hz z' hz' h => by
              by_cases hzx : z = x <;> by_cases hzx' : z' = x <;> simp only [hzx, hzx', if_true, if_false] at h
              · rw [hzx, hzx']
              · exact absurd h.symm (hf2 z' hz')
              · exact absurd h (hf2 z hz)
              · exact emb.injR z hz z' hz' h
            injC := emb.injC
            sgnR := fun z => by
              by_cases hzx : z = x
              · simp only [hzx, if_true]; exact hsgn
              · simp only [hzx, if_false]; exact emb.sgnR z
            sgnC := emb.sgnC
            ent := fun z hz y hy => by
              by_cases hzx : z = x
              · simp only [hzx, if_true]
                rw [emb.ent x hxR y hy, hfx, hcp _ (emb.mapC y hy)]
                simp only [Int.mul_assoc]
                rw [Int.mul_left_comm (u y) e]
              · simp only [hzx, if_false]
                exact emb.ent z hz y hy }
  · -- no line of the small matrix is mapped to `r`
    refine ih R' f g s u hR' ?_
    exact
      { mapR := fun z hz => (List.mem_erase_of_ne (fun h => hx ⟨z, hz, h⟩)).mpr (emb.mapR z hz)
        mapC := emb.mapC, injR := emb.injR, injC := emb.injC, sgnR := emb.sgnR, sgnC := emb.sgnC, ent := emb.ent }

/-- **Signed embeddings preserve series-parallelness**: if `(R', C')` (duplicate-free) embeds into a series-parallel
`(R, C)` up to line signs, it is series-parallel. -/
theorem SPE.embed {t : Bool} {E : Nat → Nat → Int} {R C : List Nat} (h : SPE t E R C) :
    ∀ {E' : Nat → Nat → Int} {R' C' : List Nat} {f g : Nat → Nat} {s u : Nat → Int},
      R'.Nodup → C'.Nodup → Emb t E' R' C' E R C f g s u → SPE t E' R' C' := by
  induction h with
  | nil =>
    intro E' R' C' f g s u _ _ emb
    have hR : R' = [] := by
      cases R' with
      | nil => rfl
      | cons a l => exact absurd (emb.mapR a (List.mem_cons_self)) (List.not_mem_nil)
    have hC : C' = [] := by
      cases C' with
      | nil => rfl
      | cons a l => exact absurd (emb.mapC a (List.mem_cons_self)) (List.not_mem_nil)
    subst hR hC
    exact SPE.nil
  | row hrem _ ih =>
    intro E' R' C' f g s u hR' hC' emb
    exact embed_step (P := fun R' C' => SPE t E' R' C') hrem (fun r' h hp => SPE.row h hp)
      (fun R'' f g s u hn hemb => ih hn hC' hemb) hR' emb
  | col hrem _ ih =>
    intro E' R' C' f g s u hR' hC' emb
    exact embed_step (E := flipE E) (E' := flipE E') (P := fun C' R' => SPE t E' R' C') hrem
      (fun c' h hp => SPE.col h hp)
      (fun C'' g f u s hn hemb => ih hR' hn hemb.flip) hC' emb.flip

/-- sub-index-sets of a series-parallel matrix are series-parallel -/
theorem SPE.mono {t : Bool} {E : Nat → Nat → Int} {R C R' C' : List Nat} (h : SPE t E R C)
    (hR' : R'.Nodup) (hC' : C'.Nodup) (hR : ∀ x ∈ R', x ∈ R) (hC : ∀ y ∈ C', y ∈ C) : SPE t E R' C' :=
  h.embed (f := id) (g := id) (s := fun _ => 1) (u := fun _ => 1) hR' hC'
    { mapR := hR, mapC := hC, injR := fun _ _ _ _ h => h, injC := fun _ _ _ _ h => h
      sgnR := fun _ => Or.inl rfl, sgnC := fun _ => Or.inl rfl, ent := fun _ _ _ _ => by simp }

theorem SPE.inv {t : Bool} {E : Nat → Nat → Int} {R C : List Nat} (h : SPE t E R C) :
    (R = [] ∧ C = []) ∨ (∃ r, LineRem t E R C r) ∨ (∃ c, LineRem t (flipE E) C R c) := by
  cases h with
  | nil => exact Or.inl ⟨rfl, rfl⟩
  | row h _ => exact Or.inr (Or.inl ⟨_, h⟩)
  | col h _ => exact Or.inr (Or.inr ⟨_, h⟩)

/-! ### the encoding of lines in `Reduction`s -/

@[simp] theorem elemIsRow_row (r : Nat) : elemIsRow (-1 - (r : Int)) = true := by
  simp [elemIsRow]; omega
@[simp] theorem elemRow_row (r : Nat) : elemRow (-1 - (r : Int)) = r := by
  simp [elemRow]; omega
@[simp] theorem elemIsRow_col (c : Nat) : elemIsRow ((c : Int) + 1) = false := by
  simp [elemIsRow]; omega
@[simp] theorem elemCol_col (c : Nat) : elemCol ((c : Int) + 1) = c := by
  simp [elemCol]
theorem rowCode_ne_zero (r : Nat) : (-1 - (r : Int) == 0) = false := by
  simp; omega
theorem colCode_ne_zero (c : Nat) : ((c : Int) + 1 == 0) = false := by
  simp; omega

/-! ### the generic search of `findReducible` -/

/-- `findReducible` searches the rows with this function and then the columns with the same function on the
transposed entries (`findReducible_eq`) -/
def findLineB (t : Bool) (E : Nat → Nat → Int) (R C : List Nat) (mk0 : Nat → Reduction)
    (mk1 mk2 : Nat → Nat → Reduction) : Option Reduction :=
  R.findSome? fun r =>
    if (C.filter (fun c => E r c != 0)).isEmpty then some (mk0 r)
    else if (C.filter (fun c => E r c != 0)).length == 1 then some (mk1 r ((C.filter (fun c => E r c != 0)).headD 0))
    else (R.find? (fun r2 => r2 != r && parallelVec t (C.map (fun c => E r c)) (C.map (fun c => E r2 c)))).map (mk2 r)

theorem findReducible_eq (t : Bool) (M : Mat) (R C : List Nat) :
    findReducible t M R C =
      match findLineB t (ent M) R C (fun r => ⟨-1 - (r : Int), 0⟩) (fun r c => ⟨-1 - (r : Int), (c : Int) + 1⟩)
          (fun r r2 => ⟨-1 - (r : Int), -1 - (r2 : Int)⟩) with
      | some x => some x
      | none => findLineB t (flipE (ent M)) C R (fun c => ⟨(c : Int) + 1, 0⟩)
          (fun c r => ⟨(c : Int) + 1, -1 - (r : Int)⟩) (fun c c2 => ⟨(c : Int) + 1, (c2 : Int) + 1⟩) := by
  have hcoe : ∀ (x : Option Nat) (f : Int → Reduction),
      Option.map f (do let a ← x; pure (a : Int)) = Option.map (fun c2 : Nat => f c2) x := by
    intro x f; cases x <;> rfl
  unfold findReducible findLineB flipE rowOn colOn
  simp only [hcoe]
  rfl

theorem findLineB_some {t : Bool} {E : Nat → Nat → Int} {R C : List Nat} {mk0 : Nat → Reduction}
    {mk1 mk2 : Nat → Nat → Reduction} {red : Reduction} (h : findLineB t E R C mk0 mk1 mk2 = some red) :
    ∃ r ∈ R, (LineZero E C r ∧ red = mk0 r) ∨ (∃ c, C.filter (fun c => E r c != 0) = [c] ∧ red = mk1 r c) ∨
      (∃ r2 ∈ R, r2 ≠ r ∧ LineCopy t E C r r2 ∧ red = mk2 r r2) := by
  obtain ⟨r, hr, h⟩ := List.exists_of_findSome?_eq_some h
  refine ⟨r, hr, ?_⟩
  split at h
  · rename_i h0
    injection h with h
    exact Or.inl ⟨(filter_nz_nil E C r).mp (List.isEmpty_iff.mp h0), h.symm⟩
  · split at h
    · rename_i _ h1
      injection h with h
      obtain ⟨c, hc⟩ := List.length_eq_one_iff.mp (by simpa using h1)
      rw [hc] at h
      exact Or.inr (Or.inl ⟨c, hc, h.symm⟩)
    · cases hf : R.find? (fun r2 => r2 != r && parallelVec t (C.map (fun c => E r c)) (C.map (fun c => E r2 c))) with
      | none => rw [hf] at h; cases h
      | some r2 =>
        rw [hf] at h
        injection h with h
        have hp := List.find?_some hf
        simp only [Bool.and_eq_true, bne_iff_ne, parallelVec_map] at hp
        exact Or.inr (Or.inr ⟨r2, List.mem_of_find?_eq_some hf, hp.1, hp.2, h.symm⟩)

theorem findLineB_none {t : Bool} {E : Nat → Nat → Int} {R C : List Nat} {mk0 : Nat → Reduction}
    {mk1 mk2 : Nat → Nat → Reduction} :
    findLineB t E R C mk0 mk1 mk2 = none ↔ ∀ r ∈ R, lineRemB t E R C r = false := by
  unfold findLineB
  rw [List.findSome?_eq_none_iff]
  apply forall_congr'; intro r
  apply forall_congr'; intro hr
  unfold lineRemB
  cases hf : C.filter (fun c => E r c != 0) with
  | nil => simp
  | cons a l =>
    cases l with
    | nil => simp
    | cons b l =>
      simp only [List.isEmpty_cons, Bool.false_eq_true, if_false, List.length_cons, Option.map_eq_none_iff,
        List.find?_eq_none]
      simp [List.any_eq_false]

/-! ### `validReduction` accepts the encodings of genuine removals -/

theorem validReduction_rowZero {t : Bool} {M : Mat} {R C : List Nat} {r : Nat} (hr : r ∈ R)
    (h : LineZero (ent M) C r) : validReduction t M R C ⟨-1 - (r : Int), 0⟩ = true := by
  have h1 := (isZeroVec_map (ent M) C r).mpr h
  simp [validReduction, rowCode_ne_zero, hr, rowOn, h1]

theorem validReduction_rowUnit {t : Bool} {M : Mat} {R C : List Nat} {r c : Nat} (hr : r ∈ R)
    (h : C.filter (fun c => ent M r c != 0) = [c]) : validReduction t M R C ⟨-1 - (r : Int), (c : Int) + 1⟩ = true := by
  obtain ⟨hc, h1, _⟩ := lineUnit_of_filter (E := ent M) h
  simp [validReduction, rowCode_ne_zero, colCode_ne_zero, hr, hc, h1, h]

theorem validReduction_rowCopy {t : Bool} {M : Mat} {R C : List Nat} {r r2 : Nat} (hr : r ∈ R) (hr2 : r2 ∈ R)
    (hne : r2 ≠ r) (h : LineCopy t (ent M) C r r2) :
    validReduction t M R C ⟨-1 - (r : Int), -1 - (r2 : Int)⟩ = true := by
  have h1 := (parallelVec_map t (ent M) C r r2).mpr h
  simp [validReduction, rowCode_ne_zero, hr, hr2, hne, rowOn, h1]

theorem validReduction_colZero {t : Bool} {M : Mat} {R C : List Nat} {c : Nat} (hc : c ∈ C)
    (h : LineZero (flipE (ent M)) R c) : validReduction t M R C ⟨(c : Int) + 1, 0⟩ = true := by
  have h1 := (isZeroVec_map (flipE (ent M)) R c).mpr h
  simp only [flipE] at h1
  simp [validReduction, colCode_ne_zero, hc, colOn, h1]

theorem validReduction_colUnit {t : Bool} {M : Mat} {R C : List Nat} {c r : Nat} (hc : c ∈ C)
    (h : R.filter (fun r => ent M r c != 0) = [r]) : validReduction t M R C ⟨(c : Int) + 1, -1 - (r : Int)⟩ = true := by
  obtain ⟨hr, h1, _⟩ := lineUnit_of_filter (E := flipE (ent M)) h
  simp only [flipE] at h1
  simp [validReduction, rowCode_ne_zero, colCode_ne_zero, hr, hc, h1, h]

theorem validReduction_colCopy {t : Bool} {M : Mat} {R C : List Nat} {c c2 : Nat} (hc : c ∈ C) (hc2 : c2 ∈ C)
    (hne : c2 ≠ c) (h : LineCopy t (flipE (ent M)) R c c2) :
    validReduction t M R C ⟨(c : Int) + 1, (c2 : Int) + 1⟩ = true := by
  have h1 := (parallelVec_map t (flipE (ent M)) R c c2).mpr h
  simp only [flipE] at h1
  simp [validReduction, colCode_ne_zero, hc, hc2, hne, colOn, h1]


/-! ### violators -/

theorem det_zero_of_parallel (a b c d e : Int) (e0 : a = e * c) (e1 : b = e * d) : a * d - b * c = 0 := by
  subst e0 e1
  rw [Int.mul_assoc, Int.mul_assoc, Int.mul_comm c d]
  omega

theorem two_by_two_not_rem {t : Bool} {E : Nat → Nat → Int} (h00 : E 0 0 ≠ 0) (h01 : E 0 1 ≠ 0) (h10 : E 1 0 ≠ 0)
    (h11 : E 1 1 ≠ 0) (hdet : E 0 0 * E 1 1 - E 0 1 * E 1 0 ≠ 0) (r : Nat) : ¬ LineRem t E [0, 1] [0, 1] r := by
  rintro ⟨hr, hz | ⟨c, hc, h1, h2⟩ | ⟨r2, hr2, hne, hcp⟩⟩
  · have h0 := hz 0 (by simp)
    simp only [List.mem_cons, List.mem_nil_iff, or_false] at hr
    rcases hr with rfl | rfl <;> contradiction
  · simp only [List.mem_cons, List.mem_nil_iff, or_false] at hr
    rcases hr with rfl | rfl
    · have := h2 0 (by simp) h00; have := h2 1 (by simp) h01; omega
    · have := h2 0 (by simp) h10; have := h2 1 (by simp) h11; omega
  · obtain ⟨e, he, hcp⟩ := lineCopy_iff_sgn.mp hcp
    have e0 := hcp 0 (by simp)
    have e1 := hcp 1 (by simp)
    simp only [List.mem_cons, List.mem_nil_iff, or_false] at hr hr2
    apply hdet
    rcases hr with rfl | rfl <;> rcases hr2 with rfl | rfl
    · exact absurd rfl hne
    · exact det_zero_of_parallel _ _ _ _ e e0 e1
    · have := det_zero_of_parallel _ _ _ _ e e1 e0
      rw [Int.mul_comm (E 1 1), Int.mul_comm (E 1 0)] at this
      exact this
    · exact absurd rfl hne

theorem filter_len_two {l : List Nat} {p : Nat → Bool} (hl : l.Nodup) (h : (l.filter p).length = 2) :
    ∃ a b, a ≠ b ∧ a ∈ l ∧ b ∈ l ∧ p a = true ∧ p b = true ∧ ∀ x ∈ l, p x = true → x = a ∨ x = b := by
  have hn : (l.filter p).Nodup := hl.sublist List.filter_sublist
  match hf : l.filter p, h with
  | [a, b], _ =>
    have ha : a ∈ l.filter p := by rw [hf]; simp
    have hb : b ∈ l.filter p := by rw [hf]; simp
    rw [hf] at hn
    refine ⟨a, b, by simpa using hn, (List.mem_filter.mp ha).1, (List.mem_filter.mp hb).1,
      (List.mem_filter.mp ha).2, (List.mem_filter.mp hb).2, ?_⟩
    intro x hx hp
    have : x ∈ l.filter p := List.mem_filter.mpr ⟨hx, hp⟩
    rw [hf] at this
    simpa using this

/-- one step of the connectivity walk of `isCycleSupport` -/
def cycStep (E : Nat → Nat → Int) (k : Nat) (vis : List Nat) : List Nat :=
  (List.range k).filter (fun i =>
    ((List.range k).filter (fun j => vis.any (fun i => E i j != 0))).any (fun j => E i j != 0))

/-- what `isCycleSupport` checks, on entry functions -/
structure CycE (E : Nat → Nat → Int) (k : Nat) : Prop where
  rows : ∀ i < k, ((List.range k).filter (fun j => E i j != 0)).length = 2
  cols : ∀ j < k, ((List.range k).filter (fun i => E i j != 0)).length = 2
  conn : ((List.range k).foldl (fun vis _ => cycStep E k vis) [0]).length = k

theorem isCycleSupport_cycE {V : Mat} {k : Nat} (h : isCycleSupport V k = true) : 2 ≤ k ∧ CycE (ent V) k := by
  simp only [isCycleSupport, lineCounts, Bool.and_eq_true, decide_eq_true_eq, List.all_eq_true, List.mem_map,
    beq_iff_eq] at h
  obtain ⟨⟨⟨hk, hr⟩, hc⟩, hconn⟩ := h
  refine ⟨hk, ⟨fun i hi => hr _ ⟨i, List.mem_range.mpr hi, rfl⟩, fun j hj => hc _ ⟨j, List.mem_range.mpr hj, rfl⟩, ?_⟩⟩
  exact hconn

theorem mem_cycStep {E : Nat → Nat → Int} {k : Nat} {vis : List Nat} {i : Nat} :
    i ∈ cycStep E k vis ↔ i < k ∧ ∃ j, j < k ∧ (∃ i' ∈ vis, E i' j ≠ 0) ∧ E i j ≠ 0 := by
  simp [cycStep, List.mem_filter, List.any_eq_true, and_assoc]

theorem CycE.no_parallel_rows {E : Nat → Nat → Int} {k : Nat} (hk : 3 ≤ k) (h : CycE E k) {r r2 : Nat}
    (hr : r < k) (hr2 : r2 < k) (hne : r2 ≠ r) (hsame : ∀ j < k, E r j ≠ 0 ↔ E r2 j ≠ 0) : False := by
  -- `{r, r2}` is closed under "shares a column with"
  have closed : ∀ i i' j, i' < k → j < k → E i j ≠ 0 → E i' j ≠ 0 → (i = r ∨ i = r2) → (i' = r ∨ i' = r2) := by
    intro i i' j hi' hj hij hi'j hi
    have hrj : E r j ≠ 0 := by
      rcases hi with rfl | rfl
      · exact hij
      · exact (hsame j hj).mpr hij
    obtain ⟨p, q, hpq, _, _, _, _, hall⟩ := filter_len_two List.nodup_range (h.cols j hj)
    have h1 := hall r (List.mem_range.mpr hr) (by simpa using hrj)
    have h2 := hall r2 (List.mem_range.mpr hr2) (by simpa using (hsame j hj).mp hrj)
    have h3 := hall i' (List.mem_range.mpr hi') (by simpa using hi'j)
    omega
  -- hence the walk from row 0 stays on one side
  have step_inv : ∀ vis : List Nat, (∀ i ∈ vis, i < k ∧ ((i = r ∨ i = r2) ↔ (0 = r ∨ 0 = r2))) →
      ∀ i ∈ cycStep E k vis, i < k ∧ ((i = r ∨ i = r2) ↔ (0 = r ∨ 0 = r2)) := by
    intro vis hv i hi
    obtain ⟨hik, j, hj, ⟨i', hi'v, hi'j⟩, hij⟩ := mem_cycStep.mp hi
    obtain ⟨hi'k, hi'S⟩ := hv i' hi'v
    refine ⟨hik, ?_⟩
    rw [← hi'S]
    exact ⟨closed i i' j hi'k hj hij hi'j, closed i' i j hik hj hi'j hij⟩
  have fold_inv : ∀ (l : List Nat) (vis : List Nat), (∀ i ∈ vis, i < k ∧ ((i = r ∨ i = r2) ↔ (0 = r ∨ 0 = r2))) →
      ∀ i ∈ l.foldl (fun vis _ => cycStep E k vis) vis, i < k ∧ ((i = r ∨ i = r2) ↔ (0 = r ∨ 0 = r2)) := by
    intro l
    induction l with
    | nil => intro vis hv; exact hv
    | cons a l ih => intro vis hv; exact ih _ (step_inv vis hv)
  have hconn := h.conn
  obtain ⟨k', rfl⟩ : ∃ k', k = k' + 1 := ⟨k - 1, by omega⟩
  rw [List.range_succ, List.foldl_append] at hconn
  simp only [List.foldl_cons, List.foldl_nil] at hconn
  have hinv := step_inv _ (fold_inv (List.range k') [0] (by
    intro i hi
    simp only [List.mem_cons, List.mem_nil_iff, or_false] at hi
    subst hi
    exact ⟨by omega, Iff.rfl⟩))
  have hall : ∀ i, i < k' + 1 → i ∈ cycStep E (k' + 1) (List.foldl (fun vis _ => cycStep E (k' + 1) vis) [0] (List.range k')) := by
    intro i hi
    have hlen : (cycStep E (k' + 1) (List.foldl (fun vis _ => cycStep E (k' + 1) vis) [0] (List.range k'))).length
        = (List.range (k' + 1)).length := by rw [hconn]; simp
    unfold cycStep at hlen ⊢
    rw [List.length_filter_eq_length_iff] at hlen
    exact List.mem_filter.mpr ⟨List.mem_range.mpr hi, hlen i (List.mem_range.mpr hi)⟩
  have s0 := (hinv r (hall r hr)).2.mp (Or.inl rfl)
  have s1 := (hinv 1 (hall 1 (by omega))).2.mpr s0
  have s2 := (hinv 2 (hall 2 (by omega))).2.mpr s0
  omega

theorem CycE.not_lineRem_row {t : Bool} {E : Nat → Nat → Int} {k : Nat} (hk : 3 ≤ k) (h : CycE E k) (r : Nat) :
    ¬ LineRem t E (List.range k) (List.range k) r := by
  rintro ⟨hr, hrem⟩
  have hrk := List.mem_range.mp hr
  obtain ⟨a, b, hab, ha, hb, hpa, hpb, _⟩ := filter_len_two List.nodup_range (h.rows r hrk)
  simp only [bne_iff_ne, ne_eq] at hpa hpb
  rcases hrem with hz | ⟨c, hc, h1, h2⟩ | ⟨r2, hr2, hne, hcp⟩
  · exact hpa (hz a ha)
  · have := h2 a ha hpa; have := h2 b hb hpb; omega
  · refine h.no_parallel_rows hk hrk (List.mem_range.mp hr2) hne (fun j hj => ?_)
    rcases hcp with hcp | ⟨_, hcp⟩ <;> have := hcp j (List.mem_range.mpr hj) <;> omega

theorem CycE.not_lineRem_col {t : Bool} {E : Nat → Nat → Int} {k : Nat} (hk : 3 ≤ k) (h : CycE E k) (c : Nat) :
    ¬ LineRem t (flipE E) (List.range k) (List.range k) c := by
  rintro ⟨hc, hrem⟩
  have hck := List.mem_range.mp hc
  obtain ⟨p, q, hpq, hp, hq, hpp, hpq', hallc⟩ := filter_len_two List.nodup_range (h.cols c hck)
  simp only [bne_iff_ne, ne_eq] at hpp hpq'
  rcases hrem with hz | ⟨r, hr, h1, h2⟩ | ⟨c2, hc2, hne, hcp⟩
  · exact hpp (hz p hp)
  · have := h2 p hp hpp; have := h2 q hq hpq'; omega
  · have hc2k := List.mem_range.mp hc2
    have hsame : ∀ i < k, E i c ≠ 0 ↔ E i c2 ≠ 0 := by
      intro i hi
      rcases hcp with hcp | ⟨_, hcp⟩ <;> have := hcp i (List.mem_range.mpr hi) <;> simp only [flipE] at this <;> omega
    -- both nonzero rows of column `c` have support exactly `{c, c2}`
    have supp : ∀ x, x < k → E x c ≠ 0 → ∀ j < k, E x j ≠ 0 ↔ (j = c ∨ j = c2) := by
      intro x hx hxc j hj
      obtain ⟨a, b, hab, _, _, _, _, hall⟩ := filter_len_two List.nodup_range (h.rows x hx)
      have h1 := hall c hc (by simpa using hxc)
      have h2 := hall c2 hc2 (by simpa using (hsame x hx).mp hxc)
      constructor
      · intro hxj
        have h3 := hall j (List.mem_range.mpr hj) (by simpa using hxj)
        omega
      · rintro (rfl | rfl)
        · exact hxc
        · exact (hsame x hx).mp hxc
    have hpk := List.mem_range.mp hp
    have hqk := List.mem_range.mp hq
    exact h.no_parallel_rows hk hpk hqk (Ne.symm hpq)
      (fun j hj => (supp p hpk hpp j hj).trans (supp q hqk hpq' j hj).symm)


/-- what `isM3prime` checks, on entry functions: exactly two zeros among the 3×3 entries, in different rows and
different columns -/
def M3E (E : Nat → Nat → Int) : Prop :=
  ∃ a b c d, a < 3 ∧ b < 3 ∧ c < 3 ∧ d < 3 ∧ a ≠ c ∧ b ≠ d ∧
    ∀ i < 3, ∀ j < 3, (E i j = 0 ↔ (i = a ∧ j = b) ∨ (i = c ∧ j = d))

theorem M3E.flip {E : Nat → Nat → Int} (h : M3E E) : M3E (flipE E) := by
  obtain ⟨a, b, c, d, ha, hb, hc, hd, hac, hbd, h⟩ := h
  refine ⟨b, a, d, c, hb, ha, hd, hc, hbd, hac, fun j hj i hi => ?_⟩
  show E i j = 0 ↔ _
  rw [h i hi j hj]
  omega

theorem isM3prime_m3E {V : Mat} (h : isM3prime V = true) : M3E (ent V) := by
  have hmem : ∀ i j, (i, j) ∈ (List.range 3).flatMap (fun i =>
      ((List.range 3).filter (fun j => ent V i j == 0)).map (fun j => (i, j))) ↔ i < 3 ∧ j < 3 ∧ ent V i j = 0 := by
    intro i j
    simp only [List.mem_flatMap, List.mem_map, List.mem_filter, List.mem_range, beq_iff_eq, Prod.mk.injEq]
    constructor
    · rintro ⟨i', hi', j', ⟨hj', h0⟩, rfl, rfl⟩
      exact ⟨hi', hj', h0⟩
    · rintro ⟨hi, hj, h0⟩
      exact ⟨i, hi, j, ⟨hj, h0⟩, rfl, rfl⟩
  unfold isM3prime at h
  simp only at h
  split at h
  · rename_i a b c d heq
    simp only [Bool.and_eq_true, bne_iff_ne, ne_eq] at h
    rw [heq] at hmem
    have h1 := (hmem a b).mp (by simp)
    have h2 := (hmem c d).mp (by simp)
    refine ⟨a, b, c, d, h1.1, h1.2.1, h2.1, h2.2.1, h.1, h.2, fun i hi j hj => ?_⟩
    have := hmem i j
    simp only [List.mem_cons, Prod.mk.injEq, List.mem_nil_iff, or_false] at this
    rw [this]
    exact ⟨fun h => ⟨hi, hj, h⟩, fun h => h.2.2⟩
  · cases h

theorem M3E.not_lineRem {t : Bool} {E : Nat → Nat → Int} (h : M3E E) (r : Nat) :
    ¬ LineRem t E (List.range 3) (List.range 3) r := by
  obtain ⟨a, b, c, d, ha, hb, hc, hd, hac, hbd, h⟩ := h
  rintro ⟨hr, hrem⟩
  have hr3 := List.mem_range.mp hr
  -- row `r` has at most one zero, at column `z`
  obtain ⟨z, hz⟩ : ∃ z, ∀ j < 3, E r j = 0 → j = z := by
    refine ⟨if r = a then b else d, fun j hj h0 => ?_⟩
    rcases (h r hr3 j hj).mp h0 with ⟨h1, h2⟩ | ⟨h1, h2⟩
    · simp [h1, h2]
    · have : r ≠ a := fun e => hac (e.symm.trans h1)
      simp [this, h2]
  obtain ⟨j1, j2, hj1, hj2, hj12, hj1z, hj2z⟩ : ∃ j1 j2, j1 < 3 ∧ j2 < 3 ∧ j1 ≠ j2 ∧ j1 ≠ z ∧ j2 ≠ z := by
    by_cases h0 : z = 0
    · exact ⟨1, 2, by omega, by omega, by omega, by omega, by omega⟩
    · by_cases h1 : z = 1
      · exact ⟨0, 2, by omega, by omega, by omega, by omega, by omega⟩
      · exact ⟨0, 1, by omega, by omega, by omega, by omega, by omega⟩
  have n1 : E r j1 ≠ 0 := fun h0 => hj1z (hz j1 hj1 h0)
  have n2 : E r j2 ≠ 0 := fun h0 => hj2z (hz j2 hj2 h0)
  rcases hrem with hzero | ⟨c0, hc0, h1, h2⟩ | ⟨r2, hr2, hne, hcp⟩
  · exact n1 (hzero j1 (List.mem_range.mpr hj1))
  · have e1 := h2 j1 (List.mem_range.mpr hj1) n1
    have e2 := h2 j2 (List.mem_range.mpr hj2) n2
    omega
  · have hr23 := List.mem_range.mp hr2
    have same : ∀ j < 3, (E r j = 0 ↔ E r2 j = 0) := by
      intro j hj
      rcases hcp with hcp | ⟨_, hcp⟩ <;> have := hcp j (List.mem_range.mpr hj) <;> omega
    have key : ∀ x y, x < 3 → y < 3 → x ≠ y → (E x b = 0 ↔ E y b = 0) → (E x d = 0 ↔ E y d = 0) →
        x ≠ a ∧ x ≠ c := by
      intro x y hx hy hxy sb sd
      constructor
      · intro hxa
        have e1 : E x b = 0 := (h x hx b hb).mpr (Or.inl ⟨hxa, rfl⟩)
        rcases (h y hy b hb).mp (sb.mp e1) with ⟨h1, _⟩ | ⟨_, h2⟩
        · omega
        · exact hbd h2
      · intro hxc
        have e1 : E x d = 0 := (h x hx d hd).mpr (Or.inr ⟨hxc, rfl⟩)
        rcases (h y hy d hd).mp (sd.mp e1) with ⟨_, h2⟩ | ⟨h1, _⟩
        · exact hbd h2.symm
        · omega
    obtain ⟨k1, k2⟩ := key r r2 hr3 hr23 (Ne.symm hne) (same b hb) (same d hd)
    obtain ⟨k3, k4⟩ := key r2 r hr23 hr3 hne (same b hb).symm (same d hd).symm
    clear same key h hz n1 n2 hcp
    omega


end Cmr
