/-
  Helper lemmas for property C10 (`Cmr/Rel.lean`):
  * entries and shapes of the elementary transformations (`ent_insertRow`, `ent_insertCol`, `Step.apply_wf`), when a step
    applies and what it returns (`apply_P_iff`, `apply_S_iff`, `apply_rowIns`, `apply_colIns`), ternarity of the result;
  * undoing a permutation (`invPerm`, `sub_invPerm`) and slicing an inserted line away (`skipIdx`, `sub_skip_insertRow`);
    a column insertion is a row insertion of the transpose (`transpose_colIns`);
  * total unimodularity of matrices whose lines are zero, `±` lines of a TU matrix or `±` unit vectors
    (`isTU_of_rowsFrom`, `isTU_insertRow`, `isTU_insertCol`, `isTU_perm`); the pivot of a TU matrix is TU
    (`pivot_isTotallyUnimodular`, `isTU_pivot3`, `isTU_pivot3_eq`);
  * regularity: entrywise signings, `isRegular_sub`, `isRegular_transpose`, `isRegular_rowIns/colIns`;
  * balancedness: `isBalanced_iff_nodup`, `isBalanced_sub`, sign scaling (`isBalanced_rowScale`), sparse and duplicate
    rows (`isBalanced_insertRow_sparse`, `hole_remove_twin`, `isBalanced_insertRow_copy1`);
  * series-parallel: through `SPE` and signed embeddings of C08 (`isSP_sub`, `isSP_transpose`, `isSP_scale`,
    `isSP_rowIns/colIns`);
  * lifting per-step relations of a self-dual class to step lists (`steps_lift`, `steps_lift_inv`).
-/
import CmrProofs.Lemmas.SumsLemmas
import CmrProofs.Lemmas.BalancedLemmas
import CmrProofs.Props.C02
import CmrProofs.Props.C17
import CmrProofs.Props.C08
import CmrProofs.Props.C13
import Mathlib.LinearAlgebra.Matrix.SchurComplement
import Cmr.Rel
import Cmr.Graph

set_option linter.unusedSimpArgs false
set_option linter.unusedVariables false

namespace Cmr
open Matrix

/-! ### entries and shapes -/

theorem length_insertAt {α : Type} (l : List α) (pos : Nat) (x : α) : (insertAt l pos x).length = l.length + 1 := by
  simp [insertAt]; omega

theorem getElem?_insertAt {α : Type} (l : List α) {pos : Nat} (x : α) (hp : pos ≤ l.length) (k : Nat) :
    (insertAt l pos x)[k]? = if k < pos then l[k]? else if k = pos then some x else l[k-1]? := by
  unfold insertAt
  rw [List.getElem?_append]
  have hl : (List.take pos l).length = pos := by simp [hp]
  rw [hl]
  by_cases h1 : k < pos
  · simp [h1, List.getElem?_take]
  · simp only [h1, if_false]
    by_cases h2 : k = pos
    · simp [h2]
    · simp only [h2, if_false]
      obtain ⟨d, hd⟩ : ∃ d, k - pos = d + 1 := ⟨k - pos - 1, by omega⟩
      rw [hd, List.getElem?_cons_succ, List.getElem?_drop]
      congr 1; omega

theorem ent_insertRow (M : Mat) {pos : Nat} (row : List Int) (hp : pos ≤ M.length) (k j : Nat) :
    ent (insertRow M pos row) k j =
      if k < pos then ent M k j else if k = pos then row.getD j 0 else ent M (k-1) j := by
  unfold ent insertRow
  simp only [List.getD_eq_getElem?_getD]
  rw [getElem?_insertAt M row hp k]
  split
  · rfl
  · split <;> rfl

theorem wf_insertRow {M : Mat} {m n pos : Nat} {row : List Int} (h : M.wf m n = true) (hr : row.length = n) :
    (insertRow M pos row).wf (m+1) n = true := by
  have hl := length_of_wf h
  simp only [Mat.wf, Bool.and_eq_true, beq_iff_eq, List.all_eq_true]
  refine ⟨by rw [insertRow, length_insertAt, hl], ?_⟩
  intro r hr'
  simp only [insertRow, insertAt, List.mem_append, List.mem_cons] at hr'
  rcases hr' with h1 | rfl | h1
  · exact row_length_of_wf h (List.mem_of_mem_take h1)
  · exact hr
  · exact row_length_of_wf h (List.mem_of_mem_drop h1)

theorem ent_insertCol {M : Mat} {m n pos : Nat} (col : Nat → Int) (h : M.wf m n = true) (hp : pos ≤ n) {i : Nat} (hi : i < m)
    (k : Nat) :
    ent (insertCol M pos col) i k =
      if k < pos then ent M i k else if k = pos then col i else ent M i (k-1) := by
  have hl := length_of_wf h
  have hi' : i < M.length := by omega
  have hrow : (M[i]).length = n := row_length_of_wf h (List.getElem_mem hi')
  unfold ent insertCol
  simp only [List.getD_eq_getElem?_getD, List.getElem?_mapIdx, List.getElem?_eq_getElem hi', Option.map_some,
    Option.getD_some]
  rw [getElem?_insertAt _ _ (by omega) k]
  split
  · rfl
  · split <;> rfl

theorem wf_insertCol {M : Mat} {m n pos : Nat} {col : Nat → Int} (h : M.wf m n = true) :
    (insertCol M pos col).wf m (n+1) = true := by
  have hl := length_of_wf h
  simp only [Mat.wf, Bool.and_eq_true, beq_iff_eq, List.all_eq_true]
  refine ⟨by simp [insertCol, hl], ?_⟩
  intro r hr'
  simp only [insertCol, List.mem_mapIdx] at hr'
  obtain ⟨i, hi, rfl⟩ := hr'
  rw [length_insertAt, row_length_of_wf h (List.getElem_mem hi)]

theorem wf_sub (M : Mat) (rs cs : List Nat) : (sub M rs cs).wf rs.length cs.length = true := by
  simp [Mat.wf, sub]

theorem wf_negRow {M : Mat} {m n : Nat} (h : M.wf m n = true) (r : Nat) : (negRow M r).wf m n = true := by
  have hl := length_of_wf h
  simp only [Mat.wf, Bool.and_eq_true, beq_iff_eq, List.all_eq_true]
  refine ⟨by simp [negRow, hl], ?_⟩
  intro row hr'
  simp only [negRow, List.mem_mapIdx] at hr'
  obtain ⟨i, hi, rfl⟩ := hr'
  have := row_length_of_wf h (List.getElem_mem hi)
  split <;> simp [this]

theorem wf_negCol {M : Mat} {m n : Nat} (h : M.wf m n = true) (c : Nat) : (negCol M c).wf m n = true := by
  have hl := length_of_wf h
  simp only [Mat.wf, Bool.and_eq_true, beq_iff_eq, List.all_eq_true]
  refine ⟨by simp [negCol, hl], ?_⟩
  intro row hr'
  simp only [negCol, List.mem_map] at hr'
  obtain ⟨r, hr, rfl⟩ := hr'
  simp [row_length_of_wf h hr]

theorem ent_transpose {m n : Nat} (M : Mat) {i j : Nat} (hi : i < n) (hj : j < m) :
    ent (transpose m n M) i j = ent M j i := by
  rw [transpose, ent_ofFn _ hi hj]

theorem wf_transpose (m n : Nat) (M : Mat) : (transpose m n M).wf n m = true := wf_ofFn n m _

theorem transpose_transpose {M : Mat} {m n : Nat} (h : M.wf m n = true) : transpose n m (transpose m n M) = M := by
  apply mat_ext (wf_transpose n m _) h
  intro i hi j hj
  rw [ent_transpose _ hi hj, ent_transpose _ hj hi]


theorem getD_row_length {M : Mat} {m n : Nat} (h : M.wf m n = true) {i : Nat} (hi : i < m) : (M.getD i []).length = n := by
  have hl := length_of_wf h
  have hi' : i < M.length := by omega
  rw [List.getD_eq_getElem?_getD, List.getElem?_eq_getElem hi', Option.getD_some]
  exact row_length_of_wf h (List.getElem_mem hi')

theorem length_unitVec (n j : Nat) (s : Int) : (unitVec n j s).length = n := by simp [unitVec]

theorem Step.apply_wf {m n : Nat} {M : Mat} {s : Step} {m' n' : Nat} {M' : Mat}
    (h : s.apply m n M = some (m', n', M')) (hwf : M.wf m n = true) : M'.wf m' n' = true := by
  cases s with
  | T => simp only [Step.apply, Option.some.injEq, Prod.mk.injEq] at h; obtain ⟨rfl, rfl, rfl⟩ := h; exact wf_transpose _ _ _
  | P rows cols =>
    simp only [Step.apply] at h
    split at h
    · rename_i hc
      simp only [Option.some.injEq, Prod.mk.injEq] at h; obtain ⟨rfl, rfl, rfl⟩ := h
      simp only [isPermOf, Bool.and_eq_true, beq_iff_eq] at hc
      have := wf_sub M rows cols
      rw [hc.1.1.1, hc.2.1.1] at this
      exact this
    · cases h
  | S rows cols =>
    simp only [Step.apply] at h
    split at h
    · simp only [Option.some.injEq, Prod.mk.injEq] at h; obtain ⟨rfl, rfl, rfl⟩ := h
      exact wf_sub M rows cols
    · cases h
  | V2 r c =>
    simp only [Step.apply] at h
    split at h
    · simp only [Option.some.injEq, Prod.mk.injEq] at h; obtain ⟨rfl, rfl, rfl⟩ := h
      exact wf_ofFn _ _ _
    · cases h
  | V3 r c =>
    simp only [Step.apply] at h
    split at h
    · simp only [Option.some.injEq, Prod.mk.injEq] at h; obtain ⟨rfl, rfl, rfl⟩ := h
      exact wf_ofFn _ _ _
    · cases h
  | NR i =>
    simp only [Step.apply] at h
    split at h
    · simp only [Option.some.injEq, Prod.mk.injEq] at h; obtain ⟨rfl, rfl, rfl⟩ := h
      exact wf_negRow hwf _
    · cases h
  | NC j =>
    simp only [Step.apply] at h
    split at h
    · simp only [Option.some.injEq, Prod.mk.injEq] at h; obtain ⟨rfl, rfl, rfl⟩ := h
      exact wf_negCol hwf _
    · cases h
  | ZR pos =>
    simp only [Step.apply] at h
    split at h
    · simp only [Option.some.injEq, Prod.mk.injEq] at h; obtain ⟨rfl, rfl, rfl⟩ := h
      exact wf_insertRow hwf (by simp)
    · cases h
  | ZC pos =>
    simp only [Step.apply] at h
    split at h
    · simp only [Option.some.injEq, Prod.mk.injEq] at h; obtain ⟨rfl, rfl, rfl⟩ := h
      exact wf_insertCol hwf
    · cases h
  | UR pos j s =>
    simp only [Step.apply] at h
    split at h
    · simp only [Option.some.injEq, Prod.mk.injEq] at h; obtain ⟨rfl, rfl, rfl⟩ := h
      exact wf_insertRow hwf (length_unitVec _ _ _)
    · cases h
  | UC pos i s =>
    simp only [Step.apply] at h
    split at h
    · simp only [Option.some.injEq, Prod.mk.injEq] at h; obtain ⟨rfl, rfl, rfl⟩ := h
      exact wf_insertCol hwf
    · cases h
  | DR pos i s =>
    simp only [Step.apply] at h
    split at h
    · rename_i hc
      simp only [Option.some.injEq, Prod.mk.injEq] at h; obtain ⟨rfl, rfl, rfl⟩ := h
      simp only [Bool.and_eq_true, decide_eq_true_eq] at hc
      exact wf_insertRow hwf (by rw [List.length_map]; exact getD_row_length hwf hc.1.2)
    · cases h
  | DC pos j s =>
    simp only [Step.apply] at h
    split at h
    · simp only [Option.some.injEq, Prod.mk.injEq] at h; obtain ⟨rfl, rfl, rfl⟩ := h
      exact wf_insertCol hwf
    · cases h

theorem applySteps_wf {steps : List Step} {m n : Nat} {M : Mat} {m' n' : Nat} {M' : Mat}
    (h : applySteps m n M steps = some (m', n', M')) (hwf : M.wf m n = true) : M'.wf m' n' = true := by
  induction steps generalizing m n M with
  | nil => simp only [applySteps, Option.some.injEq, Prod.mk.injEq] at h; obtain ⟨rfl, rfl, rfl⟩ := h; exact hwf
  | cons s rest ih =>
    simp only [applySteps] at h
    split at h
    · cases h
    · rename_i m1 n1 M1 h1
      exact ih h (Step.apply_wf h1 hwf)


/-! ### total unimodularity of derived matrices -/

/-- Every row of `A'` is `0`, `±` a row of `A`, or `±` a unit vector: then `A'` is TU when `A` is. -/
theorem tu_rows_from {m n m' : ℕ} (A : Matrix (Fin m) (Fin n) ℤ) (hA : A.IsTotallyUnimodular)
    (A' : Matrix (Fin m') (Fin n) ℤ)
    (h : ∀ k, ∃ p : Fin m ⊕ Fin n, ∃ s : SignType, ∀ j, A' k j = (s : ℤ) * (fromRows A 1) p j) :
    A'.IsTotallyUnimodular := by
  choose p s hps using h
  have h1 := (hA.fromRows_one).submatrix p id
  have h2 := mul_rows_isTotallyUnimodular _ (fun k => ((s k : SignType) : ℤ)) (fun k => ⟨s k, rfl⟩) h1
  convert h2 using 1
  ext k j
  simp only [of_apply, submatrix_apply, id]
  exact hps k j

def sgn3 (s : Int) : Prop := s = 0 ∨ s = 1 ∨ s = -1

theorem sgn3_cast {s : Int} (h : sgn3 s) : ∃ t : SignType, (t : ℤ) = s := by
  rcases h with rfl | rfl | rfl
  · exact ⟨0, by simp⟩
  · exact ⟨1, by simp⟩
  · exact ⟨-1, by simp⟩

theorem isTU_zero_cols (m : Nat) (M : Mat) : isTU m 0 M = true := by
  rw [isTU_iff]
  exact emptyCols_isTotallyUnimodular _

/-- list form of `tu_rows_from` -/
theorem isTU_of_rowsFrom {m n m' : Nat} {M M' : Mat} (hTU : isTU m n M = true)
    (h : ∀ k, k < m' →
      (∀ j, j < n → ent M' k j = 0) ∨
      (∃ i, i < m ∧ ∃ s : Int, sgn3 s ∧ ∀ j, j < n → ent M' k j = s * ent M i j) ∨
      (∃ c, c < n ∧ ∃ s : Int, sgn3 s ∧ ∀ j, j < n → ent M' k j = if j = c then s else 0)) :
    isTU m' n M' = true := by
  rcases Nat.eq_zero_or_pos n with rfl | hn
  · exact isTU_zero_cols _ _
  rw [isTU_iff] at hTU ⊢
  apply tu_rows_from _ hTU
  intro k
  rcases h k k.isLt with h0 | ⟨i, hi, s, hs, h1⟩ | ⟨c, hc, s, hs, h1⟩
  · refine ⟨Sum.inr ⟨0, hn⟩, 0, fun j => ?_⟩
    simp [toMx, h0 j j.isLt]
  · obtain ⟨t, rfl⟩ := sgn3_cast hs
    refine ⟨Sum.inl ⟨i, hi⟩, t, fun j => ?_⟩
    simp [toMx, h1 j j.isLt]
  · obtain ⟨t, rfl⟩ := sgn3_cast hs
    refine ⟨Sum.inr ⟨c, hc⟩, t, fun j => ?_⟩
    simp only [toMx, h1 j j.isLt, fromRows_apply_inr, one_apply, Fin.ext_iff]
    by_cases hjc : (j : Nat) = c
    · simp [hjc]
    · have : ¬ c = (j : Nat) := fun e => hjc e.symm
      simp [hjc, this]

/-- column form, through transposition -/
theorem isTU_of_colsFrom {m n n' : Nat} {M M' : Mat} (hTU : isTU m n M = true)
    (h : ∀ k, k < n' →
      (∀ i, i < m → ent M' i k = 0) ∨
      (∃ j, j < n ∧ ∃ s : Int, sgn3 s ∧ ∀ i, i < m → ent M' i k = s * ent M i j) ∨
      (∃ r, r < m ∧ ∃ s : Int, sgn3 s ∧ ∀ i, i < m → ent M' i k = if i = r then s else 0)) :
    isTU m n' M' = true := by
  rw [← isTU_transpose] at hTU ⊢
  apply isTU_of_rowsFrom hTU
  intro k hk
  rcases h k hk with h0 | ⟨j, hj, s, hs, h1⟩ | ⟨r, hr, s, hs, h1⟩
  · left; intro i hi; rw [ent_transpose _ hk hi]; exact h0 i hi
  · right; left
    refine ⟨j, hj, s, hs, fun i hi => ?_⟩
    rw [ent_transpose _ hk hi, ent_transpose _ hj hi]; exact h1 i hi
  · right; right
    refine ⟨r, hr, s, hs, fun i hi => ?_⟩
    rw [ent_transpose _ hk hi]; exact h1 i hi


/-! ### undoing permutations and insertions by slicing -/

theorem isPermOf_iff (l : List Nat) (n : Nat) :
    isPermOf l n = true ↔ l.length = n ∧ (∀ x ∈ l, x < n) ∧ l.Nodup := by
  simp [isPermOf, and_assoc]

theorem isPermOf_mem {l : List Nat} {n : Nat} (h : isPermOf l n = true) {i : Nat} (hi : i < n) : i ∈ l := by
  obtain ⟨hl, hlt, hnd⟩ := (isPermOf_iff l n).mp h
  have hsub : l ⊆ List.range n := fun x hx => List.mem_range.mpr (hlt x hx)
  have hp : l.Perm (List.range n) := (List.subperm_of_subset hnd hsub).perm_of_length_le (by simp [hl])
  exact hp.mem_iff.mpr (List.mem_range.mpr hi)

/-- the inverse of a permutation given as a list -/
def invPerm (l : List Nat) (n : Nat) : List Nat := (List.range n).map (fun i => l.idxOf i)

theorem length_invPerm (l : List Nat) (n : Nat) : (invPerm l n).length = n := by simp [invPerm]

theorem getElem_invPerm {l : List Nat} {n : Nat} (h : isPermOf l n = true) {i : Nat} (hi : i < n) :
    ∃ h1 : i < (invPerm l n).length, ∃ h2 : (invPerm l n)[i] < l.length, l[(invPerm l n)[i]] = i := by
  have hmem := isPermOf_mem h hi
  have hlt : l.idxOf i < l.length := List.idxOf_lt_length_of_mem hmem
  refine ⟨by rw [length_invPerm]; exact hi, ?_, ?_⟩
  · simpa [invPerm] using hlt
  · simp only [invPerm, List.getElem_map, List.getElem_range]
    exact List.getElem_idxOf hlt

theorem isPermOf_invPerm {l : List Nat} {n : Nat} (h : isPermOf l n = true) : isPermOf (invPerm l n) n = true := by
  obtain ⟨hl, hlt, hnd⟩ := (isPermOf_iff l n).mp h
  rw [isPermOf_iff]
  refine ⟨length_invPerm l n, ?_, ?_⟩
  · intro x hx
    simp only [invPerm, List.mem_map, List.mem_range] at hx
    obtain ⟨i, hi, rfl⟩ := hx
    rw [← hl]
    exact List.idxOf_lt_length_of_mem (isPermOf_mem h hi)
  · unfold invPerm
    rw [List.nodup_map_iff_inj_on List.nodup_range]
    intro a ha b hb hab
    rw [List.mem_range] at ha hb
    have h1 : l.idxOf a < l.length := List.idxOf_lt_length_of_mem (isPermOf_mem h ha)
    have h2 : l.idxOf b < l.length := List.idxOf_lt_length_of_mem (isPermOf_mem h hb)
    have e1 := List.getElem_idxOf h1
    have e2 := List.getElem_idxOf h2
    simp only [hab] at e1
    exact e1.symm.trans e2

/-- a permutation step is undone by the inverse permutation -/
theorem sub_invPerm {M : Mat} {m n : Nat} (hwf : M.wf m n = true) {rows cols : List Nat}
    (hr : isPermOf rows m = true) (hc : isPermOf cols n = true) :
    sub (sub M rows cols) (invPerm rows m) (invPerm cols n) = M := by
  have hw := wf_sub (sub M rows cols) (invPerm rows m) (invPerm cols n)
  rw [length_invPerm, length_invPerm] at hw
  apply mat_ext hw hwf
  intro i hi j hj
  obtain ⟨a1, a2, a3⟩ := getElem_invPerm hr hi
  obtain ⟨b1, b2, b3⟩ := getElem_invPerm hc hj
  rw [ent_sub _ _ _ a1 b1, ent_sub _ _ _ a2 b2, a3, b3]

theorem sub_range {M : Mat} {m n : Nat} (hwf : M.wf m n = true) : sub M (List.range m) (List.range n) = M := by
  have hw := wf_sub M (List.range m) (List.range n)
  rw [List.length_range, List.length_range] at hw
  apply mat_ext hw hwf
  intro i hi j hj
  rw [ent_sub _ _ _ (by simpa using hi) (by simpa using hj)]
  simp

/-- index list that skips position `pos` -/
def skipIdx (m pos : Nat) : List Nat := (List.range m).map (fun k => if k < pos then k else k + 1)

theorem length_skipIdx (m pos : Nat) : (skipIdx m pos).length = m := by simp [skipIdx]

theorem skipIdx_lt {m pos : Nat} : ∀ x ∈ skipIdx m pos, x < m + 1 := by
  intro x hx
  simp only [skipIdx, List.mem_map, List.mem_range] at hx
  obtain ⟨k, hk, rfl⟩ := hx
  split <;> omega

theorem skipIdx_nodup (m pos : Nat) : (skipIdx m pos).Nodup := by
  unfold skipIdx
  rw [List.nodup_map_iff_inj_on List.nodup_range]
  intro a _ b _ hab
  split at hab <;> split at hab <;> omega

theorem getElem_skipIdx {m pos k : Nat} (hk : k < m) :
    (skipIdx m pos)[k]'(by rw [length_skipIdx]; exact hk) = if k < pos then k else k + 1 := by
  simp [skipIdx]



/-! ### when a step applies, and what it returns -/

theorem apply_P_iff {m n : Nat} {M : Mat} {rows cols : List Nat} {m' n' : Nat} {M' : Mat} :
    (Step.P rows cols).apply m n M = some (m', n', M') ↔
      isPermOf rows m = true ∧ isPermOf cols n = true ∧ m' = m ∧ n' = n ∧ M' = sub M rows cols := by
  simp only [Step.apply]
  split
  · rename_i h; simp only [Bool.and_eq_true] at h
    simp only [Option.some.injEq, Prod.mk.injEq, h, true_and]
    constructor <;> rintro ⟨rfl, rfl, rfl⟩ <;> exact ⟨rfl, rfl, rfl⟩
  · rename_i h; simp only [Bool.and_eq_true] at h
    constructor
    · intro h'; cases h'
    · rintro ⟨h1, h2, -⟩; exact absurd ⟨h1, h2⟩ h

theorem apply_S_iff {m n : Nat} {M : Mat} {rows cols : List Nat} {m' n' : Nat} {M' : Mat} :
    (Step.S rows cols).apply m n M = some (m', n', M') ↔
      (∀ x ∈ rows, x < m) ∧ (∀ x ∈ cols, x < n) ∧ rows.Nodup ∧ cols.Nodup ∧
        m' = rows.length ∧ n' = cols.length ∧ M' = sub M rows cols := by
  simp only [Step.apply]
  split
  · rename_i h; simp only [Bool.and_eq_true, List.all_eq_true, decide_eq_true_eq] at h
    obtain ⟨⟨⟨h1, h2⟩, h3⟩, h4⟩ := h
    simp only [Option.some.injEq, Prod.mk.injEq]
    constructor
    · rintro ⟨rfl, rfl, rfl⟩; exact ⟨h1, h2, h3, h4, rfl, rfl, rfl⟩
    · rintro ⟨-, -, -, -, rfl, rfl, rfl⟩; exact ⟨rfl, rfl, rfl⟩
  · rename_i h; simp only [Bool.and_eq_true, List.all_eq_true, decide_eq_true_eq] at h
    constructor
    · intro h'; cases h'
    · rintro ⟨h1, h2, h3, h4, -⟩; exact absurd ⟨⟨⟨h1, h2⟩, h3⟩, h4⟩ h

theorem pm1_iff (s : Int) : (s == 1 || s == -1) = true ↔ (s = 1 ∨ s = -1) := by simp

theorem apply_NR_iff {m n : Nat} {M : Mat} {i : Nat} {m' n' : Nat} {M' : Mat} :
    (Step.NR i).apply m n M = some (m', n', M') ↔ i < m ∧ m' = m ∧ n' = n ∧ M' = negRow M i := by
  simp only [Step.apply]
  split
  · rename_i h
    simp only [Option.some.injEq, Prod.mk.injEq, h, true_and]
    constructor <;> rintro ⟨rfl, rfl, rfl⟩ <;> exact ⟨rfl, rfl, rfl⟩
  · rename_i h
    constructor
    · intro h'; cases h'
    · rintro ⟨h1, -⟩; exact absurd h1 h

theorem apply_NC_iff {m n : Nat} {M : Mat} {j : Nat} {m' n' : Nat} {M' : Mat} :
    (Step.NC j).apply m n M = some (m', n', M') ↔ j < n ∧ m' = m ∧ n' = n ∧ M' = negCol M j := by
  simp only [Step.apply]
  split
  · rename_i h
    simp only [Option.some.injEq, Prod.mk.injEq, h, true_and]
    constructor <;> rintro ⟨rfl, rfl, rfl⟩ <;> exact ⟨rfl, rfl, rfl⟩
  · rename_i h
    constructor
    · intro h'; cases h'
    · rintro ⟨h1, -⟩; exact absurd h1 h

/-- the row inserted by a row-insertion step -/
def Step.newRow (n : Nat) (M : Mat) : Step → List Int
  | .ZR _ => List.replicate n 0
  | .UR _ j s => unitVec n j s
  | .DR _ i s => (M.getD i []).map (s * ·)
  | _ => []

/-- the column inserted by a column-insertion step -/
def Step.newCol (M : Mat) : Step → Nat → Int
  | .ZC _ => fun _ => 0
  | .UC _ i s => fun k => if k == i then s else 0
  | .DC _ j s => fun k => s * ent M k j
  | _ => fun _ => 0

/-- `s` inserts a row before `pos` and is applicable to an `m × n` matrix -/
def Step.rowInsOk (m n : Nat) : Step → Nat → Prop
  | .ZR p, pos => p = pos ∧ pos ≤ m
  | .UR p j s, pos => p = pos ∧ pos ≤ m ∧ j < n ∧ (s = 1 ∨ s = -1)
  | .DR p i s, pos => p = pos ∧ pos ≤ m ∧ i < m ∧ (s = 1 ∨ s = -1)
  | _, _ => False

def Step.colInsOk (m n : Nat) : Step → Nat → Prop
  | .ZC p, pos => p = pos ∧ pos ≤ n
  | .UC p i s, pos => p = pos ∧ pos ≤ n ∧ i < m ∧ (s = 1 ∨ s = -1)
  | .DC p j s, pos => p = pos ∧ pos ≤ n ∧ j < n ∧ (s = 1 ∨ s = -1)
  | _, _ => False

def Step.isRowIns : Step → Bool
  | .ZR _ | .UR _ _ _ | .DR _ _ _ => true
  | _ => false

def Step.isColIns : Step → Bool
  | .ZC _ | .UC _ _ _ | .DC _ _ _ => true
  | _ => false

theorem apply_rowIns {m n : Nat} {M : Mat} {s : Step} (hs : s.isRowIns = true) {m' n' : Nat} {M' : Mat}
    (h : s.apply m n M = some (m', n', M')) :
    ∃ pos, s.rowInsOk m n pos ∧ m' = m + 1 ∧ n' = n ∧ M' = insertRow M pos (s.newRow n M) := by
  cases s <;> simp only [Step.isRowIns] at hs <;> try cases hs
  all_goals
    simp only [Step.apply] at h
    split at h
    · rename_i hc
      try simp only [Bool.and_eq_true, decide_eq_true_eq, pm1_iff] at hc
      simp only [Option.some.injEq, Prod.mk.injEq] at h
      obtain ⟨rfl, rfl, rfl⟩ := h
      refine ⟨_, ?_, rfl, rfl, rfl⟩
      simp only [Step.rowInsOk, true_and]
      tauto
    · cases h

theorem apply_colIns {m n : Nat} {M : Mat} {s : Step} (hs : s.isColIns = true) {m' n' : Nat} {M' : Mat}
    (h : s.apply m n M = some (m', n', M')) :
    ∃ pos, s.colInsOk m n pos ∧ m' = m ∧ n' = n + 1 ∧ M' = insertCol M pos (s.newCol M) := by
  cases s <;> simp only [Step.isColIns] at hs <;> try cases hs
  all_goals
    simp only [Step.apply] at h
    split at h
    · rename_i hc
      try simp only [Bool.and_eq_true, decide_eq_true_eq, pm1_iff] at hc
      simp only [Option.some.injEq, Prod.mk.injEq] at h
      obtain ⟨rfl, rfl, rfl⟩ := h
      refine ⟨_, ?_, rfl, rfl, rfl⟩
      simp only [Step.colInsOk, true_and]
      tauto
    · cases h

/-! ### slicing an inserted line away -/

theorem sub_skip_insertRow {M : Mat} {m n pos : Nat} (hwf : M.wf m n = true) (hp : pos ≤ m) (row : List Int) :
    sub (insertRow M pos row) (skipIdx m pos) (List.range n) = M := by
  have hw := wf_sub (insertRow M pos row) (skipIdx m pos) (List.range n)
  rw [length_skipIdx, List.length_range] at hw
  apply mat_ext hw hwf
  intro i hi j hj
  have hl := length_of_wf hwf
  rw [ent_sub _ _ _ (by rw [length_skipIdx]; exact hi) (by simpa using hj), getElem_skipIdx hi,
    ent_insertRow M row (by omega)]
  by_cases h1 : i < pos
  · simp [h1]
  · simp only [h1, if_false, show ¬ (i + 1 < pos) by omega, show ¬ (i + 1 = pos) by omega, Nat.add_sub_cancel]
    simp

theorem sub_skip_insertCol {M : Mat} {m n pos : Nat} (hwf : M.wf m n = true) (hp : pos ≤ n) (col : Nat → Int) :
    sub (insertCol M pos col) (List.range m) (skipIdx n pos) = M := by
  have hw := wf_sub (insertCol M pos col) (List.range m) (skipIdx n pos)
  rw [length_skipIdx, List.length_range] at hw
  apply mat_ext hw hwf
  intro i hi j hj
  rw [ent_sub _ _ _ (by simpa using hi) (by rw [length_skipIdx]; exact hj), getElem_skipIdx hj]
  simp only [List.getElem_range]
  rw [ent_insertCol col hwf hp hi]
  by_cases h1 : j < pos
  · simp [h1]
  · simp only [h1, if_false, show ¬ (j + 1 < pos) by omega, show ¬ (j + 1 = pos) by omega, Nat.add_sub_cancel]

/-! ### the inserted lines -/

/-- `v` (read on `0..n-1`) is zero, `±` row `i` of `M`, or a `±` unit vector -/
def RowFrom (m n : Nat) (M : Mat) (v : Nat → Int) : Prop :=
  (∀ j, j < n → v j = 0) ∨
  (∃ i, i < m ∧ ∃ s : Int, sgn3 s ∧ ∀ j, j < n → v j = s * ent M i j) ∨
  (∃ c, c < n ∧ ∃ s : Int, sgn3 s ∧ ∀ j, j < n → v j = if j = c then s else 0)

def ColFrom (m n : Nat) (M : Mat) (v : Nat → Int) : Prop :=
  (∀ i, i < m → v i = 0) ∨
  (∃ j, j < n ∧ ∃ s : Int, sgn3 s ∧ ∀ i, i < m → v i = s * ent M i j) ∨
  (∃ r, r < m ∧ ∃ s : Int, sgn3 s ∧ ∀ i, i < m → v i = if i = r then s else 0)

theorem sgn3_of_pm1 {s : Int} (h : s = 1 ∨ s = -1) : sgn3 s := Or.inr h

theorem getD_unitVec {n j : Nat} (s : Int) {k : Nat} (hk : k < n) : (unitVec n j s).getD k 0 = if k = j then s else 0 := by
  simp [unitVec, List.getD_eq_getElem?_getD, List.getElem?_map, List.getElem?_range, hk]

theorem getD_scaledRow (M : Mat) (i : Nat) (s : Int) (j : Nat) :
    ((M.getD i []).map (s * ·)).getD j 0 = s * ent M i j := by
  unfold ent
  simp only [List.getD_eq_getElem?_getD, List.getElem?_map]
  cases (M[i]?.getD [])[j]? <;> simp

theorem newRow_rowFrom {m n : Nat} {M : Mat} {s : Step} {pos : Nat} (h : s.rowInsOk m n pos) :
    RowFrom m n M (fun j => (s.newRow n M).getD j 0) := by
  cases s <;> simp only [Step.rowInsOk] at h
  · left; intro j hj; simp [Step.newRow, List.getD_eq_getElem?_getD, List.getElem?_replicate, hj]
  · rename_i p c sg
    right; right
    exact ⟨c, h.2.2.1, sg, sgn3_of_pm1 h.2.2.2, fun j hj => getD_unitVec sg hj⟩
  · rename_i p i sg
    right; left
    exact ⟨i, h.2.2.1, sg, sgn3_of_pm1 h.2.2.2, fun j _ => getD_scaledRow M i sg j⟩

theorem newCol_colFrom {m n : Nat} {M : Mat} {s : Step} {pos : Nat} (h : s.colInsOk m n pos) :
    ColFrom m n M (s.newCol M) := by
  cases s <;> simp only [Step.colInsOk] at h
  · left; intro i hi; simp [Step.newCol]
  · rename_i p r sg
    right; right
    exact ⟨r, h.2.2.1, sg, sgn3_of_pm1 h.2.2.2, fun i _ => by simp [Step.newCol]⟩
  · rename_i p j sg
    right; left
    exact ⟨j, h.2.2.1, sg, sgn3_of_pm1 h.2.2.2, fun i _ => by simp [Step.newCol]⟩

theorem length_newRow {m n : Nat} {M : Mat} (hwf : M.wf m n = true) {s : Step} {pos : Nat} (h : s.rowInsOk m n pos) :
    (s.newRow n M).length = n := by
  cases s <;> simp only [Step.rowInsOk] at h
  · simp [Step.newRow]
  · simp [Step.newRow, length_unitVec]
  · simp only [Step.newRow, List.length_map]; exact getD_row_length hwf h.2.2.1

/-! ### total unimodularity and inserted lines -/

theorem isTU_insertRow {M : Mat} {m n pos : Nat} (hwf : M.wf m n = true) (hp : pos ≤ m) (row : List Int)
    (hrow : RowFrom m n M (fun j => row.getD j 0)) :
    isTU (m + 1) n (insertRow M pos row) = isTU m n M := by
  have hl := length_of_wf hwf
  rw [Bool.eq_iff_iff]
  constructor
  · intro h
    have := isTU_sub _ h (skipIdx m pos) (List.range n) skipIdx_lt (by intro x hx; simpa using hx)
    rwa [length_skipIdx, List.length_range, sub_skip_insertRow hwf hp] at this
  · intro h
    apply isTU_of_rowsFrom h
    intro k hk
    by_cases h1 : k < pos
    · right; left
      exact ⟨k, by omega, 1, Or.inr (Or.inl rfl), fun j _ => by rw [ent_insertRow M row (by omega)]; simp [h1]⟩
    · by_cases h2 : k = pos
      · rcases hrow with h0 | ⟨i, hi, s, hs, h3⟩ | ⟨c, hc, s, hs, h3⟩
        · left; intro j hj; rw [ent_insertRow M row (by omega)]; simp only [h1, h2, if_false, if_true]
          simpa using h0 j hj
        · right; left
          refine ⟨i, hi, s, hs, fun j hj => ?_⟩
          rw [ent_insertRow M row (by omega)]; simp only [h1, h2, if_false, if_true]
          simpa using h3 j hj
        · right; right
          refine ⟨c, hc, s, hs, fun j hj => ?_⟩
          rw [ent_insertRow M row (by omega)]; simp only [h1, h2, if_false, if_true]
          simpa using h3 j hj
      · right; left
        exact ⟨k - 1, by omega, 1, Or.inr (Or.inl rfl),
          fun j _ => by rw [ent_insertRow M row (by omega)]; simp [h1, h2]⟩

theorem isTU_insertCol {M : Mat} {m n pos : Nat} (hwf : M.wf m n = true) (hp : pos ≤ n) (col : Nat → Int)
    (hcol : ColFrom m n M col) :
    isTU m (n + 1) (insertCol M pos col) = isTU m n M := by
  rw [Bool.eq_iff_iff]
  constructor
  · intro h
    have := isTU_sub _ h (List.range m) (skipIdx n pos) (by intro x hx; simpa using hx) skipIdx_lt
    rwa [length_skipIdx, List.length_range, sub_skip_insertCol hwf hp] at this
  · intro h
    apply isTU_of_colsFrom h
    intro k hk
    by_cases h1 : k < pos
    · right; left
      exact ⟨k, by omega, 1, Or.inr (Or.inl rfl), fun i hi => by rw [ent_insertCol col hwf hp hi]; simp [h1]⟩
    · by_cases h2 : k = pos
      · rcases hcol with h0 | ⟨j, hj, s, hs, h3⟩ | ⟨r, hr, s, hs, h3⟩
        · left; intro i hi; rw [ent_insertCol col hwf hp hi]; simp only [h2, Nat.lt_irrefl, if_false, if_true]
          exact h0 i hi
        · right; left
          refine ⟨j, hj, s, hs, fun i hi => ?_⟩
          rw [ent_insertCol col hwf hp hi]; simp only [h2, Nat.lt_irrefl, if_false, if_true]
          exact h3 i hi
        · right; right
          refine ⟨r, hr, s, hs, fun i hi => ?_⟩
          rw [ent_insertCol col hwf hp hi]; simp only [h2, Nat.lt_irrefl, if_false, if_true]
          exact h3 i hi
      · right; left
        exact ⟨k - 1, by omega, 1, Or.inr (Or.inl rfl),
          fun i hi => by rw [ent_insertCol col hwf hp hi]; simp [h1, h2]⟩

/-- a permutation step does not change total unimodularity -/
theorem isTU_perm {M : Mat} {m n : Nat} (hwf : M.wf m n = true) {rows cols : List Nat}
    (hr : isPermOf rows m = true) (hc : isPermOf cols n = true) : isTU m n (sub M rows cols) = isTU m n M := by
  obtain ⟨hl1, hlt1, -⟩ := (isPermOf_iff _ _).mp hr
  obtain ⟨hl2, hlt2, -⟩ := (isPermOf_iff _ _).mp hc
  obtain ⟨il1, ilt1, -⟩ := (isPermOf_iff _ _).mp (isPermOf_invPerm hr)
  obtain ⟨il2, ilt2, -⟩ := (isPermOf_iff _ _).mp (isPermOf_invPerm hc)
  rw [Bool.eq_iff_iff]
  constructor
  · intro h
    have := isTU_sub _ h (invPerm rows m) (invPerm cols n) ilt1 ilt2
    rwa [il1, il2, sub_invPerm hwf hr hc] at this
  · intro h
    have := isTU_sub _ h rows cols hlt1 hlt2
    rwa [hl1, hl2] at this



/-! ### the relation table -/

def Step.isPivot : Step → Bool
  | .V2 _ _ | .V3 _ _ => true
  | _ => false

theorem Rel.seq_eq_iff {a b : Rel} : a.seq b = .iff ↔ a = .iff ∧ b = .iff := by
  cases a <;> cases b <;> simp [Rel.seq]

theorem Rel.seq_eq_imp {a b : Rel} (h : a.seq b = .imp) : (a = .iff ∨ a = .imp) ∧ (b = .iff ∨ b = .imp) := by
  cases a <;> cases b <;> simp [Rel.seq] at h ⊢

theorem stepClass_selfdual {c : Cls} (hc : c.dual = c) (s : Step) : (match s with | .T => c.dual | _ => c) = c := by
  cases s <;> simp [hc]

theorem stepsRel_cons (c : Cls) (s : Step) (rest : List Step) :
    stepsRel c (s :: rest) =
      ((stepsRel (match s with | .T => c.dual | _ => c) rest).1,
        (s.rel c).seq (stepsRel (match s with | .T => c.dual | _ => c) rest).2) := by
  cases s <;> rfl

/-- lifting per-step relations of a self-dual class to step lists -/
theorem steps_lift {c : Cls} (hc : c.dual = c) (V : Nat → Nat → Mat → Bool) (ok : Step → Bool)
    (hiff : ∀ s, ok s = true → s.rel c = .iff → ∀ m n M m' n' M', s.apply m n M = some (m', n', M') → M.wf m n = true →
      V m' n' M' = V m n M)
    (himp : ∀ s, ok s = true → s.rel c = .imp → ∀ m n M m' n' M', s.apply m n M = some (m', n', M') → M.wf m n = true →
      V m n M = true → V m' n' M' = true) :
    ∀ steps : List Step, (∀ s ∈ steps, ok s = true) → ∀ m n M m' n' M', applySteps m n M steps = some (m', n', M') →
      M.wf m n = true →
      ((stepsRel c steps).2 = .iff → V m' n' M' = V m n M) ∧
      ((stepsRel c steps).2 = .imp → V m n M = true → V m' n' M' = true) := by
  intro steps
  induction steps with
  | nil =>
    intro _ m n M m' n' M' h hwf
    simp only [applySteps, Option.some.injEq, Prod.mk.injEq] at h
    obtain ⟨rfl, rfl, rfl⟩ := h
    exact ⟨fun _ => rfl, fun _ h => h⟩
  | cons s rest ih =>
    intro hok m n M m' n' M' h hwf
    have hs := hok s (by simp)
    have hrest : ∀ s ∈ rest, ok s = true := fun t ht => hok t (by simp [ht])
    simp only [applySteps] at h
    split at h
    · cases h
    · rename_i m1 n1 M1 h1
      have hwf1 := Step.apply_wf h1 hwf
      obtain ⟨ih1, ih2⟩ := ih hrest m1 n1 M1 m' n' M' h hwf1
      rw [stepsRel_cons, stepClass_selfdual hc]
      simp only
      constructor
      · intro hr
        obtain ⟨ha, hb⟩ := Rel.seq_eq_iff.mp hr
        rw [ih1 hb, hiff s hs ha m n M m1 n1 M1 h1 hwf]
      · intro hr hV
        obtain ⟨ha, hb⟩ := Rel.seq_eq_imp hr
        have hV1 : V m1 n1 M1 = true := by
          rcases ha with ha | ha
          · rw [hiff s hs ha m n M m1 n1 M1 h1 hwf]; exact hV
          · exact himp s hs ha m n M m1 n1 M1 h1 hwf hV
        rcases hb with hb | hb
        · rw [ih1 hb]; exact hV1
        · exact ih2 hb hV1


theorem Cls.beq_eq_decide (a b : Cls) : (a == b) = decide (a = b) := by
  cases a <;> cases b <;> rfl

theorem stepsRel_class_selfdual {c : Cls} (hc : c.dual = c) (steps : List Step) : (stepsRel c steps).1 = c := by
  induction steps with
  | nil => rfl
  | cons s rest ih => rw [stepsRel_cons, stepClass_selfdual hc]; exact ih


open Cmr.Props.C02

/-! ### regularity -/

theorem isBinary_iff_ent {M : Mat} {m n : Nat} (hwf : M.wf m n = true) :
    isBinary M = true ↔ ∀ i, i < m → ∀ j, j < n → (ent M i j = 0 ∨ ent M i j = 1) := by
  constructor
  · intro h i hi j hj
    exact ent_binary hwf h hi hj
  · intro h
    rw [← ofFn_ent hwf]
    exact isBinary_ofFn h

/-- entrywise: `S` signs `M` on the `m × n` window -/
def Signs (m n : Nat) (S M : Mat) : Prop :=
  ∀ i, i < m → ∀ j, j < n → (if ent M i j = 0 then ent S i j = 0 else (ent S i j = 1 ∨ ent S i j = -1))

/-- regularity through entries: 0/1 and some well-formed entrywise signing is TU -/
theorem isRegular_iff_signs {M : Mat} {m n : Nat} (hwf : M.wf m n = true) :
    isRegular n M = true ↔
      (∀ i, i < m → ∀ j, j < n → (ent M i j = 0 ∨ ent M i j = 1)) ∧
        ∃ S : Mat, S.wf m n = true ∧ Signs m n S M ∧ isTU m n S = true := by
  rw [isRegular_iff m n M hwf, isBinary_iff_ent hwf]
  constructor
  · rintro ⟨hb, S, hS, hTU⟩
    obtain ⟨h1, h2⟩ := (isSigningOf_iff_ent hwf).mp hS
    exact ⟨hb, S, h1, h2, hTU⟩
  · rintro ⟨hb, S, h1, h2, hTU⟩
    exact ⟨hb, S, (isSigningOf_iff_ent hwf).mpr ⟨h1, h2⟩, hTU⟩

/-- regularity is inherited by `sub` along arbitrary in-range index lists (repetitions allowed) -/
theorem isRegular_sub {M : Mat} {m n : Nat} (hwf : M.wf m n = true) (h : isRegular n M = true) (rs cs : List Nat)
    (hr : ∀ x ∈ rs, x < m) (hc : ∀ x ∈ cs, x < n) : isRegular cs.length (sub M rs cs) = true := by
  obtain ⟨hb, S, hS, hsig, hTU⟩ := (isRegular_iff_signs hwf).mp h
  rw [isRegular_iff_signs (wf_sub M rs cs)]
  refine ⟨?_, sub S rs cs, wf_sub S rs cs, ?_, isTU_sub S hTU rs cs hr hc⟩
  · intro i hi j hj
    rw [ent_sub M rs cs hi hj]
    exact hb _ (hr _ (List.getElem_mem hi)) _ (hc _ (List.getElem_mem hj))
  · intro i hi j hj
    rw [ent_sub M rs cs hi hj, ent_sub S rs cs hi hj]
    exact hsig _ (hr _ (List.getElem_mem hi)) _ (hc _ (List.getElem_mem hj))

theorem isRegular_transpose_imp {M : Mat} {m n : Nat} (hwf : M.wf m n = true) (h : isRegular n M = true) :
    isRegular m (transpose m n M) = true := by
  obtain ⟨hb, S, hS, hsig, hTU⟩ := (isRegular_iff_signs hwf).mp h
  rw [isRegular_iff_signs (wf_transpose m n M)]
  refine ⟨?_, transpose m n S, wf_transpose m n S, ?_, by rw [isTU_transpose]; exact hTU⟩
  · intro i hi j hj
    rw [ent_transpose M hi hj]; exact hb j hj i hi
  · intro i hi j hj
    rw [ent_transpose M hi hj, ent_transpose S hi hj]; exact hsig j hj i hi

theorem isRegular_transpose {M : Mat} {m n : Nat} (hwf : M.wf m n = true) :
    isRegular m (transpose m n M) = isRegular n M := by
  rw [Bool.eq_iff_iff]
  constructor
  · intro h
    have := isRegular_transpose_imp (wf_transpose m n M) h
    rwa [transpose_transpose hwf] at this
  · exact isRegular_transpose_imp hwf

theorem isRegular_perm {M : Mat} {m n : Nat} (hwf : M.wf m n = true) {rows cols : List Nat}
    (hr : isPermOf rows m = true) (hc : isPermOf cols n = true) : isRegular n (sub M rows cols) = isRegular n M := by
  obtain ⟨hl1, hlt1, -⟩ := (isPermOf_iff _ _).mp hr
  obtain ⟨hl2, hlt2, -⟩ := (isPermOf_iff _ _).mp hc
  obtain ⟨il1, ilt1, -⟩ := (isPermOf_iff _ _).mp (isPermOf_invPerm hr)
  obtain ⟨il2, ilt2, -⟩ := (isPermOf_iff _ _).mp (isPermOf_invPerm hc)
  have hw : (sub M rows cols).wf m n = true := by
    have := wf_sub M rows cols; rwa [hl1, hl2] at this
  rw [Bool.eq_iff_iff]
  constructor
  · intro h
    have := isRegular_sub hw h (invPerm rows m) (invPerm cols n) ilt1 ilt2
    rwa [il2, sub_invPerm hwf hr hc] at this
  · intro h
    have := isRegular_sub hwf h rows cols hlt1 hlt2
    rwa [hl2] at this

/-- Inserting a 0/1 row whose signing can be chosen so that the signed matrix stays TU keeps regularity. -/
theorem isRegular_insertRow {M : Mat} {m n pos : Nat} (hwf : M.wf m n = true) (hp : pos ≤ m) (row : List Int)
    (hlen : row.length = n)
    (hbin : (∀ i, i < m → ∀ j, j < n → (ent M i j = 0 ∨ ent M i j = 1)) → ∀ j, j < n → (row.getD j 0 = 0 ∨ row.getD j 0 = 1))
    (H : ∀ S : Mat, S.wf m n = true → Signs m n S M → ∃ rowS : List Int, rowS.length = n ∧
      RowFrom m n S (fun j => rowS.getD j 0) ∧
      ∀ j, j < n → (if row.getD j 0 = 0 then rowS.getD j 0 = 0 else (rowS.getD j 0 = 1 ∨ rowS.getD j 0 = -1))) :
    isRegular n (insertRow M pos row) = isRegular n M := by
  have hl := length_of_wf hwf
  have hw' : (insertRow M pos row).wf (m + 1) n = true := wf_insertRow hwf hlen
  rw [Bool.eq_iff_iff]
  constructor
  · intro h
    have := isRegular_sub hw' h (skipIdx m pos) (List.range n) skipIdx_lt (by intro x hx; simpa using hx)
    rwa [List.length_range, sub_skip_insertRow hwf hp] at this
  · intro h
    obtain ⟨hb, S, hS, hsig, hTU⟩ := (isRegular_iff_signs hwf).mp h
    obtain ⟨rowS, hlS, hfrom, hsr⟩ := H S hS hsig
    have hlS' := length_of_wf hS
    rw [isRegular_iff_signs hw']
    refine ⟨?_, insertRow S pos rowS, wf_insertRow hS hlS, ?_, by rw [isTU_insertRow hS hp rowS hfrom]; exact hTU⟩
    · intro i hi j hj
      rw [ent_insertRow M row (by omega)]
      split
      · exact hb i (by omega) j hj
      · split
        · exact hbin hb j hj
        · exact hb (i - 1) (by omega) j hj
    · intro i hi j hj
      rw [ent_insertRow M row (by omega), ent_insertRow S rowS (by omega)]
      split
      · exact hsig i (by omega) j hj
      · split
        · exact hsr j hj
        · exact hsig (i - 1) (by omega) j hj


/-- the sign of an insertion step is `+1` (always true for steps without a sign) -/
def Step.unitSign : Step → Bool
  | .UR _ _ s | .UC _ _ s | .DR _ _ s | .DC _ _ s => s == 1
  | _ => true

theorem isRegular_rowIns {M : Mat} {m n : Nat} (hwf : M.wf m n = true) {s : Step} {pos : Nat}
    (hs : s.rowInsOk m n pos) (h1 : s.unitSign = true) :
    isRegular n (insertRow M pos (s.newRow n M)) = isRegular n M := by
  cases s <;> simp only [Step.rowInsOk] at hs
  · -- ZR
    obtain ⟨rfl, hp⟩ := hs
    apply isRegular_insertRow hwf hp _ (by simp [Step.newRow])
    · intro _ j hj; left; simp [Step.newRow, List.getD_eq_getElem?_getD, List.getElem?_replicate, hj]
    · intro S hS hsig
      refine ⟨List.replicate n 0, by simp, Or.inl ?_, ?_⟩
      · intro j hj; simp [List.getD_eq_getElem?_getD, List.getElem?_replicate, hj]
      · intro j hj; simp [Step.newRow, List.getD_eq_getElem?_getD, List.getElem?_replicate, hj]
  · -- UR
    rename_i p c sg
    obtain ⟨rfl, hp, hc, _⟩ := hs
    simp only [Step.unitSign, beq_iff_eq] at h1
    subst h1
    apply isRegular_insertRow hwf hp _ (by simp [Step.newRow, length_unitVec])
    · intro _ j hj; simp only [Step.newRow, getD_unitVec 1 hj]; by_cases h : j = c <;> simp [h]
    · intro S hS hsig
      refine ⟨unitVec n c 1, length_unitVec _ _ _, Or.inr (Or.inr ⟨c, hc, 1, Or.inr (Or.inl rfl), ?_⟩), ?_⟩
      · intro j hj; exact getD_unitVec 1 hj
      · intro j hj; simp only [Step.newRow, getD_unitVec 1 hj]; by_cases h : j = c <;> simp [h]
  · -- DR
    rename_i p i sg
    obtain ⟨rfl, hp, hi, _⟩ := hs
    simp only [Step.unitSign, beq_iff_eq] at h1
    subst h1
    apply isRegular_insertRow hwf hp _ (by simp only [Step.newRow, List.length_map]; exact getD_row_length hwf hi)
    · intro hb j hj; simp only [Step.newRow]; rw [getD_scaledRow, one_mul]; exact hb i hi j hj
    · intro S hS hsig
      refine ⟨(S.getD i []).map (1 * ·), by rw [List.length_map]; exact getD_row_length hS hi,
        Or.inr (Or.inl ⟨i, hi, 1, Or.inr (Or.inl rfl), fun j _ => getD_scaledRow S i 1 j⟩), ?_⟩
      intro j hj
      have e1 := getD_scaledRow M i 1 j
      have e2 := getD_scaledRow S i 1 j
      simp only [Step.newRow]
      simp only [e1, e2]
      simp only [one_mul]
      exact hsig i hi j hj

/-! ### column insertions are row insertions of the transpose -/

theorem transpose_insertCol {M : Mat} {m n pos : Nat} (hwf : M.wf m n = true) (hp : pos ≤ n) (col : Nat → Int) :
    transpose m (n + 1) (insertCol M pos col) = insertRow (transpose m n M) pos ((List.range m).map col) := by
  apply mat_ext (wf_transpose _ _ _) (wf_insertRow (wf_transpose m n M) (by simp))
  intro i hi j hj
  have hlt : (transpose m n M).length = n := length_of_wf (wf_transpose m n M)
  rw [ent_transpose _ hi hj, ent_insertCol col hwf hp hj, ent_insertRow _ _ (by omega)]
  by_cases h1 : i < pos
  · simp only [h1, if_true]; rw [ent_transpose _ (by omega) hj]
  · by_cases h2 : i = pos
    · simp [h1, h2, List.getD_eq_getElem?_getD, List.getElem?_map, List.getElem?_range, hj]
    · simp only [h1, h2, if_false]; rw [ent_transpose _ (by omega) hj]

/-- the row-insertion step that a column-insertion step becomes under transposition -/
def Step.toRowIns : Step → Step
  | .ZC p => .ZR p
  | .UC p i s => .UR p i s
  | .DC p j s => .DR p j s
  | s => s

theorem colIns_toRowIns {M : Mat} {m n : Nat} (hwf : M.wf m n = true) {s : Step} {pos : Nat} (hs : s.colInsOk m n pos) :
    s.toRowIns.rowInsOk n m pos ∧ s.toRowIns.unitSign = s.unitSign ∧
      (List.range m).map (s.newCol M) = s.toRowIns.newRow m (transpose m n M) := by
  cases s <;> simp only [Step.colInsOk] at hs
  · exact ⟨hs, rfl, by simp [Step.newCol, Step.toRowIns, Step.newRow]⟩
  · exact ⟨hs, rfl, rfl⟩
  · rename_i p j sg
    refine ⟨hs, rfl, ?_⟩
    simp [Step.newCol, Step.toRowIns, Step.newRow, transpose, Mat.ofFn, List.getD_eq_getElem?_getD, List.getElem?_map,
      List.getElem?_range, hs.2.2.1]

theorem transpose_colIns {M : Mat} {m n : Nat} (hwf : M.wf m n = true) {s : Step} {pos : Nat} (hs : s.colInsOk m n pos) :
    transpose m (n + 1) (insertCol M pos (s.newCol M)) =
      insertRow (transpose m n M) pos (s.toRowIns.newRow m (transpose m n M)) := by
  have hp : pos ≤ n := by cases s <;> simp only [Step.colInsOk] at hs <;> first | exact hs.2 | exact hs.2.1
  rw [transpose_insertCol hwf hp, (colIns_toRowIns hwf hs).2.2]

theorem isRegular_colIns {M : Mat} {m n : Nat} (hwf : M.wf m n = true) {s : Step} {pos : Nat}
    (hs : s.colInsOk m n pos) (h1 : s.unitSign = true) :
    isRegular (n + 1) (insertCol M pos (s.newCol M)) = isRegular n M := by
  obtain ⟨h2, h3, _⟩ := colIns_toRowIns hwf hs
  rw [← isRegular_transpose (wf_insertCol hwf), transpose_colIns hwf hs,
    isRegular_rowIns (wf_transpose m n M) h2 (by rw [h3]; exact h1), isRegular_transpose hwf]


/-! ### balancedness -/

/-- balancedness through duplicate-free index lists in any order -/
theorem isBalanced_iff_nodup (m n : Nat) (M : Mat) :
    isBalanced m n M = true ↔
      isTernary M = true ∧
        ∀ rs cs : List Nat, (∀ x ∈ rs, x < m) → (∀ x ∈ cs, x < n) → rs.Nodup → cs.Nodup → rs.length = cs.length →
          isUnbalancedHoleL M rs cs = false := by
  constructor
  · intro h
    have ht := ((Cmr.Props.C17.isBalanced_iff m n M).mp h).1
    refine ⟨ht, fun rs cs hr hc hnr hnc hl => ?_⟩
    cases hv : isUnbalancedHoleL M rs cs with
    | false => rfl
    | true =>
      rw [← isUnbalancedHole_sub M rs cs rs.length rfl hl.symm] at hv
      have := Cmr.Props.C17.violator_refutes m n M rs cs hl hr hc hnr hnc ht hv
      rw [h] at this; cases this
  · rintro ⟨ht, h⟩
    rw [Cmr.Props.C17.isBalanced_iff]
    refine ⟨ht, fun k rs cs hrs hcs hlr hlc => ?_⟩
    rw [isUnbalancedHole_sub M rs cs k hlr hlc]
    exact h rs cs (fun x hx => List.mem_range.mp (hrs.subset hx)) (fun x hx => List.mem_range.mp (hcs.subset hx))
      (hrs.nodup List.nodup_range) (hcs.nodup List.nodup_range) (by omega)

/-- the hole predicate only reads the entries at the listed positions; index maps can be moved into the lists -/
theorem isUnbalancedHoleL_map (M M' : Mat) (f g : Nat → Nat) (rs cs : List Nat)
    (h : ∀ r ∈ rs, ∀ c ∈ cs, ent M' r c = ent M (f r) (g c)) :
    isUnbalancedHoleL M' rs cs = isUnbalancedHoleL M (rs.map f) (cs.map g) := by
  unfold isUnbalancedHoleL twoPerLineL entrySumL
  simp only [List.all_map, List.countP_map, List.map_map]
  congr 1
  · congr 1
    · apply all_congr_mem
      intro r hr
      simp only [Function.comp]
      congr 1
      apply List.countP_congr
      intro c hc
      simp only [Function.comp, h r hr c hc]
    · apply all_congr_mem
      intro c hc
      simp only [Function.comp]
      congr 1
      apply List.countP_congr
      intro r hr
      simp only [Function.comp, h r hr c hc]
  · congr 2
    congr 1
    apply List.map_congr_left
    intro r hr
    simp only [Function.comp]
    congr 1
    apply List.map_congr_left
    intro c hc
    simp only [Function.comp, h r hr c hc]

theorem nodup_map_getD {R : List Nat} (hR : R.Nodup) {rs : List Nat} (hrs : rs.Nodup) (hlt : ∀ x ∈ rs, x < R.length) :
    (rs.map (fun i => R.getD i 0)).Nodup := by
  rw [List.nodup_map_iff_inj_on hrs]
  intro a ha b hb hab
  have h1 := hlt a ha
  have h2 := hlt b hb
  simp only [List.getD_eq_getElem?_getD, List.getElem?_eq_getElem h1, List.getElem?_eq_getElem h2,
    Option.getD_some] at hab
  exact (List.Nodup.getElem_inj_iff hR).mp hab

/-- balancedness is inherited by submatrices along duplicate-free in-range index lists (any order) -/
theorem isBalanced_sub {M : Mat} {m n : Nat} (hwf : M.wf m n = true) (h : isBalanced m n M = true) (R C : List Nat)
    (hR : ∀ x ∈ R, x < m) (hC : ∀ x ∈ C, x < n) (hnR : R.Nodup) (hnC : C.Nodup) :
    isBalanced R.length C.length (sub M R C) = true := by
  obtain ⟨ht, hh⟩ := (isBalanced_iff_nodup m n M).mp h
  rw [isBalanced_iff_nodup]
  refine ⟨?_, fun rs cs hr hc hnr hnc hl => ?_⟩
  · rw [isTernary_iff_ent (wf_sub M R C)]
    intro i hi j hj
    rw [ent_sub M R C hi hj]
    exact (isTernary_iff_ent hwf).mp ht _ (hR _ (List.getElem_mem hi)) _ (hC _ (List.getElem_mem hj))
  · rw [isUnbalancedHoleL_map M (sub M R C) (fun i => R.getD i 0) (fun j => C.getD j 0) rs cs
      (fun r hr' c hc' => ent_sub_getD M R C (hr r hr') (hc c hc'))]
    apply hh
    · intro x hx
      simp only [List.mem_map] at hx
      obtain ⟨i, hi, rfl⟩ := hx
      have := hr i hi
      rw [List.getD_eq_getElem?_getD, List.getElem?_eq_getElem this, Option.getD_some]
      exact hR _ (List.getElem_mem this)
    · intro x hx
      simp only [List.mem_map] at hx
      obtain ⟨i, hi, rfl⟩ := hx
      have := hc i hi
      rw [List.getD_eq_getElem?_getD, List.getElem?_eq_getElem this, Option.getD_some]
      exact hC _ (List.getElem_mem this)
    · exact nodup_map_getD hnR hnr hr
    · exact nodup_map_getD hnC hnc hc
    · simpa using hl

theorem isBalanced_perm {M : Mat} {m n : Nat} (hwf : M.wf m n = true) {rows cols : List Nat}
    (hr : isPermOf rows m = true) (hc : isPermOf cols n = true) : isBalanced m n (sub M rows cols) = isBalanced m n M := by
  obtain ⟨hl1, hlt1, hn1⟩ := (isPermOf_iff _ _).mp hr
  obtain ⟨hl2, hlt2, hn2⟩ := (isPermOf_iff _ _).mp hc
  obtain ⟨il1, ilt1, in1⟩ := (isPermOf_iff _ _).mp (isPermOf_invPerm hr)
  obtain ⟨il2, ilt2, in2⟩ := (isPermOf_iff _ _).mp (isPermOf_invPerm hc)
  have hw : (sub M rows cols).wf m n = true := by
    have := wf_sub M rows cols; rwa [hl1, hl2] at this
  rw [Bool.eq_iff_iff]
  constructor
  · intro h
    have := isBalanced_sub hw h (invPerm rows m) (invPerm cols n) ilt1 ilt2 in1 in2
    rwa [il1, il2, sub_invPerm hwf hr hc] at this
  · intro h
    have := isBalanced_sub hwf h rows cols hlt1 hlt2 hn1 hn2
    rwa [hl1, hl2] at this


/-- index map that undoes `skipIdx` away from `pos` -/
def unskip (pos k : Nat) : Nat := if k < pos then k else k - 1

/-- a hole of `insertRow M pos row` that avoids the new row is a hole of `M` -/
theorem hole_insertRow_avoid {M : Mat} {m n pos : Nat} (hwf : M.wf m n = true) (hp : pos ≤ m) (row : List Int)
    (rs cs : List Nat) (hpos : pos ∉ rs) :
    isUnbalancedHoleL (insertRow M pos row) rs cs = isUnbalancedHoleL M (rs.map (unskip pos)) cs := by
  have hl := length_of_wf hwf
  have := isUnbalancedHoleL_map M (insertRow M pos row) (unskip pos) id rs cs (by
    intro r hr c hc
    have hne : r ≠ pos := fun e => hpos (e ▸ hr)
    rw [ent_insertRow M row (by omega)]
    unfold unskip
    by_cases h1 : r < pos
    · simp [h1]
    · simp [h1, hne])
  rwa [List.map_id] at this

theorem unskip_props {m pos : Nat} (hp : pos ≤ m) {rs : List Nat} (hr : ∀ x ∈ rs, x < m + 1) (hpos : pos ∉ rs)
    (hn : rs.Nodup) : (∀ x ∈ rs.map (unskip pos), x < m) ∧ (rs.map (unskip pos)).Nodup := by
  constructor
  · intro x hx
    simp only [List.mem_map] at hx
    obtain ⟨r, hr', rfl⟩ := hx
    have hne : r ≠ pos := fun e => hpos (e ▸ hr')
    have := hr r hr'
    unfold unskip; split <;> omega
  · rw [List.nodup_map_iff_inj_on hn]
    intro a ha b hb hab
    have h1 : a ≠ pos := fun e => hpos (e ▸ ha)
    have h2 : b ≠ pos := fun e => hpos (e ▸ hb)
    unfold unskip at hab
    split at hab <;> split at hab <;> omega

theorem countP_le_one_of_single {cs : List Nat} (hn : cs.Nodup) (p : Nat → Bool) (c0 : Nat)
    (h : ∀ c ∈ cs, p c = true → c = c0) : cs.countP p ≤ 1 := by
  have h1 : cs.countP p ≤ cs.countP (· == c0) :=
    List.countP_mono_left (fun c hc hp => by simpa using h c hc hp)
  have h2 : cs.countP (· == c0) = cs.count c0 := rfl
  have h3 := List.nodup_iff_count_le_one.mp hn c0
  omega

/-- Inserting a row with at most one nonzero (a zero row or a `±` unit row) does not change balancedness. -/
theorem isBalanced_insertRow_sparse {M : Mat} {m n pos : Nat} (hwf : M.wf m n = true) (hp : pos ≤ m) (row : List Int)
    (hlen : row.length = n) (htern : ∀ j, j < n → isTernaryEntry (row.getD j 0) = true)
    (c0 : Nat) (hsparse : ∀ j, j < n → j ≠ c0 → row.getD j 0 = 0) :
    isBalanced (m + 1) n (insertRow M pos row) = isBalanced m n M := by
  have hl := length_of_wf hwf
  have hw' : (insertRow M pos row).wf (m + 1) n = true := wf_insertRow hwf hlen
  rw [Bool.eq_iff_iff]
  constructor
  · intro h
    have := isBalanced_sub hw' h (skipIdx m pos) (List.range n) skipIdx_lt (by intro x hx; simpa using hx)
      (skipIdx_nodup m pos) List.nodup_range
    rwa [length_skipIdx, List.length_range, sub_skip_insertRow hwf hp] at this
  · intro h
    obtain ⟨ht, hh⟩ := (isBalanced_iff_nodup m n M).mp h
    rw [isBalanced_iff_nodup]
    refine ⟨?_, fun rs cs hr hc hnr hnc hlen' => ?_⟩
    · rw [isTernary_iff_ent hw']
      intro i hi j hj
      rw [ent_insertRow M row (by omega)]
      split
      · exact (isTernary_iff_ent hwf).mp ht i (by omega) j hj
      · split
        · exact htern j hj
        · exact (isTernary_iff_ent hwf).mp ht (i - 1) (by omega) j hj
    · by_cases hpos : pos ∈ rs
      · cases hv : isUnbalancedHoleL (insertRow M pos row) rs cs with
        | false => rfl
        | true =>
          exfalso
          simp only [isUnbalancedHoleL, twoPerLineL, Bool.and_eq_true, List.all_eq_true, beq_iff_eq] at hv
          have h2 := hv.1.1 pos hpos
          have h1 := countP_le_one_of_single hnc (fun c => ent (insertRow M pos row) pos c != 0) c0 (by
            intro c hc' hne
            by_contra hcc
            rw [ent_insertRow M row (by omega)] at hne
            simp only [Nat.lt_irrefl, if_false, if_true] at hne
            rw [hsparse c (hc c hc') hcc] at hne
            simp at hne)
          omega
      · rw [hole_insertRow_avoid hwf hp row rs cs hpos]
        obtain ⟨h1, h2⟩ := unskip_props hp hr hpos hnr
        exact hh _ cs h1 hc h2 hnc (by simpa using hlen')


/-- a ternary list with `k` nonzeros has a sum of absolute value at most `k` and of the parity of `k` -/
theorem ternary_sum_bounds (l : List Int) (ht : ∀ x ∈ l, x = 0 ∨ x = 1 ∨ x = -1) :
    -(l.countP (· != 0) : Int) ≤ l.sum ∧ l.sum ≤ (l.countP (· != 0) : Int) ∧
      (l.sum - (l.countP (· != 0) : Int)) % 2 = 0 := by
  induction l with
  | nil => simp
  | cons x xs ih =>
    obtain ⟨h1, h2, h3⟩ := ih (fun y hy => ht y (by simp [hy]))
    rcases ht x (by simp) with rfl | rfl | rfl <;> simp [List.countP_cons] <;> omega

theorem ternary_sum_two (l : List Int) (ht : ∀ x ∈ l, x = 0 ∨ x = 1 ∨ x = -1) (h2 : l.countP (· != 0) = 2) :
    l.sum = -2 ∨ l.sum = 0 ∨ l.sum = 2 := by
  obtain ⟨h1, h3, h4⟩ := ternary_sum_bounds l ht
  rw [h2] at h1 h3 h4
  omega

theorem sum_mod4_congr (l : List Nat) (a b : Nat → Int)
    (h : ∀ r ∈ l, (a r = b r ∨ a r = - b r) ∧ (b r = -2 ∨ b r = 0 ∨ b r = 2)) :
    (l.map a).sum % 4 = (l.map b).sum % 4 := by
  induction l with
  | nil => rfl
  | cons x xs ih =>
    have ih' := ih (fun r hr => h r (by simp [hr]))
    obtain ⟨h1, h2⟩ := h x (by simp)
    simp only [List.map_cons, List.sum_cons]
    rcases h1 with h1 | h1 <;> rcases h2 with h2 | h2 | h2 <;> omega

/-- the hole predicate does not change when rows are multiplied by signs (ternary entries) -/
theorem isUnbalancedHoleL_rowScale (M M' : Mat) (u : Nat → Int) (rs cs : List Nat)
    (hu : ∀ r ∈ rs, u r = 1 ∨ u r = -1)
    (ht : ∀ r ∈ rs, ∀ c ∈ cs, ent M r c = 0 ∨ ent M r c = 1 ∨ ent M r c = -1)
    (h : ∀ r ∈ rs, ∀ c ∈ cs, ent M' r c = u r * ent M r c) :
    isUnbalancedHoleL M' rs cs = isUnbalancedHoleL M rs cs := by
  have hnz : ∀ r ∈ rs, ∀ c ∈ cs, (ent M' r c != 0) = (ent M r c != 0) := by
    intro r hr c hc
    rw [h r hr c hc]
    rcases hu r hr with e | e <;> rw [e] <;> rw [Bool.eq_iff_iff] <;> simp
  have htp : twoPerLineL M' rs cs = twoPerLineL M rs cs := by
    unfold twoPerLineL
    congr 1
    · apply all_congr_mem
      intro r hr
      congr 1
      apply List.countP_congr
      intro c hc
      simp only [hnz r hr c hc]
    · apply all_congr_mem
      intro c hc
      congr 1
      apply List.countP_congr
      intro r hr
      simp only [hnz r hr c hc]
  unfold isUnbalancedHoleL
  rw [htp]
  cases h2 : twoPerLineL M rs cs with
  | false => rfl
  | true =>
    simp only [Bool.true_and]
    congr 1
    unfold entrySumL
    apply sum_mod4_congr
    intro r hr
    have hsum : (cs.map (fun c => ent M' r c)).sum = u r * (cs.map (fun c => ent M r c)).sum := by
      rw [← List.sum_map_mul_left]
      congr 1
      apply List.map_congr_left
      intro c hc
      exact h r hr c hc
    constructor
    · rw [hsum]
      rcases hu r hr with e | e <;> rw [e]
      · left; ring
      · right; ring
    · apply ternary_sum_two
      · intro x hx
        simp only [List.mem_map] at hx
        obtain ⟨c, hc, rfl⟩ := hx
        exact ht r hr c hc
      · simp only [twoPerLineL, Bool.and_eq_true, List.all_eq_true, beq_iff_eq] at h2
        have := h2.1 r hr
        rw [List.countP_map]
        exact this

/-- multiplying the rows of a well-formed matrix by signs keeps balancedness -/
theorem isBalanced_rowScale_imp {M M' : Mat} {m n : Nat} (hwf : M.wf m n = true) (hwf' : M'.wf m n = true)
    (u : Nat → Int) (hu : ∀ r, r < m → u r = 1 ∨ u r = -1)
    (h : ∀ r, r < m → ∀ c, c < n → ent M' r c = u r * ent M r c) (hb : isBalanced m n M = true) :
    isBalanced m n M' = true := by
  obtain ⟨ht, hh⟩ := (isBalanced_iff_nodup m n M).mp hb
  have hte := (isTernary_iff_ent hwf).mp ht
  rw [isBalanced_iff_nodup]
  refine ⟨?_, fun rs cs hr hc hnr hnc hl => ?_⟩
  · rw [isTernary_iff_ent hwf']
    intro i hi j hj
    rw [h i hi j hj, isTernaryEntry_iff]
    have := (isTernaryEntry_iff _).mp (hte i hi j hj)
    rcases hu i hi with e | e <;> rw [e] <;> omega
  · rw [isUnbalancedHoleL_rowScale M M' u rs cs (fun r hr' => hu r (hr r hr'))
      (fun r hr' c hc' => (isTernaryEntry_iff _).mp (hte r (hr r hr') c (hc c hc')))
      (fun r hr' c hc' => h r (hr r hr') c (hc c hc'))]
    exact hh rs cs hr hc hnr hnc hl

theorem isBalanced_rowScale {M M' : Mat} {m n : Nat} (hwf : M.wf m n = true) (hwf' : M'.wf m n = true)
    (u : Nat → Int) (hu : ∀ r, r < m → u r = 1 ∨ u r = -1)
    (h : ∀ r, r < m → ∀ c, c < n → ent M' r c = u r * ent M r c) :
    isBalanced m n M' = isBalanced m n M := by
  rw [Bool.eq_iff_iff]
  constructor
  · apply isBalanced_rowScale_imp hwf' hwf u hu
    intro r hr c hc
    rw [h r hr c hc, ← mul_assoc]
    rcases hu r hr with e | e <;> rw [e] <;> ring
  · exact isBalanced_rowScale_imp hwf hwf' u hu h

theorem isBalanced_negRow {M : Mat} {m n : Nat} (hwf : M.wf m n = true) (i : Nat) :
    isBalanced m n (negRow M i) = isBalanced m n M := by
  apply isBalanced_rowScale hwf (wf_negRow hwf i) (fun r => if r = i then -1 else 1)
  · intro r _; by_cases h : r = i <;> simp [h]
  · intro r _ c _; rw [ent_negRow]; by_cases h : r = i <;> simp [h]

theorem transpose_negCol {M : Mat} {m n : Nat} (hwf : M.wf m n = true) (j : Nat) :
    transpose m n (negCol M j) = negRow (transpose m n M) j := by
  apply mat_ext (wf_transpose _ _ _) (wf_negRow (wf_transpose m n M) j)
  intro i hi k hk
  rw [ent_transpose _ hi hk, ent_negCol, ent_negRow, ent_transpose _ hi hk]

theorem isBalanced_negCol {M : Mat} {m n : Nat} (hwf : M.wf m n = true) (j : Nat) :
    isBalanced m n (negCol M j) = isBalanced m n M := by
  rw [← Cmr.Props.C17.isBalanced_transpose m n _ (wf_negCol hwf j), transpose_negCol hwf,
    isBalanced_negRow (wf_transpose m n M), Cmr.Props.C17.isBalanced_transpose m n M hwf]


theorem countP_split {α : Type} (l : List α) (p z : α → Bool) :
    l.countP p = (l.filter z).countP p + (l.filter (fun a => !z a)).countP p := by
  induction l with
  | nil => rfl
  | cons a l ih =>
    cases hz : z a <;> cases hp : p a <;> simp [List.filter_cons, List.countP_cons, hz, hp, ih] <;> omega

theorem sum_split (l : List Nat) (f : Nat → Int) (z : Nat → Bool) :
    (l.map f).sum = ((l.filter z).map f).sum + ((l.filter (fun a => !z a)).map f).sum := by
  induction l with
  | nil => rfl
  | cons a l ih =>
    cases hz : z a <;> simp [List.filter_cons, hz, ih] <;> ring

/-- Two equal rows `p`, `q` in a hole: removing them and the two columns of their nonzeros leaves a hole. -/
theorem hole_remove_twin (N : Mat) (p q : Nat) (rs cs : List Nat)
    (hpq : ∀ c ∈ cs, ent N p c = ent N q c)
    (htern : ∀ c ∈ cs, ent N q c = 0 ∨ ent N q c = 1 ∨ ent N q c = -1)
    (h : isUnbalancedHoleL N (p :: q :: rs) cs = true) :
    isUnbalancedHoleL N rs (cs.filter (fun c => !(ent N q c != 0))) = true ∧
      (cs.filter (fun c => !(ent N q c != 0))).length + 2 = cs.length := by
  simp only [isUnbalancedHoleL, twoPerLineL, entrySumL, Bool.and_eq_true, List.all_eq_true, beq_iff_eq,
    List.mem_cons, forall_eq_or_imp, List.map_cons, List.sum_cons, List.countP_cons] at h
  obtain ⟨⟨⟨hrp, hrq, hrows⟩, hcols⟩, hsum⟩ := h
  -- columns where the twin rows are nonzero vanish on the other rows
  have hvan : ∀ c ∈ cs, (ent N q c != 0) = true → ∀ r ∈ rs, ent N r c = 0 := by
    intro c hc hne r hr
    have h1 := hcols c hc
    have hne' : (ent N p c != 0) = true := by rw [hpq c hc]; exact hne
    simp only [hne, hne', if_true] at h1
    have h0 : List.countP (fun r => ent N r c != 0) rs = 0 := by omega
    have := List.countP_eq_zero.mp h0 r hr
    simpa using this
  have hlen : (cs.filter (fun c => !(ent N q c != 0))).length + 2 = cs.length := by
    have := List.length_eq_countP_add_countP (fun c => ent N q c != 0) (l := cs)
    rw [hrq] at this
    rw [← List.countP_eq_length_filter]
    have e : List.countP (fun c => !(ent N q c != 0)) cs = List.countP (fun a => decide ¬(ent N q a != 0) = true) cs := by
      apply List.countP_congr; intro c _; simp
    omega
  refine ⟨?_, hlen⟩
  simp only [isUnbalancedHoleL, twoPerLineL, entrySumL, Bool.and_eq_true, List.all_eq_true, beq_iff_eq]
  refine ⟨⟨?_, ?_⟩, ?_⟩
  · intro r hr
    have h1 := hrows r hr
    rw [countP_split cs _ (fun c => ent N q c != 0)] at h1
    have h0 : List.countP (fun c => ent N r c != 0) (cs.filter (fun c => ent N q c != 0)) = 0 := by
      rw [List.countP_eq_zero]
      intro c hc
      rw [List.mem_filter] at hc
      simp [hvan c hc.1 hc.2 r hr]
    omega
  · intro c hc
    rw [List.mem_filter] at hc
    have h1 := hcols c hc.1
    have hz : (ent N q c != 0) = false := by simpa using hc.2
    have hz' : (ent N p c != 0) = false := by rw [hpq c hc.1]; exact hz
    simp only [hz, hz', Bool.false_eq_true, if_false, Nat.add_zero] at h1
    exact h1
  · have e1 : (cs.map (fun c => ent N p c)).sum = (cs.map (fun c => ent N q c)).sum := by
      congr 1; apply List.map_congr_left; intro c hc; exact hpq c hc
    have h2 := ternary_sum_two (cs.map (fun c => ent N q c))
      (by intro x hx; simp only [List.mem_map] at hx; obtain ⟨c, hc, rfl⟩ := hx; exact htern c hc)
      (by rw [List.countP_map]; exact hrq)
    have e2 : (rs.map (fun r => (cs.map (fun c => ent N r c)).sum)).sum =
        (rs.map (fun r => ((cs.filter (fun c => !(ent N q c != 0))).map (fun c => ent N r c)).sum)).sum := by
      congr 1
      apply List.map_congr_left
      intro r hr
      rw [sum_split cs _ (fun c => ent N q c != 0)]
      have h0 : ((cs.filter (fun c => ent N q c != 0)).map (fun c => ent N r c)).sum = 0 := by
        apply List.sum_eq_zero
        intro x hx
        simp only [List.mem_map, List.mem_filter] at hx
        obtain ⟨c, hc, rfl⟩ := hx
        exact hvan c hc.1 hc.2 r hr
      rw [h0, zero_add]
    rw [e1, e2] at hsum
    omega


/-- Inserting a copy of row `i` does not change balancedness. -/
theorem isBalanced_insertRow_copy1 {M : Mat} {m n pos i : Nat} (hwf : M.wf m n = true) (hp : pos ≤ m) (hi : i < m)
    (row : List Int) (hlen : row.length = n) (hrow : ∀ j, row.getD j 0 = ent M i j) :
    isBalanced (m + 1) n (insertRow M pos row) = isBalanced m n M := by
  have hl := length_of_wf hwf
  have hw' : (insertRow M pos row).wf (m + 1) n = true := wf_insertRow hwf hlen
  rw [Bool.eq_iff_iff]
  constructor
  · intro h
    have := isBalanced_sub hw' h (skipIdx m pos) (List.range n) skipIdx_lt (by intro x hx; simpa using hx)
      (skipIdx_nodup m pos) List.nodup_range
    rwa [length_skipIdx, List.length_range, sub_skip_insertRow hwf hp] at this
  · intro h
    obtain ⟨ht, hh⟩ := (isBalanced_iff_nodup m n M).mp h
    have hte := (isTernary_iff_ent hwf).mp ht
    -- every row of the new matrix is a row of `M`
    let f : Nat → Nat := fun r => if r = pos then i else unskip pos r
    have hf : ∀ r c, ent (insertRow M pos row) r c = ent M (f r) c := by
      intro r c
      rw [ent_insertRow M row (by omega)]
      simp only [f, unskip]
      by_cases h1 : r < pos
      · simp [h1, Nat.ne_of_lt h1]
      · by_cases h2 : r = pos
        · rw [if_neg h1, if_pos h2, if_pos h2]; exact hrow c
        · simp [h1, h2]
    have hflt : ∀ r, r < m + 1 → f r < m := by
      intro r hr
      simp only [f, unskip]
      split
      · exact hi
      · split <;> omega
    have hte' : ∀ r, r < m + 1 → ∀ c, c < n → isTernaryEntry (ent (insertRow M pos row) r c) = true := by
      intro r hr c hc
      rw [hf]; exact hte _ (hflt r hr) c hc
    -- holes that avoid the new row
    have havoid : ∀ rs cs : List Nat, (∀ x ∈ rs, x < m + 1) → (∀ x ∈ cs, x < n) → rs.Nodup → cs.Nodup →
        rs.length = cs.length → pos ∉ rs → isUnbalancedHoleL (insertRow M pos row) rs cs = false := by
      intro rs cs hr hc hnr hnc hlen' hpos
      rw [hole_insertRow_avoid hwf hp row rs cs hpos]
      obtain ⟨h1, h2⟩ := unskip_props hp hr hpos hnr
      exact hh _ cs h1 hc h2 hnc (by simpa using hlen')
    rw [isBalanced_iff_nodup]
    refine ⟨(isTernary_iff_ent hw').mpr hte', fun rs cs hr hc hnr hnc hlen' => ?_⟩
    by_cases hpos : pos ∈ rs
    · -- the position of the original row `i` in the new matrix
      let q : Nat := if i < pos then i else i + 1
      have hqpos : q ≠ pos := by simp only [q]; split <;> omega
      have hfq : f q = i := by
        simp only [f, unskip, q]
        by_cases h1 : i < pos
        · simp [h1, Nat.ne_of_lt h1]
        · simp [h1, show ¬ (i + 1 = pos) by omega, show ¬ (i + 1 < pos) by omega]
      by_cases hq : q ∈ rs
      · -- both copies: remove them
        cases hv : isUnbalancedHoleL (insertRow M pos row) rs cs with
        | false => rfl
        | true =>
          exfalso
          have hperm : rs.Perm (pos :: q :: (rs.erase pos).erase q) := by
            refine (List.perm_cons_erase hpos).trans (List.Perm.cons _ ?_)
            exact List.perm_cons_erase ((List.mem_erase_of_ne hqpos).mpr hq)
          rw [isUnbalancedHoleL_perm _ hperm (List.Perm.refl cs)] at hv
          obtain ⟨h1, h2⟩ := hole_remove_twin _ pos q _ cs
            (by intro c _; rw [hf, hf, hfq]; simp [f])
            (by
              intro c hc'
              have hq' : q < m + 1 := hr q hq
              exact (isTernaryEntry_iff _).mp (hte' q hq' c (hc c hc')))
            hv
          have hsub : ∀ x ∈ (rs.erase pos).erase q, x ∈ rs := fun x hx =>
            List.mem_of_mem_erase (List.mem_of_mem_erase hx)
          have hnd : ((rs.erase pos).erase q).Nodup := (hnr.erase pos).erase q
          have hlen3 : ((rs.erase pos).erase q).length + 2 = rs.length := by
            have := hperm.length_eq; simp at this; omega
          have := havoid ((rs.erase pos).erase q) (cs.filter (fun c => !(ent (insertRow M pos row) q c != 0)))
            (fun x hx => hr x (hsub x hx))
            (fun x hx => hc x (List.mem_of_mem_filter hx)) hnd (hnc.filter _) (by omega)
            (fun hmem => (List.Nodup.mem_erase_iff hnr).mp (List.mem_of_mem_erase hmem) |>.1 rfl)
          rw [h1] at this
          cases this
      · -- only the copy: it stands for the original
        rw [isUnbalancedHoleL_map M _ f id rs cs (fun r _ c _ => hf r c), List.map_id]
        apply hh _ cs _ hc _ hnc (by simpa using hlen')
        · intro x hx
          simp only [List.mem_map] at hx
          obtain ⟨r, hr', rfl⟩ := hx
          exact hflt r (hr r hr')
        · rw [List.nodup_map_iff_inj_on hnr]
          intro a ha b hb hab
          have hane : a ≠ q := fun e => hq (e ▸ ha)
          have hbne : b ≠ q := fun e => hq (e ▸ hb)
          simp only [f, unskip, q] at hab hane hbne
          split at hab <;> split at hab <;> (try split at hab) <;> (try split at hab) <;>
            (try split at hane) <;> (try split at hbne) <;> omega
    · exact havoid rs cs hr hc hnr hnc hlen' hpos


theorem isBalanced_rowIns {M : Mat} {m n : Nat} (hwf : M.wf m n = true) {s : Step} {pos : Nat}
    (hs : s.rowInsOk m n pos) :
    isBalanced (m + 1) n (insertRow M pos (s.newRow n M)) = isBalanced m n M := by
  have hl := length_of_wf hwf
  cases s <;> simp only [Step.rowInsOk] at hs
  · -- ZR
    obtain ⟨rfl, hp⟩ := hs
    apply isBalanced_insertRow_sparse hwf hp _ (by simp [Step.newRow]) _ 0
    · intro j hj _; simp [Step.newRow, List.getD_eq_getElem?_getD, List.getElem?_replicate, hj]
    · intro j hj; simp [Step.newRow, List.getD_eq_getElem?_getD, List.getElem?_replicate, hj, isTernaryEntry]
  · -- UR
    rename_i p c sg
    obtain ⟨rfl, hp, hc, hsg⟩ := hs
    apply isBalanced_insertRow_sparse hwf hp _ (by simp [Step.newRow, length_unitVec]) _ c
    · intro j hj hne; simp only [Step.newRow, getD_unitVec sg hj, hne, if_false]
    · intro j hj; simp only [Step.newRow, getD_unitVec sg hj]
      by_cases h : j = c
      · rcases hsg with e | e <;> simp [h, e, isTernaryEntry]
      · simp [h, isTernaryEntry]
  · -- DR
    rename_i p i sg
    obtain ⟨rfl, hp, hi, hsg⟩ := hs
    have hlen : ∀ t : Int, ((M.getD i []).map (t * ·)).length = n := fun t => by
      rw [List.length_map]; exact getD_row_length hwf hi
    have h1 := isBalanced_insertRow_copy1 (pos := p) hwf hp hi ((M.getD i []).map (1 * ·)) (hlen 1)
      (fun j => by rw [getD_scaledRow, one_mul])
    rw [← h1]
    simp only [Step.newRow]
    apply isBalanced_rowScale (wf_insertRow hwf (hlen 1)) (wf_insertRow hwf (hlen sg)) (fun r => if r = p then sg else 1)
    · intro r _; by_cases h : r = p <;> simp [h, hsg]
    · intro r hr c hc
      rw [ent_insertRow M _ (by omega), ent_insertRow M _ (by omega)]
      by_cases h1 : r < p
      · simp [h1, Nat.ne_of_lt h1]
      · by_cases h2 : r = p
        · rw [if_neg h1, if_pos h2, if_neg h1, if_pos h2, if_pos h2, getD_scaledRow, getD_scaledRow, one_mul]
        · simp [h1, h2]

theorem isBalanced_colIns {M : Mat} {m n : Nat} (hwf : M.wf m n = true) {s : Step} {pos : Nat}
    (hs : s.colInsOk m n pos) :
    isBalanced m (n + 1) (insertCol M pos (s.newCol M)) = isBalanced m n M := by
  obtain ⟨h2, _, _⟩ := colIns_toRowIns hwf hs
  rw [← Cmr.Props.C17.isBalanced_transpose m (n + 1) _ (wf_insertCol hwf), transpose_colIns hwf hs,
    isBalanced_rowIns (wf_transpose m n M) h2, Cmr.Props.C17.isBalanced_transpose m n M hwf]


/-! ### series-parallel matrices -/

theorem isSPgreedy_iff_SPE {t : Bool} {m n : Nat} {M : Mat} :
    isSPgreedy t m n M = true ↔ SPE t (ent M) (List.range m) (List.range n) := by
  rw [Cmr.Props.C08.isSPgreedy_iff, Cmr.Props.C08.isSP_iff_SPE]

theorem SPE.flip {t : Bool} {E : Nat → Nat → Int} {R C : List Nat} (h : SPE t E R C) : SPE t (flipE E) C R := by
  induction h with
  | nil => exact SPE.nil
  | row hr _ ih => exact SPE.col (E := flipE E) hr ih
  | col hc _ ih => exact SPE.row hc ih

theorem sgn_one (t : Bool) : Sgn t 1 := Or.inl rfl

/-- `SPE` only reads the entries on the index sets -/
theorem SPE.congr {t : Bool} {E E' : Nat → Nat → Int} {R C : List Nat} (h : SPE t E R C) (hR : R.Nodup) (hC : C.Nodup)
    (he : ∀ x ∈ R, ∀ y ∈ C, E' x y = E x y) : SPE t E' R C :=
  h.embed (f := id) (g := id) (s := fun _ => 1) (u := fun _ => 1) hR hC
    { mapR := fun _ h => h, mapC := fun _ h => h, injR := fun _ _ _ _ h => h, injC := fun _ _ _ _ h => h
      sgnR := fun _ => sgn_one t, sgnC := fun _ => sgn_one t, ent := fun x hx y hy => by simp [he x hx y hy] }

theorem isSP_transpose_imp {t : Bool} {m n : Nat} {M : Mat} (h : isSPgreedy t m n M = true) :
    isSPgreedy t n m (transpose m n M) = true := by
  rw [isSPgreedy_iff_SPE] at h ⊢
  apply h.flip.congr List.nodup_range List.nodup_range
  intro x hx y hy
  rw [ent_transpose _ (List.mem_range.mp hx) (List.mem_range.mp hy)]
  rfl

theorem isSP_transpose {t : Bool} {m n : Nat} {M : Mat} (hwf : M.wf m n = true) :
    isSPgreedy t n m (transpose m n M) = isSPgreedy t m n M := by
  rw [Bool.eq_iff_iff]
  constructor
  · intro h
    have := isSP_transpose_imp h
    rwa [transpose_transpose hwf] at this
  · exact isSP_transpose_imp

/-- series-parallelness is inherited by submatrices along duplicate-free in-range index lists -/
theorem isSP_sub {t : Bool} {m n : Nat} {M : Mat} (h : isSPgreedy t m n M = true) (rows cols : List Nat)
    (hr : ∀ x ∈ rows, x < m) (hc : ∀ x ∈ cols, x < n) (hnr : rows.Nodup) (hnc : cols.Nodup) :
    isSPgreedy t rows.length cols.length (sub M rows cols) = true := by
  rw [isSPgreedy_iff_SPE] at h ⊢
  apply h.embed (f := fun i => rows.getD i 0) (g := fun j => cols.getD j 0) (s := fun _ => 1) (u := fun _ => 1)
    List.nodup_range List.nodup_range
  have getD_mem : ∀ (l : List Nat) (i : Nat), i < l.length → l.getD i 0 ∈ l := by
    intro l i hi
    rw [List.getD_eq_getElem?_getD, List.getElem?_eq_getElem hi, Option.getD_some]
    exact List.getElem_mem hi
  have getD_inj : ∀ (l : List Nat), l.Nodup → ∀ i, i < l.length → ∀ j, j < l.length → l.getD i 0 = l.getD j 0 → i = j := by
    intro l hl i hi j hj hij
    simp only [List.getD_eq_getElem?_getD, List.getElem?_eq_getElem hi, List.getElem?_eq_getElem hj,
      Option.getD_some] at hij
    exact (List.Nodup.getElem_inj_iff hl).mp hij
  exact
    { mapR := fun x hx => List.mem_range.mpr (hr _ (getD_mem rows x (List.mem_range.mp hx)))
      mapC := fun y hy => List.mem_range.mpr (hc _ (getD_mem cols y (List.mem_range.mp hy)))
      injR := fun x hx x' hx' e => getD_inj rows hnr x (List.mem_range.mp hx) x' (List.mem_range.mp hx') e
      injC := fun y hy y' hy' e => getD_inj cols hnc y (List.mem_range.mp hy) y' (List.mem_range.mp hy') e
      sgnR := fun _ => sgn_one t, sgnC := fun _ => sgn_one t
      ent := fun x hx y hy => by
        rw [ent_sub_getD M rows cols (List.mem_range.mp hx) (List.mem_range.mp hy)]; simp }

theorem isSP_perm {t : Bool} {M : Mat} {m n : Nat} (hwf : M.wf m n = true) {rows cols : List Nat}
    (hr : isPermOf rows m = true) (hc : isPermOf cols n = true) :
    isSPgreedy t m n (sub M rows cols) = isSPgreedy t m n M := by
  obtain ⟨hl1, hlt1, hn1⟩ := (isPermOf_iff _ _).mp hr
  obtain ⟨hl2, hlt2, hn2⟩ := (isPermOf_iff _ _).mp hc
  obtain ⟨il1, ilt1, in1⟩ := (isPermOf_iff _ _).mp (isPermOf_invPerm hr)
  obtain ⟨il2, ilt2, in2⟩ := (isPermOf_iff _ _).mp (isPermOf_invPerm hc)
  rw [Bool.eq_iff_iff]
  constructor
  · intro h
    have := isSP_sub h (invPerm rows m) (invPerm cols n) ilt1 ilt2 in1 in2
    rwa [il1, il2, sub_invPerm hwf hr hc] at this
  · intro h
    have := isSP_sub h rows cols hlt1 hlt2 hn1 hn2
    rwa [hl1, hl2] at this

/-- scaling rows and columns by signs keeps ternary series-parallelness -/
theorem isSP_scale_imp {m n : Nat} {M M' : Mat} (s u : Nat → Int) (hs : ∀ r, s r = 1 ∨ s r = -1)
    (hu : ∀ c, u c = 1 ∨ u c = -1) (he : ∀ r, r < m → ∀ c, c < n → ent M' r c = s r * u c * ent M r c)
    (h : isSPgreedy true m n M = true) : isSPgreedy true m n M' = true := by
  rw [isSPgreedy_iff_SPE] at h ⊢
  apply h.embed (f := id) (g := id) (s := s) (u := u) List.nodup_range List.nodup_range
  exact
    { mapR := fun _ h => h, mapC := fun _ h => h, injR := fun _ _ _ _ h => h, injC := fun _ _ _ _ h => h
      sgnR := fun x => by rcases hs x with e | e; exact Or.inl e; exact Or.inr ⟨rfl, e⟩
      sgnC := fun x => by rcases hu x with e | e; exact Or.inl e; exact Or.inr ⟨rfl, e⟩
      ent := fun x hx y hy => he x (List.mem_range.mp hx) y (List.mem_range.mp hy) }

theorem isSP_scale {m n : Nat} {M M' : Mat} (s u : Nat → Int) (hs : ∀ r, s r = 1 ∨ s r = -1)
    (hu : ∀ c, u c = 1 ∨ u c = -1) (he : ∀ r, r < m → ∀ c, c < n → ent M' r c = s r * u c * ent M r c) :
    isSPgreedy true m n M' = isSPgreedy true m n M := by
  rw [Bool.eq_iff_iff]
  constructor
  · apply isSP_scale_imp s u hs hu
    intro r hr c hc
    rw [he r hr c hc]
    rcases hs r with e1 | e1 <;> rcases hu c with e2 | e2 <;> rw [e1, e2] <;> ring
  · exact isSP_scale_imp s u hs hu he

theorem isSP_negRow {m n : Nat} (M : Mat) (i : Nat) : isSPgreedy true m n (negRow M i) = isSPgreedy true m n M := by
  apply isSP_scale (fun r => if r = i then -1 else 1) (fun _ => 1)
  · intro r; by_cases h : r = i <;> simp [h]
  · intro _; exact Or.inl rfl
  · intro r _ c _; rw [ent_negRow]; by_cases h : r = i <;> simp [h]

theorem isSP_negCol {m n : Nat} (M : Mat) (j : Nat) : isSPgreedy true m n (negCol M j) = isSPgreedy true m n M := by
  apply isSP_scale (fun _ => 1) (fun c => if c = j then -1 else 1)
  · intro _; exact Or.inl rfl
  · intro c; by_cases h : c = j <;> simp [h]
  · intro r _ c _; rw [ent_negCol]; by_cases h : c = j <;> simp [h]


/-- inserting a removable row keeps series-parallelness -/
theorem SPE_insertRow {t : Bool} {M : Mat} {m n pos : Nat} (hwf : M.wf m n = true) (hp : pos ≤ m) (row : List Int)
    (h : SPE t (ent M) (List.range m) (List.range n))
    (hline : LineRem t (ent (insertRow M pos row)) (List.range (m + 1)) (List.range n) pos) :
    SPE t (ent (insertRow M pos row)) (List.range (m + 1)) (List.range n) := by
  have hl := length_of_wf hwf
  refine SPE.row hline ?_
  apply h.embed (f := unskip pos) (g := id) (s := fun _ => 1) (u := fun _ => 1)
    (List.nodup_range.erase pos) List.nodup_range
  have hmem : ∀ x, x ∈ (List.range (m + 1)).erase pos → x ≠ pos ∧ x < m + 1 := by
    intro x hx
    have := (List.Nodup.mem_erase_iff List.nodup_range).mp hx
    exact ⟨this.1, List.mem_range.mp this.2⟩
  exact
    { mapR := fun x hx => by
        obtain ⟨h1, h2⟩ := hmem x hx
        rw [List.mem_range]; unfold unskip; split <;> omega
      mapC := fun _ h => h
      injR := fun x hx x' hx' e => by
        obtain ⟨h1, h2⟩ := hmem x hx
        obtain ⟨h3, h4⟩ := hmem x' hx'
        unfold unskip at e
        split at e <;> split at e <;> omega
      injC := fun _ _ _ _ h => h
      sgnR := fun _ => sgn_one t, sgnC := fun _ => sgn_one t
      ent := fun x hx y hy => by
        obtain ⟨h1, h2⟩ := hmem x hx
        rw [ent_insertRow M row (by omega)]
        unfold unskip
        by_cases h3 : x < pos
        · simp [h3]
        · simp [h3, h1] }

theorem isSP_rowIns {t : Bool} {M : Mat} {m n : Nat} (hwf : M.wf m n = true) {s : Step} {pos : Nat}
    (hs : s.rowInsOk m n pos) (hsg : t = true ∨ s.unitSign = true) :
    isSPgreedy t (m + 1) n (insertRow M pos (s.newRow n M)) = isSPgreedy t m n M := by
  have hl := length_of_wf hwf
  have hp : pos ≤ m := by cases s <;> simp only [Step.rowInsOk] at hs <;> first | exact hs.2 | exact hs.2.1
  rw [Bool.eq_iff_iff]
  constructor
  · intro h
    have := isSP_sub h (skipIdx m pos) (List.range n) skipIdx_lt (by intro x hx; simpa using hx)
      (skipIdx_nodup m pos) List.nodup_range
    rwa [length_skipIdx, List.length_range, sub_skip_insertRow hwf hp] at this
  · intro h
    rw [isSPgreedy_iff_SPE] at h ⊢
    apply SPE_insertRow hwf hp _ h
    refine ⟨List.mem_range.mpr (by omega), ?_⟩
    have hrow : ∀ c, ent (insertRow M pos (s.newRow n M)) pos c = (s.newRow n M).getD c 0 := by
      intro c; rw [ent_insertRow M _ (by omega)]; simp
    cases s <;> simp only [Step.rowInsOk] at hs
    · -- ZR
      left
      intro c hc
      rw [hrow]
      simp [Step.newRow, List.getD_eq_getElem?_getD, List.getElem?_replicate, List.mem_range.mp hc]
    · -- UR
      rename_i p c0 sg
      obtain ⟨rfl, _, hc0, hsg'⟩ := hs
      right; left
      refine ⟨c0, List.mem_range.mpr hc0, ?_, ?_⟩
      · rw [hrow]; simp only [Step.newRow, getD_unitVec sg hc0, if_true]
        rcases hsg' with e | e <;> rw [e] <;> decide
      · intro c' hc' hne
        rw [hrow] at hne
        simp only [Step.newRow, getD_unitVec sg (List.mem_range.mp hc')] at hne
        by_contra hcc
        simp [hcc] at hne
    · -- DR
      rename_i p i sg
      obtain ⟨rfl, _, hi, hsg'⟩ := hs
      right; right
      refine ⟨if i < p then i else i + 1, List.mem_range.mpr (by split <;> omega), by split <;> omega, ?_⟩
      have hq : ∀ c, ent (insertRow M p (Step.newRow n M (Step.DR p i sg))) (if i < p then i else i + 1) c = ent M i c := by
        intro c
        rw [ent_insertRow M _ (by omega)]
        by_cases h1 : i < p
        · simp [h1]
        · simp [h1, show ¬ (i + 1 < p) by omega, show ¬ (i + 1 = p) by omega]
      have hpc : ∀ c, ent (insertRow M p (Step.newRow n M (Step.DR p i sg))) p c = sg * ent M i c := by
        intro c; rw [hrow]; simp only [Step.newRow]; exact getD_scaledRow M i sg c
      rcases hsg' with e | e
      · left; intro c _; rw [hpc, hq, e, one_mul]
      · right
        refine ⟨?_, fun c _ => by rw [hpc, hq, e]; ring⟩
        rcases hsg with ht | h1
        · exact ht
        · simp only [Step.unitSign, beq_iff_eq] at h1; omega

theorem isSP_colIns {t : Bool} {M : Mat} {m n : Nat} (hwf : M.wf m n = true) {s : Step} {pos : Nat}
    (hs : s.colInsOk m n pos) (hsg : t = true ∨ s.unitSign = true) :
    isSPgreedy t m (n + 1) (insertCol M pos (s.newCol M)) = isSPgreedy t m n M := by
  obtain ⟨h2, h3, _⟩ := colIns_toRowIns hwf hs
  rw [← isSP_transpose (wf_insertCol hwf), transpose_colIns hwf hs,
    isSP_rowIns (wf_transpose m n M) h2 (by rw [h3]; exact hsg), isSP_transpose hwf]

/-- the class of the series-parallel recognizer with the given `ternary` flag -/
def spCls (t : Bool) : Cls := if t then .spt else .spb


/-! ### pivots preserve total unimodularity -/

/-- scaling row `i₀` by `ε` and subtracting multiples of it from the other rows multiplies the determinant by `ε` -/
theorem det_rowPivot {ι : Type*} [Fintype ι] [DecidableEq ι] (X : Matrix ι ι ℤ) (i₀ : ι) (ε : ℤ) (w : ι → ℤ) :
    (Matrix.of fun i j => if i = i₀ then ε * X i₀ j else X i j - ε * w i * X i₀ j).det = ε * X.det := by
  let u : ι → ℤ := fun i => if i = i₀ then ε - 1 else -(ε * w i)
  have hU : (1 + replicateCol Unit u * replicateRow Unit (Pi.single i₀ (1 : ℤ))).det = ε := by
    rw [det_one_add_replicateCol_mul_replicateRow]
    simp [u]
  have hmul : (Matrix.of fun i j => if i = i₀ then ε * X i₀ j else X i j - ε * w i * X i₀ j) =
      (1 + replicateCol Unit u * replicateRow Unit (Pi.single i₀ (1 : ℤ))) * X := by
    ext i j
    rw [Matrix.add_mul, Matrix.one_mul, Matrix.mul_assoc]
    simp only [of_apply, Matrix.add_apply, Matrix.mul_apply, replicateCol_apply, replicateRow_apply, Finset.univ_unique,
      Finset.sum_singleton, Pi.single_apply, ite_mul, one_mul, zero_mul, Finset.sum_ite_eq', Finset.mem_univ, if_true]
    by_cases h : i = i₀
    · subst h; simp only [u, if_true]; ring
    · simp only [u, h, if_false]; ring
  rw [hmul, det_mul, hU]

variable {m : ℕ} {γ : Type*}

/-- the row operation of a pivot on `(r, c)`: afterwards column `c` is the unit vector `e_r` -/
def rowPivot (G : Matrix (Fin m) γ ℤ) (r : Fin m) (c : γ) (ε : ℤ) : Matrix (Fin m) γ ℤ :=
  Matrix.of fun i j => if i = r then ε * G r j else G i j - ε * G i c * G r j

theorem det_rowPivot_submatrix (G : Matrix (Fin m) γ ℤ) (r : Fin m) (c : γ) (ε : ℤ)
    {ι : Type*} [Fintype ι] [DecidableEq ι] (f : ι → Fin m) (hf : f.Injective) (g : ι → γ) (i₀ : ι) (hi₀ : f i₀ = r) :
    ((rowPivot G r c ε).submatrix f g).det = ε * (G.submatrix f g).det := by
  rw [← det_rowPivot (G.submatrix f g) i₀ ε (fun i => G (f i) c)]
  congr 1
  ext i j
  simp only [rowPivot, submatrix_apply, of_apply]
  by_cases h : i = i₀
  · subst h; simp [hi₀]
  · have : f i ≠ r := fun e => h (hf (e.trans hi₀.symm))
    simp [h, this, hi₀]

theorem rowPivot_isTotallyUnimodular [DecidableEq γ] (G : Matrix (Fin m) γ ℤ) (hG : G.IsTotallyUnimodular) (r : Fin m) (c : γ)
    (ε : ℤ) (hε : ε = 1 ∨ ε = -1) (hpiv : G r c = ε) : (rowPivot G r c ε).IsTotallyUnimodular := by
  have hεε : ε * ε = 1 := by rcases hε with e | e <;> rw [e] <;> norm_num
  have hεr : ε ∈ Set.range (SignType.cast : SignType → ℤ) := signRange_of_pm1 hε
  intro k f g hf hg
  by_cases h : ∃ i₀, f i₀ = r
  · obtain ⟨i₀, hi₀⟩ := h
    rw [det_rowPivot_submatrix G r c ε f hf g i₀ hi₀]
    exact signRange_mul hεr (hG k f g hf hg)
  · simp only [not_exists] at h
    by_cases h2 : ∃ j₀, g j₀ = c
    · obtain ⟨j₀, hj₀⟩ := h2
      rw [Matrix.det_eq_zero_of_column_eq_zero j₀]
      · exact ⟨0, by simp⟩
      · intro i
        simp only [rowPivot, submatrix_apply, of_apply, h i, if_false, hj₀, hpiv]
        rw [mul_assoc, mul_comm (G (f i) c), ← mul_assoc, hεε]; ring
    · simp only [not_exists] at h2
      -- border the submatrix with row `r` and column `c`
      let f' : Unit ⊕ Fin k → Fin m := Sum.elim (fun _ => r) f
      let g' : Unit ⊕ Fin k → γ := Sum.elim (fun _ => c) g
      have hf' : f'.Injective := by
        intro a b hab
        rcases a with a | a <;> rcases b with b | b
        · rfl
        · exact absurd hab.symm (h b)
        · exact absurd hab (h a)
        · exact congrArg Sum.inr (hf hab)
      have h1 := det_rowPivot_submatrix G r c ε f' hf' g' (Sum.inl ()) rfl
      have h3 : (rowPivot G r c ε).submatrix f' g' =
          fromBlocks (1 : Matrix Unit Unit ℤ) (Matrix.of fun _ j => rowPivot G r c ε r (g j)) 0
            ((rowPivot G r c ε).submatrix f g) := by
        ext a b
        rcases a with a | a <;> rcases b with b | b
        · simp [f', g', rowPivot, hpiv, hεε]
        · simp [f', g']
        · simp only [f', g', Sum.elim_inl, Sum.elim_inr, submatrix_apply, fromBlocks_apply₂₁, Matrix.zero_apply, rowPivot,
            of_apply, h a, if_false, hpiv]
          rw [mul_assoc, mul_comm (G (f a) c), ← mul_assoc, hεε]; ring
        · simp [f', g']
      rw [h3, det_fromBlocks_zero₂₁, det_one, one_mul] at h1
      rw [h1]
      exact signRange_mul hεr ((isTotallyUnimodular_iff_fintype G).mp hG _ f' g')

/-- **The pivot (in the library's sign convention) of a totally unimodular matrix on a `±1` entry is totally
unimodular.** -/
theorem pivot_isTotallyUnimodular {n : ℕ} (A : Matrix (Fin m) (Fin n) ℤ) (hA : A.IsTotallyUnimodular)
    (r : Fin m) (c : Fin n) (ε : ℤ) (hε : ε = 1 ∨ ε = -1) (hpiv : A r c = ε) :
    (Matrix.of fun i j => if i = r then (if j = c then -ε else ε * A r j)
      else if j = c then ε * A i c else A i j - ε * A i c * A r j).IsTotallyUnimodular := by
  have hεε : ε * ε = 1 := by rcases hε with e | e <;> rw [e] <;> norm_num
  -- `[A | e_r]`
  let G : Matrix (Fin m) (Fin n ⊕ Unit) ℤ := (fromCols A (1 : Matrix (Fin m) (Fin m) ℤ)).submatrix id (Sum.map id (fun _ => r))
  have hG : G.IsTotallyUnimodular := (hA.fromCols_one).submatrix _ _
  have hG' := rowPivot_isTotallyUnimodular G hG r (Sum.inl c) ε hε (by simp [G, hpiv])
  have hT := mul_cols_isTotallyUnimodular _ (fun j : Fin n => if j = c then (-1 : ℤ) else 1)
    (fun j => by by_cases h : j = c <;> simp [h])
    (hG'.submatrix id (fun j : Fin n => if j = c then Sum.inr () else Sum.inl j))
  convert hT using 1
  ext i j
  by_cases h1 : i = r <;> by_cases h2 : j = c
  · subst h1; subst h2; simp [rowPivot, G]
  · subst h1; simp [rowPivot, G, h2]
  · subst h2; simp [rowPivot, G, h1, Matrix.one_apply]
  · simp [rowPivot, G, h1, h2]

theorem mod3_of_ternary {x : Int} (h : x = 0 ∨ x = 1 ∨ x = -1) : mod3 x = x := by
  rcases h with rfl | rfl | rfl <;> decide

theorem pivotOk3_iff {m n : Nat} {M : Mat} {r c : Nat} :
    pivotOk3 m n M r c = true ↔ r < m ∧ c < n ∧ mod3 (ent M r c) ≠ 0 := by
  simp [pivotOk3, and_assoc]

/-- **A GF(3) pivot of a totally unimodular matrix is totally unimodular** (and equals the rational pivot). -/
theorem isTU_pivot3 {m n : Nat} {M : Mat} (hTU : isTU m n M = true) {r c : Nat} (hok : pivotOk3 m n M r c = true) :
    isTU m n (pivot3 m n M r c) = true := by
  obtain ⟨hr, hc, hp⟩ := pivotOk3_iff.mp hok
  have hε : ent M r c = 1 ∨ ent M r c = -1 := by
    rcases (isTernaryEntry_iff _).mp (isTU_entry M hTU hr hc) with e | e | e
    · rw [e] at hp; exact absurd rfl hp
    · exact Or.inl e
    · exact Or.inr e
  have hA := (isTU_iff m n M).mp hTU
  have hA' := pivot_isTotallyUnimodular (toMx m n M) hA ⟨r, hr⟩ ⟨c, hc⟩ (ent M r c) hε rfl
  rw [isTU_iff]
  convert hA' using 1
  ext i j
  have hraw : pivotRaw M r c i j = (Matrix.of fun (i : Fin m) (j : Fin n) =>
      if i = (⟨r, hr⟩ : Fin m) then (if j = (⟨c, hc⟩ : Fin n) then -(ent M r c) else ent M r c * toMx m n M ⟨r, hr⟩ j)
      else if j = (⟨c, hc⟩ : Fin n) then ent M r c * toMx m n M i ⟨c, hc⟩
      else toMx m n M i j - ent M r c * toMx m n M i ⟨c, hc⟩ * toMx m n M ⟨r, hr⟩ j) i j := by
    simp only [pivotRaw, toMx, of_apply, Fin.ext_iff, beq_iff_eq]
  have hrange := hA'.apply i j
  rw [← hraw] at hrange ⊢
  simp only [toMx, pivot3, ent_ofFn _ i.isLt j.isLt]
  apply mod3_of_ternary
  obtain ⟨s, hs⟩ := hrange
  rw [← hs]
  cases s <;> simp

/-- for a ternary matrix the verdict is the same before and after a GF(3) pivot -/
theorem isTU_pivot3_eq {m n : Nat} {M : Mat} (hwf : M.wf m n = true) (ht : isTernary M = true) {r c : Nat}
    (hok : pivotOk3 m n M r c = true) : isTU m n (pivot3 m n M r c) = isTU m n M := by
  obtain ⟨hr, hc, hp⟩ := pivotOk3_iff.mp hok
  have hp0 : ent M r c ≠ 0 := by intro e; rw [e] at hp; exact hp rfl
  rw [Bool.eq_iff_iff]
  refine ⟨fun h => ?_, fun h => isTU_pivot3 h hok⟩
  have hok' : pivotOk3 m n (pivot3 m n M r c) r c = true := by
    rw [pivotOk3_iff]
    refine ⟨hr, hc, ?_⟩
    rw [pivot3, ent_ofFn _ hr hc]
    simp only [pivotRaw, beq_self_eq_true, if_true]
    rcases ent_ternary hwf ht hr hc with e | e | e
    · exact absurd e hp0
    · rw [e]; decide
    · rw [e]; decide
  have h2 := isTU_pivot3 h hok'
  rw [Cmr.Props.C13.pivot3_twice m n M hwf ht r c hr hc hp0] at h2
  rw [← isTU_negCol m n M c, ← isTU_negRow m n (negCol M c) r, ← h2]
  apply isTU_congr
  intro i hi j hj
  rw [ent_ofFn _ hi hj, ent_negRow, ent_negCol]
  by_cases h1 : i = r <;> by_cases h2 : j = c <;> simp [h1, h2]

/-! ### ternarity is preserved by every step -/

theorem isTernary_sub {M : Mat} {m n : Nat} (hwf : M.wf m n = true) (ht : isTernary M = true) (rs cs : List Nat)
    (hr : ∀ x ∈ rs, x < m) (hc : ∀ x ∈ cs, x < n) : isTernary (sub M rs cs) = true := by
  rw [isTernary_iff_ent (wf_sub M rs cs)]
  intro i hi j hj
  rw [ent_sub M rs cs hi hj]
  exact (isTernary_iff_ent hwf).mp ht _ (hr _ (List.getElem_mem hi)) _ (hc _ (List.getElem_mem hj))

theorem isTernaryEntry_neg {x : Int} (h : isTernaryEntry x = true) : isTernaryEntry (-x) = true := by
  rw [isTernaryEntry_iff] at h ⊢; omega

theorem isTernaryEntry_pm1_mul {s x : Int} (hs : s = 1 ∨ s = -1) (h : isTernaryEntry x = true) :
    isTernaryEntry (s * x) = true := by
  rw [isTernaryEntry_iff] at h ⊢
  rcases hs with e | e <;> rw [e] <;> omega

theorem Step.apply_ternary {m n : Nat} {M : Mat} {s : Step} {m' n' : Nat} {M' : Mat}
    (h : s.apply m n M = some (m', n', M')) (hwf : M.wf m n = true) (ht : isTernary M = true) :
    isTernary M' = true := by
  have hte := (isTernary_iff_ent hwf).mp ht
  have hwf' := Step.apply_wf h hwf
  have hl := length_of_wf hwf
  cases s with
  | T =>
    simp only [Step.apply, Option.some.injEq, Prod.mk.injEq] at h
    obtain ⟨rfl, rfl, rfl⟩ := h
    rw [isTernary_transpose hwf]; exact ht
  | P rows cols =>
    obtain ⟨hr, hc, rfl, rfl, rfl⟩ := apply_P_iff.mp h
    exact isTernary_sub hwf ht rows cols ((isPermOf_iff _ _).mp hr).2.1 ((isPermOf_iff _ _).mp hc).2.1
  | S rows cols =>
    obtain ⟨hr, hc, _, _, rfl, rfl, rfl⟩ := apply_S_iff.mp h
    exact isTernary_sub hwf ht rows cols hr hc
  | V2 r c =>
    simp only [Step.apply] at h
    split at h
    · simp only [Option.some.injEq, Prod.mk.injEq] at h; obtain ⟨rfl, rfl, rfl⟩ := h
      exact isTernary_ofFn (fun i _ j _ => by rcases mod2_cases' (pivotRaw M r c i j) with e | e <;> simp [e])
    · cases h
  | V3 r c =>
    simp only [Step.apply] at h
    split at h
    · simp only [Option.some.injEq, Prod.mk.injEq] at h; obtain ⟨rfl, rfl, rfl⟩ := h
      exact isTernary_ofFn (fun i _ j _ => mod3_cases' _)
    · cases h
  | NR i =>
    obtain ⟨_, rfl, rfl, rfl⟩ := apply_NR_iff.mp h
    rw [isTernary_iff_ent hwf']
    intro a ha b hb
    rw [ent_negRow]; split
    · exact isTernaryEntry_neg (hte a ha b hb)
    · exact hte a ha b hb
  | NC j =>
    obtain ⟨_, rfl, rfl, rfl⟩ := apply_NC_iff.mp h
    rw [isTernary_iff_ent hwf']
    intro a ha b hb
    rw [ent_negCol]; split
    · exact isTernaryEntry_neg (hte a ha b hb)
    · exact hte a ha b hb
  | ZR pos =>
    obtain ⟨p, hs, rfl, rfl, rfl⟩ := apply_rowIns rfl h
    obtain ⟨rfl, hp⟩ := hs
    rw [isTernary_iff_ent hwf']
    intro a ha b hb
    rw [ent_insertRow M _ (by omega)]
    split
    · exact hte a (by omega) b hb
    · split
      · simp [Step.newRow, List.getD_eq_getElem?_getD, List.getElem?_replicate, hb, isTernaryEntry]
      · exact hte (a - 1) (by omega) b hb
  | UR pos j sg =>
    obtain ⟨p, hs, rfl, rfl, rfl⟩ := apply_rowIns rfl h
    obtain ⟨rfl, hp, hj, hsg⟩ := hs
    rw [isTernary_iff_ent hwf']
    intro a ha b hb
    rw [ent_insertRow M _ (by omega)]
    split
    · exact hte a (by omega) b hb
    · split
      · simp only [Step.newRow, getD_unitVec sg hb]
        split
        · rw [isTernaryEntry_iff]; omega
        · rfl
      · exact hte (a - 1) (by omega) b hb
  | DR pos i sg =>
    obtain ⟨p, hs, rfl, rfl, rfl⟩ := apply_rowIns rfl h
    obtain ⟨rfl, hp, hi, hsg⟩ := hs
    rw [isTernary_iff_ent hwf']
    intro a ha b hb
    rw [ent_insertRow M _ (by omega)]
    split
    · exact hte a (by omega) b hb
    · split
      · simp only [Step.newRow]; rw [getD_scaledRow]
        exact isTernaryEntry_pm1_mul hsg (hte i hi b hb)
      · exact hte (a - 1) (by omega) b hb
  | ZC pos =>
    obtain ⟨p, hs, rfl, rfl, rfl⟩ := apply_colIns rfl h
    obtain ⟨rfl, hp⟩ := hs
    rw [isTernary_iff_ent hwf']
    intro a ha b hb
    rw [ent_insertCol _ hwf hp ha]
    split
    · exact hte a ha b (by omega)
    · split
      · rfl
      · exact hte a ha (b - 1) (by omega)
  | UC pos i sg =>
    obtain ⟨p, hs, rfl, rfl, rfl⟩ := apply_colIns rfl h
    obtain ⟨rfl, hp, hi, hsg⟩ := hs
    rw [isTernary_iff_ent hwf']
    intro a ha b hb
    rw [ent_insertCol _ hwf hp ha]
    split
    · exact hte a ha b (by omega)
    · split
      · simp only [Step.newCol]
        split
        · rw [isTernaryEntry_iff]; omega
        · rfl
      · exact hte a ha (b - 1) (by omega)
  | DC pos j sg =>
    obtain ⟨p, hs, rfl, rfl, rfl⟩ := apply_colIns rfl h
    obtain ⟨rfl, hp, hj, hsg⟩ := hs
    rw [isTernary_iff_ent hwf']
    intro a ha b hb
    rw [ent_insertCol _ hwf hp ha]
    split
    · exact hte a ha b (by omega)
    · split
      · simp only [Step.newCol]
        exact isTernaryEntry_pm1_mul hsg (hte a ha j hj)
      · exact hte a ha (b - 1) (by omega)


/-- `steps_lift` with an invariant of the matrix that every step preserves (e.g. ternarity) -/
theorem steps_lift_inv {c : Cls} (hc : c.dual = c) (V : Nat → Nat → Mat → Bool) (Inv : Nat → Nat → Mat → Prop)
    (hinv : ∀ s m n M m' n' M', Step.apply m n M s = some (m', n', M') → M.wf m n = true → Inv m n M → Inv m' n' M')
    (hiff : ∀ s : Step, s.rel c = .iff → ∀ m n M m' n' M', s.apply m n M = some (m', n', M') → M.wf m n = true → Inv m n M →
      V m' n' M' = V m n M)
    (himp : ∀ s : Step, s.rel c = .imp → ∀ m n M m' n' M', s.apply m n M = some (m', n', M') → M.wf m n = true → Inv m n M →
      V m n M = true → V m' n' M' = true) :
    ∀ steps : List Step, ∀ m n M m' n' M', applySteps m n M steps = some (m', n', M') →
      M.wf m n = true → Inv m n M →
      ((stepsRel c steps).2 = .iff → V m' n' M' = V m n M) ∧
      ((stepsRel c steps).2 = .imp → V m n M = true → V m' n' M' = true) := by
  intro steps
  induction steps with
  | nil =>
    intro m n M m' n' M' h hwf _
    simp only [applySteps, Option.some.injEq, Prod.mk.injEq] at h
    obtain ⟨rfl, rfl, rfl⟩ := h
    exact ⟨fun _ => rfl, fun _ h => h⟩
  | cons s rest ih =>
    intro m n M m' n' M' h hwf hI
    simp only [applySteps] at h
    split at h
    · cases h
    · rename_i m1 n1 M1 h1
      have hwf1 := Step.apply_wf h1 hwf
      have hI1 := hinv s m n M m1 n1 M1 h1 hwf hI
      obtain ⟨ih1, ih2⟩ := ih m1 n1 M1 m' n' M' h hwf1 hI1
      rw [stepsRel_cons, stepClass_selfdual hc]
      simp only
      constructor
      · intro hr
        obtain ⟨ha, hb⟩ := Rel.seq_eq_iff.mp hr
        rw [ih1 hb, hiff s ha m n M m1 n1 M1 h1 hwf hI]
      · intro hr hV
        obtain ⟨ha, hb⟩ := Rel.seq_eq_imp hr
        have hV1 : V m1 n1 M1 = true := by
          rcases ha with ha | ha
          · rw [hiff s ha m n M m1 n1 M1 h1 hwf hI]; exact hV
          · exact himp s ha m n M m1 n1 M1 h1 hwf hI hV
        rcases hb with hb | hb
        · rw [ih1 hb]; exact hV1
        · exact ih2 hb hV1

/-! ### dual classes -/

/-- cographic = graphic of the transpose; conetwork = network of the transpose (the model has no separate oracle) -/
def isCographic (m n : Nat) (M : Mat) : Bool := isGraphic n m (transpose m n M)
def isConetwork (m n : Nat) (M : Mat) : Bool := isNetwork n m (transpose m n M)

end Cmr
