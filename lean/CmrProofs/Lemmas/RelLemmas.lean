/-
  Helper lemmas for property C10 (`Cmr/Rel.lean`): entries and shapes of the elementary transformations, the
  permutation inverse, slicing an inserted line away again, and a uniform total-unimodularity lemma for matrices whose
  lines are zero, ± lines of a TU matrix, or ± unit vectors.
-/
import CmrProofs.Lemmas.SumsLemmas
import CmrProofs.Lemmas.BalancedLemmas
import CmrProofs.Props.C02
import Cmr.Rel
import Cmr.Graph

set_option linter.unusedSimpArgs false
set_option linter.unusedVariables false

namespace Cmr
open Matrix

/-! ### entries and shapes -/

theorem length_insertAt {α : Type} (l : List α) (pos : Nat) (x : α) : (insertAt l pos x).length = l.length + 1 := by
  simp [insertAt]; omega

theorem getElem?_insertAt {α : Type} (l : List α) {pos : Nat} (x : α) (hp : pos ≤ l.length) (k : Nat) :
    (insertAt l pos x)[k]? = if k < pos then l[k]? else if k = pos then some x else l[k-1]? := by
  unfold insertAt
  rw [List.getElem?_append]
  have hl : (List.take pos l).length = pos := by simp [hp]
  rw [hl]
  by_cases h1 : k < pos
  · simp [h1, List.getElem?_take]
  · simp only [h1, if_false]
    by_cases h2 : k = pos
    · simp [h2]
    · simp only [h2, if_false]
      obtain ⟨d, hd⟩ : ∃ d, k - pos = d + 1 := ⟨k - pos - 1, by omega⟩
      rw [hd, List.getElem?_cons_succ, List.getElem?_drop]
      congr 1; omega

theorem ent_insertRow (M : Mat) {pos : Nat} (row : List Int) (hp : pos ≤ M.length) (k j : Nat) :
    ent (insertRow M pos row) k j =
      if k < pos then ent M k j else if k = pos then row.getD j 0 else ent M (k-1) j := by
  unfold ent insertRow
  simp only [List.getD_eq_getElem?_getD]
  rw [getElem?_insertAt M row hp k]
  split
  · rfl
  · split <;> rfl

theorem wf_insertRow {M : Mat} {m n pos : Nat} {row : List Int} (h : M.wf m n = true) (hr : row.length = n) :
    (insertRow M pos row).wf (m+1) n = true := by
  have hl := length_of_wf h
  simp only [Mat.wf, Bool.and_eq_true, beq_iff_eq, List.all_eq_true]
  refine ⟨by rw [insertRow, length_insertAt, hl], ?_⟩
  intro r hr'
  simp only [insertRow, insertAt, List.mem_append, List.mem_cons] at hr'
  rcases hr' with h1 | rfl | h1
  · exact row_length_of_wf h (List.mem_of_mem_take h1)
  · exact hr
  · exact row_length_of_wf h (List.mem_of_mem_drop h1)

theorem ent_insertCol {M : Mat} {m n pos : Nat} (col : Nat → Int) (h : M.wf m n = true) (hp : pos ≤ n) {i : Nat} (hi : i < m)
    (k : Nat) :
    ent (insertCol M pos col) i k =
      if k < pos then ent M i k else if k = pos then col i else ent M i (k-1) := by
  have hl := length_of_wf h
  have hi' : i < M.length := by omega
  have hrow : (M[i]).length = n := row_length_of_wf h (List.getElem_mem hi')
  unfold ent insertCol
  simp only [List.getD_eq_getElem?_getD, List.getElem?_mapIdx, List.getElem?_eq_getElem hi', Option.map_some,
    Option.getD_some]
  rw [getElem?_insertAt _ _ (by omega) k]
  split
  · rfl
  · split <;> rfl

theorem wf_insertCol {M : Mat} {m n pos : Nat} {col : Nat → Int} (h : M.wf m n = true) :
    (insertCol M pos col).wf m (n+1) = true := by
  have hl := length_of_wf h
  simp only [Mat.wf, Bool.and_eq_true, beq_iff_eq, List.all_eq_true]
  refine ⟨by simp [insertCol, hl], ?_⟩
  intro r hr'
  simp only [insertCol, List.mem_mapIdx] at hr'
  obtain ⟨i, hi, rfl⟩ := hr'
  rw [length_insertAt, row_length_of_wf h (List.getElem_mem hi)]

theorem wf_sub (M : Mat) (rs cs : List Nat) : (sub M rs cs).wf rs.length cs.length = true := by
  simp [Mat.wf, sub]

theorem wf_negRow {M : Mat} {m n : Nat} (h : M.wf m n = true) (r : Nat) : (negRow M r).wf m n = true := by
  have hl := length_of_wf h
  simp only [Mat.wf, Bool.and_eq_true, beq_iff_eq, List.all_eq_true]
  refine ⟨by simp [negRow, hl], ?_⟩
  intro row hr'
  simp only [negRow, List.mem_mapIdx] at hr'
  obtain ⟨i, hi, rfl⟩ := hr'
  have := row_length_of_wf h (List.getElem_mem hi)
  split <;> simp [this]

theorem wf_negCol {M : Mat} {m n : Nat} (h : M.wf m n = true) (c : Nat) : (negCol M c).wf m n = true := by
  have hl := length_of_wf h
  simp only [Mat.wf, Bool.and_eq_true, beq_iff_eq, List.all_eq_true]
  refine ⟨by simp [negCol, hl], ?_⟩
  intro row hr'
  simp only [negCol, List.mem_map] at hr'
  obtain ⟨r, hr, rfl⟩ := hr'
  simp [row_length_of_wf h hr]

theorem ent_transpose {m n : Nat} (M : Mat) {i j : Nat} (hi : i < n) (hj : j < m) :
    ent (transpose m n M) i j = ent M j i := by
  rw [transpose, ent_ofFn _ hi hj]

theorem wf_transpose (m n : Nat) (M : Mat) : (transpose m n M).wf n m = true := wf_ofFn n m _

theorem transpose_transpose {M : Mat} {m n : Nat} (h : M.wf m n = true) : transpose n m (transpose m n M) = M := by
  apply mat_ext (wf_transpose n m _) h
  intro i hi j hj
  rw [ent_transpose _ hi hj, ent_transpose _ hj hi]


theorem getD_row_length {M : Mat} {m n : Nat} (h : M.wf m n = true) {i : Nat} (hi : i < m) : (M.getD i []).length = n := by
  have hl := length_of_wf h
  have hi' : i < M.length := by omega
  rw [List.getD_eq_getElem?_getD, List.getElem?_eq_getElem hi', Option.getD_some]
  exact row_length_of_wf h (List.getElem_mem hi')

theorem length_unitVec (n j : Nat) (s : Int) : (unitVec n j s).length = n := by simp [unitVec]

theorem Step.apply_wf {m n : Nat} {M : Mat} {s : Step} {m' n' : Nat} {M' : Mat}
    (h : s.apply m n M = some (m', n', M')) (hwf : M.wf m n = true) : M'.wf m' n' = true := by
  cases s with
  | T => simp only [Step.apply, Option.some.injEq, Prod.mk.injEq] at h; obtain ⟨rfl, rfl, rfl⟩ := h; exact wf_transpose _ _ _
  | P rows cols =>
    simp only [Step.apply] at h
    split at h
    · rename_i hc
      simp only [Option.some.injEq, Prod.mk.injEq] at h; obtain ⟨rfl, rfl, rfl⟩ := h
      simp only [isPermOf, Bool.and_eq_true, beq_iff_eq] at hc
      have := wf_sub M rows cols
      rw [hc.1.1.1, hc.2.1.1] at this
      exact this
    · cases h
  | S rows cols =>
    simp only [Step.apply] at h
    split at h
    · simp only [Option.some.injEq, Prod.mk.injEq] at h; obtain ⟨rfl, rfl, rfl⟩ := h
      exact wf_sub M rows cols
    · cases h
  | V2 r c =>
    simp only [Step.apply] at h
    split at h
    · simp only [Option.some.injEq, Prod.mk.injEq] at h; obtain ⟨rfl, rfl, rfl⟩ := h
      exact wf_ofFn _ _ _
    · cases h
  | V3 r c =>
    simp only [Step.apply] at h
    split at h
    · simp only [Option.some.injEq, Prod.mk.injEq] at h; obtain ⟨rfl, rfl, rfl⟩ := h
      exact wf_ofFn _ _ _
    · cases h
  | NR i =>
    simp only [Step.apply] at h
    split at h
    · simp only [Option.some.injEq, Prod.mk.injEq] at h; obtain ⟨rfl, rfl, rfl⟩ := h
      exact wf_negRow hwf _
    · cases h
  | NC j =>
    simp only [Step.apply] at h
    split at h
    · simp only [Option.some.injEq, Prod.mk.injEq] at h; obtain ⟨rfl, rfl, rfl⟩ := h
      exact wf_negCol hwf _
    · cases h
  | ZR pos =>
    simp only [Step.apply] at h
    split at h
    · simp only [Option.some.injEq, Prod.mk.injEq] at h; obtain ⟨rfl, rfl, rfl⟩ := h
      exact wf_insertRow hwf (by simp)
    · cases h
  | ZC pos =>
    simp only [Step.apply] at h
    split at h
    · simp only [Option.some.injEq, Prod.mk.injEq] at h; obtain ⟨rfl, rfl, rfl⟩ := h
      exact wf_insertCol hwf
    · cases h
  | UR pos j s =>
    simp only [Step.apply] at h
    split at h
    · simp only [Option.some.injEq, Prod.mk.injEq] at h; obtain ⟨rfl, rfl, rfl⟩ := h
      exact wf_insertRow hwf (length_unitVec _ _ _)
    · cases h
  | UC pos i s =>
    simp only [Step.apply] at h
    split at h
    · simp only [Option.some.injEq, Prod.mk.injEq] at h; obtain ⟨rfl, rfl, rfl⟩ := h
      exact wf_insertCol hwf
    · cases h
  | DR pos i s =>
    simp only [Step.apply] at h
    split at h
    · rename_i hc
      simp only [Option.some.injEq, Prod.mk.injEq] at h; obtain ⟨rfl, rfl, rfl⟩ := h
      simp only [Bool.and_eq_true, decide_eq_true_eq] at hc
      exact wf_insertRow hwf (by rw [List.length_map]; exact getD_row_length hwf hc.1.2)
    · cases h
  | DC pos j s =>
    simp only [Step.apply] at h
    split at h
    · simp only [Option.some.injEq, Prod.mk.injEq] at h; obtain ⟨rfl, rfl, rfl⟩ := h
      exact wf_insertCol hwf
    · cases h

theorem applySteps_wf {steps : List Step} {m n : Nat} {M : Mat} {m' n' : Nat} {M' : Mat}
    (h : applySteps m n M steps = some (m', n', M')) (hwf : M.wf m n = true) : M'.wf m' n' = true := by
  induction steps generalizing m n M with
  | nil => simp only [applySteps, Option.some.injEq, Prod.mk.injEq] at h; obtain ⟨rfl, rfl, rfl⟩ := h; exact hwf
  | cons s rest ih =>
    simp only [applySteps] at h
    split at h
    · cases h
    · rename_i m1 n1 M1 h1
      exact ih h (Step.apply_wf h1 hwf)


/-! ### total unimodularity of derived matrices -/

/-- Every row of `A'` is `0`, `±` a row of `A`, or `±` a unit vector: then `A'` is TU when `A` is. -/
theorem tu_rows_from {m n m' : ℕ} (A : Matrix (Fin m) (Fin n) ℤ) (hA : A.IsTotallyUnimodular)
    (A' : Matrix (Fin m') (Fin n) ℤ)
    (h : ∀ k, ∃ p : Fin m ⊕ Fin n, ∃ s : SignType, ∀ j, A' k j = (s : ℤ) * (fromRows A 1) p j) :
    A'.IsTotallyUnimodular := by
  choose p s hps using h
  have h1 := (hA.fromRows_one).submatrix p id
  have h2 := mul_rows_isTotallyUnimodular _ (fun k => ((s k : SignType) : ℤ)) (fun k => ⟨s k, rfl⟩) h1
  convert h2 using 1
  ext k j
  simp only [of_apply, submatrix_apply, id]
  exact hps k j

def sgn3 (s : Int) : Prop := s = 0 ∨ s = 1 ∨ s = -1

theorem sgn3_cast {s : Int} (h : sgn3 s) : ∃ t : SignType, (t : ℤ) = s := by
  rcases h with rfl | rfl | rfl
  · exact ⟨0, by simp⟩
  · exact ⟨1, by simp⟩
  · exact ⟨-1, by simp⟩

theorem isTU_zero_cols (m : Nat) (M : Mat) : isTU m 0 M = true := by
  rw [isTU_iff]
  exact emptyCols_isTotallyUnimodular _

/-- list form of `tu_rows_from` -/
theorem isTU_of_rowsFrom {m n m' : Nat} {M M' : Mat} (hTU : isTU m n M = true)
    (h : ∀ k, k < m' →
      (∀ j, j < n → ent M' k j = 0) ∨
      (∃ i, i < m ∧ ∃ s : Int, sgn3 s ∧ ∀ j, j < n → ent M' k j = s * ent M i j) ∨
      (∃ c, c < n ∧ ∃ s : Int, sgn3 s ∧ ∀ j, j < n → ent M' k j = if j = c then s else 0)) :
    isTU m' n M' = true := by
  rcases Nat.eq_zero_or_pos n with rfl | hn
  · exact isTU_zero_cols _ _
  rw [isTU_iff] at hTU ⊢
  apply tu_rows_from _ hTU
  intro k
  rcases h k k.isLt with h0 | ⟨i, hi, s, hs, h1⟩ | ⟨c, hc, s, hs, h1⟩
  · refine ⟨Sum.inr ⟨0, hn⟩, 0, fun j => ?_⟩
    simp [toMx, h0 j j.isLt]
  · obtain ⟨t, rfl⟩ := sgn3_cast hs
    refine ⟨Sum.inl ⟨i, hi⟩, t, fun j => ?_⟩
    simp [toMx, h1 j j.isLt]
  · obtain ⟨t, rfl⟩ := sgn3_cast hs
    refine ⟨Sum.inr ⟨c, hc⟩, t, fun j => ?_⟩
    simp only [toMx, h1 j j.isLt, fromRows_apply_inr, one_apply, Fin.ext_iff]
    by_cases hjc : (j : Nat) = c
    · simp [hjc]
    · have : ¬ c = (j : Nat) := fun e => hjc e.symm
      simp [hjc, this]

/-- column form, through transposition -/
theorem isTU_of_colsFrom {m n n' : Nat} {M M' : Mat} (hTU : isTU m n M = true)
    (h : ∀ k, k < n' →
      (∀ i, i < m → ent M' i k = 0) ∨
      (∃ j, j < n ∧ ∃ s : Int, sgn3 s ∧ ∀ i, i < m → ent M' i k = s * ent M i j) ∨
      (∃ r, r < m ∧ ∃ s : Int, sgn3 s ∧ ∀ i, i < m → ent M' i k = if i = r then s else 0)) :
    isTU m n' M' = true := by
  rw [← isTU_transpose] at hTU ⊢
  apply isTU_of_rowsFrom hTU
  intro k hk
  rcases h k hk with h0 | ⟨j, hj, s, hs, h1⟩ | ⟨r, hr, s, hs, h1⟩
  · left; intro i hi; rw [ent_transpose _ hk hi]; exact h0 i hi
  · right; left
    refine ⟨j, hj, s, hs, fun i hi => ?_⟩
    rw [ent_transpose _ hk hi, ent_transpose _ hj hi]; exact h1 i hi
  · right; right
    refine ⟨r, hr, s, hs, fun i hi => ?_⟩
    rw [ent_transpose _ hk hi]; exact h1 i hi


/-! ### undoing permutations and insertions by slicing -/

theorem isPermOf_iff (l : List Nat) (n : Nat) :
    isPermOf l n = true ↔ l.length = n ∧ (∀ x ∈ l, x < n) ∧ l.Nodup := by
  simp [isPermOf, and_assoc]

theorem isPermOf_mem {l : List Nat} {n : Nat} (h : isPermOf l n = true) {i : Nat} (hi : i < n) : i ∈ l := by
  obtain ⟨hl, hlt, hnd⟩ := (isPermOf_iff l n).mp h
  have hsub : l ⊆ List.range n := fun x hx => List.mem_range.mpr (hlt x hx)
  have hp : l.Perm (List.range n) := (List.subperm_of_subset hnd hsub).perm_of_length_le (by simp [hl])
  exact hp.mem_iff.mpr (List.mem_range.mpr hi)

/-- the inverse of a permutation given as a list -/
def invPerm (l : List Nat) (n : Nat) : List Nat := (List.range n).map (fun i => l.idxOf i)

theorem length_invPerm (l : List Nat) (n : Nat) : (invPerm l n).length = n := by simp [invPerm]

theorem getElem_invPerm {l : List Nat} {n : Nat} (h : isPermOf l n = true) {i : Nat} (hi : i < n) :
    ∃ h1 : i < (invPerm l n).length, ∃ h2 : (invPerm l n)[i] < l.length, l[(invPerm l n)[i]] = i := by
  have hmem := isPermOf_mem h hi
  have hlt : l.idxOf i < l.length := List.idxOf_lt_length_of_mem hmem
  refine ⟨by rw [length_invPerm]; exact hi, ?_, ?_⟩
  · simpa [invPerm] using hlt
  · simp only [invPerm, List.getElem_map, List.getElem_range]
    exact List.getElem_idxOf hlt

theorem isPermOf_invPerm {l : List Nat} {n : Nat} (h : isPermOf l n = true) : isPermOf (invPerm l n) n = true := by
  obtain ⟨hl, hlt, hnd⟩ := (isPermOf_iff l n).mp h
  rw [isPermOf_iff]
  refine ⟨length_invPerm l n, ?_, ?_⟩
  · intro x hx
    simp only [invPerm, List.mem_map, List.mem_range] at hx
    obtain ⟨i, hi, rfl⟩ := hx
    rw [← hl]
    exact List.idxOf_lt_length_of_mem (isPermOf_mem h hi)
  · unfold invPerm
    rw [List.nodup_map_iff_inj_on List.nodup_range]
    intro a ha b hb hab
    rw [List.mem_range] at ha hb
    have h1 : l.idxOf a < l.length := List.idxOf_lt_length_of_mem (isPermOf_mem h ha)
    have h2 : l.idxOf b < l.length := List.idxOf_lt_length_of_mem (isPermOf_mem h hb)
    have e1 := List.getElem_idxOf h1
    have e2 := List.getElem_idxOf h2
    simp only [hab] at e1
    exact e1.symm.trans e2

/-- a permutation step is undone by the inverse permutation -/
theorem sub_invPerm {M : Mat} {m n : Nat} (hwf : M.wf m n = true) {rows cols : List Nat}
    (hr : isPermOf rows m = true) (hc : isPermOf cols n = true) :
    sub (sub M rows cols) (invPerm rows m) (invPerm cols n) = M := by
  have hw := wf_sub (sub M rows cols) (invPerm rows m) (invPerm cols n)
  rw [length_invPerm, length_invPerm] at hw
  apply mat_ext hw hwf
  intro i hi j hj
  obtain ⟨a1, a2, a3⟩ := getElem_invPerm hr hi
  obtain ⟨b1, b2, b3⟩ := getElem_invPerm hc hj
  rw [ent_sub _ _ _ a1 b1, ent_sub _ _ _ a2 b2, a3, b3]

theorem sub_range {M : Mat} {m n : Nat} (hwf : M.wf m n = true) : sub M (List.range m) (List.range n) = M := by
  have hw := wf_sub M (List.range m) (List.range n)
  rw [List.length_range, List.length_range] at hw
  apply mat_ext hw hwf
  intro i hi j hj
  rw [ent_sub _ _ _ (by simpa using hi) (by simpa using hj)]
  simp

/-- index list that skips position `pos` -/
def skipIdx (m pos : Nat) : List Nat := (List.range m).map (fun k => if k < pos then k else k + 1)

theorem length_skipIdx (m pos : Nat) : (skipIdx m pos).length = m := by simp [skipIdx]

theorem skipIdx_lt {m pos : Nat} : ∀ x ∈ skipIdx m pos, x < m + 1 := by
  intro x hx
  simp only [skipIdx, List.mem_map, List.mem_range] at hx
  obtain ⟨k, hk, rfl⟩ := hx
  split <;> omega

theorem skipIdx_nodup (m pos : Nat) : (skipIdx m pos).Nodup := by
  unfold skipIdx
  rw [List.nodup_map_iff_inj_on List.nodup_range]
  intro a _ b _ hab
  split at hab <;> split at hab <;> omega

theorem getElem_skipIdx {m pos k : Nat} (hk : k < m) :
    (skipIdx m pos)[k]'(by rw [length_skipIdx]; exact hk) = if k < pos then k else k + 1 := by
  simp [skipIdx]



/-! ### when a step applies, and what it returns -/

theorem apply_P_iff {m n : Nat} {M : Mat} {rows cols : List Nat} {m' n' : Nat} {M' : Mat} :
    (Step.P rows cols).apply m n M = some (m', n', M') ↔
      isPermOf rows m = true ∧ isPermOf cols n = true ∧ m' = m ∧ n' = n ∧ M' = sub M rows cols := by
  simp only [Step.apply]
  split
  · rename_i h; simp only [Bool.and_eq_true] at h
    simp only [Option.some.injEq, Prod.mk.injEq, h, true_and]
    constructor <;> rintro ⟨rfl, rfl, rfl⟩ <;> exact ⟨rfl, rfl, rfl⟩
  · rename_i h; simp only [Bool.and_eq_true] at h
    constructor
    · intro h'; cases h'
    · rintro ⟨h1, h2, -⟩; exact absurd ⟨h1, h2⟩ h

theorem apply_S_iff {m n : Nat} {M : Mat} {rows cols : List Nat} {m' n' : Nat} {M' : Mat} :
    (Step.S rows cols).apply m n M = some (m', n', M') ↔
      (∀ x ∈ rows, x < m) ∧ (∀ x ∈ cols, x < n) ∧ rows.Nodup ∧ cols.Nodup ∧
        m' = rows.length ∧ n' = cols.length ∧ M' = sub M rows cols := by
  simp only [Step.apply]
  split
  · rename_i h; simp only [Bool.and_eq_true, List.all_eq_true, decide_eq_true_eq] at h
    obtain ⟨⟨⟨h1, h2⟩, h3⟩, h4⟩ := h
    simp only [Option.some.injEq, Prod.mk.injEq]
    constructor
    · rintro ⟨rfl, rfl, rfl⟩; exact ⟨h1, h2, h3, h4, rfl, rfl, rfl⟩
    · rintro ⟨-, -, -, -, rfl, rfl, rfl⟩; exact ⟨rfl, rfl, rfl⟩
  · rename_i h; simp only [Bool.and_eq_true, List.all_eq_true, decide_eq_true_eq] at h
    constructor
    · intro h'; cases h'
    · rintro ⟨h1, h2, h3, h4, -⟩; exact absurd ⟨⟨⟨h1, h2⟩, h3⟩, h4⟩ h

theorem pm1_iff (s : Int) : (s == 1 || s == -1) = true ↔ (s = 1 ∨ s = -1) := by simp

theorem apply_NR_iff {m n : Nat} {M : Mat} {i : Nat} {m' n' : Nat} {M' : Mat} :
    (Step.NR i).apply m n M = some (m', n', M') ↔ i < m ∧ m' = m ∧ n' = n ∧ M' = negRow M i := by
  simp only [Step.apply]
  split
  · rename_i h
    simp only [Option.some.injEq, Prod.mk.injEq, h, true_and]
    constructor <;> rintro ⟨rfl, rfl, rfl⟩ <;> exact ⟨rfl, rfl, rfl⟩
  · rename_i h
    constructor
    · intro h'; cases h'
    · rintro ⟨h1, -⟩; exact absurd h1 h

theorem apply_NC_iff {m n : Nat} {M : Mat} {j : Nat} {m' n' : Nat} {M' : Mat} :
    (Step.NC j).apply m n M = some (m', n', M') ↔ j < n ∧ m' = m ∧ n' = n ∧ M' = negCol M j := by
  simp only [Step.apply]
  split
  · rename_i h
    simp only [Option.some.injEq, Prod.mk.injEq, h, true_and]
    constructor <;> rintro ⟨rfl, rfl, rfl⟩ <;> exact ⟨rfl, rfl, rfl⟩
  · rename_i h
    constructor
    · intro h'; cases h'
    · rintro ⟨h1, -⟩; exact absurd h1 h

/-- the row inserted by a row-insertion step -/
def Step.newRow (n : Nat) (M : Mat) : Step → List Int
  | .ZR _ => List.replicate n 0
  | .UR _ j s => unitVec n j s
  | .DR _ i s => (M.getD i []).map (s * ·)
  | _ => []

/-- the column inserted by a column-insertion step -/
def Step.newCol (M : Mat) : Step → Nat → Int
  | .ZC _ => fun _ => 0
  | .UC _ i s => fun k => if k == i then s else 0
  | .DC _ j s => fun k => s * ent M k j
  | _ => fun _ => 0

/-- `s` inserts a row before `pos` and is applicable to an `m × n` matrix -/
def Step.rowInsOk (m n : Nat) : Step → Nat → Prop
  | .ZR p, pos => p = pos ∧ pos ≤ m
  | .UR p j s, pos => p = pos ∧ pos ≤ m ∧ j < n ∧ (s = 1 ∨ s = -1)
  | .DR p i s, pos => p = pos ∧ pos ≤ m ∧ i < m ∧ (s = 1 ∨ s = -1)
  | _, _ => False

def Step.colInsOk (m n : Nat) : Step → Nat → Prop
  | .ZC p, pos => p = pos ∧ pos ≤ n
  | .UC p i s, pos => p = pos ∧ pos ≤ n ∧ i < m ∧ (s = 1 ∨ s = -1)
  | .DC p j s, pos => p = pos ∧ pos ≤ n ∧ j < n ∧ (s = 1 ∨ s = -1)
  | _, _ => False

def Step.isRowIns : Step → Bool
  | .ZR _ | .UR _ _ _ | .DR _ _ _ => true
  | _ => false

def Step.isColIns : Step → Bool
  | .ZC _ | .UC _ _ _ | .DC _ _ _ => true
  | _ => false

theorem apply_rowIns {m n : Nat} {M : Mat} {s : Step} (hs : s.isRowIns = true) {m' n' : Nat} {M' : Mat}
    (h : s.apply m n M = some (m', n', M')) :
    ∃ pos, s.rowInsOk m n pos ∧ m' = m + 1 ∧ n' = n ∧ M' = insertRow M pos (s.newRow n M) := by
  cases s <;> simp only [Step.isRowIns] at hs <;> try cases hs
  all_goals
    simp only [Step.apply] at h
    split at h
    · rename_i hc
      try simp only [Bool.and_eq_true, decide_eq_true_eq, pm1_iff] at hc
      simp only [Option.some.injEq, Prod.mk.injEq] at h
      obtain ⟨rfl, rfl, rfl⟩ := h
      refine ⟨_, ?_, rfl, rfl, rfl⟩
      simp only [Step.rowInsOk, true_and]
      tauto
    · cases h

theorem apply_colIns {m n : Nat} {M : Mat} {s : Step} (hs : s.isColIns = true) {m' n' : Nat} {M' : Mat}
    (h : s.apply m n M = some (m', n', M')) :
    ∃ pos, s.colInsOk m n pos ∧ m' = m ∧ n' = n + 1 ∧ M' = insertCol M pos (s.newCol M) := by
  cases s <;> simp only [Step.isColIns] at hs <;> try cases hs
  all_goals
    simp only [Step.apply] at h
    split at h
    · rename_i hc
      try simp only [Bool.and_eq_true, decide_eq_true_eq, pm1_iff] at hc
      simp only [Option.some.injEq, Prod.mk.injEq] at h
      obtain ⟨rfl, rfl, rfl⟩ := h
      refine ⟨_, ?_, rfl, rfl, rfl⟩
      simp only [Step.colInsOk, true_and]
      tauto
    · cases h

/-! ### slicing an inserted line away -/

theorem sub_skip_insertRow {M : Mat} {m n pos : Nat} (hwf : M.wf m n = true) (hp : pos ≤ m) (row : List Int) :
    sub (insertRow M pos row) (skipIdx m pos) (List.range n) = M := by
  have hw := wf_sub (insertRow M pos row) (skipIdx m pos) (List.range n)
  rw [length_skipIdx, List.length_range] at hw
  apply mat_ext hw hwf
  intro i hi j hj
  have hl := length_of_wf hwf
  rw [ent_sub _ _ _ (by rw [length_skipIdx]; exact hi) (by simpa using hj), getElem_skipIdx hi,
    ent_insertRow M row (by omega)]
  by_cases h1 : i < pos
  · simp [h1]
  · simp only [h1, if_false, show ¬ (i + 1 < pos) by omega, show ¬ (i + 1 = pos) by omega, Nat.add_sub_cancel]
    simp

theorem sub_skip_insertCol {M : Mat} {m n pos : Nat} (hwf : M.wf m n = true) (hp : pos ≤ n) (col : Nat → Int) :
    sub (insertCol M pos col) (List.range m) (skipIdx n pos) = M := by
  have hw := wf_sub (insertCol M pos col) (List.range m) (skipIdx n pos)
  rw [length_skipIdx, List.length_range] at hw
  apply mat_ext hw hwf
  intro i hi j hj
  rw [ent_sub _ _ _ (by simpa using hi) (by rw [length_skipIdx]; exact hj), getElem_skipIdx hj]
  simp only [List.getElem_range]
  rw [ent_insertCol col hwf hp hi]
  by_cases h1 : j < pos
  · simp [h1]
  · simp only [h1, if_false, show ¬ (j + 1 < pos) by omega, show ¬ (j + 1 = pos) by omega, Nat.add_sub_cancel]

/-! ### the inserted lines -/

/-- `v` (read on `0..n-1`) is zero, `±` row `i` of `M`, or a `±` unit vector -/
def RowFrom (m n : Nat) (M : Mat) (v : Nat → Int) : Prop :=
  (∀ j, j < n → v j = 0) ∨
  (∃ i, i < m ∧ ∃ s : Int, sgn3 s ∧ ∀ j, j < n → v j = s * ent M i j) ∨
  (∃ c, c < n ∧ ∃ s : Int, sgn3 s ∧ ∀ j, j < n → v j = if j = c then s else 0)

def ColFrom (m n : Nat) (M : Mat) (v : Nat → Int) : Prop :=
  (∀ i, i < m → v i = 0) ∨
  (∃ j, j < n ∧ ∃ s : Int, sgn3 s ∧ ∀ i, i < m → v i = s * ent M i j) ∨
  (∃ r, r < m ∧ ∃ s : Int, sgn3 s ∧ ∀ i, i < m → v i = if i = r then s else 0)

theorem sgn3_of_pm1 {s : Int} (h : s = 1 ∨ s = -1) : sgn3 s := Or.inr h

theorem getD_unitVec {n j : Nat} (s : Int) {k : Nat} (hk : k < n) : (unitVec n j s).getD k 0 = if k = j then s else 0 := by
  simp [unitVec, List.getD_eq_getElem?_getD, List.getElem?_map, List.getElem?_range, hk]

theorem getD_scaledRow (M : Mat) (i : Nat) (s : Int) (j : Nat) :
    ((M.getD i []).map (s * ·)).getD j 0 = s * ent M i j := by
  unfold ent
  simp only [List.getD_eq_getElem?_getD, List.getElem?_map]
  cases (M[i]?.getD [])[j]? <;> simp

theorem newRow_rowFrom {m n : Nat} {M : Mat} {s : Step} {pos : Nat} (h : s.rowInsOk m n pos) :
    RowFrom m n M (fun j => (s.newRow n M).getD j 0) := by
  cases s <;> simp only [Step.rowInsOk] at h
  · left; intro j hj; simp [Step.newRow, List.getD_eq_getElem?_getD, List.getElem?_replicate, hj]
  · rename_i p c sg
    right; right
    exact ⟨c, h.2.2.1, sg, sgn3_of_pm1 h.2.2.2, fun j hj => getD_unitVec sg hj⟩
  · rename_i p i sg
    right; left
    exact ⟨i, h.2.2.1, sg, sgn3_of_pm1 h.2.2.2, fun j _ => getD_scaledRow M i sg j⟩

theorem newCol_colFrom {m n : Nat} {M : Mat} {s : Step} {pos : Nat} (h : s.colInsOk m n pos) :
    ColFrom m n M (s.newCol M) := by
  cases s <;> simp only [Step.colInsOk] at h
  · left; intro i hi; simp [Step.newCol]
  · rename_i p r sg
    right; right
    exact ⟨r, h.2.2.1, sg, sgn3_of_pm1 h.2.2.2, fun i _ => by simp [Step.newCol]⟩
  · rename_i p j sg
    right; left
    exact ⟨j, h.2.2.1, sg, sgn3_of_pm1 h.2.2.2, fun i _ => by simp [Step.newCol]⟩

theorem length_newRow {m n : Nat} {M : Mat} (hwf : M.wf m n = true) {s : Step} {pos : Nat} (h : s.rowInsOk m n pos) :
    (s.newRow n M).length = n := by
  cases s <;> simp only [Step.rowInsOk] at h
  · simp [Step.newRow]
  · simp [Step.newRow, length_unitVec]
  · simp only [Step.newRow, List.length_map]; exact getD_row_length hwf h.2.2.1

/-! ### total unimodularity and inserted lines -/

theorem isTU_insertRow {M : Mat} {m n pos : Nat} (hwf : M.wf m n = true) (hp : pos ≤ m) (row : List Int)
    (hrow : RowFrom m n M (fun j => row.getD j 0)) :
    isTU (m + 1) n (insertRow M pos row) = isTU m n M := by
  have hl := length_of_wf hwf
  rw [Bool.eq_iff_iff]
  constructor
  · intro h
    have := isTU_sub _ h (skipIdx m pos) (List.range n) skipIdx_lt (by intro x hx; simpa using hx)
    rwa [length_skipIdx, List.length_range, sub_skip_insertRow hwf hp] at this
  · intro h
    apply isTU_of_rowsFrom h
    intro k hk
    by_cases h1 : k < pos
    · right; left
      exact ⟨k, by omega, 1, Or.inr (Or.inl rfl), fun j _ => by rw [ent_insertRow M row (by omega)]; simp [h1]⟩
    · by_cases h2 : k = pos
      · rcases hrow with h0 | ⟨i, hi, s, hs, h3⟩ | ⟨c, hc, s, hs, h3⟩
        · left; intro j hj; rw [ent_insertRow M row (by omega)]; simp only [h1, h2, if_false, if_true]
          simpa using h0 j hj
        · right; left
          refine ⟨i, hi, s, hs, fun j hj => ?_⟩
          rw [ent_insertRow M row (by omega)]; simp only [h1, h2, if_false, if_true]
          simpa using h3 j hj
        · right; right
          refine ⟨c, hc, s, hs, fun j hj => ?_⟩
          rw [ent_insertRow M row (by omega)]; simp only [h1, h2, if_false, if_true]
          simpa using h3 j hj
      · right; left
        exact ⟨k - 1, by omega, 1, Or.inr (Or.inl rfl),
          fun j _ => by rw [ent_insertRow M row (by omega)]; simp [h1, h2]⟩

theorem isTU_insertCol {M : Mat} {m n pos : Nat} (hwf : M.wf m n = true) (hp : pos ≤ n) (col : Nat → Int)
    (hcol : ColFrom m n M col) :
    isTU m (n + 1) (insertCol M pos col) = isTU m n M := by
  rw [Bool.eq_iff_iff]
  constructor
  · intro h
    have := isTU_sub _ h (List.range m) (skipIdx n pos) (by intro x hx; simpa using hx) skipIdx_lt
    rwa [length_skipIdx, List.length_range, sub_skip_insertCol hwf hp] at this
  · intro h
    apply isTU_of_colsFrom h
    intro k hk
    by_cases h1 : k < pos
    · right; left
      exact ⟨k, by omega, 1, Or.inr (Or.inl rfl), fun i hi => by rw [ent_insertCol col hwf hp hi]; simp [h1]⟩
    · by_cases h2 : k = pos
      · rcases hcol with h0 | ⟨j, hj, s, hs, h3⟩ | ⟨r, hr, s, hs, h3⟩
        · left; intro i hi; rw [ent_insertCol col hwf hp hi]; simp only [h2, Nat.lt_irrefl, if_false, if_true]
          exact h0 i hi
        · right; left
          refine ⟨j, hj, s, hs, fun i hi => ?_⟩
          rw [ent_insertCol col hwf hp hi]; simp only [h2, Nat.lt_irrefl, if_false, if_true]
          exact h3 i hi
        · right; right
          refine ⟨r, hr, s, hs, fun i hi => ?_⟩
          rw [ent_insertCol col hwf hp hi]; simp only [h2, Nat.lt_irrefl, if_false, if_true]
          exact h3 i hi
      · right; left
        exact ⟨k - 1, by omega, 1, Or.inr (Or.inl rfl),
          fun i hi => by rw [ent_insertCol col hwf hp hi]; simp [h1, h2]⟩

/-- a permutation step does not change total unimodularity -/
theorem isTU_perm {M : Mat} {m n : Nat} (hwf : M.wf m n = true) {rows cols : List Nat}
    (hr : isPermOf rows m = true) (hc : isPermOf cols n = true) : isTU m n (sub M rows cols) = isTU m n M := by
  obtain ⟨hl1, hlt1, -⟩ := (isPermOf_iff _ _).mp hr
  obtain ⟨hl2, hlt2, -⟩ := (isPermOf_iff _ _).mp hc
  obtain ⟨il1, ilt1, -⟩ := (isPermOf_iff _ _).mp (isPermOf_invPerm hr)
  obtain ⟨il2, ilt2, -⟩ := (isPermOf_iff _ _).mp (isPermOf_invPerm hc)
  rw [Bool.eq_iff_iff]
  constructor
  · intro h
    have := isTU_sub _ h (invPerm rows m) (invPerm cols n) ilt1 ilt2
    rwa [il1, il2, sub_invPerm hwf hr hc] at this
  · intro h
    have := isTU_sub _ h rows cols hlt1 hlt2
    rwa [hl1, hl2] at this



/-! ### the relation table -/

def Step.isPivot : Step → Bool
  | .V2 _ _ | .V3 _ _ => true
  | _ => false

theorem Rel.seq_eq_iff {a b : Rel} : a.seq b = .iff ↔ a = .iff ∧ b = .iff := by
  cases a <;> cases b <;> simp [Rel.seq]

theorem Rel.seq_eq_imp {a b : Rel} (h : a.seq b = .imp) : (a = .iff ∨ a = .imp) ∧ (b = .iff ∨ b = .imp) := by
  cases a <;> cases b <;> simp [Rel.seq] at h ⊢

theorem stepClass_selfdual {c : Cls} (hc : c.dual = c) (s : Step) : (match s with | .T => c.dual | _ => c) = c := by
  cases s <;> simp [hc]

theorem stepsRel_cons (c : Cls) (s : Step) (rest : List Step) :
    stepsRel c (s :: rest) =
      ((stepsRel (match s with | .T => c.dual | _ => c) rest).1,
        (s.rel c).seq (stepsRel (match s with | .T => c.dual | _ => c) rest).2) := by
  cases s <;> rfl

/-- lifting per-step relations of a self-dual class to step lists -/
theorem steps_lift {c : Cls} (hc : c.dual = c) (V : Nat → Nat → Mat → Bool) (ok : Step → Bool)
    (hiff : ∀ s, ok s = true → s.rel c = .iff → ∀ m n M m' n' M', s.apply m n M = some (m', n', M') → M.wf m n = true →
      V m' n' M' = V m n M)
    (himp : ∀ s, ok s = true → s.rel c = .imp → ∀ m n M m' n' M', s.apply m n M = some (m', n', M') → M.wf m n = true →
      V m n M = true → V m' n' M' = true) :
    ∀ steps : List Step, (∀ s ∈ steps, ok s = true) → ∀ m n M m' n' M', applySteps m n M steps = some (m', n', M') →
      M.wf m n = true →
      ((stepsRel c steps).2 = .iff → V m' n' M' = V m n M) ∧
      ((stepsRel c steps).2 = .imp → V m n M = true → V m' n' M' = true) := by
  intro steps
  induction steps with
  | nil =>
    intro _ m n M m' n' M' h hwf
    simp only [applySteps, Option.some.injEq, Prod.mk.injEq] at h
    obtain ⟨rfl, rfl, rfl⟩ := h
    exact ⟨fun _ => rfl, fun _ h => h⟩
  | cons s rest ih =>
    intro hok m n M m' n' M' h hwf
    have hs := hok s (by simp)
    have hrest : ∀ s ∈ rest, ok s = true := fun t ht => hok t (by simp [ht])
    simp only [applySteps] at h
    split at h
    · cases h
    · rename_i m1 n1 M1 h1
      have hwf1 := Step.apply_wf h1 hwf
      obtain ⟨ih1, ih2⟩ := ih hrest m1 n1 M1 m' n' M' h hwf1
      rw [stepsRel_cons, stepClass_selfdual hc]
      simp only
      constructor
      · intro hr
        obtain ⟨ha, hb⟩ := Rel.seq_eq_iff.mp hr
        rw [ih1 hb, hiff s hs ha m n M m1 n1 M1 h1 hwf]
      · intro hr hV
        obtain ⟨ha, hb⟩ := Rel.seq_eq_imp hr
        have hV1 : V m1 n1 M1 = true := by
          rcases ha with ha | ha
          · rw [hiff s hs ha m n M m1 n1 M1 h1 hwf]; exact hV
          · exact himp s hs ha m n M m1 n1 M1 h1 hwf hV
        rcases hb with hb | hb
        · rw [ih1 hb]; exact hV1
        · exact ih2 hb hV1


theorem Cls.beq_eq_decide (a b : Cls) : (a == b) = decide (a = b) := by
  cases a <;> cases b <;> rfl

theorem stepsRel_class_selfdual {c : Cls} (hc : c.dual = c) (steps : List Step) : (stepsRel c steps).1 = c := by
  induction steps with
  | nil => rfl
  | cons s rest ih => rw [stepsRel_cons, stepClass_selfdual hc]; exact ih


open Cmr.Props.C02

/-! ### regularity -/

theorem isBinary_iff_ent {M : Mat} {m n : Nat} (hwf : M.wf m n = true) :
    isBinary M = true ↔ ∀ i, i < m → ∀ j, j < n → (ent M i j = 0 ∨ ent M i j = 1) := by
  constructor
  · intro h i hi j hj
    exact ent_binary hwf h hi hj
  · intro h
    rw [← ofFn_ent hwf]
    exact isBinary_ofFn h

/-- entrywise: `S` signs `M` on the `m × n` window -/
def Signs (m n : Nat) (S M : Mat) : Prop :=
  ∀ i, i < m → ∀ j, j < n → (if ent M i j = 0 then ent S i j = 0 else (ent S i j = 1 ∨ ent S i j = -1))

/-- regularity through entries: 0/1 and some well-formed entrywise signing is TU -/
theorem isRegular_iff_signs {M : Mat} {m n : Nat} (hwf : M.wf m n = true) :
    isRegular n M = true ↔
      (∀ i, i < m → ∀ j, j < n → (ent M i j = 0 ∨ ent M i j = 1)) ∧
        ∃ S : Mat, S.wf m n = true ∧ Signs m n S M ∧ isTU m n S = true := by
  rw [isRegular_iff m n M hwf, isBinary_iff_ent hwf]
  constructor
  · rintro ⟨hb, S, hS, hTU⟩
    obtain ⟨h1, h2⟩ := (isSigningOf_iff_ent hwf).mp hS
    exact ⟨hb, S, h1, h2, hTU⟩
  · rintro ⟨hb, S, h1, h2, hTU⟩
    exact ⟨hb, S, (isSigningOf_iff_ent hwf).mpr ⟨h1, h2⟩, hTU⟩

/-- regularity is inherited by `sub` along arbitrary in-range index lists (repetitions allowed) -/
theorem isRegular_sub {M : Mat} {m n : Nat} (hwf : M.wf m n = true) (h : isRegular n M = true) (rs cs : List Nat)
    (hr : ∀ x ∈ rs, x < m) (hc : ∀ x ∈ cs, x < n) : isRegular cs.length (sub M rs cs) = true := by
  obtain ⟨hb, S, hS, hsig, hTU⟩ := (isRegular_iff_signs hwf).mp h
  rw [isRegular_iff_signs (wf_sub M rs cs)]
  refine ⟨?_, sub S rs cs, wf_sub S rs cs, ?_, isTU_sub S hTU rs cs hr hc⟩
  · intro i hi j hj
    rw [ent_sub M rs cs hi hj]
    exact hb _ (hr _ (List.getElem_mem hi)) _ (hc _ (List.getElem_mem hj))
  · intro i hi j hj
    rw [ent_sub M rs cs hi hj, ent_sub S rs cs hi hj]
    exact hsig _ (hr _ (List.getElem_mem hi)) _ (hc _ (List.getElem_mem hj))

theorem isRegular_transpose_imp {M : Mat} {m n : Nat} (hwf : M.wf m n = true) (h : isRegular n M = true) :
    isRegular m (transpose m n M) = true := by
  obtain ⟨hb, S, hS, hsig, hTU⟩ := (isRegular_iff_signs hwf).mp h
  rw [isRegular_iff_signs (wf_transpose m n M)]
  refine ⟨?_, transpose m n S, wf_transpose m n S, ?_, by rw [isTU_transpose]; exact hTU⟩
  · intro i hi j hj
    rw [ent_transpose M hi hj]; exact hb j hj i hi
  · intro i hi j hj
    rw [ent_transpose M hi hj, ent_transpose S hi hj]; exact hsig j hj i hi

theorem isRegular_transpose {M : Mat} {m n : Nat} (hwf : M.wf m n = true) :
    isRegular m (transpose m n M) = isRegular n M := by
  rw [Bool.eq_iff_iff]
  constructor
  · intro h
    have := isRegular_transpose_imp (wf_transpose m n M) h
    rwa [transpose_transpose hwf] at this
  · exact isRegular_transpose_imp hwf

theorem isRegular_perm {M : Mat} {m n : Nat} (hwf : M.wf m n = true) {rows cols : List Nat}
    (hr : isPermOf rows m = true) (hc : isPermOf cols n = true) : isRegular n (sub M rows cols) = isRegular n M := by
  obtain ⟨hl1, hlt1, -⟩ := (isPermOf_iff _ _).mp hr
  obtain ⟨hl2, hlt2, -⟩ := (isPermOf_iff _ _).mp hc
  obtain ⟨il1, ilt1, -⟩ := (isPermOf_iff _ _).mp (isPermOf_invPerm hr)
  obtain ⟨il2, ilt2, -⟩ := (isPermOf_iff _ _).mp (isPermOf_invPerm hc)
  have hw : (sub M rows cols).wf m n = true := by
    have := wf_sub M rows cols; rwa [hl1, hl2] at this
  rw [Bool.eq_iff_iff]
  constructor
  · intro h
    have := isRegular_sub hw h (invPerm rows m) (invPerm cols n) ilt1 ilt2
    rwa [il2, sub_invPerm hwf hr hc] at this
  · intro h
    have := isRegular_sub hwf h rows cols hlt1 hlt2
    rwa [hl2] at this

/-- Inserting a 0/1 row whose signing can be chosen so that the signed matrix stays TU keeps regularity. -/
theorem isRegular_insertRow {M : Mat} {m n pos : Nat} (hwf : M.wf m n = true) (hp : pos ≤ m) (row : List Int)
    (hlen : row.length = n)
    (hbin : (∀ i, i < m → ∀ j, j < n → (ent M i j = 0 ∨ ent M i j = 1)) → ∀ j, j < n → (row.getD j 0 = 0 ∨ row.getD j 0 = 1))
    (H : ∀ S : Mat, S.wf m n = true → Signs m n S M → ∃ rowS : List Int, rowS.length = n ∧
      RowFrom m n S (fun j => rowS.getD j 0) ∧
      ∀ j, j < n → (if row.getD j 0 = 0 then rowS.getD j 0 = 0 else (rowS.getD j 0 = 1 ∨ rowS.getD j 0 = -1))) :
    isRegular n (insertRow M pos row) = isRegular n M := by
  have hl := length_of_wf hwf
  have hw' : (insertRow M pos row).wf (m + 1) n = true := wf_insertRow hwf hlen
  rw [Bool.eq_iff_iff]
  constructor
  · intro h
    have := isRegular_sub hw' h (skipIdx m pos) (List.range n) skipIdx_lt (by intro x hx; simpa using hx)
    rwa [List.length_range, sub_skip_insertRow hwf hp] at this
  · intro h
    obtain ⟨hb, S, hS, hsig, hTU⟩ := (isRegular_iff_signs hwf).mp h
    obtain ⟨rowS, hlS, hfrom, hsr⟩ := H S hS hsig
    have hlS' := length_of_wf hS
    rw [isRegular_iff_signs hw']
    refine ⟨?_, insertRow S pos rowS, wf_insertRow hS hlS, ?_, by rw [isTU_insertRow hS hp rowS hfrom]; exact hTU⟩
    · intro i hi j hj
      rw [ent_insertRow M row (by omega)]
      split
      · exact hb i (by omega) j hj
      · split
        · exact hbin hb j hj
        · exact hb (i - 1) (by omega) j hj
    · intro i hi j hj
      rw [ent_insertRow M row (by omega), ent_insertRow S rowS (by omega)]
      split
      · exact hsig i (by omega) j hj
      · split
        · exact hsr j hj
        · exact hsig (i - 1) (by omega) j hj


/-- the sign of an insertion step is `+1` (always true for steps without a sign) -/
def Step.unitSign : Step → Bool
  | .UR _ _ s | .UC _ _ s | .DR _ _ s | .DC _ _ s => s == 1
  | _ => true

theorem isRegular_rowIns {M : Mat} {m n : Nat} (hwf : M.wf m n = true) {s : Step} {pos : Nat}
    (hs : s.rowInsOk m n pos) (h1 : s.unitSign = true) :
    isRegular n (insertRow M pos (s.newRow n M)) = isRegular n M := by
  cases s <;> simp only [Step.rowInsOk] at hs
  · -- ZR
    obtain ⟨rfl, hp⟩ := hs
    apply isRegular_insertRow hwf hp _ (by simp [Step.newRow])
    · intro _ j hj; left; simp [Step.newRow, List.getD_eq_getElem?_getD, List.getElem?_replicate, hj]
    · intro S hS hsig
      refine ⟨List.replicate n 0, by simp, Or.inl ?_, ?_⟩
      · intro j hj; simp [List.getD_eq_getElem?_getD, List.getElem?_replicate, hj]
      · intro j hj; simp [Step.newRow, List.getD_eq_getElem?_getD, List.getElem?_replicate, hj]
  · -- UR
    rename_i p c sg
    obtain ⟨rfl, hp, hc, _⟩ := hs
    simp only [Step.unitSign, beq_iff_eq] at h1
    subst h1
    apply isRegular_insertRow hwf hp _ (by simp [Step.newRow, length_unitVec])
    · intro _ j hj; simp only [Step.newRow, getD_unitVec 1 hj]; by_cases h : j = c <;> simp [h]
    · intro S hS hsig
      refine ⟨unitVec n c 1, length_unitVec _ _ _, Or.inr (Or.inr ⟨c, hc, 1, Or.inr (Or.inl rfl), ?_⟩), ?_⟩
      · intro j hj; exact getD_unitVec 1 hj
      · intro j hj; simp only [Step.newRow, getD_unitVec 1 hj]; by_cases h : j = c <;> simp [h]
  · -- DR
    rename_i p i sg
    obtain ⟨rfl, hp, hi, _⟩ := hs
    simp only [Step.unitSign, beq_iff_eq] at h1
    subst h1
    apply isRegular_insertRow hwf hp _ (by simp only [Step.newRow, List.length_map]; exact getD_row_length hwf hi)
    · intro hb j hj; simp only [Step.newRow]; rw [getD_scaledRow, one_mul]; exact hb i hi j hj
    · intro S hS hsig
      refine ⟨(S.getD i []).map (1 * ·), by rw [List.length_map]; exact getD_row_length hS hi,
        Or.inr (Or.inl ⟨i, hi, 1, Or.inr (Or.inl rfl), fun j _ => getD_scaledRow S i 1 j⟩), ?_⟩
      intro j hj
      have e1 := getD_scaledRow M i 1 j
      have e2 := getD_scaledRow S i 1 j
      simp only [Step.newRow]
      simp only [e1, e2]
      simp only [one_mul]
      exact hsig i hi j hj

/-! ### column insertions are row insertions of the transpose -/

theorem transpose_insertCol {M : Mat} {m n pos : Nat} (hwf : M.wf m n = true) (hp : pos ≤ n) (col : Nat → Int) :
    transpose m (n + 1) (insertCol M pos col) = insertRow (transpose m n M) pos ((List.range m).map col) := by
  apply mat_ext (wf_transpose _ _ _) (wf_insertRow (wf_transpose m n M) (by simp))
  intro i hi j hj
  have hlt : (transpose m n M).length = n := length_of_wf (wf_transpose m n M)
  rw [ent_transpose _ hi hj, ent_insertCol col hwf hp hj, ent_insertRow _ _ (by omega)]
  by_cases h1 : i < pos
  · simp only [h1, if_true]; rw [ent_transpose _ (by omega) hj]
  · by_cases h2 : i = pos
    · simp [h1, h2, List.getD_eq_getElem?_getD, List.getElem?_map, List.getElem?_range, hj]
    · simp only [h1, h2, if_false]; rw [ent_transpose _ (by omega) hj]

/-- the row-insertion step that a column-insertion step becomes under transposition -/
def Step.toRowIns : Step → Step
  | .ZC p => .ZR p
  | .UC p i s => .UR p i s
  | .DC p j s => .DR p j s
  | s => s

theorem colIns_toRowIns {M : Mat} {m n : Nat} (hwf : M.wf m n = true) {s : Step} {pos : Nat} (hs : s.colInsOk m n pos) :
    s.toRowIns.rowInsOk n m pos ∧ s.toRowIns.unitSign = s.unitSign ∧
      (List.range m).map (s.newCol M) = s.toRowIns.newRow m (transpose m n M) := by
  cases s <;> simp only [Step.colInsOk] at hs
  · exact ⟨hs, rfl, by simp [Step.newCol, Step.toRowIns, Step.newRow]⟩
  · exact ⟨hs, rfl, rfl⟩
  · rename_i p j sg
    refine ⟨hs, rfl, ?_⟩
    simp [Step.newCol, Step.toRowIns, Step.newRow, transpose, Mat.ofFn, List.getD_eq_getElem?_getD, List.getElem?_map,
      List.getElem?_range, hs.2.2.1]

theorem transpose_colIns {M : Mat} {m n : Nat} (hwf : M.wf m n = true) {s : Step} {pos : Nat} (hs : s.colInsOk m n pos) :
    transpose m (n + 1) (insertCol M pos (s.newCol M)) =
      insertRow (transpose m n M) pos (s.toRowIns.newRow m (transpose m n M)) := by
  have hp : pos ≤ n := by cases s <;> simp only [Step.colInsOk] at hs <;> first | exact hs.2 | exact hs.2.1
  rw [transpose_insertCol hwf hp, (colIns_toRowIns hwf hs).2.2]

theorem isRegular_colIns {M : Mat} {m n : Nat} (hwf : M.wf m n = true) {s : Step} {pos : Nat}
    (hs : s.colInsOk m n pos) (h1 : s.unitSign = true) :
    isRegular (n + 1) (insertCol M pos (s.newCol M)) = isRegular n M := by
  obtain ⟨h2, h3, _⟩ := colIns_toRowIns hwf hs
  rw [← isRegular_transpose (wf_insertCol hwf), transpose_colIns hwf hs,
    isRegular_rowIns (wf_transpose m n M) h2 (by rw [h3]; exact h1), isRegular_transpose hwf]


/-! ### dual classes -/

/-- cographic = graphic of the transpose; conetwork = network of the transpose (the model has no separate oracle) -/
def isCographic (m n : Nat) (M : Mat) : Bool := isGraphic n m (transpose m n M)
def isConetwork (m n : Nat) (M : Mat) : Bool := isNetwork n m (transpose m n M)

end Cmr
