/-
  Network matrices are totally unimodular — lemmas.

  Part 1 (Mathlib level, no graph model):
  * `IsIncidenceLike A` : every column of `A` has entries in `{0,1,-1}`, at most one `+1` and at most one `-1`
    (node–arc incidence matrices of digraphs, loops allowed as zero columns, truncated node sets allowed);
  * `incidence_isTotallyUnimodular` : such matrices are totally unimodular (induction on the size of a square submatrix:
    a column with at most one nonzero → Laplace expansion; otherwise all rows sum to zero);
  * `det_mul_rect` : Cauchy–Binet in unsorted form, `det (L * A) = ∑ p, (∏ i, L i (p i)) * det (A.submatrix p id)`;
  * `exists_rows_det_ne_zero` : a matrix with a left inverse has a nonsingular square row-submatrix;
  * `tu_of_factor` : if `L * BT = 1`, `BT * M = BC` and `[BT | BC]` is totally unimodular, then `M` is totally unimodular
    (a `k × k` minor of `M` is a maximal minor of `[1 | M]`, and `BT[U] * [1 | M] = [BT | BC][U]` with `det BT[U] = ±1`).

  Part 2 (model `Cmr/Graph.lean`):
  * `incMx K T` : node–arc incidence matrix of the arc list `T` on the nodes `0..K-1`; `arcMx K s t` the same for arcs
    given by tail/head functions;
  * `walk_telescope`, `incMx_mul_walkColumns`, `incMx_mul_cycleMatrix` : `B_T · M(D,T) = B_coT` (telescoping along walks);
  * `sideMx K T` : head-side indicator `L[k,v] = 1` iff `v` is connected to the head of arc `k` avoiding `k`;
    `sideMx_mul_incMx` : `L · B_T = 1` in a bridge forest;
  * `walk_columns_tu` : a matrix whose columns are signed incidence vectors of walks with distinct edges in a bridge
    forest is totally unimodular; `network_toMx_tu` : in particular `M(D,T)`.
-/
import Mathlib.Data.Matrix.ColumnRowPartitioned
import Mathlib.LinearAlgebra.Matrix.Determinant.TotallyUnimodular
import Mathlib.LinearAlgebra.Matrix.Nondegenerate
import CmrProofs.Lemmas.SumsLemmas
import CmrProofs.Lemmas.GraphComplete

set_option linter.unusedSimpArgs false
set_option linter.unusedVariables false

namespace Cmr
open Matrix

/-! ## Part 1: incidence matrices and the factor lemma (Mathlib level) -/

/-- columns with entries in `{0,1,-1}`, at most one `+1` and at most one `-1` -/
def IsIncidenceLike {V E : Type*} (A : Matrix V E ℤ) : Prop :=
  (∀ i j, A i j = 0 ∨ A i j = 1 ∨ A i j = -1) ∧
  (∀ j i i', A i j = 1 → A i' j = 1 → i = i') ∧
  (∀ j i i', A i j = -1 → A i' j = -1 → i = i')

theorem IsIncidenceLike.submatrix {V E V' E' : Type*} {A : Matrix V E ℤ} (h : IsIncidenceLike A)
    (f : V' → V) (g : E' → E) (hf : f.Injective) : IsIncidenceLike (A.submatrix f g) := by
  refine ⟨fun i j => h.1 _ _, fun j i i' h1 h2 => hf (h.2.1 _ _ _ h1 h2), fun j i i' h1 h2 => hf (h.2.2 _ _ _ h1 h2)⟩

theorem signRange_of_cases {x : ℤ} (h : x = 0 ∨ x = 1 ∨ x = -1) : x ∈ Set.range (SignType.cast : SignType → ℤ) := by
  rcases h with h | h | h
  · exact ⟨0, by simp [h]⟩
  · exact ⟨1, by simp [h]⟩
  · exact ⟨-1, by simp [h]⟩

theorem incidence_det_aux : ∀ (k : ℕ) (A : Matrix (Fin k) (Fin k) ℤ), IsIncidenceLike A →
    A.det ∈ Set.range (SignType.cast : SignType → ℤ) := by
  intro k
  induction k with
  | zero => intro A _; exact ⟨1, by simp⟩
  | succ k ih =>
    intro A hA
    by_cases hcase : ∃ j, (∀ i, A i j ≠ 1) ∨ (∀ i, A i j ≠ -1)
    · obtain ⟨j, hj⟩ := hcase
      -- column `j` has at most one nonzero entry
      have hone : ∃ i0, ∀ i, i ≠ i0 → A i j = 0 := by
        by_cases hnz : ∃ i0, A i0 j ≠ 0
        · obtain ⟨i0, hi0⟩ := hnz
          refine ⟨i0, fun i hi => ?_⟩
          rcases hA.1 i0 j with h0 | h0 | h0
          · exact absurd h0 hi0
          · rcases hA.1 i j with h | h | h
            · exact h
            · exact absurd (hA.2.1 j i i0 h h0) hi
            · rcases hj with hj | hj
              · exact absurd h0 (hj i0)
              · exact absurd h (hj i)
          · rcases hA.1 i j with h | h | h
            · exact h
            · rcases hj with hj | hj
              · exact absurd h (hj i)
              · exact absurd h0 (hj i0)
            · exact absurd (hA.2.2 j i i0 h h0) hi
        · refine ⟨0, fun i _ => ?_⟩
          by_contra h
          exact hnz ⟨i, h⟩
      obtain ⟨i0, hi0⟩ := hone
      rw [Matrix.det_succ_column A j]
      rw [Finset.sum_eq_single i0 (fun i _ hi => by rw [hi0 i hi]; simp) (fun h => absurd (Finset.mem_univ _) h)]
      have hminor := ih _ (hA.submatrix i0.succAbove j.succAbove Fin.succAbove_right_injective)
      have hsign : ((-1 : ℤ) ^ (i0 + j : ℕ)) ∈ Set.range (SignType.cast : SignType → ℤ) := by
        rcases neg_one_pow_eq_or ℤ (i0 + j : ℕ) with h | h
        · exact ⟨1, by simp [h]⟩
        · exact ⟨-1, by simp [h]⟩
      exact signRange_mul (signRange_mul hsign (signRange_of_cases (hA.1 i0 j))) hminor
    · -- every column has a `+1` and a `-1`: the rows sum to zero
      have hall : ∀ j, (∃ i, A i j = 1) ∧ (∃ i, A i j = -1) := by
        intro j
        by_contra h
        apply hcase
        refine ⟨j, ?_⟩
        by_cases h1 : ∃ i, A i j = 1
        · right
          intro i hi
          exact h ⟨h1, ⟨i, hi⟩⟩
        · left
          intro i hi
          exact h1 ⟨i, hi⟩
      have hsum : ∀ j, ∑ i, A i j = 0 := by
        intro j
        obtain ⟨⟨p, hp⟩, ⟨q, hq⟩⟩ := hall j
        have hpt : ∀ i, A i j = (if i = p then 1 else 0) - (if i = q then 1 else 0) := by
          intro i
          by_cases h1 : i = p
          · subst h1
            have : i ≠ q := by rintro rfl; rw [hp] at hq; omega
            simp [hp, this]
          · by_cases h2 : i = q
            · subst h2; simp [hq, h1]
            · rcases hA.1 i j with h | h | h
              · simp [h, h1, h2]
              · exact absurd (hA.2.1 j i p h hp) h1
              · exact absurd (hA.2.2 j i q h hq) h2
        simp_rw [hpt, Finset.sum_sub_distrib]
        simp
      by_contra hdet
      have hne : A.det ≠ 0 := by
        intro h0
        exact hdet ⟨0, by simp [h0]⟩
      have hv : (fun _ => (1 : ℤ)) ᵥ* A = 0 := by
        ext j
        simp [Matrix.vecMul, dotProduct, hsum j]
      have := Matrix.eq_zero_of_vecMul_eq_zero hne hv
      have := congrFun this 0
      simp at this

/-- **Incidence matrices of digraphs are totally unimodular**: any integer matrix whose columns have entries in
`{0,1,-1}` with at most one `+1` and at most one `-1`. -/
theorem incidence_isTotallyUnimodular {V E : Type*} (A : Matrix V E ℤ) (hA : IsIncidenceLike A) :
    A.IsTotallyUnimodular := by
  intro k f g hf _
  exact incidence_det_aux k _ (hA.submatrix f g hf)

/-- Cauchy–Binet, unsorted form: the determinant of a product through a possibly larger index type. -/
theorem det_mul_rect {m V : Type*} [Fintype m] [DecidableEq m] [Fintype V] [DecidableEq V]
    (L : Matrix m V ℤ) (A : Matrix V m ℤ) :
    (L * A).det = ∑ p : m → V, (∏ i, L i (p i)) * (A.submatrix p id).det := by
  have hrow : (L * A) = fun i => ∑ v, L i v • A v := by
    ext i j
    simp [Matrix.mul_apply, Finset.sum_apply]
  have h := (Matrix.detRowAlternating (n := m) (R := ℤ)).toMultilinearMap.map_sum_finset
    (fun i v => L i v • A v) (fun _ => Finset.univ)
  simp only [Fintype.piFinset_univ] at h
  have h2 : (L * A).det = Matrix.detRowAlternating (fun i => ∑ v, L i v • A v) := by
    rw [hrow]; rfl
  rw [h2]
  erw [h]
  apply Finset.sum_congr rfl
  intro p _
  erw [MultilinearMap.map_smul_univ]
  rfl

theorem exists_rows_det_ne_zero {m V : Type*} [Fintype m] [DecidableEq m] [Fintype V] [DecidableEq V]
    (L : Matrix m V ℤ) (A : Matrix V m ℤ) (h : L * A = 1) : ∃ p : m → V, (A.submatrix p id).det ≠ 0 := by
  by_contra hno
  have hz : ∀ p : m → V, (A.submatrix p id).det = 0 := by
    intro p
    by_contra hp
    exact hno ⟨p, hp⟩
  have := det_mul_rect L A
  rw [h, Matrix.det_one] at this
  simp [hz] at this


theorem signRange_sq {d : ℤ} (h : d ∈ Set.range (SignType.cast : SignType → ℤ)) (hne : d ≠ 0) : d * d = 1 := by
  obtain ⟨s, rfl⟩ := h
  cases s <;> simp at hne ⊢

/-- If `BT` has a left inverse, `BT * M = BC` and `[BT | BC]` is totally unimodular, then `M` is totally unimodular. -/
theorem tu_of_factor {V : Type*} [Fintype V] [DecidableEq V] {m n : ℕ} (BT : Matrix V (Fin m) ℤ)
    (BC : Matrix V (Fin n) ℤ) (M : Matrix (Fin m) (Fin n) ℤ) (L : Matrix (Fin m) V ℤ) (hL : L * BT = 1)
    (hM : BT * M = BC) (hTU : (Matrix.fromCols BT BC).IsTotallyUnimodular) : M.IsTotallyUnimodular := by
  classical
  obtain ⟨U, hU⟩ := exists_rows_det_ne_zero L BT hL
  have hBT : BT.IsTotallyUnimodular := by
    have := hTU.submatrix id (Sum.inl : Fin m → Fin m ⊕ Fin n)
    convert this using 1
    ext i j; rfl
  have hU1 : (BT.submatrix U id).det * (BT.submatrix U id).det = 1 :=
    signRange_sq ((isTotallyUnimodular_iff BT).mp hBT m U id) hU
  intro k f g hf hg
  let R' := {i : Fin m // i ∉ Set.range f}
  let e0 : Fin k ⊕ R' → Fin m := Sum.elim f Subtype.val
  have he0 : Function.Bijective e0 := by
    constructor
    · rintro (a | a) (b | b) hab
      · exact congrArg Sum.inl (hf hab)
      · exact absurd ⟨a, hab⟩ b.2
      · exact absurd ⟨b, hab.symm⟩ a.2
      · exact congrArg Sum.inr (Subtype.ext hab)
    · intro i
      by_cases hi : i ∈ Set.range f
      · obtain ⟨a, ha⟩ := hi; exact ⟨Sum.inl a, ha⟩
      · exact ⟨Sum.inr ⟨i, hi⟩, rfl⟩
  let e : Fin k ⊕ R' ≃ Fin m := Equiv.ofBijective e0 he0
  let cols : Fin k ⊕ R' → Fin m ⊕ Fin n := Sum.elim (fun a => Sum.inr (g a)) (fun r => Sum.inl r.val)
  let W : Matrix (Fin m) (Fin m ⊕ Fin n) ℤ := Matrix.fromCols 1 M
  let N : Matrix (Fin k ⊕ R') (Fin k ⊕ R') ℤ := W.submatrix e cols
  have hN : N = Matrix.fromBlocks (M.submatrix f g) 0 (M.submatrix (fun r : R' => r.val) g) 1 := by
    ext (a | a) (b | b)
    · rfl
    · show (1 : Matrix (Fin m) (Fin m) ℤ) (f a) b.val = 0
      rw [Matrix.one_apply_ne]
      intro h; exact b.2 ⟨a, h⟩
    · rfl
    · show (1 : Matrix (Fin m) (Fin m) ℤ) a.val b.val = (1 : Matrix R' R' ℤ) a b
      by_cases hab : a = b
      · subst hab; simp
      · have : a.val ≠ b.val := fun h => hab (Subtype.ext h)
        rw [Matrix.one_apply_ne hab, Matrix.one_apply_ne this]
  have hdetN : N.det = (M.submatrix f g).det := by
    rw [hN, Matrix.det_fromBlocks_zero₁₂, Matrix.det_one, mul_one]
  let P : Matrix (Fin k ⊕ R') (Fin k ⊕ R') ℤ := BT.submatrix (U ∘ e) e
  have hdetP : P.det = (BT.submatrix U id).det := by
    have : P = (BT.submatrix U id).submatrix e e := by ext i j; rfl
    rw [this, Matrix.det_submatrix_equiv_self]
  have hPN : P * N = (Matrix.fromCols BT BC).submatrix (U ∘ e) cols := by
    show BT.submatrix (U ∘ e) e * W.submatrix e cols = _
    rw [Matrix.submatrix_mul_equiv]
    show (BT * Matrix.fromCols 1 M).submatrix _ _ = _
    rw [Matrix.mul_fromCols, Matrix.mul_one, hM]
  have hdetPN : P.det * N.det ∈ Set.range (SignType.cast : SignType → ℤ) := by
    rw [← Matrix.det_mul, hPN]
    exact (isTotallyUnimodular_iff_fintype _).mp hTU _ _ _
  rw [← hdetN]
  have : N.det = P.det * (P.det * N.det) := by
    rw [← mul_assoc, hdetP, hU1, one_mul]
  rw [this, hdetP]
  exact signRange_mul ((isTotallyUnimodular_iff BT).mp hBT m U id) (hdetP ▸ hdetPN)


/-! ## Part 2: the node–arc incidence matrix of the model -/

/-- entry at node `x` of the incidence vector of an arc with tail `tl` and head `hd`: `+1` at the head, `-1` at the
tail (`0` everywhere for a loop) -/
def incFn (tl hd x : Nat) : Int := (if hd = x then 1 else 0) - (if tl = x then 1 else 0)

/-- node–arc incidence matrix on the nodes `0..K-1` (arcs with ends outside are truncated) -/
def incMx (K : Nat) (E : List Edge) : Matrix (Fin K) (Fin E.length) ℤ :=
  fun v j => incFn (E[j.val]).tail (E[j.val]).head v.val

/-- the same for arcs `s j → t j` -/
def arcMx (K : Nat) {n : Nat} (s t : Fin n → Nat) : Matrix (Fin K) (Fin n) ℤ := fun v j => incFn (s j) (t j) v.val

theorem incFn_cases (tl hd x : Nat) : incFn tl hd x = 0 ∨ incFn tl hd x = 1 ∨ incFn tl hd x = -1 := by
  unfold incFn; split <;> split <;> simp

theorem incFn_eq_one {tl hd x : Nat} (h : incFn tl hd x = 1) : hd = x := by
  unfold incFn at h
  by_contra hx
  rw [if_neg hx] at h
  split at h <;> omega

theorem incFn_eq_neg_one {tl hd x : Nat} (h : incFn tl hd x = -1) : tl = x := by
  unfold incFn at h
  by_contra hx
  rw [if_neg hx] at h
  split at h <;> omega

theorem incMx_fromCols_incidenceLike (K : Nat) (T : List Edge) {n : Nat} (s t : Fin n → Nat) :
    IsIncidenceLike (Matrix.fromCols (incMx K T) (arcMx K s t)) := by
  refine ⟨?_, ?_, ?_⟩
  · rintro i (j | j) <;> exact incFn_cases _ _ _
  · rintro (j | j) i i' h1 h2 <;>
      exact Fin.ext ((incFn_eq_one h1).symm.trans (incFn_eq_one h2))
  · rintro (j | j) i i' h1 h2 <;>
      exact Fin.ext ((incFn_eq_neg_one h1).symm.trans (incFn_eq_neg_one h2))

/-- the incidence matrix `[B_T | B_coT]` of a digraph is totally unimodular -/
theorem incMx_fromCols_tu (K : Nat) (T coT : List Edge) :
    (Matrix.fromCols (incMx K T) (incMx K coT)).IsTotallyUnimodular :=
  incidence_isTotallyUnimodular _
    (incMx_fromCols_incidenceLike K T (fun j => (coT[j.val]).tail) (fun j => (coT[j.val]).head))

theorem sum_fin_ite {K : Nat} (f : Fin K → ℤ) (x : Nat) :
    ∑ v : Fin K, f v * (if x = v.val then 1 else 0) = if h : x < K then f ⟨x, h⟩ else 0 := by
  split
  · rename_i h
    rw [Finset.sum_eq_single ⟨x, h⟩]
    · simp
    · intro b _ hb
      have : x ≠ b.val := fun hx => hb (Fin.ext hx.symm)
      simp [this]
    · intro h'; exact absurd (Finset.mem_univ _) h'
  · rename_i h
    apply Finset.sum_eq_zero
    intro b _
    have : x ≠ b.val := fun hx => h (hx ▸ b.isLt)
    simp [this]

theorem sum_fin_ite' {K : Nat} (f : Fin K → ℤ) (x : Nat) (h : x < K) (c : ℤ) :
    ∑ v : Fin K, f v * (if v.val = x then c else 0) = f ⟨x, h⟩ * c := by
  rw [Finset.sum_eq_single ⟨x, h⟩]
  · simp
  · intro b _ hb
    have : b.val ≠ x := fun hx => hb (Fin.ext hx)
    simp [this]
  · intro h'; exact absurd (Finset.mem_univ _) h'

/-! ### `B_T · M = B_coT` : telescoping along walks -/

theorem pathEntry_cons (signed : Bool) (k0 : Nat) (d : Bool) (p : List (Nat × Bool)) (k : Nat) :
    pathEntry signed ((k0, d) :: p) k =
      if k = k0 then (if signed then (if d then 1 else -1) else 1) else pathEntry signed p k := by
  unfold pathEntry
  simp only [List.lookup_cons]
  by_cases h : k = k0
  · subst h; simp
  · have : (k == k0) = false := by simpa using h
    simp [this, h]

/-- the signed incidence vector of a walk from `s` to `t` with distinct edges, multiplied by the incidence matrix of `T`,
is `e_t - e_s` -/
theorem walk_telescope {T : List Edge} {s t : Nat} {p : List (Nat × Bool)} (hw : IsWalk T s t p)
    (nd : (p.map Prod.fst).Nodup) (x : Nat) :
    ∑ k : Fin T.length, incFn (T[k.val]).tail (T[k.val]).head x * pathEntry true p k.val = incFn s t x := by
  induction hw with
  | nil => simp [pathEntry, incFn]
  | @fwd s t k0 e p hk ht hp ih =>
    simp only [List.map_cons, List.nodup_cons] at nd
    obtain ⟨hlt, hget⟩ := List.getElem?_eq_some_iff.mp hk
    have h0 : pathEntry true p k0 = 0 := pathEntry_of_none (lookup_none_iff.mpr nd.1)
    have hsplit : ∀ k : Fin T.length,
        incFn (T[k.val]).tail (T[k.val]).head x * pathEntry true ((k0, true) :: p) k.val =
        incFn (T[k.val]).tail (T[k.val]).head x * (if k.val = k0 then 1 else 0) +
          incFn (T[k.val]).tail (T[k.val]).head x * pathEntry true p k.val := by
      intro k
      rw [pathEntry_cons, ← mul_add]
      by_cases h : k.val = k0
      · simp [h, h0]
      · simp [h]
    simp_rw [hsplit]
    rw [Finset.sum_add_distrib, ih nd.2,
      sum_fin_ite' (fun k : Fin T.length => incFn (T[k.val]).tail (T[k.val]).head x) k0 hlt 1]
    simp only [hget, mul_one]
    unfold incFn
    rw [ht]
    ring
  | @bwd s t k0 e p hk hh hp ih =>
    simp only [List.map_cons, List.nodup_cons] at nd
    obtain ⟨hlt, hget⟩ := List.getElem?_eq_some_iff.mp hk
    have h0 : pathEntry true p k0 = 0 := pathEntry_of_none (lookup_none_iff.mpr nd.1)
    have hsplit : ∀ k : Fin T.length,
        incFn (T[k.val]).tail (T[k.val]).head x * pathEntry true ((k0, false) :: p) k.val =
        incFn (T[k.val]).tail (T[k.val]).head x * (if k.val = k0 then -1 else 0) +
          incFn (T[k.val]).tail (T[k.val]).head x * pathEntry true p k.val := by
      intro k
      rw [pathEntry_cons, ← mul_add]
      by_cases h : k.val = k0
      · simp [h, h0]
      · simp [h]
    simp_rw [hsplit]
    rw [Finset.sum_add_distrib, ih nd.2,
      sum_fin_ite' (fun k : Fin T.length => incFn (T[k.val]).tail (T[k.val]).head x) k0 hlt (-1)]
    simp only [hget]
    unfold incFn
    rw [hh]
    ring

/-- `B_T · M = B_arcs` for a matrix whose column `j` is the signed incidence vector of a walk from `s j` to `t j` -/
theorem incMx_mul_walkColumns (K : Nat) {T : List Edge} {n : Nat} {M : Mat} (s t : Fin n → Nat)
    (p : Fin n → List (Nat × Bool)) (hw : ∀ j, IsWalk T (s j) (t j) (p j)) (nd : ∀ j, ((p j).map Prod.fst).Nodup)
    (hent : ∀ (j : Fin n) i, i < T.length → ent M i j.val = pathEntry true (p j) i) :
    incMx K T * toMx T.length n M = arcMx K s t := by
  ext v j
  simp only [Matrix.mul_apply, incMx, toMx, arcMx]
  have : ∀ k : Fin T.length, incFn (T[k.val]).tail (T[k.val]).head v.val * ent M k.val j.val =
      incFn (T[k.val]).tail (T[k.val]).head v.val * pathEntry true (p j) k.val := by
    intro k; rw [hent j k.val k.isLt]
  simp_rw [this]
  exact walk_telescope (hw j) (nd j) v.val

/-- `B_T · M(D,T) = B_coT` on every node set `0..K-1` -/
theorem incMx_mul_cycleMatrix (K : Nat) {T coT : List Edge} {M : Mat} (hM : cycleMatrix T coT true = some M) :
    incMx K T * toMx T.length coT.length M = incMx K coT := by
  obtain ⟨_, hcols⟩ := cycleMatrix_spec hM
  have h' : ∀ j : Fin coT.length, ∃ p, IsWalk T (coT[j.val]).tail (coT[j.val]).head p ∧ (p.map Prod.fst).Nodup ∧
      ∀ i, i < T.length → ent M i j.val = pathEntry true p i := fun j => hcols j.val j.isLt
  choose p hw nd hent using h'
  exact incMx_mul_walkColumns K _ _ p hw nd hent

/-! ### a left inverse of `B_T` for a bridge forest: the head-side indicator -/

open Classical in
/-- `L[k,v] = 1` iff node `v` lies on the head side of the forest arc `k` (connected to its head avoiding `k`) -/
noncomputable def sideMx (K : Nat) (T : List Edge) : Matrix (Fin T.length) (Fin K) ℤ :=
  fun k v => if ReachOn T (fun j => j ≠ k.val) v.val (T[k.val]).head then 1 else 0

/-- `L · B_T = 1` : the columns of the incidence matrix of a forest are independent -/
theorem sideMx_mul_incMx {K : Nat} {T : List Edge} (hb : IsBridgeForest T)
    (hK : ∀ e ∈ T, e.u < K ∧ e.v < K) : sideMx K T * incMx K T = 1 := by
  classical
  have hKe : ∀ e ∈ T, e.head < K ∧ e.tail < K := by
    intro e he
    rcases e.tail_head with ⟨h1, h2⟩ | ⟨h1, h2⟩ <;> rw [h1, h2] <;> have := hK e he <;> omega
  ext k j
  simp only [Matrix.mul_apply, incMx, incFn, mul_sub, Finset.sum_sub_distrib, sum_fin_ite]
  have hj := hKe T[j.val] (List.getElem_mem _)
  rw [dif_pos hj.1, dif_pos hj.2]
  have hgk : T[k.val]? = some T[k.val] := List.getElem?_eq_getElem k.isLt
  have hgj : T[j.val]? = some T[j.val] := List.getElem?_eq_getElem j.isLt
  by_cases hkj : k = j
  · subst hkj
    have h1 : ReachOn T (fun i => i ≠ k.val) (T[k.val]).head (T[k.val]).head := ReachOn.refl _
    have h2 := bridge_tail_head hb hgk
    simp [sideMx, h1, h2]
  · have hne : j.val ≠ k.val := fun h => hkj (Fin.ext h.symm)
    have hadj : ReachOn T (fun i => i ≠ k.val) (T[j.val]).tail (T[j.val]).head :=
      ReachOn.single hne (adj_tail_head hgj)
    have hc := reachOn_congr_left (h := (T[k.val]).head) hadj
    rw [Matrix.one_apply_ne hkj]
    simp only [sideMx]
    by_cases hr : ReachOn T (fun i => i ≠ k.val) (T[j.val]).head (T[k.val]).head
    · simp [hr, hc.mpr hr]
    · have : ¬ ReachOn T (fun i => i ≠ k.val) (T[j.val]).tail (T[k.val]).head := fun h => hr (hc.mp h)
      simp [hr, this]

theorem exists_node_bound (T : List Edge) : ∃ K, ∀ e ∈ T, e.u < K ∧ e.v < K := by
  induction T with
  | nil => exact ⟨0, by simp⟩
  | cons e T ih =>
    obtain ⟨K, hK⟩ := ih
    refine ⟨max K (max e.u e.v + 1), ?_⟩
    intro e' he'
    rcases List.mem_cons.mp he' with rfl | h
    · omega
    · have := hK e' h; omega

/-- A matrix with `|T|` rows whose columns are signed incidence vectors of walks with distinct edges in the bridge forest
`T` is totally unimodular. -/
theorem walk_columns_tu {T : List Edge} (hb : IsBridgeForest T) {n : Nat} {M : Mat}
    (h : ∀ j, j < n → ∃ s t p, IsWalk T s t p ∧ (p.map Prod.fst).Nodup ∧
      ∀ i, i < T.length → ent M i j = pathEntry true p i) :
    (toMx T.length n M).IsTotallyUnimodular := by
  obtain ⟨K, hK⟩ := exists_node_bound T
  have h' : ∀ j : Fin n, ∃ s t p, IsWalk T s t p ∧ (p.map Prod.fst).Nodup ∧
      ∀ i, i < T.length → ent M i j.val = pathEntry true p i := fun j => h j.val j.isLt
  choose s t p hw nd hent using h'
  exact tu_of_factor (incMx K T) (arcMx K s t) _ (sideMx K T) (sideMx_mul_incMx hb hK)
    (incMx_mul_walkColumns K s t p hw nd hent)
    (incidence_isTotallyUnimodular _ (incMx_fromCols_incidenceLike K T s t))

/-- **Network matrices are totally unimodular** (Mathlib form): the signed fundamental-cycle matrix of a bridge forest. -/
theorem network_toMx_tu {T coT : List Edge} {M : Mat} (hb : IsBridgeForest T)
    (hM : cycleMatrix T coT true = some M) : (toMx T.length coT.length M).IsTotallyUnimodular := by
  obtain ⟨_, hcols⟩ := cycleMatrix_spec hM
  exact walk_columns_tu hb (fun j hj => ⟨_, _, hcols j hj⟩)

end Cmr
