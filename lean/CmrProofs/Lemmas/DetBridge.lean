/-
  F2 bridge to Mathlib: the list determinant is `Matrix.det`, and the brute-force oracle `isTU` decides
  Mathlib's `Matrix.IsTotallyUnimodular`.
-/
import Mathlib.LinearAlgebra.Matrix.Determinant.TotallyUnimodular
import Mathlib.LinearAlgebra.Matrix.Determinant.Basic
import Mathlib.Order.Fin.Tuple
import Mathlib.Data.Fin.Tuple.Sort
import Mathlib.Data.List.Sort
import Cmr.Det
import CmrProofs.Lemmas.MatBasic

set_option linter.unusedSimpArgs false
set_option linter.unusedVariables false

namespace Cmr
open Matrix

/-- the `m × n` Mathlib matrix of a list matrix -/
def toMx (m n : Nat) (M : Mat) : Matrix (Fin m) (Fin n) ℤ := fun i j => ent M i j

theorem getD_eraseIdx (l : List Int) (j k : Nat) :
    (l.eraseIdx j).getD k 0 = l.getD (if k < j then k else k+1) 0 := by
  simp only [List.getD_eq_getElem?_getD]
  rw [List.getElem?_eraseIdx]
  split <;> simp_all

theorem ent_minor (M : Mat) (j i k : Nat) :
    ent ((M.drop 1).map (fun row => row.eraseIdx j)) i k = ent M (i+1) (if k < j then k else k+1) := by
  unfold ent
  simp only [List.getD_eq_getElem?_getD, List.getElem?_map, List.getElem?_drop]
  rw [Nat.add_comm 1 i]
  cases h : M[i+1]? with
  | none => simp
  | some row =>
    simp only [Option.map_some, Option.getD_some]
    have := getD_eraseIdx row j k
    simpa [List.getD_eq_getElem?_getD] using this

theorem foldl_sum (f : Nat → Int) (n : Nat) :
    (List.range n).foldl (fun acc j => acc + f j) 0 = ∑ j : Fin n, f j := by
  rw [Fin.sum_univ_eq_sum_range (fun j => f j) n]
  induction n with
  | zero => simp
  | succ n ih =>
    rw [List.range_succ, List.foldl_append, ih, Finset.sum_range_succ]
    simp

/-- The Laplace determinant on lists is Mathlib's determinant. -/
theorem detL_eq_det (n : Nat) (M : Mat) : detL n M = (toMx n n M).det := by
  induction n generalizing M with
  | zero => simp [detL]
  | succ n ih =>
    rw [Matrix.det_succ_row_zero]
    unfold detL
    rw [foldl_sum (fun j => (if j % 2 == 0 then 1 else -1) * ent M 0 j *
          detL n ((M.drop 1).map (fun row => row.eraseIdx j)))]
    apply Finset.sum_congr rfl
    intro j _
    rw [ih]
    congr 1
    · congr 1
      rcases Nat.mod_two_eq_zero_or_one j.val with h | h
      · have : Even j.val := Nat.even_iff.mpr h
        simp [h, this.neg_one_pow]
      · have : Odd j.val := Nat.odd_iff.mpr h
        simp [h, this.neg_one_pow]
    · congr 1
      ext i k
      simp only [toMx, Matrix.submatrix_apply, ent_minor, Fin.val_succ]
      congr 1
      simp only [Fin.succAbove]
      split <;> rename_i h
      · have : (k.castSucc < j) := by simpa [Fin.lt_def] using h
        simp [this]
      · have : ¬ (k.castSucc < j) := by simpa [Fin.lt_def] using h
        simp [this]

/-- Mathlib's TU quantifies over all injective index maps; strictly monotone ones suffice. -/
theorem tu_iff_strictMono {m n : ℕ} (A : Matrix (Fin m) (Fin n) ℤ) :
    A.IsTotallyUnimodular ↔
      ∀ k (f : Fin k → Fin m) (g : Fin k → Fin n), StrictMono f → StrictMono g →
        (A.submatrix f g).det ∈ Set.range SignType.cast := by
  constructor
  · intro h k f g hf hg
    exact h k f g hf.injective hg.injective
  · intro h k f g hf hg
    let σ := Tuple.sort f
    let τ := Tuple.sort g
    have hfm : StrictMono (f ∘ σ) :=
      (Tuple.monotone_sort f).strictMono_of_injective (hf.comp σ.injective)
    have hgm : StrictMono (g ∘ τ) :=
      (Tuple.monotone_sort g).strictMono_of_injective (hg.comp τ.injective)
    have key := h k (f ∘ σ) (g ∘ τ) hfm hgm
    have e : A.submatrix f g = ((A.submatrix (f ∘ σ) (g ∘ τ)).submatrix σ.symm τ.symm) := by
      ext i j; simp [Matrix.submatrix_apply]
    rw [e]
    have := Matrix.det_permute σ.symm ((A.submatrix (f ∘ σ) (g ∘ τ)).submatrix id τ.symm)
    have h2 := Matrix.det_permute' τ.symm (A.submatrix (f ∘ σ) (g ∘ τ))
    have e2 : ((A.submatrix (f ∘ σ) (g ∘ τ)).submatrix σ.symm τ.symm)
        = (((A.submatrix (f ∘ σ) (g ∘ τ)).submatrix id τ.symm).submatrix σ.symm id) := by
      ext i j; simp
    rw [e2, this, h2]
    have closed : ∀ (u : ℤˣ) (x : ℤ), x ∈ Set.range (SignType.cast : SignType → ℤ) →
        (u : ℤ) * x ∈ Set.range (SignType.cast : SignType → ℤ) := by
      intro u x ⟨s, hs⟩
      rcases Int.units_eq_one_or u with h1 | h1
      · rw [h1]; exact ⟨s, by simp [hs]⟩
      · rw [h1]; exact ⟨-s, by simp [← hs]⟩
    exact closed _ _ (closed _ _ key)

theorem detOk_iff (d : Int) : detOk d = true ↔ d ∈ Set.range (SignType.cast : SignType → ℤ) := by
  constructor
  · intro h
    simp [detOk] at h
    rcases h with (h | h) | h
    · exact ⟨0, by simp [h]⟩
    · exact ⟨1, by simp [h]⟩
    · exact ⟨-1, by simp [h]⟩
  · rintro ⟨s, rfl⟩
    cases s <;> simp [detOk]

theorem mem_choose {α : Type} (k : Nat) (xs l : List α) :
    l ∈ choose k xs ↔ l.Sublist xs ∧ l.length = k := by
  induction xs generalizing k l with
  | nil =>
    cases k with
    | zero => simp [choose]
    | succ k =>
      simp only [choose, List.not_mem_nil, List.sublist_nil, false_iff, not_and]
      intro h; subst h; simp
  | cons x xs ih =>
    cases k with
    | zero =>
      simp only [choose, List.mem_singleton]
      constructor
      · intro h; subst h; simp
      · intro ⟨_, h⟩; exact List.eq_nil_of_length_eq_zero h
    | succ k =>
      simp only [choose, List.mem_append, List.mem_map, ih]
      constructor
      · rintro (⟨l', ⟨hs, hl⟩, rfl⟩ | ⟨hs, hl⟩)
        · exact ⟨hs.cons_cons x, by simp [hl]⟩
        · exact ⟨hs.cons x, hl⟩
      · rintro ⟨hs, hl⟩
        cases hs with
        | cons _ hs' => exact Or.inr ⟨hs', hl⟩
        | cons_cons _ hs' =>
          rename_i l'
          exact Or.inl ⟨l', ⟨hs', by simpa using hl⟩, rfl⟩

theorem ent_sub (M : Mat) (rs cs : List Nat) {i j : Nat} (hi : i < rs.length) (hj : j < cs.length) :
    ent (sub M rs cs) i j = ent M rs[i] cs[j] := by
  simp [ent, sub, List.getD_eq_getElem?_getD, List.getElem?_map, List.getElem?_eq_getElem hi,
    List.getElem?_eq_getElem hj]

/-- index list of a strictly monotone map -/
def idxOf {k m : Nat} (f : Fin k → Fin m) : List Nat := List.ofFn (fun i => (f i).val)

theorem idxOf_mem_choose {k m : Nat} (f : Fin k → Fin m) (hf : StrictMono f) :
    idxOf f ∈ choose k (List.range m) := by
  rw [mem_choose]
  refine ⟨?_, by simp [idxOf]⟩
  have hpw : (idxOf f).Pairwise (· < ·) := by
    unfold idxOf
    rw [List.pairwise_ofFn]
    intro i j hij
    exact hf hij
  apply List.sublist_of_subperm_of_pairwise (r := (· < ·)) _ hpw List.pairwise_lt_range
  apply List.subperm_of_subset hpw.nodup
  intro x hx
  simp only [idxOf, List.mem_ofFn] at hx
  obtain ⟨i, rfl⟩ := hx
  exact List.mem_range.mpr (f i).isLt

theorem toMx_sub_idxOf {m n k : Nat} (M : Mat) (f : Fin k → Fin m) (g : Fin k → Fin n) :
    toMx k k (sub M (idxOf f) (idxOf g)) = (toMx m n M).submatrix f g := by
  ext i j
  simp only [toMx, Matrix.submatrix_apply]
  rw [ent_sub M (idxOf f) (idxOf g) (by simp [idxOf]) (by simp [idxOf])]
  simp [idxOf]

/-- a sublist of `range m` of length `k` as a strictly monotone map -/
theorem exists_strictMono_of_sublist {k m : Nat} (l : List Nat) (hs : l.Sublist (List.range m)) (hl : l.length = k) :
    ∃ f : Fin k → Fin m, StrictMono f ∧ idxOf f = l := by
  have hpw : l.Pairwise (· < ·) := List.Pairwise.sublist hs List.pairwise_lt_range
  have hlt : ∀ x ∈ l, x < m := fun x hx => List.mem_range.mp (hs.subset hx)
  subst hl
  refine ⟨fun i => ⟨l[i.val], hlt _ (List.getElem_mem i.isLt)⟩, ?_, ?_⟩
  · intro i j hij
    simp only [Fin.lt_def]
    exact List.pairwise_iff_getElem.mp hpw i.val j.val i.isLt j.isLt hij
  · apply List.ext_getElem
    · simp [idxOf]
    · intro i h1 h2
      simp [idxOf]

theorem isTUk_iff (m n : Nat) (M : Mat) (k : Nat) :
    isTUk m n M k = true ↔
      ∀ (f : Fin k → Fin m) (g : Fin k → Fin n), StrictMono f → StrictMono g →
        ((toMx m n M).submatrix f g).det ∈ Set.range SignType.cast := by
  unfold isTUk
  simp only [List.all_eq_true]
  constructor
  · intro h f g hf hg
    have := h _ (idxOf_mem_choose f hf) _ (idxOf_mem_choose g hg)
    rw [detL_eq_det, toMx_sub_idxOf] at this
    exact (detOk_iff _).mp this
  · intro h rs hrs cs hcs
    rw [mem_choose] at hrs hcs
    obtain ⟨f, hf, rfl⟩ := exists_strictMono_of_sublist rs hrs.1 hrs.2
    obtain ⟨g, hg, rfl⟩ := exists_strictMono_of_sublist cs hcs.1 hcs.2
    rw [detL_eq_det, toMx_sub_idxOf]
    exact (detOk_iff _).mpr (h f g hf hg)

/-- **The TU oracle decides Mathlib's total unimodularity**, for every shape (including 0 rows / 0 columns). -/
theorem isTU_iff (m n : Nat) (M : Mat) :
    isTU m n M = true ↔ (toMx m n M).IsTotallyUnimodular := by
  rw [tu_iff_strictMono]
  unfold isTU
  simp only [List.all_eq_true, List.mem_range]
  constructor
  · intro h k f g hf hg
    have hkm : k ≤ m := by
      have := Fintype.card_le_of_injective f hf.injective
      simpa using this
    have hkn : k ≤ n := by
      have := Fintype.card_le_of_injective g hg.injective
      simpa using this
    exact (isTUk_iff m n M k).mp (h k (by omega)) f g hf hg
  · intro h k _
    exact (isTUk_iff m n M k).mpr (h k)

end Cmr
