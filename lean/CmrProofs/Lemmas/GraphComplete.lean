/-
  Lemmas for the completeness of the brute-force oracles `graphicSearch` / `networkSearch` of `Cmr/Graph.lean`
  (core Lean only).

  * `ReachOn T P x y` : `y` can be reached from `x` using only edges of `T` whose index satisfies `P`;
  * `forestLabels_isSome_iff` : provided all ends are listed as nodes, the union-find test accepts iff no edge joins two
    nodes already connected by earlier edges (`IsIncrForest`);
  * `bridges_of_incremental` : then every edge is a bridge (`IsBridgeForest`); the converse is `IsBridgeForest.incr`;
  * `walk_mem_iff_side`, `walk_unique`, `closed_walk_nil` : in a bridge forest the signed edge set of a walk with distinct
    edges is determined by its two ends, and closed such walks are empty;
  * `treePath_complete`, `treePath_of_walk` : the tree-path search finds a walk whenever one with distinct edges exists;
  * `walk_degrees`, `odd_ends_of_walk` : such a walk is a simple path (end degrees 1, inner degrees 2);
  * `supportIsPath_of_walk` : the per-column test of `graphicSearch` accepts the edge set of any such walk;
  * `signedColumnOk_of_walk` : the signed per-column test of `networkSearch` accepts its signed incidence vector;
  * `exists_rooting` : the edges of a forest can be assigned injectively to one of their ends (a rooting `c`);
  * `parentOf T c`, `nodeIdx` : parent function / renaming of the nodes to `0..m` (child end of edge `i` ↦ `i+1`, all roots
    and all other nodes ↦ `0`); `parentEdges_bridgeForest`, `walk_parentEdges` : the result is a bridge forest carrying
    the images of all walks; `orientOf`, `reorient_bridgeForest`, `walk_reorient` : the same keeping arc directions.
-/
import CmrProofs.Lemmas.GraphLemmas
set_option linter.unusedSimpArgs false
set_option linter.unusedVariables false
namespace Cmr

/-! ### reachability along a set of edge indices -/

/-- the edge at index `k` of `T` joins `x` and `y` (in either direction) -/
def Adj (T : List Edge) (k x y : Nat) : Prop :=
  ∃ e, T[k]? = some e ∧ ((e.u = x ∧ e.v = y) ∨ (e.v = x ∧ e.u = y))

theorem Adj.symm {T : List Edge} {k x y : Nat} (h : Adj T k x y) : Adj T k y x := by
  obtain ⟨e, he, h⟩ := h
  exact ⟨e, he, h.symm.imp (fun h => ⟨h.2, h.1⟩) (fun h => ⟨h.2, h.1⟩)⟩

theorem Adj.lt {T : List Edge} {k x y : Nat} (h : Adj T k x y) : k < T.length := by
  obtain ⟨e, he, _⟩ := h
  exact (List.getElem?_eq_some_iff.mp he).1

theorem Edge.tail_head (e : Edge) : (e.tail = e.u ∧ e.head = e.v) ∨ (e.tail = e.v ∧ e.head = e.u) := by
  unfold Edge.tail Edge.head
  cases e.rev <;> simp

theorem adj_tail_head {T : List Edge} {k : Nat} {e : Edge} (h : T[k]? = some e) : Adj T k e.tail e.head := by
  rcases e.tail_head with ⟨h1, h2⟩ | ⟨h1, h2⟩
  · exact ⟨e, h, Or.inl ⟨h1.symm, h2.symm⟩⟩
  · exact ⟨e, h, Or.inr ⟨h1.symm, h2.symm⟩⟩

theorem adj_u_v {T : List Edge} {k : Nat} {e : Edge} (h : T[k]? = some e) : Adj T k e.u e.v :=
  ⟨e, h, Or.inl ⟨rfl, rfl⟩⟩

/-- `y` is reachable from `x` along edges of `T` whose index satisfies `P` -/
inductive ReachOn (T : List Edge) (P : Nat → Prop) : Nat → Nat → Prop
  | refl (x : Nat) : ReachOn T P x x
  | step {k x y z : Nat} : P k → Adj T k x y → ReachOn T P y z → ReachOn T P x z

theorem ReachOn.single {T : List Edge} {P : Nat → Prop} {k x y : Nat} (hp : P k) (h : Adj T k x y) :
    ReachOn T P x y := ReachOn.step hp h (ReachOn.refl y)

theorem ReachOn.trans {T : List Edge} {P : Nat → Prop} {x y z : Nat} (h1 : ReachOn T P x y) (h2 : ReachOn T P y z) :
    ReachOn T P x z := by
  induction h1 with
  | refl => exact h2
  | step hp ha _ ih => exact ReachOn.step hp ha (ih h2)

theorem ReachOn.symm {T : List Edge} {P : Nat → Prop} {x y : Nat} (h : ReachOn T P x y) : ReachOn T P y x := by
  induction h with
  | refl => exact ReachOn.refl _
  | step hp ha _ ih => exact ih.trans (ReachOn.single hp ha.symm)

theorem ReachOn.mono {T : List Edge} {P Q : Nat → Prop} {x y : Nat} (hPQ : ∀ k, k < T.length → P k → Q k)
    (h : ReachOn T P x y) : ReachOn T Q x y := by
  induction h with
  | refl => exact ReachOn.refl _
  | step hp ha _ ih => exact ReachOn.step (hPQ _ ha.lt hp) ha ih

/-- Allowing one more edge `n` joining `a` and `b`: a connection either existed before or passes from one end of the
new edge to the other. -/
theorem reachOn_insert {T : List Edge} {P : Nat → Prop} {n a b x y : Nat}
    (hadj : ∀ x y, Adj T n x y → (x = a ∧ y = b) ∨ (x = b ∧ y = a))
    (h : ReachOn T (fun k => P k ∨ k = n) x y) :
    ReachOn T P x y ∨ (ReachOn T P x a ∧ ReachOn T P b y) ∨ (ReachOn T P x b ∧ ReachOn T P a y) := by
  induction h with
  | refl => exact Or.inl (ReachOn.refl _)
  | @step k x y z hp ha _ ih =>
    rcases hp with hp | rfl
    · rcases ih with ih | ⟨i1, i2⟩ | ⟨i1, i2⟩
      · exact Or.inl (ReachOn.step hp ha ih)
      · exact Or.inr (Or.inl ⟨ReachOn.step hp ha i1, i2⟩)
      · exact Or.inr (Or.inr ⟨ReachOn.step hp ha i1, i2⟩)
    · rcases hadj _ _ ha with ⟨rfl, rfl⟩ | ⟨rfl, rfl⟩
      · rcases ih with ih | ⟨i1, i2⟩ | ⟨i1, i2⟩
        · exact Or.inr (Or.inl ⟨ReachOn.refl _, ih⟩)
        · exact Or.inr (Or.inl ⟨ReachOn.refl _, i2⟩)
        · exact Or.inl i2
      · rcases ih with ih | ⟨i1, i2⟩ | ⟨i1, i2⟩
        · exact Or.inr (Or.inr ⟨ReachOn.refl _, ih⟩)
        · exact Or.inl i2
        · exact Or.inr (Or.inr ⟨ReachOn.refl _, i2⟩)

theorem adj_ends {T : List Edge} {n : Nat} {e : Edge} (he : T[n]? = some e) (x y : Nat) (h : Adj T n x y) :
    (x = e.u ∧ y = e.v) ∨ (x = e.v ∧ y = e.u) := by
  obtain ⟨e', he', h⟩ := h
  rw [he] at he'; cases he'
  rcases h with ⟨h1, h2⟩ | ⟨h1, h2⟩
  · exact Or.inl ⟨h1.symm, h2.symm⟩
  · exact Or.inr ⟨h1.symm, h2.symm⟩

/-- a walk all of whose edge indices satisfy `P` witnesses reachability -/
theorem IsWalk.reachOn {T : List Edge} {P : Nat → Prop} {s t : Nat} {w : List (Nat × Bool)} (h : IsWalk T s t w)
    (hP : ∀ x ∈ w, P x.1) : ReachOn T P s t := by
  induction h with
  | nil => exact ReachOn.refl _
  | @fwd s t k e p hk ht _ ih =>
    subst ht
    exact ReachOn.step (hP (k, true) List.mem_cons_self) (adj_tail_head hk)
      (ih (fun x hx => hP x (List.mem_cons_of_mem _ hx)))
  | @bwd s t k e p hk hh _ ih =>
    subst hh
    exact ReachOn.step (hP (k, false) List.mem_cons_self) (adj_tail_head hk).symm
      (ih (fun x hx => hP x (List.mem_cons_of_mem _ hx)))

/-! ### forests: incremental form and bridge form -/

/-- no edge joins two nodes that are already connected by earlier edges -/
def IsIncrForest (T : List Edge) : Prop :=
  ∀ k e, T[k]? = some e → ¬ ReachOn T (fun j => j < k) e.u e.v

/-- every edge is a bridge: its ends are not connected by the other edges -/
def IsBridgeForest (T : List Edge) : Prop :=
  ∀ k e, T[k]? = some e → ¬ ReachOn T (fun j => j ≠ k) e.u e.v

theorem IsBridgeForest.incr {T : List Edge} (h : IsBridgeForest T) : IsIncrForest T := by
  intro k e he hr
  exact h k e he (hr.mono (fun j _ hj => by omega))

theorem bridges_aux {T : List Edge} (h : IsIncrForest T) :
    ∀ n, ∀ k e, k < n → T[k]? = some e → ¬ ReachOn T (fun j => j < n ∧ j ≠ k) e.u e.v := by
  intro n
  induction n with
  | zero => intro k e hk; omega
  | succ n ih =>
    intro k e hk he hr
    by_cases hkn : k = n
    · subst hkn
      exact h k e he (hr.mono (fun j _ hj => by omega))
    · have hk' : k < n := by omega
      cases hn : T[n]? with
      | none =>
        refine ih k e hk' he (hr.mono ?_)
        intro j hj hj'
        have : n ≠ j := by
          rintro rfl
          rw [List.getElem?_eq_getElem hj] at hn; cases hn
        omega
      | some en =>
        have hr' : ReachOn T (fun j => (j < n ∧ j ≠ k) ∨ j = n) e.u e.v :=
          hr.mono (fun j _ hj => by omega)
        have hk_adj : ReachOn T (fun j => j < n) e.u e.v := ReachOn.single hk' (adj_u_v he)
        have w : ∀ {x y}, ReachOn T (fun j => j < n ∧ j ≠ k) x y → ReachOn T (fun j => j < n) x y :=
          fun h => h.mono (fun j _ hj => hj.1)
        rcases reachOn_insert (adj_ends hn) hr' with h1 | ⟨h1, h2⟩ | ⟨h1, h2⟩
        · exact ih k e hk' he h1
        · exact h n en hn (((w h1).symm.trans hk_adj).trans (w h2).symm)
        · exact h n en hn ((w h2).trans (hk_adj.symm.trans (w h1)))

/-- incremental acyclicity implies that every edge is a bridge -/
theorem bridges_of_incremental {T : List Edge} (h : IsIncrForest T) : IsBridgeForest T := by
  intro k e he hr
  have hk := (List.getElem?_eq_some_iff.mp he).1
  exact bridges_aux h T.length k e hk he (hr.mono (fun j hj hj' => ⟨hj, hj'⟩))

/-! ### the union-find test `forestLabels` decides incremental acyclicity -/

theorem lbl_init {nodes : List Nat} {x : Nat} (h : x ∈ nodes) : lbl (nodes.map (fun x => (x, x))) x = x := by
  unfold lbl
  induction nodes with
  | nil => simp at h
  | cons y nodes ih =>
    simp only [List.map_cons, List.lookup_cons]
    by_cases hk : x = y
    · subst hk; simp
    · have : (x == y) = false := by simpa using hk
      rcases List.mem_cons.mp h with h | h
      · exact absurd h hk
      · simp only [this]; exact ih h

theorem reachOn_lt_zero {T : List Edge} {x y : Nat} (h : ReachOn T (fun j => j < 0) x y) : x = y := by
  cases h with
  | refl => rfl
  | step hp _ _ => exact absurd hp (Nat.not_lt_zero _)

/-- the labelling after `n` edges identifies exactly the nodes connected by the first `n` edges -/
def LabInv (nodes : List Nat) (T : List Edge) (n : Nat) (lab : List (Nat × Nat)) : Prop :=
  (∀ x ∈ nodes, (lab.lookup x).isSome = true) ∧
  ∀ x ∈ nodes, ∀ y ∈ nodes, (lbl lab x = lbl lab y ↔ ReachOn T (fun j => j < n) x y)

theorem labInv_init (nodes : List Nat) (T : List Edge) : LabInv nodes T 0 (nodes.map (fun x => (x, x))) := by
  refine ⟨lookup_init nodes, ?_⟩
  intro x hx y hy
  rw [lbl_init hx, lbl_init hy]
  exact ⟨fun h => h ▸ ReachOn.refl _, reachOn_lt_zero⟩

theorem labInv_step {nodes : List Nat} {T : List Edge} {n : Nat} {lab : List (Nat × Nat)} {e : Edge}
    (he : T[n]? = some e) (hu : e.u ∈ nodes) (hv : e.v ∈ nodes) (inv : LabInv nodes T n lab) :
    LabInv nodes T (n+1) (relabel (lbl lab e.v) (lbl lab e.u) lab) := by
  obtain ⟨hk, hr⟩ := inv
  refine ⟨fun x hx => by rw [lookup_relabel]; simp [hk x hx], ?_⟩
  intro x hx y hy
  have up : ∀ {a b}, ReachOn T (fun j => j < n) a b → ReachOn T (fun j => j < n + 1) a b :=
    fun h => h.mono (fun j _ hj => by omega)
  have hn : ReachOn T (fun j => j < n + 1) e.u e.v := ReachOn.single (Nat.lt_succ_self n) (adj_u_v he)
  rw [lbl_relabel (hk x hx), lbl_relabel (hk y hy)]
  constructor
  · intro h
    by_cases h1 : lbl lab x = lbl lab e.v <;> by_cases h2 : lbl lab y = lbl lab e.v
    · exact up ((hr x hx y hy).mp (h1.trans h2.symm))
    · simp [h1, h2] at h
      have r1 := up ((hr x hx _ hv).mp h1)
      have r2 := up ((hr _ hu y hy).mp h)
      exact r1.trans (hn.symm.trans r2)
    · simp [h1, h2] at h
      have r1 := up ((hr x hx _ hu).mp h)
      have r2 := up ((hr _ hv y hy).mp h2.symm)
      exact r1.trans (hn.trans r2)
    · simp [h1, h2] at h
      exact up ((hr x hx y hy).mp h)
  · intro h
    have h' : ReachOn T (fun j => j < n ∨ j = n) x y := h.mono (fun j _ hj => by omega)
    rcases reachOn_insert (adj_ends he) h' with h1 | ⟨h1, h2⟩ | ⟨h1, h2⟩
    · rw [(hr x hx y hy).mpr h1]
    · have e1 := (hr x hx _ hu).mpr h1
      have e2 := (hr _ hv y hy).mpr h2
      rw [e1, ← e2]; simp
    · have e1 := (hr x hx _ hv).mpr h1
      have e2 := (hr _ hu y hy).mpr h2
      rw [e1, ← e2]; simp

theorem foldlM_forestStep_iff {nodes : List Nat} {T : List Edge} (hn : ∀ e ∈ T, e.u ∈ nodes ∧ e.v ∈ nodes) :
    ∀ (rest : List Edge) (n : Nat) (lab : List (Nat × Nat)), T.drop n = rest → LabInv nodes T n lab →
      ((rest.foldlM forestStep lab).isSome = true ↔
        ∀ k e, n ≤ k → T[k]? = some e → ¬ ReachOn T (fun j => j < k) e.u e.v) := by
  intro rest
  induction rest with
  | nil =>
    intro n lab hd inv
    have hlen : T.length ≤ n := by simpa using hd
    simp only [List.foldlM_nil, Option.pure_def, Option.isSome_some, true_iff]
    intro k e hk he
    have := (List.getElem?_eq_some_iff.mp he).1
    omega
  | cons e rest ih =>
    intro n lab hd inv
    have hlt : n < T.length := by
      by_cases h : n < T.length
      · exact h
      · rw [List.drop_eq_nil_of_le (by omega)] at hd; cases hd
    have he : T[n]? = some e := by
      have := congrArg (fun l => l[0]?) hd
      simpa using this
    have hd' : T.drop (n+1) = rest := by
      have := congrArg List.tail hd
      simpa using this
    have hmem : e ∈ T := List.mem_of_getElem? he
    obtain ⟨hu, hv⟩ := hn e hmem
    rw [List.foldlM_cons]
    by_cases hl : lbl lab e.u = lbl lab e.v
    · have hstep : forestStep lab e = none := by unfold forestStep; simp [hl]
      rw [hstep]
      constructor
      · intro h; simp at h
      · intro h
        exact absurd ((inv.2 _ hu _ hv).mp hl) (h n e (Nat.le_refl n) he)
    · have hstep : forestStep lab e = some (relabel (lbl lab e.v) (lbl lab e.u) lab) := by
        unfold forestStep; simp [hl]
      rw [hstep]
      simp only [Option.bind_eq_bind, Option.bind_some]
      rw [ih (n+1) _ hd' (labInv_step he hu hv inv)]
      constructor
      · intro h k e' hk he'
        by_cases hkn : k = n
        · subst hkn
          rw [he] at he'; cases he'
          exact fun hr => hl ((inv.2 _ hu _ hv).mpr hr)
        · exact h k e' (by omega) he'
      · intro h k e' hk he'
        exact h k e' (by omega) he'

/-- Provided all ends are listed as nodes, the union-find test accepts `T` iff no edge closes a cycle with earlier edges. -/
theorem forestLabels_isSome_iff {nodes : List Nat} {T : List Edge} (hn : ∀ e ∈ T, e.u ∈ nodes ∧ e.v ∈ nodes) :
    (forestLabels nodes T).isSome = true ↔ IsIncrForest T := by
  rw [forestLabels_eq, foldlM_forestStep_iff hn T 0 _ (by simp) (labInv_init nodes T)]
  exact ⟨fun h k e he => h k e (Nat.zero_le k) he, fun h k e _ he => h k e he⟩

/-! ### walks in a bridge forest are determined by their ends -/

theorem IsWalk.getElem?_of_mem {T : List Edge} {s t : Nat} {w : List (Nat × Bool)} (h : IsWalk T s t w)
    {x : Nat × Bool} (hx : x ∈ w) : ∃ e, T[x.1]? = some e := by
  induction h with
  | nil => simp at hx
  | fwd hk _ _ ih =>
    rcases List.mem_cons.mp hx with rfl | hx
    · exact ⟨_, hk⟩
    · exact ih hx
  | bwd hk _ _ ih =>
    rcases List.mem_cons.mp hx with rfl | hx
    · exact ⟨_, hk⟩
    · exact ih hx

theorem IsWalk.append {T : List Edge} {s x t : Nat} {w1 w2 : List (Nat × Bool)} (h1 : IsWalk T s x w1)
    (h2 : IsWalk T x t w2) : IsWalk T s t (w1 ++ w2) := by
  induction h1 with
  | nil => exact h2
  | fwd hk ht _ ih => exact IsWalk.fwd hk ht (ih h2)
  | bwd hk hh _ ih => exact IsWalk.bwd hk hh (ih h2)

/-- the walk traversed backwards -/
def revWalk (w : List (Nat × Bool)) : List (Nat × Bool) := (w.map (fun x => (x.1, !x.2))).reverse

theorem IsWalk.reverse {T : List Edge} {s t : Nat} {w : List (Nat × Bool)} (h : IsWalk T s t w) :
    IsWalk T t s (revWalk w) := by
  induction h with
  | nil => exact IsWalk.nil _
  | @fwd s t k e p hk ht _ ih =>
    have : revWalk ((k, true) :: p) = revWalk p ++ [(k, false)] := by simp [revWalk]
    rw [this]
    exact ih.append (IsWalk.bwd hk rfl (ht ▸ IsWalk.nil _))
  | @bwd s t k e p hk hh _ ih =>
    have : revWalk ((k, false) :: p) = revWalk p ++ [(k, true)] := by simp [revWalk]
    rw [this]
    exact ih.append (IsWalk.fwd hk rfl (hh ▸ IsWalk.nil _))

theorem revWalk_map_fst (w : List (Nat × Bool)) : (revWalk w).map Prod.fst = (w.map Prod.fst).reverse := by
  simp [revWalk, List.map_reverse]

theorem mem_revWalk {w : List (Nat × Bool)} {k : Nat} {d : Bool} : (k, d) ∈ revWalk w ↔ (k, !d) ∈ w := by
  simp only [revWalk, List.mem_reverse, List.mem_map, Prod.mk.injEq]
  constructor
  · rintro ⟨⟨k', d'⟩, hm, rfl, rfl⟩
    simpa using hm
  · intro h
    exact ⟨(k, !d), h, rfl, by simp⟩

theorem bridge_tail_head {T : List Edge} (hb : IsBridgeForest T) {k : Nat} {e : Edge} (he : T[k]? = some e) :
    ¬ ReachOn T (fun j => j ≠ k) e.tail e.head := by
  intro h
  rcases e.tail_head with ⟨h1, h2⟩ | ⟨h1, h2⟩
  · rw [h1, h2] at h; exact hb k e he h
  · rw [h1, h2] at h; exact hb k e he h.symm

theorem reachOn_congr_left {T : List Edge} {P : Nat → Prop} {x y h : Nat} (hxy : ReachOn T P x y) :
    ReachOn T P x h ↔ ReachOn T P y h :=
  ⟨fun hx => hxy.symm.trans hx, fun hy => hxy.trans hy⟩

theorem not_mem_of_not_mem_map_fst {w : List (Nat × Bool)} {k : Nat} (h : k ∉ w.map Prod.fst) (d : Bool) :
    (k, d) ∉ w := fun hm => h (List.mem_map.mpr ⟨(k, d), hm, rfl⟩)

/-- In a bridge forest the edge `k` is traversed forwards (backwards) by a walk with distinct edges exactly if the walk
starts on the tail (head) side of `k` and ends on the head (tail) side.  The side of a node is `ReachOn` to the head of
`k` avoiding `k`. -/
theorem walk_mem_iff_side {T : List Edge} (hb : IsBridgeForest T) {k : Nat} {e : Edge} (he : T[k]? = some e)
    {s t : Nat} {w : List (Nat × Bool)} (h : IsWalk T s t w) (nd : (w.map Prod.fst).Nodup) :
    ((k, true) ∈ w ↔ (¬ ReachOn T (fun j => j ≠ k) s e.head ∧ ReachOn T (fun j => j ≠ k) t e.head)) ∧
    ((k, false) ∈ w ↔ (ReachOn T (fun j => j ≠ k) s e.head ∧ ¬ ReachOn T (fun j => j ≠ k) t e.head)) := by
  have hbr := bridge_tail_head hb he
  induction h with
  | nil => simp
  | @fwd s t j e' p hj ht hp ih =>
    simp only [List.map_cons, List.nodup_cons] at nd
    by_cases hjk : j = k
    · subst hjk
      rw [he] at hj; cases hj
      subst ht
      have hrest : ReachOn T (fun i => i ≠ j) e.head t :=
        hp.reachOn (fun x hx hxj => nd.1 (List.mem_map.mpr ⟨x, hx, hxj⟩))
      have hnf := not_mem_of_not_mem_map_fst nd.1 false
      constructor
      · simp only [List.mem_cons, true_or, true_iff]
        exact ⟨hbr, hrest.symm⟩
      · simp only [List.mem_cons, Prod.mk.injEq, Bool.false_eq_true, and_false, false_or, hnf, false_iff]
        exact fun h => hbr h.1
    · subst ht
      have hadj : ReachOn T (fun i => i ≠ k) e'.tail e'.head := ReachOn.single hjk (adj_tail_head hj)
      have hc := reachOn_congr_left (h := e.head) hadj
      obtain ⟨i1, i2⟩ := ih nd.2
      have hne : ∀ d d' : Bool, (k, d) ≠ (j, d') := fun d d' h => hjk (by cases h; rfl)
      constructor
      · rw [List.mem_cons, hc, ← i1]; simp [hne]
      · rw [List.mem_cons, hc, ← i2]; simp [hne]
  | @bwd s t j e' p hj hh hp ih =>
    simp only [List.map_cons, List.nodup_cons] at nd
    by_cases hjk : j = k
    · subst hjk
      rw [he] at hj; cases hj
      subst hh
      have hrest : ReachOn T (fun i => i ≠ j) e.tail t :=
        hp.reachOn (fun x hx hxj => nd.1 (List.mem_map.mpr ⟨x, hx, hxj⟩))
      have hnt := not_mem_of_not_mem_map_fst nd.1 true
      constructor
      · simp only [List.mem_cons, Prod.mk.injEq, Bool.true_eq_false, and_false, false_or, hnt, false_iff]
        exact fun h => h.1 (ReachOn.refl _)
      · simp only [List.mem_cons, true_or, true_iff]
        exact ⟨ReachOn.refl _, fun h => hbr (hrest.trans h)⟩
    · subst hh
      have hadj : ReachOn T (fun i => i ≠ k) e'.head e'.tail := ReachOn.single hjk (adj_tail_head hj).symm
      have hc := reachOn_congr_left (h := e.head) hadj
      obtain ⟨i1, i2⟩ := ih nd.2
      have hne : ∀ d d' : Bool, (k, d) ≠ (j, d') := fun d d' h => hjk (by cases h; rfl)
      constructor
      · rw [List.mem_cons, hc, ← i1]; simp [hne]
      · rw [List.mem_cons, hc, ← i2]; simp [hne]

/-- two walks with distinct edges between the same ends of a bridge forest use the same edges in the same directions -/
theorem walk_unique {T : List Edge} (hb : IsBridgeForest T) {s t : Nat} {w1 w2 : List (Nat × Bool)}
    (h1 : IsWalk T s t w1) (n1 : (w1.map Prod.fst).Nodup) (h2 : IsWalk T s t w2) (n2 : (w2.map Prod.fst).Nodup)
    (x : Nat × Bool) : x ∈ w1 → x ∈ w2 := by
  intro hx
  obtain ⟨e, he⟩ := h1.getElem?_of_mem hx
  obtain ⟨k, d⟩ := x
  cases d with
  | true => exact ((walk_mem_iff_side hb he h2 n2).1).mpr (((walk_mem_iff_side hb he h1 n1).1).mp hx)
  | false => exact ((walk_mem_iff_side hb he h2 n2).2).mpr (((walk_mem_iff_side hb he h1 n1).2).mp hx)

/-- a closed walk with distinct edges in a bridge forest is empty -/
theorem closed_walk_nil {T : List Edge} (hb : IsBridgeForest T) {s : Nat} {w : List (Nat × Bool)}
    (h : IsWalk T s s w) (nd : (w.map Prod.fst).Nodup) : w = [] := by
  cases w with
  | nil => rfl
  | cons x w =>
    exfalso
    have hx : x ∈ x :: w := List.mem_cons_self
    obtain ⟨e, he⟩ := h.getElem?_of_mem hx
    obtain ⟨k, d⟩ := x
    cases d with
    | true => have := ((walk_mem_iff_side hb he h nd).1).mp hx; exact this.1 this.2
    | false => have := ((walk_mem_iff_side hb he h nd).2).mp hx; exact this.2 this.1

/-! ### completeness of the tree-path search -/

theorem IsWalk.eq_of_nil {T : List Edge} {s t : Nat} (h : IsWalk T s t []) : s = t := by
  cases h; rfl

/-- whenever a walk with distinct unused edges and length within the fuel exists, the search returns some walk -/
theorem treePath_complete {T : List Edge} :
    ∀ (fuel : Nat) (used : List Nat) (s t : Nat) (w : List (Nat × Bool)), IsWalk T s t w → (w.map Prod.fst).Nodup →
      (∀ x ∈ w, x.1 ∉ used) → w.length ≤ fuel → (treePath T fuel used s t).isSome = true := by
  intro fuel
  induction fuel with
  | zero =>
    intro used s t w hw nd hu hl
    have : w = [] := by simpa using hl
    subst this
    rw [hw.eq_of_nil, treePath_self]; rfl
  | succ fuel ih =>
    intro used s t w hw nd hu hl
    by_cases hst : s = t
    · subst hst; rw [treePath_self]; rfl
    · have hst' : (s == t) = false := by simpa using hst
      unfold treePath
      simp only [hst', Bool.false_eq_true, if_false]
      rw [List.findSome?_isSome_iff]
      cases hw with
      | nil => exact absurd rfl hst
      | @fwd _ _ k e p hk ht hp =>
        simp only [List.map_cons, List.nodup_cons] at nd
        refine ⟨(e, k), by simpa [List.mem_zipIdx_iff_getElem?] using hk, ?_⟩
        have hku : used.contains k = false := by simpa using hu (k, true) List.mem_cons_self
        have hrec := ih (k :: used) e.head t p hp nd.2 (fun x hx => by
          simp only [List.mem_cons, not_or]
          refine ⟨fun hxk => nd.1 (List.mem_map.mpr ⟨x, hx, hxk⟩), hu x (List.mem_cons_of_mem _ hx)⟩)
          (by simpa using hl)
        simp only [hku, Bool.false_eq_true, if_false, ht, beq_self_eq_true, if_true, Option.isSome_map]
        exact hrec
      | @bwd _ _ k e p hk hh hp =>
        simp only [List.map_cons, List.nodup_cons] at nd
        refine ⟨(e, k), by simpa [List.mem_zipIdx_iff_getElem?] using hk, ?_⟩
        have hku : used.contains k = false := by simpa using hu (k, false) List.mem_cons_self
        have hrec := ih (k :: used) e.tail t p hp nd.2 (fun x hx => by
          simp only [List.mem_cons, not_or]
          refine ⟨fun hxk => nd.1 (List.mem_map.mpr ⟨x, hx, hxk⟩), hu x (List.mem_cons_of_mem _ hx)⟩)
          (by simpa using hl)
        simp only [hku, Bool.false_eq_true, if_false]
        by_cases hts : e.tail = s
        · simp only [hts, beq_self_eq_true, if_true, Option.isSome_map]
          rw [hh]; rw [hts] at hrec
          exact hrec
        · have hts' : (e.tail == s) = false := by simpa using hts
          simp only [hts', Bool.false_eq_true, if_false, hh, beq_self_eq_true, if_true, Option.isSome_map]
          exact hrec

/-! ### the per-column test `supportIsPath` accepts the edge set of a walk with distinct edges -/

/-- the multiset of ends of the edges with indices `S` (the list `ends` of `supportIsPath`) -/
def endsOf (T : List Edge) (S : List Nat) : List Nat :=
  (S.filterMap (fun k => T[k]?)).flatMap (fun e => [e.u, e.v])

theorem supportIsPath_eq (T : List Edge) (S : List Nat) : supportIsPath T S =
    (if S.isEmpty then true else
      (endsOf T S).all (fun x => decide (((endsOf T S).filter (· == x)).length ≤ 2)) &&
      match (endsOf T S).eraseDups.filter (fun x => ((endsOf T S).filter (· == x)).length % 2 == 1) with
      | [a, b] =>
        (match treePath T T.length [] a b with
         | some p => p.length == S.length && p.all (fun (k, _) => S.contains k)
         | none => false)
      | _ => false) := rfl

theorem endsOf_cons {T : List Edge} {k : Nat} {e : Edge} (S : List Nat) (he : T[k]? = some e) :
    endsOf T (k :: S) = e.u :: e.v :: endsOf T S := by
  simp [endsOf, List.filterMap_cons, he]

theorem count_endsOf_perm {T : List Edge} {S S' : List Nat} (h : S.Perm S') (x : Nat) :
    (endsOf T S).count x = (endsOf T S').count x :=
  ((h.filterMap _).flatMap_right _).count_eq x

theorem count_endsOf_cons {T : List Edge} {k : Nat} {e : Edge} (S : List Nat) (he : T[k]? = some e) (x : Nat) :
    (endsOf T (k :: S)).count x =
      (if e.tail = x then 1 else 0) + (if e.head = x then 1 else 0) + (endsOf T S).count x := by
  rw [endsOf_cons S he, List.count_cons, List.count_cons]
  simp only [beq_iff_eq]
  rcases e.tail_head with ⟨h1, h2⟩ | ⟨h1, h2⟩ <;> rw [h1, h2] <;> omega

theorem IsWalk.cons_inv {T : List Edge} {s t : Nat} {x : Nat × Bool} {p : List (Nat × Bool)}
    (h : IsWalk T s t (x :: p)) :
    ∃ e s', T[x.1]? = some e ∧ IsWalk T s s' [x] ∧ IsWalk T s' t p ∧
      ((e.tail = s ∧ e.head = s') ∨ (e.head = s ∧ e.tail = s')) := by
  cases h with
  | @fwd _ _ k e _ hk ht hp => exact ⟨e, e.head, hk, IsWalk.fwd hk ht (IsWalk.nil _), hp, Or.inl ⟨ht, rfl⟩⟩
  | @bwd _ _ k e _ hk hh hp => exact ⟨e, e.tail, hk, IsWalk.bwd hk hh (IsWalk.nil _), hp, Or.inr ⟨hh, rfl⟩⟩

theorem count_step {T : List Edge} {k : Nat} {e : Edge} {s s' : Nat} (S : List Nat) (he : T[k]? = some e)
    (hor : (e.tail = s ∧ e.head = s') ∨ (e.head = s ∧ e.tail = s')) (x : Nat) :
    (endsOf T (k :: S)).count x = (if s = x then 1 else 0) + (if s' = x then 1 else 0) + (endsOf T S).count x := by
  rw [count_endsOf_cons S he]
  rcases hor with ⟨h1, h2⟩ | ⟨h1, h2⟩ <;> rw [h1, h2] <;> omega

/-- a node that is an end of some edge of the walk is visited by the walk -/
theorem walk_split_of_count_pos {T : List Edge} {x : Nat} :
    ∀ {w : List (Nat × Bool)} {s t : Nat}, IsWalk T s t w → 0 < (endsOf T (w.map Prod.fst)).count x →
      ∃ w1 w2, w = w1 ++ w2 ∧ IsWalk T s x w1 ∧ IsWalk T x t w2 := by
  intro w
  induction w with
  | nil => intro s t _ h; simp [endsOf] at h
  | cons y p ih =>
    intro s t hw hc
    obtain ⟨e, s', he, h1, hp, hor⟩ := hw.cons_inv
    rw [List.map_cons, count_step _ he hor] at hc
    by_cases hsx : s = x
    · subst hsx; exact ⟨[], y :: p, rfl, IsWalk.nil _, hw⟩
    · by_cases hsx' : s' = x
      · subst hsx'; exact ⟨[y], p, rfl, h1, hp⟩
      · simp only [hsx, hsx', if_false, Nat.zero_add] at hc
        obtain ⟨w1, w2, rfl, a1, a2⟩ := ih hp hc
        exact ⟨y :: w1, w2, rfl, h1.append a1, a2⟩

/-- A walk with distinct edges in a bridge forest is a simple path: its two ends are different and have degree one in
its edge set, every other node has degree zero or two. -/
theorem walk_degrees {T : List Edge} (hb : IsBridgeForest T) :
    ∀ {w : List (Nat × Bool)} {s t : Nat}, IsWalk T s t w → (w.map Prod.fst).Nodup →
      (w ≠ [] → s ≠ t) ∧
      (endsOf T (w.map Prod.fst)).count s = (if w = [] then 0 else 1) ∧
      (endsOf T (w.map Prod.fst)).count t = (if w = [] then 0 else 1) ∧
      ∀ x, x ≠ s → x ≠ t → (endsOf T (w.map Prod.fst)).count x = 0 ∨ (endsOf T (w.map Prod.fst)).count x = 2 := by
  intro w
  induction w with
  | nil => intro s t _ _; simp [endsOf]
  | cons y p ih =>
    intro s t hw nd
    obtain ⟨e, s', he, h1, hp, hor⟩ := hw.cons_inv
    have nd' : y.1 ∉ p.map Prod.fst ∧ (p.map Prod.fst).Nodup := by simpa using nd
    obtain ⟨iA, iB, iC, iD⟩ := ih hp nd'.2
    have hst : s ≠ t := by
      intro h; subst h
      exact absurd (closed_walk_nil hb hw nd) (by simp)
    have hss' : s ≠ s' := by
      intro h; subst h
      exact absurd (closed_walk_nil hb h1 (by simp)) (by simp)
    have hcs : (endsOf T (p.map Prod.fst)).count s = 0 := by
      apply Nat.eq_zero_of_not_pos
      intro hpos
      obtain ⟨w1, w2, rfl, a1, a2⟩ := walk_split_of_count_pos hp hpos
      have hcl : IsWalk T s s (y :: w1) := h1.append a1
      have hnd : ((y :: w1).map Prod.fst).Nodup := by
        refine List.Nodup.sublist ?_ nd
        simp only [List.map_cons, List.map_append, List.cons_sublist_cons]
        exact List.sublist_append_left _ _
      exact absurd (closed_walk_nil hb hcl hnd) (by simp)
    have hcount := count_step (p.map Prod.fst) he hor
    simp only [List.map_cons]
    refine ⟨fun _ => hst, ?_, ?_, ?_⟩
    · rw [hcount, hcs]; simp [hss'.symm]
    · rw [hcount, iC]
      by_cases hpn : p = []
      · subst hpn
        have := hp.eq_of_nil
        simp [hst, this]
      · simp [hst, hpn, iA hpn]
    · intro x hxs hxt
      rw [hcount]
      by_cases hx' : s' = x
      · subst hx'
        have hpn : p ≠ [] := by
          intro h; subst h; exact hxt hp.eq_of_nil
        right
        rw [iB]; simp [hpn, Ne.symm hxs]
      · rcases iD x (Ne.symm hx') hxt with h | h
        · left; rw [h]; simp [Ne.symm hxs, hx']
        · right; rw [h]; simp [Ne.symm hxs, hx']

theorem nodup_eraseDups_aux : ∀ (n : Nat) (l : List Nat), l.length ≤ n → l.eraseDups.Nodup := by
  intro n
  induction n with
  | zero =>
    intro l hl
    have : l = [] := by simpa using hl
    subst this; simp
  | succ n ih =>
    intro l hl
    cases l with
    | nil => simp
    | cons a as =>
      rw [List.eraseDups_cons, List.nodup_cons]
      refine ⟨?_, ih _ ?_⟩
      · rw [List.mem_eraseDups, List.mem_filter]
        simp
      · have := (List.filter_sublist (p := fun b => !b == a) (l := as)).length_le
        simp only [List.length_cons] at hl
        omega

theorem nodup_eraseDups (l : List Nat) : l.eraseDups.Nodup := nodup_eraseDups_aux l.length l (Nat.le_refl _)

theorem nodup_pair_cases {L : List Nat} {s t : Nat} (hnd : L.Nodup) (hst : s ≠ t)
    (hm : ∀ x, x ∈ L ↔ x = s ∨ x = t) : L = [s, t] ∨ L = [t, s] := by
  match L, hnd, hm with
  | [], _, hm => exact absurd ((hm s).mpr (Or.inl rfl)) (by simp)
  | [a], _, hm =>
    have h1 := (hm s).mpr (Or.inl rfl)
    have h2 := (hm t).mpr (Or.inr rfl)
    simp at h1 h2
    omega
  | [a, b], hnd, hm =>
    have h1 := (hm s).mpr (Or.inl rfl)
    have h2 := (hm t).mpr (Or.inr rfl)
    have hab : a ≠ b := by simpa using hnd
    simp at h1 h2
    rcases h1 with rfl | rfl <;> rcases h2 with rfl | rfl
    · exact absurd rfl hst
    · exact Or.inl rfl
    · exact Or.inr rfl
    · exact absurd rfl hst
  | a :: b :: c :: l, hnd, hm =>
    have ha := (hm a).mp (by simp)
    have hb := (hm b).mp (by simp)
    have hc := (hm c).mp (by simp)
    simp only [List.nodup_cons, List.mem_cons, not_or] at hnd
    omega

theorem length_le_of_nodup_lt : ∀ (n : Nat) (l : List Nat), l.Nodup → (∀ x ∈ l, x < n) → l.length ≤ n := by
  intro n
  induction n with
  | zero =>
    intro l _ h
    cases l with
    | nil => simp
    | cons a l => exact absurd (h a List.mem_cons_self) (Nat.not_lt_zero _)
  | succ n ih =>
    intro l hnd h
    have h1 : (l.erase n).length ≤ n := by
      refine ih _ (hnd.erase n) ?_
      intro x hx
      have := (hnd.mem_erase_iff).mp hx
      have := h x this.2
      omega
    have h2 := List.length_erase (a := n) (l := l)
    split at h2 <;> omega

/-- the search from `a` to `b` returns a walk with the same steps as any given walk with distinct edges -/
theorem treePath_of_walk {T : List Edge} (hb : IsBridgeForest T) {a b : Nat} {w : List (Nat × Bool)}
    (hw : IsWalk T a b w) (nd : (w.map Prod.fst).Nodup) :
    ∃ p, treePath T T.length [] a b = some p ∧ IsWalk T a b p ∧ (p.map Prod.fst).Nodup ∧ ∀ x, x ∈ p ↔ x ∈ w := by
  have hlen : w.length ≤ T.length := by
    have := length_le_of_nodup_lt T.length (w.map Prod.fst) nd (by
      intro k hk
      obtain ⟨x, hx, rfl⟩ := List.mem_map.mp hk
      obtain ⟨e, he⟩ := hw.getElem?_of_mem hx
      exact (List.getElem?_eq_some_iff.mp he).1)
    simpa using this
  have hsome := treePath_complete T.length [] a b w hw nd (by simp) hlen
  obtain ⟨p, hp⟩ := Option.isSome_iff_exists.mp hsome
  obtain ⟨wp, ndp, _, _⟩ := treePath_sound hp
  exact ⟨p, hp, wp, ndp, fun x => ⟨walk_unique hb wp ndp hw nd x, walk_unique hb hw nd wp ndp x⟩⟩

/-- the final test of `supportIsPath`: the search finds a path between the two ends with exactly the edges `S` -/
theorem path_check {T : List Edge} (hb : IsBridgeForest T) {a b : Nat} {w : List (Nat × Bool)} (hw : IsWalk T a b w)
    (nd : (w.map Prod.fst).Nodup) {S : List Nat} (hS : S.Nodup) (hmem : ∀ k, k ∈ S ↔ k ∈ w.map Prod.fst) :
    (match treePath T T.length [] a b with
     | some p => p.length == S.length && p.all (fun (k, _) => S.contains k)
     | none => false) = true := by
  obtain ⟨p, hp, wp, ndp, hpw⟩ := treePath_of_walk hb hw nd
  rw [hp]
  have hmem' : ∀ k, k ∈ p.map Prod.fst ↔ k ∈ S := by
    intro k
    rw [hmem]
    constructor
    · intro hk
      obtain ⟨x, hx, rfl⟩ := List.mem_map.mp hk
      exact List.mem_map.mpr ⟨x, (hpw x).mp hx, rfl⟩
    · intro hk
      obtain ⟨x, hx, rfl⟩ := List.mem_map.mp hk
      exact List.mem_map.mpr ⟨x, (hpw x).mpr hx, rfl⟩
  have hperm : (p.map Prod.fst).Perm S := (List.perm_ext_iff_of_nodup ndp hS).mpr hmem'
  have hl := hperm.length_eq
  simp only [List.length_map] at hl
  simp only [Bool.and_eq_true, beq_iff_eq, List.all_eq_true, List.contains_iff_mem]
  refine ⟨hl, ?_⟩
  intro x hx
  exact (hmem' x.1).mp (List.mem_map.mpr ⟨x, hx, rfl⟩)

/-- In a bridge forest, if `S ≠ []` is the edge set of a walk with distinct edges from `s` to `t`, then all degrees in `S`
are at most two and the list of odd-degree nodes computed by `supportIsPath` / `signedColumnOk` is `[s, t]` or `[t, s]`. -/
theorem odd_ends_of_walk {T : List Edge} (hb : IsBridgeForest T) {s t : Nat} {w : List (Nat × Bool)}
    (hw : IsWalk T s t w) (nd : (w.map Prod.fst).Nodup) {S : List Nat} (hS : S.Nodup)
    (hmem : ∀ k, k ∈ S ↔ k ∈ w.map Prod.fst) (hE : S ≠ []) :
    (∀ x, ((endsOf T S).filter (· == x)).length ≤ 2) ∧
    ((endsOf T S).eraseDups.filter (fun x => ((endsOf T S).filter (· == x)).length % 2 == 1) = [s, t] ∨
     (endsOf T S).eraseDups.filter (fun x => ((endsOf T S).filter (· == x)).length % 2 == 1) = [t, s]) := by
  have hperm : S.Perm (w.map Prod.fst) := (List.perm_ext_iff_of_nodup hS nd).mpr hmem
  have hwne : w ≠ [] := by
    intro h; subst h
    cases S with
    | nil => exact hE rfl
    | cons a _ => exact absurd ((hmem a).mp List.mem_cons_self) (by simp)
  have hcnt : ∀ x, ((endsOf T S).filter (· == x)).length = (endsOf T (w.map Prod.fst)).count x := by
    intro x; rw [← List.count_eq_length_filter, count_endsOf_perm hperm]
  obtain ⟨hst, hs, ht, hx⟩ := walk_degrees hb hw nd
  have hst := hst hwne
  simp only [hwne, if_false] at hs ht
  have hdeg : ∀ x, (endsOf T (w.map Prod.fst)).count x ≤ 2 ∧
      ((endsOf T (w.map Prod.fst)).count x % 2 = 1 ↔ x = s ∨ x = t) := by
    intro x
    by_cases h1 : x = s
    · subst h1; rw [hs]; simp
    · by_cases h2 : x = t
      · subst h2; rw [ht]; simp
      · rcases hx x h1 h2 with h | h <;> rw [h] <;> simp [h1, h2]
  have hmemEnds : ∀ x, x = s ∨ x = t → x ∈ endsOf T S := by
    intro x hx
    rw [← List.count_pos_iff, List.count_eq_length_filter, hcnt]
    rcases hx with rfl | rfl
    · rw [hs]; exact Nat.one_pos
    · rw [ht]; exact Nat.one_pos
  refine ⟨fun x => by rw [hcnt]; exact (hdeg x).1, ?_⟩
  exact nodup_pair_cases
    (L := (endsOf T S).eraseDups.filter (fun x => ((endsOf T S).filter (· == x)).length % 2 == 1))
    (List.Nodup.sublist List.filter_sublist (nodup_eraseDups _)) hst (by
      intro x
      rw [List.mem_filter, List.mem_eraseDups, hcnt]
      simp only [beq_iff_eq]
      rw [(hdeg x).2]
      exact ⟨fun h => h.2, fun h => ⟨hmemEnds x h, h⟩⟩)

theorem revWalk_nodup {w : List (Nat × Bool)} (nd : (w.map Prod.fst).Nodup) : ((revWalk w).map Prod.fst).Nodup := by
  rw [revWalk_map_fst]
  exact (List.reverse_perm _).nodup_iff.mpr nd

/-- **Key lemma.** In a bridge forest the per-column test of the search accepts every index list `S` that is the edge set
of a walk with pairwise distinct edges. -/
theorem supportIsPath_of_walk {T : List Edge} (hb : IsBridgeForest T) {s t : Nat} {w : List (Nat × Bool)}
    (hw : IsWalk T s t w) (nd : (w.map Prod.fst).Nodup) {S : List Nat} (hS : S.Nodup)
    (hmem : ∀ k, k ∈ S ↔ k ∈ w.map Prod.fst) : supportIsPath T S = true := by
  rw [supportIsPath_eq]
  by_cases hE : S = []
  · simp [hE]
  · have hE' : S.isEmpty = false := by
      cases S with
      | nil => exact absurd rfl hE
      | cons _ _ => rfl
    obtain ⟨hdeg, hodd⟩ := odd_ends_of_walk hb hw nd hS hmem hE
    simp only [hE', Bool.false_eq_true, if_false, Bool.and_eq_true, List.all_eq_true, decide_eq_true_eq]
    refine ⟨fun x _ => hdeg x, ?_⟩
    rcases hodd with h | h
    · rw [h]
      exact path_check hb hw nd hS hmem
    · rw [h]
      refine path_check hb hw.reverse (revWalk_nodup nd) hS ?_
      intro k
      rw [hmem, revWalk_map_fst, List.mem_reverse]

/-! ### the signed per-column test `signedColumnOk` -/

theorem signedColumnOk_eq (T : List Edge) (m : Nat) (M : Mat) (j : Nat) : signedColumnOk T m M j =
    (if ((List.range m).filter (fun i => ent M i j != 0)).isEmpty then true else
      match (endsOf T ((List.range m).filter (fun i => ent M i j != 0))).eraseDups.filter
          (fun x => ((endsOf T ((List.range m).filter (fun i => ent M i j != 0))).filter (· == x)).length % 2 == 1) with
      | [a, b] =>
        (match cycleColumn T true { id := 0, u := a, v := b } with
         | some col =>
           col == (List.range m).map (fun i => ent M i j) || col.map (fun x => -x) == (List.range m).map (fun i => ent M i j)
         | none => false)
      | _ => false) := rfl

theorem not_both_dirs {w : List (Nat × Bool)} (nd : (w.map Prod.fst).Nodup) {k : Nat} (h1 : (k, true) ∈ w)
    (h2 : (k, false) ∈ w) : False := by
  have a := lookup_of_mem_nodup nd h1
  have b := lookup_of_mem_nodup nd h2
  rw [a] at b; cases b

/-- walks with the same steps have the same signed incidence vector -/
theorem pathEntry_congr {p w : List (Nat × Bool)} (ndp : (p.map Prod.fst).Nodup) (ndw : (w.map Prod.fst).Nodup)
    (h : ∀ x, x ∈ p ↔ x ∈ w) (k : Nat) : pathEntry true p k = pathEntry true w k := by
  rw [pathEntry_signed ndp, pathEntry_signed ndw]
  simp only [h (k, true), h (k, false)]

/-- the reversed walk has the negated signed incidence vector -/
theorem pathEntry_rev {p w : List (Nat × Bool)} (ndp : (p.map Prod.fst).Nodup) (ndw : (w.map Prod.fst).Nodup)
    (h : ∀ x, x ∈ p ↔ x ∈ revWalk w) (k : Nat) : pathEntry true p k = - pathEntry true w k := by
  rw [pathEntry_signed ndp, pathEntry_signed ndw]
  simp only [h (k, true), h (k, false), mem_revWalk, Bool.not_true, Bool.not_false]
  by_cases h1 : (k, true) ∈ w <;> by_cases h2 : (k, false) ∈ w
  · exact (not_both_dirs ndw h1 h2).elim
  · simp [h1, h2]
  · simp [h1, h2]
  · simp [h1, h2]

/-- the support of a column given by `pathEntry` is the edge set of the walk -/
theorem mem_support_iff {T : List Edge} {signed : Bool} {s t : Nat} {w : List (Nat × Bool)} (hw : IsWalk T s t w)
    {m : Nat} (hm : T.length = m) {M : Mat} {j : Nat} (hent : ∀ i, i < m → ent M i j = pathEntry signed w i) (k : Nat) :
    k ∈ (List.range m).filter (fun i => ent M i j != 0) ↔ k ∈ w.map Prod.fst := by
  rw [List.mem_filter, List.mem_range]
  constructor
  · rintro ⟨hk, hne⟩
    rw [hent k hk] at hne
    cases hl : w.lookup k with
    | none => rw [pathEntry_of_none hl] at hne; simp at hne
    | some b => exact List.mem_map.mpr ⟨(k, b), lookup_some_mem hl, rfl⟩
  · intro hmem
    obtain ⟨x, hx, rfl⟩ := List.mem_map.mp hmem
    obtain ⟨e, he⟩ := hw.getElem?_of_mem hx
    have hk : x.1 < m := hm ▸ (List.getElem?_eq_some_iff.mp he).1
    refine ⟨hk, ?_⟩
    rw [hent _ hk]
    cases hl : w.lookup x.1 with
    | none => exact absurd hmem (lookup_none_iff.mp hl)
    | some b => rw [pathEntry_of_some hl]; cases signed <;> cases b <;> simp

theorem cycleColumn_of_treePath {T : List Edge} {a b : Nat} {p : List (Nat × Bool)}
    (hp : treePath T T.length [] a b = some p) :
    cycleColumn T true { id := 0, u := a, v := b } = some ((List.range T.length).map (pathEntry true p)) := by
  unfold cycleColumn
  have h1 : ({ id := 0, u := a, v := b } : Edge).tail = a := rfl
  have h2 : ({ id := 0, u := a, v := b } : Edge).head = b := rfl
  rw [h1, h2, hp]
  rfl

/-- In a bridge forest (of arcs) the signed per-column test accepts a column that is the signed incidence vector of a walk
with distinct edges. -/
theorem signedColumnOk_of_walk {T : List Edge} (hb : IsBridgeForest T) {s t : Nat} {w : List (Nat × Bool)}
    (hw : IsWalk T s t w) (nd : (w.map Prod.fst).Nodup) {m : Nat} (hm : T.length = m) {M : Mat} {j : Nat}
    (hent : ∀ i, i < m → ent M i j = pathEntry true w i) : signedColumnOk T m M j = true := by
  rw [signedColumnOk_eq]
  have hS : ((List.range m).filter (fun i => ent M i j != 0)).Nodup :=
    List.Nodup.sublist List.filter_sublist List.nodup_range
  have hmem := mem_support_iff hw hm hent
  by_cases hE : (List.range m).filter (fun i => ent M i j != 0) = []
  · simp [hE]
  · have hE' : ((List.range m).filter (fun i => ent M i j != 0)).isEmpty = false := by
      cases h : (List.range m).filter (fun i => ent M i j != 0) with
      | nil => exact absurd h hE
      | cons _ _ => rfl
    obtain ⟨_, hodd⟩ := odd_ends_of_walk hb hw nd hS hmem hE
    simp only [hE', Bool.false_eq_true, if_false]
    rcases hodd with h | h
    · rw [h]
      obtain ⟨p, hp, wp, ndp, hpw⟩ := treePath_of_walk hb hw nd
      simp only [cycleColumn_of_treePath hp, Bool.or_eq_true, beq_iff_eq]
      left
      rw [hm]
      apply List.map_congr_left
      intro i hi
      rw [hent i (by simpa using hi)]
      exact pathEntry_congr ndp nd hpw i
    · rw [h]
      obtain ⟨p, hp, wp, ndp, hpw⟩ := treePath_of_walk hb hw.reverse (revWalk_nodup nd)
      simp only [cycleColumn_of_treePath hp, Bool.or_eq_true, beq_iff_eq]
      right
      rw [hm, List.map_map]
      apply List.map_congr_left
      intro i hi
      rw [hent i (by simpa using hi)]
      simp only [Function.comp]
      rw [pathEntry_rev ndp nd hpw i]
      omega

/-! ### rooting a forest: an injective assignment of edges to ends -/

/-- The edges of a forest can be assigned injectively to one of their ends (the "child" end with respect to some rooting),
avoiding any prescribed set `R` of pairwise unconnected nodes (these become roots). -/
theorem exists_rooting_aux {T : List Edge} (h : IsIncrForest T) :
    ∀ n, n ≤ T.length → ∀ R : Nat → Prop,
      (∀ r1 r2, R r1 → R r2 → r1 ≠ r2 → ¬ ReachOn T (fun j => j < n) r1 r2) →
      ∃ c : Nat → Nat, (∀ i e, i < n → T[i]? = some e → c i = e.u ∨ c i = e.v) ∧
        (∀ i j, i < n → j < n → c i = c j → i = j) ∧ (∀ i, i < n → ¬ R (c i)) := by
  intro n
  induction n with
  | zero => intro _ R _; exact ⟨fun _ => 0, by omega, by omega, by omega⟩
  | succ n ih =>
    intro hn R hR
    have he : T[n]? = some T[n] := List.getElem?_eq_getElem (by omega)
    generalize T[n] = e at he
    have hnr := h n e he
    have up : ∀ {a b}, ReachOn T (fun j => j < n) a b → ReachOn T (fun j => j < n + 1) a b :=
      fun h => h.mono (fun j _ hj => by omega)
    have hedge : ReachOn T (fun j => j < n + 1) e.u e.v := ReachOn.single (Nat.lt_succ_self n) (adj_u_v he)
    by_cases hA : ∃ r0, R r0 ∧ ReachOn T (fun j => j < n) r0 e.u
    · obtain ⟨r0, hr0, hr0u⟩ := hA
      have key : ∀ r1, R r1 → ¬ ReachOn T (fun j => j < n) r1 e.v := by
        intro r1 h1 hr
        have h10 : ReachOn T (fun j => j < n + 1) r1 r0 := (up hr).trans (hedge.symm.trans (up hr0u).symm)
        by_cases heq : r1 = r0
        · subst heq; exact hnr (hr0u.symm.trans hr)
        · exact hR r1 r0 h1 hr0 heq h10
      obtain ⟨c, c1, c2, c3⟩ := ih (by omega) (fun x => R x ∨ x = e.v) (by
        intro r1 r2 h1 h2 hne hr
        rcases h1 with h1 | rfl <;> rcases h2 with h2 | rfl
        · exact hR r1 r2 h1 h2 hne (up hr)
        · exact key r1 h1 hr
        · exact key r2 h2 hr.symm
        · exact hne rfl)
      refine ⟨fun i => if i = n then e.v else c i, ?_, ?_, ?_⟩
      · intro i e' hi he'
        by_cases hin : i = n
        · subst hin; rw [he] at he'; cases he'; simp
        · simp only [hin, if_false]; exact c1 i e' (by omega) he'
      · intro i j hi hj hij
        by_cases hin : i = n <;> by_cases hjn : j = n
        · omega
        · simp only [hin, hjn, if_true, if_false] at hij
          exact absurd (Or.inr hij.symm) (c3 j (by omega))
        · simp only [hin, hjn, if_true, if_false] at hij
          exact absurd (Or.inr hij) (c3 i (by omega))
        · simp only [hin, hjn, if_false] at hij
          exact c2 i j (by omega) (by omega) hij
      · intro i hi
        by_cases hin : i = n
        · simp only [hin, if_true]
          intro hRv
          exact key e.v hRv (ReachOn.refl _)
        · simp only [hin, if_false]
          exact fun hc => c3 i (by omega) (Or.inl hc)
    · have key : ∀ r1, R r1 → ¬ ReachOn T (fun j => j < n) r1 e.u := fun r1 h1 hr => hA ⟨r1, h1, hr⟩
      obtain ⟨c, c1, c2, c3⟩ := ih (by omega) (fun x => R x ∨ x = e.u) (by
        intro r1 r2 h1 h2 hne hr
        rcases h1 with h1 | rfl <;> rcases h2 with h2 | rfl
        · exact hR r1 r2 h1 h2 hne (up hr)
        · exact key r1 h1 hr
        · exact key r2 h2 hr.symm
        · exact hne rfl)
      refine ⟨fun i => if i = n then e.u else c i, ?_, ?_, ?_⟩
      · intro i e' hi he'
        by_cases hin : i = n
        · subst hin; rw [he] at he'; cases he'; simp
        · simp only [hin, if_false]; exact c1 i e' (by omega) he'
      · intro i j hi hj hij
        by_cases hin : i = n <;> by_cases hjn : j = n
        · omega
        · simp only [hin, hjn, if_true, if_false] at hij
          exact absurd (Or.inr hij.symm) (c3 j (by omega))
        · simp only [hin, hjn, if_true, if_false] at hij
          exact absurd (Or.inr hij) (c3 i (by omega))
        · simp only [hin, hjn, if_false] at hij
          exact c2 i j (by omega) (by omega) hij
      · intro i hi
        by_cases hin : i = n
        · simp only [hin, if_true]
          intro hRu
          exact key e.u hRu (ReachOn.refl _)
        · simp only [hin, if_false]
          exact fun hc => c3 i (by omega) (Or.inl hc)

/-- a rooting of `T`: `c i` is an end of edge `i`, and different edges get different ends -/
def IsRooting (T : List Edge) (c : Nat → Nat) : Prop :=
  (∀ i e, T[i]? = some e → c i = e.u ∨ c i = e.v) ∧ (∀ i j, i < T.length → j < T.length → c i = c j → i = j)

theorem exists_rooting {T : List Edge} (h : IsIncrForest T) : ∃ c, IsRooting T c := by
  obtain ⟨c, c1, c2, _⟩ := exists_rooting_aux h T.length (Nat.le_refl _) (fun _ => False) (by intro _ _ h; exact h.elim)
  exact ⟨c, fun i e he => c1 i e (List.getElem?_eq_some_iff.mp he).1 he, c2⟩

/-! ### the parent function of a rooting and its tree on the nodes `0..m` -/

/-- the end of `e` different from `x` -/
def otherEnd (e : Edge) (x : Nat) : Nat := if x = e.u then e.v else e.u

/-- new name of node `x`: `i+1` if `x` is the child end of edge `i`, and `0` for all roots (this glues the components) -/
def nodeIdx (c : Nat → Nat) (m : Nat) (x : Nat) : Nat :=
  match (List.range m).find? (fun i => c i == x) with
  | some i => i + 1
  | none => 0

/-- parent function: the new name of the other end of edge `i` -/
def parentOf (T : List Edge) (c : Nat → Nat) : List Nat :=
  T.zipIdx.map (fun (e, i) => nodeIdx c T.length (otherEnd e (c i)))

theorem otherEnd_cases {e : Edge} {x : Nat} (h : x = e.u ∨ x = e.v) :
    (x = e.u ∧ otherEnd e x = e.v) ∨ (x = e.v ∧ otherEnd e x = e.u) := by
  unfold otherEnd
  by_cases hx : x = e.u
  · simp [hx]
  · rcases h with h | h
    · exact absurd h hx
    · simp [hx, h]

theorem nodeIdx_le (c : Nat → Nat) (m x : Nat) : nodeIdx c m x ≤ m := by
  unfold nodeIdx
  split
  · rename_i i hi
    have := List.mem_of_find?_eq_some hi
    simp at this; omega
  · omega

theorem nodeIdx_eq_succ {c : Nat → Nat} {m x j : Nat} (h : nodeIdx c m x = j + 1) : j < m ∧ c j = x := by
  unfold nodeIdx at h
  split at h
  · rename_i i hi
    have h1 := List.mem_of_find?_eq_some hi
    have h2 := List.find?_some hi
    simp at h1 h2
    have : i = j := by omega
    subst this
    exact ⟨h1, h2⟩
  · omega

theorem nodeIdx_child {c : Nat → Nat} {m i : Nat} (hinj : ∀ i j, i < m → j < m → c i = c j → i = j) (hi : i < m) :
    nodeIdx c m (c i) = i + 1 := by
  cases hf : (List.range m).find? (fun j => c j == c i) with
  | none =>
    have := List.find?_eq_none.mp hf i (by simpa using hi)
    simp at this
  | some j =>
    have h1 := List.mem_of_find?_eq_some hf
    have h2 := List.find?_some hf
    simp at h1 h2
    have := hinj j i h1 hi h2
    subst this
    simp [nodeIdx, hf]

theorem parentOf_length (T : List Edge) (c : Nat → Nat) : (parentOf T c).length = T.length := by
  simp [parentOf]

theorem parentOf_le (T : List Edge) (c : Nat → Nat) : ∀ x ∈ parentOf T c, x ≤ T.length := by
  intro x hx
  simp only [parentOf, List.mem_map] at hx
  obtain ⟨⟨e, i⟩, _, rfl⟩ := hx
  exact nodeIdx_le _ _ _

theorem parentEdges_parentOf_getElem? (T : List Edge) (c : Nat → Nat) (i : Nat) :
    (parentEdges (parentOf T c))[i]? =
      (T[i]?).map (fun e => ({ id := i, u := i + 1, v := nodeIdx c T.length (otherEnd e (c i)) } : Edge)) := by
  simp [parentEdges, parentOf, List.getElem?_map, List.getElem?_zipIdx]
  cases T[i]? <;> simp

theorem mem_parentFns_of {m : Nat} : ∀ (k : Nat) (p : List Nat), p.length = k → (∀ x ∈ p, x ≤ m) → p ∈ parentFns m k := by
  intro k
  induction k with
  | zero =>
    intro p hl _
    have : p = [] := by simpa using hl
    subst this; simp [parentFns]
  | succ k ih =>
    intro p hl hle
    rcases List.eq_nil_or_concat p with rfl | ⟨q, x, rfl⟩
    · simp at hl
    · simp only [List.concat_eq_append] at hl hle ⊢
      simp only [parentFns, List.mem_flatMap, List.mem_map, List.mem_range]
      refine ⟨q, ih q (by simpa using hl) (fun y hy => hle y (List.mem_append_left _ hy)), x, ?_, rfl⟩
      have := hle x (by simp)
      omega

/-- the image of an edge of `T` under the renaming is the edge with the same index of the new tree -/
theorem adj_parentEdges {T : List Edge} {c : Nat → Nat} (hc : IsRooting T c) {k x y : Nat} (h : Adj T k x y) :
    Adj (parentEdges (parentOf T c)) k (nodeIdx c T.length x) (nodeIdx c T.length y) := by
  obtain ⟨e, he, hxy⟩ := h
  have hk := (List.getElem?_eq_some_iff.mp he).1
  have hchild := nodeIdx_child hc.2 hk
  refine ⟨_, by rw [parentEdges_parentOf_getElem?, he]; rfl, ?_⟩
  simp only
  rcases otherEnd_cases (hc.1 k e he) with ⟨h1, h2⟩ | ⟨h1, h2⟩ <;> rcases hxy with ⟨rfl, rfl⟩ | ⟨rfl, rfl⟩
  · left; rw [h2, ← h1, hchild]; exact ⟨rfl, rfl⟩
  · right; rw [h2, ← h1, hchild]; exact ⟨rfl, rfl⟩
  · right; rw [h2, ← h1, hchild]; exact ⟨rfl, rfl⟩
  · left; rw [h2, ← h1, hchild]; exact ⟨rfl, rfl⟩

/-- a single edge as a walk, in the direction that fits -/
theorem walk_of_adj {T : List Edge} {k x y : Nat} (h : Adj T k x y) : ∃ d, IsWalk T x y [(k, d)] := by
  obtain ⟨e, he, hxy⟩ := h
  rcases e.tail_head with ⟨h1, h2⟩ | ⟨h1, h2⟩ <;> rcases hxy with ⟨rfl, rfl⟩ | ⟨rfl, rfl⟩
  · exact ⟨true, IsWalk.fwd he h1 (h2 ▸ IsWalk.nil _)⟩
  · exact ⟨false, IsWalk.bwd he h2 (h1 ▸ IsWalk.nil _)⟩
  · exact ⟨false, IsWalk.bwd he h2 (h1 ▸ IsWalk.nil _)⟩
  · exact ⟨true, IsWalk.fwd he h1 (h2 ▸ IsWalk.nil _)⟩

/-- walks of `T` are mapped to walks of the new tree with the same edge indices -/
theorem walk_parentEdges {T : List Edge} {c : Nat → Nat} (hc : IsRooting T c) {s t : Nat} {w : List (Nat × Bool)}
    (h : IsWalk T s t w) :
    ∃ w', IsWalk (parentEdges (parentOf T c)) (nodeIdx c T.length s) (nodeIdx c T.length t) w' ∧
      w'.map Prod.fst = w.map Prod.fst := by
  induction h with
  | nil => exact ⟨[], IsWalk.nil _, rfl⟩
  | @fwd s t k e p hk ht _ ih =>
    obtain ⟨w', hw', hm⟩ := ih
    obtain ⟨d, hd⟩ := walk_of_adj (adj_parentEdges hc (adj_tail_head hk))
    rw [ht] at hd
    exact ⟨(k, d) :: w', hd.append hw', by simp [hm]⟩
  | @bwd s t k e p hk hh _ ih =>
    obtain ⟨w', hw', hm⟩ := ih
    obtain ⟨d, hd⟩ := walk_of_adj (adj_parentEdges hc (adj_tail_head hk).symm)
    rw [hh] at hd
    exact ⟨(k, d) :: w', hd.append hw', by simp [hm]⟩

/-- `x` is a descendant of node `n+1` in the parent structure `pf` -/
inductive Desc (pf : Nat → Nat) (m n : Nat) : Nat → Prop
  | base : Desc pf m n (n + 1)
  | up {j : Nat} : j < m → Desc pf m n (pf j) → Desc pf m n (j + 1)

/-- The tree on the nodes `0..m` obtained from a rooting of a bridge forest is again a bridge forest. -/
theorem parentEdges_bridgeForest {T : List Edge} (hb : IsBridgeForest T) {c : Nat → Nat} (hc : IsRooting T c) :
    IsBridgeForest (parentEdges (parentOf T c)) := by
  intro n e' he' hreach
  rw [parentEdges_parentOf_getElem?] at he'
  cases hen : T[n]? with
  | none => simp [hen] at he'
  | some en =>
    simp only [hen, Option.map_some, Option.some.injEq] at he'
    subst he'
    simp only at hreach
    have hn := (List.getElem?_eq_some_iff.mp hen).1
    let pf : Nat → Nat := fun j => match T[j]? with
      | some e => nodeIdx c T.length (otherEnd e (c j))
      | none => 0
    -- moving along an edge other than `n` stays among the descendants of `n+1`
    have claim1 : ∀ {j x y}, Adj (parentEdges (parentOf T c)) j x y → j ≠ n → Desc pf T.length n x →
        Desc pf T.length n y := by
      intro j x y hadj hjn hd
      obtain ⟨e, he, hxy⟩ := hadj
      rw [parentEdges_parentOf_getElem?] at he
      cases hej : T[j]? with
      | none => simp [hej] at he
      | some ej =>
        simp only [hej, Option.map_some, Option.some.injEq] at he
        subst he
        have hj := (List.getElem?_eq_some_iff.mp hej).1
        have hpf : pf j = nodeIdx c T.length (otherEnd ej (c j)) := by simp only [pf, hej]
        simp only at hxy
        rcases hxy with ⟨rfl, rfl⟩ | ⟨rfl, rfl⟩
        · cases hd with
          | base => exact absurd rfl hjn
          | up _ h => rw [← hpf]; exact h
        · rw [← hpf] at hd
          exact Desc.up hj hd
    have claim1' : ∀ {x y}, ReachOn (parentEdges (parentOf T c)) (fun j => j ≠ n) x y → Desc pf T.length n x →
        Desc pf T.length n y := by
      intro x y hr
      induction hr with
      | refl => exact id
      | step hp ha _ ih => exact fun hd => ih (claim1 ha hp hd)
    -- descendants of `n+1` are children ends connected to the child end of `n` without using edge `n`
    have claim2 : ∀ {x}, Desc pf T.length n x →
        x = n + 1 ∨ ∃ j, j < T.length ∧ j ≠ n ∧ x = j + 1 ∧ ReachOn T (fun i => i ≠ n) (c j) (c n) := by
      intro x hd
      induction hd with
      | base => exact Or.inl rfl
      | @up j hj _ ih =>
        by_cases hjn : j = n
        · exact Or.inl (by rw [hjn])
        · right
          refine ⟨j, hj, hjn, rfl, ?_⟩
          have hej : T[j]? = some T[j] := List.getElem?_eq_getElem hj
          generalize T[j] = ej at hej
          have hpf : pf j = nodeIdx c T.length (otherEnd ej (c j)) := by simp only [pf, hej]
          have hadj : Adj T j (c j) (otherEnd ej (c j)) := by
            rcases otherEnd_cases (hc.1 j ej hej) with ⟨h1, h2⟩ | ⟨h1, h2⟩
            · exact ⟨ej, hej, Or.inl ⟨h1.symm, h2.symm⟩⟩
            · exact ⟨ej, hej, Or.inr ⟨h1.symm, h2.symm⟩⟩
          rcases ih with h | ⟨i, hi, hin, h, hr⟩
          · rw [hpf] at h
            rw [(nodeIdx_eq_succ h).2]
            exact ReachOn.single hjn hadj
          · rw [hpf] at h
            rw [(nodeIdx_eq_succ h).2] at hr
            exact ReachOn.step hjn hadj hr
    have hd := claim1' hreach Desc.base
    have hother := otherEnd_cases (hc.1 n en hen)
    have hbr := hb n en hen
    rcases claim2 hd with h | ⟨j, hj, hjn, h, hr⟩
    · have := (nodeIdx_eq_succ h).2
      rcases hother with ⟨h1, h2⟩ | ⟨h1, h2⟩
      · rw [h2, h1] at this
        rw [this] at hbr; exact hbr (ReachOn.refl _)
      · rw [h2, h1] at this
        rw [this] at hbr; exact hbr (ReachOn.refl _)
    · have := (nodeIdx_eq_succ h).2
      rw [this] at hr
      rcases hother with ⟨h1, h2⟩ | ⟨h1, h2⟩
      · rw [h2, h1] at hr; exact hbr hr.symm
      · rw [h2, h1] at hr; exact hbr hr

/-! ### orienting the new tree like the arcs of `T` (signed case) -/

/-- arc `i` of the new tree must be reversed iff the tail of arc `i` of `T` is not its child end -/
def orientOf (T : List Edge) (c : Nat → Nat) : List Bool := T.zipIdx.map (fun (e, i) => decide (e.tail ≠ c i))

/-- the edge list `T0` with reversal flags `o` (as in `networkSearch`) -/
def reorient (T0 : List Edge) (o : List Bool) : List Edge := (T0.zip o).map (fun (e, r) => { e with rev := r })

theorem orientOf_length (T : List Edge) (c : Nat → Nat) : (orientOf T c).length = T.length := by
  simp [orientOf]

theorem mem_boolVecs : ∀ (o : List Bool), o ∈ boolVecs o.length := by
  intro o
  induction o with
  | nil => simp [boolVecs]
  | cons b o ih =>
    simp only [List.length_cons, boolVecs, List.mem_flatMap]
    exact ⟨o, ih, by cases b <;> simp⟩

theorem reorient_getElem? (T0 : List Edge) (o : List Bool) (i : Nat) :
    (reorient T0 o)[i]? = match T0[i]?, o[i]? with
      | some e, some r => some { e with rev := r }
      | _, _ => none := by
  unfold reorient
  rw [List.zip, List.map_zipWith, List.getElem?_zipWith]
  cases T0[i]? <;> cases o[i]? <;> rfl

theorem reorient_parent_getElem? (T : List Edge) (c : Nat → Nat) (i : Nat) :
    (reorient (parentEdges (parentOf T c)) (orientOf T c))[i]? =
      (T[i]?).map (fun e => ({ id := i, u := i + 1, v := nodeIdx c T.length (otherEnd e (c i)),
                               rev := decide (e.tail ≠ c i) } : Edge)) := by
  rw [reorient_getElem?, parentEdges_parentOf_getElem?]
  simp only [orientOf, List.getElem?_map, List.getElem?_zipIdx]
  cases T[i]? <;> simp

theorem reorient_parent_length (T : List Edge) (c : Nat → Nat) :
    (reorient (parentEdges (parentOf T c)) (orientOf T c)).length = T.length := by
  simp [reorient, parentEdges, parentOf, orientOf]

/-- being a bridge forest only depends on the unordered ends of the edges -/
theorem IsBridgeForest.of_same_ends {T1 T2 : List Edge}
    (h : ∀ (k : Nat) (e2 : Edge), T2[k]? = some e2 → ∃ e1 : Edge, T1[k]? = some e1 ∧ e1.u = e2.u ∧ e1.v = e2.v) (hb : IsBridgeForest T1) :
    IsBridgeForest T2 := by
  have hadj : ∀ {k x y}, Adj T2 k x y → Adj T1 k x y := by
    rintro k x y ⟨e2, he2, hxy⟩
    obtain ⟨e1, he1, hu, hv⟩ := h k e2 he2
    exact ⟨e1, he1, by rw [hu, hv]; exact hxy⟩
  have hreach : ∀ {P : Nat → Prop} {x y}, ReachOn T2 P x y → ReachOn T1 P x y := by
    intro P x y hr
    induction hr with
    | refl => exact ReachOn.refl _
    | step hp ha _ ih => exact ReachOn.step hp (hadj ha) ih
  intro k e2 he2 hr
  obtain ⟨e1, he1, hu, hv⟩ := h k e2 he2
  exact hb k e1 he1 (by rw [hu, hv]; exact hreach hr)

theorem reorient_bridgeForest {T : List Edge} (hb : IsBridgeForest T) {c : Nat → Nat} (hc : IsRooting T c) :
    IsBridgeForest (reorient (parentEdges (parentOf T c)) (orientOf T c)) := by
  refine IsBridgeForest.of_same_ends ?_ (parentEdges_bridgeForest hb hc)
  intro k e2 he2
  rw [reorient_parent_getElem?] at he2
  rw [parentEdges_parentOf_getElem?]
  cases hT : T[k]? with
  | none => simp [hT] at he2
  | some e =>
    simp only [hT, Option.map_some, Option.some.injEq] at he2
    subst he2
    exact ⟨_, rfl, rfl, rfl⟩

/-- tail and head of the reoriented new arc `k` are the new names of tail and head of arc `k` of `T` -/
theorem reorient_tail_head {T : List Edge} (hb : IsBridgeForest T) {c : Nat → Nat} (hc : IsRooting T c) {k : Nat}
    {e : Edge} (he : T[k]? = some e) :
    ∃ e', (reorient (parentEdges (parentOf T c)) (orientOf T c))[k]? = some e' ∧
      e'.tail = nodeIdx c T.length e.tail ∧ e'.head = nodeIdx c T.length e.head := by
  refine ⟨_, by rw [reorient_parent_getElem?, he]; rfl, ?_⟩
  have hk := (List.getElem?_eq_some_iff.mp he).1
  have hchild := nodeIdx_child hc.2 hk
  have hne : e.u ≠ e.v := fun h => hb k e he (h ▸ ReachOn.refl _)
  have hck := hc.1 k e he
  unfold Edge.tail Edge.head
  simp only
  by_cases ht : (if e.rev then e.v else e.u) = c k
  · have hd : decide ((if e.rev then e.v else e.u) ≠ c k) = false := by simpa using ht
    simp only [hd, Bool.false_eq_true, if_false]
    refine ⟨by rw [ht, hchild], ?_⟩
    congr 1
    unfold otherEnd
    cases hr : e.rev <;> simp only [hr, Bool.false_eq_true, if_false, if_true] at ht ⊢
    · simp [← ht]
    · simp [← ht, hne.symm]
  · have hd : decide ((if e.rev then e.v else e.u) ≠ c k) = true := by simpa using ht
    simp only [hd, if_true]
    unfold otherEnd
    cases hr : e.rev <;> simp only [hr, Bool.false_eq_true, if_false, if_true] at ht ⊢
    · have : c k = e.v := by
        rcases hck with h | h
        · exact absurd h.symm ht
        · exact h
      rw [← this, hchild]
      simp [this, hne.symm]
    · have : c k = e.u := by
        rcases hck with h | h
        · exact h
        · exact absurd h.symm ht
      rw [← this, hchild]
      simp [this]

/-- walks of `T` are walks of the reoriented new tree, with the same steps in the same directions -/
theorem walk_reorient {T : List Edge} (hb : IsBridgeForest T) {c : Nat → Nat} (hc : IsRooting T c) {s t : Nat}
    {w : List (Nat × Bool)} (h : IsWalk T s t w) :
    IsWalk (reorient (parentEdges (parentOf T c)) (orientOf T c)) (nodeIdx c T.length s) (nodeIdx c T.length t) w := by
  induction h with
  | nil => exact IsWalk.nil _
  | @fwd s t k e p hk ht _ ih =>
    obtain ⟨e', he', h1, h2⟩ := reorient_tail_head hb hc hk
    rw [← h2] at ih
    exact IsWalk.fwd he' (by rw [h1, ht]) ih
  | @bwd s t k e p hk hh _ ih =>
    obtain ⟨e', he', h1, h2⟩ := reorient_tail_head hb hc hk
    rw [← h1] at ih
    exact IsWalk.bwd he' (by rw [h2, hh]) ih

end Cmr
