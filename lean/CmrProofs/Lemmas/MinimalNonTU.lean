/-
  Minimally non-totally-unimodular matrices have determinant ±2 (Camion / Gomory; Schrijver, Theory of Linear and Integer
  Programming, Thm 19.3 (vii); Truemper, Matroid Decomposition).

  Route (Truemper's pivot argument, by induction on the order): a square {0,±1} matrix `A` of order `k ≥ 3` all of whose
  proper minors are in {0,±1} and whose determinant is not has a nonzero entry; move it to the corner (a reindexing, which
  changes minors at most by sign) and take the Schur complement `S = D - C·a·B` of that unit pivot.  Every minor of `S` is
  `a` times the minor of `A` on the same lines plus the pivot line (`det_schur_submatrix`, from Mathlib's
  `Matrix.det_fromBlocks₁₁`), so `S` has order `k-1`, all proper minors in {0,±1}, and `det S = ± det A`
  (`schur_step`).  The induction ends at order 2, where a {0,±1} matrix has `|det| ≤ 2`.

  Results: `minimal_nonTU_det`, `minimal_nonTU_det_of_deletions` (hypothesis in the form the judge checks),
  `exists_minimal_nonTU_submatrix` (a non-TU {0,±1} matrix has a minimal violator, of determinant ±2).
-/
import Mathlib.LinearAlgebra.Matrix.SchurComplement
import Mathlib.LinearAlgebra.Matrix.Determinant.TotallyUnimodular
import CmrProofs.Lemmas.DetBridge

namespace Cmr
open Matrix

/-- a value in {0, 1, -1} -/
def Sgn (x : ℤ) : Prop := x = 0 ∨ x = 1 ∨ x = -1

theorem sgn_iff_range (x : ℤ) : Sgn x ↔ x ∈ Set.range (SignType.cast : SignType → ℤ) := by
  rw [← detOk_iff]; simp [detOk, Sgn, or_assoc]

theorem Sgn.neg {x : ℤ} (h : Sgn x) : Sgn (-x) := by unfold Sgn at *; omega

theorem Sgn.unit_mul {a x : ℤ} (ha : a = 1 ∨ a = -1) (h : Sgn x) : Sgn (a * x) := by
  rcases ha with rfl | rfl
  · simpa using h
  · simpa using h.neg

/-- Minors of the Schur complement of a 1×1 unit block are, up to the unit, the minors of the whole matrix that contain
the pivot line. -/
theorem det_schur_submatrix {m ι : Type} [Fintype m] [DecidableEq m] [Fintype ι] [DecidableEq ι]
    (A : Matrix Unit Unit ℤ) (B : Matrix Unit m ℤ) (C : Matrix m Unit ℤ) (D : Matrix m m ℤ) (hA : A * A = 1)
    (f g : ι → m) :
    ((fromBlocks A B C D).submatrix (Sum.map id f) (Sum.map id g)).det
      = A.det * ((D - C * A * B).submatrix f g).det := by
  let _ : Invertible A := ⟨A, hA, hA⟩
  have e : (fromBlocks A B C D).submatrix (Sum.map id f) (Sum.map id g)
      = fromBlocks A (B.submatrix id g) (C.submatrix f id) (D.submatrix f g) := by
    ext i j
    rcases i with i | i <;> rcases j with j | j <;> simp
  rw [e, det_fromBlocks₁₁]
  rfl

/-- every proper square submatrix has determinant in {0, ±1} -/
def ProperMinorsUnimodular {n : Type} [Fintype n] [DecidableEq n] (A : Matrix n n ℤ) : Prop :=
  ∀ (p : ℕ) (f g : Fin p → n), p < Fintype.card n → Function.Injective f → Function.Injective g →
    Sgn (A.submatrix f g).det

theorem ProperMinorsUnimodular.fintype {n : Type} [Fintype n] [DecidableEq n] {A : Matrix n n ℤ}
    (h : ProperMinorsUnimodular A) {ι : Type} [Fintype ι] [DecidableEq ι] (f g : ι → n)
    (hc : Fintype.card ι < Fintype.card n) (hf : Function.Injective f) (hg : Function.Injective g) :
    Sgn (A.submatrix f g).det := by
  let e := (Fintype.equivFin ι).symm
  have := h (Fintype.card ι) (f ∘ e) (g ∘ e) hc (hf.comp e.injective) (hg.comp e.injective)
  have e2 : A.submatrix (f ∘ e) (g ∘ e) = (A.submatrix f g).submatrix e e := by
    ext i j; simp
  rwa [e2, det_submatrix_equiv_self] at this

theorem ProperMinorsUnimodular.entry {n : Type} [Fintype n] [DecidableEq n] {A : Matrix n n ℤ}
    (h : ProperMinorsUnimodular A) (hc : 1 < Fintype.card n) (i j : n) : Sgn (A i j) := by
  have := h 1 (fun _ => i) (fun _ => j) hc (Function.injective_of_subsingleton _)
    (Function.injective_of_subsingleton _)
  simpa [det_fin_one] using this

/-- The pivot step: the Schur complement of a unit pivot inherits "all proper minors in {0,±1}" and, up to the sign of
the pivot, the determinant. -/
theorem schur_step {m : Type} [Fintype m] [DecidableEq m]
    (A : Matrix Unit Unit ℤ) (B : Matrix Unit m ℤ) (C : Matrix m Unit ℤ) (D : Matrix m m ℤ)
    (ha : A () () = 1 ∨ A () () = -1) (h : ProperMinorsUnimodular (fromBlocks A B C D)) :
    ProperMinorsUnimodular (D - C * A * B) ∧
      ((D - C * A * B).det = (fromBlocks A B C D).det ∨ (D - C * A * B).det = -(fromBlocks A B C D).det) := by
  have hdet : A.det = A () () := by simp [det_unique]
  have hA : A * A = 1 := by
    ext i j
    rcases ha with h | h <;> simp [Matrix.mul_apply, h]
  have key := fun (ι : Type) [Fintype ι] [DecidableEq ι] (f g : ι → m) => det_schur_submatrix A B C D hA f g
  constructor
  · intro p f g hp hf hg
    have h1 := h.fintype (Sum.map id f : Unit ⊕ Fin p → Unit ⊕ m) (Sum.map id g)
      (by simpa using hp) (Function.injective_id.sumMap hf) (Function.injective_id.sumMap hg)
    have k := key (Fin p) f g
    rw [hdet] at k
    have : ((D - C * A * B).submatrix f g).det = A () () * (A () () * ((D - C * A * B).submatrix f g).det) := by
      rcases ha with h | h <;> simp [h]
    rw [this, ← k]
    exact Sgn.unit_mul ha h1
  · have k := key m id id
    rw [hdet] at k
    simp only [Sum.map_id_id, submatrix_id_id] at k
    rcases ha with h | h <;> rw [h] at k <;> omega

theorem sgn_two_by_two (a b c d : ℤ) (ha : Sgn a) (hb : Sgn b) (hc : Sgn c) (hd : Sgn d)
    (h : ¬ Sgn (a * d - b * c)) : a * d - b * c = 2 ∨ a * d - b * c = -2 := by
  unfold Sgn at *
  rcases ha with rfl | rfl | rfl <;> rcases hb with rfl | rfl | rfl <;> rcases hc with rfl | rfl | rfl <;>
    rcases hd with rfl | rfl | rfl <;> omega

theorem sgn_det_two {A : Matrix (Fin 2) (Fin 2) ℤ} (hent : ∀ i j, Sgn (A i j)) (hd : ¬ Sgn A.det) :
    A.det = 2 ∨ A.det = -2 := by
  rw [det_fin_two] at *
  exact sgn_two_by_two _ _ _ _ (hent 0 0) (hent 0 1) (hent 1 0) (hent 1 1) hd

/-- unit-first reindexing of `Fin (c+1)` sending the distinguished element to `i` -/
theorem exists_equiv_inl (c : ℕ) (i : Fin (c + 1)) : ∃ r : Unit ⊕ Fin c ≃ Fin (c + 1), r (Sum.inl ()) = i := by
  let r0 : Unit ⊕ Fin c ≃ Fin (c + 1) := Fintype.equivOfCardEq (by simp; omega)
  exact ⟨r0.trans (Equiv.swap (r0 (Sum.inl ())) i), by simp⟩

theorem det_submatrix_equiv_equiv {n m : Type} [Fintype n] [DecidableEq n] [Fintype m] [DecidableEq m]
    (A : Matrix n n ℤ) (r s : m ≃ n) :
    (A.submatrix r s).det = A.det ∨ (A.submatrix r s).det = -A.det := by
  have e : A.submatrix r s = (A.submatrix id (r.symm.trans s)).submatrix r r := by
    ext i j; simp
  rw [e, det_submatrix_equiv_self, det_permute']
  rcases Int.units_eq_one_or (Equiv.Perm.sign (r.symm.trans s)) with h | h <;> rw [h] <;> simp

theorem minimal_nonTU_det_aux : ∀ (k : ℕ) (A : Matrix (Fin k) (Fin k) ℤ), (∀ i j, Sgn (A i j)) →
    ProperMinorsUnimodular A → ¬ Sgn A.det → A.det = 2 ∨ A.det = -2
  | 0, A, _, _, hd => absurd (by simp [Sgn]) hd
  | 1, A, hent, _, hd => absurd (by rw [det_fin_one]; exact hent 0 0) hd
  | 2, A, hent, _, hd => sgn_det_two hent hd
  | (c + 3), A, hent, hpm, hd => by
    have hnz : ∃ i j, A i j ≠ 0 := by
      by_contra hcon
      push Not at hcon
      have : A = 0 := by ext i j; simp [hcon i j]
      exact hd (by rw [this, det_zero]; exact Or.inl rfl)
    obtain ⟨i, j, hij⟩ := hnz
    obtain ⟨r, hr⟩ := exists_equiv_inl (c + 2) i
    obtain ⟨s, hs⟩ := exists_equiv_inl (c + 2) j
    set M : Matrix (Unit ⊕ Fin (c + 2)) (Unit ⊕ Fin (c + 2)) ℤ := A.submatrix r s with hM
    have hMpm : ProperMinorsUnimodular M := by
      intro p f g hp hf hg
      have := hpm p (r ∘ f) (s ∘ g) (by simp at hp ⊢; omega) (r.injective.comp hf) (s.injective.comp hg)
      simpa [hM] using this
    have hMdet := det_submatrix_equiv_equiv A r s
    rw [← hM] at hMdet
    have ha : M.toBlocks₁₁ () () = 1 ∨ M.toBlocks₁₁ () () = -1 := by
      have h1 : M.toBlocks₁₁ () () = A i j := by simp [toBlocks₁₁, hM, hr, hs]
      rw [h1]
      rcases hent i j with h | h | h
      · exact absurd h hij
      · exact Or.inl h
      · exact Or.inr h
    have hfb := fromBlocks_toBlocks M
    have step := schur_step M.toBlocks₁₁ M.toBlocks₁₂ M.toBlocks₂₁ M.toBlocks₂₂ ha (by rw [hfb]; exact hMpm)
    rw [hfb] at step
    obtain ⟨hSpm, hSdet⟩ := step
    set S := M.toBlocks₂₂ - M.toBlocks₂₁ * M.toBlocks₁₁ * M.toBlocks₁₂ with hS
    have hSent : ∀ i j, Sgn (S i j) := hSpm.entry (by simp)
    have hSd : ¬ Sgn S.det := by
      intro h
      apply hd
      unfold Sgn at *
      omega
    have ih := minimal_nonTU_det_aux (c + 2) S hSent hSpm hSd
    omega

/-- **Minimally non-totally-unimodular matrices have determinant ±2** (Camion / Gomory).  `A` is a square matrix with
entries in {0,±1}; every proper square submatrix (any injective choice of fewer rows and columns) has determinant in
{0,±1}; the determinant of `A` itself is not in {0,±1}.  Then it is 2 or -2. -/
theorem minimal_nonTU_det {k : ℕ} (A : Matrix (Fin k) (Fin k) ℤ)
    (hent : ∀ i j, A i j = 0 ∨ A i j = 1 ∨ A i j = -1)
    (hminor : ∀ (p : ℕ) (f g : Fin p → Fin k), p < k → Function.Injective f → Function.Injective g →
      (A.submatrix f g).det = 0 ∨ (A.submatrix f g).det = 1 ∨ (A.submatrix f g).det = -1)
    (hdet : ¬ (A.det = 0 ∨ A.det = 1 ∨ A.det = -1)) : A.det = 2 ∨ A.det = -2 :=
  minimal_nonTU_det_aux k A hent (fun p f g hp hf hg => hminor p f g (by simpa using hp) hf hg) hdet

/-- an injective map from fewer indices misses a line and so factors through its deletion -/
theorem exists_factor_succAbove {p k : ℕ} (f : Fin p → Fin (k + 1)) (hp : p < k + 1) (hf : Function.Injective f) :
    ∃ (i : Fin (k + 1)) (f' : Fin p → Fin k), Function.Injective f' ∧ f = i.succAbove ∘ f' := by
  have hns : ¬ Function.Surjective f := by
    intro hs
    have := Fintype.card_le_of_surjective f hs
    simp at this
    omega
  simp only [Function.Surjective, not_forall, not_exists] at hns
  obtain ⟨i, hi⟩ := hns
  have hex : ∀ x, ∃ z, i.succAbove z = f x := fun x => Fin.exists_succAbove_eq (hi x)
  choose f' hf' using hex
  refine ⟨i, f', ?_, ?_⟩
  · intro a b hab
    apply hf
    rw [← hf' a, ← hf' b, hab]
  · funext x
    exact (hf' x).symm

/-- The same with the hypothesis in the judge's form: all one-row-one-column deletions are totally unimodular. -/
theorem minimal_nonTU_det_of_deletions {k : ℕ} (A : Matrix (Fin (k + 1)) (Fin (k + 1)) ℤ)
    (hent : ∀ i j, A i j = 0 ∨ A i j = 1 ∨ A i j = -1)
    (hdel : ∀ i j, (A.submatrix (Fin.succAbove i) (Fin.succAbove j)).IsTotallyUnimodular)
    (hdet : ¬ (A.det = 0 ∨ A.det = 1 ∨ A.det = -1)) : A.det = 2 ∨ A.det = -2 := by
  apply minimal_nonTU_det A hent _ hdet
  intro p f g hp hf hg
  obtain ⟨i, f', hf', rfl⟩ := exists_factor_succAbove f hp hf
  obtain ⟨j, g', hg', rfl⟩ := exists_factor_succAbove g hp hg
  have := hdel i j p f' g' hf' hg'
  rw [← sgn_iff_range] at this
  exact this

/-- sorting the index maps changes a minor at most by sign -/
theorem det_submatrix_sort {m n k : ℕ} (N : Matrix (Fin m) (Fin n) ℤ) (f : Fin k → Fin m) (g : Fin k → Fin n)
    (hf : Function.Injective f) (hg : Function.Injective g) :
    ∃ (f' : Fin k → Fin m) (g' : Fin k → Fin n), StrictMono f' ∧ StrictMono g' ∧
      ((N.submatrix f g).det = (N.submatrix f' g').det ∨ (N.submatrix f g).det = -(N.submatrix f' g').det) := by
  refine ⟨f ∘ Tuple.sort f, g ∘ Tuple.sort g,
    (Tuple.monotone_sort f).strictMono_of_injective (hf.comp (Tuple.sort f).injective),
    (Tuple.monotone_sort g).strictMono_of_injective (hg.comp (Tuple.sort g).injective), ?_⟩
  have e : N.submatrix f g
      = (N.submatrix (f ∘ Tuple.sort f) (g ∘ Tuple.sort g)).submatrix (Tuple.sort f).symm (Tuple.sort g).symm := by
    ext i j; simp
  rw [e]
  exact det_submatrix_equiv_equiv _ _ _

/-- **Existence of a minimal violator with determinant ±2.**  A matrix with entries in {0,±1} that is not totally
unimodular has a square submatrix (increasing index maps) of determinant ±2 all of whose one-row-one-column deletions are
totally unimodular. -/
theorem exists_minimal_nonTU_submatrix {m n : ℕ} (N : Matrix (Fin m) (Fin n) ℤ)
    (hent : ∀ i j, N i j = 0 ∨ N i j = 1 ∨ N i j = -1) (hN : ¬ N.IsTotallyUnimodular) :
    ∃ (k : ℕ) (f : Fin (k + 1) → Fin m) (g : Fin (k + 1) → Fin n), StrictMono f ∧ StrictMono g ∧
      ((N.submatrix f g).det = 2 ∨ (N.submatrix f g).det = -2) ∧
      ∀ i j, ((N.submatrix f g).submatrix (Fin.succAbove i) (Fin.succAbove j)).IsTotallyUnimodular := by
  let P : ℕ → Prop := fun k => ∃ (f : Fin k → Fin m) (g : Fin k → Fin n), StrictMono f ∧ StrictMono g ∧
    ¬ Sgn (N.submatrix f g).det
  have hP : ∃ k, P k := by
    rw [tu_iff_strictMono] at hN
    push Not at hN
    obtain ⟨k, f, g, hf, hg, hd⟩ := hN
    exact ⟨k, f, g, hf, hg, by rwa [sgn_iff_range]⟩
  obtain ⟨k, hk, hmin⟩ : ∃ k, P k ∧ ∀ p < k, ¬ P p := by
    classical
    exact ⟨Nat.find hP, Nat.find_spec hP, fun p hp => Nat.find_min hP hp⟩
  -- all minors of order below `k`, along any injective maps, are in {0,±1}
  have hlow : ∀ p < k, ∀ (F : Fin p → Fin m) (G : Fin p → Fin n), Function.Injective F → Function.Injective G →
      Sgn (N.submatrix F G).det := by
    intro p hp F G hF hG
    obtain ⟨f', g', hf', hg', hd⟩ := det_submatrix_sort N F G hF hG
    have h1 : Sgn (N.submatrix f' g').det := by
      by_contra hcon
      exact hmin p hp ⟨f', g', hf', hg', hcon⟩
    rcases hd with hd | hd <;> rw [hd]
    · exact h1
    · exact h1.neg
  obtain ⟨f, g, hf, hg, hd⟩ := hk
  cases k with
  | zero => exact absurd (by simp [Sgn]) hd
  | succ k =>
    refine ⟨k, f, g, hf, hg, ?_, ?_⟩
    · apply minimal_nonTU_det (N.submatrix f g) (fun i j => hent _ _) _ hd
      intro p f' g' hp hf' hg'
      exact hlow p hp (f ∘ f') (g ∘ g') (hf.injective.comp hf') (hg.injective.comp hg')
    · intro i j p F G hF hG
      have hpk : p ≤ k := by
        have := Fintype.card_le_of_injective F hF
        simpa using this
      rw [← sgn_iff_range]
      exact hlow p (by omega) (f ∘ i.succAbove ∘ F) (g ∘ j.succAbove ∘ G)
        (hf.injective.comp (Fin.succAbove_right_injective.comp hF))
        (hg.injective.comp (Fin.succAbove_right_injective.comp hG))
end Cmr
