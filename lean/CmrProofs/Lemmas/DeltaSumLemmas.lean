/-
  Δ-sums (3-sums in Schrijver's form) and Y-sums of totally unimodular matrices are totally unimodular — Mathlib level.
  See the header of `CmrProofs/Props/C12Delta.lean` for the derivation.
-/
import CmrProofs.Lemmas.SumsLemmas
import Mathlib.LinearAlgebra.Matrix.SchurComplement
import Mathlib.Tactic.LinearCombination

set_option linter.unusedSimpArgs false
set_option linter.unusedVariables false
set_option linter.unnecessarySeqFocus false
set_option linter.unreachableTactic false
set_option linter.unusedTactic false

namespace Cmr
open Matrix

section detIdentity
variable {R : Type*} [CommRing R] {p r : Type*} [Fintype p] [DecidableEq p] [Fintype r] [DecidableEq r]

/-- bordered matrix `[[0, s | ccᵀ, 0],[-1, 0 | 0, bᵀ],[a, 0 | A, 0],[0, d | 0, D]]` -/
def bordQ (A : Matrix p p R) (D : Matrix r r R) (a : p → R) (d b : r → R) (s : R) (cc : p → R) :
    Matrix (Fin 2 ⊕ (p ⊕ r)) (Fin 2 ⊕ (p ⊕ r)) R :=
  fromBlocks !![0, s; -1, 0]
    (Matrix.of ![Sum.elim cc (fun _ => 0), Sum.elim (fun _ => 0) b])
    (Matrix.of fun i => ![Sum.elim a (fun _ => 0) i, Sum.elim (fun _ => 0) d i])
    (fromBlocks A 0 0 D)

theorem swapNeg_mul_self : (!![0, -1; -1, 0] : Matrix (Fin 2) (Fin 2) R) * !![0, -1; -1, 0] = 1 := by
  ext i j
  fin_cases i <;> fin_cases j <;> simp [Matrix.mul_apply, Fin.sum_univ_two]

theorem det_bordQ_neg_one (A : Matrix p p R) (D : Matrix r r R) (a : p → R) (d b : r → R) (cc : p → R) :
    (bordQ A D a d b (-1) cc).det =
      - (fromBlocks A (Matrix.of fun i j => a i * b j) (Matrix.of fun i j => d i * cc j) D).det := by
  let _ : Invertible (!![0, -1; -1, 0] : Matrix (Fin 2) (Fin 2) R) :=
    ⟨!![0, -1; -1, 0], swapNeg_mul_self, swapNeg_mul_self⟩
  unfold bordQ
  rw [det_fromBlocks₁₁, det_fin_two_of]
  have : ⅟(!![0, -1; -1, 0] : Matrix (Fin 2) (Fin 2) R) = !![0, -1; -1, 0] := rfl
  rw [this]
  have key : fromBlocks A 0 0 D - (Matrix.of fun i => ![Sum.elim a (fun _ => 0) i, Sum.elim (fun _ => 0) d i]) *
      (!![0, -1; -1, 0] : Matrix (Fin 2) (Fin 2) R) * (Matrix.of ![Sum.elim cc (fun _ => 0), Sum.elim (fun _ => 0) b]) =
      fromBlocks A (Matrix.of fun i j => a i * b j) (Matrix.of fun i j => d i * cc j) D := by
    ext i j
    rcases i with i | i <;> rcases j with j | j <;>
      simp [Matrix.mul_apply, Fin.sum_univ_two, Matrix.mul_assoc]
  rw [key]
  ring

/-- the reindexing that groups the border lines with their blocks -/
def bordEquiv (p r : Type*) : (p ⊕ Unit) ⊕ (Unit ⊕ r) ≃ Fin 2 ⊕ (p ⊕ r) where
  toFun := Sum.elim (Sum.elim (fun i => Sum.inr (Sum.inl i)) (fun _ => Sum.inl 0))
    (Sum.elim (fun _ => Sum.inl 1) (fun j => Sum.inr (Sum.inr j)))
  invFun := Sum.elim (fun t => if t = 0 then Sum.inl (Sum.inr ()) else Sum.inr (Sum.inl ()))
    (Sum.elim (fun i => Sum.inl (Sum.inl i)) (fun j => Sum.inr (Sum.inr j)))
  left_inv := by rintro ((i | i) | (j | j)) <;> simp
  right_inv := by
    rintro (t | (i | j))
    · fin_cases t <;> simp
    · simp
    · simp

theorem det_bordQ_zero (A : Matrix p p R) (D : Matrix r r R) (a : p → R) (d b : r → R) (cc : p → R) :
    (bordQ A D a d b 0 cc).det =
      (fromBlocks A (replicateCol Unit a) (replicateRow Unit cc) 0).det *
        (fromBlocks 0 (replicateRow Unit b) (replicateCol Unit d) D).det := by
  rw [← det_submatrix_equiv_self (bordEquiv p r)]
  have key : (bordQ A D a d b 0 cc).submatrix (bordEquiv p r) (bordEquiv p r) =
      fromBlocks (fromBlocks A (replicateCol Unit a) (replicateRow Unit cc) 0) 0
        (fromBlocks 0 (Matrix.of fun _ _ => -1) 0 0)
        (fromBlocks 0 (replicateRow Unit b) (replicateCol Unit d) D) := by
    ext i j
    rcases i with (i | i) | (i | i) <;> rcases j with (j | j) | (j | j) <;>
      simp [bordQ, bordEquiv]
  rw [key, det_fromBlocks_zero₁₂]

theorem det_bordQ_neg_one_zero (A : Matrix p p R) (D : Matrix r r R) (a : p → R) (d b : r → R) :
    (bordQ A D a d b (-1) (fun _ => 0)).det = - (A.det * D.det) := by
  rw [det_bordQ_neg_one]
  have : (Matrix.of fun (i : r) (j : p) => d i * (0 : R)) = 0 := by ext i j; simp
  rw [this, det_fromBlocks_zero₂₁]

theorem det_bordQ_split (A : Matrix p p R) (D : Matrix r r R) (a : p → R) (d b : r → R) (cc : p → R) :
    (bordQ A D a d b (-1) cc).det = (bordQ A D a d b 0 cc).det + (bordQ A D a d b (-1) (fun _ => 0)).det := by
  have h0 : bordQ A D a d b (-1) cc = updateRow (bordQ A D a d b (-1) cc) (Sum.inl 0)
      (bordQ A D a d b 0 cc (Sum.inl 0) + bordQ A D a d b (-1) (fun _ => 0) (Sum.inl 0)) := by
    ext i j
    rcases i with i | i | i
    · fin_cases i <;> rcases j with j | j | j <;> (try fin_cases j) <;> simp [bordQ, updateRow_apply]
    · simp [updateRow_apply]
    · simp [updateRow_apply]
  have h1 : updateRow (bordQ A D a d b (-1) cc) (Sum.inl 0) (bordQ A D a d b 0 cc (Sum.inl 0)) =
      bordQ A D a d b 0 cc := by
    ext i j
    rcases i with i | i | i <;> rcases j with j | j | j <;> (try fin_cases i) <;> (try fin_cases j) <;>
      simp [bordQ, updateRow_apply]
  have h2 : updateRow (bordQ A D a d b (-1) cc) (Sum.inl 0) (bordQ A D a d b (-1) (fun _ => 0) (Sum.inl 0)) =
      bordQ A D a d b (-1) (fun _ => 0) := by
    ext i j
    rcases i with i | i | i <;> rcases j with j | j | j <;> (try fin_cases i) <;> (try fin_cases j) <;>
      simp [bordQ, updateRow_apply]
  rw [h0, det_updateRow_add, h1, h2]

/-- **Determinant of a square matrix with rank-one off-diagonal blocks.** -/
theorem det_fromBlocks_rankOne (A : Matrix p p R) (D : Matrix r r R) (a c : p → R) (b d : r → R) :
    (fromBlocks A (Matrix.of fun i j => a i * b j) (Matrix.of fun i j => d i * c j) D).det =
      A.det * D.det - (fromBlocks A (replicateCol Unit a) (replicateRow Unit c) 0).det *
        (fromBlocks 0 (replicateRow Unit b) (replicateCol Unit d) D).det := by
  have h1 := det_bordQ_neg_one A D a d b c
  have h2 := det_bordQ_split A D a d b c
  rw [det_bordQ_zero, det_bordQ_neg_one_zero, h1] at h2
  linear_combination (-1 : R) * h2

theorem det_bordered_corner₂₂ (A : Matrix p p R) (a c : p → R) (x : R) :
    (fromBlocks A (replicateCol Unit a) (replicateRow Unit c) (Matrix.of fun _ _ => x)).det =
      (fromBlocks A (replicateCol Unit a) (replicateRow Unit c) 0).det + x * A.det := by
  set M := fromBlocks A (replicateCol Unit a) (replicateRow Unit c) (Matrix.of fun _ _ => x) with hM
  set M0 := fromBlocks A (replicateCol Unit a) (replicateRow Unit c) (0 : Matrix Unit Unit R) with hM0
  set Z := fromBlocks A (replicateCol Unit a) (0 : Matrix Unit p R) (Matrix.of fun _ _ => x) with hZ
  have h0 : M = updateRow M (Sum.inr ()) (M0 (Sum.inr ()) + Z (Sum.inr ())) := by
    ext i j
    rcases i with i | i <;> rcases j with j | j <;> simp [hM, hM0, hZ, updateRow_apply]
  have h1 : updateRow M (Sum.inr ()) (M0 (Sum.inr ())) = M0 := by
    ext i j
    rcases i with i | i <;> rcases j with j | j <;> simp [hM, hM0, updateRow_apply]
  have h2 : updateRow M (Sum.inr ()) (Z (Sum.inr ())) = Z := by
    ext i j
    rcases i with i | i <;> rcases j with j | j <;> simp [hM, hZ, updateRow_apply]
  rw [h0, det_updateRow_add, h1, h2, hZ, det_fromBlocks_zero₂₁, det_unique (Matrix.of fun (_ _ : Unit) => x)]
  simp [mul_comm]

theorem det_bordered_corner₁₁ (D : Matrix r r R) (b d : r → R) (y : R) :
    (fromBlocks (Matrix.of fun _ _ => y) (replicateRow Unit b) (replicateCol Unit d) D).det =
      (fromBlocks 0 (replicateRow Unit b) (replicateCol Unit d) D).det + y * D.det := by
  set M := fromBlocks (Matrix.of fun _ _ => y) (replicateRow Unit b) (replicateCol Unit d) D with hM
  set M0 := fromBlocks (0 : Matrix Unit Unit R) (replicateRow Unit b) (replicateCol Unit d) D with hM0
  set Z := fromBlocks (Matrix.of fun _ _ => y) (0 : Matrix Unit r R) (replicateCol Unit d) D with hZ
  have h0 : M = updateRow M (Sum.inl ()) (M0 (Sum.inl ()) + Z (Sum.inl ())) := by
    ext i j
    rcases i with i | i <;> rcases j with j | j <;> simp [hM, hM0, hZ, updateRow_apply]
  have h1 : updateRow M (Sum.inl ()) (M0 (Sum.inl ())) = M0 := by
    ext i j
    rcases i with i | i <;> rcases j with j | j <;> simp [hM, hM0, updateRow_apply]
  have h2 : updateRow M (Sum.inl ()) (Z (Sum.inl ())) = Z := by
    ext i j
    rcases i with i | i <;> rcases j with j | j <;> simp [hM, hZ, updateRow_apply]
  rw [h0, det_updateRow_add, h1, h2, hZ, det_fromBlocks_zero₁₂, det_unique (Matrix.of fun (_ _ : Unit) => y)]
  simp

end detIdentity

theorem signRange_iff (x : ℤ) : x ∈ Set.range (SignType.cast : SignType → ℤ) ↔ x = 0 ∨ x = 1 ∨ x = -1 := by
  constructor
  · rintro ⟨s, rfl⟩
    cases s <;> simp
  · rintro (rfl | rfl | rfl)
    · exact ⟨0, by simp⟩
    · exact ⟨1, by simp⟩
    · exact ⟨-1, by simp⟩

/-- the arithmetic at the heart of the Δ-sum: two pairs of "minor values" tied by `ε`. -/
theorem deltaSum_arith {ε α1 α0 δ1 δ0 : ℤ} (hε : ε = 1 ∨ ε = -1)
    (h1 : α1 ∈ Set.range (SignType.cast : SignType → ℤ)) (h2 : α0 ∈ Set.range (SignType.cast : SignType → ℤ))
    (h3 : α0 + ε * α1 ∈ Set.range (SignType.cast : SignType → ℤ))
    (h4 : δ1 ∈ Set.range (SignType.cast : SignType → ℤ)) (h5 : δ0 ∈ Set.range (SignType.cast : SignType → ℤ))
    (h6 : δ0 + ε * δ1 ∈ Set.range (SignType.cast : SignType → ℤ)) :
    α1 * δ1 - α0 * δ0 ∈ Set.range (SignType.cast : SignType → ℤ) := by
  rw [signRange_iff] at *
  rcases hε with rfl | rfl <;> rcases h1 with rfl | rfl | rfl <;> rcases h2 with rfl | rfl | rfl <;>
    rcases h4 with rfl | rfl | rfl <;> rcases h5 with rfl | rfl | rfl <;> omega
/-- the determinant of a square matrix read through two different enumerations of its index type is `±` its
determinant -/
theorem det_submatrix_equiv_equiv_signRange {k : ℕ} {ρ : Type*} [Fintype ρ] [DecidableEq ρ] (T : Matrix ρ ρ ℤ)
    (e₁ e₂ : Fin k ≃ ρ) (h : T.det ∈ Set.range (SignType.cast : SignType → ℤ)) :
    (T.submatrix e₁ e₂).det ∈ Set.range (SignType.cast : SignType → ℤ) := by
  have e : T.submatrix e₁ e₂ = (T.submatrix id (e₁.symm.trans e₂)).submatrix e₁ e₁ := by
    ext i j; simp
  rw [e, det_submatrix_equiv_self, det_permute']
  refine signRange_mul ?_ h
  rcases Int.units_eq_one_or (Equiv.Perm.sign (e₁.symm.trans e₂)) with h1 | h1 <;> rw [h1]
  · exact ⟨1, by simp⟩
  · exact ⟨-1, by simp⟩

/-- unequal case: more `A`-rows than `A`-columns in the square submatrix -/
theorem deltaSum_det_of_card_lt {k : ℕ} {L R L' R' : Type*} [Fintype L] [Fintype R] [Fintype L'] [Fintype R']
    [DecidableEq L] [DecidableEq R] [DecidableEq L'] [DecidableEq R']
    (A : Matrix L L' ℤ) (a : L → ℤ) (c : L' → ℤ) (b : R' → ℤ) (d : R → ℤ) (D : Matrix R R' ℤ)
    (h10 : (fromBlocks A (replicateCol Unit a) (replicateRow Unit c) 0).IsTotallyUnimodular)
    (h20 : (fromBlocks 0 (replicateRow Unit b) (replicateCol Unit d) D).IsTotallyUnimodular)
    (S : Matrix (Fin k) (Fin k) ℤ) (eR : L ⊕ R ≃ Fin k) (eC : L' ⊕ R' ≃ Fin k)
    (hS : S.submatrix eR eC = fromBlocks A (Matrix.of fun i j => a i * b j) (Matrix.of fun i j => d i * c j) D)
    (hcard : Fintype.card L' + 1 ≤ Fintype.card L) :
    S.det ∈ Set.range (SignType.cast : SignType → ℤ) := by
  have hk := Fintype.card_congr eR
  rw [Fintype.card_sum, Fintype.card_fin] at hk
  have hd : ∀ u, d u ∈ Set.range (SignType.cast : SignType → ℤ) := by
    intro u
    have := h20.apply (Sum.inr u) (Sum.inl ())
    simpa using this
  refine det_signRange_of_factor S eR eC
    (fromBlocks A (fromCols (replicateCol Unit a) 0) (Matrix.of fun i j => d i * c j)
      (fromCols 0 (1 : Matrix R R ℤ)))
    (fromBlocks (1 : Matrix L' L' ℤ) 0 0 (fromRows (replicateRow Unit b) D)) ?_ ?_ ?_ ?_
  · rw [hS, fromBlocks_multiply]
    congr 1
    · simp
    · rw [Matrix.mul_zero, zero_add, fromCols_mul_fromRows]
      ext i j
      simp [Matrix.mul_apply]
    · simp
    · rw [Matrix.mul_zero, zero_add, fromCols_mul_fromRows]
      simp
  · -- `[[A, a, 0],[d cᵀ, 0, 1]]`
    have hX : (fromBlocks A (replicateCol Unit a) (Matrix.of fun i j => d i * c j)
        (0 : Matrix R Unit ℤ)).IsTotallyUnimodular := by
      have := mul_rows_isTotallyUnimodular _ (Sum.elim (fun _ : L => (1 : ℤ)) d)
        (by intro i; rcases i with i | i
            · exact ⟨1, by simp⟩
            · exact hd _)
        (h10.submatrix (Sum.elim (fun t : L => Sum.inl t) (fun _ : R => Sum.inr ())) id)
      convert this using 1
      ext i j
      rcases i with i | i <;> rcases j with j | j <;> simp
    have := ((fromCols_one_isTotallyUnimodular_iff _).mpr hX).submatrix id
      (Sum.elim (fun l => Sum.inl (Sum.inl l)) (Sum.elim (fun u => Sum.inl (Sum.inr u))
        (fun r => Sum.inr (Sum.inr r))) : L' ⊕ (Unit ⊕ R) → (L' ⊕ Unit) ⊕ (L ⊕ R))
    convert this using 1
    ext i j
    rcases i with i | i <;> rcases j with j | j | j <;> simp [Matrix.one_apply]
  · apply fromBlocks_diag_isTotallyUnimodular _ _ one_isTotallyUnimodular
    have := h20.submatrix id (Sum.inr : R' → Unit ⊕ R')
    convert this using 1
    ext i j
    rcases i with i | i <;> simp
  · simp only [Fintype.card_sum, Fintype.card_unit]
    omega

/-- equal case: the `A`-part and the `D`-part of the square submatrix are both square -/
theorem deltaSum_det_of_card_eq {k : ℕ} {L R L' R' : Type*} [Fintype L] [Fintype R] [Fintype L'] [Fintype R']
    [DecidableEq L] [DecidableEq R] [DecidableEq L'] [DecidableEq R']
    (A : Matrix L L' ℤ) (a : L → ℤ) (c : L' → ℤ) (b : R' → ℤ) (d : R → ℤ) (D : Matrix R R' ℤ)
    (ε : ℤ) (hε : ε = 1 ∨ ε = -1)
    (h10 : (fromBlocks A (replicateCol Unit a) (replicateRow Unit c) 0).IsTotallyUnimodular)
    (h1e : (fromBlocks A (replicateCol Unit a) (replicateRow Unit c) (Matrix.of fun _ _ => ε)).IsTotallyUnimodular)
    (h20 : (fromBlocks 0 (replicateRow Unit b) (replicateCol Unit d) D).IsTotallyUnimodular)
    (h2e : (fromBlocks (Matrix.of fun _ _ => ε) (replicateRow Unit b) (replicateCol Unit d) D).IsTotallyUnimodular)
    (S : Matrix (Fin k) (Fin k) ℤ) (eR : L ⊕ R ≃ Fin k) (eC : L' ⊕ R' ≃ Fin k)
    (hS : S.submatrix eR eC = fromBlocks A (Matrix.of fun i j => a i * b j) (Matrix.of fun i j => d i * c j) D)
    (hcard : Fintype.card L = Fintype.card L') :
    S.det ∈ Set.range (SignType.cast : SignType → ℤ) := by
  have hk := Fintype.card_congr eR
  have hk' := Fintype.card_congr eC
  rw [Fintype.card_sum, Fintype.card_fin] at hk hk'
  have hcard' : Fintype.card R = Fintype.card R' := by omega
  let eL : L ≃ L' := Fintype.equivOfCardEq hcard
  let eRr : R ≃ R' := Fintype.equivOfCardEq hcard'
  set T : Matrix (L ⊕ R) (L ⊕ R) ℤ := fromBlocks (A.submatrix id eL) (Matrix.of fun i j => a i * b (eRr j))
    (Matrix.of fun i j => d i * c (eL j)) (D.submatrix id eRr) with hT
  have hST : S = T.submatrix eR.symm ((eC.symm.trans (Equiv.sumCongr eL eRr).symm)) := by
    have : S = (S.submatrix eR eC).submatrix eR.symm eC.symm := by ext i j; simp
    rw [this, hS, hT]
    ext i j
    simp only [submatrix_apply, Equiv.trans_apply]
    rcases eR.symm i with i' | i' <;> rcases eC.symm j with j' | j' <;> simp
  rw [hST]
  apply det_submatrix_equiv_equiv_signRange
  rw [hT, det_fromBlocks_rankOne]
  have hf := fun (M : Matrix (L ⊕ Unit) (L' ⊕ Unit) ℤ) (h : M.IsTotallyUnimodular) =>
    (isTotallyUnimodular_iff_fintype M).mp h
  have hg := fun (M : Matrix (Unit ⊕ R) (Unit ⊕ R') ℤ) (h : M.IsTotallyUnimodular) =>
    (isTotallyUnimodular_iff_fintype M).mp h
  apply deltaSum_arith hε
  · have := hf _ h10 L Sum.inl (fun j => Sum.inl (eL j))
    convert this using 2
    ext i j; simp
  · have := hf _ h10 (L ⊕ Unit) id (Sum.map eL id)
    convert this using 2
    ext i j
    rcases i with i | i <;> rcases j with j | j <;> simp
  · rw [← det_bordered_corner₂₂]
    have := hf _ h1e (L ⊕ Unit) id (Sum.map eL id)
    convert this using 2
    ext i j
    rcases i with i | i <;> rcases j with j | j <;> simp
  · have := hg _ h20 R Sum.inr (fun j => Sum.inr (eRr j))
    convert this using 2
    ext i j; simp
  · have := hg _ h20 (Unit ⊕ R) id (Sum.map id eRr)
    convert this using 2
    ext i j
    rcases i with i | i <;> rcases j with j | j <;> simp
  · rw [← det_bordered_corner₁₁]
    have := hg _ h2e (Unit ⊕ R) id (Sum.map id eRr)
    convert this using 2
    ext i j
    rcases i with i | i <;> rcases j with j | j <;> simp

/-- **Δ-sums and Y-sums preserve total unimodularity (core form).**  If the four bordered matrices
`[[A, a],[cᵀ, 0]]`, `[[A, a],[cᵀ, ε]]`, `[[0, bᵀ],[d, D]]`, `[[ε, bᵀ],[d, D]]` (`ε = ±1`) are totally unimodular, so is
`[[A, a bᵀ],[d cᵀ, D]]`. -/
theorem rankOneSum_isTotallyUnimodular {m m' n n' : Type*} (A : Matrix m n ℤ) (a : m → ℤ) (c : n → ℤ)
    (b : n' → ℤ) (d : m' → ℤ) (D : Matrix m' n' ℤ) (ε : ℤ) (hε : ε = 1 ∨ ε = -1)
    (h10 : (fromBlocks A (replicateCol Unit a) (replicateRow Unit c) 0).IsTotallyUnimodular)
    (h1e : (fromBlocks A (replicateCol Unit a) (replicateRow Unit c) (Matrix.of fun _ _ => ε)).IsTotallyUnimodular)
    (h20 : (fromBlocks 0 (replicateRow Unit b) (replicateCol Unit d) D).IsTotallyUnimodular)
    (h2e : (fromBlocks (Matrix.of fun _ _ => ε) (replicateRow Unit b) (replicateCol Unit d) D).IsTotallyUnimodular) :
    (fromBlocks A (Matrix.of fun i j => a i * b j) (Matrix.of fun i j => d i * c j) D).IsTotallyUnimodular := by
  intro k f g hf hg
  -- sort the rows and the columns of the submatrix by the block they come from
  set eR := Equiv.sumCompl (fun i : Fin k => (f i).isLeft = true) with heR
  set eC := Equiv.sumCompl (fun i : Fin k => (g i).isLeft = true) with heC
  have hfl : ∀ i : {i : Fin k // (f i).isLeft = true}, ∃ a, f i.1 = Sum.inl a := fun i => Sum.isLeft_iff.mp i.2
  have hfr : ∀ i : {i : Fin k // ¬ (f i).isLeft = true}, ∃ a, f i.1 = Sum.inr a := fun i =>
    Sum.isRight_iff.mp (by have := i.2; simpa using this)
  have hgl : ∀ i : {i : Fin k // (g i).isLeft = true}, ∃ a, g i.1 = Sum.inl a := fun i => Sum.isLeft_iff.mp i.2
  have hgr : ∀ i : {i : Fin k // ¬ (g i).isLeft = true}, ∃ a, g i.1 = Sum.inr a := fun i =>
    Sum.isRight_iff.mp (by have := i.2; simpa using this)
  choose fl hfl using hfl
  choose fr hfr using hfr
  choose gl hgl using hgl
  choose gr hgr using hgr
  have hsorted : ((fromBlocks A (Matrix.of fun i j => a i * b j) (Matrix.of fun i j => d i * c j) D).submatrix
        f g).submatrix eR eC =
      fromBlocks (A.submatrix fl gl) (Matrix.of fun i j => a (fl i) * b (gr j))
        (Matrix.of fun i j => d (fr i) * c (gl j)) (D.submatrix fr gr) := by
    ext i j
    rcases i with i | i <;> rcases j with j | j <;>
      simp [heR, heC, Equiv.sumCompl, hgl, hgr, hfl, hfr]
  -- the four bordered matrices restricted to the chosen lines
  have k10 : (fromBlocks (A.submatrix fl gl) (replicateCol Unit fun i => a (fl i))
      (replicateRow Unit fun j => c (gl j)) 0).IsTotallyUnimodular := by
    have := h10.submatrix (Sum.map fl id) (Sum.map gl id)
    convert this using 1
    ext i j
    rcases i with i | i <;> rcases j with j | j <;> simp
  have k1e : (fromBlocks (A.submatrix fl gl) (replicateCol Unit fun i => a (fl i))
      (replicateRow Unit fun j => c (gl j)) (Matrix.of fun _ _ => ε)).IsTotallyUnimodular := by
    have := h1e.submatrix (Sum.map fl id) (Sum.map gl id)
    convert this using 1
    ext i j
    rcases i with i | i <;> rcases j with j | j <;> simp
  have k20 : (fromBlocks 0 (replicateRow Unit fun j => b (gr j)) (replicateCol Unit fun i => d (fr i))
      (D.submatrix fr gr)).IsTotallyUnimodular := by
    have := h20.submatrix (Sum.map id fr) (Sum.map id gr)
    convert this using 1
    ext i j
    rcases i with i | i <;> rcases j with j | j <;> simp
  have k2e : (fromBlocks (Matrix.of fun _ _ => ε) (replicateRow Unit fun j => b (gr j))
      (replicateCol Unit fun i => d (fr i)) (D.submatrix fr gr)).IsTotallyUnimodular := by
    have := h2e.submatrix (Sum.map id fr) (Sum.map id gr)
    convert this using 1
    ext i j
    rcases i with i | i <;> rcases j with j | j <;> simp
  have hcR := Fintype.card_congr eR
  have hcC := Fintype.card_congr eC
  rw [Fintype.card_sum, Fintype.card_fin] at hcR hcC
  rcases Nat.lt_trichotomy (Fintype.card {i : Fin k // (g i).isLeft = true})
    (Fintype.card {i : Fin k // (f i).isLeft = true}) with hlt | heq | hgt
  · exact deltaSum_det_of_card_lt _ _ _ _ _ _ k10 k20 _ eR eC hsorted (by omega)
  · exact deltaSum_det_of_card_eq _ _ _ _ _ _ ε hε k10 k1e k20 k2e _ eR eC hsorted heq.symm
  · -- mirror image: exchange the roles of the two operands
    refine deltaSum_det_of_card_lt (D.submatrix fr gr) (fun i => d (fr i)) (fun j => b (gr j))
      (fun j => c (gl j)) (fun i => a (fl i)) (A.submatrix fl gl) ?_ ?_ _
      ((Equiv.sumComm _ _).trans eR) ((Equiv.sumComm _ _).trans eC) ?_ (by omega)
    · have := k20.submatrix (Sum.swap) (Sum.swap)
      convert this using 1
      ext i j
      rcases i with i | i <;> rcases j with j | j <;> simp
    · have := k10.submatrix (Sum.swap) (Sum.swap)
      convert this using 1
      ext i j
      rcases i with i | i <;> rcases j with j | j <;> simp
    · have : ∀ (M : Matrix (Fin k) (Fin k) ℤ), M.submatrix ((Equiv.sumComm _ _).trans eR)
          ((Equiv.sumComm _ _).trans eC) = (M.submatrix eR eC).submatrix Sum.swap Sum.swap := by
        intro M; ext i j; simp
      rw [this, hsorted]
      ext i j
      rcases i with i | i <;> rcases j with j | j <;> simp

/-- **The Δ-sum (3-sum in Schrijver's form) of totally unimodular matrices is totally unimodular**: if
`M₁ = [[A, a, a],[cᵀ, 0, ε]]` and `M₂ = [[ε, 0, bᵀ],[d, d, D]]` (`ε = ±1`) are totally unimodular, so is
`[[A, a bᵀ],[d cᵀ, D]]`. -/
theorem deltaSum_isTotallyUnimodular {m m' n n' : Type*} (A : Matrix m n ℤ) (a : m → ℤ) (c : n → ℤ)
    (b : n' → ℤ) (d : m' → ℤ) (D : Matrix m' n' ℤ) (ε : ℤ) (hε : ε = 1 ∨ ε = -1)
    (h1 : (fromBlocks A (fromCols (replicateCol Unit a) (replicateCol Unit a)) (replicateRow Unit c)
      (fromCols (0 : Matrix Unit Unit ℤ) (Matrix.of fun (_ _ : Unit) => ε))).IsTotallyUnimodular)
    (h2 : (fromBlocks (fromCols (Matrix.of fun (_ _ : Unit) => ε) (0 : Matrix Unit Unit ℤ)) (replicateRow Unit b)
      (fromCols (replicateCol Unit d) (replicateCol Unit d)) D).IsTotallyUnimodular) :
    (fromBlocks A (Matrix.of fun i j => a i * b j) (Matrix.of fun i j => d i * c j) D).IsTotallyUnimodular := by
  apply rankOneSum_isTotallyUnimodular A a c b d D ε hε
  · have := h1.submatrix id (Sum.map id Sum.inl : n ⊕ Unit → n ⊕ (Unit ⊕ Unit))
    convert this using 1
    ext i j
    rcases i with i | i <;> rcases j with j | j <;> simp
  · have := h1.submatrix id (Sum.map id Sum.inr : n ⊕ Unit → n ⊕ (Unit ⊕ Unit))
    convert this using 1
    ext i j
    rcases i with i | i <;> rcases j with j | j <;> simp
  · have := h2.submatrix id (Sum.map Sum.inr id : Unit ⊕ n' → (Unit ⊕ Unit) ⊕ n')
    convert this using 1
    ext i j
    rcases i with i | i <;> rcases j with j | j <;> simp
  · have := h2.submatrix id (Sum.map Sum.inl id : Unit ⊕ n' → (Unit ⊕ Unit) ⊕ n')
    convert this using 1
    ext i j
    rcases i with i | i <;> rcases j with j | j <;> simp

/-- **The Y-sum of totally unimodular matrices is totally unimodular**: if `M₁ = [[A, a],[cᵀ, 0],[cᵀ, ε]]` and
`M₂ = [[ε, bᵀ],[0, bᵀ],[d, D]]` (`ε = ±1`) are totally unimodular, so is `[[A, a bᵀ],[d cᵀ, D]]`. -/
theorem ySum_isTotallyUnimodular {m m' n n' : Type*} (A : Matrix m n ℤ) (a : m → ℤ) (c : n → ℤ)
    (b : n' → ℤ) (d : m' → ℤ) (D : Matrix m' n' ℤ) (ε : ℤ) (hε : ε = 1 ∨ ε = -1)
    (h1 : (fromBlocks A (replicateCol Unit a) (fromRows (replicateRow Unit c) (replicateRow Unit c))
      (fromRows (0 : Matrix Unit Unit ℤ) (Matrix.of fun (_ _ : Unit) => ε))).IsTotallyUnimodular)
    (h2 : (fromBlocks (fromRows (Matrix.of fun (_ _ : Unit) => ε) (0 : Matrix Unit Unit ℤ))
      (fromRows (replicateRow Unit b) (replicateRow Unit b)) (replicateCol Unit d) D).IsTotallyUnimodular) :
    (fromBlocks A (Matrix.of fun i j => a i * b j) (Matrix.of fun i j => d i * c j) D).IsTotallyUnimodular := by
  apply rankOneSum_isTotallyUnimodular A a c b d D ε hε
  · have := h1.submatrix (Sum.map id Sum.inl : m ⊕ Unit → m ⊕ (Unit ⊕ Unit)) id
    convert this using 1
    ext i j
    rcases i with i | i <;> rcases j with j | j <;> simp
  · have := h1.submatrix (Sum.map id Sum.inr : m ⊕ Unit → m ⊕ (Unit ⊕ Unit)) id
    convert this using 1
    ext i j
    rcases i with i | i <;> rcases j with j | j <;> simp
  · have := h2.submatrix (Sum.map Sum.inr id : Unit ⊕ m' → (Unit ⊕ Unit) ⊕ m') id
    convert this using 1
    ext i j
    rcases i with i | i <;> rcases j with j | j <;> simp
  · have := h2.submatrix (Sum.map Sum.inl id : Unit ⊕ m' → (Unit ⊕ Unit) ⊕ m') id
    convert this using 1
    ext i j
    rcases i with i | i <;> rcases j with j | j <;> simp

/-! ### The same statement for list matrices -/

theorem getD_mem_of_lt {l : List Nat} {i : Nat} (hi : i < l.length) : l.getD i 0 ∈ l := by
  rw [List.getD_eq_getElem?_getD, List.getElem?_eq_getElem hi]
  exact List.getElem_mem hi

theorem getD_lt_of_forall {l : List Nat} {m : Nat} (h : ∀ x ∈ l, x < m) {i : Nat} (hi : i < l.length) :
    l.getD i 0 < m := h _ (getD_mem_of_lt hi)

/-- Δ- and Y-sums of list matrices.  `rows1, cols1` (`rows2, cols2`) are the lines of `M1` (`M2`) that survive;
`(ρ0, γ0)` / `(ρe, γe)` are the row and column of `M1` that border `A` with corner `0` / `ε`, and
`(σ0, τ0)` / `(σe, τe)` those of `M2`.  (Δ-sum: `ρ0 = ρe`, `σ0 = σe`; Y-sum: `γ0 = γe`, `τ0 = τe`.) -/
theorem isTU_rankOne_lists {m1 n1 m2 n2 : Nat} (M1 M2 : Mat) (hTU1 : isTU m1 n1 M1 = true)
    (hTU2 : isTU m2 n2 M2 = true) (rows1 cols1 rows2 cols2 : List Nat)
    (hr1 : ∀ x ∈ rows1, x < m1) (hc1 : ∀ x ∈ cols1, x < n1) (hr2 : ∀ x ∈ rows2, x < m2) (hc2 : ∀ x ∈ cols2, x < n2)
    (ρ0 ρe γ0 γe σ0 σe τ0 τe : Nat) (hρ0 : ρ0 < m1) (hρe : ρe < m1) (hγ0 : γ0 < n1) (hγe : γe < n1)
    (hσ0 : σ0 < m2) (hσe : σe < m2) (hτ0 : τ0 < n2) (hτe : τe < n2)
    (eps : Int) (heps : eps = 1 ∨ eps = -1)
    (z1 : ent M1 ρ0 γ0 = 0) (e1 : ent M1 ρe γe = eps)
    (ha : ∀ x ∈ rows1, ent M1 x γe = ent M1 x γ0) (hc : ∀ y ∈ cols1, ent M1 ρe y = ent M1 ρ0 y)
    (z2 : ent M2 σ0 τ0 = 0) (e2 : ent M2 σe τe = eps)
    (hd : ∀ x ∈ rows2, ent M2 x τ0 = ent M2 x τe) (hb : ∀ y ∈ cols2, ent M2 σ0 y = ent M2 σe y) :
    isTU (rows1.length + rows2.length) (cols1.length + cols2.length)
      (blockMat rows1.length cols1.length rows2.length cols2.length
        (fun i j => ent M1 (rows1.getD i 0) (cols1.getD j 0))
        (fun i j => ent M1 (rows1.getD i 0) γ0 * ent M2 σe (cols2.getD j 0))
        (fun i j => ent M2 (rows2.getD i 0) τe * ent M1 ρ0 (cols1.getD j 0))
        (fun i j => ent M2 (rows2.getD i 0) (cols2.getD j 0))) = true := by
  rw [isTU_iff_submatrix_equiv _ finSumFinEquiv finSumFinEquiv, toMx_blockMat]
  rw [isTU_iff] at hTU1 hTU2
  let fR1 : Fin rows1.length → Fin m1 := fun i => ⟨rows1.getD i 0, getD_lt_of_forall hr1 i.isLt⟩
  let fC1 : Fin cols1.length → Fin n1 := fun i => ⟨cols1.getD i 0, getD_lt_of_forall hc1 i.isLt⟩
  let fR2 : Fin rows2.length → Fin m2 := fun i => ⟨rows2.getD i 0, getD_lt_of_forall hr2 i.isLt⟩
  let fC2 : Fin cols2.length → Fin n2 := fun i => ⟨cols2.getD i 0, getD_lt_of_forall hc2 i.isLt⟩
  apply rankOneSum_isTotallyUnimodular
    (Matrix.of fun (i : Fin rows1.length) (j : Fin cols1.length) => ent M1 (rows1.getD i 0) (cols1.getD j 0))
    (fun i : Fin rows1.length => ent M1 (rows1.getD i 0) γ0) (fun j : Fin cols1.length => ent M1 ρ0 (cols1.getD j 0))
    (fun j : Fin cols2.length => ent M2 σe (cols2.getD j 0)) (fun i : Fin rows2.length => ent M2 (rows2.getD i 0) τe)
    (Matrix.of fun (i : Fin rows2.length) (j : Fin cols2.length) => ent M2 (rows2.getD i 0) (cols2.getD j 0))
    eps heps
  · have := hTU1.submatrix (Sum.elim fR1 (fun _ : Unit => ⟨ρ0, hρ0⟩)) (Sum.elim fC1 (fun _ : Unit => ⟨γ0, hγ0⟩))
    convert this using 1
    ext i j
    rcases i with i | i <;> rcases j with j | j <;> simp [toMx, fR1, fC1, z1]
  · have := hTU1.submatrix (Sum.elim fR1 (fun _ : Unit => ⟨ρe, hρe⟩)) (Sum.elim fC1 (fun _ : Unit => ⟨γe, hγe⟩))
    convert this using 1
    ext i j
    rcases i with i | i <;> rcases j with j | j <;> simp [toMx, fR1, fC1, e1]
    · exact (ha _ (List.getElem_mem i.isLt)).symm
    · exact (hc _ (List.getElem_mem j.isLt)).symm
  · have := hTU2.submatrix (Sum.elim (fun _ : Unit => ⟨σ0, hσ0⟩) fR2) (Sum.elim (fun _ : Unit => ⟨τ0, hτ0⟩) fC2)
    convert this using 1
    ext i j
    rcases i with i | i <;> rcases j with j | j <;> simp [toMx, fR2, fC2, z2]
    · exact (hb _ (List.getElem_mem j.isLt)).symm
    · exact (hd _ (List.getElem_mem i.isLt)).symm
  · have := hTU2.submatrix (Sum.elim (fun _ : Unit => ⟨σe, hσe⟩) fR2) (Sum.elim (fun _ : Unit => ⟨τe, hτe⟩) fC2)
    convert this using 1
    ext i j
    rcases i with i | i <;> rcases j with j | j <;> simp [toMx, fR2, fC2, e2]

end Cmr
