/-
  Helper lemmas about `Cmr.Csr` (core Lean only): the Boolean list predicates of `Csr.consistent` as
  propositions, the prefix-sum list that `Csr.ofDense` builds as `slice`, segments of a flattened list,
  `sparseRow`, and `lookupCol`.
-/
import CmrProofs.Lemmas.MatBasic
import Cmr.Csr
set_option linter.unusedSimpArgs false
set_option linter.unusedVariables false
namespace Cmr

/-! ### The Boolean list predicates -/

theorem monotone_iff (l : List Nat) : monotone l = true ↔ l.Pairwise (· ≤ ·) := by
  induction l with
  | nil => simp [monotone]
  | cons x t ih =>
    cases t with
    | nil => simp [monotone]
    | cons y rest =>
      simp only [monotone, Bool.and_eq_true, decide_eq_true_eq, ih]
      rw [List.pairwise_cons (a := x)]
      constructor
      · rintro ⟨hxy, hp⟩
        refine ⟨?_, hp⟩
        intro a ha
        rcases List.mem_cons.mp ha with rfl | ha
        · exact hxy
        · exact Nat.le_trans hxy ((List.pairwise_cons.mp hp).1 a ha)
      · rintro ⟨hx, hp⟩
        exact ⟨hx y (List.mem_cons_self), hp⟩

theorem strictIncBelow_iff (b : Nat) (l : List Nat) :
    strictIncBelow b l = true ↔ l.Pairwise (· < ·) ∧ ∀ x ∈ l, x < b := by
  induction l with
  | nil => simp [strictIncBelow]
  | cons x t ih =>
    cases t with
    | nil => simp [strictIncBelow]
    | cons y rest =>
      simp only [strictIncBelow, Bool.and_eq_true, decide_eq_true_eq, ih]
      rw [List.pairwise_cons (a := x)]
      constructor
      · rintro ⟨hxy, hp, hb⟩
        have hyb : y < b := hb y List.mem_cons_self
        refine ⟨⟨?_, hp⟩, ?_⟩
        · intro a ha
          rcases List.mem_cons.mp ha with rfl | ha
          · exact hxy
          · exact Nat.lt_trans hxy ((List.pairwise_cons.mp hp).1 a ha)
        · intro a ha
          rcases List.mem_cons.mp ha with rfl | ha
          · exact Nat.lt_trans hxy hyb
          · exact hb a ha
      · rintro ⟨⟨hx, hp⟩, hb⟩
        exact ⟨hx y List.mem_cons_self, hp, fun a ha => hb a (List.mem_cons_of_mem _ ha)⟩

/-! ### Prefix sums: the `slice` list of `Csr.ofDense` -/

/-- running sums `a+l₀, a+l₀+l₁, …` -/
def psums (a : Nat) : List Nat → List Nat
  | [] => []
  | l :: ls => (a + l) :: psums (a + l) ls

/-- The fold that builds `slice`, for an arbitrary accumulator. -/
theorem foldl_slice_eq (acc : List Nat) (lens : List Nat) :
    lens.foldl (fun acc l => acc ++ [acc.getLastD 0 + l]) acc = acc ++ psums (acc.getLastD 0) lens := by
  induction lens generalizing acc with
  | nil => simp [psums]
  | cons l ls ih =>
    simp only [List.foldl_cons, psums]
    rw [ih]
    simp [List.getLastD_eq_getLast?]

theorem length_psums (a : Nat) (lens : List Nat) : (psums a lens).length = lens.length := by
  induction lens generalizing a with
  | nil => rfl
  | cons l ls ih => simp [psums, ih]

theorem getD_cons_psums (a : Nat) (lens : List Nat) (r : Nat) (hr : r ≤ lens.length) :
    (a :: psums a lens).getD r 0 = a + (lens.take r).sum := by
  induction lens generalizing a r with
  | nil =>
    have : r = 0 := by simpa using hr
    subst this; simp
  | cons l ls ih =>
    cases r with
    | zero => simp
    | succ r =>
      have hr' : r ≤ ls.length := by simpa using hr
      have := ih (a + l) r hr'
      simp only [psums, List.getD_cons_succ, List.take_succ_cons, List.sum_cons]
      rw [this]; omega

theorem monotone_cons_psums (a : Nat) (lens : List Nat) : monotone (a :: psums a lens) = true := by
  induction lens generalizing a with
  | nil => simp [psums, monotone]
  | cons l ls ih => simp [psums, monotone, ih]

theorem sum_take_succ (lens : List Nat) (r : Nat) :
    (lens.take (r + 1)).sum = (lens.take r).sum + lens.getD r 0 := by
  induction lens generalizing r with
  | nil => simp
  | cons l ls ih =>
    cases r with
    | zero => simp
    | succ r => simp [ih r]; omega

/-! ### Segments of a flattened list -/

theorem flatten_segment {α : Type} (rows : List (List α)) (r : Nat) :
    ((rows.flatten).drop (((rows.map List.length).take r).sum)).take (rows.getD r []).length
      = rows.getD r [] := by
  induction rows generalizing r with
  | nil => simp
  | cons x xs ih =>
    cases r with
    | zero => simp
    | succ r =>
      have := ih r
      simp only [List.map_cons, List.take_succ_cons, List.sum_cons, List.flatten_cons,
        List.getD_cons_succ]
      rw [List.drop_append, List.drop_eq_nil_of_le (Nat.le_add_right _ _)]
      simpa using this

/-! ### `sparseRow` -/

/-- `sparseRow` with the index counter starting at `k` -/
def sparseRowFrom (k : Nat) (row : List Int) : List (Nat × Int) :=
  (row.zipIdx k).filterMap (fun (x, j) => if x != 0 then some (j, x) else none)

theorem sparseRow_eq (row : List Int) : sparseRow row = sparseRowFrom 0 row := rfl

theorem sparseRowFrom_nil (k : Nat) : sparseRowFrom k [] = [] := rfl

theorem sparseRowFrom_cons (k : Nat) (x : Int) (xs : List Int) :
    sparseRowFrom k (x :: xs) =
      if x ≠ 0 then (k, x) :: sparseRowFrom (k + 1) xs else sparseRowFrom (k + 1) xs := by
  by_cases h : x = 0 <;> simp [sparseRowFrom, List.zipIdx_cons, List.filterMap_cons, h]

theorem mem_sparseRowFrom {k : Nat} {row : List Int} {p : Nat × Int} (h : p ∈ sparseRowFrom k row) :
    k ≤ p.1 ∧ p.1 < k + row.length ∧ p.2 ≠ 0 := by
  induction row generalizing k with
  | nil => simp [sparseRowFrom_nil] at h
  | cons x xs ih =>
    rw [sparseRowFrom_cons] at h
    by_cases hx : x = 0
    · simp only [hx, ne_eq, not_true_eq_false, if_false] at h
      have := ih h
      simp only [List.length_cons]; omega
    · simp only [hx, ne_eq, not_false_eq_true, if_true] at h
      rcases List.mem_cons.mp h with rfl | h
      · simp only [List.length_cons]; exact ⟨Nat.le_refl _, by omega, hx⟩
      · have := ih h
        simp only [List.length_cons]; omega

theorem sparseRowFrom_sorted (k : Nat) (row : List Int) :
    ((sparseRowFrom k row).map Prod.fst).Pairwise (· < ·) := by
  induction row generalizing k with
  | nil => simp [sparseRowFrom_nil]
  | cons x xs ih =>
    rw [sparseRowFrom_cons]
    by_cases hx : x = 0
    · simp only [hx, ne_eq, not_true_eq_false, if_false]; exact ih _
    · simp only [hx, ne_eq, not_false_eq_true, if_true, List.map_cons]
      rw [List.pairwise_cons]
      refine ⟨?_, ih _⟩
      intro a ha
      obtain ⟨p, hp, rfl⟩ := List.mem_map.mp ha
      have := mem_sparseRowFrom hp
      omega

theorem lookupCol_sparseRowFrom (k : Nat) (row : List Int) (j : Nat) :
    lookupCol ((sparseRowFrom k row).map Prod.fst) ((sparseRowFrom k row).map Prod.snd) j
      = if k ≤ j then row.getD (j - k) 0 else 0 := by
  induction row generalizing k with
  | nil => simp [sparseRowFrom_nil, lookupCol]
  | cons x xs ih =>
    rw [sparseRowFrom_cons]
    by_cases hx : x = 0
    · simp only [hx, ne_eq, not_true_eq_false, if_false]
      rw [ih]
      by_cases h1 : k + 1 ≤ j
      · have : j - k = (j - (k + 1)) + 1 := by omega
        simp [h1, this, Nat.le_of_succ_le h1]
      · by_cases h2 : k ≤ j
        · have : j - k = 0 := by omega
          simp [h1, h2, this]
        · simp [h1, h2]
    · simp only [hx, ne_eq, not_false_eq_true, if_true, List.map_cons, lookupCol]
      rw [ih]
      by_cases h0 : k = j
      · subst h0; simp
      · have hb : (k == j) = false := by simpa using h0
        simp only [hb, Bool.false_eq_true, if_false]
        by_cases h1 : k + 1 ≤ j
        · have : j - k = (j - (k + 1)) + 1 := by omega
          simp [h1, this, Nat.le_of_succ_le h1]
        · have h2 : ¬ k ≤ j := by omega
          simp [h1, h2]

theorem lookupCol_sparseRow (row : List Int) (j : Nat) :
    lookupCol ((sparseRow row).map Prod.fst) ((sparseRow row).map Prod.snd) j = row.getD j 0 := by
  rw [sparseRow_eq, lookupCol_sparseRowFrom]; simp

theorem sparseRow_strictIncBelow (row : List Int) :
    strictIncBelow row.length ((sparseRow row).map Prod.fst) = true := by
  rw [strictIncBelow_iff, sparseRow_eq]
  refine ⟨sparseRowFrom_sorted 0 row, ?_⟩
  intro a ha
  obtain ⟨p, hp, rfl⟩ := List.mem_map.mp ha
  have := mem_sparseRowFrom hp
  omega

theorem sparseRow_no_zero (row : List Int) : ∀ p ∈ sparseRow row, p.2 ≠ 0 := by
  intro p hp
  rw [sparseRow_eq] at hp
  exact (mem_sparseRowFrom hp).2.2

/-! ### The fields of `Csr.ofDense` -/

/-- row `i` of `M`, read through `ent`, as `Csr.ofDense` sees it -/
def denseRow (n : Nat) (M : Mat) (i : Nat) : List Int := (List.range n).map (fun j => ent M i j)

/-- the per-row sparse lists that `Csr.ofDense` flattens -/
def ofDenseRows (m n : Nat) (M : Mat) : List (List (Nat × Int)) :=
  (List.range m).map (fun i => sparseRow (denseRow n M i))

theorem length_denseRow (n : Nat) (M : Mat) (i : Nat) : (denseRow n M i).length = n := by
  simp [denseRow]

theorem getD_denseRow (n : Nat) (M : Mat) (i j : Nat) (hj : j < n) : (denseRow n M i).getD j 0 = ent M i j := by
  simp [denseRow, List.getD_eq_getElem?_getD, List.getElem?_map, List.getElem?_range, hj]

theorem length_ofDenseRows (m n : Nat) (M : Mat) : (ofDenseRows m n M).length = m := by
  simp [ofDenseRows]

theorem getD_ofDenseRows (m n : Nat) (M : Mat) (r : Nat) (hr : r < m) :
    (ofDenseRows m n M).getD r [] = sparseRow (denseRow n M r) := by
  simp [ofDenseRows, List.getD_eq_getElem?_getD, List.getElem?_map, List.getElem?_range, hr]

theorem ofDense_numRows (m n : Nat) (M : Mat) : (Csr.ofDense m n M).numRows = m := rfl
theorem ofDense_numCols (m n : Nat) (M : Mat) : (Csr.ofDense m n M).numCols = n := rfl
theorem ofDense_nnz (m n : Nat) (M : Mat) : (Csr.ofDense m n M).nnz = (ofDenseRows m n M).flatten.length := rfl
theorem ofDense_cols (m n : Nat) (M : Mat) :
    (Csr.ofDense m n M).cols = (ofDenseRows m n M).flatten.map Prod.fst := rfl
theorem ofDense_vals (m n : Nat) (M : Mat) :
    (Csr.ofDense m n M).vals = (ofDenseRows m n M).flatten.map Prod.snd := rfl

theorem ofDense_slice (m n : Nat) (M : Mat) :
    (Csr.ofDense m n M).slice = 0 :: psums 0 ((ofDenseRows m n M).map List.length) := by
  show List.foldl _ [0] ((ofDenseRows m n M).map List.length) = _
  rw [foldl_slice_eq]; rfl

theorem ofDense_slice_length (m n : Nat) (M : Mat) : (Csr.ofDense m n M).slice.length = m + 1 := by
  simp [ofDense_slice, length_psums, length_ofDenseRows]

theorem ofDense_slice_getD (m n : Nat) (M : Mat) (r : Nat) (hr : r ≤ m) :
    (Csr.ofDense m n M).slice.getD r 0 = (((ofDenseRows m n M).map List.length).take r).sum := by
  rw [ofDense_slice, getD_cons_psums _ _ _ (by simp [length_ofDenseRows, hr])]; simp

/-- consecutive slice entries differ by the number of nonzeros of the row -/
theorem ofDense_slice_succ (m n : Nat) (M : Mat) (r : Nat) (hr : r < m) :
    (Csr.ofDense m n M).slice.getD (r + 1) 0
      = (Csr.ofDense m n M).slice.getD r 0 + (sparseRow (denseRow n M r)).length := by
  rw [ofDense_slice_getD _ _ _ _ hr, ofDense_slice_getD _ _ _ _ (Nat.le_of_lt hr), sum_take_succ]
  congr 1
  have := getD_ofDenseRows m n M r hr
  simp only [List.getD_eq_getElem?_getD, List.getElem?_map] at this ⊢
  cases h : (ofDenseRows m n M)[r]? with
  | none => simp [h] at this ⊢; simp [this]
  | some x => simp [h] at this ⊢; rw [this]

theorem ofDense_slice_last (m n : Nat) (M : Mat) :
    (Csr.ofDense m n M).slice.getD m 0 = (Csr.ofDense m n M).nnz := by
  rw [ofDense_slice_getD _ _ _ _ (Nat.le_refl _), ofDense_nnz, List.length_flatten]
  rw [List.take_of_length_le (by simp [length_ofDenseRows])]

theorem ofDense_segment (m n : Nat) (M : Mat) (r : Nat) (hr : r < m) :
    (((ofDenseRows m n M).flatten).drop ((Csr.ofDense m n M).slice.getD r 0)).take
        ((Csr.ofDense m n M).slice.getD (r + 1) 0 - (Csr.ofDense m n M).slice.getD r 0)
      = sparseRow (denseRow n M r) := by
  rw [ofDense_slice_succ _ _ _ _ hr, Nat.add_sub_cancel_left, ofDense_slice_getD _ _ _ _ (Nat.le_of_lt hr)]
  have := flatten_segment (ofDenseRows m n M) r
  rw [getD_ofDenseRows _ _ _ _ hr] at this
  exact this

theorem ofDense_rowCols (m n : Nat) (M : Mat) (r : Nat) (hr : r < m) :
    (Csr.ofDense m n M).rowCols r = (sparseRow (denseRow n M r)).map Prod.fst := by
  unfold Csr.rowCols
  simp only [ofDense_cols, ← List.map_drop, ← List.map_take]
  rw [ofDense_segment _ _ _ _ hr]

theorem ofDense_rowVals (m n : Nat) (M : Mat) (r : Nat) (hr : r < m) :
    (Csr.ofDense m n M).rowVals r = (sparseRow (denseRow n M r)).map Prod.snd := by
  unfold Csr.rowVals
  simp only [ofDense_vals, ← List.map_drop, ← List.map_take]
  rw [ofDense_segment _ _ _ _ hr]

/-! ### `lookupCol`: a sorted zero-free sparse row is canonical -/

theorem lookupCol_of_not_mem (cs : List Nat) (vs : List Int) (j : Nat) (h : j ∉ cs) : lookupCol cs vs j = 0 := by
  induction cs generalizing vs with
  | nil => simp [lookupCol]
  | cons c cs ih =>
    cases vs with
    | nil => simp [lookupCol]
    | cons v vs =>
      have hc : (c == j) = false := by
        have : c ≠ j := fun e => h (by simp [e])
        simpa using this
      simp only [lookupCol, hc, Bool.false_eq_true, if_false]
      exact ih vs (fun hm => h (List.mem_cons_of_mem _ hm))

theorem lookupCol_cons_self (c : Nat) (cs : List Nat) (v : Int) (vs : List Int) :
    lookupCol (c :: cs) (v :: vs) c = v := by simp [lookupCol]

/-- A sparse row with strictly increasing columns and no stored zero is determined by its dense values. -/
theorem lookupCol_canonical (cs cs' : List Nat) (vs vs' : List Int)
    (hl : cs.length = vs.length) (hl' : cs'.length = vs'.length)
    (hs : cs.Pairwise (· < ·)) (hs' : cs'.Pairwise (· < ·))
    (hz : ∀ v ∈ vs, v ≠ 0) (hz' : ∀ v ∈ vs', v ≠ 0)
    (h : ∀ j, lookupCol cs vs j = lookupCol cs' vs' j) : cs = cs' ∧ vs = vs' := by
  induction cs generalizing cs' vs vs' with
  | nil =>
    have hv : vs = [] := List.length_eq_zero_iff.mp (by simpa using hl.symm)
    subst hv
    cases cs' with
    | nil =>
      have hv' : vs' = [] := List.length_eq_zero_iff.mp (by simpa using hl'.symm)
      exact ⟨rfl, hv'.symm⟩
    | cons c' cs' =>
      cases vs' with
      | nil => simp at hl'
      | cons v' vs' =>
        have := h c'
        rw [lookupCol_cons_self] at this
        simp only [lookupCol] at this
        exact absurd this.symm (hz' v' List.mem_cons_self)
  | cons c cs ih =>
    cases vs with
    | nil => simp at hl
    | cons v vs =>
      have hv0 : v ≠ 0 := hz v List.mem_cons_self
      have hcs := List.pairwise_cons.mp hs
      cases cs' with
      | nil =>
        have := h c
        rw [lookupCol_cons_self] at this
        simp only [lookupCol] at this
        exact absurd this hv0
      | cons c' cs' =>
        cases vs' with
        | nil => simp at hl'
        | cons v' vs' =>
          have hv0' : v' ≠ 0 := hz' v' List.mem_cons_self
          have hcs' := List.pairwise_cons.mp hs'
          have hcc : c = c' := by
            rcases Nat.lt_trichotomy c c' with hlt | heq | hgt
            · exfalso
              have h1 := h c
              rw [lookupCol_cons_self, lookupCol_of_not_mem (c' :: cs') _ c ?_] at h1
              · exact hv0 h1
              · intro hm
                rcases List.mem_cons.mp hm with e | hm
                · omega
                · have := hcs'.1 c hm; omega
            · exact heq
            · exfalso
              have h1 := h c'
              rw [lookupCol_cons_self, lookupCol_of_not_mem (c :: cs) _ c' ?_] at h1
              · exact hv0' h1.symm
              · intro hm
                rcases List.mem_cons.mp hm with e | hm
                · omega
                · have := hcs.1 c' hm; omega
          subst hcc
          have hvv : v = v' := by
            have := h c
            simpa [lookupCol_cons_self] using this
          subst hvv
          have hnc : c ∉ cs := fun hm => Nat.lt_irrefl _ (hcs.1 c hm)
          have hnc' : c ∉ cs' := fun hm => Nat.lt_irrefl _ (hcs'.1 c hm)
          have htail : ∀ j, lookupCol cs vs j = lookupCol cs' vs' j := by
            intro j
            by_cases hj : c = j
            · subst hj
              rw [lookupCol_of_not_mem _ _ _ hnc, lookupCol_of_not_mem _ _ _ hnc']
            · have hb : (c == j) = false := by simpa using hj
              have := h j
              simpa [lookupCol, hb] using this
          have := ih cs' vs vs' (by simpa using hl) (by simpa using hl') hcs.2 hcs'.2
            (fun x hx => hz x (List.mem_cons_of_mem _ hx)) (fun x hx => hz' x (List.mem_cons_of_mem _ hx)) htail
          exact ⟨by rw [this.1], by rw [this.2]⟩

/-! ### Cutting a list along a monotone slice list -/

theorem getD_le_getD_of_pairwise {s : List Nat} (hs : s.Pairwise (· ≤ ·)) {i j : Nat} (hij : i ≤ j)
    (hj : j < s.length) : s.getD i 0 ≤ s.getD j 0 := by
  have hi : i < s.length := Nat.lt_of_le_of_lt hij hj
  simp only [List.getD_eq_getElem?_getD, List.getElem?_eq_getElem hi, List.getElem?_eq_getElem hj, Option.getD_some]
  rcases Nat.lt_or_eq_of_le hij with hlt | rfl
  · exact (List.pairwise_iff_getElem.mp hs) i j hi hj hlt
  · exact Nat.le_refl _

theorem take_slice_eq_flatten {α : Type} (l : List α) (s : List Nat) (hs : s.Pairwise (· ≤ ·))
    (h0 : s.getD 0 1 = 0) (k : Nat) (hk : k < s.length) :
    l.take (s.getD k 0)
      = ((List.range k).map (fun r => (l.drop (s.getD r 0)).take (s.getD (r + 1) 0 - s.getD r 0))).flatten := by
  induction k with
  | zero =>
    have : s.getD 0 0 = 0 := by
      simp only [List.getD_eq_getElem?_getD, List.getElem?_eq_getElem hk, Option.getD_some] at h0 ⊢
      exact h0
    rw [this]; simp
  | succ k ih =>
    have hle : s.getD k 0 ≤ s.getD (k + 1) 0 := getD_le_getD_of_pairwise hs (Nat.le_succ k) hk
    rw [List.range_succ, List.map_append, List.flatten_append, ← ih (Nat.lt_of_succ_lt hk)]
    simp only [List.map_cons, List.map_nil, List.flatten_cons, List.flatten_nil, List.append_nil]
    have : s.getD (k + 1) 0 = s.getD k 0 + (s.getD (k + 1) 0 - s.getD k 0) := by omega
    rw [this, List.take_add]
    congr 2
    omega

/-! ### Dense helpers: entries of `transpose`, `mapEntries`, `sub` -/

theorem transpose_wf (m n : Nat) (M : Mat) : (transpose m n M).wf n m = true := wf_ofFn _ _ _

theorem ent_transpose (m n : Nat) (M : Mat) (i j : Nat) (hj : j < n) (hi : i < m) :
    ent (transpose m n M) j i = ent M i j := by
  unfold transpose; rw [ent_ofFn _ hj hi]

/-- entries of an entrywise image, for a map fixing 0 (so that out-of-range reads agree) -/
theorem ent_mapEntries (f : Int → Int) (hf : f 0 = 0) (M : Mat) (i j : Nat) :
    ent (M.mapEntries f) i j = f (ent M i j) := by
  unfold ent Mat.mapEntries
  simp only [List.getD_eq_getElem?_getD, List.getElem?_map]
  cases h1 : M[i]? with
  | none => simp [hf]
  | some row =>
    simp only [Option.map_some, Option.getD_some, List.getElem?_map]
    cases h2 : row[j]? with
    | none => simp [hf]
    | some x => simp

theorem ent_support (M : Mat) (i j : Nat) : ent (support M) i j = if ent M i j == 0 then 0 else 1 :=
  ent_mapEntries _ (by simp) M i j

theorem ent_signedSupport (M : Mat) (i j : Nat) :
    ent (signedSupport M) i j = if ent M i j == 0 then 0 else if ent M i j > 0 then 1 else -1 :=
  ent_mapEntries _ (by simp) M i j

theorem mapEntries_mapEntries (f g : Int → Int) (M : Mat) :
    (M.mapEntries f).mapEntries g = M.mapEntries (g ∘ f) := by
  simp [Mat.mapEntries, List.map_map]

theorem ent_sub (M : Mat) (rs cs : List Nat) (i j : Nat) (hi : i < rs.length) (hj : j < cs.length) :
    ent (sub M rs cs) i j = ent M (rs.getD i 0) (cs.getD j 0) := by
  simp [ent, sub, List.getD_eq_getElem?_getD, List.getElem?_map, List.getElem?_eq_getElem hi,
    List.getElem?_eq_getElem hj]

theorem sub_wf (M : Mat) (rs cs : List Nat) : (sub M rs cs).wf rs.length cs.length = true := by
  simp [Mat.wf, sub]

end Cmr
